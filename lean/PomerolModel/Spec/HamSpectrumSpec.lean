/-
  What the spectrum bookkeeping of `Hamiltonian` (`Model/HamSpectrum.lean`) returns (property C03):
  the ground energy is the minimum over all blocks, `getEigenValues` is the concatenation of the block
  spectra, `getEigenValue(state)` is the entry of the state's block at the state's inner position.
-/
import PomerolModel.Model.HamSpectrum
import Mathlib.Data.Real.Basic
import Mathlib.Data.Multiset.AddSub
import Mathlib.Algebra.BigOperators.Group.Multiset.Basic
import Mathlib.Data.List.Nodup
import Mathlib.Tactic.NormNum.Basic
import Mathlib.Tactic.Linarith

namespace Pomerol.Spec.HamSpectrumSpec
open Pomerol.Model Pomerol.Model.HamSpectrum

/-! ## 1. the ground energy -/

/-- the scan of `minCoeff`: the result is an element and a lower bound -/
theorem foldl_min_spec : ∀ (xs : List ℝ) (x : ℝ),
    (xs.foldl (fun m v => if v < m then v else m) x ∈ x :: xs) ∧
    (∀ e ∈ x :: xs, xs.foldl (fun m v => if v < m then v else m) x ≤ e)
  | [], x => by simp
  | y :: ys, x => by
    rw [List.foldl_cons]
    obtain ⟨hmem, hle⟩ := foldl_min_spec ys (if y < x then y else x)
    constructor
    · rcases List.mem_cons.mp hmem with h | h
      · rw [h]
        split_ifs
        · exact List.mem_cons_of_mem _ List.mem_cons_self
        · exact List.mem_cons_self
      · exact List.mem_cons_of_mem _ (List.mem_cons_of_mem _ h)
    · intro e he
      have h0 := hle _ List.mem_cons_self
      rcases List.mem_cons.mp he with rfl | he
      · refine le_trans h0 ?_
        split_ifs with h
        · exact le_of_lt h
        · exact le_refl _
      · rcases List.mem_cons.mp he with rfl | he
        · refine le_trans h0 ?_
          split_ifs with h
          · exact le_refl _
          · exact not_lt.mp h
        · exact hle e (List.mem_cons_of_mem _ he)

/-- `minCoeff` of a non-empty vector is its minimum -/
theorem minCoeff_spec (l : List ℝ) (hl : l ≠ []) :
    ∃ g, minCoeff l = .ok g ∧ g ∈ l ∧ ∀ e ∈ l, g ≤ e := by
  cases l with
  | nil => exact absurd rfl hl
  | cons x xs =>
    obtain ⟨h1, h2⟩ := foldl_min_spec xs x
    exact ⟨_, rfl, h1, h2⟩

/-- `minCoeff` of an empty vector is undefined -/
theorem minCoeff_nil : minCoeff ([] : List ℝ) = .error .emptyVector := rfl

/-- the loop filling `LEV` -/
theorem levLoop_spec : ∀ (parts : List (List ℝ)) (lev : List ℝ), (∀ ev ∈ parts, ev ≠ []) →
    ∃ mins, levLoop parts lev = .ok (lev ++ mins) ∧ mins.length = parts.length ∧
      (∀ g ∈ mins, ∃ ev ∈ parts, g ∈ ev) ∧ (∀ ev ∈ parts, ∃ g ∈ mins, ∀ e ∈ ev, g ≤ e)
  | [], lev, _ => ⟨[], by simp [levLoop], rfl, by simp, by simp⟩
  | ev :: rest, lev, h => by
    obtain ⟨g, hg, hmem, hle⟩ := minCoeff_spec ev (h ev List.mem_cons_self)
    obtain ⟨mins, hm, hlen, h1, h2⟩ :=
      levLoop_spec rest (lev ++ [g]) (fun ev' h' => h ev' (List.mem_cons_of_mem _ h'))
    refine ⟨g :: mins, ?_, by simp [hlen], ?_, ?_⟩
    · rw [levLoop, getMinimumEigenvalue, hg]
      simp only
      rw [hm, List.append_assoc]
      rfl
    · intro g' hg'
      rcases List.mem_cons.mp hg' with rfl | hg'
      · exact ⟨ev, List.mem_cons_self, hmem⟩
      · obtain ⟨ev', he', hge'⟩ := h1 g' hg'
        exact ⟨ev', List.mem_cons_of_mem _ he', hge'⟩
    · intro ev' hev'
      rcases List.mem_cons.mp hev' with rfl | hev'
      · exact ⟨g, List.mem_cons_self, hle⟩
      · obtain ⟨g', hg', hle'⟩ := h2 ev' hev'
        exact ⟨g', List.mem_cons_of_mem _ hg', hle'⟩

/-- **`ground_energy_is_minimum`.**  With at least one block and no empty block,
`Hamiltonian::computeGroundEnergy` returns a number that IS an eigenvalue of some block and is `≤`
every eigenvalue of every block.  (The eigenvalue lists need not be sorted: `minCoeff` scans them
completely.) -/
theorem ground_energy_is_minimum (parts : List (List ℝ)) (hne : parts ≠ [])
    (hblk : ∀ ev ∈ parts, ev ≠ []) :
    ∃ g, groundEnergy parts = some g ∧ (∃ ev ∈ parts, g ∈ ev) ∧
      ∀ ev ∈ parts, ∀ e ∈ ev, g ≤ e := by
  obtain ⟨mins, hm, hlen, h1, h2⟩ := levLoop_spec parts [] hblk
  have hmins : mins ≠ [] := by
    intro h0
    rw [h0] at hlen
    exact hne (List.length_eq_zero_iff.mp hlen.symm)
  obtain ⟨g, hg, hgm, hgle⟩ := minCoeff_spec mins hmins
  refine ⟨g, ?_, h1 g hgm, ?_⟩
  · unfold groundEnergy computeGroundEnergy
    rw [if_neg (lt_irrefl _), hm]
    simp only [List.nil_append]
    rw [if_neg (lt_irrefl _), hg]
    rfl
  · intro ev hev e he
    obtain ⟨g', hg', hle'⟩ := h2 ev hev
    exact le_trans (hgle g' hg') (hle' e he)

/-- without any block the source takes `minCoeff()` of an empty vector -/
theorem ground_energy_no_blocks : groundEnergy ([] : List (List ℝ)) = none := rfl

/-- an empty block makes `getMinimumEigenvalue` undefined -/
theorem ground_energy_empty_block (pre post : List (List ℝ)) (hpre : ∀ ev ∈ pre, ev ≠ []) :
    groundEnergy (pre ++ [] :: post) = none := by
  have hloop : ∀ (pre : List (List ℝ)) (lev : List ℝ), (∀ ev ∈ pre, ev ≠ []) →
      levLoop (pre ++ [] :: post) lev = .error .emptyVector := by
    intro pre
    induction pre with
    | nil => intro lev _; rfl
    | cons ev pre ih =>
      intro lev h
      obtain ⟨g, hg, _, _⟩ := minCoeff_spec ev (h ev List.mem_cons_self)
      rw [List.cons_append, levLoop, getMinimumEigenvalue, hg]
      exact ih _ (fun ev' h' => h ev' (List.mem_cons_of_mem _ h'))
  unfold groundEnergy computeGroundEnergy
  rw [if_neg (lt_irrefl _), hloop pre [] hpre]
  rfl

/-! ## 2. all eigenvalues -/

theorem foldl_append_eq (parts : List (List ℝ)) (acc : List ℝ) :
    parts.foldl (fun out tmp => out ++ tmp) acc = acc ++ parts.flatten := by
  induction parts generalizing acc with
  | nil => simp
  | cons ev parts ih => rw [List.foldl_cons, ih, List.flatten_cons, List.append_assoc]

/-- the copy loop of `getEigenValues` writes the block spectra one after the other, in block order -/
theorem allEigenValues_eq_flatten (parts : List (List ℝ)) : allEigenValues parts = parts.flatten := by
  unfold allEigenValues
  rw [foldl_append_eq, List.nil_append]

/-- **`all_eigenvalues_is_concatenation`.**  As a multiset, the vector returned by
`Hamiltonian::getEigenValues` is the union (with multiplicities) of the spectra of the blocks. -/
theorem all_eigenvalues_is_concatenation (parts : List (List ℝ)) :
    ((allEigenValues parts : List ℝ) : Multiset ℝ)
      = (parts.map fun ev => ((ev : List ℝ) : Multiset ℝ)).sum := by
  rw [allEigenValues_eq_flatten]
  induction parts with
  | nil => simp
  | cons ev parts ih =>
    rw [List.flatten_cons, List.map_cons, List.sum_cons, ← ih, Multiset.coe_add]

/-- `getEigenValues` returns exactly this vector when the block sizes add up to the number of states
(true before `reduce`: C07 `block_sizes_add_up`) -/
theorem getEigenValues_eq (nstates : ℕ) (parts : List (List ℝ))
    (h : (parts.map List.length).sum = nstates) :
    getEigenValues nstates parts = .ok parts.flatten := by
  unfold getEigenValues
  simp only [allEigenValues_eq_flatten, List.length_flatten, h, lt_irrefl, if_false]

/-! ## 3. the eigenvalue of a state -/

/-- **`eigenvalue_lookup`.**  When `S.getBlockNumber(state) = b`, `S.getInnerState(state) = i`
(`Symm.innerState`), `parts[b]` exists and has an `i`-th eigenvalue, `getEigenValue(state)` returns
that entry. -/
theorem eigenvalue_lookup (blkOf : List ℕ) (blocks : List (List ℕ)) (parts : List (List ℝ))
    (state b i : ℕ) (ev : List ℝ) (e : ℝ)
    (hb : blkOf[state]? = some b) (hi : Symm.innerState blkOf blocks state = some i)
    (hp : parts[b]? = some ev) (he : ev[i]? = some e) :
    eigenValueOfState blkOf blocks parts state = .ok e := by
  unfold eigenValueOfState
  rw [hi]
  simp only [hb, hp, he]

theorem findIdx_nodup {l : List ℕ} (hnd : l.Nodup) {i : ℕ} (hi : i < l.length) :
    l.findIdx? (fun x => decide (x = l[i])) = some i := by
  rw [List.findIdx?_eq_some_iff_getElem]
  refine ⟨hi, by simp, ?_⟩
  intro j hji
  have hj : j < l.length := by omega
  simp only [decide_eq_true_eq]
  intro heq
  have := (hnd.getElem_inj_iff (hi := hj) (hj := hi)).mp heq
  omega

/-- **addressing by (block, position).**  With a block table consistent with the lists of states
(C07) and no state listed twice in block `b`: the state listed at position `i` of block `b` has
`getInnerState = i`, and its eigenvalue is entry `i` of the eigenvalue vector of part `b`. -/
theorem eigenvalue_lookup_address (blkOf : List ℕ) (blocks : List (List ℕ))
    (parts : List (List ℝ)) (hcls : ∀ b s, s ∈ blocks.getD b [] → blkOf[s]? = some b)
    (b : Fin blocks.length) (hnd : (blocks.get b).Nodup) (i : ℕ) (hi : i < (blocks.get b).length)
    (ev : List ℝ) (hp : parts[(b : ℕ)]? = some ev) (hlen : i < ev.length) :
    Symm.innerState blkOf blocks ((blocks.get b)[i]) = some i ∧
    eigenValueOfState blkOf blocks parts ((blocks.get b)[i]) = .ok ev[i] := by
  have hget : blocks.getD b [] = blocks.get b := by simp [List.getD_eq_getElem?_getD]
  have hmem : (blocks.get b)[i] ∈ blocks.getD b [] := by
    rw [hget]
    exact List.getElem_mem hi
  have hblk := hcls b _ hmem
  have hinner : Symm.innerState blkOf blocks ((blocks.get b)[i]) = some i := by
    unfold Symm.innerState
    rw [hblk]
    simp only
    rw [hget]
    exact findIdx_nodup hnd hi
  exact ⟨hinner, eigenvalue_lookup blkOf blocks parts _ b i ev _ hblk hinner hp
    (List.getElem?_eq_getElem hlen)⟩

/-- after `reduce` the lookup of a discarded eigenstate reads past the end -/
theorem eigenvalue_lookup_reduced (blkOf : List ℕ) (blocks : List (List ℕ)) (parts : List (List ℝ))
    (state b i : ℕ) (ev : List ℝ)
    (hb : blkOf[state]? = some b) (hi : Symm.innerState blkOf blocks state = some i)
    (hp : parts[b]? = some ev) (hlen : ev.length ≤ i) :
    eigenValueOfState blkOf blocks parts state = .error .outOfRange := by
  unfold eigenValueOfState
  rw [hi]
  simp only [hb, hp, List.getElem?_eq_none hlen]

end Pomerol.Spec.HamSpectrumSpec
