/-
  The loops of the thermal-average routines (`Model/Averages.lean`) compute traces with the density
  matrix on the FULL Fock space (property C09).

  SETTING (chosen to compose with C03 = `Spec/Blocks.lean` and with the existing C09 statements of
  `Spec/Gibbs.lean`).  The theorems quantify over ALL inputs `parts : List (Part ℝ ℂ)` of the model
  (the vector of `DensityMatrixPart`s with their `HamiltonianPart`s) that satisfy the size invariants of
  the library (`WF`: every block has as many Fock states, eigenvalues and weights as the dimension of
  its matrix `H`).  From such an input we READ OFF
    * the block index type `Fin parts.length`, the states of block `b`: `Fin (parts.get b).dim`,
      and the full index type `Idx parts = Σ b, Fin (parts.get b).dim` -- exactly the index type of
      `Matrix.blockDiagonal'` used by `Spec/Blocks.lean` (`BlockEigen`, `block_unitary`, `block_eigen`);
    * `Ublk parts b` = the matrix `H` of block `b` after diagonalisation, as a Mathlib matrix
      (`Ublk parts b f s = U f s`: row = Fock index, column = eigenstate), `Vfull parts` = their
      `blockDiagonal'`: the eigenvector matrix on the full Fock space (column `k` = eigenstate `|k⟩`);
    * `wt`, `en`, `fk`: weight, eigenvalue, Fock state of a full index;
    * `rho parts = V diag(w) V†  = Σ_k w_k |k⟩⟨k|`, the density matrix in the Fock basis.
  With `d : EigenData (Idx parts)` and `wt = d.w` this is `rhoF d (Vfull parts)` of `Spec/Gibbs.lean`
  (`rho_eq_rhoF`), so the results read `Tr(ρ_F ·)` with the Gibbs state of C09; the weights themselves
  are kept general because the trace identities do not depend on what they are.

  CONTENTS.  §0 loops are finite sums; §1 one block; §2 general trace identities (any weights);
  §3 `occupancy_is_trace`, `total_occupancy_is_trace`, `double_occupancy_is_trace`,
  `energy_is_trace(_blocks)`; §4 `ensemble_average_eq_sum`, `ensemble_average_is_trace` (hypothesis
  `EAInput`, incl. the single-target property); §5 satisfiability of the hypotheses, the concrete system
  `exParts` and the regression witness `transposed_amplitudes_differ`; §6 `DensityMatrix::compute`
  establishes the Gibbs weights (`compute_eq`, `compute_gibbs`).

  The number operators are the diagonal matrices of the Jordan-Wigner representation in the Fock basis:
  `n_i = diag [bit i of f]` (`Spec/OpAlgebra.lean: opN_sem`), `N = diag popcount(f)`
  (`C05.N_operator`), `n_i n_j = diag [bit i][bit j]`.
-/
import PomerolModel.Model.Averages
import PomerolModel.Spec.Bridge
import PomerolModel.Spec.Blocks
import Mathlib.Algebra.BigOperators.Fin
import Mathlib.Data.Fintype.BigOperators
import Mathlib.Data.Matrix.Block
import Mathlib.LinearAlgebra.Matrix.Trace
import Mathlib.Tactic.NormNum.Basic
import Mathlib.Tactic.IntervalCases

namespace Pomerol.Spec.AveragesSpec
open Matrix Pomerol Pomerol.Model Pomerol.Model.Averages Pomerol.Spec Pomerol.Spec.Bridge

set_option linter.unusedSectionVars false

/-! ## 0. loops are finite sums -/

/-- a counted loop whose body adds `g k` to the accumulator returns the start value plus the sum -/
theorem loop_sum {M : Type} [AddCommMonoid M] (body : ℕ → M → Except Err M) (g : ℕ → M) :
    ∀ (n k0 : ℕ) (a : M), (∀ k, k0 ≤ k → k < k0 + n → ∀ a, body k a = .ok (a + g k)) →
      loop body n k0 a = .ok (a + ∑ k ∈ Finset.range n, g (k0 + k)) := by
  intro n
  induction n with
  | zero => intro k0 a _; simp [loop]
  | succ n ih =>
    intro k0 a h
    rw [loop, h k0 (le_refl _) (by omega) a]
    simp only
    rw [ih (k0 + 1) (a + g k0) (fun k h1 h2 a' => h k (by omega) (by omega) a'),
      Finset.sum_range_succ', add_assoc]
    congr 2
    rw [add_comm (∑ k ∈ Finset.range n, g (k0 + (k + 1))), Nat.add_zero]
    congr 1
    exact Finset.sum_congr rfl fun k _ => by rw [Nat.add_assoc, Nat.add_comm 1 k]

theorem loop_sum0 {M : Type} [AddCommMonoid M] (body : ℕ → M → Except Err M) (g : ℕ → M) (n : ℕ)
    (h : ∀ k, k < n → ∀ a, body k a = .ok (a + g k)) :
    loop body n 0 0 = .ok (∑ k ∈ Finset.range n, g k) := by
  rw [loop_sum body g n 0 0 (fun k _ hk a => h k (by omega) a), zero_add]
  simp only [Nat.zero_add]

theorem getElem?_some_getD {α : Type} (l : List α) (i : ℕ) (d : α) (h : i < l.length) :
    l[i]? = some (l.getD i d) := by
  simp [List.getD_eq_getElem?_getD, h]

/-- summing over the parts -/
theorem sumParts_sum {M : Type} [AddCommMonoid M] (f : Part ℝ ℂ → Except Err M) (g : Part ℝ ℂ → M) :
    ∀ (parts : List (Part ℝ ℂ)) (a : M), (∀ p ∈ parts, f p = .ok (g p)) →
      sumParts f parts a = .ok (a + (parts.map g).sum) := by
  intro parts
  induction parts with
  | nil => intro a _; simp [sumParts]
  | cons p ps ih =>
    intro a h
    rw [sumParts, h p (List.mem_cons_self ..)]
    simp only
    rw [ih (a + g p) (fun q hq => h q (List.mem_cons_of_mem _ hq)), List.map_cons, List.sum_cons,
      add_assoc]

/-! ## 1. one block -/

/-- the size invariants of one block: as many Fock states, eigenvalues and weights as the dimension of
`H` (`StatesClassification::getBlockSize`, `HamiltonianPart::getSize`, constructor of
`DensityMatrixPart`) -/
structure WFPart (p : Part ℝ ℂ) : Prop where
  fock : p.fock.length = p.dim
  energies : p.energies.length = p.dim
  weights : p.weights.length = p.dim

/-- the value of the common double loop: `Σ_s Σ_fi term(w_s, fock_fi, |U fi s · U fi s|)` -/
theorem fockLoop_eq (p : Part ℝ ℂ) (hp : WFPart p) (term : ℝ → ℕ → ℝ → ℝ) :
    p.fockLoop term = .ok (∑ s ∈ Finset.range p.dim, ∑ fi ∈ Finset.range p.dim,
      term (p.weights.getD s 0) (p.fock.getD fi 0) (Complex.normSq (p.U fi s))) := by
  unfold Part.fockLoop
  rw [hp.weights]
  refine loop_sum0 _ (fun s => ∑ fi ∈ Finset.range p.dim,
      term (p.weights.getD s 0) (p.fock.getD fi 0) (Complex.normSq (p.U fi s))) _ ?_
  intro s _ a
  simp only
  rw [loop_sum _ (fun fi => term (p.weights.getD s 0) (p.fock.getD fi 0)
      (Complex.normSq (p.U fi s))) p.dim 0 a]
  · simp only [Nat.zero_add]
  · intro fi _ hfi a'
    have hlt : fi < p.fock.length := by rw [hp.fock]; omega
    have h1 : p.getFockState fi = .ok (p.fock.getD fi 0) := by
      unfold Part.getFockState
      rw [getElem?_some_getD _ _ 0 hlt]
    rw [h1]
    simp only [Part.weightAt, Part.getEigenState, Bridge.abs_eq, norm_mul,
      Complex.normSq_eq_norm_sq, sq]

theorem avgEnergy_eq (p : Part ℝ ℂ) (hp : WFPart p) :
    p.avgEnergy = .ok (∑ s ∈ Finset.range p.dim, p.weights.getD s 0 * p.energies.getD s 0) := by
  unfold Part.avgEnergy
  rw [hp.weights]
  refine loop_sum0 _ (fun s => p.weights.getD s 0 * p.energies.getD s 0) _ ?_
  intro s hs a
  have hlt : s < p.energies.length := by rw [hp.energies]; exact hs
  have h1 : p.getEigenValue s = .ok (p.energies.getD s 0) := by
    unfold Part.getEigenValue
    rw [getElem?_some_getD _ _ 0 hlt]
  rw [h1]
  rfl

/-! ## 2. a general trace identity (any weights, any square `V`) -/

/-- `Σ_s w_s Σ_f x(f) |V_{fs}|² = Tr(V diag(w) V† diag(x))`: `avg_diagonal` of `Spec/Gibbs.lean` for
arbitrary weights -/
theorem trace_diag_general {ι : Type} [Fintype ι] [DecidableEq ι] (V : Matrix ι ι ℂ)
    (w x : ι → ℝ) :
    ((∑ s, w s * ∑ f, x f * Complex.normSq (V f s) : ℝ) : ℂ)
      = (V * diagonal (fun s => (w s : ℂ)) * Vᴴ * diagonal (fun f => (x f : ℂ))).trace := by
  rw [Matrix.trace]
  simp only [diag_apply, mul_diagonal]
  simp only [Matrix.mul_apply (N := Vᴴ), mul_diagonal, conjTranspose_apply]
  push_cast
  simp only [Finset.mul_sum]
  rw [Finset.sum_comm]
  refine Finset.sum_congr rfl fun f _ => ?_
  rw [Finset.sum_mul]
  refine Finset.sum_congr rfl fun s _ => ?_
  rw [← Complex.mul_conj, Complex.star_def]
  ring

/-- `Σ_s A_ss w_s = Tr(V diag(w) V† A_F)` when `A = V† A_F V`: `avg_operator` of `Spec/Gibbs.lean` for
arbitrary weights -/
theorem trace_operator_general {ι : Type} [Fintype ι] [DecidableEq ι] (V AF : Matrix ι ι ℂ)
    (w : ι → ℝ) :
    (∑ s, (Vᴴ * AF * V) s s * (w s : ℂ))
      = (V * diagonal (fun s => (w s : ℂ)) * Vᴴ * AF).trace := by
  have h : V * diagonal (fun s => (w s : ℂ)) * Vᴴ * AF
      = V * (diagonal (fun s => (w s : ℂ)) * Vᴴ * AF) := by simp only [Matrix.mul_assoc]
  rw [h, Matrix.trace_mul_comm]
  have h2 : diagonal (fun s => (w s : ℂ)) * Vᴴ * AF * V
      = diagonal (fun s => (w s : ℂ)) * (Vᴴ * AF * V) := by simp only [Matrix.mul_assoc]
  rw [h2, Matrix.trace]
  simp only [diag_apply, diagonal_mul]
  exact Finset.sum_congr rfl fun s _ => mul_comm _ _

/-- `Σ_s w_s E_s = Tr(V diag(w) V† H)` when `V†V = 1` and `H V = V diag(E)` -/
theorem trace_energy_general {ι : Type} [Fintype ι] [DecidableEq ι] (V H : Matrix ι ι ℂ)
    (w E : ι → ℝ) (hV : Vᴴ * V = 1) (hH : H * V = V * diagonal (fun s => (E s : ℂ))) :
    ((∑ s, w s * E s : ℝ) : ℂ) = (V * diagonal (fun s => (w s : ℂ)) * Vᴴ * H).trace := by
  have h : V * diagonal (fun s => (w s : ℂ)) * Vᴴ * H
      = V * (diagonal (fun s => (w s : ℂ)) * Vᴴ * H) := by simp only [Matrix.mul_assoc]
  rw [h, Matrix.trace_mul_comm]
  have h2 : diagonal (fun s => (w s : ℂ)) * Vᴴ * H * V
      = diagonal (fun s => (w s : ℂ)) * (Vᴴ * (H * V)) := by simp only [Matrix.mul_assoc]
  rw [h2, hH, ← Matrix.mul_assoc Vᴴ, hV, Matrix.one_mul, diagonal_mul_diagonal, trace_diagonal]
  push_cast
  rfl

/-! ## 3. all blocks: the full Fock space -/

section Full
variable (parts : List (Part ℝ ℂ))

/-- all blocks satisfy the size invariants -/
def WF : Prop := ∀ p ∈ parts, WFPart p

/-- the index type of the full Fock space / of all eigenstates: (block, inner index) -/
abbrev Idx : Type := Σ b : Fin parts.length, Fin (parts.get b).dim

/-- the eigenvector matrix of block `b`: row = Fock (inner) index, column = eigenstate -/
def Ublk (b : Fin parts.length) : Matrix (Fin (parts.get b).dim) (Fin (parts.get b).dim) ℂ :=
  Matrix.of fun f s => (parts.get b).U f s

/-- the eigenvector matrix on the full Fock space -/
def Vfull : Matrix (Idx parts) (Idx parts) ℂ := blockDiagonal' (Ublk parts)

/-- weight / eigenvalue of eigenstate `k`, Fock state number `k`, number of modes -/
def wt (k : Idx parts) : ℝ := (parts.get k.1).weights.getD k.2 0
def en (k : Idx parts) : ℝ := (parts.get k.1).energies.getD k.2 0
def fk (k : Idx parts) : ℕ := (parts.get k.1).fock.getD k.2 0
def nm (k : Idx parts) : ℕ := (parts.get k.1).nmodes

/-- the density matrix in the Fock basis: `ρ = V diag(w) V† = Σ_k w_k |k⟩⟨k|`, `|k⟩` = column `k` of `V` -/
noncomputable def rho : Matrix (Idx parts) (Idx parts) ℂ :=
  Vfull parts * diagonal (fun k => (wt parts k : ℂ)) * (Vfull parts)ᴴ

/-- it IS the Fock-basis Gibbs state `rhoF` of `Spec/Gibbs.lean` when the weights are the Gibbs
weights -/
theorem rho_eq_rhoF (d : EigenData (Idx parts)) (hw : ∀ k, wt parts k = d.w k) :
    rho parts = rhoF d (Vfull parts) := by
  unfold rho rhoF EigenData.ρ
  simp only [hw]

/-- the library's formula for a Fock-diagonal observable `x` written over the FULL Fock space:
`Σ_k w_k Σ_f x(f) |V_{fk}|²` -/
noncomputable def diagValue (x : Idx parts → ℝ) : ℝ :=
  ∑ k, wt parts k * ∑ f, x f * Complex.normSq (Vfull parts f k)

theorem diagValue_is_trace (x : Idx parts → ℝ) :
    ((diagValue parts x : ℝ) : ℂ) = (rho parts * diagonal (fun f => (x f : ℂ))).trace :=
  trace_diag_general (Vfull parts) (wt parts) x

/-- because `V` is block diagonal only the Fock states of the eigenstate's own block contribute -/
theorem diagValue_blocks (x : Idx parts → ℝ) :
    diagValue parts x = ∑ b : Fin parts.length, ∑ s : Fin (parts.get b).dim,
      ∑ f : Fin (parts.get b).dim,
        wt parts ⟨b, s⟩ * x ⟨b, f⟩ * Complex.normSq ((parts.get b).U f s) := by
  unfold diagValue
  rw [Fintype.sum_sigma]
  refine Finset.sum_congr rfl fun b _ => Finset.sum_congr rfl fun s _ => ?_
  rw [Fintype.sum_sigma, Finset.sum_eq_single b]
  · rw [Finset.mul_sum]
    refine Finset.sum_congr rfl fun f _ => ?_
    rw [Vfull, blockDiagonal'_apply_eq, Ublk, Matrix.of_apply, mul_assoc]
  · intro b' _ hne
    refine Finset.sum_eq_zero fun f _ => ?_
    rw [Vfull, blockDiagonal'_apply_ne _ _ _ hne, map_zero, mul_zero]
  · intro h; exact absurd (Finset.mem_univ b) h

/-- the loop over the parts of the common double loop, for a summand of the form `w · x(f) · |v|²` -/
theorem dm_fockLoop (hwf : WF parts) (term : Part ℝ ℂ → ℝ → ℕ → ℝ → ℝ) (xf : Part ℝ ℂ → ℕ → ℝ)
    (hterm : ∀ p w f a, term p w f a = w * xf p f * a) :
    sumParts (fun p => p.fockLoop (term p)) parts 0
      = .ok (diagValue parts fun k => xf (parts.get k.1) (fk parts k)) := by
  rw [sumParts_sum _ (fun p => ∑ s ∈ Finset.range p.dim, ∑ fi ∈ Finset.range p.dim,
      term p (p.weights.getD s 0) (p.fock.getD fi 0) (Complex.normSq (p.U fi s))) parts 0
      (fun p hp => fockLoop_eq p (hwf p hp) (term p)), zero_add, diagValue_blocks,
    ← Fin.sum_univ_fun_getElem]
  refine congrArg _ (Finset.sum_congr rfl fun b _ => ?_)
  rw [Finset.sum_range]
  refine Finset.sum_congr rfl fun s _ => ?_
  rw [Finset.sum_range]
  refine Finset.sum_congr rfl fun f _ => ?_
  rw [hterm]
  rfl

/-! ### the observables -/

/-- `n_i` in the Fock basis: the diagonal Jordan-Wigner number operator, `⟨f|n_i|f⟩ = [bit i of f]` -/
def numberOp (i : ℕ) : Matrix (Idx parts) (Idx parts) ℂ :=
  diagonal fun k => if (fk parts k).testBit i then 1 else 0

/-- `N = Σ_i n_i` in the Fock basis: `⟨f|N|f⟩ = popcount(f)` -/
def totalNumberOp : Matrix (Idx parts) (Idx parts) ℂ :=
  diagonal fun k => ((popCount (fk parts k) (nm parts k) : ℕ) : ℂ)

theorem ofBool_eq (b : Bool) : (Part.ofBool b : ℝ) = if b then 1 else 0 := by
  cases b <;> simp [Part.ofBool]

/-- the value `getAverageOccupancy(i)` returns, as a sum over the full Fock space:
`Σ_k w_k Σ_f |V_{fk}|² [bit i of f]` -/
noncomputable def occValue (i : ℕ) : ℝ :=
  diagValue parts fun k => if (fk parts k).testBit i then 1 else 0
noncomputable def totalOccValue : ℝ :=
  diagValue parts fun k => ((popCount (fk parts k) (nm parts k) : ℕ) : ℝ)
noncomputable def doubleOccValue (i j : ℕ) : ℝ :=
  diagValue parts fun k => if (fk parts k).testBit i ∧ (fk parts k).testBit j then 1 else 0
noncomputable def energyValue : ℝ := ∑ k, wt parts k * en parts k

/-- **`DensityMatrix::getAverageOccupancy(i)` returns `Tr(ρ n_i)`** (and does not throw). -/
theorem occupancy_is_trace (hwf : WF parts) (i : ℕ) :
    DM.avgOccupancy parts i = .ok (occValue parts i) ∧
    ((occValue parts i : ℝ) : ℂ) = (rho parts * numberOp parts i).trace := by
  constructor
  · exact dm_fockLoop parts hwf (fun _ w f a => w * Part.ofBool (f.testBit i) * a)
      (fun _ f => if f.testBit i then 1 else 0) (fun p w f a => by rw [ofBool_eq])
  · unfold occValue numberOp
    rw [diagValue_is_trace]
    congr 3
    funext k
    split_ifs <;> simp

/-- **`DensityMatrix::getAverageOccupancy()` returns `Tr(ρ N)`.** -/
theorem total_occupancy_is_trace (hwf : WF parts) :
    DM.avgOccupancyTotal parts = .ok (totalOccValue parts) ∧
    ((totalOccValue parts : ℝ) : ℂ) = (rho parts * totalNumberOp parts).trace := by
  constructor
  · exact dm_fockLoop parts hwf (fun p w f a => w * ((popCount f p.nmodes : ℕ) : ℝ) * a)
      (fun p f => ((popCount f p.nmodes : ℕ) : ℝ)) (fun p w f a => rfl)
  · unfold totalOccValue totalNumberOp
    rw [diagValue_is_trace]
    congr 3

/-- **`DensityMatrix::getAverageDoubleOccupancy(i,j)` returns `Tr(ρ n_i n_j)`.** -/
theorem double_occupancy_is_trace (hwf : WF parts) (i j : ℕ) :
    DM.avgDoubleOccupancy parts i j = .ok (doubleOccValue parts i j) ∧
    ((doubleOccValue parts i j : ℝ) : ℂ)
      = (rho parts * (numberOp parts i * numberOp parts j)).trace := by
  constructor
  · refine dm_fockLoop parts hwf
      (fun _ w f a => w * Part.ofBool (f.testBit i) * Part.ofBool (f.testBit j) * a)
      (fun _ f => if f.testBit i ∧ f.testBit j then 1 else 0) (fun p w f a => ?_)
    rw [ofBool_eq, ofBool_eq]
    cases f.testBit i <;> cases f.testBit j <;> simp
  · unfold doubleOccValue numberOp
    rw [diagValue_is_trace, diagonal_mul_diagonal]
    congr 3
    funext k
    cases (fk parts k).testBit i <;> cases (fk parts k).testBit j <;> simp

theorem dm_avgEnergy (hwf : WF parts) : DM.avgEnergy parts = .ok (energyValue parts) := by
  unfold DM.avgEnergy energyValue
  rw [sumParts_sum _ (fun p => ∑ s ∈ Finset.range p.dim,
      p.weights.getD s 0 * p.energies.getD s 0) parts 0
      (fun p hp => avgEnergy_eq p (hwf p hp)), zero_add, Fintype.sum_sigma,
    ← Fin.sum_univ_fun_getElem]
  refine congrArg _ (Finset.sum_congr rfl fun b _ => ?_)
  rw [Finset.sum_range]
  rfl

/-- **`DensityMatrix::getAverageEnergy()` returns `Tr(ρ H)`** for every Hamiltonian `H` on the full
Fock space that the eigenvector matrix diagonalises: `V†V = 1`, `H V = V diag(E)`. -/
theorem energy_is_trace (hwf : WF parts) (H : Matrix (Idx parts) (Idx parts) ℂ)
    (hV : (Vfull parts)ᴴ * Vfull parts = 1)
    (hH : H * Vfull parts = Vfull parts * diagonal (fun k => (en parts k : ℂ))) :
    DM.avgEnergy parts = .ok (energyValue parts) ∧
    ((energyValue parts : ℝ) : ℂ) = (rho parts * H).trace :=
  ⟨dm_avgEnergy parts hwf, trace_energy_general (Vfull parts) H (wt parts) (en parts) hV hH⟩

/-- the same with the per-block post-condition of the eigen-solver (`BlockEigen` of C03): `H` is the
block-diagonal Hamiltonian `blockDiagonal' Hb` -/
theorem energy_is_trace_blocks (hwf : WF parts)
    (Hb : ∀ b : Fin parts.length, Matrix (Fin (parts.get b).dim) (Fin (parts.get b).dim) ℂ)
    (h : BlockEigen (m := fun b : Fin parts.length => Fin (parts.get b).dim) Hb (Ublk parts)
      (fun b i => en parts ⟨b, i⟩)) :
    DM.avgEnergy parts = .ok (energyValue parts) ∧
    ((energyValue parts : ℝ) : ℂ) = (rho parts * blockDiagonal' Hb).trace :=
by
  have h1 := (block_unitary (Ublk parts) h.unitary).1
  have h2 := block_eigen h
  exact energy_is_trace parts hwf (blockDiagonal' Hb) h1 h2

end Full

/-! ## 4. `EnsembleAverage` -/

/-- `EnsembleAverage::compute` for one diagonal block: `Σ_k A.coeff(k,k) · w_k` -/
theorem ea_compute_eq (A : GFPart.SpMat ℂ) (p : Part ℝ ℂ) (hp : WFPart p) (hA : A.length = p.dim) :
    EA.compute A p
      = .ok (∑ k ∈ Finset.range p.dim, EA.coeff A k k * ((p.weights.getD k 0 : ℝ) : ℂ)) := by
  unfold EA.compute
  rw [hA]
  refine loop_sum0 _ (fun k => EA.coeff A k k * ((p.weights.getD k 0 : ℝ) : ℂ)) _ ?_
  intro k hk a
  have hlt : k < p.weights.length := by rw [hp.weights]; exact hk
  have h1 : p.getWeight k = .ok (p.weights.getD k 0) := by
    unfold Part.getWeight
    rw [getElem?_some_getD _ _ 0 hlt]
  rw [h1]
  rfl

/-- the loop of `EnsembleAverage::prepare`: the sum of the block results over the diagonal pairs of
the mapping -/
theorem prepareLoop_sum (pfl : ℕ → GFPart.SpMat ℂ) (dm : List (Part ℝ ℂ)) (g : ℕ → ℂ)
    (hret : ∀ p ∈ dm, p.retained = true) :
    ∀ (mapping : List (ℕ × ℕ)) (acc : ℂ),
      (∀ lr ∈ mapping, lr.1 = lr.2 →
        ∃ h : lr.1 < dm.length, EA.compute (pfl lr.1) dm[lr.1] = .ok (g lr.1)) →
      EA.prepareLoop pfl dm mapping acc
        = .ok (acc + ((mapping.filter (fun lr => lr.1 = lr.2)).map (fun lr => g lr.1)).sum) := by
  intro mapping
  induction mapping with
  | nil => intro acc _; simp [EA.prepareLoop]
  | cons lr rest ih =>
    intro acc h
    obtain ⟨l, r⟩ := lr
    have hrest : ∀ lr ∈ rest, lr.1 = lr.2 →
        ∃ h : lr.1 < dm.length, EA.compute (pfl lr.1) dm[lr.1] = .ok (g lr.1) :=
      fun lr hlr => h lr (List.mem_cons_of_mem _ hlr)
    rw [EA.prepareLoop]
    by_cases hlr : l = r
    · obtain ⟨hlt, hc⟩ := h (l, r) (List.mem_cons_self ..) hlr
      simp only at hlt hc
      rw [if_pos hlr, List.getElem?_eq_getElem hlt]
      simp only
      rw [if_pos (hret _ (List.getElem_mem hlt)), hc]
      simp only
      rw [ih _ hrest, List.filter_cons_of_pos (by simpa using hlr), List.map_cons, List.sum_cons,
        add_assoc]
    · rw [if_neg hlr, ih _ hrest, List.filter_cons_of_neg (by simpa using hlr)]

section EAFull
variable (parts : List (Part ℝ ℂ))

/-- What `EnsembleAverage::prepare` is given, related to the matrix `A` of the operator in the
eigenbasis (indexed by (block, inner index) on both sides):
* `mapping` (the left view of the block bimap, pairs `(left block, right block)`) has no repeated pair
  and only mentions existing blocks;
* `support`: EVERY non-zero matrix element `A k l` lies in a listed block pair.  Since the bimap is
  built as `{(mapsTo r, r)}` with ONE left block per right block, this is precisely the single-target
  property of C07 ("the operator maps a block into a single block", `C07.quadratic_single_target`);
  see `support_of_single_target`;
* for every listed DIAGONAL pair `(b,b)` the stored row-major matrix of the part has one row per state
  of the block and its diagonal coefficients are those of `A` (exact idealisation of the tolerance
  pruning `sparseView(MatrixElementTolerance)`). -/
structure EAInput (mapping : List (ℕ × ℕ)) (pfl : ℕ → GFPart.SpMat ℂ)
    (A : Matrix (Idx parts) (Idx parts) ℂ) : Prop where
  nodup : mapping.Nodup
  inRange : ∀ lr ∈ mapping, lr.1 < parts.length ∧ lr.2 < parts.length
  support : ∀ k l : Idx parts, A k l ≠ 0 → ((k.1 : ℕ), (l.1 : ℕ)) ∈ mapping
  rows : ∀ b : Fin parts.length, ((b : ℕ), (b : ℕ)) ∈ mapping →
    (pfl b).length = (parts.get b).dim
  entries : ∀ b : Fin parts.length, ((b : ℕ), (b : ℕ)) ∈ mapping →
    ∀ i : Fin (parts.get b).dim, EA.coeff (pfl b) i i = A ⟨b, i⟩ ⟨b, i⟩

/-- the `support` hypothesis from the single-target property: `tgt r` = `mapsTo(r)` (the left block of
right block `r`, if any), the mapping lists all pairs `(tgt r, r)`, and `A` has matrix elements only
from block `r` into block `tgt r` -/
theorem support_of_single_target (mapping : List (ℕ × ℕ)) (A : Matrix (Idx parts) (Idx parts) ℂ)
    (tgt : Fin parts.length → Option (Fin parts.length))
    (hmap : ∀ r l, tgt r = some l → ((l : ℕ), (r : ℕ)) ∈ mapping)
    (hsingle : ∀ k l : Idx parts, A k l ≠ 0 → tgt l.1 = some k.1) :
    ∀ k l : Idx parts, A k l ≠ 0 → ((k.1 : ℕ), (l.1 : ℕ)) ∈ mapping :=
  fun k l h => hmap l.1 k.1 (hsingle k l h)

/-- the result of the block `b` (a natural number, as in the mapping) -/
noncomputable def blockValue (A : Matrix (Idx parts) (Idx parts) ℂ) (b : ℕ) : ℂ :=
  if h : b < parts.length then
    ∑ i : Fin (parts.get ⟨b, h⟩).dim, A ⟨⟨b, h⟩, i⟩ ⟨⟨b, h⟩, i⟩ * (wt parts ⟨⟨b, h⟩, i⟩ : ℂ)
  else 0

theorem blockValue_fin (A : Matrix (Idx parts) (Idx parts) ℂ) (b : Fin parts.length) :
    blockValue parts A b = ∑ i : Fin (parts.get b).dim, A ⟨b, i⟩ ⟨b, i⟩ * (wt parts ⟨b, i⟩ : ℂ) := by
  unfold blockValue
  rw [dif_pos b.2]

/-- **`EnsembleAverage::prepare` returns `Σ_k A_kk w_k` over ALL eigenstates `k`** when every block is
retained and the operator has the single-target property. -/
theorem ensemble_average_eq_sum (hwf : WF parts) (hret : ∀ p ∈ parts, p.retained = true)
    (mapping : List (ℕ × ℕ)) (pfl : ℕ → GFPart.SpMat ℂ) (A : Matrix (Idx parts) (Idx parts) ℂ)
    (h : EAInput parts mapping pfl A) :
    EA.prepare mapping pfl parts = .ok (∑ k, A k k * (wt parts k : ℂ)) := by
  unfold EA.prepare
  rw [prepareLoop_sum pfl parts (blockValue parts A) hret mapping 0, zero_add]
  · congr 1
    -- the list of diagonal blocks
    set L : List ℕ := (mapping.filter (fun lr => lr.1 = lr.2)).map Prod.fst with hL
    have hmem : ∀ b, b ∈ L ↔ (b, b) ∈ mapping := by
      intro b
      rw [hL, List.mem_map]
      constructor
      · rintro ⟨⟨l, r⟩, hlr, rfl⟩
        rw [List.mem_filter] at hlr
        have : l = r := by simpa using hlr.2
        subst this
        exact hlr.1
      · intro hb
        exact ⟨(b, b), List.mem_filter.mpr ⟨hb, by simp⟩, rfl⟩
    have hnd : L.Nodup := by
      rw [hL]
      refine List.Nodup.map_on ?_ (h.nodup.filter _)
      rintro ⟨l, r⟩ hlr ⟨l', r'⟩ hlr' heq
      rw [List.mem_filter] at hlr hlr'
      have h1 : l = r := by simpa using hlr.2
      have h2 : l' = r' := by simpa using hlr'.2
      simp only at heq
      subst h1 h2 heq
      rfl
    have hsum : ((mapping.filter (fun lr => lr.1 = lr.2)).map
        (fun lr => blockValue parts A lr.1)).sum = (L.map (blockValue parts A)).sum := by
      rw [hL, List.map_map]
      rfl
    rw [hsum, ← List.sum_toFinset _ hnd, Fintype.sum_sigma]
    have hsub : L.toFinset ⊆ Finset.range parts.length := by
      intro b hb
      rw [List.mem_toFinset, hmem] at hb
      exact Finset.mem_range.mpr (h.inRange _ hb).1
    rw [Finset.sum_subset hsub, Finset.sum_range]
    · exact Finset.sum_congr rfl fun b _ => blockValue_fin parts A b
    · intro b hb hnot
      rw [List.mem_toFinset, hmem] at hnot
      have hb' : b < parts.length := Finset.mem_range.mp hb
      have := blockValue_fin parts A ⟨b, hb'⟩
      simp only at this
      rw [this]
      refine Finset.sum_eq_zero fun i _ => ?_
      have hz : A ⟨⟨b, hb'⟩, i⟩ ⟨⟨b, hb'⟩, i⟩ = 0 := by
        by_contra hne
        exact hnot (h.support _ _ hne)
      rw [hz, zero_mul]
  · rintro ⟨l, r⟩ hlr heq
    simp only at heq
    subst heq
    have hlt : l < parts.length := (h.inRange _ hlr).1
    refine ⟨hlt, ?_⟩
    simp only
    have hget : parts[l] = parts.get ⟨l, hlt⟩ := rfl
    rw [ea_compute_eq _ _ (hwf _ (List.getElem_mem hlt)) (h.rows ⟨l, hlt⟩ hlr), hget,
      blockValue_fin parts A ⟨l, hlt⟩, Finset.sum_range]
    congr 1
    refine Finset.sum_congr rfl fun i _ => ?_
    rw [h.entries ⟨l, hlt⟩ hlr i]
    rfl

/-- **… and this is `Tr(ρ A_F)`**, `A_F` the matrix of the operator in the Fock basis
(`A = V† A_F V`). -/
theorem ensemble_average_is_trace (hwf : WF parts) (hret : ∀ p ∈ parts, p.retained = true)
    (mapping : List (ℕ × ℕ)) (pfl : ℕ → GFPart.SpMat ℂ) (AF : Matrix (Idx parts) (Idx parts) ℂ)
    (h : EAInput parts mapping pfl ((Vfull parts)ᴴ * AF * Vfull parts)) :
    EA.prepare mapping pfl parts
        = .ok (∑ k, ((Vfull parts)ᴴ * AF * Vfull parts) k k * (wt parts k : ℂ)) ∧
    (∑ k, ((Vfull parts)ᴴ * AF * Vfull parts) k k * (wt parts k : ℂ))
        = (rho parts * AF).trace :=
  ⟨ensemble_average_eq_sum parts hwf hret mapping pfl _ h,
    trace_operator_general (Vfull parts) AF (wt parts)⟩

end EAFull

/-! ## 5. the hypotheses are satisfiable; concrete instances -/

/-- the columns of `H` are orthonormal (what the eigen-solver guarantees), on the level of the model -/
def ColumnsOrthonormal (p : Part ℝ ℂ) : Prop :=
  ∀ s, s < p.dim → ∀ t, t < p.dim →
    ∑ f ∈ Finset.range p.dim, (starRingEnd ℂ) (p.U f s) * p.U f t = if s = t then 1 else 0

theorem Ublk_unitary (parts : List (Part ℝ ℂ)) (h : ∀ p ∈ parts, ColumnsOrthonormal p)
    (b : Fin parts.length) : (Ublk parts b)ᴴ * Ublk parts b = 1 := by
  ext s t
  rw [Matrix.mul_apply, Matrix.one_apply]
  have := h _ (List.get_mem parts b) s s.2 t t.2
  rw [Finset.sum_range] at this
  simp only [Fin.ext_iff]
  rw [← this]
  rfl

theorem blockEigen_reconstruct (parts : List (Part ℝ ℂ))
    (hU : ∀ b, (Ublk parts b)ᴴ * Ublk parts b = 1) :
    BlockEigen (m := fun b : Fin parts.length => Fin (parts.get b).dim)
      (fun b => Ublk parts b * diagonal (fun i => (en parts ⟨b, i⟩ : ℂ)) * (Ublk parts b)ᴴ)
      (Ublk parts) (fun b i => en parts ⟨b, i⟩) where
  unitary := hU
  eigen := fun b => by
    rw [Matrix.mul_assoc, hU b, Matrix.mul_one]


section
variable (parts : List (Part ℝ ℂ))

/-- the eigen-data (inverse temperature, all eigenvalues) read off the parts -/
def gibbs (β : ℝ) (hβ : 0 < β) : EigenData (Idx parts) := ⟨β, hβ, en parts⟩

/-- a sum over all (block, inner index) pairs, on the level of the model -/
theorem sum_idx {M : Type} [AddCommMonoid M] (g : Part ℝ ℂ → ℕ → M) :
    ∑ k : Idx parts, g (parts.get k.1) k.2
      = (parts.map fun p => ∑ s ∈ Finset.range p.dim, g p s).sum := by
  rw [Fintype.sum_sigma, ← Fin.sum_univ_fun_getElem]
  refine Finset.sum_congr rfl fun b _ => ?_
  rw [Finset.sum_range]
  rfl

/-- positive normalised weights ARE the Gibbs weights at `β = 1` of the energies `−log w` -/
theorem gibbs_of_log
    (hpos : ∀ p ∈ parts, ∀ s, s < p.dim → 0 < p.weights.getD s 0)
    (hsum : (parts.map fun p => ∑ s ∈ Finset.range p.dim, p.weights.getD s 0).sum = 1)
    (hlog : ∀ p ∈ parts, ∀ s, s < p.dim → p.energies.getD s 0 = -Real.log (p.weights.getD s 0))
    (k : Idx parts) : wt parts k = (gibbs parts 1 one_pos).w k := by
  have hexp : ∀ m : Idx parts, Real.exp (-1 * en parts m) = wt parts m := by
    intro m
    have h1 := hlog _ (List.get_mem parts m.1) m.2 m.2.2
    have h2 := hpos _ (List.get_mem parts m.1) m.2 m.2.2
    unfold en wt
    rw [h1, neg_mul, one_mul, neg_neg, Real.exp_log h2]
  unfold EigenData.w EigenData.Z gibbs
  simp only [hexp]
  have : ∑ m : Idx parts, wt parts m = 1 := by
    rw [← hsum, ← sum_idx parts (fun p s => p.weights.getD s 0)]
    rfl
  rw [this, div_one]
end

/-- rotating the eigenbasis matrix `A` back to the Fock basis and forth again gives `A`: every
`EAInput` is an `EAInput` for an operator given in the Fock basis -/
theorem EAInput_fock (parts : List (Part ℝ ℂ)) (hV : (Vfull parts)ᴴ * Vfull parts = 1)
    (mapping : List (ℕ × ℕ)) (pfl : ℕ → GFPart.SpMat ℂ) (A : Matrix (Idx parts) (Idx parts) ℂ)
    (h : EAInput parts mapping pfl A) :
    EAInput parts mapping pfl
      ((Vfull parts)ᴴ * (Vfull parts * A * (Vfull parts)ᴴ) * Vfull parts) := by
  have : (Vfull parts)ᴴ * (Vfull parts * A * (Vfull parts)ᴴ) * Vfull parts = A := by
    calc (Vfull parts)ᴴ * (Vfull parts * A * (Vfull parts)ᴴ) * Vfull parts
        = ((Vfull parts)ᴴ * Vfull parts) * A * ((Vfull parts)ᴴ * Vfull parts) := by
          simp only [Matrix.mul_assoc]
      _ = A := by rw [hV, Matrix.one_mul, Matrix.mul_one]
  rw [this]
  exact h

/-! ### a concrete system: 3 modes, the vacuum block `{000}` and the one-particle block
`{001, 010, 100}`; the eigenvectors of the latter are the columns of the orthogonal matrix
`R₁₂(3-4-5) · R₂₃(3-4-5)`; weights `1/4 | 3/8, 1/4, 1/8` (normalised, non-uniform); the energies are
`−log w`, so that the weights ARE the Gibbs weights at `β = 1` (`exParts_gibbs`) -/

noncomputable def exUr : ℕ → ℕ → ℝ
  | 0, 0 => 3/5 | 0, 1 => -12/25 | 0, 2 => 16/25
  | 1, 0 => 4/5 | 1, 1 => 9/25  | 1, 2 => -12/25
  | 2, 0 => 0   | 2, 1 => 4/5   | 2, 2 => 3/5
  | _, _ => 0

noncomputable def exPart : Part ℝ ℂ :=
  { nmodes := 3, fock := [1, 2, 4], dim := 3, U := fun r c => ((exUr r c : ℝ) : ℂ),
    energies := [-Real.log (3/8), -Real.log (1/4), -Real.log (1/8)], weights := [3/8, 1/4, 1/8], retained := true }
noncomputable def exVac : Part ℝ ℂ :=
  { nmodes := 3, fock := [0], dim := 1, U := fun _ _ => 1, energies := [-Real.log (1/4)],
    weights := [1/4],
    retained := true }
noncomputable def exParts : List (Part ℝ ℂ) := [exVac, exPart]
/-- the same system with the two indices of `H` confused in the one-particle block -/
noncomputable def exPartsT : List (Part ℝ ℂ) := [exVac, exPart.transposeU]

theorem exParts_wf : WF exParts := by
  intro p hp
  simp only [exParts, List.mem_cons, List.not_mem_nil, or_false] at hp
  rcases hp with rfl | rfl <;> exact ⟨rfl, rfl, rfl⟩

theorem exParts_retained : ∀ p ∈ exParts, p.retained = true := by
  intro p hp
  simp only [exParts, List.mem_cons, List.not_mem_nil, or_false] at hp
  rcases hp with rfl | rfl <;> rfl

theorem exParts_gibbs (k : Idx exParts) : wt exParts k = (gibbs exParts 1 one_pos).w k := by
  refine gibbs_of_log exParts ?_ ?_ ?_ k
  · intro p hp
    simp only [exParts, List.mem_cons, List.not_mem_nil, or_false] at hp
    rcases hp with rfl | rfl
    · intro s hs
      simp only [exVac] at hs ⊢
      interval_cases s
      norm_num [List.getD]
    · intro s hs
      simp only [exPart] at hs ⊢
      interval_cases s <;> norm_num [List.getD]
  · simp only [exParts, exVac, exPart, List.map_cons, List.map_nil, List.sum_cons, List.sum_nil,
      Finset.sum_range_succ, Finset.sum_range_zero]
    norm_num [List.getD]
  · intro p hp
    simp only [exParts, List.mem_cons, List.not_mem_nil, or_false] at hp
    rcases hp with rfl | rfl
    · intro s hs
      simp only [exVac] at hs ⊢
      interval_cases s
      simp [List.getD]
    · intro s hs
      simp only [exPart] at hs ⊢
      interval_cases s <;> simp [List.getD]

theorem exParts_orthonormal : ∀ p ∈ exParts, ColumnsOrthonormal p := by
  intro p hp
  simp only [exParts, List.mem_cons, List.not_mem_nil, or_false] at hp
  rcases hp with rfl | rfl
  · intro s hs t ht
    simp only [exVac] at hs ht ⊢
    interval_cases s; interval_cases t
    simp
  · intro s hs t ht
    simp only [exPart] at hs ht ⊢
    interval_cases s <;> interval_cases t <;>
      simp only [Finset.sum_range_succ, Finset.sum_range_zero, exUr, Complex.conj_ofReal] <;>
      norm_num

theorem sumParts_pair (f : Part ℝ ℂ → Except Err ℝ) (p q : Part ℝ ℂ) (u v : ℝ)
    (hp : f p = .ok u) (hq : f q = .ok v) : sumParts f [p, q] 0 = .ok (u + v) := by
  rw [sumParts, hp]
  simp only
  rw [sumParts, hq]
  simp only [sumParts, zero_add]

theorem exPartT_wf : WFPart exPart.transposeU := ⟨rfl, rfl, rfl⟩
theorem exPart_wf : WFPart exPart := ⟨rfl, rfl, rfl⟩
theorem exVac_wf : WFPart exVac := ⟨rfl, rfl, rfl⟩

theorem pc0 : popCount 0 3 = 0 := by decide
theorem pc1 : popCount 1 3 = 1 := by decide
theorem pc2 : popCount 2 3 = 1 := by decide
theorem pc4 : popCount 4 3 = 1 := by decide

theorem exVac_occ (i : ℕ) : exVac.avgOccupancy i = .ok 0 := by
  unfold Part.avgOccupancy
  rw [fockLoop_eq _ exVac_wf]
  simp only [exVac, Finset.sum_range_succ, Finset.sum_range_zero, ofBool_eq]
  norm_num [List.getD]

theorem exVac_occTotal : exVac.avgOccupancyTotal = .ok 0 := by
  unfold Part.avgOccupancyTotal
  rw [fockLoop_eq _ exVac_wf]
  simp only [exVac, Finset.sum_range_succ, Finset.sum_range_zero]
  norm_num [List.getD, pc0]

theorem exPart_occ0 : exPart.avgOccupancy 0 = .ok (1219/5000) := by
  unfold Part.avgOccupancy
  rw [fockLoop_eq _ exPart_wf]
  simp only [exPart, Finset.sum_range_succ, Finset.sum_range_zero, Complex.normSq_ofReal,
    exUr, ofBool_eq]
  norm_num [List.getD]

theorem exPartT_occ0 : exPart.transposeU.avgOccupancy 0 = .ok (59/200) := by
  unfold Part.avgOccupancy
  rw [fockLoop_eq _ exPartT_wf]
  simp only [exPart, Part.transposeU, Finset.sum_range_succ, Finset.sum_range_zero,
    Complex.normSq_ofReal, exUr, ofBool_eq]
  norm_num [List.getD]

theorem exPart_occTotal : exPart.avgOccupancyTotal = .ok (3/4) := by
  unfold Part.avgOccupancyTotal
  rw [fockLoop_eq _ exPart_wf]
  simp only [exPart, Finset.sum_range_succ, Finset.sum_range_zero, Complex.normSq_ofReal, exUr]
  norm_num [List.getD, pc1, pc2, pc4]

theorem exPartT_occTotal : exPart.transposeU.avgOccupancyTotal = .ok (3/4) := by
  unfold Part.avgOccupancyTotal
  rw [fockLoop_eq _ exPartT_wf]
  simp only [exPart, Part.transposeU, Finset.sum_range_succ, Finset.sum_range_zero,
    Complex.normSq_ofReal, exUr]
  norm_num [List.getD, pc1, pc2, pc4]

/-- REGRESSION WITNESS for the index order of the eigenvector matrix.  Reading `H(s, fi)` (row `s`)
instead of `H(fi, s)` (column `s` = `getEigenState(s)`) changes the occupancy of mode 0 from
`1219/5000` to `59/200`, although the transposed matrix is still orthogonal
(`exPartsT_orthonormal`), all size invariants hold, and the TOTAL occupancy is unchanged (`3/4` both
times: every Fock state of the block has one particle and rows as well as columns of an orthogonal
matrix are normalised) -- so neither a unitarity check nor a particle-number check detects the
transposition; only the per-index occupancies (and `⟨n_i n_j⟩`, `⟨c†_i c_j⟩`) do.  A 2×2 real rotation
would not do as a witness: its entrywise squares form a symmetric matrix. -/
theorem transposed_amplitudes_differ :
    DM.avgOccupancy exParts 0 = .ok (1219/5000) ∧ DM.avgOccupancy exPartsT 0 = .ok (59/200) ∧
    DM.avgOccupancy exParts 0 ≠ DM.avgOccupancy exPartsT 0 ∧
    DM.avgOccupancyTotal exParts = .ok (3/4) ∧ DM.avgOccupancyTotal exPartsT = .ok (3/4) := by
  have h1 : DM.avgOccupancy exParts 0 = .ok (1219/5000) := by
    have h := sumParts_pair (fun p => p.avgOccupancy 0) _ _ _ _ (exVac_occ 0) exPart_occ0
    rwa [zero_add] at h
  have h2 : DM.avgOccupancy exPartsT 0 = .ok (59/200) := by
    have h := sumParts_pair (fun p => p.avgOccupancy 0) _ _ _ _ (exVac_occ 0) exPartT_occ0
    rwa [zero_add] at h
  refine ⟨h1, h2, ?_, ?_, ?_⟩
  · rw [h1, h2]
    intro h
    have := Except.ok.inj h
    norm_num at this
  · have h := sumParts_pair Part.avgOccupancyTotal _ _ _ _ exVac_occTotal exPart_occTotal
    rwa [zero_add] at h
  · have h := sumParts_pair Part.avgOccupancyTotal _ _ _ _ exVac_occTotal exPartT_occTotal
    rwa [zero_add] at h

theorem exPartsT_orthonormal : ∀ p ∈ exPartsT, ColumnsOrthonormal p := by
  intro p hp
  simp only [exPartsT, List.mem_cons, List.not_mem_nil, or_false] at hp
  rcases hp with rfl | rfl
  · intro s hs t ht
    simp only [exVac] at hs ht ⊢
    interval_cases s; interval_cases t
    simp
  · intro s hs t ht
    simp only [exPart, Part.transposeU] at hs ht ⊢
    interval_cases s <;> interval_cases t <;>
      simp only [Finset.sum_range_succ, Finset.sum_range_zero, exUr, Complex.conj_ofReal] <;>
      norm_num

/-- example input of `EnsembleAverage::prepare` -/
def exMapping : List (ℕ × ℕ) := [(0, 0), (1, 1)]
noncomputable def exPfl : ℕ → GFPart.SpMat ℂ
  | 0 => [[(0, 2)]]
  | _ => [[(0, 1), (2, 5)], [(1, 3)], []]
/-- the operator matrix in the eigenbasis read off the stored parts -/
noncomputable def exA : Matrix (Idx exParts) (Idx exParts) ℂ :=
  blockDiagonal' fun b => Matrix.of fun i j => EA.coeff (exPfl b) i j

theorem exEAInput : EAInput exParts exMapping exPfl exA where
  nodup := by decide
  inRange := by
    intro lr hlr
    simp only [exMapping, List.mem_cons, List.not_mem_nil, or_false] at hlr
    rcases hlr with rfl | rfl <;> simp [exParts]
  support := by
    rintro ⟨b, i⟩ ⟨b', j⟩ hne
    by_cases hb : b = b'
    · subst hb
      have : (b : ℕ) = 0 ∨ (b : ℕ) = 1 := by
        have := b.2
        simp only [exParts, List.length_cons, List.length_nil] at this
        omega
      rcases this with h | h <;> simp [exMapping, h]
    · exact absurd (blockDiagonal'_apply_ne _ _ _ hb) hne
  rows := by
    intro b _
    have : (b : ℕ) = 0 ∨ (b : ℕ) = 1 := by
      have := b.2
      simp only [exParts, List.length_cons, List.length_nil] at this
      omega
    obtain ⟨b, hb⟩ := b
    simp only at this
    rcases this with rfl | rfl <;> rfl
  entries := by
    intro b _ i
    rw [exA, blockDiagonal'_apply_eq]
    rfl

theorem ex_ensemble_average : EA.prepare exMapping exPfl exParts = .ok (13/8) := by
  simp [EA.prepare, EA.prepareLoop, exMapping, exParts, exVac, exPart, EA.compute, loop, exPfl,
    Part.getWeight, EA.coeff]
  norm_num

/-! ## 6. `DensityMatrix::compute` establishes the Gibbs weights -/

/-- a loop that appends `w k` to a list and adds it to a running sum -/
theorem loop_collect (body : ℕ → List ℝ × ℝ → Except Err (List ℝ × ℝ)) (w : ℕ → ℝ) :
    ∀ (n k0 : ℕ) (st : List ℝ × ℝ),
      (∀ k, k0 ≤ k → k < k0 + n → ∀ st, body k st = .ok (st.1 ++ [w k], st.2 + w k)) →
      loop body n k0 st
        = .ok (st.1 ++ (List.range' k0 n).map w, st.2 + ((List.range' k0 n).map w).sum) := by
  intro n
  induction n with
  | zero => intro k0 st _; simp [loop]
  | succ n ih =>
    intro k0 st h
    rw [loop, h k0 (le_refl _) (by omega) st]
    simp only
    rw [ih (k0 + 1) _ (fun k h1 h2 st' => h k (by omega) (by omega) st')]
    simp only [List.range'_succ, List.map_cons, List.sum_cons, List.append_assoc,
      List.singleton_append, add_assoc]

theorem range'_map_getD (l : List ℝ) (f : ℝ → ℝ) :
    (List.range' 0 l.length).map (fun s => f (l.getD s 0)) = l.map f := by
  apply List.ext_getElem
  · simp
  · intro i h1 h2
    simp only [List.length_map, List.length_range'] at h1
    simp [List.getD_eq_getElem?_getD, h1]

/-- the unnormalised weights of a block and their sum -/
noncomputable def unnormWeights (β e0 : ℝ) (p : Part ℝ ℂ) : List ℝ :=
  p.energies.map fun e => Gen.DM.unnormWeight β e e0

theorem computeUnnormalized_eq (β e0 : ℝ) (p : Part ℝ ℂ) (hp : WFPart p) :
    p.computeUnnormalized β e0
      = .ok ({ p with weights := unnormWeights β e0 p }, (unnormWeights β e0 p).sum) := by
  unfold Part.computeUnnormalized
  rw [loop_collect _ (fun s => Gen.DM.unnormWeight β (p.energies.getD s 0) e0)]
  · simp only [List.nil_append, zero_add]
    rw [hp.weights, ← hp.energies, range'_map_getD p.energies (fun e => Gen.DM.unnormWeight β e e0)]
    rfl
  · intro s _ hs st
    have hlt : s < p.energies.length := by rw [hp.energies, ← hp.weights]; omega
    have h1 : p.getEigenValue s = .ok (p.energies.getD s 0) := by
      unfold Part.getEigenValue
      rw [getElem?_some_getD _ _ 0 hlt]
    rw [h1]

theorem computeUnnormalizedAll_eq (β e0 : ℝ) :
    ∀ (parts done : List (Part ℝ ℂ)) (Z : ℝ), (∀ p ∈ parts, WFPart p) →
      DM.computeUnnormalizedAll β e0 parts done Z
        = .ok (done ++ parts.map (fun p => { p with weights := unnormWeights β e0 p }),
            Z + (parts.map fun p => (unnormWeights β e0 p).sum).sum) := by
  intro parts
  induction parts with
  | nil => intro done Z _; simp [DM.computeUnnormalizedAll]
  | cons p ps ih =>
    intro done Z h
    rw [DM.computeUnnormalizedAll, computeUnnormalized_eq β e0 p (h p (List.mem_cons_self ..))]
    simp only
    rw [ih _ _ (fun q hq => h q (List.mem_cons_of_mem _ hq))]
    simp only [List.map_cons, List.sum_cons, List.append_assoc, List.singleton_append, add_assoc]

/-- the partition function the library divides by (relative to the reference energy `e0`) -/
noncomputable def modelZ (β e0 : ℝ) (parts : List (Part ℝ ℂ)) : ℝ :=
  (parts.map fun p => (unnormWeights β e0 p).sum).sum

/-- what `DensityMatrix::compute` leaves in the parts -/
noncomputable def computed (β e0 : ℝ) (parts : List (Part ℝ ℂ)) : List (Part ℝ ℂ) :=
  parts.map fun p =>
    { p with weights := (unnormWeights β e0 p).map (· / modelZ β e0 parts) }

theorem compute_eq (β e0 : ℝ) (parts : List (Part ℝ ℂ)) (hwf : WF parts) :
    DM.compute β e0 parts = .ok (computed β e0 parts) := by
  unfold DM.compute
  rw [computeUnnormalizedAll_eq β e0 parts [] 0 hwf]
  simp only [List.nil_append, zero_add, List.map_map]
  rfl

theorem computed_wf (β e0 : ℝ) (parts : List (Part ℝ ℂ)) (hwf : WF parts) :
    WF (computed β e0 parts) := by
  intro q hq
  unfold computed at hq
  rw [List.mem_map] at hq
  obtain ⟨p, hp, rfl⟩ := hq
  have := hwf p hp
  exact ⟨this.fock, this.energies, by simp [unnormWeights, this.energies]⟩

/-- weights of the form `exp(−β(E − e0)) / Σ exp(−β(E' − e0))` (sum over all eigenstates of all
blocks) are the Gibbs weights of the stored eigenvalues, whatever the reference energy `e0` -/
theorem gibbs_of_shifted (parts : List (Part ℝ ℂ)) (β : ℝ) (hβ : 0 < β) (e0 Z : ℝ)
    (hw : ∀ p ∈ parts, ∀ s, s < p.dim →
      p.weights.getD s 0 = Gen.DM.unnormWeight β (p.energies.getD s 0) e0 / Z)
    (hZ : Z = (parts.map fun p => ∑ s ∈ Finset.range p.dim,
      Gen.DM.unnormWeight β (p.energies.getD s 0) e0).sum)
    (k : Idx parts) : wt parts k = (gibbs parts β hβ).w k := by
  have : Nonempty (Idx parts) := ⟨k⟩
  rw [← shifted_normalised (gibbs parts β hβ) e0 k]
  have hZ' : shiftedZ (gibbs parts β hβ) e0 = Z := by
    rw [hZ, ← sum_idx parts (fun p s => Gen.DM.unnormWeight β (p.energies.getD s 0) e0)]
    rfl
  rw [hZ']
  exact hw _ (List.get_mem parts k.1) k.2 k.2.2

theorem sum_map_eq_range (l : List ℝ) (f : ℝ → ℝ) (n : ℕ) (h : l.length = n) :
    (l.map f).sum = ∑ s ∈ Finset.range n, f (l.getD s 0) := by
  subst h
  rw [Finset.sum_range, ← Fin.sum_univ_fun_getElem]
  refine Finset.sum_congr rfl fun i _ => ?_
  simp [List.getD_eq_getElem?_getD]

theorem compute_gibbs (β : ℝ) (hβ : 0 < β) (e0 : ℝ) (parts : List (Part ℝ ℂ)) (hwf : WF parts)
    (k : Idx (computed β e0 parts)) :
    wt (computed β e0 parts) k = (gibbs (computed β e0 parts) β hβ).w k := by
  refine gibbs_of_shifted _ β hβ e0 (modelZ β e0 parts) ?_ ?_ k
  · intro q hq s hs
    unfold computed at hq
    rw [List.mem_map] at hq
    obtain ⟨p, hp, rfl⟩ := hq
    have hlt : s < p.energies.length := by rw [(hwf p hp).energies]; exact hs
    simp [unnormWeights, List.getD_eq_getElem?_getD, hlt]
  · unfold modelZ computed
    rw [List.map_map]
    congr 1
    apply List.map_congr_left
    intro p hp
    exact sum_map_eq_range p.energies _ p.dim (hwf p hp).energies

end Pomerol.Spec.AveragesSpec
