/-
  Gibbs weights / density matrix as the library computes them, ensemble averages as traces with the
  Fock-basis density matrix, and the block-truncation error bounds (C19).
-/
import PomerolModel.Spec.Lehmann
import Mathlib.Analysis.Complex.Norm
import Mathlib.LinearAlgebra.Matrix.ConjTranspose
import Mathlib.Tactic.Positivity
import Mathlib.Tactic.GCongr

namespace Pomerol.Spec
open Matrix Complex

variable {ι : Type} [Fintype ι] [DecidableEq ι]

set_option linter.unusedSectionVars false

/-! ## (1) the density matrix as the library computes it: weights exp(−β(E − E0)) with a reference
energy E0, normalised -/

noncomputable def shiftedWeight (β E0 E : ℝ) : ℝ := Real.exp (-β * (E - E0))
noncomputable def shiftedZ (d : EigenData ι) (E0 : ℝ) : ℝ := ∑ n, shiftedWeight d.β E0 (d.E n)

theorem shiftedWeight_eq (β E0 E : ℝ) :
    shiftedWeight β E0 E = Real.exp (β * E0) * Real.exp (-β * E) := by
  unfold shiftedWeight
  rw [← Real.exp_add]
  congr 1; ring

/-- normalised weights do not depend on the reference energy: they are the Gibbs weights -/
theorem shifted_normalised [Nonempty ι] (d : EigenData ι) (E0 : ℝ) (n : ι) :
    shiftedWeight d.β E0 (d.E n) / shiftedZ d E0 = d.w n := by
  unfold shiftedZ EigenData.w EigenData.Z
  simp_rw [shiftedWeight_eq]
  rw [← Finset.mul_sum, mul_div_mul_left _ _ (Real.exp_pos _).ne']

/-- with E0 the ground energy every exponent is ≤ 0: unnormalised weights lie in (0,1] and
1 ≤ Z ≤ dim — no overflow however large β·bandwidth or the energy offset -/
theorem shifted_le_one (d : EigenData ι) (E0 : ℝ) (hmin : ∀ n, E0 ≤ d.E n) (n : ι) :
    0 < shiftedWeight d.β E0 (d.E n) ∧ shiftedWeight d.β E0 (d.E n) ≤ 1 := by
  unfold shiftedWeight
  refine ⟨Real.exp_pos _, ?_⟩
  rw [Real.exp_le_one_iff]
  have h1 : 0 ≤ d.β * (d.E n - E0) := mul_nonneg d.hβ.le (sub_nonneg.mpr (hmin n))
  linarith

theorem shiftedZ_bounds (d : EigenData ι) (E0 : ℝ) (hmin : ∀ n, E0 ≤ d.E n)
    (hex : ∃ n, d.E n = E0) :
    1 ≤ shiftedZ d E0 ∧ shiftedZ d E0 ≤ Fintype.card ι := by
  obtain ⟨n0, hn0⟩ := hex
  constructor
  · have h1 : shiftedWeight d.β E0 (d.E n0) = 1 := by
      unfold shiftedWeight; rw [hn0]; simp
    calc (1:ℝ) = shiftedWeight d.β E0 (d.E n0) := h1.symm
      _ ≤ shiftedZ d E0 :=
        Finset.single_le_sum (f := fun n => shiftedWeight d.β E0 (d.E n))
          (fun i _ => (shifted_le_one d E0 hmin i).1.le) (Finset.mem_univ n0)
  · calc shiftedZ d E0 ≤ ∑ _n : ι, (1:ℝ) :=
          Finset.sum_le_sum (fun i _ => (shifted_le_one d E0 hmin i).2)
      _ = Fintype.card ι := by simp

theorem w_le_one [Nonempty ι] (d : EigenData ι) (n : ι) : d.w n ≤ 1 :=
  calc d.w n ≤ ∑ m, d.w m :=
        Finset.single_le_sum (f := d.w) (fun i _ => (w_pos d i).le) (Finset.mem_univ n)
    _ = 1 := w_sum d

/-- ratio of two weights -/
theorem w_div [Nonempty ι] (d : EigenData ι) (a b : ι) :
    d.w a / d.w b = Real.exp (-d.β * (d.E a - d.E b)) := by
  have h := w_ratio d b a
  rw [h, mul_div_cancel_left₀ _ (w_pos d b).ne']

/-- invariance under a global energy offset -/
theorem w_offset [Nonempty ι] (d : EigenData ι) (c : ℝ) (n : ι) :
    (EigenData.w ⟨d.β, d.hβ, fun m => d.E m + c⟩ n) = d.w n := by
  unfold EigenData.w EigenData.Z
  simp only
  have : ∀ m, Real.exp (-d.β * (d.E m + c)) = Real.exp (-d.β * c) * Real.exp (-d.β * d.E m) := by
    intro m; rw [← Real.exp_add]; congr 1; ring
  simp_rw [this]
  rw [← Finset.mul_sum, mul_div_mul_left _ _ (Real.exp_pos _).ne']

/-! ## (2) averages are traces with the Fock-basis density matrix.  `V : Matrix σ ι ℂ`-style
bookkeeping is avoided by taking σ = ι: V is the unitary matrix whose columns are the eigenvectors
expanded in Fock states -/

/-- Fock-basis density matrix and Hamiltonian -/
noncomputable def rhoF (d : EigenData ι) (V : Matrix ι ι ℂ) : Matrix ι ι ℂ := V * d.ρ * Vᴴ
noncomputable def hamF (d : EigenData ι) (V : Matrix ι ι ℂ) : Matrix ι ι ℂ := V * d.H * Vᴴ

/-- the library's formula for the average of a Fock-diagonal observable `x` (occupancy n_i, double
occupancy n_i n_j, total N): Σ_s w_s Σ_f x(f) |V_{f s}|² -/
theorem avg_diagonal (d : EigenData ι) (V : Matrix ι ι ℂ) (x : ι → ℝ) :
    ((∑ s, ∑ f, d.w s * x f * Complex.normSq (V f s) : ℝ) : ℂ)
      = (rhoF d V * diagonal (fun f => (x f : ℂ))).trace := by
  unfold rhoF EigenData.ρ
  rw [Matrix.trace]
  simp only [diag_apply, mul_diagonal]
  simp only [Matrix.mul_apply (N := Vᴴ), mul_diagonal, conjTranspose_apply]
  push_cast
  rw [Finset.sum_comm]
  refine Finset.sum_congr rfl fun f _ => ?_
  rw [Finset.sum_mul]
  refine Finset.sum_congr rfl fun s _ => ?_
  rw [← Complex.mul_conj, Complex.star_def]
  ring

/-- average energy Σ_s w_s E_s = Tr(ρ_F H_F) for unitary V -/
theorem avg_energy (d : EigenData ι) (V : Matrix ι ι ℂ) (hV : Vᴴ * V = 1) :
    ((∑ s, d.w s * d.E s : ℝ) : ℂ) = (rhoF d V * hamF d V).trace := by
  unfold rhoF hamF
  have h : V * d.ρ * Vᴴ * (V * d.H * Vᴴ) = V * (d.ρ * d.H) * Vᴴ := by
    calc V * d.ρ * Vᴴ * (V * d.H * Vᴴ) = V * d.ρ * (Vᴴ * V) * d.H * Vᴴ := by
          simp only [Matrix.mul_assoc]
      _ = V * (d.ρ * d.H) * Vᴴ := by rw [hV, Matrix.mul_one, Matrix.mul_assoc V]
  rw [h, Matrix.trace_mul_comm, ← Matrix.mul_assoc, hV, Matrix.one_mul]
  unfold EigenData.ρ EigenData.H
  rw [diagonal_mul_diagonal, trace_diagonal]
  push_cast
  rfl

/-- ensemble average of an operator with Fock matrix `AF`: the library sums the diagonal of the
rotated operator times the weights -/
theorem avg_operator (d : EigenData ι) (V : Matrix ι ι ℂ) (AF : Matrix ι ι ℂ) :
    (∑ s, (Vᴴ * AF * V) s s * (d.w s : ℂ)) = (rhoF d V * AF).trace := by
  unfold rhoF
  have h : V * d.ρ * Vᴴ * AF = V * (d.ρ * Vᴴ * AF) := by simp only [Matrix.mul_assoc]
  rw [h, Matrix.trace_mul_comm]
  have h2 : d.ρ * Vᴴ * AF * V = d.ρ * (Vᴴ * AF * V) := by simp only [Matrix.mul_assoc]
  rw [h2]
  unfold EigenData.ρ
  rw [Matrix.trace]
  simp only [diag_apply, diagonal_mul]
  exact Finset.sum_congr rfl fun s _ => mul_comm _ _

/-- the Fock-basis density matrix is normalised -/
theorem rhoF_trace [Nonempty ι] (d : EigenData ι) (V : Matrix ι ι ℂ) (hV : Vᴴ * V = 1) :
    (rhoF d V).trace = 1 := by
  unfold rhoF
  rw [Matrix.mul_assoc, Matrix.trace_mul_comm, Matrix.mul_assoc, hV, Matrix.mul_one]
  unfold EigenData.ρ
  rw [trace_diagonal]
  have := w_sum d
  exact_mod_cast this

/-! ## (3) block truncation: dropping Lehmann terms whose two weights are both ≤ eps -/

/-- rows of an operator obeying C C† + C† C = 1 have norm ≤ 1 -/
theorem row_normSq_le_one (C : Matrix ι ι ℂ) (hcar : C * Cᴴ + Cᴴ * C = 1) (n : ι) :
    ∑ m, Complex.normSq (C n m) ≤ 1 := by
  have h := congrFun (congrFun hcar n) n
  simp only [Matrix.add_apply, Matrix.mul_apply, conjTranspose_apply, one_apply_eq,
    Complex.star_def] at h
  have h1 : ∀ m, C n m * (starRingEnd ℂ) (C n m) = (Complex.normSq (C n m) : ℂ) :=
    fun m => Complex.mul_conj _
  have h2 : ∀ m, (starRingEnd ℂ) (C m n) * C m n = (Complex.normSq (C m n) : ℂ) :=
    fun m => by rw [mul_comm]; exact Complex.mul_conj _
  simp_rw [h1, h2] at h
  have h' : (∑ m, Complex.normSq (C n m)) + ∑ m, Complex.normSq (C m n) = 1 := by
    exact_mod_cast h
  have : 0 ≤ ∑ m, Complex.normSq (C m n) := Finset.sum_nonneg fun _ _ => Complex.normSq_nonneg _
  linarith

/-- total Frobenius weight of an operator obeying the CAR is at most the dimension -/
theorem total_normSq_le_card (C : Matrix ι ι ℂ) (hcar : C * Cᴴ + Cᴴ * C = 1) :
    ∑ n, ∑ m, Complex.normSq (C n m) ≤ Fintype.card ι :=
  calc ∑ n, ∑ m, Complex.normSq (C n m) ≤ ∑ _n : ι, (1:ℝ) :=
        Finset.sum_le_sum fun n _ => row_normSq_le_one C hcar n
    _ = Fintype.card ι := by simp

/-- TRUNCATION BOUND for G (property C19): `S` is any set of index pairs all of whose weights are
≤ eps (the skipped terms); `C`, `D` are the eigenbasis matrices of c_i, c_j (so CX = Dᴴ); then the
skipped part of the Lehmann sum is at most 2·eps·dim/|Im z| -/
theorem trunc_bound_G [Nonempty ι] (d : EigenData ι) (C D : Matrix ι ι ℂ)
    (hC : C * Cᴴ + Cᴴ * C = 1) (hD : D * Dᴴ + Dᴴ * D = 1)
    (eps : ℝ) (heps : 0 ≤ eps) (S : Finset (ι × ι))
    (hS : ∀ p ∈ S, d.w p.1 ≤ eps ∧ d.w p.2 ≤ eps)
    (z : ℂ) (hz : z.im ≠ 0) :
    ‖∑ p ∈ S, C p.1 p.2 * (Dᴴ) p.2 p.1 * ((d.w p.1 : ℂ) + (d.w p.2 : ℂ))
        / (z - ((d.E p.2 - d.E p.1 : ℝ) : ℂ))‖
      ≤ 2 * eps * (Fintype.card ι) / |z.im| := by
  have hz' : 0 < |z.im| := abs_pos.mpr hz
  have hfac : 0 ≤ 2 * eps / |z.im| := div_nonneg (by linarith) hz'.le
  have hterm : ∀ p ∈ S,
      ‖C p.1 p.2 * (Dᴴ) p.2 p.1 * ((d.w p.1 : ℂ) + (d.w p.2 : ℂ))
          / (z - ((d.E p.2 - d.E p.1 : ℝ) : ℂ))‖
        ≤ (Complex.normSq (C p.1 p.2) + Complex.normSq (D p.1 p.2)) / 2 * (2 * eps / |z.im|) := by
    intro p hp
    obtain ⟨h1, h2⟩ := hS p hp
    rw [norm_div, norm_mul, norm_mul, conjTranspose_apply, norm_star]
    have hden : |z.im| ≤ ‖z - ((d.E p.2 - d.E p.1 : ℝ) : ℂ)‖ := by
      have := Complex.abs_im_le_norm (z - ((d.E p.2 - d.E p.1 : ℝ) : ℂ))
      simpa using this
    have hw : ‖(d.w p.1 : ℂ) + (d.w p.2 : ℂ)‖ ≤ 2 * eps := by
      rw [← Complex.ofReal_add, Complex.norm_real, Real.norm_eq_abs,
        abs_of_nonneg (add_nonneg (w_pos d _).le (w_pos d _).le)]
      linarith
    have hab : ‖C p.1 p.2‖ * ‖D p.1 p.2‖
        ≤ (Complex.normSq (C p.1 p.2) + Complex.normSq (D p.1 p.2)) / 2 := by
      rw [Complex.normSq_eq_norm_sq, Complex.normSq_eq_norm_sq]
      nlinarith [sq_nonneg (‖C p.1 p.2‖ - ‖D p.1 p.2‖)]
    have hnum : ‖C p.1 p.2‖ * ‖D p.1 p.2‖ * ‖(d.w p.1 : ℂ) + (d.w p.2 : ℂ)‖
        ≤ (Complex.normSq (C p.1 p.2) + Complex.normSq (D p.1 p.2)) / 2 * (2 * eps) :=
      mul_le_mul hab hw (norm_nonneg _)
        (div_nonneg (add_nonneg (Complex.normSq_nonneg _) (Complex.normSq_nonneg _)) two_pos.le)
    calc ‖C p.1 p.2‖ * ‖D p.1 p.2‖ * ‖(d.w p.1 : ℂ) + (d.w p.2 : ℂ)‖
            / ‖z - ((d.E p.2 - d.E p.1 : ℝ) : ℂ)‖
          ≤ ‖C p.1 p.2‖ * ‖D p.1 p.2‖ * ‖(d.w p.1 : ℂ) + (d.w p.2 : ℂ)‖ / |z.im| :=
            div_le_div_of_nonneg_left (by positivity) hz' hden
      _ ≤ (Complex.normSq (C p.1 p.2) + Complex.normSq (D p.1 p.2)) / 2 * (2 * eps) / |z.im| :=
            div_le_div_of_nonneg_right hnum hz'.le
      _ = (Complex.normSq (C p.1 p.2) + Complex.normSq (D p.1 p.2)) / 2 * (2 * eps / |z.im|) := by
            ring
  calc ‖∑ p ∈ S, C p.1 p.2 * (Dᴴ) p.2 p.1 * ((d.w p.1 : ℂ) + (d.w p.2 : ℂ))
          / (z - ((d.E p.2 - d.E p.1 : ℝ) : ℂ))‖
        ≤ ∑ p ∈ S, ‖C p.1 p.2 * (Dᴴ) p.2 p.1 * ((d.w p.1 : ℂ) + (d.w p.2 : ℂ))
          / (z - ((d.E p.2 - d.E p.1 : ℝ) : ℂ))‖ := norm_sum_le _ _
    _ ≤ ∑ p ∈ S, (Complex.normSq (C p.1 p.2) + Complex.normSq (D p.1 p.2)) / 2
          * (2 * eps / |z.im|) := Finset.sum_le_sum hterm
    _ ≤ ∑ p : ι × ι, (Complex.normSq (C p.1 p.2) + Complex.normSq (D p.1 p.2)) / 2
          * (2 * eps / |z.im|) :=
        Finset.sum_le_sum_of_subset_of_nonneg (Finset.subset_univ S) (fun _ _ _ =>
          mul_nonneg (div_nonneg (add_nonneg (Complex.normSq_nonneg _) (Complex.normSq_nonneg _))
            two_pos.le) hfac)
    _ = ((∑ n, ∑ m, Complex.normSq (C n m)) + ∑ n, ∑ m, Complex.normSq (D n m)) / 2
          * (2 * eps / |z.im|) := by
        rw [← Finset.sum_mul, ← Finset.sum_div, Finset.sum_add_distrib, Fintype.sum_prod_type,
          Fintype.sum_prod_type]
    _ ≤ ((Fintype.card ι : ℝ) + Fintype.card ι) / 2 * (2 * eps / |z.im|) := by
        have hc := total_normSq_le_card C hC
        have hd := total_normSq_le_card D hD
        exact mul_le_mul_of_nonneg_right (by linarith) hfac
    _ = 2 * eps * (Fintype.card ι) / |z.im| := by ring

/-- TRUNCATION BOUND for ensemble averages: skipped diagonal terms with weight ≤ eps -/
theorem trunc_bound_avg (d : EigenData ι) (A : Matrix ι ι ℂ) (M : ℝ) (hA : ∀ s, ‖A s s‖ ≤ M)
    (eps : ℝ) (heps : 0 ≤ eps) (S : Finset ι) (hS : ∀ s ∈ S, d.w s ≤ eps) :
    ‖∑ s ∈ S, A s s * (d.w s : ℂ)‖ ≤ eps * M * (Fintype.card ι) := by
  have hterm : ∀ s ∈ S, ‖A s s * (d.w s : ℂ)‖ ≤ eps * M := by
    intro s hs
    have : Nonempty ι := ⟨s⟩
    rw [norm_mul, Complex.norm_real, Real.norm_eq_abs, abs_of_nonneg (w_pos d s).le, mul_comm]
    exact mul_le_mul (hS s hs) (hA s) (norm_nonneg _) heps
  calc ‖∑ s ∈ S, A s s * (d.w s : ℂ)‖ ≤ ∑ s ∈ S, ‖A s s * (d.w s : ℂ)‖ := norm_sum_le _ _
    _ ≤ ∑ _s ∈ S, eps * M := Finset.sum_le_sum hterm
    _ ≤ ∑ _s : ι, eps * M :=
        Finset.sum_le_sum_of_subset_of_nonneg (Finset.subset_univ S) (fun s _ _ =>
          mul_nonneg heps ((norm_nonneg _).trans (hA s)))
    _ = eps * M * (Fintype.card ι) := by
        rw [Finset.sum_const, Finset.card_univ, nsmul_eq_mul]; ring

/-- with eps = 0 nothing can be skipped: every weight is > 0 -/
theorem trunc_eps_zero [Nonempty ι] (d : EigenData ι) (n : ι) : ¬ (d.w n ≤ 0) :=
  not_le.mpr (w_pos d n)

end Pomerol.Spec
