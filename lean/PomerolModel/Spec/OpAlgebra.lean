/-
  Properties of the symbolic operator algebra beyond soundness of the arithmetic:
  (A) the equality test `operator==` as coded / as repaired,
  (B) the specialised `N` and `S_z` presets against their generic polynomial forms,
  (C) linear independence of normal-ordered monomials in the Jordan-Wigner representation, hence
      the (repaired) equality test decides equality of Jordan-Wigner matrices on canonical
      polynomials.
-/
import PomerolModel.Spec.JW
import PomerolModel.Spec.NormalizeSem
import PomerolModel.Spec.NormalizeTotal
import Mathlib.Data.List.Perm.Subperm
import Mathlib.Data.List.Nodup

namespace Pomerol.Spec
open Pomerol.Model
open scoped Pomerol.Spec.Exact

/-! ## (A) the equality test -/

/-- on monomials of equal length, three-argument `std::equal` is equality -/
theorem monoPrefixEq_same_length (a b : Mono) (h : a.length = b.length) :
    monoPrefixEq a b = some (decide (a = b)) := by
  induction a generalizing b with
  | nil =>
    cases b with
    | nil => rfl
    | cons y b => simp at h
  | cons x a ih =>
    cases b with
    | nil => simp at h
    | cons y b =>
      simp only [List.length_cons, Nat.add_right_cancel_iff] at h
      by_cases hxy : x = y
      · subst hxy
        simp [monoPrefixEq, ih b h]
      · simp [monoPrefixEq, hxy]

section
variable {K : Type} [CommRing K] [DecidableEq K]

/-- with the length test, the comparison of two terms is (exact) equality of the terms -/
theorem termEq_true (l r : Mono × K) : termEq true l r = some (decide (l = r)) := by
  obtain ⟨m, c⟩ := l
  obtain ⟨m', c'⟩ := r
  unfold termEq
  by_cases hl : m.length = m'.length
  · simp only [Bool.true_and, hl, ne_eq, not_true_eq_false, decide_false, Bool.false_eq_true,
      if_false, monoPrefixEq_same_length m m' hl, CoefTest.negl100, Prod.mk.injEq]
    by_cases hm : m = m'
    · by_cases hc : c = c'
      · simp [hm, hc]
      · have : ¬ c' - c = 0 := fun h => hc (sub_eq_zero.mp h).symm
        simp [hm, hc, this]
    · simp [hm]
  · have : ¬ m = m' := fun h => hl (by rw [h])
    simp [hl, this]

theorem eqCoded_go_true (p q : Poly K) (h : p.length = q.length) :
    Poly.eqCoded.go true p q = some (decide (p = q)) := by
  induction p generalizing q with
  | nil =>
    cases q with
    | nil => rfl
    | cons y q => simp at h
  | cons x p ih =>
    cases q with
    | nil => simp at h
    | cons y q =>
      simp only [List.length_cons, Nat.add_right_cancel_iff] at h
      unfold Poly.eqCoded.go
      rw [termEq_true]
      by_cases hxy : x = y
      · subst hxy
        simp [ih q h]
      · simp [hxy]

theorem eqCoded_true_eq (p q : Poly K) : Poly.eqCoded true p q = some (decide (p = q)) := by
  unfold Poly.eqCoded
  by_cases h : p.length = q.length
  · simp only [h, ne_eq, not_true_eq_false, if_false]
    exact eqCoded_go_true p q h
  · have : ¬ p = q := fun e => h (by rw [e])
    simp [h, this]

/-- the repaired equality test decides syntactic equality -/
theorem eqCoded_true_iff (p q : Poly K) : Poly.eqCoded true p q = some true ↔ p = q := by
  rw [eqCoded_true_eq]
  simp

/-- the repaired equality test never has the undefined-behaviour outcome -/
theorem eqCoded_true_total (p q : Poly K) : ∃ b, Poly.eqCoded true p q = some b :=
  ⟨_, eqCoded_true_eq p q⟩

end

/-- without the length test the comparison is wrong: `c†_0 = c†_0 c_1` -/
theorem eqCoded_false_wrong :
    Poly.eqCoded (K := Int) false [([⟨false, 0⟩], 1)] [([⟨false, 0⟩, ⟨true, 1⟩], 1)] = some true := by
  decide

/-- ... and can read out of bounds -/
theorem eqCoded_false_oob :
    Poly.eqCoded (K := Int) false [([⟨false, 0⟩, ⟨true, 1⟩], 1)] [([⟨false, 0⟩], 1)] = none := by
  decide

/-! ## (B) the specialised `N` and `S_z` operators -/

section
variable {K : Type} [CommRing K] [DecidableEq K]

omit [DecidableEq K] in
/-- `n_i = c†_i c_i` is the occupation of mode `i` -/
theorem opN_sem (i s : Nat) :
    (jwRep K).poly (opN (K := K) i) (Finsupp.single s 1) =
      if s.testBit i then Finsupp.single s 1 else 0 := by
  have h : (jwRep K).poly (opN (K := K) i) = jwOp K ⟨false, i⟩ * jwOp K ⟨true, i⟩ := by
    simp [opN, jwRep_op]
  rw [h, Module.End.mul_apply, jwOp_jwOp_single]
  simp only [testBit_flipBit, lowParity_flipBit, flipBit_flipBit, if_true, Nat.lt_irrefl,
    if_false, one_mul, sgn_mul_self]
  cases s.testBit i <;> simp

theorem popCount_succ (s M : Nat) :
    popCount s (M + 1) = popCount s M + if s.testBit M then 1 else 0 := by
  unfold popCount
  rw [List.range_succ, List.filter_append, List.length_append]
  by_cases h : s.testBit M <;> simp [h]

theorem opNTotal_succ (M : Nat) :
    opNTotal (K := K) (M + 1) = Poly.add (opNTotal M) (opN M) := by
  unfold opNTotal
  rw [List.range_succ, List.foldl_append]
  rfl

/-- the generic polynomial form of `N` acts on a Fock state as multiplication by its pop-count -/
theorem opNTotal_sem (M s : Nat) :
    (jwRep K).poly (opNTotal (K := K) M) (Finsupp.single s 1) =
      ((popCount s M : Nat) : K) • Finsupp.single s 1 := by
  induction M with
  | zero => simp [opNTotal, popCount]
  | succ M ih =>
    rw [opNTotal_succ, add_sem, LinearMap.add_apply, ih, opN_sem, popCount_succ]
    by_cases h : s.testBit M
    · simp [h, add_smul]
    · simp [h]

theorem szTwice_cons (u d : Nat) (ups downs : List Nat) (s : Nat) :
    szTwice (u :: ups) (d :: downs) s =
      szTwice ups downs s + (if s.testBit u then 1 else 0) - (if s.testBit d then 1 else 0) := by
  unfold szTwice
  simp only [List.filter_cons]
  by_cases hu : s.testBit u <;> by_cases hd : s.testBit d <;> simp [hu, hd] <;> omega

theorem opSz_fold_sem (half : K) (s : Nat) :
    ∀ (ups downs : List Nat) (acc : Poly K), ups.length = downs.length →
      (jwRep K).poly ((ups.zip downs).foldl (fun acc ud =>
          Poly.sub (Poly.add acc (Poly.smul half (opN ud.1))) (Poly.smul half (opN ud.2))) acc)
        (Finsupp.single s 1) =
      (jwRep K).poly acc (Finsupp.single s 1) +
        (half * ((szTwice ups downs s : Int) : K)) • Finsupp.single s 1
  | [], [], acc, _ => by simp [szTwice]
  | [], _ :: _, _, h => by simp at h
  | _ :: _, [], _, h => by simp at h
  | u :: ups, d :: downs, acc, h => by
    simp only [List.length_cons, Nat.add_right_cancel_iff] at h
    rw [List.zip_cons_cons, List.foldl_cons, opSz_fold_sem half s ups downs _ h, sub_sem, add_sem,
      smul_sem, smul_sem, LinearMap.sub_apply, LinearMap.add_apply, LinearMap.smul_apply,
      LinearMap.smul_apply, opN_sem, opN_sem, szTwice_cons]
    by_cases hu : s.testBit u <;> by_cases hd : s.testBit d <;>
      simp [hu, hd, mul_add, mul_sub, add_smul, sub_smul] <;> abel

/-- the generic polynomial form of `S_z` acts on a Fock state as multiplication by
`half * (n_up − n_down)`.  `half` is arbitrary; the two index lists must have equal lengths
(`zip` truncates, the specialised count does not). -/
theorem opSz_sem (half : K) (ups downs : List Nat) (h : ups.length = downs.length) (s : Nat) :
    (jwRep K).poly (opSz half ups downs) (Finsupp.single s 1) =
      (half * ((szTwice ups downs s : Int) : K)) • Finsupp.single s 1 := by
  unfold opSz
  rw [opSz_fold_sem half s ups downs [] h]
  simp

/-- `N::getMatrixElement` shortcut = generic `Operator::getMatrixElement` of the polynomial -/
theorem N_shortcut [Nontrivial K] (M bra ket : Nat) :
    matrixElement (opNTotal (K := K) M) bra ket =
      if bra = ket then ((popCount ket M : Nat) : K) else 0 := by
  rw [matrixElement_sem, opNTotal_sem, Finsupp.smul_apply, Finsupp.single_apply]
  by_cases h : bra = ket
  · simp [h]
  · have h' : ¬ ket = bra := fun e => h e.symm
    simp [h, h']

/-- `Sz::getMatrixElement` shortcut = generic `Operator::getMatrixElement` of the polynomial -/
theorem Sz_shortcut [Nontrivial K] (half : K) (ups downs : List Nat)
    (h : ups.length = downs.length) (bra ket : Nat) :
    matrixElement (opSz half ups downs) bra ket =
      if bra = ket then half * ((szTwice ups downs ket : Int) : K) else 0 := by
  rw [matrixElement_sem, opSz_sem half ups downs h, Finsupp.smul_apply, Finsupp.single_apply]
  by_cases h : bra = ket
  · simp [h]
  · have h' : ¬ ket = bra := fun e => h e.symm
    simp [h, h']

end

/-! ## (C) linear independence of normal-ordered monomials -/

/-! ### the order on monomials -/

theorem opLt_irrefl (a : Op) : a.lt a = false := by
  cases a with | mk aa ai => cases aa <;> simp [Op.lt]

theorem opLt_trans {a b c : Op} (h1 : a.lt b = true) (h2 : b.lt c = true) : a.lt c = true := by
  cases a with | mk aa ai => cases b with | mk ba bi => cases c with | mk ca ci =>
  cases aa <;> cases ba <;> cases ca <;> simp [Op.lt] at h1 h2 ⊢ <;> omega

theorem lexLt_asymm : ∀ (a b : Mono), lexLt a b = true → lexLt b a = false
  | [], [], h => by simp [lexLt] at h
  | [], _ :: _, _ => by simp [lexLt]
  | _ :: _, [], h => by simp [lexLt] at h
  | x :: a, y :: b, h => by
    unfold lexLt at h ⊢
    by_cases h1 : x.lt y = true
    · simp [h1, opLt_asymm h1]
    · by_cases h2 : y.lt x = true
      · simp [h1, h2] at h
      · simp only [h1, h2, Bool.false_eq_true, if_false] at h ⊢
        exact lexLt_asymm a b h

theorem monoLt_asymm (a b : Mono) (h : monoLt a b = true) : monoLt b a = false := by
  unfold monoLt at h ⊢
  by_cases hl : a.length = b.length
  · simp only [hl, ne_eq, not_true_eq_false, if_false] at h ⊢
    exact lexLt_asymm a b h
  · have hl' : ¬ b.length = a.length := fun e => hl e.symm
    simp only [hl, hl', ne_eq, not_false_eq_true, if_true, decide_eq_true_eq,
      decide_eq_false_iff_not] at h ⊢
    omega

theorem monoLt_ne (a b : Mono) (h : monoLt a b = true) : a ≠ b := by
  rintro rfl
  have := monoLt_asymm a a h
  rw [h] at this
  cases this

/-! ### the shape of a normal monomial -/

/-- indices of the creators of a monomial, in order of appearance -/
def cres (m : Mono) : List Nat := (m.filter (fun o => !o.ann)).map (·.idx)
/-- indices of the annihilators of a monomial, in order of appearance -/
def anns (m : Mono) : List Nat := (m.filter (fun o => o.ann)).map (·.idx)

theorem normalMono_pairwise : ∀ (m : Mono), NormalMono m → m.Pairwise (fun a b => a.lt b = true)
  | [], _ => List.Pairwise.nil
  | [a], _ => by simp
  | a :: b :: rest, h => by
    have ih := normalMono_pairwise (b :: rest) h.2
    refine List.Pairwise.cons ?_ ih
    intro x hx
    rcases List.mem_cons.1 hx with rfl | hx
    · exact h.1
    · exact opLt_trans h.1 ((List.pairwise_cons.1 ih).1 x hx)

/-- a normal monomial is `c†_{i1} … c†_{ik} c_{j1} … c_{jl}` with `i1 < … < ik`, `j1 < … < jl` -/
theorem pairwise_decomp : ∀ (m : Mono), m.Pairwise (fun a b => a.lt b = true) →
    m = (cres m).map (Op.mk false) ++ (anns m).map (Op.mk true) ∧
    (cres m).Pairwise (· < ·) ∧ (anns m).Pairwise (· < ·)
  | [], _ => by simp [cres, anns]
  | ⟨false, i⟩ :: rest, h => by
    rw [List.pairwise_cons] at h
    obtain ⟨h1, h2, h3⟩ := pairwise_decomp rest h.2
    have hc : cres (⟨false, i⟩ :: rest) = i :: cres rest := by simp [cres]
    have ha : anns (⟨false, i⟩ :: rest) = anns rest := by simp [anns]
    rw [hc, ha]
    refine ⟨?_, ?_, h3⟩
    · rw [List.map_cons, List.cons_append, ← h1]
    · refine List.Pairwise.cons ?_ h2
      intro j hj
      simp only [cres, List.mem_map, List.mem_filter] at hj
      obtain ⟨o, ⟨ho, hoa⟩, rfl⟩ := hj
      have := h.1 o ho
      obtain ⟨oa, oi⟩ := o
      cases oa
      · simpa [Op.lt] using this
      · simp at hoa
  | ⟨true, i⟩ :: rest, h => by
    rw [List.pairwise_cons] at h
    obtain ⟨h1, h2, h3⟩ := pairwise_decomp rest h.2
    have hall : ∀ o ∈ rest, o.ann = true ∧ i < o.idx := by
      intro o ho
      have := h.1 o ho
      obtain ⟨oa, oi⟩ := o
      cases oa
      · simp [Op.lt] at this
      · simpa [Op.lt] using this
    have hc0 : cres rest = [] := by
      simp only [cres, List.map_eq_nil_iff, List.filter_eq_nil_iff]
      intro o ho
      simp [(hall o ho).1]
    have hc : cres (⟨true, i⟩ :: rest) = [] := by simpa [cres] using hc0
    have ha : anns (⟨true, i⟩ :: rest) = i :: anns rest := by simp [anns]
    rw [hc, ha]
    refine ⟨?_, List.Pairwise.nil, ?_⟩
    · rw [hc0] at h1
      simpa using h1
    · refine List.Pairwise.cons ?_ h3
      intro j hj
      simp only [anns, List.mem_map, List.mem_filter] at hj
      obtain ⟨o, ⟨ho, _⟩, rfl⟩ := hj
      exact (hall o ho).2

/-! ### the action of a normal monomial on a Fock state -/

theorem actOp_some {o : Op} {s s' : Nat} {n : Bool} (h : actOp o s = some (s', n)) :
    o.ann = s.testBit o.idx ∧ s' = flipBit s o.idx := by
  unfold actOp at h
  by_cases hc : o.ann = s.testBit o.idx
  · simp only [hc, if_true, Option.some.injEq, Prod.mk.injEq] at h
    exact ⟨hc, h.1.symm⟩
  · simp [hc] at h

theorem actOp_of {o : Op} {s : Nat} (h : o.ann = s.testBit o.idx) :
    actOp o s = some (flipBit s o.idx, lowParity s o.idx) := by
  simp [actOp, h]

theorem actMono_cons_some {o : Op} {rest : Mono} {s s' : Nat} {neg : Bool}
    (h : actMono (o :: rest) s = some (s', neg)) :
    ∃ s1 n1 n2, actMono rest s = some (s1, n1) ∧ actOp o s1 = some (s', n2) := by
  simp only [actMono] at h
  cases h1 : actMono rest s with
  | none => simp [h1] at h
  | some q =>
    obtain ⟨s1, n1⟩ := q
    simp only [h1] at h
    cases h2 : actOp o s1 with
    | none => simp [h2] at h
    | some q2 =>
      obtain ⟨s2, n2⟩ := q2
      simp only [h2, Option.some.injEq, Prod.mk.injEq] at h
      exact ⟨s1, n1, n2, rfl, by rw [← h.1, h2]⟩

theorem actMono_cons_of_some {o : Op} {rest : Mono} {s s1 s2 : Nat} {n1 n2 : Bool}
    (h1 : actMono rest s = some (s1, n1)) (h2 : actOp o s1 = some (s2, n2)) :
    actMono (o :: rest) s = some (s2, n1 != n2) := by
  simp [actMono, h1, h2]

theorem actMono_append_some : ∀ (m1 m2 : Mono) (s s' : Nat) (neg : Bool),
    actMono (m1 ++ m2) s = some (s', neg) →
    ∃ s1 n1 n2, actMono m2 s = some (s1, n1) ∧ actMono m1 s1 = some (s', n2)
  | [], _, _, s', neg, h => ⟨s', neg, false, by simpa using h, rfl⟩
  | o :: m1, m2, s, s', neg, h => by
    rw [List.cons_append] at h
    obtain ⟨sa, na, nb, h1, h2⟩ := actMono_cons_some h
    obtain ⟨s1, n1, n2, h3, h4⟩ := actMono_append_some m1 m2 s sa na h1
    exact ⟨s1, n1, n2 != nb, h3, actMono_cons_of_some h4 h2⟩

theorem actMono_append_of_some : ∀ (m1 m2 : Mono) (s s1 s2 : Nat) (n1 n2 : Bool),
    actMono m2 s = some (s1, n1) → actMono m1 s1 = some (s2, n2) →
    ∃ neg, actMono (m1 ++ m2) s = some (s2, neg)
  | [], _, _, _, _, n1, _, h1, h2 => by
    simp only [actMono, Option.some.injEq, Prod.mk.injEq] at h2
    obtain ⟨rfl, _⟩ := h2
    exact ⟨n1, h1⟩
  | o :: m1, m2, s, s1, s2, n1, n2, h1, h2 => by
    obtain ⟨sa, na, nb, h3, h4⟩ := actMono_cons_some h2
    obtain ⟨neg, h5⟩ := actMono_append_of_some m1 m2 s s1 sa n1 na h1 h3
    exact ⟨neg != nb, actMono_cons_of_some h5 h4⟩

/-- a string of annihilators acts only when all its modes are occupied, and empties them -/
theorem act_anns_some : ∀ (as : List Nat) (s s' : Nat) (neg : Bool),
    actMono (as.map (Op.mk true)) s = some (s', neg) →
    (∀ i ∈ as, s.testBit i = true) ∧ ∀ j, s'.testBit j = (s.testBit j && !decide (j ∈ as))
  | [], s, s', neg, h => by
    simp only [List.map_nil, actMono, Option.some.injEq, Prod.mk.injEq] at h
    obtain ⟨rfl, _⟩ := h
    simp
  | a :: as, s, s', neg, h => by
    rw [List.map_cons] at h
    obtain ⟨s1, n1, n2, h1, h2⟩ := actMono_cons_some h
    obtain ⟨ih1, ih2⟩ := act_anns_some as s s1 n1 h1
    obtain ⟨h3, rfl⟩ := actOp_some h2
    simp only at h3
    rw [ih2] at h3
    have h4 : s.testBit a = true ∧ a ∉ as := by simpa using h3.symm
    refine ⟨?_, ?_⟩
    · intro i hi
      rcases List.mem_cons.1 hi with rfl | hi
      · exact h4.1
      · exact ih1 i hi
    · intro j
      simp only [testBit_flipBit, ih2]
      by_cases hj : a = j
      · subst hj
        simp [h4.1, h4.2]
      · have hj' : ¬ j = a := fun e => hj e.symm
        simp [hj, hj']

theorem act_anns_of : ∀ (as : List Nat) (s : Nat), as.Nodup → (∀ i ∈ as, s.testBit i = true) →
    ∃ s' neg, actMono (as.map (Op.mk true)) s = some (s', neg)
  | [], s, _, _ => ⟨s, false, rfl⟩
  | a :: as, s, hnd, hs => by
    rw [List.nodup_cons] at hnd
    obtain ⟨s1, n1, h1⟩ := act_anns_of as s hnd.2 (fun i hi => hs i (List.mem_cons_of_mem _ hi))
    have h2 := (act_anns_some as s s1 n1 h1).2 a
    have h3 : (Op.mk true a).ann = s1.testBit (Op.mk true a).idx := by
      simp [h2, hs a List.mem_cons_self, hnd.1]
    exact ⟨_, _, actMono_cons_of_some h1 (actOp_of h3)⟩

/-- a string of creators acts only when all its modes are empty, and fills them -/
theorem act_cres_some : ∀ (cs : List Nat) (s s' : Nat) (neg : Bool),
    actMono (cs.map (Op.mk false)) s = some (s', neg) →
    (∀ i ∈ cs, s.testBit i = false) ∧ ∀ j, s'.testBit j = (s.testBit j || decide (j ∈ cs))
  | [], s, s', neg, h => by
    simp only [List.map_nil, actMono, Option.some.injEq, Prod.mk.injEq] at h
    obtain ⟨rfl, _⟩ := h
    simp
  | c :: cs, s, s', neg, h => by
    rw [List.map_cons] at h
    obtain ⟨s1, n1, n2, h1, h2⟩ := actMono_cons_some h
    obtain ⟨ih1, ih2⟩ := act_cres_some cs s s1 n1 h1
    obtain ⟨h3, rfl⟩ := actOp_some h2
    simp only at h3
    rw [ih2] at h3
    have h4 : s.testBit c = false ∧ c ∉ cs := by simpa using h3.symm
    refine ⟨?_, ?_⟩
    · intro i hi
      rcases List.mem_cons.1 hi with rfl | hi
      · exact h4.1
      · exact ih1 i hi
    · intro j
      simp only [testBit_flipBit, ih2]
      by_cases hj : c = j
      · subst hj
        simp [h4.1, h4.2]
      · have hj' : ¬ j = c := fun e => hj e.symm
        simp [hj, hj']

theorem act_cres_of : ∀ (cs : List Nat) (s : Nat), cs.Nodup → (∀ i ∈ cs, s.testBit i = false) →
    ∃ s' neg, actMono (cs.map (Op.mk false)) s = some (s', neg)
  | [], s, _, _ => ⟨s, false, rfl⟩
  | c :: cs, s, hnd, hs => by
    rw [List.nodup_cons] at hnd
    obtain ⟨s1, n1, h1⟩ := act_cres_of cs s hnd.2 (fun i hi => hs i (List.mem_cons_of_mem _ hi))
    have h2 := (act_cres_some cs s s1 n1 h1).2 c
    have h3 : (Op.mk false c).ann = s1.testBit (Op.mk false c).idx := by
      simp [h2, hs c List.mem_cons_self, hnd.1]
    exact ⟨_, _, actMono_cons_of_some h1 (actOp_of h3)⟩

/-- action of `c†_{cs} c_{as}`: necessary conditions and the resulting state -/
theorem act_normal_some (cs as : List Nat) (s s' : Nat) (neg : Bool)
    (h : actMono (cs.map (Op.mk false) ++ as.map (Op.mk true)) s = some (s', neg)) :
    (∀ i ∈ as, s.testBit i = true) ∧
      ∀ j, s'.testBit j = ((s.testBit j && !decide (j ∈ as)) || decide (j ∈ cs)) := by
  obtain ⟨s1, n1, n2, h1, h2⟩ := actMono_append_some _ _ _ _ _ h
  obtain ⟨ha1, ha2⟩ := act_anns_some as s s1 n1 h1
  obtain ⟨_, hc2⟩ := act_cres_some cs s1 s' n2 h2
  refine ⟨ha1, fun j => ?_⟩
  rw [hc2, ha2]

/-- action of `c†_{cs} c_{as}`: sufficient conditions -/
theorem act_normal_of (cs as : List Nat) (s : Nat) (hcs : cs.Nodup) (has : as.Nodup)
    (h1 : ∀ i ∈ as, s.testBit i = true) (h2 : ∀ i ∈ cs, s.testBit i = true → i ∈ as) :
    ∃ s' neg, actMono (cs.map (Op.mk false) ++ as.map (Op.mk true)) s = some (s', neg) := by
  obtain ⟨s1, n1, ha⟩ := act_anns_of as s has h1
  have hb := (act_anns_some as s s1 n1 ha).2
  obtain ⟨s2, n2, hc⟩ := act_cres_of cs s1 hcs (by
    intro i hi
    rw [hb]
    by_cases hs : s.testBit i = true
    · simp [h2 i hi hs]
    · simp [hs])
  obtain ⟨neg, hd⟩ := actMono_append_of_some _ _ _ _ _ _ _ ha hc
  exact ⟨s2, neg, hd⟩

/-- the Fock state whose occupied modes are the members of the list -/
def maskOf : List Nat → Nat
  | [] => 0
  | i :: l => maskOf l ||| 2 ^ i

theorem testBit_maskOf (l : List Nat) (j : Nat) : (maskOf l).testBit j = decide (j ∈ l) := by
  induction l with
  | nil => simp [maskOf]
  | cons i l ih =>
    simp only [maskOf, Nat.testBit_or, ih, Nat.testBit_two_pow, List.mem_cons]
    by_cases h : i = j
    · simp [h]
    · have h' : ¬ j = i := fun e => h e.symm
      simp [h, h']

theorem sorted_eq_of_mem_iff {l1 l2 : List Nat} (h1 : l1.Pairwise (· < ·))
    (h2 : l2.Pairwise (· < ·)) (h : ∀ j, j ∈ l1 ↔ j ∈ l2) : l1 = l2 := by
  have n1 : l1.Nodup := h1.imp (fun hab => Nat.ne_of_lt hab)
  have n2 : l2.Nodup := h2.imp (fun hab => Nat.ne_of_lt hab)
  exact List.Perm.eq_of_pairwise (le := (· < ·))
    (fun a b _ _ hab hba => absurd hab (Nat.lt_asymm hba)) h1 h2
    ((List.perm_ext_iff_of_nodup n1 n2).2 h)

section
variable {K : Type} [CommRing K]

theorem amp_none {m : Mono} {s : Nat} (h : actMono m s = none) :
    (jwRep K).mono m (Finsupp.single s 1) = 0 := by
  rw [jw_mono_single, h]

theorem amp_some {m : Mono} {s s' : Nat} {neg : Bool} (h : actMono m s = some (s', neg)) :
    (jwRep K).mono m (Finsupp.single s 1) = Finsupp.single s' (sgn K neg) := by
  rw [jw_mono_single, h]
  rfl

/-- a normal monomial maps "its" source state to "its" target state, up to a sign -/
theorem normal_diag (m : Mono) (hm : NormalMono m) :
    ∃ b, (jwRep K).mono m (Finsupp.single (maskOf (anns m)) 1) =
      Finsupp.single (maskOf (cres m)) (sgn K b) := by
  obtain ⟨hd, hcs, has⟩ := pairwise_decomp m (normalMono_pairwise m hm)
  have ncs : (cres m).Nodup := hcs.imp (fun hab => Nat.ne_of_lt hab)
  have nas : (anns m).Nodup := has.imp (fun hab => Nat.ne_of_lt hab)
  obtain ⟨s', neg, h⟩ := act_normal_of (cres m) (anns m) (maskOf (anns m)) ncs nas
    (fun i hi => by simp [testBit_maskOf, hi])
    (fun i _ hi => by simpa [testBit_maskOf] using hi)
  have hs' : s' = maskOf (cres m) := by
    apply Nat.eq_of_testBit_eq
    intro j
    rw [(act_normal_some _ _ _ _ _ h).2 j, testBit_maskOf, testBit_maskOf]
    by_cases hj : j ∈ anns m <;> simp [hj]
  rw [← hd] at h
  exact ⟨neg, by rw [amp_some h, hs']⟩

/-- a different normal monomial with at least as many annihilators has a vanishing matrix
element between these two states -/
theorem normal_offdiag (m m₀ : Mono) (hm : NormalMono m) (hm₀ : NormalMono m₀)
    (hlen : (anns m₀).length ≤ (anns m).length) (hne : m ≠ m₀) :
    ((jwRep K).mono m (Finsupp.single (maskOf (anns m₀)) 1)) (maskOf (cres m₀)) = 0 := by
  cases h : actMono m (maskOf (anns m₀)) with
  | none => rw [amp_none h]; rfl
  | some q =>
    obtain ⟨s', neg⟩ := q
    rw [amp_some h, Finsupp.single_apply, if_neg]
    intro hs'
    apply hne
    obtain ⟨hd, hcs, has⟩ := pairwise_decomp m (normalMono_pairwise m hm)
    obtain ⟨hd₀, hcs₀, has₀⟩ := pairwise_decomp m₀ (normalMono_pairwise m₀ hm₀)
    rw [hd] at h
    obtain ⟨h1, h2⟩ := act_normal_some _ _ _ _ _ h
    have nas : (anns m).Nodup := has.imp (fun hab => Nat.ne_of_lt hab)
    have hsub : anns m ⊆ anns m₀ := by
      intro i hi
      simpa [testBit_maskOf] using h1 i hi
    have hperm : (anns m).Perm (anns m₀) :=
      (List.subperm_of_subset nas hsub).perm_of_length_le hlen
    have ha : anns m = anns m₀ :=
      sorted_eq_of_mem_iff has has₀ (fun j => hperm.mem_iff)
    have hc : cres m = cres m₀ := by
      refine sorted_eq_of_mem_iff hcs hcs₀ (fun j => ?_)
      have := h2 j
      rw [hs', testBit_maskOf, testBit_maskOf, ha] at this
      by_cases hj : j ∈ anns m₀ <;> simpa [hj] using this.symm
    rw [hd, hd₀, ha, hc]

/-- LINEAR INDEPENDENCE of the Jordan-Wigner images of the normal monomials -/
theorem jw_lincomb_zero (l : Mono →₀ K) (hn : ∀ m ∈ l.support, NormalMono m)
    (h0 : (l.sum fun m c => c • (jwRep K).mono m) = 0) : l = 0 := by
  have key : ∀ s t : Nat,
      (∑ m ∈ l.support, l m * ((jwRep K).mono m (Finsupp.single s 1)) t) = 0 := by
    intro s t
    have := congrArg (fun f : Module.End K (Nat →₀ K) => f (Finsupp.single s 1) t) h0
    simpa [Finsupp.sum, LinearMap.sum_apply, Finsupp.finsetSum_apply] using this
  have main : ∀ n, ∀ m, (anns m).length = n → l m = 0 := by
    intro n
    induction n using Nat.strong_induction_on with
    | _ n ih =>
      intro m₀ hlen
      by_contra hne
      have hmem : m₀ ∈ l.support := Finsupp.mem_support_iff.2 hne
      have hn₀ := hn m₀ hmem
      obtain ⟨b, hb⟩ := normal_diag (K := K) m₀ hn₀
      have hk := key (maskOf (anns m₀)) (maskOf (cres m₀))
      rw [Finset.sum_eq_single m₀ (fun m hm hmne => by
          by_cases hlt : (anns m).length < n
          · rw [ih _ hlt m rfl, zero_mul]
          · rw [normal_offdiag m m₀ (hn m hm) hn₀ (by omega) hmne, mul_zero])
        (fun h => absurd hmem h), hb, Finsupp.single_eq_same] at hk
      apply hne
      calc l m₀ = l m₀ * sgn K b * sgn K b := by rw [mul_assoc, sgn_mul_self, mul_one]
        _ = 0 := by rw [hk, zero_mul]
  ext m
  exact main _ m rfl

/-! ### from association lists to finitely supported functions -/

/-- the coefficient function of an association list (duplicate keys are summed) -/
noncomputable def toF (p : Poly K) : Mono →₀ K := (p.map fun mc => Finsupp.single mc.1 mc.2).sum

@[simp] theorem toF_nil : toF ([] : Poly K) = 0 := rfl

@[simp] theorem toF_cons (mc : Mono × K) (p : Poly K) :
    toF (mc :: p) = Finsupp.single mc.1 mc.2 + toF p := by
  simp [toF]

theorem toF_sum (p : Poly K) :
    ((toF p).sum fun m c => c • (jwRep K).mono m) = (jwRep K).poly p := by
  induction p with
  | nil => simp
  | cons mc p ih =>
    obtain ⟨m, c⟩ := mc
    rw [toF_cons, Finsupp.sum_add_index' (by simp) (by intros; simp [add_smul]),
      Finsupp.sum_single_index (by simp), ih, poly_cons]

theorem toF_apply_of_not_mem (p : Poly K) (m : Mono) (h : m ∉ p.map (·.1)) : toF p m = 0 := by
  induction p with
  | nil => simp
  | cons mc p ih =>
    simp only [List.map_cons, List.mem_cons, not_or] at h
    rw [toF_cons, Finsupp.add_apply, ih h.2, Finsupp.single_apply, if_neg (Ne.symm h.1), add_zero]

theorem toF_apply_of_mem (p : Poly K) (hnd : (p.map (·.1)).Nodup) (mc : Mono × K) (h : mc ∈ p) :
    toF p mc.1 = mc.2 := by
  induction p with
  | nil => simp at h
  | cons x p ih =>
    rw [List.map_cons, List.nodup_cons] at hnd
    rw [toF_cons, Finsupp.add_apply]
    rcases List.mem_cons.1 h with rfl | h
    · rw [toF_apply_of_not_mem p _ hnd.1, Finsupp.single_eq_same, add_zero]
    · have hne : x.1 ≠ mc.1 := by
        intro e
        exact hnd.1 (e ▸ List.mem_map_of_mem h)
      rw [ih hnd.2 h, Finsupp.single_apply, if_neg hne, zero_add]

theorem toF_support_normal (p : Poly K) (hn : NormalPoly p) (m : Mono) (h : toF p m ≠ 0) :
    NormalMono m := by
  by_cases hm : m ∈ p.map (·.1)
  · obtain ⟨mc, hmc, rfl⟩ := List.mem_map.1 hm
    exact hn mc hmc
  · exact absurd (toF_apply_of_not_mem p m hm) h

end

section
variable {K : Type} [CommRing K] [DecidableEq K]

/-- the keys are strictly increasing for the order of `std::map<monomial_t, _>` -/
def KeysSorted (p : Poly K) : Prop := (p.map (·.1)).Pairwise (fun a b => monoLt a b = true)

omit [CommRing K] [DecidableEq K] in
theorem KeysSorted.nodup {p : Poly K} (h : KeysSorted p) : (p.map (·.1)).Nodup :=
  List.Pairwise.imp (fun hab => monoLt_ne _ _ hab) h

omit [DecidableEq K] in
/-- LINEAR INDEPENDENCE, list form: a vanishing combination of distinct normal monomials has
vanishing coefficients -/
theorem jw_normal_independent [Nontrivial K] (p : Poly K) (hs : KeysSorted p) (hn : NormalPoly p)
    (h0 : (jwRep K).poly p = 0) : ∀ mc ∈ p, mc.2 = 0 := by
  have hl := jw_lincomb_zero (toF p)
    (fun m hm => toF_support_normal p hn m (Finsupp.mem_support_iff.1 hm))
    (by rw [toF_sum]; exact h0)
  intro mc hmc
  rw [← toF_apply_of_mem p hs.nodup mc hmc, hl]
  rfl

/-- canonical polynomials: sorted distinct normal keys, non-zero coefficients -/
def Canonical (p : Poly K) : Prop := KeysSorted p ∧ NormalPoly p ∧ ∀ mc ∈ p, mc.2 ≠ 0

omit [DecidableEq K] in
theorem Canonical.mem_keys_iff {p : Poly K} (hp : Canonical p) (m : Mono) :
    m ∈ p.map (·.1) ↔ toF p m ≠ 0 := by
  constructor
  · intro hm
    obtain ⟨mc, hmc, rfl⟩ := List.mem_map.1 hm
    rw [toF_apply_of_mem p hp.1.nodup mc hmc]
    exact hp.2.2 mc hmc
  · intro h
    by_contra hm
    exact h (toF_apply_of_not_mem p m hm)

omit [DecidableEq K] in
theorem Canonical.eq_map_toF {p : Poly K} (hp : Canonical p) :
    p = (p.map (·.1)).map (fun m => (m, toF p m)) := by
  rw [List.map_map]
  conv_lhs => rw [← List.map_id p]
  apply List.map_congr_left
  intro mc hmc
  simp only [id, Function.comp, toF_apply_of_mem p hp.1.nodup mc hmc]

omit [DecidableEq K] in
/-- a canonical polynomial is determined by its coefficient function -/
theorem Canonical.eq_of_toF_eq {p q : Poly K} (hp : Canonical p) (hq : Canonical q)
    (h : toF p = toF q) : p = q := by
  have hk : p.map (·.1) = q.map (·.1) := by
    refine List.Perm.eq_of_pairwise (le := fun a b => monoLt a b = true) ?_ hp.1 hq.1 ?_
    · intro a b _ _ hab hba
      rw [monoLt_asymm a b hab] at hba
      cases hba
    · refine (List.perm_ext_iff_of_nodup hp.1.nodup hq.1.nodup).2 (fun m => ?_)
      rw [hp.mem_keys_iff, hq.mem_keys_iff, h]
  rw [hp.eq_map_toF, hq.eq_map_toF, hk, h]

omit [DecidableEq K] in
/-- canonical polynomials with equal Jordan–Wigner matrices are equal -/
theorem jw_poly_injective [Nontrivial K] (p q : Poly K) (hp : Canonical p) (hq : Canonical q)
    (h : (jwRep K).poly p = (jwRep K).poly q) : p = q := by
  apply Canonical.eq_of_toF_eq hp hq
  rw [← sub_eq_zero]
  apply jw_lincomb_zero
  · intro m hm
    have hm' : toF p m - toF q m ≠ 0 := by simpa using hm
    by_cases h1 : toF p m = 0
    · refine toF_support_normal q hq.2.1 m (fun h2 => hm' ?_)
      rw [h1, h2, sub_zero]
    · exact toF_support_normal p hp.2.1 m h1
  · rw [Finsupp.sum_sub_index (h := fun m c => c • (jwRep K).mono m)
      (fun _ _ _ => sub_smul _ _ _), toF_sum, toF_sum, h, sub_self]

/-- THE (REPAIRED) EQUALITY TEST AGREES WITH MATRIX EQUALITY on canonical polynomials -/
theorem eqCoded_iff_sem [Nontrivial K] (p q : Poly K) (hp : Canonical p) (hq : Canonical q) :
    Poly.eqCoded true p q = some true ↔ (jwRep K).poly p = (jwRep K).poly q := by
  rw [eqCoded_true_iff]
  exact ⟨fun h => by rw [h], jw_poly_injective p q hp hq⟩

end

end Pomerol.Spec
