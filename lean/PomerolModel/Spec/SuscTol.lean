/-
  Tolerance-aware accounting of the dynamical susceptibility (C14, finding F14).

  `Spec/Susc.lean` / `Spec/Bridge.lean` prove that the pole sum with the EXACT degeneracy test
  `E_m = E_n` equals the definition `∫₀^β ⟨A(τ)B(0)⟩ e^{iΩ_k τ} dτ`.  The code
  (`SusceptibilityPart::compute`) uses two tolerance tests instead, extracted as
  `Gen.Susc.isZeroPole pole rtol` (`|E_m − E_n| < ReduceResonanceTolerance`) and
  `Gen.Susc.residueKept res tol` (`|Residue| > MatrixElementTolerance`).  Here:

  * `suscWithTolerances`: the value computed with these two tests, written with the generated
    definitions instantiated at `ℝ`/`ℂ` through the instances of `Spec/Bridge.lean`;
  * `suscWithTolerances_eq`: exact accounting -- definition minus the terms the residue filter
    drops minus the error of the zero-pole treatment of nearly (not exactly) degenerate pairs;
  * `suscWithTolerances_exact_of_clean_spectrum`: no error if no pair falls in either class;
  * `residue_filter_loses_static_term`, `residue_filter_counterexample`: the defect -- a pair split
    by slightly more than `rtol` has residue `A B (w_n − w_m) ≈ A B w β ΔE ≤ mtol`, its term is
    dropped, yet its static contribution `Residue/Pole ≈ β w A B` is of order one.

  As in the existing theorems the zero-pole weight is added at `k = 0` only (the code's test is
  `|iΩ_k| < 1e-15`, which is `k = 0` for every `β < 2π·10¹⁵`).
-/
import PomerolModel.Spec.Bridge
import Mathlib.Data.Matrix.Basis
import Mathlib.Analysis.Complex.Exponential

/-! ## the extracted tests and constants at ℝ / ℂ -/

namespace Pomerol.Spec.Bridge
open Pomerol Pomerol.Spec Complex

/-- `std::abs` on the real sort is the absolute value -/
theorem absR_eq_abs (x : ℝ) : Pomerol.absR x = |x| := by
  unfold Pomerol.absR
  split_ifs with h
  · exact (abs_of_neg h).symm
  · exact (abs_of_nonneg (not_lt.mp h)).symm

theorem susc_pole (ei eo : ℝ) : Gen.Susc.pole ei eo = ei - eo := rfl

theorem susc_residue (a b : ℂ) (wo wi : ℝ) :
    Gen.Susc.residue a b wo wi = a * b * ((wo : ℂ) - (wi : ℂ)) := by
  simp only [Gen.Susc.residue, ofReal_eq, Complex.ofReal_sub]

theorem susc_termFreq (res : ℂ) (P : ℝ) (z : ℂ) :
    Gen.Susc.termFreq res P z = -res / (z - (P : ℂ)) := rfl

/-- the extracted zero-pole test `abs(Pole) < ReduceResonanceTolerance` -/
theorem susc_isZeroPole (P rtol : ℝ) : Gen.Susc.isZeroPole P rtol = true ↔ |P| < rtol := by
  unfold Gen.Susc.isZeroPole
  rw [decide_eq_true_iff, absR_eq_abs]

/-- the extracted residue filter `abs(Residue) > MatrixElementTolerance` -/
theorem susc_residueKept (res : ℂ) (tol : ℝ) :
    Gen.Susc.residueKept res tol = true ↔ tol < ‖res‖ := by
  unfold Gen.Susc.residueKept
  rw [decide_eq_true_iff, abs_eq]

/-- the extracted tolerances of `SusceptibilityPart` are `10⁻⁸` -/
theorem susc_tolerances :
    (Gen.Susc.tolResonance : ℝ) = 1 / 10 ^ 8 ∧ (Gen.Susc.tolMatrixElement : ℝ) = 1 / 10 ^ 8 := by
  unfold Gen.Susc.tolResonance Gen.Susc.tolMatrixElement
  constructor <;> norm_num

theorem susc_tolResonance_pos : (0 : ℝ) < Gen.Susc.tolResonance := by
  rw [susc_tolerances.1]; norm_num

end Pomerol.Spec.Bridge

namespace Pomerol.Spec
open Matrix Complex Pomerol.Spec.Bridge

variable {ι : Type} [Fintype ι] [DecidableEq ι]

set_option linter.unusedSectionVars false

/-! ## the value with the library's tolerance tests -/

/-- What `SusceptibilityPart::compute` + the evaluation at `iΩ_k` do with the pair (outer index
`n`, inner index `m`): zero-pole test first, then the residue filter. -/
noncomputable def suscPairWithTolerances (d : EigenData ι) (A B : Matrix ι ι ℂ) (k : ℤ)
    (rtol mtol : ℝ) (n m : ι) : ℂ :=
  if Gen.Susc.isZeroPole (Gen.Susc.pole (d.E m) (d.E n)) rtol = true then
    (if k = 0 then Gen.Susc.zeroPoleIncrement (A n m) (B m n) (d.w n) * (d.β : ℂ) else 0)
  else if Gen.Susc.residueKept (Gen.Susc.residue (A n m) (B m n) (d.w n) (d.w m)) mtol = true then
    Gen.Susc.termFreq (Gen.Susc.residue (A n m) (B m n) (d.w n) (d.w m))
      (Gen.Susc.pole (d.E m) (d.E n)) (I * (d.Ω k : ℂ))
  else 0

/-- The susceptibility as the library evaluates it, tolerances included. -/
noncomputable def suscWithTolerances (d : EigenData ι) (A B : Matrix ι ι ℂ) (k : ℤ)
    (rtol mtol : ℝ) : ℂ :=
  ∑ n, ∑ m, suscPairWithTolerances d A B k rtol mtol n m

/-- the same in mathematical notation -/
theorem suscPairWithTolerances_eq (d : EigenData ι) (A B : Matrix ι ι ℂ) (k : ℤ)
    (rtol mtol : ℝ) (n m : ι) :
    suscPairWithTolerances d A B k rtol mtol n m =
      if |d.E m - d.E n| < rtol then
        (if k = 0 then A n m * B m n * (d.w n : ℂ) * (d.β : ℂ) else 0)
      else if mtol < ‖A n m * B m n * ((d.w n : ℂ) - (d.w m : ℂ))‖ then
        -(A n m * B m n * ((d.w n : ℂ) - (d.w m : ℂ)))
          / (I * (d.Ω k : ℂ) - ((d.E m - d.E n : ℝ) : ℂ))
      else 0 := by
  unfold suscPairWithTolerances
  simp only [susc_isZeroPole, susc_residueKept, susc_termFreq, susc_zeroPole, susc_residue,
    susc_pole]

/-- the summand of `EigenData.lehmannSusc` (exact Lehmann term of the pair `(n, m)`) -/
noncomputable def EigenData.lehmannSuscPair (d : EigenData ι) (A B : Matrix ι ι ℂ) (k : ℤ)
    (n m : ι) : ℂ :=
  if d.E m = d.E n then
    (if k = 0 then (d.β : ℂ) * (d.w n : ℂ) * A n m * B m n else 0)
  else -(A n m * B m n * ((d.w n : ℂ) - (d.w m : ℂ)))
        / (I * (d.Ω k : ℂ) - ((d.E m - d.E n : ℝ) : ℂ))

theorem lehmannSusc_eq_sum_pair (d : EigenData ι) (A B : Matrix ι ι ℂ) (k : ℤ) :
    d.lehmannSusc A B k = ∑ n, ∑ m, d.lehmannSuscPair A B k n m := rfl

/-- accounting for one pair -/
theorem suscPairWithTolerances_accounting (d : EigenData ι) (A B : Matrix ι ι ℂ) (k : ℤ)
    (rtol mtol : ℝ) (hr : 0 < rtol) (n m : ι) :
    suscPairWithTolerances d A B k rtol mtol n m =
      d.lehmannSuscPair A B k n m
      - (if rtol ≤ |d.E m - d.E n| ∧ ‖A n m * B m n * ((d.w n : ℂ) - (d.w m : ℂ))‖ ≤ mtol then
          -(A n m * B m n * ((d.w n : ℂ) - (d.w m : ℂ)))
            / (I * (d.Ω k : ℂ) - ((d.E m - d.E n : ℝ) : ℂ)) else 0)
      - (if 0 < |d.E m - d.E n| ∧ |d.E m - d.E n| < rtol then
          -(A n m * B m n * ((d.w n : ℂ) - (d.w m : ℂ)))
            / (I * (d.Ω k : ℂ) - ((d.E m - d.E n : ℝ) : ℂ))
          - (if k = 0 then (d.β : ℂ) * (d.w n : ℂ) * A n m * B m n else 0) else 0) := by
  rw [suscPairWithTolerances_eq]
  unfold EigenData.lehmannSuscPair
  by_cases hE : d.E m = d.E n
  · have h0 : |d.E m - d.E n| = 0 := by rw [hE, sub_self, abs_zero]
    have c0 : |d.E m - d.E n| < rtol := by rw [h0]; exact hr
    have c1 : ¬(rtol ≤ |d.E m - d.E n| ∧
        ‖A n m * B m n * ((d.w n : ℂ) - (d.w m : ℂ))‖ ≤ mtol) :=
      fun h => absurd c0 (not_lt.mpr h.1)
    have c2 : ¬(0 < |d.E m - d.E n| ∧ |d.E m - d.E n| < rtol) :=
      fun h => absurd h.1 (by rw [h0]; exact lt_irrefl 0)
    rw [if_pos c0, if_pos hE, if_neg c1, if_neg c2]
    split_ifs <;> ring
  · have hpos : 0 < |d.E m - d.E n| := abs_pos.mpr (sub_ne_zero.mpr hE)
    rw [if_neg hE]
    by_cases hz : |d.E m - d.E n| < rtol
    · have c1 : ¬(rtol ≤ |d.E m - d.E n| ∧
          ‖A n m * B m n * ((d.w n : ℂ) - (d.w m : ℂ))‖ ≤ mtol) :=
        fun h => absurd hz (not_lt.mpr h.1)
      have c2 : 0 < |d.E m - d.E n| ∧ |d.E m - d.E n| < rtol := ⟨hpos, hz⟩
      rw [if_pos hz, if_neg c1, if_pos c2]
      split_ifs <;> ring
    · have c2 : ¬(0 < |d.E m - d.E n| ∧ |d.E m - d.E n| < rtol) := fun h => hz h.2
      rw [if_neg hz, if_neg c2]
      by_cases hk : mtol < ‖A n m * B m n * ((d.w n : ℂ) - (d.w m : ℂ))‖
      · have c1 : ¬(rtol ≤ |d.E m - d.E n| ∧
            ‖A n m * B m n * ((d.w n : ℂ) - (d.w m : ℂ))‖ ≤ mtol) :=
          fun h => absurd hk (not_lt.mpr h.2)
        rw [if_pos hk, if_neg c1]
        ring
      · have c1 : rtol ≤ |d.E m - d.E n| ∧
            ‖A n m * B m n * ((d.w n : ℂ) - (d.w m : ℂ))‖ ≤ mtol :=
          ⟨not_lt.mp hz, not_lt.mp hk⟩
        rw [if_neg hk, if_pos c1]
        ring

/-- EXACT ACCOUNTING.  The value with tolerances is the definition
`∫₀^β ⟨A(τ)B(0)⟩ e^{iΩ_k τ} dτ`
minus the exact Lehmann terms of the pairs outside the resonance window whose residue does not
exceed `mtol` (dropped by the residue filter),
minus, for the pairs with `0 < |E_m − E_n| < rtol` (inside the window but not degenerate), the
difference between their exact Lehmann term and the zero-pole treatment they receive.
(`0 < rtol` is needed: for `rtol ≤ 0` exactly degenerate pairs are not recognised as zero poles.) -/
theorem suscWithTolerances_eq (d : EigenData ι) (A B : Matrix ι ι ℂ) (k : ℤ) (rtol mtol : ℝ)
    (hr : 0 < rtol) :
    suscWithTolerances d A B k rtol mtol =
      d.suscDef A B k
      - (∑ n, ∑ m,
          if rtol ≤ |d.E m - d.E n| ∧ ‖A n m * B m n * ((d.w n : ℂ) - (d.w m : ℂ))‖ ≤ mtol then
            -(A n m * B m n * ((d.w n : ℂ) - (d.w m : ℂ)))
              / (I * (d.Ω k : ℂ) - ((d.E m - d.E n : ℝ) : ℂ)) else 0)
      - (∑ n, ∑ m,
          if 0 < |d.E m - d.E n| ∧ |d.E m - d.E n| < rtol then
            -(A n m * B m n * ((d.w n : ℂ) - (d.w m : ℂ)))
              / (I * (d.Ω k : ℂ) - ((d.E m - d.E n : ℝ) : ℂ))
            - (if k = 0 then (d.β : ℂ) * (d.w n : ℂ) * A n m * B m n else 0) else 0) := by
  rw [lehmann_susc, lehmannSusc_eq_sum_pair]
  unfold suscWithTolerances
  rw [← Finset.sum_sub_distrib, ← Finset.sum_sub_distrib]
  refine Finset.sum_congr rfl fun n _ => ?_
  rw [← Finset.sum_sub_distrib, ← Finset.sum_sub_distrib]
  refine Finset.sum_congr rfl fun m _ => ?_
  exact suscPairWithTolerances_accounting d A B k rtol mtol hr n m

/-- NO ERROR ON A CLEAN SPECTRUM: if every pair of levels is either exactly degenerate or split by
at least `rtol` with a residue that is either above `mtol` or exactly zero, the value with
tolerances is the definition. -/
theorem suscWithTolerances_exact_of_clean_spectrum (d : EigenData ι) (A B : Matrix ι ι ℂ) (k : ℤ)
    (rtol mtol : ℝ) (hr : 0 < rtol)
    (h : ∀ n m, d.E m = d.E n ∨ (rtol ≤ |d.E m - d.E n| ∧
      (mtol < ‖A n m * B m n * ((d.w n : ℂ) - (d.w m : ℂ))‖ ∨
        A n m * B m n * ((d.w n : ℂ) - (d.w m : ℂ)) = 0))) :
    suscWithTolerances d A B k rtol mtol = d.suscDef A B k := by
  rw [suscWithTolerances_eq d A B k rtol mtol hr]
  have h1 : (∑ n, ∑ m,
      if rtol ≤ |d.E m - d.E n| ∧ ‖A n m * B m n * ((d.w n : ℂ) - (d.w m : ℂ))‖ ≤ mtol then
        -(A n m * B m n * ((d.w n : ℂ) - (d.w m : ℂ)))
          / (I * (d.Ω k : ℂ) - ((d.E m - d.E n : ℝ) : ℂ)) else 0) = 0 := by
    refine Finset.sum_eq_zero fun n _ => Finset.sum_eq_zero fun m _ => ?_
    split_ifs with hc
    · rcases h n m with hE | ⟨_, hk | hz⟩
      · exfalso
        rw [hE, sub_self, abs_zero] at hc
        exact absurd hc.1 (not_le.mpr hr)
      · exact absurd hk (not_lt.mpr hc.2)
      · rw [hz, neg_zero, zero_div]
    · rfl
  have h2 : (∑ n, ∑ m,
      if 0 < |d.E m - d.E n| ∧ |d.E m - d.E n| < rtol then
        -(A n m * B m n * ((d.w n : ℂ) - (d.w m : ℂ)))
          / (I * (d.Ω k : ℂ) - ((d.E m - d.E n : ℝ) : ℂ))
        - (if k = 0 then (d.β : ℂ) * (d.w n : ℂ) * A n m * B m n else 0) else 0) = 0 := by
    refine Finset.sum_eq_zero fun n _ => Finset.sum_eq_zero fun m _ => ?_
    rw [if_neg]
    rintro ⟨hpos, hlt⟩
    rcases h n m with hE | ⟨hge, _⟩
    · rw [hE, sub_self, abs_zero] at hpos
      exact lt_irrefl 0 hpos
    · exact absurd hlt (not_lt.mpr hge)
  rw [h1, h2, sub_zero, sub_zero]

/-! ## two-level systems -/

/-- the two-level system with energies `0` and `δ` at inverse temperature `β` -/
noncomputable def twoLevel (β δ : ℝ) (hβ : 0 < β) : EigenData (Fin 2) := ⟨β, hβ, ![0, δ]⟩

theorem twoLevel_w_sub (β δ : ℝ) (hβ : 0 < β) :
    (twoLevel β δ hβ).w 0 - (twoLevel β δ hβ).w 1
      = (1 - Real.exp (-(β * δ))) / (1 + Real.exp (-(β * δ))) := by
  unfold EigenData.w EigenData.Z twoLevel
  rw [Fin.sum_univ_two]
  simp only [Matrix.cons_val_zero, Matrix.cons_val_one, mul_zero, Real.exp_zero, neg_mul]
  rw [← sub_div]

/-- `tanh (x/2) ≤ x/2` in exponential form, for `0 ≤ x ≤ 1` -/
theorem tanh_half_le (x : ℝ) (h0 : 0 ≤ x) (h1 : x ≤ 1) :
    (1 - Real.exp (-x)) / (1 + Real.exp (-x)) ≤ x / 2 := by
  have hpos : 0 < Real.exp (-x) := Real.exp_pos _
  have hup := Real.exp_bound' h0 h1 (n := 3) (by norm_num)
  have hinv : Real.exp (-x) * Real.exp x = 1 := by rw [← Real.exp_add]; simp
  simp only [Finset.sum_range_succ, Finset.sum_range_zero, Nat.factorial] at hup
  norm_num at hup
  rw [div_le_iff₀ (by positivity)]
  -- 1 - y ≤ x/2 (1 + y)  with  y = exp(-x) = 1 / exp x
  have hy : Real.exp (-x) * (1 + x + x ^ 2 / 2 + x ^ 3 * 4 / 18) ≥ 1 := by
    have := mul_le_mul_of_nonneg_left hup hpos.le
    rw [hinv] at this
    linarith
  nlinarith [mul_nonneg hpos.le (pow_nonneg h0 3), mul_nonneg hpos.le (pow_nonneg h0 4),
    mul_nonneg hpos.le h0, mul_nonneg hpos.le (pow_nonneg h0 2)]

/-- `(1 − e^{−x})/(1 + e^{−x}) ≥ x / (2 (1 + x))` for `x ≥ 0` -/
theorem le_one_sub_exp_neg (x : ℝ) (h0 : 0 ≤ x) :
    x / (2 * (1 + x)) ≤ (1 - Real.exp (-x)) / (1 + Real.exp (-x)) := by
  have hpos : 0 < Real.exp (-x) := Real.exp_pos _
  have hinv : Real.exp (-x) * Real.exp x = 1 := by rw [← Real.exp_add]; simp
  have hlow := Real.add_one_le_exp x
  have hy : Real.exp (-x) * (1 + x) ≤ 1 := by
    have := mul_le_mul_of_nonneg_left hlow hpos.le
    rw [hinv] at this
    linarith
  have hle : Real.exp (-x) ≤ 1 := by
    rw [← Real.exp_zero]; exact Real.exp_le_exp.mpr (by linarith)
  rw [div_le_div_iff₀ (by positivity) (by positivity)]
  nlinarith [mul_nonneg hpos.le h0]

theorem norm_ofReal_sub (x y : ℝ) : ‖(x : ℂ) - (y : ℂ)‖ = |x - y| := by
  rw [← Complex.ofReal_sub, Complex.norm_real, Real.norm_eq_abs]

/-! ## non-vacuity of the clean-spectrum hypothesis -/

/-- The two-level system with energies `0`, `1` at `β = 1`, with `A = B` the all-ones matrix and
the library's tolerances `10⁻⁸`, satisfies the hypothesis of
`suscWithTolerances_exact_of_clean_spectrum`: the off-diagonal pairs are split by `1 ≥ 10⁻⁸` and
have residue `|w₀ − w₁| ≥ 1/4 > 10⁻⁸`. -/
theorem twoLevel_clean (n m : Fin 2) :
    (twoLevel 1 1 one_pos).E m = (twoLevel 1 1 one_pos).E n ∨
    ((1 / 10 ^ 8 : ℝ) ≤ |(twoLevel 1 1 one_pos).E m - (twoLevel 1 1 one_pos).E n| ∧
      ((1 / 10 ^ 8 : ℝ) < ‖(Matrix.of fun _ _ => (1 : ℂ) : Matrix (Fin 2) (Fin 2) ℂ) n m
          * (Matrix.of fun _ _ => (1 : ℂ) : Matrix (Fin 2) (Fin 2) ℂ) m n
          * (((twoLevel 1 1 one_pos).w n : ℂ) - ((twoLevel 1 1 one_pos).w m : ℂ))‖ ∨
        (Matrix.of fun _ _ => (1 : ℂ) : Matrix (Fin 2) (Fin 2) ℂ) n m
          * (Matrix.of fun _ _ => (1 : ℂ) : Matrix (Fin 2) (Fin 2) ℂ) m n
          * (((twoLevel 1 1 one_pos).w n : ℂ) - ((twoLevel 1 1 one_pos).w m : ℂ)) = 0)) := by
  have hw : (1 / 4 : ℝ) ≤ (twoLevel 1 1 one_pos).w 0 - (twoLevel 1 1 one_pos).w 1 := by
    rw [twoLevel_w_sub, mul_one]
    have := le_one_sub_exp_neg 1 zero_le_one
    norm_num at this ⊢
    exact this
  have hE0 : (twoLevel 1 1 one_pos).E 0 = 0 := rfl
  have hE1 : (twoLevel 1 1 one_pos).E 1 = 1 := rfl
  simp only [Matrix.of_apply, one_mul, norm_ofReal_sub]
  fin_cases n <;> fin_cases m
  · exact Or.inl rfl
  · refine Or.inr ⟨?_, Or.inl ?_⟩
    · simp only [Fin.zero_eta, Fin.mk_one, hE0, hE1]; norm_num
    · simp only [Fin.zero_eta, Fin.mk_one]
      rw [abs_of_nonneg (by linarith)]
      linarith
  · refine Or.inr ⟨?_, Or.inl ?_⟩
    · simp only [Fin.zero_eta, Fin.mk_one, hE0, hE1]; norm_num
    · simp only [Fin.zero_eta, Fin.mk_one]
      rw [abs_sub_comm, abs_of_nonneg (by linarith)]
      linarith
  · exact Or.inl rfl

/-- ... hence for this (non-degenerate, non-trivial) system the value with the library's tolerances
is the definition at every bosonic frequency. -/
example (k : ℤ) :
    suscWithTolerances (twoLevel 1 1 one_pos) (Matrix.of fun _ _ => (1 : ℂ))
        (Matrix.of fun _ _ => (1 : ℂ)) k (1 / 10 ^ 8) (1 / 10 ^ 8)
      = (twoLevel 1 1 one_pos).suscDef (Matrix.of fun _ _ => (1 : ℂ))
        (Matrix.of fun _ _ => (1 : ℂ)) k :=
  suscWithTolerances_exact_of_clean_spectrum _ _ _ k _ _ (by norm_num) twoLevel_clean

/-! ## the defect: the residue filter drops terms with an O(1) static contribution -/

/-- THE DEFECT, parametrically.  Let `A` have the single entry `A n m = a` and `B` the single entry
`B m n = b`, with `E_m ≠ E_n`, the pair outside the resonance window (`rtol ≤ |E_m − E_n|`) and its
residue not above the matrix-element tolerance (`‖a b (w_n − w_m)‖ ≤ mtol`).  Then the value with
tolerances at `k = 0` is `0`, while the definition `∫₀^β ⟨A(τ)B(0)⟩ dτ` is
`a b (w_n − w_m)/(E_m − E_n)` (which tends to `β w_n a b` when the splitting is small).
(`n ≠ m` follows from `E_m ≠ E_n`; `E_m ≠ E_n` follows from `hP` when `0 < rtol`.) -/
theorem residue_filter_loses_static_term (d : EigenData ι) (n m : ι) (a b : ℂ) (rtol mtol : ℝ)
    (hE : d.E m ≠ d.E n) (hP : rtol ≤ |d.E m - d.E n|)
    (hR : ‖a * b * ((d.w n : ℂ) - (d.w m : ℂ))‖ ≤ mtol) :
    suscWithTolerances d (Matrix.single n m a) (Matrix.single m n b) 0 rtol mtol = 0 ∧
    d.suscDef (Matrix.single n m a) (Matrix.single m n b) 0
      = a * b * ((d.w n : ℂ) - (d.w m : ℂ)) / ((d.E m - d.E n : ℝ) : ℂ) := by
  constructor
  · unfold suscWithTolerances
    refine Finset.sum_eq_zero fun n' _ => Finset.sum_eq_zero fun m' _ => ?_
    rw [suscPairWithTolerances_eq]
    by_cases hnm : n = n' ∧ m = m'
    · obtain ⟨rfl, rfl⟩ := hnm
      simp only [Matrix.single_apply_same]
      rw [if_neg (not_lt.mpr hP), if_neg (not_lt.mpr hR)]
    · have hA : Matrix.single n m a n' m' = 0 := Matrix.single_apply_of_ne _ _ _ _ _ hnm
      simp only [hA, zero_mul, neg_zero, zero_div, ite_self]
  · rw [lehmann_susc, lehmannSusc_eq_sum_pair]
    rw [Finset.sum_eq_single n, Finset.sum_eq_single m]
    · unfold EigenData.lehmannSuscPair
      have h0 : d.Ω 0 = 0 := (Omega_eq_zero_iff d 0).mpr rfl
      rw [if_neg hE, h0]
      simp only [Matrix.single_apply_same]
      rw [Complex.ofReal_zero, mul_zero, zero_sub, neg_div_neg_eq]
    · intro m' _ hm'
      have hA : Matrix.single n m a n m' = 0 :=
        Matrix.single_apply_of_ne _ _ _ _ _ (fun h => hm' h.2.symm)
      unfold EigenData.lehmannSuscPair
      simp only [hA, zero_mul, mul_zero, neg_zero, zero_div, ite_self]
    · intro h; exact absurd (Finset.mem_univ m) h
    · intro n' _ hn'
      refine Finset.sum_eq_zero fun m' _ => ?_
      have hA : Matrix.single n m a n' m' = 0 :=
        Matrix.single_apply_of_ne _ _ _ _ _ (fun h => hn' h.1.symm)
      unfold EigenData.lehmannSuscPair
      simp only [hA, zero_mul, mul_zero, neg_zero, zero_div, ite_self]
    · intro h; exact absurd (Finset.mem_univ n) h

/-- THE DEFECT, quantitatively, with the library's own constants.  Two levels split by
`ΔE = 2·10⁻⁸` at `β = 1`, `A = |0⟩⟨1|`, `B = |1⟩⟨0|`: the pair is outside the resonance window
(`2·10⁻⁸ ≥ 10⁻⁸`), its residue `w₀ − w₁ = tanh(10⁻⁸) ≤ 10⁻⁸` does not pass the filter, so the
library's formula gives `0` for the static susceptibility, while the definition
`∫₀^β ⟨A(τ)B(0)⟩ dτ = (w₀ − w₁)/ΔE` is real and at least `1/5` (it is `≈ 1/2`). -/
theorem residue_filter_counterexample :
    ∃ (d : EigenData (Fin 2)) (A B : Matrix (Fin 2) (Fin 2) ℂ),
      d.β = 1 ∧ d.E = ![0, 2 / 10 ^ 8] ∧ A = Matrix.single 0 1 1 ∧ B = Matrix.single 1 0 1 ∧
      suscWithTolerances d A B 0 Gen.Susc.tolResonance Gen.Susc.tolMatrixElement = 0 ∧
      (d.suscDef A B 0).im = 0 ∧ 1 / 5 ≤ (d.suscDef A B 0).re := by
  have hx0 : (0 : ℝ) ≤ 1 * (2 / 10 ^ 8) := by norm_num
  have hx1 : (1 : ℝ) * (2 / 10 ^ 8) ≤ 1 := by norm_num
  set d := twoLevel 1 (2 / 10 ^ 8) one_pos with hd
  have hE0 : d.E 0 = 0 := rfl
  have hE1 : d.E 1 = 2 / 10 ^ 8 := rfl
  have hup : d.w 0 - d.w 1 ≤ 1 / 10 ^ 8 := by
    rw [hd, twoLevel_w_sub]
    refine (tanh_half_le _ hx0 hx1).trans (le_of_eq ?_)
    norm_num
  have hlow : 1 / 5 * (2 / 10 ^ 8) ≤ d.w 0 - d.w 1 := by
    rw [hd, twoLevel_w_sub]
    refine le_trans ?_ (le_one_sub_exp_neg _ hx0)
    norm_num
  have hnn : 0 ≤ d.w 0 - d.w 1 := le_trans (by norm_num) hlow
  have hmain := residue_filter_loses_static_term d 0 1 1 1
    Gen.Susc.tolResonance Gen.Susc.tolMatrixElement
    (by rw [hE0, hE1]; norm_num)
    (by rw [susc_tolerances.1, hE0, hE1]; norm_num)
    (by rw [susc_tolerances.2, one_mul, one_mul, norm_ofReal_sub, abs_of_nonneg hnn]; exact hup)
  refine ⟨d, Matrix.single 0 1 1, Matrix.single 1 0 1, rfl, rfl, rfl, rfl, hmain.1, ?_, ?_⟩
  · rw [hmain.2, one_mul, one_mul, ← Complex.ofReal_sub, ← Complex.ofReal_div, Complex.ofReal_im]
  · rw [hmain.2, one_mul, one_mul, ← Complex.ofReal_sub, ← Complex.ofReal_div, Complex.ofReal_re,
      hE0, hE1, le_div_iff₀ (by norm_num)]
    linarith

end Pomerol.Spec
