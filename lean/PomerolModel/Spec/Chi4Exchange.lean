/-
  Second exchange symmetry of the two-particle Green's function (C13):

      χ_{ijlk}(ω₁,ω₂;ω₁+ω₂−ω₃) = −χ_{ijkl}(ω₁,ω₂;ω₃)

  i.e. exchanging the THIRD operator with the FOURTH one (which sits at time 0 and carries the
  frequency fixed by energy conservation) flips the sign.  Unlike the first exchange symmetry this
  is not a relabelling of the six time orderings: it needs the cyclicity of the trace together
  with the fermionic antiperiodicity, which at the level of the Lehmann form is the

  * `multiTerm_rotate`      : cyclic identity of the library's multi-term (all resonance classes):
                              rotating the closed world line by one step flips the sign;
  * `orderedLehmann_rotate` : the same for the world-line sum of one ordering;
  * `chiLehmann_swap23`, `chiDef_swap23` : the exchange symmetry for the Lehmann form and (through
                              `chi_lehmann`) for the definition.
-/
import PomerolModel.Spec.Chi4

namespace Pomerol.Spec
open Matrix Complex

/-! ### Step 1: the cyclic identity of the multi-term -/

/-- the multi-term in terms of the three differences `a_k = z_k − P_k` (complex weights) -/
noncomputable def mtCore (β a1 a2 a3 w1 w2 w3 w4 : ℂ) : ℂ :=
  (-(w2 + w3)) / (a1 * a2 * a3)
  + (w1 + w4) / (a1 * (a1 + a2 + a3) * a3)
  + (if a1 + a2 = 0 then β * w1 else (w3 - w1) / (a1 + a2)) / (a1 * a3)
  + (if a2 + a3 = 0 then -(β * w2) else (w2 - w4) / (a2 + a3)) / (a1 * a3)

theorem multiTerm_eq_mtCore (β : ℝ) (z1 z2 z3 : ℂ) (P1 P2 P3 : ℝ) (wi wj wk wl : ℝ) :
    multiTerm β z1 z2 z3 P1 P2 P3 wi wj wk wl
      = mtCore β (z1 - P1) (z2 - P2) (z3 - P3) wi wj wk wl := by
  have c12 : (z1 - (P1:ℂ)) + (z2 - (P2:ℂ)) = z1 + z2 - (P1:ℂ) - (P2:ℂ) := by ring
  have c23 : (z2 - (P2:ℂ)) + (z3 - (P3:ℂ)) = z2 + z3 - (P2:ℂ) - (P3:ℂ) := by ring
  have c123 : z1 + z2 - (P1:ℂ) - (P2:ℂ) + (z3 - (P3:ℂ))
      = z1 + z2 + z3 - (P1:ℂ) - (P2:ℂ) - (P3:ℂ) := by ring
  unfold multiTerm mtCore
  simp only [c12, c23, c123]

/-- CYCLIC IDENTITY, algebraic core.  `a₄ = −(a₁+a₂+a₃)`; in the generic class no relation between
the weights is needed, on the resonance `a₁+a₂ = 0` one needs `w₃ = w₁`, on the resonance
`a₂+a₃ = 0` one needs `w₄ = w₂`. -/
theorem mtCore_rotate (β a1 a2 a3 w1 w2 w3 w4 : ℂ)
    (h1 : a1 ≠ 0) (h2 : a2 ≠ 0) (h3 : a3 ≠ 0) (hs : a1 + a2 + a3 ≠ 0)
    (hw13 : a1 + a2 = 0 → w3 = w1) (hw24 : a2 + a3 = 0 → w4 = w2) :
    mtCore β a2 a3 (-(a1 + a2 + a3)) w2 w3 w4 w1 = - mtCore β a1 a2 a3 w1 w2 w3 w4 := by
  have e1 : a3 + -(a1 + a2 + a3) = -(a1 + a2) := by ring
  have e2 : a2 + a3 + -(a1 + a2 + a3) = -a1 := by ring
  unfold mtCore
  simp only [e1, e2, neg_eq_zero]
  by_cases hc : a1 + a2 = 0 <;> by_cases hb : a2 + a3 = 0
  · -- both resonant
    rw [if_pos hc, if_pos hb, if_pos hc, if_pos hb, hw13 hc, hw24 hb]
    obtain rfl : a2 = -a1 := by linear_combination hc
    obtain rfl : a1 = a3 := by linear_combination -hb
    have e3 : a1 + -a1 + a1 = a1 := by ring
    rw [e3]
    field_simp
    ring
  · -- `a₁+a₂` resonant
    rw [if_pos hc, if_neg hb, if_pos hc, if_neg hb, hw13 hc]
    obtain rfl : a2 = -a1 := by linear_combination hc
    have e3 : a1 + -a1 + a3 = a3 := by ring
    rw [e3] at hs ⊢
    field_simp
    ring
  · -- `a₂+a₃` resonant
    rw [if_neg hc, if_pos hb, if_neg hc, if_pos hb, hw24 hb]
    obtain rfl : a3 = -a2 := by linear_combination hb
    have e3 : a1 + a2 + -a2 = a1 := by ring
    rw [e3] at hs ⊢
    field_simp
    ring
  · -- generic: a rational identity, no relation between the weights
    rw [if_neg hc, if_neg hb, if_neg hc, if_neg hb]
    field_simp
    ring

/-- `e^{βz} = −1` for three frequencies implies it for the fourth one `z₄ = −(z₁+z₂+z₃)` -/
theorem exp_fourth {β : ℝ} {z1 z2 z3 z4 : ℂ} (hz : z1 + z2 + z3 + z4 = 0)
    (h1 : Complex.exp ((β:ℂ) * z1) = -1) (h2 : Complex.exp ((β:ℂ) * z2) = -1)
    (h3 : Complex.exp ((β:ℂ) * z3) = -1) : Complex.exp ((β:ℂ) * z4) = -1 := by
  have h4 : z4 = -(z1 + z2 + z3) := by linear_combination hz
  have h123 : Complex.exp ((β:ℂ) * (z1 + z2 + z3)) = -1 := by
    rw [mul_add, mul_add, Complex.exp_add, Complex.exp_add, h1, h2, h3]
    ring
  rw [h4, mul_neg, Complex.exp_neg, h123]
  norm_num

/-- CYCLIC IDENTITY OF THE MULTI-TERM (all four resonance classes).  Along a closed world line
n₁→n₂→n₃→n₄→n₁ the level differences and the frequencies add up to zero; rotating the world line
by one step (the operator that was first becomes last) flips the sign (fermionic
antiperiodicity). -/
theorem multiTerm_rotate (β : ℝ) (z1 z2 z3 z4 : ℂ) (P1 P2 P3 P4 : ℝ) (w1 w2 w3 w4 : ℝ)
    (hz : z1 + z2 + z3 + z4 = 0) (hP : P1 + P2 + P3 + P4 = 0)
    (h1 : Complex.exp ((β:ℂ) * z1) = -1) (h2 : Complex.exp ((β:ℂ) * z2) = -1)
    (h3 : Complex.exp ((β:ℂ) * z3) = -1)
    (hw2 : w2 = w1 * Real.exp (-β * P1)) (hw3 : w3 = w2 * Real.exp (-β * P2))
    (hw4 : w4 = w3 * Real.exp (-β * P3)) :
    multiTerm β z2 z3 z4 P2 P3 P4 w2 w3 w4 w1 = - multiTerm β z1 z2 z3 P1 P2 P3 w1 w2 w3 w4 := by
  have n1 : z1 - (P1:ℂ) ≠ 0 := sub_ofReal_ne_zero_of_exp_eq_neg_one h1 P1
  have n2 : z2 - (P2:ℂ) ≠ 0 := sub_ofReal_ne_zero_of_exp_eq_neg_one h2 P2
  have n3 : z3 - (P3:ℂ) ≠ 0 := sub_ofReal_ne_zero_of_exp_eq_neg_one h3 P3
  have h4 := exp_fourth hz h1 h2 h3
  have hP' : (P1:ℂ) + P2 + P3 + P4 = 0 := by exact_mod_cast hP
  have a4 : z4 - (P4:ℂ) = -((z1 - (P1:ℂ)) + (z2 - (P2:ℂ)) + (z3 - (P3:ℂ))) := by
    linear_combination hz - hP'
  have ns : (z1 - (P1:ℂ)) + (z2 - (P2:ℂ)) + (z3 - (P3:ℂ)) ≠ 0 := by
    have h := sub_ofReal_ne_zero_of_exp_eq_neg_one h4 P4
    rw [a4] at h
    exact neg_ne_zero.mp h
  have e1 := exp_sub_ofReal_mul h1 P1
  have e2 := exp_sub_ofReal_mul h2 P2
  have e3 := exp_sub_ofReal_mul h3 P3
  have hw3' : (w3:ℂ) = (w1:ℂ) * (((Real.exp (-β * P1) : ℝ) : ℂ) * ((Real.exp (-β * P2) : ℝ) : ℂ)) := by
    rw [hw3, hw2]
    push_cast
    ring
  have hw4' : (w4:ℂ) = (w2:ℂ) * (((Real.exp (-β * P2) : ℝ) : ℂ) * ((Real.exp (-β * P3) : ℝ) : ℂ)) := by
    rw [hw4, hw3]
    push_cast
    ring
  have hw13 : (z1 - (P1:ℂ)) + (z2 - (P2:ℂ)) = 0 → (w3:ℂ) = w1 := by
    intro hc
    have e12 : Complex.exp (((z1 - (P1:ℂ)) + (z2 - (P2:ℂ))) * (β:ℂ))
        = ((Real.exp (-β * P1) : ℝ) : ℂ) * ((Real.exp (-β * P2) : ℝ) : ℂ) := by
      rw [add_mul, Complex.exp_add, e1, e2]
      ring
    rw [hw3', ← e12, hc, zero_mul, Complex.exp_zero, mul_one]
  have hw24 : (z2 - (P2:ℂ)) + (z3 - (P3:ℂ)) = 0 → (w4:ℂ) = w2 := by
    intro hb
    have e23 : Complex.exp (((z2 - (P2:ℂ)) + (z3 - (P3:ℂ))) * (β:ℂ))
        = ((Real.exp (-β * P2) : ℝ) : ℂ) * ((Real.exp (-β * P3) : ℝ) : ℂ) := by
      rw [add_mul, Complex.exp_add, e2, e3]
      ring
    rw [hw4', ← e23, hb, zero_mul, Complex.exp_zero, mul_one]
  rw [multiTerm_eq_mtCore, multiTerm_eq_mtCore, a4]
  exact mtCore_rotate _ _ _ _ _ _ _ _ n1 n2 n3 ns hw13 hw24

/-! ### Step 2: the cyclic identity of one ordered world-line sum -/

variable {ι : Type} [Fintype ι] [DecidableEq ι]

set_option linter.unusedSectionVars false

/-- cyclic relabelling of a four-fold sum -/
theorem sum4_rotate (g : ι → ι → ι → ι → ℂ) :
    ∑ a, ∑ b, ∑ c, ∑ e, g a b c e = ∑ b, ∑ c, ∑ e, ∑ a, g a b c e := by
  rw [Finset.sum_comm]
  refine Finset.sum_congr rfl fun b _ => ?_
  rw [Finset.sum_comm]
  refine Finset.sum_congr rfl fun c _ => ?_
  rw [Finset.sum_comm]

/-- CYCLIC IDENTITY OF ONE ORDERING: moving the first operator (with its frequency) to the last
place flips the sign; `za + zb + zc + zd = 0`, `zd` being the frequency carried by the operator at
time 0. -/
theorem orderedLehmann_rotate (d : EigenData ι) (A B Cc D : Matrix ι ι ℂ) (za zb zc zd : ℂ)
    (hz : za + zb + zc + zd = 0)
    (ha : Complex.exp ((d.β:ℂ) * za) = -1) (hb : Complex.exp ((d.β:ℂ) * zb) = -1)
    (hc : Complex.exp ((d.β:ℂ) * zc) = -1) :
    d.orderedLehmann B Cc D A zb zc zd = - d.orderedLehmann A B Cc D za zb zc := by
  unfold EigenData.orderedLehmann
  rw [sum4_rotate (fun n1 n2 n3 n4 => A n1 n2 * B n2 n3 * Cc n3 n4 * D n4 n1 *
    multiTerm d.β za zb zc (d.E n2 - d.E n1) (d.E n3 - d.E n2) (d.E n4 - d.E n3)
      (d.w n1) (d.w n2) (d.w n3) (d.w n4))]
  simp only [← Finset.sum_neg_distrib]
  refine Finset.sum_congr rfl fun n2 _ => Finset.sum_congr rfl fun n3 _ =>
    Finset.sum_congr rfl fun n4 _ => Finset.sum_congr rfl fun n1 _ => ?_
  rw [multiTerm_rotate d.β za zb zc zd (d.E n2 - d.E n1) (d.E n3 - d.E n2) (d.E n4 - d.E n3)
    (d.E n1 - d.E n4) (d.w n1) (d.w n2) (d.w n3) (d.w n4) hz (by ring) ha hb hc
    (w_ratio' d n1 n2) (w_ratio' d n2 n3) (w_ratio' d n3 n4)]
  ring

/-! ### Step 3: the exchange of the third and the fourth operator -/

/-- the signed sum over the six orderings, written out -/
theorem chiLehmann_expand (d : EigenData ι) (O : Fin 3 → Matrix ι ι ℂ) (X : Matrix ι ι ℂ)
    (z : Fin 3 → ℂ) :
    d.chiLehmann O X z =
      d.orderedLehmann (O 0) (O 1) (O 2) X (z 0) (z 1) (z 2)
      - d.orderedLehmann (O 0) (O 2) (O 1) X (z 0) (z 2) (z 1)
      - d.orderedLehmann (O 1) (O 0) (O 2) X (z 1) (z 0) (z 2)
      + d.orderedLehmann (O 1) (O 2) (O 0) X (z 1) (z 2) (z 0)
      + d.orderedLehmann (O 2) (O 0) (O 1) X (z 2) (z 0) (z 1)
      - d.orderedLehmann (O 2) (O 1) (O 0) X (z 2) (z 1) (z 0) := by
  unfold EigenData.chiLehmann perms3
  simp only [List.map_cons, List.map_nil, List.sum_cons, List.sum_nil, Matrix.cons_val_zero,
    Matrix.cons_val_one, Matrix.cons_val_two, Matrix.head_cons, Matrix.tail_cons]
  push_cast
  ring

/-- SECOND EXCHANGE SYMMETRY (C13), Lehmann form: exchanging the third operator `c†_k` with the
fourth one `c†_l` (at time 0), the third frequency becoming the one of the fourth operator
`z₃ = −(z₀+z₁+z₂)` (i.e. `−iω₄`, `ω₄ = ω₁+ω₂−ω₃`), flips the sign:
χ_{ijlk}(ω₁,ω₂;ω₁+ω₂−ω₃) = −χ_{ijkl}(ω₁,ω₂;ω₃).

Writing the four operators as A₁..A₄ = (O 0, O 1, O 2, X) with frequencies y₁..y₄ and
T(a,b,c,e) for the world-line sum of the ordering A_a A_b A_c A_e, the six orderings with A₃ last
are rotated (by `orderedLehmann_rotate`, one or two steps forward or one step backward) into the
six orderings with A₄ last; the resulting permutation of the labels is odd. -/
theorem chiLehmann_swap23 (d : EigenData ι) (O : Fin 3 → Matrix ι ι ℂ) (X : Matrix ι ι ℂ)
    (z : Fin 3 → ℂ) (hz : ∀ k, Complex.exp ((d.β:ℂ) * z k) = -1) :
    d.chiLehmann ![O 0, O 1, X] (O 2) ![z 0, z 1, -(z 0 + z 1 + z 2)] = - d.chiLehmann O X z := by
  have hy : Complex.exp ((d.β:ℂ) * (-(z 0 + z 1 + z 2))) = -1 :=
    exp_fourth (z1 := z 0) (z2 := z 1) (z3 := z 2) (by ring) (hz 0) (hz 1) (hz 2)
  rw [chiLehmann_expand, chiLehmann_expand]
  simp only [Matrix.cons_val_zero, Matrix.cons_val_one, Matrix.cons_val_two, Matrix.head_cons,
    Matrix.tail_cons]
  generalize hyy : -(z 0 + z 1 + z 2) = y at hy
  have hs : z 0 + z 1 + z 2 + y = 0 := by rw [← hyy]; ring
  -- T(1,2,4,3) = −T(3,1,2,4)
  have r1 := orderedLehmann_rotate d (O 2) (O 0) (O 1) X (z 2) (z 0) (z 1) y
    (by linear_combination hs) (hz 2) (hz 0) (hz 1)
  -- T(1,4,2,3) = −T(3,1,4,2) = T(2,3,1,4)
  have r2a := orderedLehmann_rotate d (O 2) (O 0) X (O 1) (z 2) (z 0) y (z 1)
    (by linear_combination hs) (hz 2) (hz 0) hy
  have r2b := orderedLehmann_rotate d (O 1) (O 2) (O 0) X (z 1) (z 2) (z 0) y
    (by linear_combination hs) (hz 1) (hz 2) (hz 0)
  -- T(2,1,4,3) = −T(3,2,1,4)
  have r3 := orderedLehmann_rotate d (O 2) (O 1) (O 0) X (z 2) (z 1) (z 0) y
    (by linear_combination hs) (hz 2) (hz 1) (hz 0)
  -- T(2,4,1,3) = −T(3,2,4,1) = T(1,3,2,4)
  have r4a := orderedLehmann_rotate d (O 2) (O 1) X (O 0) (z 2) (z 1) y (z 0)
    (by linear_combination hs) (hz 2) (hz 1) hy
  have r4b := orderedLehmann_rotate d (O 0) (O 2) (O 1) X (z 0) (z 2) (z 1) y
    (by linear_combination hs) (hz 0) (hz 2) (hz 1)
  -- T(1,2,3,4) = −T(4,1,2,3)
  have r5 := orderedLehmann_rotate d X (O 0) (O 1) (O 2) y (z 0) (z 1) (z 2)
    (by linear_combination hs) hy (hz 0) (hz 1)
  -- T(2,1,3,4) = −T(4,2,1,3)
  have r6 := orderedLehmann_rotate d X (O 1) (O 0) (O 2) y (z 1) (z 0) (z 2)
    (by linear_combination hs) hy (hz 1) (hz 0)
  linear_combination r1 - r2a + r2b - r3 + r4a - r4b + r5 - r6

/-- SECOND EXCHANGE SYMMETRY (C13), definition level: the signed sum over the six time-ordered
simplex integrals is antisymmetric under the exchange of the third and the fourth operator,
χ_{ijlk}(ω₁,ω₂;ω₁+ω₂−ω₃) = −χ_{ijkl}(ω₁,ω₂;ω₃), at all frequencies with `e^{βz} = −1` (in
particular at all fermionic Matsubara frequencies) -/
theorem chiDef_swap23 (d : EigenData ι) (O : Fin 3 → Matrix ι ι ℂ) (X : Matrix ι ι ℂ)
    (z : Fin 3 → ℂ) (hz : ∀ k, Complex.exp ((d.β:ℂ) * z k) = -1) :
    d.chiDef ![O 0, O 1, X] (O 2) ![z 0, z 1, -(z 0 + z 1 + z 2)] = - d.chiDef O X z := by
  have hy : Complex.exp ((d.β:ℂ) * (-(z 0 + z 1 + z 2))) = -1 :=
    exp_fourth (z1 := z 0) (z2 := z 1) (z3 := z 2) (by ring) (hz 0) (hz 1) (hz 2)
  have hz' : ∀ k, Complex.exp ((d.β:ℂ) * (![z 0, z 1, -(z 0 + z 1 + z 2)] : Fin 3 → ℂ) k) = -1 := by
    intro k
    fin_cases k
    · exact hz 0
    · exact hz 1
    · exact hy
  rw [chi_lehmann d _ _ _ hz', chi_lehmann d O X z hz]
  exact chiLehmann_swap23 d O X z hz

/-- at Matsubara frequencies: χ_{ijlk}(ω₁,ω₂;ω₁+ω₂−ω₃) = −χ_{ijkl}(ω₁,ω₂;ω₃), where
`ω_{k₁}+ω_{k₂}−ω_{k₃} = ω_{k₁+k₂−k₃}` -/
theorem chiDef_swap23_matsubara (d : EigenData ι) (O : Fin 3 → Matrix ι ι ℂ) (X : Matrix ι ι ℂ)
    (k1 k2 k3 : ℤ) :
    d.chiDef ![O 0, O 1, X] (O 2)
        ![I * (d.ω k1 : ℂ), I * (d.ω k2 : ℂ), -(I * (d.ω (k1 + k2 - k3) : ℂ))]
      = - d.chiDef O X ![I * (d.ω k1 : ℂ), I * (d.ω k2 : ℂ), -(I * (d.ω k3 : ℂ))] := by
  have hpos : ∀ k : ℤ, Complex.exp ((d.β:ℂ) * (I * (d.ω k : ℂ))) = -1 := by
    intro k
    rw [← exp_I_omega_beta d k]
    congr 1
    ring
  have hneg : ∀ k : ℤ, Complex.exp ((d.β:ℂ) * (-(I * (d.ω k : ℂ)))) = -1 := by
    intro k
    rw [mul_neg, Complex.exp_neg, hpos k]
    norm_num
  have hz : ∀ k, Complex.exp ((d.β:ℂ) *
      (![I * (d.ω k1 : ℂ), I * (d.ω k2 : ℂ), -(I * (d.ω k3 : ℂ))] : Fin 3 → ℂ) k) = -1 := by
    intro k
    fin_cases k
    · exact hpos k1
    · exact hpos k2
    · exact hneg k3
  have h := chiDef_swap23 d O X _ hz
  have hω : -(I * (d.ω (k1 + k2 - k3) : ℂ))
      = -(I * (d.ω k1 : ℂ) + I * (d.ω k2 : ℂ) + -(I * (d.ω k3 : ℂ))) := by
    have hβ : (d.β : ℂ) ≠ 0 := by exact_mod_cast d.hβ.ne'
    unfold EigenData.ω
    push_cast
    field_simp
    ring
  simp only [Matrix.cons_val_zero, Matrix.cons_val_one, Matrix.cons_val_two, Matrix.head_cons,
    Matrix.tail_cons] at h
  rw [hω]
  exact h

end Pomerol.Spec
