/-
  The Jordan-Wigner representation: the model's action on Fock states (`actOp`, `actMono`,
  `actPoly`, `matrixElement`) is the action of a representation of the CAR on the free module
  over Fock states.
-/
import Mathlib.LinearAlgebra.Finsupp.LSum
import Mathlib.Algebra.Module.LinearMap.End
import Mathlib.Tactic.Ring
import Mathlib.Tactic.Abel
import Mathlib.Tactic.Tauto
import PomerolModel.Spec.CAR

namespace Pomerol.Spec
open Pomerol.Model

/-! ### PART 1: bit masks -/

theorem testBit_flipBit (s i j : Nat) :
    (flipBit s i).testBit j = (if i = j then !s.testBit j else s.testBit j) := by
  unfold flipBit
  rw [Nat.testBit_xor, Nat.one_shiftLeft, Nat.testBit_two_pow]
  by_cases h : i = j
  · simp [h]
  · simp [h]

theorem flipBit_flipBit (s i : Nat) : flipBit (flipBit s i) i = s := by
  unfold flipBit
  rw [Nat.xor_assoc, Nat.xor_self, Nat.xor_zero]

theorem flipBit_comm (s i j : Nat) : flipBit (flipBit s i) j = flipBit (flipBit s j) i := by
  unfold flipBit
  rw [Nat.xor_assoc, Nat.xor_assoc, Nat.xor_comm (1 <<< i)]

theorem lowParity_flipBit (s i j : Nat) :
    lowParity (flipBit s i) j = (if i < j then !lowParity s j else lowParity s j) := by
  induction j with
  | zero => simp [lowParity]
  | succ j ih =>
    simp only [lowParity, ih, testBit_flipBit]
    rcases Nat.lt_trichotomy i j with h | h | h
    · have h1 : i ≠ j := Nat.ne_of_lt h
      have h2 : i < j + 1 := by omega
      simp only [h, h1, h2, if_true, if_false]
      generalize lowParity s j = x; generalize s.testBit j = y
      cases x <;> cases y <;> rfl
    · subst h
      simp only [Nat.lt_irrefl, Nat.lt_succ_self, if_true, if_false]
      generalize lowParity s i = x; generalize s.testBit i = y
      cases x <;> cases y <;> rfl
    · have h1 : ¬ i < j := by omega
      have h2 : i ≠ j := by omega
      have h3 : ¬ i < j + 1 := by omega
      simp only [h1, h2, h3, if_false]

/-! ### PART 2: the Jordan-Wigner operators -/

section JW
variable (K : Type) [CommRing K]

/-- the sign `±1` encoded by a Boolean (`true` = −1) -/
def sgn (b : Bool) : K := if b then -1 else 1

variable {K} in
theorem sgn_not (b : Bool) : sgn K (!b) = - sgn K b := by cases b <;> simp [sgn]

variable {K} in
theorem sgn_mul_self (b : Bool) : sgn K b * sgn K b = 1 := by cases b <;> simp [sgn]

variable {K} in
theorem sgn_bne (a b : Bool) : sgn K (a != b) = sgn K a * sgn K b := by
  cases a <;> cases b <;> simp [sgn]

/-- the signed partial map of one operator, as a vector -/
noncomputable def jwVec (o : Op) (s : Nat) : Nat →₀ K :=
  match actOp o s with
  | none => 0
  | some (s', neg) => Finsupp.single s' (if neg then -1 else 1)

theorem jwVec_eq (o : Op) (s : Nat) :
    jwVec K o s = if o.ann = s.testBit o.idx then
      Finsupp.single (flipBit s o.idx) (sgn K (lowParity s o.idx)) else 0 := by
  unfold jwVec actOp sgn
  by_cases h : o.ann = s.testBit o.idx
  · simp only [h, if_true]
  · simp only [h, if_false]

/-- the linear operator of one elementary operator
(`LinearMap.id.smulRight v` is `LinearMap.toSpanSingleton K _ v`, i.e. `a ↦ a • v`) -/
noncomputable def jwOp (o : Op) : Module.End K (Nat →₀ K) :=
  Finsupp.lsum K (fun s => (LinearMap.id : K →ₗ[K] K).smulRight (jwVec K o s))

theorem jwOp_single (o : Op) (s : Nat) (a : K) :
    jwOp K o (Finsupp.single s a) = a • jwVec K o s := by
  simp [jwOp]

/-- two elementary operators acting on a basis vector -/
theorem jwOp_jwOp_single (o o' : Op) (s : Nat) (a : K) :
    jwOp K o (jwOp K o' (Finsupp.single s a)) =
      if o'.ann = s.testBit o'.idx ∧ o.ann = (flipBit s o'.idx).testBit o.idx then
        Finsupp.single (flipBit (flipBit s o'.idx) o.idx)
          (a * sgn K (lowParity s o'.idx) * sgn K (lowParity (flipBit s o'.idx) o.idx))
      else 0 := by
  rw [jwOp_single, jwVec_eq]
  by_cases h1 : o'.ann = s.testBit o'.idx
  · rw [if_pos h1, Finsupp.smul_single, jwOp_single, jwVec_eq]
    by_cases h2 : o.ann = (flipBit s o'.idx).testBit o.idx
    · rw [if_pos h2, if_pos ⟨h1, h2⟩, Finsupp.smul_single]
      simp [mul_assoc]
    · rw [if_neg h2, if_neg (fun h => h2 h.2), smul_zero]
  · rw [if_neg h1, if_neg (fun h => h1 h.1), smul_zero, map_zero]

/-- all canonical anticommutation relations at once -/
theorem jw_anticomm (a b : Bool) (i j : Nat) :
    jwOp K ⟨a, i⟩ * jwOp K ⟨b, j⟩ + jwOp K ⟨b, j⟩ * jwOp K ⟨a, i⟩ =
      if i = j ∧ a ≠ b then 1 else 0 := by
  refine Finsupp.lhom_ext fun s x => ?_
  simp only [LinearMap.add_apply, Module.End.mul_apply, jwOp_jwOp_single,
    testBit_flipBit, lowParity_flipBit]
  rcases Nat.lt_trichotomy i j with h | h | h
  · have h1 : i ≠ j := Nat.ne_of_lt h
    have h2 : ¬ j < i := by omega
    have h3 : j ≠ i := by omega
    simp only [h, h1, h2, h3, if_true, if_false, false_and, LinearMap.zero_apply, sgn_not,
      flipBit_comm s j i]
    by_cases hc : b = s.testBit j ∧ a = s.testBit i
    · rw [if_pos hc, if_pos ⟨hc.2, hc.1⟩, ← Finsupp.single_add]
      rw [show ∀ u v : K, x * u * v + x * v * -u = 0 from fun u v => by ring,
        Finsupp.single_zero]
    · rw [if_neg hc, if_neg (fun h => hc ⟨h.2, h.1⟩), add_zero]
  · subst h
    simp only [Nat.lt_irrefl, if_true, if_false, true_and, flipBit_flipBit, mul_assoc,
      sgn_mul_self, mul_one]
    generalize s.testBit i = t
    cases a <;> cases b <;> cases t <;> simp
  · have h1 : i ≠ j := by omega
    have h2 : ¬ i < j := by omega
    have h3 : j ≠ i := by omega
    simp only [h, h1, h2, h3, if_true, if_false, false_and, LinearMap.zero_apply, sgn_not,
      flipBit_comm s j i]
    by_cases hc : b = s.testBit j ∧ a = s.testBit i
    · rw [if_pos hc, if_pos ⟨hc.2, hc.1⟩, ← Finsupp.single_add]
      rw [show ∀ u v : K, x * u * -v + x * v * u = 0 from fun u v => by ring,
        Finsupp.single_zero]
    · rw [if_neg hc, if_neg (fun h => hc ⟨h.2, h.1⟩), add_zero]

/-- THE MODEL'S ACTION SATISFIES THE CAR: the Jordan–Wigner representation -/
noncomputable def jwRep : CARRep K (Module.End K (Nat →₀ K)) where
  c := fun i => jwOp K ⟨true, i⟩
  cd := fun i => jwOp K ⟨false, i⟩
  cc := fun i j => by simpa using jw_anticomm K true true i j
  cdcd := fun i j => by simpa using jw_anticomm K false false i j
  ccd := fun i j => by simpa using jw_anticomm K true false i j

/-- Pauli principle (not a consequence of the CAR when 2 is not invertible in `K`) -/
theorem jw_sq (a : Bool) (i : Nat) : jwOp K ⟨a, i⟩ * jwOp K ⟨a, i⟩ = 0 := by
  refine Finsupp.lhom_ext fun s x => ?_
  simp only [Module.End.mul_apply, jwOp_jwOp_single, testBit_flipBit, if_true,
    LinearMap.zero_apply]
  rw [if_neg]
  rintro ⟨h1, h2⟩
  rw [← h1] at h2
  cases a <;> cases h2

theorem jw_sq_c (i : Nat) : jwOp K ⟨true, i⟩ * jwOp K ⟨true, i⟩ = 0 := jw_sq K true i
theorem jw_sq_cd (i : Nat) : jwOp K ⟨false, i⟩ * jwOp K ⟨false, i⟩ = 0 := jw_sq K false i

theorem jwRep_op (o : Op) : (jwRep K).op o = jwOp K o := by
  obtain ⟨a, i⟩ := o
  cases a <;> rfl

/-- the model's monomial action is the action of the operator product -/
theorem jw_mono_single (m : Mono) (s : Nat) :
    (jwRep K).mono m (Finsupp.single s 1) =
      (match actMono m s with
       | none => 0
       | some (s', neg) => Finsupp.single s' (if neg then (-1 : K) else 1)) := by
  induction m with
  | nil => simp [CARRep.mono, actMono]
  | cons o rest ih =>
    have hm : (jwRep K).mono (o :: rest) = jwOp K o * (jwRep K).mono rest := by
      simp [CARRep.mono, jwRep_op]
    have ha : actMono (o :: rest) s = (match actMono rest s with
        | none => none
        | some (s', neg) =>
          match actOp o s' with
          | none => none
          | some (s'', neg') => some (s'', neg != neg')) := rfl
    rw [hm, Module.End.mul_apply, ih, ha]
    cases h : actMono rest s with
    | none => simp
    | some p =>
      obtain ⟨s', neg⟩ := p
      simp only [jwOp_single, jwVec]
      cases h' : actOp o s' with
      | none => simp
      | some q =>
        obtain ⟨s'', neg'⟩ := q
        simp only [Finsupp.smul_single, smul_eq_mul]
        congr 1
        cases neg <;> cases neg' <;> simp

end JW

/-! ### PART 3: the polynomial action with exact tolerance tests -/

section Poly
variable {K : Type} [CommRing K] [DecidableEq K]
open scoped Pomerol.Spec.Exact

/-- sum of the entries returned by the model of `Operator::actRight(ket)` -/
noncomputable def listVec (l : List (Nat × K)) : Nat →₀ K :=
  (l.map fun x => Finsupp.single x.1 x.2).sum

omit [DecidableEq K] in
@[simp] theorem listVec_nil : listVec ([] : List (Nat × K)) = 0 := rfl

omit [DecidableEq K] in
@[simp] theorem listVec_cons (x : Nat × K) (l : List (Nat × K)) :
    listVec (x :: l) = Finsupp.single x.1 x.2 + listVec l := by
  simp [listVec]

omit [DecidableEq K] in
theorem listVec_stateMapAdd (s : Nat) (v : K) (l : List (Nat × K)) :
    listVec (stateMapAdd s v l) = listVec l + Finsupp.single s v := by
  induction l with
  | nil => simp [stateMapAdd]
  | cons x l ih =>
    obtain ⟨s', v'⟩ := x
    unfold stateMapAdd
    by_cases h1 : s = s'
    · subst h1
      simp only [if_true, listVec_cons, Finsupp.single_add]
      abel
    · by_cases h2 : s < s'
      · simp only [h1, h2, if_true, if_false, listVec_cons, zero_add]
        abel
      · simp only [h1, h2, if_false, listVec_cons, ih]
        abel

omit [DecidableEq K] in
theorem mem_keys_stateMapAdd (s : Nat) (v : K) (l : List (Nat × K)) (x : Nat)
    (hx : x ∈ (stateMapAdd s v l).map (·.1)) : x = s ∨ x ∈ l.map (·.1) := by
  induction l with
  | nil => simpa [stateMapAdd] using hx
  | cons y l ih =>
    obtain ⟨s', v'⟩ := y
    unfold stateMapAdd at hx
    by_cases h1 : s = s'
    · subst h1
      simp only [if_true, List.map_cons, List.mem_cons] at hx ⊢
      tauto
    · by_cases h2 : s < s'
      · simp only [h1, h2, if_true, if_false, List.map_cons, List.mem_cons] at hx ⊢
        tauto
      · simp only [h1, h2, if_false, List.map_cons, List.mem_cons] at hx ⊢
        rcases hx with hx | hx
        · tauto
        · have := ih hx
          tauto

omit [DecidableEq K] in
theorem sorted_stateMapAdd (s : Nat) (v : K) (l : List (Nat × K))
    (hl : (l.map (·.1)).Pairwise (· < ·)) :
    ((stateMapAdd s v l).map (·.1)).Pairwise (· < ·) := by
  induction l with
  | nil => simp [stateMapAdd]
  | cons y l ih =>
    obtain ⟨s', v'⟩ := y
    rw [List.map_cons, List.pairwise_cons] at hl
    unfold stateMapAdd
    by_cases h1 : s = s'
    · subst h1
      simp only [if_true, List.map_cons, List.pairwise_cons]
      exact hl
    · by_cases h2 : s < s'
      · simp only [h1, h2, if_true, if_false, List.map_cons, List.pairwise_cons, List.mem_cons]
        refine ⟨?_, hl⟩
        rintro a (rfl | ha)
        · exact h2
        · exact Nat.lt_trans h2 (hl.1 a ha)
      · simp only [h1, h2, if_false, List.map_cons, List.pairwise_cons]
        refine ⟨?_, ih hl.2⟩
        intro a ha
        rcases mem_keys_stateMapAdd s v l a ha with rfl | ha
        · omega
        · exact hl.1 a ha

/-- one iteration of the loop over the terms of the operator in `actRight` -/
def actStep (ket : Nat) (acc : List (Nat × K)) (mc : Mono × K) : List (Nat × K) :=
  match actMono mc.1 ket with
  | none => acc
  | some (bra, neg) =>
    let melem : K := if neg then -1 else 1
    if CoefTest.aboveEps melem then stateMapAdd bra (melem * mc.2) acc else acc

theorem actPoly_eq (p : Poly K) (ket : Nat) :
    actPoly p ket = (p.foldl (actStep ket) []).filter fun x => !decide (x.2 = 0) := rfl

theorem listVec_actStep [Nontrivial K] (ket : Nat) (acc : List (Nat × K)) (mc : Mono × K) :
    listVec (actStep ket acc mc) =
      listVec acc + mc.2 • (jwRep K).mono mc.1 (Finsupp.single ket 1) := by
  rw [jw_mono_single]
  unfold actStep
  cases h : actMono mc.1 ket with
  | none => simp
  | some q =>
    obtain ⟨bra, neg⟩ := q
    have hne : (if neg then (-1 : K) else 1) ≠ 0 := by cases neg <;> simp
    simp only [CoefTest.aboveEps, hne, ne_eq, not_false_eq_true, decide_true, if_true,
      listVec_stateMapAdd, Finsupp.smul_single, smul_eq_mul, mul_comm]

theorem listVec_foldl_actStep [Nontrivial K] (p : Poly K) (ket : Nat) (acc : List (Nat × K)) :
    listVec (p.foldl (actStep ket) acc) =
      listVec acc + (jwRep K).poly p (Finsupp.single ket 1) := by
  induction p generalizing acc with
  | nil => simp [CARRep.poly]
  | cons mc p ih =>
    have hp : (jwRep K).poly (mc :: p) = mc.2 • (jwRep K).mono mc.1 + (jwRep K).poly p := by
      simp [CARRep.poly]
    rw [List.foldl_cons, ih, listVec_actStep, hp, LinearMap.add_apply, LinearMap.smul_apply,
      add_assoc]

theorem listVec_filter_ne_zero (l : List (Nat × K)) :
    listVec (l.filter fun x => !decide (x.2 = 0)) = listVec l := by
  induction l with
  | nil => rfl
  | cons x l ih =>
    by_cases h : x.2 = 0
    · simp [h, ih]
    · simp [h, ih]

/-- `actRight(ket)` returns the vector `p |ket⟩`.
Requires `1 ≠ 0` in `K` so that the `|sign| > eps` filter is passed. -/
theorem actPoly_sem [Nontrivial K] (p : Poly K) (ket : Nat) :
    listVec (actPoly p ket) = (jwRep K).poly p (Finsupp.single ket 1) := by
  rw [actPoly_eq, listVec_filter_ne_zero, listVec_foldl_actStep, listVec_nil, zero_add]

theorem sorted_actStep (ket : Nat) (acc : List (Nat × K)) (mc : Mono × K)
    (h : (acc.map (·.1)).Pairwise (· < ·)) :
    ((actStep ket acc mc).map (·.1)).Pairwise (· < ·) := by
  unfold actStep
  cases actMono mc.1 ket with
  | none => exact h
  | some q =>
    obtain ⟨bra, neg⟩ := q
    dsimp only
    by_cases hc : CoefTest.aboveEps (if neg then (-1 : K) else 1) = true
    · rw [if_pos hc]
      exact sorted_stateMapAdd _ _ _ h
    · rw [if_neg hc]
      exact h

theorem sorted_foldl_actStep (p : Poly K) (ket : Nat) (acc : List (Nat × K))
    (h : (acc.map (·.1)).Pairwise (· < ·)) :
    ((p.foldl (actStep ket) acc).map (·.1)).Pairwise (· < ·) := by
  induction p generalizing acc with
  | nil => exact h
  | cons mc p ih => exact ih _ (sorted_actStep ket acc mc h)

/-- the states returned by `actRight` are distinct and sorted -/
theorem actPoly_sorted (p : Poly K) (ket : Nat) :
    ((actPoly p ket).map (·.1)).Pairwise (· < ·) := by
  rw [actPoly_eq]
  refine List.Pairwise.sublist (List.Sublist.map _ List.filter_sublist) ?_
  exact sorted_foldl_actStep p ket [] List.Pairwise.nil

/-- no value stored in the result of `actRight` is zero -/
theorem actPoly_nonzero (p : Poly K) (ket : Nat) : ∀ x ∈ actPoly p ket, x.2 ≠ 0 := by
  intro x hx
  rw [actPoly_eq, List.mem_filter] at hx
  simpa using hx.2

omit [DecidableEq K] in
theorem listVec_apply_of_not_mem (l : List (Nat × K)) (s : Nat) (h : s ∉ l.map (·.1)) :
    listVec l s = 0 := by
  induction l with
  | nil => simp
  | cons x l ih =>
    simp only [List.map_cons, List.mem_cons, not_or] at h
    rw [listVec_cons, Finsupp.add_apply, ih h.2, Finsupp.single_apply, if_neg (Ne.symm h.1),
      add_zero]

omit [DecidableEq K] in
theorem listVec_apply_of_sorted (l : List (Nat × K)) (s : Nat)
    (hl : (l.map (·.1)).Pairwise (· < ·)) :
    listVec l s = (match l.find? (fun x => x.1 == s) with
      | some (_, v) => v
      | none => 0) := by
  induction l with
  | nil => simp
  | cons x l ih =>
    rw [List.map_cons, List.pairwise_cons] at hl
    rw [listVec_cons, Finsupp.add_apply, List.find?_cons]
    by_cases h : x.1 = s
    · have hs : s ∉ l.map (·.1) := fun hm => Nat.lt_irrefl s (h ▸ hl.1 s hm)
      simp [h, listVec_apply_of_not_mem l s hs]
    · have hb : (x.1 == s) = false := beq_false_of_ne h
      simp only [hb, Finsupp.single_apply, if_neg h, zero_add]
      exact ih hl.2

/-- `getMatrixElement(bra, ket) = ⟨bra| p |ket⟩` -/
theorem matrixElement_sem [Nontrivial K] (p : Poly K) (bra ket : Nat) :
    matrixElement p bra ket = ((jwRep K).poly p (Finsupp.single ket 1)) bra := by
  rw [← actPoly_sem, listVec_apply_of_sorted _ _ (actPoly_sorted p ket)]
  rfl

end Poly

end Pomerol.Spec
