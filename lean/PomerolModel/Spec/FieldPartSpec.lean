/-
  The loops of `FieldOperatorPart::compute` (`Model/FieldPart.lean`) compute the block of the
  Jordan-Wigner matrix rotated into the eigenbasis, and the adjoint copy made by
  `FieldOperatorContainer::computeAll` is the part of the adjoint operator (property C10).

  SETTING (chosen to compose with C03 = `Spec/Blocks.lean`, C09 = `Spec/AveragesSpec.lean` and the
  rotation statements of `Spec/Rotation.lean`).  `blocks : List (List ℕ)` are the lists of Fock states
  (bit masks) of the blocks, `blkOf` the table "block of a state", `hpart b` what
  `FieldOperatorPart` sees of the `HamiltonianPart` of block `b`.  From these we READ OFF
    * `Idx blocks = Σ b, Fin (size of block b)`: the full Fock space / all eigenstates -- the index type
      of `Matrix.blockDiagonal'`;
    * `Vfull` = the block-diagonal eigenvector matrix `U` on the full Fock space;
    * `jwFull blocks op` = the matrix of the symbolic operator on the full Fock space, entries
      `matrixElement op (fk k) (fk l)` = `Operator::getMatrixElement`, which `matrixElement_sem`
      identifies with the Jordan-Wigner representation `jwRep` (`jwFull_sem`).
  Scalars: `ℂ` with the exact idealisation of all tolerance tests (`Spec.Exact` for `actRight`; an entry
  is pruned by `sparseView` iff it is zero) and `int(x)` = truncation towards zero.

  CONTENTS.  §0 scalars; §1 the loops as pure updates; §2 one pair of blocks: `PairOK`, `fill_take`
  (the two dense factors), `computeDense_eq`; §3 the stored sparse copies (`compute_pair`); §4 the full
  Fock space (`rotated_block_entry`); §5 `fieldpart_is_rotated_block`; §6 single monomials
  (`fieldpart_is_rotated_block_mono`) and the pairing by `mapsTo` (`into_of_mapsTo`); §7 the adjoint
  symbolic operator (`matrixElement_adjPoly`); §8 `container_annihilator_is_adjoint`; §9 a concrete
  system (non-vacuity).
-/
import PomerolModel.Model.FieldPart
import PomerolModel.Spec.JW
import PomerolModel.Spec.OpAlgebra
import PomerolModel.Spec.Rotation
import Mathlib.Data.Matrix.Block
import Mathlib.Algebra.BigOperators.Fin
import Mathlib.Data.Fintype.BigOperators
import Mathlib.Algebra.Order.Archimedean.Real.Basic
import Mathlib.Tactic.NormNum.Basic
import Mathlib.Data.List.Nodup

namespace Pomerol.Spec.FieldPartSpec
open Matrix Pomerol Pomerol.Model Pomerol.Model.FieldPart Pomerol.Spec
open scoped Pomerol.Spec.Exact

set_option linter.unusedSectionVars false

/-! ## 0. the scalar operations at `ℂ` -/

/-- `int(x)`: truncation towards zero -/
noncomputable def truncZ (x : ℝ) : ℤ := if 0 ≤ x then ⌊x⌋ else ⌈x⌉

/-- `ℂ` with the exact idealisation of the pruning test: an entry is dropped iff it is zero -/
noncomputable instance : FieldScalar ℂ :=
  ⟨starRingEnd ℂ, fun z => truncZ z.re, fun n => (n : ℂ), fun z => decide (z ≠ 0)⟩

@[simp] theorem conj_eq (z : ℂ) : (FieldScalar.conj z : ℂ) = (starRingEnd ℂ) z := rfl
@[simp] theorem ofInt_eq (n : ℤ) : (FieldScalar.ofInt n : ℂ) = (n : ℂ) := rfl
@[simp] theorem kept_eq (z : ℂ) : FieldScalar.kept z = decide (z ≠ 0) := rfl
theorem truncInt_eq (z : ℂ) : FieldScalar.truncInt z = truncZ z.re := rfl

theorem truncZ_intCast (n : ℤ) : truncZ (n : ℝ) = n := by
  unfold truncZ
  split <;> simp

/-! ## 1. the loops -/

/-- a counted loop whose body never fails is a fold over the range -/
theorem loop_pure {σ : Type} (body : ℕ → σ → Except Err σ) (g : ℕ → σ → σ) :
    ∀ (n k0 : ℕ) (a : σ), (∀ k, k0 ≤ k → k < k0 + n → ∀ a, body k a = .ok (g k a)) →
      loop body n k0 a = .ok ((List.range' k0 n).foldl (fun acc k => g k acc) a) := by
  intro n
  induction n with
  | zero => intro k0 a _; simp [loop]
  | succ n ih =>
    intro k0 a h
    rw [loop, h k0 (le_refl _) (by omega) a]
    simp only
    rw [ih (k0 + 1) (g k0 a) (fun k h1 h2 a' => h k (by omega) (by omega) a'), List.range'_succ,
      List.foldl_cons]

/-- writing column `k` row by row -/
theorem foldl_set_col (k : ℕ) (v : ℕ → ℂ) : ∀ (n k0 : ℕ) (M : Dense ℂ),
    (List.range' k0 n).foldl (fun acc i => acc.set i k (v i)) M
      = fun i j => if j = k ∧ k0 ≤ i ∧ i < k0 + n then v i else M i j := by
  intro n
  induction n with
  | zero =>
    intro k0 M
    funext i j
    simp only [List.range'_zero, List.foldl_nil, Nat.add_zero]
    rw [if_neg (by omega)]
  | succ n ih =>
    intro k0 M
    rw [List.range'_succ, List.foldl_cons, ih]
    funext i j
    unfold Dense.set
    by_cases h1 : j = k ∧ k0 + 1 ≤ i ∧ i < k0 + 1 + n
    · rw [if_pos h1, if_pos (by omega)]
    · rw [if_neg h1]
      by_cases h2 : i = k0 ∧ j = k
      · rw [if_pos h2, if_pos (by omega), h2.1]
      · rw [if_neg h2, if_neg (by omega)]

/-- writing row `k` column by column -/
theorem foldl_set_row (k : ℕ) (v : ℕ → ℂ) : ∀ (n k0 : ℕ) (M : Dense ℂ),
    (List.range' k0 n).foldl (fun acc j => acc.set k j (v j)) M
      = fun i j => if i = k ∧ k0 ≤ j ∧ j < k0 + n then v j else M i j := by
  intro n
  induction n with
  | zero =>
    intro k0 M
    funext i j
    simp only [List.range'_zero, List.foldl_nil, Nat.add_zero]
    rw [if_neg (by omega)]
  | succ n ih =>
    intro k0 M
    rw [List.range'_succ, List.foldl_cons, ih]
    funext i j
    unfold Dense.set
    by_cases h1 : i = k ∧ k0 + 1 ≤ j ∧ j < k0 + 1 + n
    · rw [if_pos h1, if_pos (by omega)]
    · rw [if_neg h1]
      by_cases h2 : i = k ∧ j = k0
      · rw [if_pos h2, if_pos (by omega), h2.2]
      · rw [if_neg h2, if_neg (by omega)]

/-- the loop `for n: LeftMat(n,k) = conj(HTo.getMatrixElement(l,n))` -/
theorem left_loop (hTo : HPart ℂ) (toSize l k : ℕ) (hl : l < hTo.dim) (hsz : toSize ≤ hTo.dim)
    (L0 : Dense ℂ) :
    loop (leftBody hTo l k) toSize 0 L0
      = .ok (fun i j => if j = k ∧ i < toSize then (starRingEnd ℂ) (hTo.U l i) else L0 i j) := by
  rw [loop_pure _ (fun n Lm => Lm.set n k ((starRingEnd ℂ) (hTo.U l n)))]
  · rw [foldl_set_col k (fun i => (starRingEnd ℂ) (hTo.U l i))]
    congr 1
    funext i j
    simp only [Nat.zero_le, true_and, Nat.zero_add]
  · intro n _ hn a
    have : hTo.getMatrixElement l n = .ok (hTo.U l n) := by
      unfold HPart.getMatrixElement
      rw [if_pos ⟨hl, by omega⟩]
    unfold leftBody
    rw [this]
    rfl

/-- the loop `for m: RightMat(k,m) = sign * HFrom.getMatrixElement(k,m)` -/
theorem right_loop (hFrom : HPart ℂ) (fromSize k : ℕ) (sign : ℤ) (hk : k < hFrom.dim)
    (hsz : fromSize ≤ hFrom.dim) (R0 : Dense ℂ) :
    loop (rightBody hFrom sign k) fromSize 0 R0
      = .ok (fun i j => if i = k ∧ j < fromSize then (sign : ℂ) * hFrom.U k j else R0 i j) := by
  rw [loop_pure _ (fun m Rm => Rm.set k m ((sign : ℂ) * hFrom.U k m))]
  · rw [foldl_set_row k (fun j => (sign : ℂ) * hFrom.U k j)]
    congr 1
    funext i j
    simp only [Nat.zero_le, true_and, Nat.zero_add]
  · intro m _ hm a
    have : hFrom.getMatrixElement k m = .ok (hFrom.U k m) := by
      unfold HPart.getMatrixElement
      rw [if_pos ⟨hk, by omega⟩]
    unfold rightBody
    rw [this]
    rfl

/-- one iteration of the loop over `fromStates` when the operator annihilates the state -/
theorem visit_nil (getInner : ℕ → Option ℕ) (toSize fromSize : ℕ) (hTo hFrom : HPart ℂ)
    (op : Poly ℂ) (st : Dense ℂ × Dense ℂ) (f : ℕ) (h : actPoly op f = []) :
    visit getInner toSize fromSize hTo hFrom op st f = .ok st := by
  unfold visit
  rw [h]

/-- one iteration of the loop over `fromStates` when nothing goes wrong -/
theorem visit_cons (getInner : ℕ → Option ℕ) (toSize fromSize : ℕ) (hTo hFrom : HPart ℂ)
    (op : Poly ℂ) (st : Dense ℂ × Dense ℂ) (f L l k : ℕ) (amp : ℂ) (rest : List (ℕ × ℂ))
    (h : actPoly op f = (L, amp) :: rest) (hs : truncZ amp.re ≠ 0)
    (hl : getInner L = some l) (hk : getInner f = some k) (hkf : k < fromSize)
    (hld : l < hTo.dim) (htd : toSize ≤ hTo.dim) (hkd : k < hFrom.dim)
    (hfd : fromSize ≤ hFrom.dim) :
    visit getInner toSize fromSize hTo hFrom op st f
      = .ok (fun i j => if j = k ∧ i < toSize then (starRingEnd ℂ) (hTo.U l i) else st.1 i j,
             fun i j => if i = k ∧ j < fromSize then ((truncZ amp.re : ℤ) : ℂ) * hFrom.U k j
                        else st.2 i j) := by
  unfold visit
  rw [h]
  simp only [truncInt_eq, if_neg hs, hl, hk, if_pos hkf]
  rw [left_loop hTo toSize l k hld htd st.1]
  simp only
  rw [right_loop hFrom fromSize k (truncZ amp.re) hkd hfd st.2]

theorem fillStates_append (getInner : ℕ → Option ℕ) (toSize fromSize : ℕ) (hTo hFrom : HPart ℂ)
    (op : Poly ℂ) : ∀ (l1 l2 : List ℕ) (st st' : Dense ℂ × Dense ℂ),
      fillStates getInner toSize fromSize hTo hFrom op l1 st = .ok st' →
      fillStates getInner toSize fromSize hTo hFrom op (l1 ++ l2) st
        = fillStates getInner toSize fromSize hTo hFrom op l2 st' := by
  intro l1
  induction l1 with
  | nil =>
    intro l2 st st' h
    simp only [fillStates, Except.ok.injEq] at h
    rw [List.nil_append, h]
  | cons a l1 ih =>
    intro l2 st st' h
    rw [List.cons_append, fillStates]
    rw [fillStates] at h
    cases hv : visit getInner toSize fromSize hTo hFrom op st a with
    | error e => rw [hv] at h; cases h
    | ok s1 =>
      rw [hv] at h
      simp only at h ⊢
      exact ih l2 s1 st' h

/-! ## 2. one pair of blocks -/

/-- What `FieldOperatorPart::compute` relies on, for the part `<to| op |from>`:
* `dimTo`, `dimFrom`: the eigenvector matrices have (at least) as many rows/columns as the blocks have
  states (violated after `Hamiltonian::reduce`);
* `innerTo`, `innerFrom`: `getInnerState` returns the position in `toStates` / `fromStates` for the
  states of these blocks (so the two lists have no duplicates);
* `single`: `actRight` returns at most ONE state ("each column of O has only one non-zero element");
* `into`: that state lies in the block `to` (single-target property, C07);
* `integer`: its amplitude survives the conversion to `int` (it is `±1` for `c`, `c†`, `c†_i c_j`). -/
structure PairOK (getInner : ℕ → Option ℕ) (toStates fromStates : List ℕ) (hTo hFrom : HPart ℂ)
    (op : Poly ℂ) : Prop where
  dimTo : toStates.length ≤ hTo.dim
  dimFrom : fromStates.length ≤ hFrom.dim
  innerTo : ∀ i, i < toStates.length → getInner (toStates.getD i 0) = some i
  innerFrom : ∀ j, j < fromStates.length → getInner (fromStates.getD j 0) = some j
  single : ∀ f ∈ fromStates, (actPoly op f).length ≤ 1
  into : ∀ f ∈ fromStates, ∀ x ∈ actPoly op f, x.1 ∈ toStates
  integer : ∀ f ∈ fromStates, ∀ x ∈ actPoly op f,
    (FieldScalar.ofInt (FieldScalar.truncInt x.2) : ℂ) = x.2

/-- column of `LeftMat` written for the source state `f` -/
noncomputable def leftCol (toStates : List ℕ) (hTo : HPart ℂ) (op : Poly ℂ) (f n : ℕ) : ℂ :=
  match actPoly op f with
  | [] => 0
  | x :: _ => if n < toStates.length then (starRingEnd ℂ) (hTo.U (toStates.idxOf x.1) n) else 0

/-- row `k` of `RightMat` written for the source state `f` -/
noncomputable def rightRow (fromSize : ℕ) (hFrom : HPart ℂ) (op : Poly ℂ) (f k m : ℕ) : ℂ :=
  match actPoly op f with
  | [] => 0
  | x :: _ => if m < fromSize then x.2 * hFrom.U k m else 0

section Pair
variable {getInner : ℕ → Option ℕ} {toStates fromStates : List ℕ} {hTo hFrom : HPart ℂ}
  {op : Poly ℂ}

theorem getD_eq {l : List ℕ} {j : ℕ} (h : j < l.length) : l.getD j 0 = l[j] := by
  simp [List.getD_eq_getElem?_getD, h]

theorem getD_mem {l : List ℕ} {j : ℕ} (h : j < l.length) : l.getD j 0 ∈ l := by
  rw [getD_eq h]
  exact List.getElem_mem h

theorem PairOK.inner_of_mem (h : PairOK getInner toStates fromStates hTo hFrom op) {L : ℕ}
    (hL : L ∈ toStates) : toStates.idxOf L < toStates.length ∧
      getInner L = some (toStates.idxOf L) := by
  have hlt : toStates.idxOf L < toStates.length := List.idxOf_lt_length_iff.mpr hL
  refine ⟨hlt, ?_⟩
  have := h.innerTo _ hlt
  rwa [getD_eq hlt, List.getElem_idxOf hlt] at this

/-- `LeftMat`, `RightMat` after the first `t` states of `fromStates` -/
theorem fill_take (h : PairOK getInner toStates fromStates hTo hFrom op) :
    ∀ t, t ≤ fromStates.length →
      fillStates getInner toStates.length fromStates.length hTo hFrom op (fromStates.take t)
          (fun _ _ => 0, fun _ _ => 0)
        = .ok (fun n j => if j < t then leftCol toStates hTo op (fromStates.getD j 0) n else 0,
               fun j m => if j < t then
                 rightRow fromStates.length hFrom op (fromStates.getD j 0) j m else 0) := by
  intro t
  induction t with
  | zero =>
    intro _
    simp [fillStates]
  | succ t ih =>
    intro ht
    have htl : t < fromStates.length := by omega
    have htake : fromStates.take (t + 1) = fromStates.take t ++ [fromStates.getD t 0] := by
      rw [List.take_add_one, List.getD_eq_getElem?_getD, List.getElem?_eq_getElem htl]
      rfl
    rw [htake, fillStates_append _ _ _ _ _ _ _ _ _ _ (ih (by omega))]
    have hmem : fromStates.getD t 0 ∈ fromStates := getD_mem htl
    rw [fillStates]
    cases hact : actPoly op (fromStates.getD t 0) with
    | nil =>
      rw [visit_nil _ _ _ _ _ _ _ _ hact]
      simp only [fillStates]
      congr 2
      · funext n j
        by_cases hj : j < t
        · rw [if_pos hj, if_pos (by omega)]
        · rw [if_neg hj]
          by_cases hj' : j = t
          · rw [if_pos (by omega), hj', leftCol, hact]
          · rw [if_neg (by omega)]
      · funext j m
        by_cases hj : j < t
        · rw [if_pos hj, if_pos (by omega)]
        · rw [if_neg hj]
          by_cases hj' : j = t
          · rw [if_pos (by omega), hj', rightRow, hact]
          · rw [if_neg (by omega)]
    | cons x rest =>
      obtain ⟨L, amp⟩ := x
      have hx : (L, amp) ∈ actPoly op (fromStates.getD t 0) := by rw [hact]; exact List.mem_cons_self
      have hLto : L ∈ toStates := h.into _ hmem _ hx
      obtain ⟨hidx, hinner⟩ := h.inner_of_mem hLto
      have hint : ((truncZ amp.re : ℤ) : ℂ) = amp := h.integer _ hmem _ hx
      have hamp : amp ≠ 0 := actPoly_nonzero op _ _ hx
      have hs : truncZ amp.re ≠ 0 := by
        intro h0
        rw [h0] at hint
        exact hamp (by rw [← hint]; simp)
      rw [visit_cons getInner _ _ hTo hFrom op _ _ L (toStates.idxOf L) t amp rest hact hs hinner
        (h.innerFrom t htl) htl (by have := h.dimTo; omega) h.dimTo (by have := h.dimFrom; omega)
        h.dimFrom]
      simp only [fillStates]
      congr 2
      · funext n j
        by_cases hj : j < t
        · rw [if_neg (show ¬(j = t ∧ n < toStates.length) by omega), if_pos hj,
            if_pos (show j < t + 1 by omega)]
        · by_cases hj' : j = t
          · rw [if_pos (show j < t + 1 by omega), hj', leftCol, hact]
            simp only [true_and, lt_self_iff_false, if_false]
          · rw [if_neg (show ¬(j = t ∧ n < toStates.length) by omega), if_neg hj,
              if_neg (show ¬ j < t + 1 by omega)]
      · funext j m
        by_cases hj : j < t
        · rw [if_neg (show ¬(j = t ∧ m < fromStates.length) by omega), if_pos hj,
            if_pos (show j < t + 1 by omega)]
        · by_cases hj' : j = t
          · rw [if_pos (show j < t + 1 by omega), hj', rightRow, hact]
            simp only [true_and, lt_self_iff_false, if_false, hint]
          · rw [if_neg (show ¬(j = t ∧ m < fromStates.length) by omega), if_neg hj,
              if_neg (show ¬ j < t + 1 by omega)]

theorem mulEntry_eq_sum (inner : ℕ) (A B : Dense ℂ) (n m : ℕ) :
    mulEntry inner A B n m = ∑ k ∈ Finset.range inner, A n k * B k m := by
  unfold mulEntry
  induction inner with
  | zero => simp
  | succ inner ih => rw [List.range_succ, List.foldl_append, ih, Finset.sum_range_succ]; rfl

/-- entry `(n,m)` of `Utoᴴ · JW(op) · Ufrom` for one pair of blocks: the Jordan-Wigner matrix elements
`⟨toStates[i]| op |fromStates[j]⟩` sandwiched between the two eigenvector matrices -/
noncomputable def rotatedEntry (toStates fromStates : List ℕ) (hTo hFrom : HPart ℂ) (op : Poly ℂ)
    (n m : ℕ) : ℂ :=
  ∑ i ∈ Finset.range toStates.length, ∑ j ∈ Finset.range fromStates.length,
    (starRingEnd ℂ) (hTo.U i n) * matrixElement op (toStates.getD i 0) (fromStates.getD j 0)
      * hFrom.U j m

/-- the contribution of one source state to the rotated entry is the product of the entries the loop
wrote into `LeftMat` and `RightMat` -/
theorem column_contribution (h : PairOK getInner toStates fromStates hTo hFrom op) (n m j : ℕ)
    (hn : n < toStates.length) (hm : m < fromStates.length) (hj : j < fromStates.length) :
    leftCol toStates hTo op (fromStates.getD j 0) n
        * rightRow fromStates.length hFrom op (fromStates.getD j 0) j m
      = ∑ i ∈ Finset.range toStates.length,
          (starRingEnd ℂ) (hTo.U i n)
            * matrixElement op (toStates.getD i 0) (fromStates.getD j 0) * hFrom.U j m := by
  have hmem : fromStates.getD j 0 ∈ fromStates := getD_mem hj
  unfold leftCol rightRow matrixElement
  cases hact : actPoly op (fromStates.getD j 0) with
  | nil => simp
  | cons x rest =>
    have hrest : rest = [] := by
      have := h.single _ hmem
      rw [hact, List.length_cons] at this
      exact List.length_eq_zero_iff.mp (by omega)
    subst hrest
    have hx : x ∈ actPoly op (fromStates.getD j 0) := by rw [hact]; exact List.mem_cons_self
    obtain ⟨hidx, hinner⟩ := h.inner_of_mem (h.into _ hmem _ hx)
    simp only [if_pos hn, if_pos hm]
    rw [Finset.sum_eq_single (toStates.idxOf x.1)]
    · have : toStates.getD (toStates.idxOf x.1) 0 = x.1 := by
        rw [getD_eq hidx, List.getElem_idxOf hidx]
      rw [this]
      simp only [List.find?_cons, beq_self_eq_true]
      ring
    · intro i hi hne
      have hi' : i < toStates.length := Finset.mem_range.mp hi
      have hneq : x.1 ≠ toStates.getD i 0 := by
        intro heq
        have h1 := h.innerTo i hi'
        rw [← heq, hinner] at h1
        exact hne (Option.some.inj h1).symm
      have hb : (x.1 == toStates.getD i 0) = false := beq_false_of_ne hneq
      simp only [List.find?_cons, hb, List.find?_nil, mul_zero, zero_mul]
    · intro hni
      exact absurd (Finset.mem_range.mpr hidx) hni

/-- **The dense product `LeftMat * RightMat` of `FieldOperatorPart::compute` is the block of
`Utoᴴ · JW(op) · Ufrom`.** -/
theorem computeDense_eq (h : PairOK getInner toStates fromStates hTo hFrom op) :
    ∃ D, computeDense getInner toStates fromStates hTo hFrom op = .ok D ∧
      ∀ n m, n < toStates.length → m < fromStates.length →
        D n m = rotatedEntry toStates fromStates hTo hFrom op n m := by
  have hfill := fill_take h fromStates.length (le_refl _)
  rw [List.take_length] at hfill
  unfold computeDense leftRight
  rw [hfill]
  refine ⟨_, rfl, ?_⟩
  intro n m hn hm
  rw [mulEntry_eq_sum, rotatedEntry, Finset.sum_comm]
  refine Finset.sum_congr rfl fun j hj => ?_
  have hj' : j < fromStates.length := Finset.mem_range.mp hj
  rw [if_pos hj', if_pos hj']
  exact column_contribution h n m j hn hm hj'

end Pair

/-! ## 3. the stored sparse copies -/

/-- the column-major copy written down directly -/
noncomputable def sparseCols (rows cols : ℕ) (M : Dense ℂ) : GFPart.SpMat ℂ :=
  (List.range cols).map fun m =>
    (List.range rows).filterMap fun n =>
      if FieldScalar.kept (M n m) then some (n, M n m) else none

/-- looking up an inner index in a compressed vector produced by `sparseView` -/
theorem find_sparse (g : ℕ → ℂ) (m : ℕ) : ∀ cols : ℕ,
    ((List.range cols).filterMap fun j =>
        if FieldScalar.kept (g j) then some (j, g j) else none).find? (fun p => p.1 == m)
      = if m < cols ∧ g m ≠ 0 then some (m, g m) else none := by
  intro cols
  induction cols with
  | zero => simp
  | succ cols ih =>
    rw [List.range_succ, List.filterMap_append, List.find?_append, ih]
    by_cases h1 : m < cols
    · by_cases h2 : g m = 0
      · have hne : (cols == m) = false := beq_false_of_ne (by omega)
        rw [if_neg (by tauto), if_neg (by tauto)]
        by_cases h3 : g cols = 0
        · simp [h3]
        · simp [h3, hne]
      · rw [if_pos ⟨h1, h2⟩, if_pos ⟨by omega, h2⟩]
        rfl
    · rw [if_neg (by tauto)]
      by_cases h4 : m = cols
      · subst h4
        by_cases h3 : g m = 0
        · simp [h3]
        · simp [h3]
      · have hne : (cols == m) = false := beq_false_of_ne (by omega)
        rw [if_neg (by omega)]
        by_cases h3 : g cols = 0
        · simp [h3]
        · simp [h3, hne]

theorem getD_map_range {α : Type} (f : ℕ → α) (n i : ℕ) (d : α) (h : i < n) :
    ((List.range n).map f).getD i d = f i := by
  simp [List.getD_eq_getElem?_getD, h]

/-- `prune` removes nothing from a fresh `sparseView` (same test) -/
theorem prune_sparseRows (rows cols : ℕ) (M : Dense ℂ) :
    prune (sparseRows rows cols M) = sparseRows rows cols M := by
  unfold prune sparseRows
  rw [List.map_map]
  refine List.map_congr_left fun n _ => ?_
  simp only [Function.comp]
  rw [List.filter_eq_self]
  intro p hp
  rw [List.mem_filterMap] at hp
  obtain ⟨j, _, hj⟩ := hp
  by_cases hk : FieldScalar.kept (M n j) = true
  · rw [if_pos hk] at hj
    cases hj
    exact hk
  · rw [if_neg hk] at hj
    cases hj

/-- re-sorting the row-major copy by columns gives the column-major `sparseView` -/
theorem toColMajor_sparseRows (rows cols : ℕ) (M : Dense ℂ) :
    toColMajor cols (sparseRows rows cols M) = sparseCols rows cols M := by
  unfold toColMajor sparseCols
  have hlen : (sparseRows rows cols M).length = rows := by simp [sparseRows]
  rw [hlen]
  refine List.map_congr_left fun m hm => ?_
  have hm' : m < cols := List.mem_range.mp hm
  refine List.filterMap_congr fun n hn => ?_
  have hn' : n < rows := List.mem_range.mp hn
  unfold sparseRows
  rw [getD_map_range _ _ _ _ hn', find_sparse (fun j => M n j) m cols]
  by_cases h0 : M n m = 0
  · rw [if_neg (by tauto)]
    simp [h0]
  · rw [if_pos ⟨hm', h0⟩]
    simp [h0]

/-- `compute` stores the two sparse views of the dense product -/
theorem compute_of_dense (realBuild : Bool) (getInner : ℕ → Option ℕ) (toStates fromStates : List ℕ)
    (hTo hFrom : HPart ℂ) (op : Poly ℂ) (D : Dense ℂ)
    (h : computeDense getInner toStates fromStates hTo hFrom op = .ok D) :
    compute realBuild getInner toStates fromStates hTo hFrom op
      = .ok { rows := toStates.length, cols := fromStates.length,
              rowMajor := sparseRows toStates.length fromStates.length D,
              colMajor := sparseCols toStates.length fromStates.length D } := by
  unfold compute
  rw [h]
  simp only [prune_sparseRows, ite_self, toColMajor_sparseRows]

/-- reading the row-major copy -/
theorem coeffRow_sparse (rows cols : ℕ) (D : Dense ℂ) (cm : GFPart.SpMat ℂ) (n m : ℕ)
    (hn : n < rows) (hm : m < cols) :
    (Stored.mk rows cols (sparseRows rows cols D) cm).coeffRow n m = D n m := by
  unfold Stored.coeffRow sparseRows
  simp only
  rw [getD_map_range _ _ _ _ hn, find_sparse (fun j => D n j) m cols]
  by_cases h0 : D n m = 0
  · rw [if_neg (by tauto)]
    exact h0.symm
  · rw [if_pos ⟨hm, h0⟩]

/-- reading the column-major copy -/
theorem coeffCol_sparse (rows cols : ℕ) (D : Dense ℂ) (rm : GFPart.SpMat ℂ) (n m : ℕ)
    (hn : n < rows) (hm : m < cols) :
    (Stored.mk rows cols rm (sparseCols rows cols D)).coeffCol n m = D n m := by
  unfold Stored.coeffCol sparseCols
  simp only
  rw [getD_map_range _ _ _ _ hm, find_sparse (fun i => D i m) n rows]
  by_cases h0 : D n m = 0
  · rw [if_neg (by tauto)]
    exact h0.symm
  · rw [if_pos ⟨hn, h0⟩]

/-- **`FieldOperatorPart::compute` succeeds and both stored copies hold the block of
`Utoᴴ · JW(op) · Ufrom`** (in both builds). -/
theorem compute_pair {getInner : ℕ → Option ℕ} {toStates fromStates : List ℕ} {hTo hFrom : HPart ℂ}
    {op : Poly ℂ} (h : PairOK getInner toStates fromStates hTo hFrom op) (realBuild : Bool) :
    ∃ S, compute realBuild getInner toStates fromStates hTo hFrom op = .ok S ∧
      S.rows = toStates.length ∧ S.cols = fromStates.length ∧
      ∀ n m, n < toStates.length → m < fromStates.length →
        S.coeffRow n m = rotatedEntry toStates fromStates hTo hFrom op n m ∧
        S.coeffCol n m = rotatedEntry toStates fromStates hTo hFrom op n m := by
  obtain ⟨D, hD, hval⟩ := computeDense_eq h
  refine ⟨_, compute_of_dense realBuild _ _ _ _ _ _ D hD, rfl, rfl, ?_⟩
  intro n m hn hm
  rw [coeffRow_sparse _ _ _ _ _ _ hn hm, coeffCol_sparse _ _ _ _ _ _ hn hm]
  exact ⟨hval n m hn hm, hval n m hn hm⟩

/-! ## 4. all blocks: the full Fock space -/

section Full
variable (blocks : List (List ℕ)) (hpart : ℕ → HPart ℂ)

/-- the index type of the full Fock space / of all eigenstates: (block, inner index) -- the index type
of `Matrix.blockDiagonal'`, as in `Spec/Blocks.lean` and `Spec/AveragesSpec.lean` -/
abbrev Idx : Type := Σ b : Fin blocks.length, Fin (blocks.get b).length

/-- the eigenvector matrix of block `b`: row = Fock (inner) index, column = eigenstate -/
def Ublk (b : Fin blocks.length) :
    Matrix (Fin (blocks.get b).length) (Fin (blocks.get b).length) ℂ :=
  Matrix.of fun f s => (hpart b).U f s

/-- the eigenvector matrix `U` on the full Fock space: block-diagonal -/
def Vfull : Matrix (Idx blocks) (Idx blocks) ℂ := blockDiagonal' (Ublk blocks hpart)

/-- the Fock state (bit mask) with address `k` -/
def fk (k : Idx blocks) : ℕ := (blocks.get k.1).get k.2

/-- the Jordan-Wigner matrix `JW(op)` of the symbolic operator on the full Fock space, in the order of
the Fock states given by the blocks: entry `(k,l)` is `⟨fk k| op |fk l⟩` = `getMatrixElement`, which
`matrixElement_sem` (`Spec/JW.lean`) identifies with the Jordan-Wigner representation `jwRep`. -/
noncomputable def jwFull (op : Poly ℂ) : Matrix (Idx blocks) (Idx blocks) ℂ :=
  Matrix.of fun k l => matrixElement op (fk blocks k) (fk blocks l)

theorem jwFull_sem (op : Poly ℂ) (k l : Idx blocks) :
    jwFull blocks op k l
      = ((jwRep ℂ).poly op (Finsupp.single (fk blocks l) 1)) (fk blocks k) :=
  matrixElement_sem op _ _

/-- a sum against a column of the block-diagonal eigenvector matrix only sees the block of the column -/
theorem sum_Vfull_col (F : Idx blocks → ℂ) (b : Fin blocks.length) (s : Fin (blocks.get b).length) :
    ∑ k, F k * Vfull blocks hpart k ⟨b, s⟩
      = ∑ i : Fin (blocks.get b).length, F ⟨b, i⟩ * (hpart b).U i s := by
  rw [Fintype.sum_sigma, Finset.sum_eq_single b]
  · refine Finset.sum_congr rfl fun i _ => ?_
    rw [Vfull, blockDiagonal'_apply_eq]
    rfl
  · intro b' _ hne
    refine Finset.sum_eq_zero fun i _ => ?_
    rw [Vfull, blockDiagonal'_apply_ne _ _ _ hne, mul_zero]
  · intro h
    exact absurd (Finset.mem_univ b) h

/-- the `(l,r)` block of `Uᴴ · JW(op) · U` is the sandwich of the pair of blocks -/
theorem rotated_block_entry (op : Poly ℂ) (l r : Fin blocks.length)
    (n : Fin (blocks.get l).length) (m : Fin (blocks.get r).length) :
    ((Vfull blocks hpart)ᴴ * jwFull blocks op * Vfull blocks hpart) ⟨l, n⟩ ⟨r, m⟩
      = rotatedEntry (blocks.get l) (blocks.get r) (hpart l) (hpart r) op n m := by
  rw [Matrix.mul_apply, sum_Vfull_col]
  unfold rotatedEntry
  rw [Finset.sum_comm, ← Fin.sum_univ_eq_sum_range
    (fun j => ∑ i ∈ Finset.range (blocks.get l).length,
      (starRingEnd ℂ) ((hpart l).U i n)
        * matrixElement op ((blocks.get l).getD i 0) ((blocks.get r).getD j 0) * (hpart r).U j m)]
  refine Finset.sum_congr rfl fun j _ => ?_
  rw [Matrix.mul_apply, Finset.sum_mul]
  rw [← Fin.sum_univ_eq_sum_range
    (fun i => (starRingEnd ℂ) ((hpart l).U i n)
        * matrixElement op ((blocks.get l).getD i 0) ((blocks.get r).getD j 0) * (hpart r).U j m)]
  have hsum : ∑ k, (Vfull blocks hpart)ᴴ ⟨l, n⟩ k * jwFull blocks op k ⟨r, j⟩
      = (starRingEnd ℂ) (∑ k, (starRingEnd ℂ) (jwFull blocks op k ⟨r, j⟩)
          * Vfull blocks hpart k ⟨l, n⟩) := by
    rw [map_sum]
    refine Finset.sum_congr rfl fun k _ => ?_
    rw [conjTranspose_apply, map_mul, Complex.conj_conj, mul_comm]
    rfl
  rw [← Finset.sum_mul, hsum, sum_Vfull_col, map_sum, Finset.sum_mul]
  refine Finset.sum_congr rfl fun i _ => ?_
  rw [map_mul, Complex.conj_conj, mul_comm ((jwFull blocks op) ⟨l, i⟩ ⟨r, j⟩)]
  have h1 : (blocks.get l).getD i 0 = fk blocks ⟨l, i⟩ := by
    rw [getD_eq i.2]; rfl
  have h2 : (blocks.get r).getD j 0 = fk blocks ⟨r, j⟩ := by
    rw [getD_eq j.2]; rfl
  rw [h1, h2]
  rfl

end Full

/-! ## 5. the main theorem -/

theorem findIdx_nodup {l : List ℕ} (hnd : l.Nodup) {i : ℕ} (hi : i < l.length) :
    l.findIdx? (fun x => decide (x = l[i])) = some i := by
  rw [List.findIdx?_eq_some_iff_getElem]
  refine ⟨hi, by simp, ?_⟩
  intro j hji
  have hj : j < l.length := by omega
  simp only [decide_eq_true_eq]
  intro heq
  have := (hnd.getElem_inj_iff (hi := hj) (hj := hi)).mp heq
  omega

theorem blocks_getD (blocks : List (List ℕ)) (b : Fin blocks.length) :
    blocks.getD b [] = blocks.get b := by
  simp [List.getD_eq_getElem?_getD]

/-- `getInnerState` of the `i`-th state of block `b` is `i`, when the table "block of a state" is
consistent with the lists of states (C07: `every_state_in_exactly_one_block`) and the block lists
no state twice -/
theorem innerState_of_block (blkOf : List ℕ) (blocks : List (List ℕ))
    (hcls : ∀ b s, s ∈ blocks.getD b [] → blkOf[s]? = some b)
    (b : Fin blocks.length) (hnd : (blocks.get b).Nodup) (i : ℕ) (hi : i < (blocks.get b).length) :
    Symm.innerState blkOf blocks ((blocks.get b).getD i 0) = some i := by
  unfold Symm.innerState
  have hmem : (blocks.get b).getD i 0 ∈ blocks.getD b [] := by
    rw [blocks_getD]
    exact getD_mem hi
  rw [hcls b _ hmem]
  simp only
  rw [blocks_getD, getD_eq hi]
  exact findIdx_nodup hnd hi

/-- **`fieldpart_is_rotated_block`.**  The part `<l| op |r>` computed by `FieldOperatorPart::compute`
(with `S.getInnerState`, in either build) exists and both stored copies hold the `(l,r)` block of
`Uᴴ · JW(op) · U`, where `JW(op)` is the Jordan-Wigner matrix of the symbolic operator on the full Fock
space and `U` the block-diagonal matrix of the eigenvectors.

Hypotheses: the two blocks list no state twice and the block table is consistent with them; the
eigenvector matrices are not truncated (`dim`); `op` maps every state of the right block into the left
block or annihilates it (`hinto`: single-target property of C07); and -- because the code only looks
at the FIRST state returned by `actRight` and converts its amplitude to `int` -- `actRight` returns at
most one state (`hsingle`) with an integer amplitude (`hint`).  For the operators the library uses
(`c`, `c†`, `c†_i c_j`: one monomial with coefficient 1) the last two hold automatically:
`fieldpart_is_rotated_block_mono`. -/
theorem fieldpart_is_rotated_block (realBuild : Bool) (blkOf : List ℕ) (blocks : List (List ℕ))
    (hpart : ℕ → HPart ℂ) (op : Poly ℂ) (l r : Fin blocks.length)
    (hcls : ∀ b s, s ∈ blocks.getD b [] → blkOf[s]? = some b)
    (hndl : (blocks.get l).Nodup) (hndr : (blocks.get r).Nodup)
    (hdiml : (blocks.get l).length ≤ (hpart l).dim) (hdimr : (blocks.get r).length ≤ (hpart r).dim)
    (hsingle : ∀ f ∈ blocks.get r, (actPoly op f).length ≤ 1)
    (hinto : ∀ f ∈ blocks.get r, ∀ x ∈ actPoly op f, x.1 ∈ blocks.get l)
    (hint : ∀ f ∈ blocks.get r, ∀ x ∈ actPoly op f, ((truncZ x.2.re : ℤ) : ℂ) = x.2) :
    ∃ S, computeBlocks realBuild blkOf blocks hpart l r op = .ok S ∧
      S.rows = (blocks.get l).length ∧ S.cols = (blocks.get r).length ∧
      ∀ (n : Fin (blocks.get l).length) (m : Fin (blocks.get r).length),
        S.coeffRow n m
          = ((Vfull blocks hpart)ᴴ * jwFull blocks op * Vfull blocks hpart) ⟨l, n⟩ ⟨r, m⟩ ∧
        S.coeffCol n m
          = ((Vfull blocks hpart)ᴴ * jwFull blocks op * Vfull blocks hpart) ⟨l, n⟩ ⟨r, m⟩ := by
  have hok : PairOK (Symm.innerState blkOf blocks) (blocks.get l) (blocks.get r) (hpart l)
      (hpart r) op :=
    { dimTo := hdiml, dimFrom := hdimr,
      innerTo := fun i hi => innerState_of_block blkOf blocks hcls l hndl i hi,
      innerFrom := fun j hj => innerState_of_block blkOf blocks hcls r hndr j hj,
      single := hsingle, into := hinto, integer := hint }
  obtain ⟨S, hS, hrows, hcols, hval⟩ := compute_pair hok realBuild
  refine ⟨S, ?_, hrows, hcols, ?_⟩
  · unfold computeBlocks
    rw [blocks_getD, blocks_getD]
    exact hS
  · intro n m
    rw [rotated_block_entry]
    exact hval n m n.2 m.2

/-! ## 6. the operators the library uses: one monomial with coefficient 1 -/

/-- `actRight` of a single monomial with coefficient 1 (`c_i`, `c†_i`, `c†_i c_j`, …): at most one
state, amplitude `±1` -/
theorem actPoly_mono1 (mono : Mono) (f : ℕ) :
    actPoly [(mono, (1 : ℂ))] f
      = match actMono mono f with
        | none => []
        | some (b, neg) => [(b, if neg then -1 else 1)] := by
  unfold actPoly
  simp only [List.foldl_cons, List.foldl_nil]
  cases h : actMono mono f with
  | none => simp
  | some q =>
    obtain ⟨b, neg⟩ := q
    cases neg <;> simp [CoefTest.aboveEps, CoefTest.belowEps, stateMapAdd]

theorem mono1_single (mono : Mono) (f : ℕ) : (actPoly [(mono, (1 : ℂ))] f).length ≤ 1 := by
  rw [actPoly_mono1]
  cases actMono mono f with
  | none => simp
  | some q => simp

theorem mono1_integer (mono : Mono) (f : ℕ) (x : ℕ × ℂ) (hx : x ∈ actPoly [(mono, (1 : ℂ))] f) :
    ((truncZ x.2.re : ℤ) : ℂ) = x.2 := by
  rw [actPoly_mono1] at hx
  cases h : actMono mono f with
  | none => rw [h] at hx; simp at hx
  | some q =>
    obtain ⟨b, neg⟩ := q
    rw [h] at hx
    simp only [List.mem_singleton] at hx
    subst hx
    cases neg
    · have : ((1 : ℂ)).re = ((1 : ℤ) : ℝ) := by simp
      simp only [Bool.false_eq_true, if_false, this, truncZ_intCast]
      simp
    · have : ((-1 : ℂ)).re = ((-1 : ℤ) : ℝ) := by simp
      simp only [if_true, this, truncZ_intCast]
      simp

theorem mono1_mem (mono : Mono) (f : ℕ) (x : ℕ × ℂ) (hx : x ∈ actPoly [(mono, (1 : ℂ))] f) :
    ∃ neg, actMono mono f = some (x.1, neg) := by
  rw [actPoly_mono1] at hx
  cases h : actMono mono f with
  | none => rw [h] at hx; simp at hx
  | some q =>
    obtain ⟨b, neg⟩ := q
    rw [h] at hx
    simp only [List.mem_singleton] at hx
    subst hx
    exact ⟨neg, rfl⟩

/-- **the main theorem for the operators the library uses** (`opC i`, `opCdag i`, `opNOffdiag i j`
are of the form `[(mono, 1)]`): the only hypothesis on the operator is the single-target property,
stated on the bit-mask action `actMono` (decidable for concrete blocks). -/
theorem fieldpart_is_rotated_block_mono (realBuild : Bool) (blkOf : List ℕ)
    (blocks : List (List ℕ)) (hpart : ℕ → HPart ℂ) (mono : Mono) (l r : Fin blocks.length)
    (hcls : ∀ b s, s ∈ blocks.getD b [] → blkOf[s]? = some b)
    (hndl : (blocks.get l).Nodup) (hndr : (blocks.get r).Nodup)
    (hdiml : (blocks.get l).length ≤ (hpart l).dim) (hdimr : (blocks.get r).length ≤ (hpart r).dim)
    (hinto : ∀ f ∈ blocks.get r, ∀ q ∈ actMono mono f, q.1 ∈ blocks.get l) :
    ∃ S, computeBlocks realBuild blkOf blocks hpart l r [(mono, (1 : ℂ))] = .ok S ∧
      S.rows = (blocks.get l).length ∧ S.cols = (blocks.get r).length ∧
      ∀ (n : Fin (blocks.get l).length) (m : Fin (blocks.get r).length),
        S.coeffRow n m
          = ((Vfull blocks hpart)ᴴ * jwFull blocks [(mono, (1 : ℂ))] * Vfull blocks hpart)
              ⟨l, n⟩ ⟨r, m⟩ ∧
        S.coeffCol n m
          = ((Vfull blocks hpart)ᴴ * jwFull blocks [(mono, (1 : ℂ))] * Vfull blocks hpart)
              ⟨l, n⟩ ⟨r, m⟩ :=
  fieldpart_is_rotated_block realBuild blkOf blocks hpart _ l r hcls hndl hndr hdiml hdimr
    (fun f _ => mono1_single mono f)
    (fun f hf x hx => by
      obtain ⟨neg, hneg⟩ := mono1_mem mono f x hx
      exact hinto f hf (x.1, neg) hneg)
    (fun f _ x hx => mono1_integer mono f x hx)

/-! ### the pairing of the blocks by `FieldOperator::prepare` (`mapsTo`) -/

/-- `FieldOperator::mapsTo(r)` returns the block of the first state returned by `actRight` for the first
state of block `r` that is not annihilated.  If all states reached from block `r` lie in ONE block
(single-target property, C07) and the table `blkOf` agrees with the lists of states, this block `l`
satisfies the hypothesis `hinto` of `fieldpart_is_rotated_block`: the part created by `prepare` is
the right one. -/
theorem into_of_mapsTo (op : Poly ℂ) (blkOf : List ℕ) (blocks : List (List ℕ))
    (r : Fin blocks.length) (l : ℕ)
    (hmap : Symm.mapsTo op blkOf (blocks.get r) = some l)
    (hcls' : ∀ s b, blkOf[s]? = some b → s ∈ blocks.getD b [])
    (hsame : ∀ f ∈ blocks.get r, ∀ f' ∈ blocks.get r, ∀ x ∈ actPoly op f, ∀ x' ∈ actPoly op f',
      blkOf[x.1]? = blkOf[x'.1]?) :
    ∀ f ∈ blocks.get r, ∀ x ∈ actPoly op f, x.1 ∈ blocks.getD l [] := by
  unfold Symm.mapsTo at hmap
  split at hmap
  · cases hmap
  · rename_i t hfs
    obtain ⟨f0, hf0, hg⟩ := List.exists_of_findSome?_eq_some hfs
    have ht : ∃ amp, (t, amp) ∈ actPoly op f0 := by
      cases hact : actPoly op f0 with
      | nil => rw [hact] at hg; cases hg
      | cons y rest =>
        obtain ⟨t', amp⟩ := y
        rw [hact] at hg
        simp only [Option.some.injEq] at hg
        subst hg
        exact ⟨amp, List.mem_cons_self⟩
    obtain ⟨amp, hmem⟩ := ht
    intro f hf x hx
    have := hsame f hf f0 hf0 x hx (t, amp) hmem
    exact hcls' x.1 l (by rw [this]; exact hmap)

/-! ## 7. the adjoint operator -/

/-- exact composition rule of the bit-mask action (with the sign) -/
theorem actMono_append (m1 m2 : Mono) (s : ℕ) :
    actMono (m1 ++ m2) s
      = match actMono m2 s with
        | none => none
        | some (s1, n1) =>
          match actMono m1 s1 with
          | none => none
          | some (s2, n2) => some (s2, n1 != n2) := by
  induction m1 with
  | nil =>
    cases h : actMono m2 s with
    | none => simp [h]
    | some q => simp [h, actMono]
  | cons o m1 ih =>
    rw [List.cons_append]
    simp only [actMono]
    rw [ih]
    cases h : actMono m2 s with
    | none => rfl
    | some q =>
      obtain ⟨s1, n1⟩ := q
      simp only
      cases h1 : actMono m1 s1 with
      | none => rfl
      | some q1 =>
        obtain ⟨s2, n2⟩ := q1
        simp only
        cases h2 : actOp o s2 with
        | none => rfl
        | some q2 =>
          obtain ⟨s3, n3⟩ := q2
          simp only [Option.some.injEq, Prod.mk.injEq, true_and]
          cases n1 <;> cases n2 <;> cases n3 <;> rfl

/-- `c†` undoes what `c` does, with the same Jordan-Wigner sign -/
theorem actOp_flip {o : Op} {s s' : ℕ} {n : Bool} (h : actOp o s = some (s', n)) :
    actOp o.flip s' = some (s, n) := by
  unfold actOp at h
  by_cases hc : o.ann = s.testBit o.idx
  · rw [if_pos hc] at h
    simp only [Option.some.injEq, Prod.mk.injEq] at h
    obtain ⟨rfl, rfl⟩ := h
    unfold actOp Op.flip
    simp only
    rw [if_pos (by rw [testBit_flipBit, if_pos rfl, hc]), flipBit_flipBit, lowParity_flipBit,
      if_neg (Nat.lt_irrefl _)]
  · rw [if_neg hc] at h
    cases h

theorem flip_flip (o : Op) : o.flip.flip = o := by
  cases o
  simp [Op.flip]

theorem adjMono_adjMono (m : Mono) : adjMono (adjMono m) = m := by
  unfold adjMono
  rw [List.map_reverse, List.reverse_reverse, List.map_map]
  have : Op.flip ∘ Op.flip = id := funext flip_flip
  rw [this, List.map_id]

theorem adjMono_cons (o : Op) (m : Mono) : adjMono (o :: m) = adjMono m ++ [o.flip] := by
  simp [adjMono]

theorem actMono_adj_of : ∀ (m : Mono) (a b : ℕ) (neg : Bool),
    actMono m b = some (a, neg) → actMono (adjMono m) a = some (b, neg)
  | [], a, b, neg, h => by
    simp only [actMono, Option.some.injEq, Prod.mk.injEq] at h
    obtain ⟨rfl, rfl⟩ := h
    rfl
  | o :: rest, a, b, neg, h => by
    obtain ⟨s1, n1, n2, h1, h2⟩ := actMono_cons_some h
    have hneg : neg = (n1 != n2) := by
      have := actMono_cons_of_some h1 h2
      rw [h] at this
      simp only [Option.some.injEq, Prod.mk.injEq, true_and] at this
      exact this
    have h3 := actMono_adj_of rest s1 b n1 h1
    have h4 := actOp_flip h2
    rw [adjMono_cons, actMono_append]
    have h5 : actMono [o.flip] a = some (s1, n2) := by
      simp [actMono, h4]
    rw [h5]
    simp only [h3, hneg]
    cases n1 <;> cases n2 <;> rfl

/-- the bit-mask action of the adjoint monomial is the transposed action -/
theorem actMono_adj_iff (m : Mono) (a b : ℕ) (neg : Bool) :
    actMono (adjMono m) a = some (b, neg) ↔ actMono m b = some (a, neg) := by
  constructor
  · intro h
    have := actMono_adj_of (adjMono m) b a neg h
    rwa [adjMono_adjMono] at this
  · exact actMono_adj_of m a b neg

/-- `⟨a| mono |b⟩` -/
def monoAmp (m : Mono) (a b : ℕ) : ℂ :=
  match actMono m b with
  | none => 0
  | some (a', neg) => if a' = a then (if neg then -1 else 1) else 0

theorem monoAmp_adj (m : Mono) (a b : ℕ) : monoAmp (adjMono m) b a = monoAmp m a b := by
  unfold monoAmp
  cases h : actMono m b with
  | none =>
    cases h' : actMono (adjMono m) a with
    | none => rfl
    | some q =>
      obtain ⟨b', neg⟩ := q
      simp only
      by_cases hb : b' = b
      · subst hb
        rw [actMono_adj_iff] at h'
        rw [h] at h'
        cases h'
      · rw [if_neg hb]
  | some q =>
    obtain ⟨a', neg⟩ := q
    simp only
    by_cases ha : a' = a
    · subst ha
      rw [(actMono_adj_iff m a' b neg).mpr h]
      simp
    · rw [if_neg ha]
      cases h' : actMono (adjMono m) a with
      | none => rfl
      | some q' =>
        obtain ⟨b', neg'⟩ := q'
        simp only
        by_cases hb : b' = b
        · subst hb
          rw [actMono_adj_iff] at h'
          rw [h] at h'
          simp only [Option.some.injEq, Prod.mk.injEq] at h'
          exact absurd h'.1 ha
        · rw [if_neg hb]

theorem monoAmp_real (m : Mono) (a b : ℕ) : (starRingEnd ℂ) (monoAmp m a b) = monoAmp m a b := by
  unfold monoAmp
  cases actMono m b with
  | none => simp
  | some q =>
    obtain ⟨a', neg⟩ := q
    simp only
    split_ifs <;> simp

/-- `getMatrixElement` is the sum over the terms of coefficient times `⟨a| mono |b⟩` -/
theorem matrixElement_eq_sum (p : Poly ℂ) (a b : ℕ) :
    matrixElement p a b = (p.map fun mc => mc.2 * monoAmp mc.1 a b).sum := by
  rw [matrixElement_sem]
  induction p with
  | nil => simp [CARRep.poly]
  | cons mc p ih =>
    have hp : (jwRep ℂ).poly (mc :: p) = mc.2 • (jwRep ℂ).mono mc.1 + (jwRep ℂ).poly p := by
      simp [CARRep.poly]
    rw [hp, LinearMap.add_apply, LinearMap.smul_apply, Finsupp.add_apply, Finsupp.smul_apply, ih,
      List.map_cons, List.sum_cons, jw_mono_single]
    congr 1
    unfold monoAmp
    cases actMono mc.1 b with
    | none => simp
    | some q =>
      obtain ⟨a', neg⟩ := q
      simp only [Finsupp.single_apply, smul_eq_mul]

/-- **the Jordan-Wigner matrix of the adjoint operator is the conjugate transpose** -/
theorem matrixElement_adjPoly (p : Poly ℂ) (a b : ℕ) :
    matrixElement (adjPoly p) b a = (starRingEnd ℂ) (matrixElement p a b) := by
  rw [matrixElement_eq_sum, matrixElement_eq_sum]
  induction p with
  | nil => simp [adjPoly]
  | cons mc p ih =>
    simp only [adjPoly, List.map_cons, List.sum_cons, map_add, map_mul] at ih ⊢
    rw [ih, monoAmp_adj, monoAmp_real]
    rfl

/-- `c_i` is the adjoint of `c†_i` (as symbolic operators) -/
theorem adjPoly_opCdag (i : ℕ) : adjPoly (opCdag (K := ℂ) i) = opC i := by
  simp [adjPoly, opCdag, opC, adjMono, Op.flip]

/-! ## 8. the copy made by `FieldOperatorContainer::computeAll` -/

/-- the conjugated compressed storage -/
theorem sparseRows_adjoint (rows cols : ℕ) (D1 D2 : Dense ℂ)
    (h : ∀ n m, n < rows → m < cols → D2 m n = (starRingEnd ℂ) (D1 n m)) :
    sparseRows cols rows D2
      = (sparseCols rows cols D1).map fun v => v.map fun p => (p.1, FieldScalar.conj p.2) := by
  unfold sparseRows sparseCols
  rw [List.map_map]
  refine List.map_congr_left fun m hm => ?_
  simp only [Function.comp, List.map_filterMap]
  refine List.filterMap_congr fun n hn => ?_
  rw [h n m (List.mem_range.mp hn) (List.mem_range.mp hm)]
  by_cases h0 : D1 n m = 0
  · simp [h0]
  · simp [h0]

theorem sparseCols_adjoint (rows cols : ℕ) (D1 D2 : Dense ℂ)
    (h : ∀ n m, n < rows → m < cols → D2 m n = (starRingEnd ℂ) (D1 n m)) :
    sparseCols cols rows D2
      = (sparseRows rows cols D1).map fun v => v.map fun p => (p.1, FieldScalar.conj p.2) := by
  unfold sparseRows sparseCols
  rw [List.map_map]
  refine List.map_congr_left fun n hn => ?_
  simp only [Function.comp, List.map_filterMap]
  refine List.filterMap_congr fun m hm => ?_
  rw [h n m (List.mem_range.mp hn) (List.mem_range.mp hm)]
  by_cases h0 : D1 n m = 0
  · simp [h0]
  · simp [h0]

/-- the sandwich of the adjoint operator between the swapped blocks is the conjugate transpose -/
theorem rotatedEntry_adjoint (A B : List ℕ) (hA hB : HPart ℂ) (op opAdj : Poly ℂ)
    (hadj : ∀ a b, matrixElement opAdj b a = (starRingEnd ℂ) (matrixElement op a b)) (n m : ℕ) :
    rotatedEntry B A hB hA opAdj m n = (starRingEnd ℂ) (rotatedEntry A B hA hB op n m) := by
  unfold rotatedEntry
  rw [Finset.sum_comm, map_sum]
  refine Finset.sum_congr rfl fun i _ => ?_
  rw [map_sum]
  refine Finset.sum_congr rfl fun j _ => ?_
  rw [hadj, map_mul, map_mul, Complex.conj_conj]
  ring

/-- **One pair of blocks: the adjoint copy of the part `<A| op |B>` IS the part `<B| op† |A>` that
`FieldOperatorPart::compute` would produce** -- both stored copies, entry by entry and in the same
storage order. -/
theorem adjoint_copy_pair {getInner : ℕ → Option ℕ} {A B : List ℕ} {hA hB : HPart ℂ}
    {op opAdj : Poly ℂ} (h1 : PairOK getInner A B hA hB op) (h2 : PairOK getInner B A hB hA opAdj)
    (hadj : ∀ a b, matrixElement opAdj b a = (starRingEnd ℂ) (matrixElement op a b))
    (realBuild : Bool) :
    ∃ S, compute realBuild getInner A B hA hB op = .ok S ∧
      compute realBuild getInner B A hB hA opAdj = .ok (adjointCopy S) := by
  obtain ⟨D1, hD1, hv1⟩ := computeDense_eq h1
  obtain ⟨D2, hD2, hv2⟩ := computeDense_eq h2
  refine ⟨_, compute_of_dense realBuild _ _ _ _ _ _ D1 hD1, ?_⟩
  rw [compute_of_dense realBuild _ _ _ _ _ _ D2 hD2]
  have hrel : ∀ n m, n < A.length → m < B.length → D2 m n = (starRingEnd ℂ) (D1 n m) := by
    intro n m hn hm
    rw [hv2 m n hm hn, hv1 n m hn hm, rotatedEntry_adjoint A B hA hB op opAdj hadj]
  unfold adjointCopy
  simp only
  rw [sparseRows_adjoint A.length B.length D1 D2 hrel, sparseCols_adjoint A.length B.length D1 D2 hrel]

/-- **`container_annihilator_is_adjoint`.**  `FieldOperatorContainer::computeAll` does not compute the
parts of the annihilation operator; it stores the adjoints of the parts of the creation operator:
the part of `c` with right block `l` receives the adjoint of the part `<l| c† |r>`.  This copy is
exactly what `FieldOperatorPart::compute` would have produced for the part `<r| c |l>`:
generally, for every operator `op` and its adjoint `adjPoly op` (for `op = c†_i`: `adjPoly op = c_i`,
`adjPoly_opCdag`), provided BOTH operators satisfy the hypotheses of `fieldpart_is_rotated_block` on
the respective pair of blocks. -/
theorem container_annihilator_is_adjoint (realBuild : Bool) (blkOf : List ℕ)
    (blocks : List (List ℕ)) (hpart : ℕ → HPart ℂ) (op : Poly ℂ) (l r : Fin blocks.length)
    (hcls : ∀ b s, s ∈ blocks.getD b [] → blkOf[s]? = some b)
    (hndl : (blocks.get l).Nodup) (hndr : (blocks.get r).Nodup)
    (hdiml : (blocks.get l).length ≤ (hpart l).dim) (hdimr : (blocks.get r).length ≤ (hpart r).dim)
    (hsingle : ∀ f ∈ blocks.get r, (actPoly op f).length ≤ 1)
    (hinto : ∀ f ∈ blocks.get r, ∀ x ∈ actPoly op f, x.1 ∈ blocks.get l)
    (hint : ∀ f ∈ blocks.get r, ∀ x ∈ actPoly op f, ((truncZ x.2.re : ℤ) : ℂ) = x.2)
    (hsingle' : ∀ f ∈ blocks.get l, (actPoly (adjPoly op) f).length ≤ 1)
    (hinto' : ∀ f ∈ blocks.get l, ∀ x ∈ actPoly (adjPoly op) f, x.1 ∈ blocks.get r)
    (hint' : ∀ f ∈ blocks.get l, ∀ x ∈ actPoly (adjPoly op) f, ((truncZ x.2.re : ℤ) : ℂ) = x.2) :
    ∃ S, computeBlocks realBuild blkOf blocks hpart l r op = .ok S ∧
      computeBlocks realBuild blkOf blocks hpart r l (adjPoly op) = .ok (adjointCopy S) := by
  have hok1 : PairOK (Symm.innerState blkOf blocks) (blocks.get l) (blocks.get r) (hpart l)
      (hpart r) op :=
    { dimTo := hdiml, dimFrom := hdimr,
      innerTo := fun i hi => innerState_of_block blkOf blocks hcls l hndl i hi,
      innerFrom := fun j hj => innerState_of_block blkOf blocks hcls r hndr j hj,
      single := hsingle, into := hinto, integer := hint }
  have hok2 : PairOK (Symm.innerState blkOf blocks) (blocks.get r) (blocks.get l) (hpart r)
      (hpart l) (adjPoly op) :=
    { dimTo := hdimr, dimFrom := hdiml,
      innerTo := fun i hi => innerState_of_block blkOf blocks hcls r hndr i hi,
      innerFrom := fun j hj => innerState_of_block blkOf blocks hcls l hndl j hj,
      single := hsingle', into := hinto', integer := hint' }
  obtain ⟨S, hS1, hS2⟩ := adjoint_copy_pair hok1 hok2 (matrixElement_adjPoly op) realBuild
  refine ⟨S, ?_, ?_⟩
  · unfold computeBlocks
    rw [blocks_getD, blocks_getD]
    exact hS1
  · unfold computeBlocks
    rw [blocks_getD, blocks_getD]
    exact hS2

theorem adjPoly_mono1 (mono : Mono) : adjPoly [(mono, (1 : ℂ))] = [(adjMono mono, (1 : ℂ))] := by
  simp [adjPoly]

/-- the container's copy for the library's operators: `op = [(mono, 1)]`, adjoint `[(adjMono mono, 1)]`
(`mono = [c†_i]`: the adjoint is `[c_i]`); the only hypotheses on the operators are the single-target
properties of the monomial and of its adjoint -/
theorem container_annihilator_is_adjoint_mono (realBuild : Bool) (blkOf : List ℕ)
    (blocks : List (List ℕ)) (hpart : ℕ → HPart ℂ) (mono : Mono) (l r : Fin blocks.length)
    (hcls : ∀ b s, s ∈ blocks.getD b [] → blkOf[s]? = some b)
    (hndl : (blocks.get l).Nodup) (hndr : (blocks.get r).Nodup)
    (hdiml : (blocks.get l).length ≤ (hpart l).dim) (hdimr : (blocks.get r).length ≤ (hpart r).dim)
    (hinto : ∀ f ∈ blocks.get r, ∀ q ∈ actMono mono f, q.1 ∈ blocks.get l)
    (hinto' : ∀ f ∈ blocks.get l, ∀ q ∈ actMono (adjMono mono) f, q.1 ∈ blocks.get r) :
    ∃ S, computeBlocks realBuild blkOf blocks hpart l r [(mono, (1 : ℂ))] = .ok S ∧
      computeBlocks realBuild blkOf blocks hpart r l [(adjMono mono, (1 : ℂ))]
        = .ok (adjointCopy S) := by
  have h := container_annihilator_is_adjoint realBuild blkOf blocks hpart [(mono, (1 : ℂ))] l r
    hcls hndl hndr hdiml hdimr
    (fun f _ => mono1_single mono f)
    (fun f hf x hx => by
      obtain ⟨neg, hneg⟩ := mono1_mem mono f x hx
      exact hinto f hf (x.1, neg) hneg)
    (fun f _ x hx => mono1_integer mono f x hx)
    (fun f _ => by rw [adjPoly_mono1]; exact mono1_single _ f)
    (fun f hf x hx => by
      rw [adjPoly_mono1] at hx
      obtain ⟨neg, hneg⟩ := mono1_mem _ f x hx
      exact hinto' f hf (x.1, neg) hneg)
    (fun f _ x hx => by
      rw [adjPoly_mono1] at hx
      exact mono1_integer _ f x hx)
  rwa [adjPoly_mono1] at h

/-! ## 9. a concrete system: 2 modes, particle number conserved

Blocks `{00}`, `{01, 10}`, `{11}` (bit masks 0; 1, 2; 3).  The (unnormalised, complex) eigenvector
matrix of the middle block is `[[1, i], [i, 1]]`; the theorems do not need unitarity. -/

def exBlkOf : List ℕ := [0, 1, 1, 2]
def exBlocks : List (List ℕ) := [[0], [1, 2], [3]]
noncomputable def exHPart : ℕ → HPart ℂ
  | 1 => ⟨2, fun i j => if i = j then 1 else Complex.I⟩
  | _ => ⟨1, fun _ _ => 1⟩

theorem ex_cls : ∀ b s, s ∈ exBlocks.getD b [] → exBlkOf[s]? = some b := by
  intro b s h
  match b with
  | 0 => simp [exBlocks] at h; subst h; rfl
  | 1 => simp [exBlocks] at h; rcases h with rfl | rfl <;> rfl
  | 2 => simp [exBlocks] at h; subst h; rfl
  | b + 3 => simp [exBlocks] at h

/-- NON-VACUITY: the hypotheses of `fieldpart_is_rotated_block_mono` and of
`container_annihilator_is_adjoint_mono` hold for `c†_0` from the one-particle block into the
two-particle block (and for `c_0` back). -/
example : ∃ S, computeBlocks false exBlkOf exBlocks exHPart 2 1 [([⟨false, 0⟩], (1 : ℂ))] = .ok S ∧
    computeBlocks false exBlkOf exBlocks exHPart 1 2 [([⟨true, 0⟩], (1 : ℂ))]
      = .ok (adjointCopy S) :=
  container_annihilator_is_adjoint_mono false exBlkOf exBlocks exHPart [⟨false, 0⟩]
    (⟨2, by decide⟩ : Fin exBlocks.length) (⟨1, by decide⟩ : Fin exBlocks.length) ex_cls
    (by decide) (by decide) (by simp [exHPart, exBlocks]) (by simp [exHPart, exBlocks])
    (by decide) (by decide)

end Pomerol.Spec.FieldPartSpec
