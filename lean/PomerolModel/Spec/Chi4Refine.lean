/-
  The sparse world-line enumeration of `TwoParticleGFPart::compute` (`Model/Chi4Part.lean`) refines the
  sum over ALL quadruples of eigenstates of the Lehmann representation (`Spec/Chi4.lean`).

  Index conventions (those of the C++):  a world line is `(index1, index2, index3, index4)` with matrix
  elements `<1|O1|2> <2|O2|3> <3|O3|4> <4|CX4|1>`, i.e. `O1 i1 i2 * O2 i2 i3 * O3 i3 i4 * CX4 i4 i1`.
  O1 and O3 are read from their RowMajor copies (outer index = row = index1 resp. index3),
  O2 and CX4 from their ColMajor copies (outer index = column = index3 resp. index1).

  Main results
    chi4part_worldlines / chi4part_worldlines_source   the enumeration returns exactly `worldLinesSpec`
        (list equality, order of the source) for strictly increasing inner indices
    mem_worldLinesSpec_iff, worldLinesSpec_quad_nodup  which quadruples / none twice
    chi4part_sum_eq_full_sum(_keep)                    sum over visited world lines = full quadruple sum
    part_enumeration_refines_ordered_lehmann           ... = `orderedLehmann` (one block)
    parts_enumeration_refines_ordered_lehmann          ... = `orderedLehmann` (sum over block quadruples)
    chi_definition_is_sum_over_parts                   definition of chi = signed sum over permutations and parts
    storeRows_rowMajorOf                               every dense matrix has such a compressed copy
    compute_in_bounds                                  memory safety / termination for arbitrary storage
    unsorted_row_misses_worldline, duplicate_index_visited_once, inconsistent_outer_sizes_detected
        what happens outside the hypotheses (checked on the model by `decide`)
  No world line is missed or double-counted on inputs Eigen can produce (compressed storage keeps the
  inner indices strictly increasing); the hypotheses are needed only for storage Eigen never produces.
-/
import PomerolModel.Model.Chi4Part
import PomerolModel.Properties.C17
import PomerolModel.Spec.Chi4
import Mathlib.Algebra.BigOperators.Group.Finset.Basic
import Mathlib.Algebra.BigOperators.Ring.Finset
import Mathlib.Algebra.BigOperators.Fin
import Mathlib.Data.List.Nodup

namespace Pomerol.Spec.Chi4Refine
open Pomerol.Model Pomerol.Model.Chi4Part

/-! ### sorted compressed storage -/

/-- the inner indices of an outer vector are strictly increasing (Eigen's compressed storage) -/
def SortedVec {K : Type} (v : SpVec K) : Prop := Pomerol.Properties.C17.Sorted (storedIdx v)

/-- every outer vector of the matrix has strictly increasing inner indices -/
def SortedMat {K : Type} (m : SpMat K) : Prop := ∀ v ∈ m, SortedVec v

/-- the outer vector number `o` (empty beyond the outer size) -/
def vec {K : Type} (m : SpMat K) (o : Nat) : SpVec K := m.getD o []

theorem storedIdx_length {K : Type} (v : SpVec K) : (storedIdx v).length = v.length := by
  simp [storedIdx]

theorem storedIdx_getElem? {K : Type} (v : SpVec K) (p : Nat) :
    (storedIdx v)[p]? = (v[p]?).map Prod.fst := by
  simp [storedIdx]

theorem sortedVec_nil {K : Type} : SortedVec ([] : SpVec K) := List.Pairwise.nil

theorem sortedVec_vec {K : Type} {m : SpMat K} (hm : SortedMat m) (o : Nat) : SortedVec (vec m o) := by
  unfold vec
  rw [List.getD_eq_getElem?_getD]
  rcases h : m[o]? with _ | v
  · exact sortedVec_nil
  · exact hm v (List.mem_of_getElem? h)

theorem outerVec_eq {K : Type} (m : SpMat K) (o : Nat) (h : o < m.length) :
    outerVec m o = .ok (vec m o) := by
  unfold outerVec vec
  rw [List.getD_eq_getElem?_getD, List.getElem?_eq_getElem h]
  rfl

/-- in a sorted outer vector the value under the iterator is what `coeff` finds for its index -/
theorem coeffIn_of_getElem? {K : Type} [Zero K] :
    ∀ {v : SpVec K}, SortedVec v → ∀ {p x : Nat} {val : K}, v[p]? = some (x, val) → coeffIn v x = val := by
  intro v
  induction v with
  | nil => intro _ p x val h; simp at h
  | cons e t ih =>
    intro hs p x val h
    obtain ⟨y, w⟩ := e
    have hs' : (y :: storedIdx t).Pairwise (· < ·) := hs
    rw [List.pairwise_cons] at hs'
    cases p with
    | zero =>
      simp only [List.getElem?_cons_zero, Option.some.injEq, Prod.mk.injEq] at h
      obtain ⟨rfl, rfl⟩ := h
      simp [coeffIn, List.lookup]
    | succ p =>
      rw [List.getElem?_cons_succ] at h
      have hmem : x ∈ storedIdx t := by
        unfold storedIdx
        exact List.mem_map.mpr ⟨(x, val), List.mem_of_getElem? h, rfl⟩
      have hlt := hs'.1 x hmem
      have hne : (x == y) = false := by
        rw [beq_eq_false_iff_ne]; omega
      have := ih hs'.2 h
      unfold coeffIn at this ⊢
      rw [List.lookup_cons, hne]
      exact this

/-- `coeff` of an index that is not stored is 0 -/
theorem coeffIn_of_not_mem {K : Type} [Zero K] (v : SpVec K) (i : Nat) (h : i ∉ storedIdx v) :
    coeffIn v i = 0 := by
  induction v with
  | nil => rfl
  | cons e t ih =>
    obtain ⟨y, w⟩ := e
    have h' : i ∉ y :: storedIdx t := h
    rw [List.mem_cons, not_or] at h'
    have hne : (i == y) = false := by
      rw [beq_eq_false_iff_ne]; exact h'.1
    have := ih h'.2
    unfold coeffIn at this ⊢
    rw [List.lookup_cons, hne]
    exact this

/-- a stored entry of a sorted outer vector is what `coeff` returns -/
theorem coeffIn_of_mem {K : Type} [Zero K] {v : SpVec K} (hv : SortedVec v) {i : Nat} {x : K}
    (h : (i, x) ∈ v) : coeffIn v i = x := by
  obtain ⟨p, hp⟩ := List.getElem?_of_mem h
  exact coeffIn_of_getElem? hv hp

theorem mem_storedIdx_iff {K : Type} (v : SpVec K) (i : Nat) :
    i ∈ storedIdx v ↔ ∃ x, (i, x) ∈ v := by
  unfold storedIdx
  rw [List.mem_map]
  constructor
  · rintro ⟨⟨j, x⟩, hm, rfl⟩; exact ⟨x, hm⟩
  · rintro ⟨x, hm⟩; exact ⟨(i, x), hm, rfl⟩

/-! ### the walk with values is the index walk of `Model/Chase.lean` -/

/-- On sorted outer vectors the walk of `TwoParticleGFPart::compute` (which also reads the values under
the two iterators) visits the same inner indices as the index-only merge walk of `Model/Chase.lean`,
and the values it reads there are the stored entries. -/
theorem chaseWalk_eq_mergeWalk {K β : Type} [Zero K] (g : Bool) (a b : SpVec K) (ha : SortedVec a)
    (hb : SortedVec b) (body : Nat → K → K → List β) :
    ∀ fuel pa pb (accI : List Nat),
      chaseWalk g a b body fuel pa pb (accI.flatMap fun x => body x (coeffIn a x) (coeffIn b x))
        = (Chase.mergeWalk g (storedIdx a) (storedIdx b) fuel pa pb accI).map
            (fun l => l.flatMap fun x => body x (coeffIn a x) (coeffIn b x)) := by
  intro fuel
  induction fuel with
  | zero => intro pa pb accI; rfl
  | succ fuel ih =>
    intro pa pb accI
    rw [chaseWalk, Chase.mergeWalk, storedIdx_length, storedIdx_length]
    by_cases hstop : pa ≥ a.length ∨ pb ≥ b.length
    · rw [if_pos hstop, if_pos hstop]; rfl
    · rw [if_neg hstop, if_neg hstop]
      have h1 : pa < a.length := by omega
      have h2 : pb < b.length := by omega
      have hx : a[pa]? = some a[pa] := List.getElem?_eq_getElem h1
      have hy : b[pb]? = some b[pb] := List.getElem?_eq_getElem h2
      rcases hxa : a[pa] with ⟨x, va⟩
      rcases hyb : b[pb] with ⟨y, vb⟩
      rw [hxa] at hx
      rw [hyb] at hy
      have hix : Chase.indexAt (storedIdx a) pa = .ok x := by
        unfold Chase.indexAt; rw [storedIdx_getElem?, hx]; rfl
      have hiy : Chase.indexAt (storedIdx b) pb = .ok y := by
        unfold Chase.indexAt; rw [storedIdx_getElem?, hy]; rfl
      rw [hix, hiy, hx, hy]
      simp only
      by_cases hxy : x = y
      · subst hxy
        rw [if_pos rfl, if_pos rfl]
        have hva : coeffIn a x = va := coeffIn_of_getElem? ha hx
        have hvb : coeffIn b x = vb := coeffIn_of_getElem? hb hy
        rw [← ih (pa + 1) (pb + 1) (accI ++ [x])]
        congr 1
        simp [List.flatMap_append, hva, hvb]
      · rw [if_neg hxy, if_neg hxy]
        by_cases hlt : y < x
        · rw [if_pos hlt, if_pos hlt]
          rcases hadv : Chase.advance g (storedIdx b) x (b.length + 1) pb with e | pb'
          · rfl
          · exact ih pa pb' accI
        · rw [if_neg hlt, if_neg hlt]
          rcases hadv : Chase.advance g (storedIdx a) y (a.length + 1) pa with e | pa'
          · rfl
          · exact ih pa' pb accI

/-- the walk over two sorted outer vectors runs the body exactly on the common inner indices, in
increasing order, with the two stored values -/
theorem chase_sorted {K β : Type} [Zero K] (a b : SpVec K) (ha : SortedVec a) (hb : SortedVec b)
    (body : Nat → K → K → List β) :
    chase true a b body
      = .ok (((storedIdx a).filter (· ∈ storedIdx b)).flatMap
          fun x => body x (coeffIn a x) (coeffIn b x)) := by
  have h := chaseWalk_eq_mergeWalk true a b ha hb body (a.length + b.length + 1) 0 0 []
  have hc := Pomerol.Properties.C17.merge_walk_common (storedIdx a) (storedIdx b) ha hb
  unfold Chase.commonIndices at hc
  rw [storedIdx_length, storedIdx_length] at hc
  rw [hc] at h
  unfold chase
  rw [List.flatMap_nil] at h
  rw [h]
  rfl

/-- for the body that only records the index (the Index4List loop) the walk IS the merge walk of
`Model/Chase.lean`, for arbitrary outer vectors and either form of the advancing loops -/
theorem chaseWalk_indices_eq_mergeWalk {K : Type} (g : Bool) (a b : SpVec K) :
    ∀ fuel pa pb (acc : List Nat),
      chaseWalk g a b (fun x _ _ => [x]) fuel pa pb acc
        = Chase.mergeWalk g (storedIdx a) (storedIdx b) fuel pa pb acc := by
  intro fuel
  induction fuel with
  | zero => intro pa pb acc; rfl
  | succ fuel ih =>
    intro pa pb acc
    rw [chaseWalk, Chase.mergeWalk, storedIdx_length, storedIdx_length]
    by_cases hstop : pa ≥ a.length ∨ pb ≥ b.length
    · rw [if_pos hstop, if_pos hstop]
    · rw [if_neg hstop, if_neg hstop]
      have h1 : pa < a.length := by omega
      have h2 : pb < b.length := by omega
      have hx : a[pa]? = some a[pa] := List.getElem?_eq_getElem h1
      have hy : b[pb]? = some b[pb] := List.getElem?_eq_getElem h2
      rcases hxa : a[pa] with ⟨x, va⟩
      rcases hyb : b[pb] with ⟨y, vb⟩
      rw [hxa] at hx
      rw [hyb] at hy
      have hix : Chase.indexAt (storedIdx a) pa = .ok x := by
        unfold Chase.indexAt; rw [storedIdx_getElem?, hx]; rfl
      have hiy : Chase.indexAt (storedIdx b) pb = .ok y := by
        unfold Chase.indexAt; rw [storedIdx_getElem?, hy]; rfl
      rw [hix, hiy, hx, hy]
      simp only
      by_cases hxy : x = y
      · rw [if_pos hxy, if_pos hxy]; exact ih _ _ _
      · rw [if_neg hxy, if_neg hxy]
        by_cases hlt : y < x
        · rw [if_pos hlt, if_pos hlt]
          rcases hadv : Chase.advance g (storedIdx b) x (b.length + 1) pb with e | pb'
          · rfl
          · exact ih pa pb' acc
        · rw [if_neg hlt, if_neg hlt]
          rcases hadv : Chase.advance g (storedIdx a) y (a.length + 1) pa with e | pa'
          · rfl
          · exact ih pa' pb acc

/-- MEMORY SAFETY AND TERMINATION of the walk with values, for ARBITRARY outer vectors (sorted or not)
and any body: with the iterator tested first it never reads the index or value of an exhausted iterator
and finishes within its fuel -/
theorem chaseWalk_in_bounds {K β : Type} (a b : SpVec K) (body : Nat → K → K → List β) :
    ∀ fuel pa pb acc, pa ≤ a.length → pb ≤ b.length → (a.length - pa) + (b.length - pb) < fuel →
      ∃ r, chaseWalk true a b body fuel pa pb acc = .ok r := by
  intro fuel
  induction fuel with
  | zero => intro pa pb acc _ _ h; omega
  | succ fuel ih =>
    intro pa pb acc hpa hpb hm
    rw [chaseWalk]
    by_cases hstop : pa ≥ a.length ∨ pb ≥ b.length
    · rw [if_pos hstop]; exact ⟨acc, rfl⟩
    · rw [if_neg hstop]
      have h1 : pa < a.length := by omega
      have h2 : pb < b.length := by omega
      have hx : a[pa]? = some a[pa] := List.getElem?_eq_getElem h1
      have hy : b[pb]? = some b[pb] := List.getElem?_eq_getElem h2
      rcases hxa : a[pa] with ⟨x, va⟩
      rcases hyb : b[pb] with ⟨y, vb⟩
      rw [hxa] at hx
      rw [hyb] at hy
      have hix : (storedIdx a)[pa]? = some x := by rw [storedIdx_getElem?, hx]; rfl
      have hiy : (storedIdx b)[pb]? = some y := by rw [storedIdx_getElem?, hy]; rfl
      rw [hx, hy]
      simp only
      by_cases hxy : x = y
      · rw [if_pos hxy]; exact ih _ _ _ (by omega) (by omega) (by omega)
      · rw [if_neg hxy]
        by_cases hlt : y < x
        · rw [if_pos hlt]
          obtain ⟨pb', hadv, hp1, hp2, _, _⟩ :=
            Pomerol.Properties.C17.advance_progress (storedIdx b) x pb y hiy hlt
          rw [storedIdx_length] at hadv hp2
          rw [hadv]
          exact ih pa pb' acc hpa hp2 (by omega)
        · rw [if_neg hlt]
          obtain ⟨pa', hadv, hp1, hp2, _, _⟩ :=
            Pomerol.Properties.C17.advance_progress (storedIdx a) y pa x hix (by omega)
          rw [storedIdx_length] at hadv hp2
          rw [hadv]
          exact ih pa' pb acc hp2 hpb (by omega)

theorem chase_in_bounds {K β : Type} (a b : SpVec K) (body : Nat → K → K → List β) :
    ∃ r, chase true a b body = .ok r :=
  chaseWalk_in_bounds a b body _ 0 0 [] (Nat.zero_le _) (Nat.zero_le _) (by omega)

/-! ### the enumeration -/

/-- what one `(index1, index3)` cell must produce: all `index2` stored both in row index1 of O1 and in
column index3 of O2, and for each of them all `index4` stored both in row index3 of O3 and in column
index1 of CX4 (and passing the weight test), with the product of the four stored values -/
def cellSpec {K : Type} [Zero K] [Mul K] (keep : Nat → Nat → Nat → Nat → Bool)
    (o1row o2col o3row cx4col : SpVec K) (i1 i3 : Nat) : List (WorldLine K) :=
  ((storedIdx o1row).filter (· ∈ storedIdx o2col)).flatMap fun i2 =>
    (((storedIdx o3row).filter (· ∈ storedIdx cx4col)).filter (keep i1 i2 i3)).map fun i4 =>
      (i1, i2, i3, i4, coeffIn o1row i2 * coeffIn o2col i2 * coeffIn o3row i4 * coeffIn cx4col i4)

/-- the world lines the enumeration must visit, in the order of the source (index1, index3, index2, index4) -/
def worldLinesSpec {K : Type} [Zero K] [Mul K] (keep : Nat → Nat → Nat → Nat → Bool)
    (O1 O2 O3 CX4 : SpMat K) : List (WorldLine K) :=
  (List.range CX4.length).flatMap fun i1 => (List.range O2.length).flatMap fun i3 =>
    cellSpec keep (vec O1 i1) (vec O2 i3) (vec O3 i3) (vec CX4 i1) i1 i3

theorem forRange_ok {β : Type} (f : Nat → Except Err (List β)) (h : Nat → List β) :
    ∀ n, (∀ i, i < n → f i = .ok (h i)) → forRange f n = .ok ((List.range n).flatMap h) := by
  intro n
  induction n with
  | zero => intro _; rfl
  | succ n ih =>
    intro hf
    rw [forRange, ih (fun i hi => hf i (by omega)), hf n (by omega)]
    simp [List.range_succ, List.flatMap_append]

theorem cell_sorted {K : Type} [Zero K] [Mul K] (keep : Nat → Nat → Nat → Nat → Bool)
    (O1 O2 : SpMat K) (o3row cx4col : SpVec K) (i1 i3 : Nat)
    (h1 : SortedMat O1) (h2 : SortedMat O2) (h3 : SortedVec o3row) (h4 : SortedVec cx4col)
    (hi1 : i1 < O1.length) (hi3 : i3 < O2.length) :
    cell true keep O1 O2 o3row cx4col i1 i3
      = .ok (cellSpec keep (vec O1 i1) (vec O2 i3) o3row cx4col i1 i3) := by
  unfold cell
  rw [chase_sorted o3row cx4col h3 h4]
  simp only
  have hl : (((storedIdx o3row).filter (· ∈ storedIdx cx4col)).flatMap fun i4 => [i4])
      = (storedIdx o3row).filter (· ∈ storedIdx cx4col) := by
    simp
  rw [hl]
  by_cases hempty : ((storedIdx o3row).filter (· ∈ storedIdx cx4col)).isEmpty = true
  · rw [if_pos hempty]
    rw [List.isEmpty_iff] at hempty
    unfold cellSpec
    rw [hempty]
    simp
  · rw [if_neg hempty, outerVec_eq O2 i3 hi3, outerVec_eq O1 i1 hi1]
    simp only
    rw [chase_sorted (vec O1 i1) (vec O2 i3) (sortedVec_vec h1 i1) (sortedVec_vec h2 i3)]
    rfl

/-- THEOREM 1.  For compressed matrices with strictly increasing inner indices (and consistent outer
sizes: O1 has as many rows as CX4 has columns, O3 as many rows as O2 has columns) the enumeration of
`TwoParticleGFPart::compute` never fails and visits, in this order, exactly the list `worldLinesSpec`:
every quadruple whose four matrix elements are all stored (and which passes the weight test), with
the product of the four stored values. -/
theorem chi4part_worldlines {K : Type} [Zero K] [Mul K] (keep : Nat → Nat → Nat → Nat → Bool)
    (O1 O2 O3 CX4 : SpMat K) (h1 : SortedMat O1) (h2 : SortedMat O2) (h3 : SortedMat O3)
    (h4 : SortedMat CX4) (hrows1 : O1.length = CX4.length) (hrows3 : O3.length = O2.length) :
    compute true keep O1 O2 O3 CX4 = .ok (worldLinesSpec keep O1 O2 O3 CX4) := by
  unfold compute worldLinesSpec
  apply forRange_ok
  intro i1 hi1
  apply forRange_ok
  intro i3 hi3
  rw [outerVec_eq CX4 i1 hi1, outerVec_eq O3 i3 (by omega)]
  simp only
  exact cell_sorted keep O1 O2 _ _ i1 i3 h1 h2 (sortedVec_vec h3 i3) (sortedVec_vec h4 i1)
    (by omega) hi3

theorem forRange_in_bounds {β : Type} (f : Nat → Except Err (List β)) :
    ∀ n, (∀ i, i < n → ∃ r, f i = .ok r) → ∃ r, forRange f n = .ok r := by
  intro n
  induction n with
  | zero => intro _; exact ⟨[], rfl⟩
  | succ n ih =>
    intro hf
    obtain ⟨r, hr⟩ := ih (fun i hi => hf i (by omega))
    obtain ⟨s, hs⟩ := hf n (by omega)
    exact ⟨r ++ s, by rw [forRange, hr, hs]⟩

/-- MEMORY SAFETY of the whole enumeration, for ARBITRARY compressed matrices (sorted or not) with
consistent outer sizes: no iterator is opened on a non-existing outer vector, none is read past its end,
and all loops terminate -/
theorem compute_in_bounds {K : Type} [Zero K] [Mul K] (keep : Nat → Nat → Nat → Nat → Bool)
    (O1 O2 O3 CX4 : SpMat K) (hrows1 : O1.length = CX4.length) (hrows3 : O3.length = O2.length) :
    ∃ r, compute true keep O1 O2 O3 CX4 = .ok r := by
  unfold compute
  apply forRange_in_bounds
  intro i1 hi1
  apply forRange_in_bounds
  intro i3 hi3
  rw [outerVec_eq CX4 i1 hi1, outerVec_eq O3 i3 (by omega)]
  simp only
  unfold cell
  obtain ⟨l, hl⟩ := chase_in_bounds (vec O3 i3) (vec CX4 i1) (fun i4 _ _ => [i4])
  rw [hl]
  simp only
  by_cases hempty : l.isEmpty = true
  · rw [if_pos hempty]; exact ⟨[], rfl⟩
  · rw [if_neg hempty, outerVec_eq O2 i3 hi3, outerVec_eq O1 i1 (by omega)]
    simp only
    obtain ⟨r, hr⟩ := chase_in_bounds (vec O1 i1) (vec O2 i3) (fun i2 v1 v2 =>
      (l.filter (keep i1 i2 i3)).map fun i4 =>
        (i1, i2, i3, i4, v1 * v2 * coeffIn (vec O3 i3) i4 * coeffIn (vec CX4 i1) i4))
    rw [hr]
    exact ⟨r, rfl⟩

/-- why the outer sizes must agree: with more columns in CX4 than rows in O1 the source opens an iterator
on a non-existing row of O1 (undefined behaviour in C++; an explicit error in the model) -/
theorem inconsistent_outer_sizes_detected :
    compute (K := Nat) true (fun _ _ _ _ => true) [[(0, 1)]] [[(0, 1)]] [[(0, 1)]] [[(0, 1)], [(0, 1)]]
      = .error .outerOutOfRange := by
  decide

/-- the source tests the iterator first in both advancing loops of `chaseIndices` -/
theorem sourceGuardFirst_eq : sourceGuardFirst = true := by decide

/-- ... hence Theorem 1 holds for the enumeration as the source runs it -/
theorem chi4part_worldlines_source {K : Type} [Zero K] [Mul K] (keep : Nat → Nat → Nat → Nat → Bool)
    (O1 O2 O3 CX4 : SpMat K) (h1 : SortedMat O1) (h2 : SortedMat O2) (h3 : SortedMat O3)
    (h4 : SortedMat CX4) (hrows1 : O1.length = CX4.length) (hrows3 : O3.length = O2.length) :
    computeAsSource keep O1 O2 O3 CX4 = .ok (worldLinesSpec keep O1 O2 O3 CX4) := by
  unfold computeAsSource
  rw [sourceGuardFirst_eq]
  exact chi4part_worldlines keep O1 O2 O3 CX4 h1 h2 h3 h4 hrows1 hrows3

/-! ### the specification list: which quadruples, and each exactly once -/

theorem lt_length_of_mem_vec {K : Type} {m : SpMat K} {o : Nat} {e : Nat × K} (h : e ∈ vec m o) :
    o < m.length := by
  rcases Nat.lt_or_ge o m.length with hlt | hge
  · exact hlt
  · unfold vec at h
    rw [List.getD_eq_getElem?_getD, List.getElem?_eq_none hge] at h
    simp at h

/-- WHICH world lines are visited: exactly the quadruples for which all four matrix elements are stored
(`(inner index, value)` occurs in the respective outer vector) and which pass the weight test; the
recorded value is the product of the four stored values. -/
theorem mem_worldLinesSpec_iff {K : Type} [Zero K] [Mul K] (keep : Nat → Nat → Nat → Nat → Bool)
    (O1 O2 O3 CX4 : SpMat K) (h1 : SortedMat O1) (h2 : SortedMat O2) (h3 : SortedMat O3)
    (h4 : SortedMat CX4) (wl : WorldLine K) :
    wl ∈ worldLinesSpec keep O1 O2 O3 CX4 ↔
      ∃ i1 i2 i3 i4 v1 v2 v3 v4, (i2, v1) ∈ vec O1 i1 ∧ (i2, v2) ∈ vec O2 i3 ∧ (i4, v3) ∈ vec O3 i3 ∧
        (i4, v4) ∈ vec CX4 i1 ∧ keep i1 i2 i3 i4 = true ∧ wl = (i1, i2, i3, i4, v1 * v2 * v3 * v4) := by
  unfold worldLinesSpec cellSpec
  simp only [List.mem_flatMap, List.mem_range, List.mem_filter, List.mem_map, decide_eq_true_eq]
  constructor
  · rintro ⟨i1, hi1, i3, hi3, i2, ⟨hm1, hm2⟩, i4, ⟨⟨hm3, hm4⟩, hk⟩, rfl⟩
    obtain ⟨v1, hv1⟩ := (mem_storedIdx_iff _ _).mp hm1
    obtain ⟨v2, hv2⟩ := (mem_storedIdx_iff _ _).mp hm2
    obtain ⟨v3, hv3⟩ := (mem_storedIdx_iff _ _).mp hm3
    obtain ⟨v4, hv4⟩ := (mem_storedIdx_iff _ _).mp hm4
    refine ⟨i1, i2, i3, i4, v1, v2, v3, v4, hv1, hv2, hv3, hv4, hk, ?_⟩
    rw [coeffIn_of_mem (sortedVec_vec h1 i1) hv1, coeffIn_of_mem (sortedVec_vec h2 i3) hv2,
      coeffIn_of_mem (sortedVec_vec h3 i3) hv3, coeffIn_of_mem (sortedVec_vec h4 i1) hv4]
  · rintro ⟨i1, i2, i3, i4, v1, v2, v3, v4, hv1, hv2, hv3, hv4, hk, rfl⟩
    refine ⟨i1, lt_length_of_mem_vec hv4, i3, lt_length_of_mem_vec hv2, i2,
      ⟨(mem_storedIdx_iff _ _).mpr ⟨v1, hv1⟩, (mem_storedIdx_iff _ _).mpr ⟨v2, hv2⟩⟩, i4,
      ⟨⟨(mem_storedIdx_iff _ _).mpr ⟨v3, hv3⟩, (mem_storedIdx_iff _ _).mpr ⟨v4, hv4⟩⟩, hk⟩, ?_⟩
    rw [coeffIn_of_mem (sortedVec_vec h1 i1) hv1, coeffIn_of_mem (sortedVec_vec h2 i3) hv2,
      coeffIn_of_mem (sortedVec_vec h3 i3) hv3, coeffIn_of_mem (sortedVec_vec h4 i1) hv4]

theorem nodup_flatMap_of_key {α β γ : Type} (l : List α) (f : α → List β) (key : β → γ) (kx : α → γ)
    (hl : (l.map kx).Nodup) (hk : ∀ x ∈ l, ∀ y ∈ f x, key y = kx x) (hf : ∀ x ∈ l, (f x).Nodup) :
    (l.flatMap f).Nodup := by
  induction l with
  | nil => simp
  | cons x l ih =>
    rw [List.map_cons, List.nodup_cons] at hl
    rw [List.flatMap_cons, List.nodup_append]
    refine ⟨hf x List.mem_cons_self, ih hl.2 (fun x' hx' => hk x' (List.mem_cons_of_mem _ hx'))
      (fun x' hx' => hf x' (List.mem_cons_of_mem _ hx')), ?_⟩
    intro a ha b hb hab
    subst hab
    obtain ⟨x', hx', hb'⟩ := List.mem_flatMap.mp hb
    have e1 := hk x List.mem_cons_self a ha
    have e2 := hk x' (List.mem_cons_of_mem _ hx') a hb'
    apply hl.1
    rw [← e1, e2]
    exact List.mem_map_of_mem hx'

theorem nodup_storedIdx {K : Type} {v : SpVec K} (hv : SortedVec v) : (storedIdx v).Nodup :=
  List.Pairwise.imp (fun h => Nat.ne_of_lt h) hv

/-- the index quadruple of a world line -/
def quad {K : Type} (wl : WorldLine K) : Nat × Nat × Nat × Nat := (wl.1, wl.2.1, wl.2.2.1, wl.2.2.2.1)

/-- EACH EXACTLY ONCE: no index quadruple occurs twice in the specification list (hence, by Theorem 1,
none is visited twice by the enumeration) -/
theorem worldLinesSpec_quad_nodup {K : Type} [Zero K] [Mul K] (keep : Nat → Nat → Nat → Nat → Bool)
    (O1 O2 O3 CX4 : SpMat K) (h1 : SortedMat O1) (h3 : SortedMat O3) :
    ((worldLinesSpec keep O1 O2 O3 CX4).map quad).Nodup := by
  unfold worldLinesSpec cellSpec
  simp only [List.map_flatMap, List.map_map]
  refine nodup_flatMap_of_key _ _ (fun q => q.1) id ?_ ?_ ?_
  · rw [List.map_id]; exact List.nodup_range
  · intro i1 _ q hq
    simp only [List.mem_flatMap, List.mem_map, Function.comp] at hq
    obtain ⟨_, _, _, _, _, _, rfl⟩ := hq
    rfl
  intro i1 _
  refine nodup_flatMap_of_key _ _ (fun q => q.2.2.1) id ?_ ?_ ?_
  · rw [List.map_id]; exact List.nodup_range
  · intro i3 _ q hq
    simp only [List.mem_flatMap, List.mem_map, Function.comp] at hq
    obtain ⟨_, _, _, _, rfl⟩ := hq
    rfl
  intro i3 _
  refine nodup_flatMap_of_key _ _ (fun q => q.2.1) id ?_ ?_ ?_
  · rw [List.map_id]
    exact List.Nodup.filter _ (nodup_storedIdx (sortedVec_vec h1 i1))
  · intro i2 _ q hq
    simp only [List.mem_map, Function.comp] at hq
    obtain ⟨_, _, rfl⟩ := hq
    rfl
  intro i2 _
  refine List.Nodup.map ?_ (List.Nodup.filter _ (List.Nodup.filter _
    (nodup_storedIdx (sortedVec_vec h3 i3))))
  intro a b hab
  simp only [Function.comp, quad, Prod.mk.injEq] at hab
  exact hab.2.2.2

/-! ### sortedness is needed: what the walk does on an unsorted or duplicated outer vector -/

/-- If a row of O1 were stored with decreasing inner indices, the chase would MISS a world line:
row 0 of O1 = {1 ↦ 1, 0 ↦ 1} (in this order), column 0 of O2 = {0 ↦ 1, 1 ↦ 1}; both index2 = 0 and
index2 = 1 have all four entries stored, but only index2 = 1 is visited.  (Eigen's compressed
storage keeps inner indices increasing, so this does not happen with the library's matrices.) -/
theorem unsorted_row_misses_worldline :
    compute (K := Nat) true (fun _ _ _ _ => true) [[(1, 1), (0, 1)]] [[(0, 1), (1, 1)]] [[(0, 1)]] [[(0, 1)]]
      = .ok [(0, 1, 0, 0, 1)] ∧
    worldLinesSpec (K := Nat) (fun _ _ _ _ => true) [[(1, 1), (0, 1)]] [[(0, 1), (1, 1)]] [[(0, 1)]] [[(0, 1)]]
      = [(0, 1, 0, 0, 1), (0, 0, 0, 0, 1)] := by
  decide

/-- a duplicated inner index is visited once by the walk (the iterators are advanced together after a
match), while the filter specification would list it twice: strictness of the order is needed too -/
theorem duplicate_index_visited_once :
    compute (K := Nat) true (fun _ _ _ _ => true) [[(0, 2), (0, 3)]] [[(0, 1)]] [[(0, 1)]] [[(0, 1)]]
      = .ok [(0, 0, 0, 0, 2)] ∧
    worldLinesSpec (K := Nat) (fun _ _ _ _ => true) [[(0, 2), (0, 3)]] [[(0, 1)]] [[(0, 1)]] [[(0, 1)]]
      = [(0, 0, 0, 0, 2), (0, 0, 0, 0, 2)] := by
  decide

/-! ### sums over the visited world lines -/

section sums
open Finset
variable {K : Type} [Semiring K]

theorem sum_map_range (f : ℕ → K) (n : ℕ) : ((List.range n).map f).sum = ∑ i ∈ range n, f i := by
  induction n with
  | zero => simp
  | succ n ih => rw [List.range_succ, List.map_append, List.sum_append, ih, Finset.sum_range_succ]; simp

theorem sum_map_flatMap {α β : Type} (l : List α) (f : α → List β) (W : β → K) :
    ((l.flatMap f).map W).sum = (l.map fun x => ((f x).map W).sum).sum := by
  induction l with
  | nil => simp
  | cons x l ih => simp [List.flatMap_cons, List.sum_append, ih]

/-- a sum over the stored indices is a sum over all indices with the absent ones contributing 0 -/
theorem sum_map_sparse (l : List ℕ) (hl : l.Nodup) (n : ℕ) (hn : ∀ i ∈ l, i < n) (h : ℕ → K) :
    (l.map h).sum = ∑ i ∈ range n, if i ∈ l then h i else 0 := by
  rw [← List.sum_toFinset h hl, ← Finset.sum_filter]
  apply Finset.sum_congr _ (fun _ _ => rfl)
  ext i
  simp only [List.mem_toFinset, Finset.mem_filter, Finset.mem_range]
  exact ⟨fun hi => ⟨hn i hi, hi⟩, fun hi => hi.2⟩

/-- the weight with which a world line enters a sum: `g` of its four indices times its matrix-element product -/
def weighted (g : ℕ → ℕ → ℕ → ℕ → K) (wl : WorldLine K) : K :=
  g wl.1 wl.2.1 wl.2.2.1 wl.2.2.2.1 * wl.2.2.2.2

theorem cellSpec_sum (keep : ℕ → ℕ → ℕ → ℕ → Bool) (g : ℕ → ℕ → ℕ → ℕ → K)
    (r1 c2 r3 c4 : SpVec K) (i1 i3 n2 n4 : ℕ) (hs1 : SortedVec r1) (hs3 : SortedVec r3)
    (hb1 : ∀ i ∈ storedIdx r1, i < n2) (hb3 : ∀ i ∈ storedIdx r3, i < n4) :
    ((cellSpec keep r1 c2 r3 c4 i1 i3).map (weighted g)).sum
      = ∑ i2 ∈ range n2, ∑ i4 ∈ range n4,
          (if keep i1 i2 i3 i4 then g i1 i2 i3 i4 else 0)
            * coeffIn r1 i2 * coeffIn c2 i2 * coeffIn r3 i4 * coeffIn c4 i4 := by
  unfold cellSpec
  rw [sum_map_flatMap,
    sum_map_sparse _ (List.Nodup.filter _ (nodup_storedIdx hs1)) n2
      (fun i hi => hb1 i (List.mem_of_mem_filter hi))]
  apply Finset.sum_congr rfl
  intro i2 _
  by_cases hm : i2 ∈ (storedIdx r1).filter (· ∈ storedIdx c2)
  · rw [if_pos hm, List.map_map,
      sum_map_sparse _ (List.Nodup.filter _ (List.Nodup.filter _ (nodup_storedIdx hs3))) n4
        (fun i hi => hb3 i (List.mem_of_mem_filter (List.mem_of_mem_filter hi)))]
    apply Finset.sum_congr rfl
    intro i4 _
    simp only [List.mem_filter, decide_eq_true_eq, Function.comp, weighted]
    by_cases hk : keep i1 i2 i3 i4 = true
    · by_cases h3 : i4 ∈ storedIdx r3
      · by_cases h4 : i4 ∈ storedIdx c4
        · rw [if_pos ⟨⟨h3, h4⟩, hk⟩, if_pos hk]
          simp only [mul_assoc]
        · rw [if_neg (fun h => h4 h.1.2), coeffIn_of_not_mem c4 i4 h4, mul_zero]
      · rw [if_neg (fun h => h3 h.1.1), coeffIn_of_not_mem r3 i4 h3, mul_zero, zero_mul]
    · rw [if_neg (fun h => hk h.2), if_neg hk]
      simp only [zero_mul]
  · rw [if_neg hm]
    symm
    apply Finset.sum_eq_zero
    intro i4 _
    simp only [List.mem_filter, decide_eq_true_eq, not_and] at hm
    by_cases h1 : i2 ∈ storedIdx r1
    · rw [coeffIn_of_not_mem c2 i2 (hm h1)]
      simp only [mul_zero, zero_mul]
    · rw [coeffIn_of_not_mem r1 i2 h1]
      simp only [mul_zero, zero_mul]

/-- the weighted sum over the specification list, as a full sum over index ranges (all bounds in
natural numbers; `n2`, `n4` bound the inner indices of O1 resp. O3) -/
theorem worldLinesSpec_sum (keep : ℕ → ℕ → ℕ → ℕ → Bool) (g : ℕ → ℕ → ℕ → ℕ → K)
    (O1 O2 O3 CX4 : SpMat K) (n2 n4 : ℕ) (h1 : SortedMat O1) (h3 : SortedMat O3)
    (hb1 : ∀ v ∈ O1, ∀ i ∈ storedIdx v, i < n2) (hb3 : ∀ v ∈ O3, ∀ i ∈ storedIdx v, i < n4) :
    ((worldLinesSpec keep O1 O2 O3 CX4).map (weighted g)).sum
      = ∑ i1 ∈ range CX4.length, ∑ i2 ∈ range n2, ∑ i3 ∈ range O2.length, ∑ i4 ∈ range n4,
          (if keep i1 i2 i3 i4 then g i1 i2 i3 i4 else 0)
            * coeffIn (vec O1 i1) i2 * coeffIn (vec O2 i3) i2
            * coeffIn (vec O3 i3) i4 * coeffIn (vec CX4 i1) i4 := by
  have hbv : ∀ (m : SpMat K) (n : ℕ), (∀ v ∈ m, ∀ i ∈ storedIdx v, i < n) →
      ∀ o, ∀ i ∈ storedIdx (vec m o), i < n := by
    intro m n hb o i hi
    unfold vec at hi
    rw [List.getD_eq_getElem?_getD] at hi
    rcases hmo : m[o]? with _ | v
    · rw [hmo] at hi; simp [storedIdx] at hi
    · rw [hmo] at hi; exact hb v (List.mem_of_getElem? hmo) i hi
  unfold worldLinesSpec
  rw [sum_map_flatMap, sum_map_range]
  apply Finset.sum_congr rfl
  intro i1 _
  rw [sum_map_flatMap, sum_map_range, Finset.sum_comm]
  apply Finset.sum_congr rfl
  intro i3 _
  exact cellSpec_sum keep g _ _ _ _ i1 i3 n2 n4 (sortedVec_vec h1 i1) (sortedVec_vec h3 i3)
    (hbv O1 n2 hb1 i1) (hbv O3 n4 hb3 i3)

end sums

/-! ### dense matrices and their compressed copies -/

section dense
open Finset Matrix
variable {K : Type} [Semiring K]

/-- the RowMajor compressed matrix `m` represents the dense `r × c` matrix `A`: one outer vector per row,
strictly increasing inner (column) indices, all below `c`; a stored value is the entry, an entry that is
not stored is 0 (`A i j = m.coeff(i, j)`) -/
structure RowMajorOf (m : SpMat K) {r c : ℕ} (A : Matrix (Fin r) (Fin c) K) : Prop where
  outerSize : m.length = r
  sorted : SortedMat m
  innerLt : ∀ v ∈ m, ∀ i ∈ storedIdx v, i < c
  entry : ∀ (i : Fin r) (j : Fin c), A i j = coeffIn (vec m i) j

/-- the ColMajor compressed matrix `m` represents `A`: one outer vector per COLUMN, inner index = row
(`A i j = coeffIn (vec m j) i`) -/
def ColMajorOf (m : SpMat K) {r c : ℕ} (A : Matrix (Fin r) (Fin c) K) : Prop := RowMajorOf m Aᵀ

/-- THEOREM 2 (with the weight test).  If the four compressed matrices represent dense matrices
`O1 : n1 × n2` (RowMajor), `O2 : n2 × n3` (ColMajor), `O3 : n3 × n4` (RowMajor), `CX4 : n4 × n1`
(ColMajor), then the enumeration of the source succeeds, and for every weight function `g` the sum of
`g i1 i2 i3 i4 · (product of the four values)` over the visited world lines equals the sum over ALL
quadruples `(i1, i2, i3, i4)` of `g · <1|O1|2> <2|O2|3> <3|O3|4> <4|CX4|1>` restricted to the
quadruples passing the weight test. -/
theorem chi4part_sum_eq_full_sum_keep {n1 n2 n3 n4 : ℕ}
    (A1 : Matrix (Fin n1) (Fin n2) K) (A2 : Matrix (Fin n2) (Fin n3) K)
    (A3 : Matrix (Fin n3) (Fin n4) K) (X4 : Matrix (Fin n4) (Fin n1) K)
    (O1 O2 O3 CX4 : SpMat K) (h1 : RowMajorOf O1 A1) (h2 : ColMajorOf O2 A2)
    (h3 : RowMajorOf O3 A3) (h4 : ColMajorOf CX4 X4)
    (keep : ℕ → ℕ → ℕ → ℕ → Bool) (g : ℕ → ℕ → ℕ → ℕ → K) :
    ∃ wls, computeAsSource keep O1 O2 O3 CX4 = .ok wls ∧
      (wls.map (weighted g)).sum
        = ∑ i1 : Fin n1, ∑ i2 : Fin n2, ∑ i3 : Fin n3, ∑ i4 : Fin n4,
            (if keep i1 i2 i3 i4 then g i1 i2 i3 i4 else 0)
              * A1 i1 i2 * A2 i2 i3 * A3 i3 i4 * X4 i4 i1 := by
  refine ⟨_, chi4part_worldlines_source keep O1 O2 O3 CX4 h1.sorted h2.sorted h3.sorted h4.sorted
    (by rw [h1.outerSize, h4.outerSize]) (by rw [h3.outerSize, h2.outerSize]), ?_⟩
  rw [worldLinesSpec_sum keep g O1 O2 O3 CX4 n2 n4 h1.sorted h3.sorted h1.innerLt h3.innerLt,
    h4.outerSize, h2.outerSize, Finset.sum_range]
  apply Finset.sum_congr rfl; intro i1 _
  rw [Finset.sum_range]
  apply Finset.sum_congr rfl; intro i2 _
  rw [Finset.sum_range]
  apply Finset.sum_congr rfl; intro i3 _
  rw [Finset.sum_range]
  apply Finset.sum_congr rfl; intro i4 _
  rw [h1.entry i1 i2, h3.entry i3 i4]
  have e2 := h2.entry i3 i2
  have e4 := h4.entry i1 i4
  rw [Matrix.transpose_apply] at e2 e4
  rw [e2, e4]

/-- THEOREM 2.  THE SPARSE ENUMERATION LOSES NOTHING AND ADDS NOTHING: without weight cut-off, the sum over
the visited world lines of `g · product` is the full quadruple sum
`∑ i1 i2 i3 i4, g i1 i2 i3 i4 * O1 i1 i2 * O2 i2 i3 * O3 i3 i4 * CX4 i4 i1`
(index conventions of the C++: `<1|O1|2><2|O2|3><3|O3|4><4|CX4|1>`). -/
theorem chi4part_sum_eq_full_sum {n1 n2 n3 n4 : ℕ}
    (A1 : Matrix (Fin n1) (Fin n2) K) (A2 : Matrix (Fin n2) (Fin n3) K)
    (A3 : Matrix (Fin n3) (Fin n4) K) (X4 : Matrix (Fin n4) (Fin n1) K)
    (O1 O2 O3 CX4 : SpMat K) (h1 : RowMajorOf O1 A1) (h2 : ColMajorOf O2 A2)
    (h3 : RowMajorOf O3 A3) (h4 : ColMajorOf CX4 X4) (g : ℕ → ℕ → ℕ → ℕ → K) :
    ∃ wls, computeAsSource (fun _ _ _ _ => true) O1 O2 O3 CX4 = .ok wls ∧
      (wls.map (weighted g)).sum
        = ∑ i1 : Fin n1, ∑ i2 : Fin n2, ∑ i3 : Fin n3, ∑ i4 : Fin n4,
            g i1 i2 i3 i4 * A1 i1 i2 * A2 i2 i3 * A3 i3 i4 * X4 i4 i1 := by
  obtain ⟨wls, hw, hs⟩ :=
    chi4part_sum_eq_full_sum_keep A1 A2 A3 X4 O1 O2 O3 CX4 h1 h2 h3 h4 (fun _ _ _ _ => true) g
  refine ⟨wls, hw, ?_⟩
  rw [hs]
  simp only [if_true]

/-- the compressed RowMajor copy of a dense matrix in which exactly the entries with `keepEntry` are
stored (`sparseView`/`prune`): row by row, increasing column index -/
def storeRows {r c : ℕ} (keepEntry : K → Bool) (A : Matrix (Fin r) (Fin c) K) : SpMat K :=
  (List.finRange r).map fun i =>
    ((List.finRange c).map fun j => (j.val, A i j)).filter fun e => keepEntry e.2

/-- NON-VACUITY of the representation hypotheses: every dense matrix is represented by its pruned
compressed copy, provided only zeros are pruned (in particular by the copy storing every entry) -/
theorem storeRows_rowMajorOf {r c : ℕ} (keepEntry : K → Bool) (hk : ∀ x, keepEntry x = false → x = 0)
    (A : Matrix (Fin r) (Fin c) K) : RowMajorOf (storeRows keepEntry A) A := by
  have hfull : ∀ i : Fin r, storedIdx ((List.finRange c).map fun j => (j.val, A i j)) = List.range c := by
    intro i
    unfold storedIdx
    rw [List.map_map]
    exact List.map_coe_finRange_eq_range
  have hsub : ∀ i : Fin r, List.Sublist
      (storedIdx (((List.finRange c).map fun j => (j.val, A i j)).filter fun e => keepEntry e.2))
      (List.range c) := by
    intro i
    rw [← hfull i]
    exact List.Sublist.map _ List.filter_sublist
  have hvec : ∀ i : Fin r, vec (storeRows keepEntry A) i
      = ((List.finRange c).map fun j => (j.val, A i j)).filter fun e => keepEntry e.2 := by
    intro i
    unfold vec storeRows
    rw [List.getD_eq_getElem?_getD, List.getElem?_map, List.getElem?_eq_getElem (by simp)]
    simp
  have hsorted : SortedMat (storeRows keepEntry A) := by
    intro v hv
    unfold storeRows at hv
    obtain ⟨i, _, rfl⟩ := List.mem_map.mp hv
    exact List.Pairwise.sublist (hsub i) List.pairwise_lt_range
  refine ⟨by simp [storeRows], hsorted, ?_, ?_⟩
  · intro v hv j hj
    unfold storeRows at hv
    obtain ⟨i, _, rfl⟩ := List.mem_map.mp hv
    exact List.mem_range.mp ((hsub i).subset hj)
  · intro i j
    by_cases hkeep : keepEntry (A i j) = true
    · symm
      apply coeffIn_of_mem (sortedVec_vec hsorted i)
      rw [hvec i, List.mem_filter]
      exact ⟨List.mem_map.mpr ⟨j, List.mem_finRange j, rfl⟩, hkeep⟩
    · rw [coeffIn_of_not_mem]
      · exact hk _ (by simpa using hkeep)
      · rw [hvec i, mem_storedIdx_iff]
        rintro ⟨x, hx⟩
        rw [List.mem_filter] at hx
        obtain ⟨j', _, hj'⟩ := List.mem_map.mp hx.1
        simp only [Prod.mk.injEq] at hj'
        have : j' = j := Fin.ext hj'.1
        subst this
        rw [← hj'.2] at hx
        exact hkeep hx.2

/-- ... and the ColMajor copy is the RowMajor copy of the transpose -/
theorem storeRows_colMajorOf {r c : ℕ} (keepEntry : K → Bool) (hk : ∀ x, keepEntry x = false → x = 0)
    (A : Matrix (Fin r) (Fin c) K) : ColMajorOf (storeRows keepEntry Aᵀ) A :=
  storeRows_rowMajorOf keepEntry hk Aᵀ

end dense

/-! ### connection with the per-ordering Lehmann sum of `Spec/Chi4.lean` -/

section lehmann
open Finset Matrix Pomerol.Spec

/-- extension by 0 of a function on `Fin n` to all natural numbers (world lines carry natural numbers) -/
def natExt {n : ℕ} (f : Fin n → ℝ) (i : ℕ) : ℝ := if h : i < n then f ⟨i, h⟩ else 0

theorem natExt_val {n : ℕ} (f : Fin n → ℝ) (i : Fin n) : natExt f i = f i := by
  unfold natExt
  rw [dif_pos i.isLt]

/-- the factor `addMultiterm` attaches to the matrix-element product of the world line `(i1,i2,i3,i4)`:
the library's multi-term with the level differences and weights of the four states -/
noncomputable def lehmannWeight {n : ℕ} (d : EigenData (Fin n)) (za zb zc : ℂ) (i1 i2 i3 i4 : ℕ) : ℂ :=
  multiTerm d.β za zb zc (natExt d.E i2 - natExt d.E i1) (natExt d.E i3 - natExt d.E i2)
    (natExt d.E i4 - natExt d.E i3) (natExt d.w i1) (natExt d.w i2) (natExt d.w i3) (natExt d.w i4)

/-- THEOREM 3 (one block = the whole state space).  The sum over the world lines visited by the
enumeration of `TwoParticleGFPart::compute` (no weight cut-off) of `product of matrix elements ×
multi-term` IS the per-ordering Lehmann sum `orderedLehmann` over all quadruples of eigenstates. -/
theorem part_enumeration_refines_ordered_lehmann {n : ℕ} (d : EigenData (Fin n))
    (A Bm Cc X : Matrix (Fin n) (Fin n) ℂ) (O1 O2 O3 CX4 : SpMat ℂ)
    (h1 : RowMajorOf O1 A) (h2 : ColMajorOf O2 Bm) (h3 : RowMajorOf O3 Cc) (h4 : ColMajorOf CX4 X)
    (za zb zc : ℂ) :
    ∃ wls, computeAsSource (fun _ _ _ _ => true) O1 O2 O3 CX4 = .ok wls ∧
      (wls.map (weighted (lehmannWeight d za zb zc))).sum = d.orderedLehmann A Bm Cc X za zb zc := by
  obtain ⟨wls, hw, hs⟩ :=
    chi4part_sum_eq_full_sum A Bm Cc X O1 O2 O3 CX4 h1 h2 h3 h4 (lehmannWeight d za zb zc)
  refine ⟨wls, hw, ?_⟩
  rw [hs]
  unfold EigenData.orderedLehmann
  refine Finset.sum_congr rfl fun i1 _ => Finset.sum_congr rfl fun i2 _ =>
    Finset.sum_congr rfl fun i3 _ => Finset.sum_congr rfl fun i4 _ => ?_
  unfold lehmannWeight
  simp only [natExt_val]
  ring

/-- ... and hence the contribution of one time ordering to the DEFINITION (the ordered triple integral
of the four-operator correlator), at fermionic frequencies -/
theorem part_enumeration_is_ordered_integral {n : ℕ} (d : EigenData (Fin n))
    (A Bm Cc X : Matrix (Fin n) (Fin n) ℂ) (O1 O2 O3 CX4 : SpMat ℂ)
    (h1 : RowMajorOf O1 A) (h2 : ColMajorOf O2 Bm) (h3 : RowMajorOf O3 Cc) (h4 : ColMajorOf CX4 X)
    (za zb zc : ℂ) (ha : Complex.exp ((d.β:ℂ) * za) = -1) (hb : Complex.exp ((d.β:ℂ) * zb) = -1)
    (hc : Complex.exp ((d.β:ℂ) * zc) = -1) :
    ∃ wls, computeAsSource (fun _ _ _ _ => true) O1 O2 O3 CX4 = .ok wls ∧
      (wls.map (weighted (lehmannWeight d za zb zc))).sum = d.orderedIntegral A Bm Cc X za zb zc := by
  obtain ⟨wls, hw, hs⟩ :=
    part_enumeration_refines_ordered_lehmann d A Bm Cc X O1 O2 O3 CX4 h1 h2 h3 h4 za zb zc
  exact ⟨wls, hw, by rw [hs, ordered_lehmann d A Bm Cc X za zb zc ha hb hc]⟩

/-! #### several blocks: the state space is `Σ b, Fin (sz b)`, one part per quadruple of blocks -/

variable {B : Type} [Fintype B] {sz : B → ℕ}

theorem sum_pull2 {α β ι : Type} [Fintype α] [Fintype β] [Fintype ι] (f : α → β → ι → ℂ) :
    ∑ a, ∑ b, ∑ i, f a b i = ∑ i, ∑ a, ∑ b, f a b i :=
  (Finset.sum_congr rfl fun _ _ => Finset.sum_comm).trans Finset.sum_comm

theorem sum_pull3 {α β γ ι : Type} [Fintype α] [Fintype β] [Fintype γ] [Fintype ι]
    (f : α → β → γ → ι → ℂ) :
    ∑ a, ∑ b, ∑ c, ∑ i, f a b c i = ∑ i, ∑ a, ∑ b, ∑ c, f a b c i :=
  (Finset.sum_congr rfl fun _ _ => sum_pull2 _).trans Finset.sum_comm

/-- the `(b, b')` block of an operator on the block-structured state space -/
def blockOf (M : Matrix (Σ b, Fin (sz b)) (Σ b, Fin (sz b)) ℂ) (b b' : B) :
    Matrix (Fin (sz b)) (Fin (sz b')) ℂ := fun i j => M ⟨b, i⟩ ⟨b', j⟩

/-- the multi-term factor of a world line of the part `(b1, b2, b3, b4)`; indices are inner indices
within the blocks, the weights are the global Gibbs weights -/
noncomputable def blockWeight (d : EigenData (Σ b, Fin (sz b))) (za zb zc : ℂ) (b1 b2 b3 b4 : B)
    (i1 i2 i3 i4 : ℕ) : ℂ :=
  multiTerm d.β za zb zc
    (natExt (fun i => d.E ⟨b2, i⟩) i2 - natExt (fun i => d.E ⟨b1, i⟩) i1)
    (natExt (fun i => d.E ⟨b3, i⟩) i3 - natExt (fun i => d.E ⟨b2, i⟩) i2)
    (natExt (fun i => d.E ⟨b4, i⟩) i4 - natExt (fun i => d.E ⟨b3, i⟩) i3)
    (natExt (fun i => d.w ⟨b1, i⟩) i1) (natExt (fun i => d.w ⟨b2, i⟩) i2)
    (natExt (fun i => d.w ⟨b3, i⟩) i3) (natExt (fun i => d.w ⟨b4, i⟩) i4)

/-- the value accumulated by one part: sum over its visited world lines (0 if the enumeration failed) -/
noncomputable def partValue (d : EigenData (Σ b, Fin (sz b))) (za zb zc : ℂ) (b1 b2 b3 b4 : B)
    (O1 O2 O3 CX4 : SpMat ℂ) : ℂ :=
  match computeAsSource (fun _ _ _ _ => true) O1 O2 O3 CX4 with
  | .ok wls => (wls.map (weighted (blockWeight d za zb zc b1 b2 b3 b4))).sum
  | .error _ => 0

theorem partValue_eq (d : EigenData (Σ b, Fin (sz b))) (za zb zc : ℂ) (b1 b2 b3 b4 : B)
    (A Bm Cc X : Matrix (Σ b, Fin (sz b)) (Σ b, Fin (sz b)) ℂ) (O1 O2 O3 CX4 : SpMat ℂ)
    (h1 : RowMajorOf O1 (blockOf A b1 b2)) (h2 : ColMajorOf O2 (blockOf Bm b2 b3))
    (h3 : RowMajorOf O3 (blockOf Cc b3 b4)) (h4 : ColMajorOf CX4 (blockOf X b4 b1)) :
    partValue d za zb zc b1 b2 b3 b4 O1 O2 O3 CX4
      = ∑ i1 : Fin (sz b1), ∑ i2 : Fin (sz b2), ∑ i3 : Fin (sz b3), ∑ i4 : Fin (sz b4),
          A ⟨b1, i1⟩ ⟨b2, i2⟩ * Bm ⟨b2, i2⟩ ⟨b3, i3⟩ * Cc ⟨b3, i3⟩ ⟨b4, i4⟩ * X ⟨b4, i4⟩ ⟨b1, i1⟩ *
            multiTerm d.β za zb zc (d.E ⟨b2, i2⟩ - d.E ⟨b1, i1⟩) (d.E ⟨b3, i3⟩ - d.E ⟨b2, i2⟩)
              (d.E ⟨b4, i4⟩ - d.E ⟨b3, i3⟩) (d.w ⟨b1, i1⟩) (d.w ⟨b2, i2⟩) (d.w ⟨b3, i3⟩)
              (d.w ⟨b4, i4⟩) := by
  obtain ⟨wls, hw, hs⟩ := chi4part_sum_eq_full_sum _ _ _ _ O1 O2 O3 CX4 h1 h2 h3 h4
    (blockWeight d za zb zc b1 b2 b3 b4)
  unfold partValue
  rw [hw]
  simp only
  rw [hs]
  refine Finset.sum_congr rfl fun i1 _ => Finset.sum_congr rfl fun i2 _ =>
    Finset.sum_congr rfl fun i3 _ => Finset.sum_congr rfl fun i4 _ => ?_
  unfold blockWeight blockOf
  simp only [natExt_val]
  ring

/-- THEOREM 3 (block form, as the library is organised).  The state space is split into blocks; every
operator is stored block by block (`O1 b b'` = RowMajor copy of the `(b,b')` block of the first operator,
`O2 b b'` = ColMajor copy of the block of the second, ...; blocks without matrix elements are simply
empty compressed matrices).  Then the sum over ALL quadruples of blocks of the values accumulated by the
parts is the per-ordering Lehmann sum over all quadruples of eigenstates. -/
theorem parts_enumeration_refines_ordered_lehmann (d : EigenData (Σ b, Fin (sz b)))
    (A Bm Cc X : Matrix (Σ b, Fin (sz b)) (Σ b, Fin (sz b)) ℂ) (O1 O2 O3 CX4 : B → B → SpMat ℂ)
    (h1 : ∀ b b', RowMajorOf (O1 b b') (blockOf A b b'))
    (h2 : ∀ b b', ColMajorOf (O2 b b') (blockOf Bm b b'))
    (h3 : ∀ b b', RowMajorOf (O3 b b') (blockOf Cc b b'))
    (h4 : ∀ b b', ColMajorOf (CX4 b b') (blockOf X b b')) (za zb zc : ℂ) :
    ∑ b1, ∑ b2, ∑ b3, ∑ b4,
        partValue d za zb zc b1 b2 b3 b4 (O1 b1 b2) (O2 b2 b3) (O3 b3 b4) (CX4 b4 b1)
      = d.orderedLehmann A Bm Cc X za zb zc := by
  unfold EigenData.orderedLehmann
  simp only [partValue_eq d za zb zc _ _ _ _ A Bm Cc X _ _ _ _ (h1 _ _) (h2 _ _) (h3 _ _) (h4 _ _),
    Fintype.sum_sigma]
  -- reorder (b1,b2,b3,b4,i1,i2,i3,i4) into (b1,i1,b2,i2,b3,i3,b4,i4)
  refine Finset.sum_congr rfl fun b1 _ => ?_
  refine (sum_pull3 _).trans ?_
  refine Finset.sum_congr rfl fun i1 _ => Finset.sum_congr rfl fun b2 _ => ?_
  refine (sum_pull2 _).trans ?_
  refine Finset.sum_congr rfl fun i2 _ => Finset.sum_congr rfl fun b3 _ => ?_
  exact Finset.sum_comm

/-- CAPSTONE.  With every operator stored block by block in both major-nesses (`R k b b'` = RowMajor
copy, `C k b b'` = ColMajor copy of the `(b,b')` block of `O k`; `CX b b'` = ColMajor copy of the block of
`X`), the DEFINITION of the two-particle Green's function (signed sum over the six time orderings of the
ordered integrals) equals the signed sum over the six permutations and over all quadruples of blocks of
what the sparse enumeration of `TwoParticleGFPart::compute` accumulates -- at fermionic frequencies. -/
theorem chi_definition_is_sum_over_parts [DecidableEq B] (d : EigenData (Σ b, Fin (sz b)))
    (O : Fin 3 → Matrix (Σ b, Fin (sz b)) (Σ b, Fin (sz b)) ℂ)
    (X : Matrix (Σ b, Fin (sz b)) (Σ b, Fin (sz b)) ℂ)
    (R C : Fin 3 → B → B → SpMat ℂ) (CX : B → B → SpMat ℂ)
    (hR : ∀ k b b', RowMajorOf (R k b b') (blockOf (O k) b b'))
    (hC : ∀ k b b', ColMajorOf (C k b b') (blockOf (O k) b b'))
    (hX : ∀ b b', ColMajorOf (CX b b') (blockOf X b b'))
    (z : Fin 3 → ℂ) (hz : ∀ k, Complex.exp ((d.β:ℂ) * z k) = -1) :
    d.chiDef O X z
      = (perms3.map fun p => (p.2 : ℂ) * ∑ b1, ∑ b2, ∑ b3, ∑ b4,
          partValue d (z (p.1 0)) (z (p.1 1)) (z (p.1 2)) b1 b2 b3 b4
            (R (p.1 0) b1 b2) (C (p.1 1) b2 b3) (R (p.1 2) b3 b4) (CX b4 b1)).sum := by
  rw [chi_lehmann d O X z hz]
  unfold EigenData.chiLehmann
  congr 1
  apply List.map_congr_left
  intro p _
  rw [parts_enumeration_refines_ordered_lehmann d (O (p.1 0)) (O (p.1 1)) (O (p.1 2)) X
    (R (p.1 0)) (C (p.1 1)) (R (p.1 2)) CX (hR _) (hC _) (hR _) hX]

end lehmann

end Pomerol.Spec.Chi4Refine
