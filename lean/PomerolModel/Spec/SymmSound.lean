/-
  Soundness of `Symmetrizer::checkSymmetry` (model `checkSymmetry`) with exact coefficient tests
  over a field: an accepted operator commutes with H, is diagonal in the Fock basis, its diagonal
  values ("quantum numbers") are constant on the connected components of H, and it is additive
  under `c†_i`, `c_i`, `c†_i c_j` (the single-target property used by `FieldOperator`).
-/
import PomerolModel.Spec.OpAlgebra
import PomerolModel.Model.Symm
import Mathlib.Tactic.LinearCombination

namespace Pomerol.Spec.SymmSound
open Pomerol.Model Pomerol.Model.Symm Pomerol.Spec
open scoped Pomerol.Spec.Exact

/-! ### what `checkSymmetry … = .ok true` says -/

theorem except_bind_ok {ε α β : Type} (x : Except ε α) (g : α → Except ε β) (b : β)
    (h : x >>= g = .ok b) : ∃ a, x = .ok a ∧ g a = .ok b := by
  cases x with
  | error e => cases h
  | ok a => exact ⟨a, rfl, h⟩

/-- the short-circuiting `for` loops of `checkSymmetry` -/
theorem foldlM_all_ok {α ε : Type} (f : α → Except ε Bool) (l : List α) :
    ∀ b, l.foldlM (fun (ok : Bool) a => if !ok then pure false else f a) b = .ok true →
      b = true ∧ ∀ a ∈ l, f a = .ok true := by
  induction l with
  | nil =>
    intro b h
    simp only [List.foldlM_nil] at h
    cases h
    exact ⟨rfl, fun a ha => by cases ha⟩
  | cons x l ih =>
    intro b h
    rw [List.foldlM_cons] at h
    obtain ⟨b', h1, h2⟩ := except_bind_ok _ _ _ h
    obtain ⟨hb', hl⟩ := ih b' h2
    subst hb'
    cases b with
    | false => cases h1
    | true =>
      refine ⟨rfl, ?_⟩
      intro a ha
      rcases List.mem_cons.mp ha with rfl | ha
      · exact h1
      · exact hl a ha

section
variable {K : Type} [Add K] [Sub K] [Mul K] [Neg K] [One K] [CoefTest K]

theorem check_extract (H op : Poly K) (M : Nat) (h : checkSymmetry H M op = .ok true) :
    Poly.commutes true H op = some true ∧
    (∀ i, i < M → Poly.commutes true (opN i) op = some true) ∧
    (∀ i, i < M → ∃ comm, Poly.commutator op (opCdag i) = some comm ∧
      ∀ mc ∈ comm, mc.1 = [⟨false, i⟩]) := by
  unfold checkSymmetry at h
  simp only [Pomerol.Gen.Core.eqLengthTest, Pomerol.Gen.Core.additivityTest] at h
  split at h
  · cases h
  · cases h
  · rename_i hH
    refine ⟨hH, ?_⟩
    obtain ⟨ok1, h1, h2⟩ := except_bind_ok _ _ _ h
    obtain ⟨-, hN⟩ := foldlM_all_ok (fun i =>
      match Poly.commutes true (opN i) op with
      | none => (Except.error SymErr.ub : Except SymErr Bool)
      | some b => pure b) (List.range M) true (by
        cases ok1 with
        | true => exact h1
        | false => cases h2)
    have hok1 : ok1 = true := by
      cases ok1 with
      | true => rfl
      | false => cases h2
    subst hok1
    simp only [Bool.not_true, Bool.or_self, Bool.false_eq_true, if_false] at h2
    obtain ⟨-, hC⟩ := foldlM_all_ok (fun i =>
      match Poly.commutator op (opCdag i) with
      | none => (Except.error SymErr.fuel : Except SymErr Bool)
      | some comm => pure (comm.all fun mc => mc.1 == [⟨false, i⟩])) (List.range M) true h2
    constructor
    · intro i hi
      have := hN i (List.mem_range.mpr hi)
      split at this
      · cases this
      · rename_i b hb
        cases this
        exact hb
    · intro i hi
      have := hC i (List.mem_range.mpr hi)
      split at this
      · cases this
      · rename_i comm hcomm
        refine ⟨comm, hcomm, ?_⟩
        have hall : (comm.all fun mc => mc.1 == [⟨false, i⟩]) = true := Except.ok.inj this
        intro mc hmc
        have := List.all_eq_true.mp hall mc hmc
        exact eq_of_beq this

end

/-! ### semantics -/

section
variable {K : Type} [Field K] [DecidableEq K]

/-- all operators of the polynomial act on modes < M -/
def ModesLt (M : Nat) (p : Poly K) : Prop := ∀ mc ∈ p, ∀ o ∈ mc.1, o.idx < M

theorem commutes_sem (p q : Poly K) (h : Poly.commutes true p q = some true) :
    (jwRep K).poly p * (jwRep K).poly q = (jwRep K).poly q * (jwRep K).poly p := by
  unfold Poly.commutes at h
  simp only [Option.bind_eq_bind, Option.bind_eq_some_iff] at h
  obtain ⟨pq, hpq, qp, hqp, heq⟩ := h
  rw [eqCoded_true_iff] at heq
  subst heq
  exact (mul_sem (jwRep K) (jw_sq_c K) (jw_sq_cd K) _ _ _ hpq).symm.trans
    (mul_sem (jwRep K) (jw_sq_c K) (jw_sq_cd K) _ _ _ hqp)

/-- a monomial on modes `< M` leaves the bits `≥ M` alone -/
theorem actMono_high_bits (M : Nat) (m : Mono) (hm : ∀ o ∈ m, o.idx < M) (s s' : Nat) (neg : Bool)
    (h : actMono m s = some (s', neg)) (j : Nat) (hj : M ≤ j) : s'.testBit j = s.testBit j := by
  induction m generalizing s' neg with
  | nil =>
    simp only [actMono, Option.some.injEq, Prod.mk.injEq] at h
    rw [h.1]
  | cons o rest ih =>
    obtain ⟨s1, n1, n2, h1, h2⟩ := actMono_cons_some h
    have hrest := ih (fun o' ho' => hm o' (List.mem_cons_of_mem _ ho')) s1 n1 h1
    obtain ⟨-, hs'⟩ := actOp_some h2
    have ho : o.idx < M := hm o List.mem_cons_self
    rw [hs', testBit_flipBit, if_neg (by omega), hrest]

omit [DecidableEq K] in
theorem poly_high_bits (M : Nat) (p : Poly K) (hm : ModesLt M p) (s t : Nat)
    (h : ((jwRep K).poly p (Finsupp.single s 1)) t ≠ 0) (j : Nat) (hj : M ≤ j) :
    t.testBit j = s.testBit j := by
  induction p with
  | nil => simp at h
  | cons mc p ih =>
    obtain ⟨m, c⟩ := mc
    rw [poly_cons, LinearMap.add_apply, Finsupp.add_apply] at h
    by_cases h1 : ((c • (jwRep K).mono m) (Finsupp.single s 1)) t = 0
    · rw [h1, zero_add] at h
      exact ih (fun mc hmc => hm mc (List.mem_cons_of_mem _ hmc)) h
    · rw [LinearMap.smul_apply, Finsupp.smul_apply] at h1
      cases ha : actMono m s with
      | none =>
        rw [amp_none ha] at h1
        simp at h1
      | some q =>
        obtain ⟨s', neg⟩ := q
        rw [amp_some ha, Finsupp.single_apply] at h1
        by_cases hst : s' = t
        · subst hst
          exact actMono_high_bits M m (hm (m, c) List.mem_cons_self) s s' neg ha j hj
        · rw [if_neg hst] at h1
          simp at h1

omit [DecidableEq K] in
/-- `n_i` projects on the states with bit `i` set -/
theorem opN_apply (i : Nat) (v : Nat →₀ K) (t : Nat) :
    ((jwRep K).poly (opN (K := K) i) v) t = if t.testBit i then v t else 0 := by
  induction v using Finsupp.induction_linear with
  | zero => simp
  | add f g hf hg =>
    rw [map_add, Finsupp.add_apply, hf, hg, Finsupp.add_apply]
    split <;> simp
  | single u a =>
    rw [← Finsupp.smul_single_one, map_smul, opN_sem, Finsupp.smul_apply, Finsupp.smul_apply]
    by_cases hut : u = t
    · subst hut
      cases u.testBit i <;> simp
    · cases hu : u.testBit i <;> cases ht : t.testBit i <;> simp [hut]

/-- an operator on modes `< M` that commutes with every `n_i`, `i < M`, has no off-diagonal
matrix elements -/
theorem offdiag_zero (M : Nat) (op : Poly K) (hm : ModesLt M op)
    (hN : ∀ i, i < M → Poly.commutes true (opN i) op = some true) (s t : Nat)
    (hne : ((jwRep K).poly op (Finsupp.single s 1)) t ≠ 0) : t = s := by
  apply Nat.eq_of_testBit_eq
  intro j
  by_cases hj : j < M
  · have hc := commutes_sem (opN j) op (hN j hj)
    have h2 := congrArg (fun F : Module.End K (Nat →₀ K) => (F (Finsupp.single s 1)) t) hc
    simp only [Module.End.mul_apply] at h2
    rw [opN_apply, opN_sem] at h2
    cases hs : s.testBit j <;> cases ht : t.testBit j
    · rfl
    · rw [hs, ht] at h2
      simp only [if_true, Bool.false_eq_true, if_false, map_zero, Finsupp.zero_apply] at h2
      exact absurd h2 hne
    · rw [hs, ht] at h2
      simp only [if_true, Bool.false_eq_true, if_false] at h2
      exact absurd h2.symm hne
    · rfl
  · exact poly_high_bits M op hm s t hne j (by omega)

theorem op_single (M : Nat) (op : Poly K) (hm : ModesLt M op)
    (hN : ∀ i, i < M → Poly.commutes true (opN i) op = some true) (s : Nat) :
    (jwRep K).poly op (Finsupp.single s 1) = matrixElement op s s • Finsupp.single s 1 := by
  ext t
  by_cases hts : t = s
  · subst hts
    rw [Finsupp.smul_apply, Finsupp.single_eq_same, smul_eq_mul, mul_one, matrixElement_sem]
  · rw [Finsupp.smul_apply, Finsupp.single_eq_of_ne hts, smul_zero]
    exact Classical.byContradiction fun hne => hts (offdiag_zero M op hm hN s t hne)

theorem op_apply (M : Nat) (op : Poly K) (hm : ModesLt M op)
    (hN : ∀ i, i < M → Poly.commutes true (opN i) op = some true) (v : Nat →₀ K) (t : Nat) :
    ((jwRep K).poly op v) t = matrixElement op t t * v t := by
  induction v using Finsupp.induction_linear with
  | zero => simp
  | add f g hf hg => rw [map_add, Finsupp.add_apply, hf, hg, Finsupp.add_apply, mul_add]
  | single u a =>
    rw [← Finsupp.smul_single_one, map_smul, op_single M op hm hN, Finsupp.smul_apply,
      Finsupp.smul_apply, Finsupp.smul_apply]
    by_cases hut : t = u
    · subst hut
      simp [mul_comm]
    · simp [Finsupp.single_eq_of_ne hut]

/-- an accepted integral of motion commutes with H as an operator on Fock space -/
theorem accepted_commutes_H (H op : Poly K) (M : Nat) (h : checkSymmetry H M op = .ok true) :
    (jwRep K).poly H * (jwRep K).poly op = (jwRep K).poly op * (jwRep K).poly H :=
  commutes_sem H op (check_extract H op M h).1

/-- it is diagonal in the Fock basis: the quantum number of a state is its eigenvalue
(true for every Fock state `s`; the bound `hs` is not needed) -/
theorem accepted_diagonal (H op : Poly K) (M : Nat) (hm : ModesLt M op)
    (h : checkSymmetry H M op = .ok true) (s : Nat) (hs : s < 2 ^ M) :
    (jwRep K).poly op (Finsupp.single s 1) = matrixElement op s s • Finsupp.single s 1 :=
  have _ := hs
  op_single M op hm (check_extract H op M h).2.1 s

/-- NO MATRIX ELEMENT OF H BETWEEN STATES WITH DIFFERENT QUANTUM NUMBERS (hence between
different blocks).  (`hmH`, `hs`, `ht` are not needed.) -/
theorem H_block_diagonal (H op : Poly K) (M : Nat) (hmH : ModesLt M H) (hm : ModesLt M op)
    (h : checkSymmetry H M op = .ok true) (s t : Nat) (hs : s < 2 ^ M) (ht : t < 2 ^ M)
    (hne : matrixElement H t s ≠ 0) : matrixElement op s s = matrixElement op t t := by
  have _ := hmH; have _ := hs; have _ := ht
  obtain ⟨hH, hN, -⟩ := check_extract H op M h
  have hc := commutes_sem H op hH
  have h2 := congrArg (fun F : Module.End K (Nat →₀ K) => (F (Finsupp.single s 1)) t) hc
  simp only [Module.End.mul_apply] at h2
  rw [op_single M op hm hN s, map_smul, Finsupp.smul_apply, op_apply M op hm hN, smul_eq_mul,
    ← matrixElement_sem] at h2
  have h3 : (matrixElement op s s - matrixElement op t t) * matrixElement H t s = 0 := by
    linear_combination h2
  rcases mul_eq_zero.mp h3 with h4 | h4
  · exact sub_eq_zero.mp h4
  · exact absurd h4 hne

/-! ### additivity -/

omit [DecidableEq K] in
theorem poly_same_key (m0 : Mono) (comm : Poly K) (hk : ∀ mc ∈ comm, mc.1 = m0) :
    (jwRep K).poly comm = (comm.map (·.2)).sum • (jwRep K).mono m0 := by
  induction comm with
  | nil => simp
  | cons mc p ih =>
    obtain ⟨m, c⟩ := mc
    have hm0 : m = m0 := hk (m, c) List.mem_cons_self
    subst hm0
    rw [poly_cons, ih (fun mc hmc => hk mc (List.mem_cons_of_mem _ hmc)), List.map_cons,
      List.sum_cons, add_smul]

omit [DecidableEq K] in
theorem mono_cdag (i : Nat) : (jwRep K).mono [⟨false, i⟩] = jwOp K ⟨false, i⟩ := by
  rw [mono_cons, mono_nil, mul_one, jwRep_op]

omit [DecidableEq K] in
theorem poly_opCdag (i : Nat) : (jwRep K).poly (opCdag (K := K) i) = jwOp K ⟨false, i⟩ := by
  unfold opCdag
  rw [poly_cons, poly_nil, one_smul, add_zero, mono_cdag]

omit [DecidableEq K] in
theorem cdag_single (i s : Nat) (hsi : s.testBit i = false) :
    jwOp K ⟨false, i⟩ (Finsupp.single s 1) =
      Finsupp.single (flipBit s i) (sgn K (lowParity s i)) := by
  rw [jwOp_single, one_smul, jwVec_eq]
  simp [hsi]

/-- the shift, without the bound on the state -/
theorem shift_cdag_all (H op : Poly K) (M : Nat) (hm : ModesLt M op)
    (h : checkSymmetry H M op = .ok true) (i : Nat) (hi : i < M) :
    ∃ a : K, ∀ s, s.testBit i = false →
      matrixElement op (flipBit s i) (flipBit s i) = matrixElement op s s + a := by
  obtain ⟨-, hN, hC⟩ := check_extract H op M h
  obtain ⟨comm, hcomm, hkeys⟩ := hC i hi
  refine ⟨(comm.map (·.2)).sum, ?_⟩
  intro s hsi
  have h1 := commutator_sem (jwRep K) (jw_sq_c K) (jw_sq_cd K) _ _ _ hcomm
  rw [poly_same_key [⟨false, i⟩] comm hkeys, mono_cdag, poly_opCdag] at h1
  have h2 := congrArg
    (fun F : Module.End K (Nat →₀ K) => (F (Finsupp.single s 1)) (flipBit s i)) h1
  simp only [LinearMap.sub_apply, Module.End.mul_apply, LinearMap.smul_apply,
    Finsupp.sub_apply, Finsupp.smul_apply] at h2
  rw [cdag_single i s hsi, op_single M op hm hN s, map_smul, cdag_single i s hsi,
    op_apply M op hm hN, Finsupp.smul_apply, Finsupp.single_eq_same] at h2
  simp only [smul_eq_mul] at h2
  have hσ : sgn K (lowParity s i) * sgn K (lowParity s i) = 1 := sgn_mul_self _
  linear_combination (- sgn K (lowParity s i)) * h2 -
    (matrixElement op (flipBit s i) (flipBit s i) - matrixElement op s s -
      (comm.map (·.2)).sum) * hσ

/-- SINGLE TARGET: an accepted integral shifts by a constant under c†_i, c_i and c†_i c_j, so
the quantum numbers of the image of a state are determined by the quantum numbers of the state -/
theorem shift_cdag (H op : Poly K) (M : Nat) (hm : ModesLt M op)
    (h : checkSymmetry H M op = .ok true) (i : Nat) (hi : i < M) :
    ∃ a : K, ∀ s, s < 2 ^ M → s.testBit i = false →
      matrixElement op (flipBit s i) (flipBit s i) = matrixElement op s s + a := by
  obtain ⟨a, ha⟩ := shift_cdag_all H op M hm h i hi
  exact ⟨a, fun s _ hsi => ha s hsi⟩

theorem single_target_cdag_all (H op : Poly K) (M : Nat) (hm : ModesLt M op)
    (h : checkSymmetry H M op = .ok true) (i : Nat) (hi : i < M)
    (s t : Nat) (hsi : s.testBit i = false) (hti : t.testBit i = false)
    (hq : matrixElement op s s = matrixElement op t t) :
    matrixElement op (flipBit s i) (flipBit s i) =
      matrixElement op (flipBit t i) (flipBit t i) := by
  obtain ⟨a, ha⟩ := shift_cdag_all H op M hm h i hi
  rw [ha s hsi, ha t hti, hq]

theorem single_target_c_all (H op : Poly K) (M : Nat) (hm : ModesLt M op)
    (h : checkSymmetry H M op = .ok true) (i : Nat) (hi : i < M)
    (s t : Nat) (hsi : s.testBit i = true) (hti : t.testBit i = true)
    (hq : matrixElement op s s = matrixElement op t t) :
    matrixElement op (flipBit s i) (flipBit s i) =
      matrixElement op (flipBit t i) (flipBit t i) := by
  obtain ⟨a, ha⟩ := shift_cdag_all H op M hm h i hi
  have hs' : (flipBit s i).testBit i = false := by rw [testBit_flipBit, if_pos rfl, hsi]; rfl
  have ht' : (flipBit t i).testBit i = false := by rw [testBit_flipBit, if_pos rfl, hti]; rfl
  have h1 := ha _ hs'
  have h2 := ha _ ht'
  rw [flipBit_flipBit] at h1 h2
  linear_combination hq - h1 + h2

theorem single_target_cdag (H op : Poly K) (M : Nat) (hm : ModesLt M op)
    (h : checkSymmetry H M op = .ok true) (i : Nat) (hi : i < M)
    (s t : Nat) (hs : s < 2 ^ M) (ht : t < 2 ^ M)
    (hsi : s.testBit i = false) (hti : t.testBit i = false)
    (hq : matrixElement op s s = matrixElement op t t) :
    matrixElement op (flipBit s i) (flipBit s i) =
      matrixElement op (flipBit t i) (flipBit t i) :=
  have _ := hs; have _ := ht
  single_target_cdag_all H op M hm h i hi s t hsi hti hq

theorem single_target_c (H op : Poly K) (M : Nat) (hm : ModesLt M op)
    (h : checkSymmetry H M op = .ok true) (i : Nat) (hi : i < M)
    (s t : Nat) (hs : s < 2 ^ M) (ht : t < 2 ^ M)
    (hsi : s.testBit i = true) (hti : t.testBit i = true)
    (hq : matrixElement op s s = matrixElement op t t) :
    matrixElement op (flipBit s i) (flipBit s i) =
      matrixElement op (flipBit t i) (flipBit t i) :=
  have _ := hs; have _ := ht
  single_target_c_all H op M hm h i hi s t hsi hti hq

theorem single_target_quadratic (H op : Poly K) (M : Nat) (hm : ModesLt M op)
    (h : checkSymmetry H M op = .ok true)
    (i j : Nat) (hi : i < M) (hj : j < M) (hij : i ≠ j)
    (s t : Nat) (hs : s < 2 ^ M) (ht : t < 2 ^ M)
    (hs1 : s.testBit j = true ∧ s.testBit i = false)
    (ht1 : t.testBit j = true ∧ t.testBit i = false)
    (hq : matrixElement op s s = matrixElement op t t) :
    matrixElement op (flipBit (flipBit s j) i) (flipBit (flipBit s j) i) =
      matrixElement op (flipBit (flipBit t j) i) (flipBit (flipBit t j) i) := by
  have _ := hs; have _ := ht
  have h1 := single_target_c_all H op M hm h j hj s t hs1.1 ht1.1 hq
  have hs' : (flipBit s j).testBit i = false := by
    rw [testBit_flipBit, if_neg (fun e => hij e.symm), hs1.2]
  have ht' : (flipBit t j).testBit i = false := by
    rw [testBit_flipBit, if_neg (fun e => hij e.symm), ht1.2]
  exact single_target_cdag_all H op M hm h i hi _ _ hs' ht' h1

end

/-- REGRESSION (the defect that was fixed): without the additivity test the non-linear integral
n₀n₁ passes the other two tests although c†₀ sends the states 0 and 2 (same quantum number 0) to
states with different quantum numbers -/
theorem nonlinear_breaks_single_target :
    (Poly.commutes (K := Int) true (opN 0)
      [([⟨false,0⟩,⟨false,1⟩,⟨true,0⟩,⟨true,1⟩], -1)] = some true) ∧
    matrixElement (K := Int) [([⟨false,0⟩,⟨false,1⟩,⟨true,0⟩,⟨true,1⟩], -1)] 0 0 =
      matrixElement (K := Int) [([⟨false,0⟩,⟨false,1⟩,⟨true,0⟩,⟨true,1⟩], -1)] 2 2 ∧
    matrixElement (K := Int) [([⟨false,0⟩,⟨false,1⟩,⟨true,0⟩,⟨true,1⟩], -1)] 1 1 ≠
      matrixElement (K := Int) [([⟨false,0⟩,⟨false,1⟩,⟨true,0⟩,⟨true,1⟩], -1)] 3 3 := by
  decide

end Pomerol.Spec.SymmSound
