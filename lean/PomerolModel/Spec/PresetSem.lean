/-
  Property C04, second half: what the presets of `LatticePresets` ADD to a lattice, as operators.

  `latSem r tbl L` is the operator a lattice stands for in a representation `r : CARRep K A` of the
  canonical anticommutation relations: the sum over the stored terms of amplitude × ordered product
  of `r.cd` / `r.c` of the single-particle indices of the factors.  (It is, definitionally, the
  `latticeDenot` of `Properties/C04.lean`, for which `hamiltonian_is_sum_of_terms` is proved; the
  definition is repeated here because `Properties/C04.lean` imports this file.)

  Contents
  * §0-1  `latSem`, well-formed term storage `LatWF`, `latSem_store` (storing a term adds its
          operator), `Adds L L' x` ("going from `L` to `L'` adds `x`") and its loop combinators.
  * Terms, Presets1, Hopping, Exchange, Kanamori, Documented(2): for every preset `add*`, if the call
          returns normally on a well-formed storage, `Adds r tbl L L' (documented operator)`
          (`addLevel_sem`, `addMagnetization_sem` -- twice the documented field --, `addCoulombS_sem`,
          `addCoulombP_sem` for every number of orbitals and spins, `addSzSz_sem`, `addSS_sem` incl.
          the same-site variants, `addHoppingFull/Orb/All_sem`).  Hypothesis `hnz`: the model of
          `std::abs(x)` as a truth value answers `false` only for `x = 0`.
  * CARAlg, SU2, KanamoriSU2, TotalSpin, SpinSwap, SU2Lattice: purely from the CAR, the Kanamori
          operator (all `U, U', J, ε`, every number of orbitals, two spin components) and the
          spin-spin exchange (two sites or one) commute with `S⁺` and `S⁻` of any family of orbitals
          containing theirs; the index table of `IndexClassification` provides such families
          (`allOrbitals_in_table`).
  * Hermitian: in a `*`-algebra with `star c_i = c†_i` all these operators are self-adjoint for real
          parameters.  StarModel: such a representation exists non-trivially (universal `*`-algebra
          of the CAR over `ℚ`, mapped onto the Jordan-Wigner operators).
-/
import PomerolModel.Model.Index
import PomerolModel.Spec.CAR
import PomerolModel.Spec.LatticeProps
import PomerolModel.Spec.IndexBij
import PomerolModel.Spec.JW
import Mathlib.Algebra.Star.Free
import Mathlib.Algebra.Star.RingQuot
import Mathlib.Algebra.Star.Rat
import Mathlib.Algebra.Field.Rat
import Mathlib.Algebra.BigOperators.Group.Finset.Basic
import Mathlib.Algebra.BigOperators.Ring.Finset
import Mathlib.Algebra.BigOperators.GroupWithZero.Action
import Mathlib.Algebra.Field.Basic
import Mathlib.Algebra.Star.Module
import Mathlib.Algebra.Star.BigOperators
import Mathlib.Tactic.NoncommRing
import Mathlib.Tactic.Abel
import Mathlib.Tactic.Ring
import Mathlib.Tactic.Module
import Mathlib.Tactic.LinearCombination

set_option linter.unusedSectionVars false
set_option linter.unusedVariables false
set_option linter.unusedSimpArgs false

namespace Pomerol.Spec.PresetSem
open Pomerol.Model Pomerol.Model.Lat Pomerol.Spec Pomerol.Gen.Presets Pomerol.Spec.LatticeProps
open Finset (range)

/-! ## 0. the operator a lattice stands for -/

section Defs
variable {K A : Type} [CommRing K] [Ring A] [Algebra K A]

/-- the operator one factor `(creation?, index)` stands for -/
def factorSem (r : CARRep K A) (f : Bool × Nat) : A := if f.1 then r.cd f.2 else r.c f.2

/-- the factors of a lattice term: (creation?, single-particle index of (label, orbital, spin)) -/
def termFactors (tbl : List Idx.IndexInfo) (t : Term K) : List (Bool × Nat) :=
  (List.range t.order).map fun i =>
    (t.ops.getD i false,
      Idx.getIndex tbl ⟨t.labels.getD i "", t.orbs.getD i 0, t.spins.getD i 0⟩)

/-- the operator a lattice term stands for: amplitude × ordered product of its factors; a term
without factors contributes nothing -/
def termSem (r : CARRep K A) (tbl : List Idx.IndexInfo) (t : Term K) : A :=
  match termFactors tbl t with
  | [] => 0
  | f :: fs => t.value • ((f :: fs).map (factorSem r)).prod

/-- the operator a lattice stands for: the sum over the orders `maxOrder, …, 1` of the sum over the
stored terms of that order (the `latticeDenot` of `hamiltonian_is_sum_of_terms`) -/
def latSem (r : CARRep K A) (tbl : List Idx.IndexInfo) (L : Lat.Lattice K) : A :=
  (((List.range L.maxOrder).reverse.map (· + 1)).map fun n =>
    ((getTerms L n).map (termSem r tbl)).sum).sum

/-- the single-particle index of (site `l`, orbital `o`, spin `s`) -/
def idxOf (tbl : List Idx.IndexInfo) (l : String) (o s : Nat) : Nat := Idx.getIndex tbl ⟨l, o, s⟩

/-- the number operator `n_x = c†_x c_x` -/
def num (r : CARRep K A) (x : Nat) : A := r.cd x * r.c x

end Defs

/-! ## 1. storing a term adds its operator -/

section Store
variable {K A : Type} [Field K] [NonzeroTest K] [Ring A] [Algebra K A]
variable (r : CARRep K A) (tbl : List Idx.IndexInfo)

/-- well-formed term storage: the `std::map` is sorted by order and no term list is stored under
an order larger than `maxOrder` (true of `Lat.empty`, preserved by `storeTerm`) -/
def LatWF (L : Lat.Lattice K) : Prop := TermsOK L ∧ ∀ n, L.maxOrder < n → getTerms L n = []

theorem latWF_empty : LatWF (Lat.empty : Lat.Lattice K) :=
  ⟨empty_ok.2, fun n _ => rfl⟩

theorem latWF_addSite (L : Lat.Lattice K) (h : LatWF L) (l : String) (o s : Nat) :
    LatWF (addSite L l o s) := h

theorem latWF_store (L : Lat.Lattice K) (h : LatWF L) (t : Term K) : LatWF (storeTerm L t) := by
  refine ⟨storeTerm_ok L h.1 t, fun n hn => ?_⟩
  rw [maxOrder_storeTerm] at hn
  rw [getTerms_storeTerm L h.1, if_neg (by omega)]
  exact h.2 n (by omega)

theorem list_sum_orders (f : Nat → A) (m : Nat) :
    (((List.range m).reverse.map (· + 1)).map f).sum = ∑ n ∈ range m, f (n + 1) := by
  induction m with
  | zero => simp
  | succ m ih =>
    rw [List.range_succ, List.reverse_append, List.reverse_singleton, List.singleton_append,
      List.map_cons, List.map_cons, List.sum_cons, ih, Finset.sum_range_succ, add_comm]

/-- the sum may run over any range of orders that contains `1 … maxOrder` -/
theorem latSem_eq_sum (L : Lat.Lattice K) (h : LatWF L) (M : Nat) (hM : L.maxOrder ≤ M) :
    latSem r tbl L = ∑ n ∈ range M, ((getTerms L (n + 1)).map (termSem r tbl)).sum := by
  unfold latSem
  rw [list_sum_orders]
  refine Finset.sum_subset (Finset.range_mono hM) (fun n hn hn' => ?_)
  rw [Finset.mem_range] at hn hn'
  rw [h.2 (n + 1) (by omega)]
  rfl

theorem termSem_order_zero (t : Term K) (h : t.order = 0) : termSem r tbl t = 0 := by
  simp [termSem, termFactors, h]

/-- **Storing a term adds the term's operator.** -/
theorem latSem_store (L : Lat.Lattice K) (h : LatWF L) (t : Term K) :
    latSem r tbl (storeTerm L t) = latSem r tbl L + termSem r tbl t := by
  have hM : L.maxOrder ≤ max L.maxOrder t.order := Nat.le_max_left _ _
  rw [latSem_eq_sum r tbl _ (latWF_store L h t) (max L.maxOrder t.order)
      (by rw [maxOrder_storeTerm]),
    latSem_eq_sum r tbl L h _ hM]
  have step : ∀ n, ((getTerms (storeTerm L t) (n + 1)).map (termSem r tbl)).sum =
      ((getTerms L (n + 1)).map (termSem r tbl)).sum +
        (if n + 1 = t.order then termSem r tbl t else 0) := by
    intro n
    rw [getTerms_storeTerm L h.1]
    split <;> simp
  rw [Finset.sum_congr rfl (fun n _ => step n), Finset.sum_add_distrib]
  congr 1
  by_cases h0 : t.order = 0
  · rw [termSem_order_zero r tbl t h0]
    exact Finset.sum_eq_zero (fun n _ => by split <;> rfl)
  · rw [Finset.sum_eq_single (t.order - 1)]
    · rw [if_pos (by omega)]
    · intro n _ hn
      rw [if_neg (by omega)]
    · intro hn
      exfalso
      apply hn
      rw [Finset.mem_range]
      have := Nat.le_max_right L.maxOrder t.order
      omega

/-- "going from `L` to `L'` adds the operator `x`" (and keeps the storage well-formed) -/
def Adds (L L' : Lat.Lattice K) (x : A) : Prop :=
  LatWF L' ∧ latSem r tbl L' = latSem r tbl L + x

variable {r tbl}

theorem adds_refl {L : Lat.Lattice K} (h : LatWF L) : Adds r tbl L L 0 := ⟨h, (add_zero _).symm⟩

theorem adds_store {L : Lat.Lattice K} (h : LatWF L) (t : Term K) :
    Adds r tbl L (storeTerm L t) (termSem r tbl t) := ⟨latWF_store L h t, latSem_store r tbl L h t⟩

theorem adds_trans {L L' L'' : Lat.Lattice K} {x y : A} (h1 : Adds r tbl L L' x)
    (h2 : Adds r tbl L' L'' y) : Adds r tbl L L'' (x + y) :=
  ⟨h2.1, by rw [h2.2, h1.2, add_assoc]⟩

theorem adds_congr {L L' : Lat.Lattice K} {x y : A} (h : Adds r tbl L L' x) (e : x = y) :
    Adds r tbl L L' y := e ▸ h

/-- a zero amplitude denotes the zero operator -/
theorem termSem_value_zero (t : Term K) (h : t.value = 0) : termSem r tbl t = 0 := by
  unfold termSem
  split
  · rfl
  · rw [h, zero_smul]

/-- `if (std::abs(v)) addTerm(t)`: the skipped term has amplitude 0 and denotes 0 -/
theorem adds_ite_store (hnz : ∀ x : K, NonzeroTest.nz x = false → x = 0) {L : Lat.Lattice K}
    (h : LatWF L) (v : K) (t : Term K) (hv : t.value = v) :
    Adds r tbl L (if NonzeroTest.nz v = true then storeTerm L t else L) (termSem r tbl t) := by
  split
  · exact adds_store h t
  · rename_i hz
    have : termSem r tbl t = 0 :=
      termSem_value_zero t (hv.trans (hnz v (by simpa using hz)))
    rw [this]
    exact adds_refl h

theorem foldl_adds {f : Lat.Lattice K → Nat → Lat.Lattice K} {g : Nat → A} (l : List Nat)
    (L : Lat.Lattice K) (h : LatWF L)
    (hstep : ∀ s i, i ∈ l → LatWF s → Adds r tbl s (f s i) (g i)) :
    Adds r tbl L (l.foldl f L) (l.map g).sum := by
  induction l generalizing L with
  | nil => simpa using adds_refl h
  | cons a rest ih =>
    simp only [List.foldl_cons, List.map_cons, List.sum_cons]
    have h1 := hstep L a (by simp) h
    exact adds_trans h1 (ih _ h1.1 (fun s i hi => hstep s i (by simp [hi])))

theorem list_range_sum (g : Nat → A) (n : Nat) : ((List.range n).map g).sum = ∑ i ∈ range n, g i := by
  induction n with
  | zero => simp
  | succ n ih => rw [List.range_succ, List.map_append, List.sum_append, ih, Finset.sum_range_succ]; simp

/-- a counted loop whose `i`-th pass adds `g i` adds `Σ_{i<n} g i` -/
theorem forRange_adds {f : Lat.Lattice K → Nat → Lat.Lattice K} {g : Nat → A} (n : Nat)
    (L : Lat.Lattice K) (h : LatWF L)
    (hstep : ∀ s i, i < n → LatWF s → Adds r tbl s (f s i) (g i)) :
    Adds r tbl L (forRange n L f) (∑ i ∈ range n, g i) := by
  rw [← list_range_sum]
  exact foldl_adds _ L h (fun s i hi => hstep s i (by simpa using hi))

theorem foldlM_adds {f : Lat.Lattice K → Nat → Except Exc (Lat.Lattice K)} {g : Nat → A}
    (l : List Nat) (L L' : Lat.Lattice K) (h : LatWF L)
    (hstep : ∀ s i s', i ∈ l → LatWF s → f s i = .ok s' → Adds r tbl s s' (g i))
    (hr : l.foldlM f L = .ok L') : Adds r tbl L L' (l.map g).sum := by
  induction l generalizing L with
  | nil =>
    simp only [List.foldlM_nil, pure, Except.pure] at hr
    cases hr
    simpa using adds_refl h
  | cons a rest ih =>
    simp only [List.foldlM_cons, bind, Except.bind] at hr
    split at hr
    · cases hr
    · rename_i s1 hs1
      simp only [List.map_cons, List.sum_cons]
      have h1 := hstep L a s1 (by simp) h hs1
      exact adds_trans h1 (ih s1 h1.1 (fun s i s' hi => hstep s i s' (by simp [hi])) hr)

/-- the same for loops that may throw -/
theorem rangeM_adds {f : Lat.Lattice K → Nat → Except Exc (Lat.Lattice K)} {g : Nat → A}
    (n : Nat) (L L' : Lat.Lattice K) (h : LatWF L)
    (hstep : ∀ s i s', i < n → LatWF s → f s i = .ok s' → Adds r tbl s s' (g i))
    (hr : (List.range n).foldlM f L = .ok L') : Adds r tbl L L' (∑ i ∈ range n, g i) := by
  rw [← list_range_sum]
  exact foldlM_adds _ L L' h (fun s i s' hi => hstep s i s' (by simpa using hi)) hr

end Store

section Terms
variable {K A : Type} [Field K] [NonzeroTest K] [Ring A] [Algebra K A]
variable (r : CARRep K A) (tbl : List Idx.IndexInfo)

theorem termSem_tHopping (l1 l2 : String) (t : K) (o1 o2 s1 s2 : Nat) :
    termSem r tbl (tHopping l1 l2 t o1 o2 s1 s2) =
      t • (r.cd (idxOf tbl l1 o1 s1) * r.c (idxOf tbl l2 o2 s2)) := by
  simp [termSem, termFactors, tHopping, mkTerm, Term.order, factorSem, idxOf,
    hoppingOps, hoppingLabels, hoppingOrbs, hoppingSpins, List.range_succ]

theorem termSem_tLevel (l : String) (v : K) (o s : Nat) :
    termSem r tbl (tLevel l v o s) = v • num r (idxOf tbl l o s) := by
  simp [termSem, termFactors, tLevel, mkTerm, Term.order, factorSem, idxOf, num,
    levelOps, levelLabels, levelOrbs, levelSpins, List.range_succ]

/-- `n_x² = n_x` -/
theorem num_sq (hcd : ∀ i, r.cd i * r.cd i = 0) (x : Nat) : num r x * num r x = num r x := by
  unfold num
  have h := r.ccd x x
  rw [if_pos rfl] at h
  have e : r.c x * r.cd x = 1 - r.cd x * r.c x := by rw [← h]; abel
  calc r.cd x * r.c x * (r.cd x * r.c x) = r.cd x * (r.c x * r.cd x) * r.c x := by noncomm_ring
    _ = r.cd x * r.c x - (r.cd x * r.cd x) * r.c x * r.c x := by rw [e]; noncomm_ring
    _ = r.cd x * r.c x := by rw [hcd]; noncomm_ring

theorem termSem_tNupNdown_ne (l1 l2 : String) (v : K) (o1 o2 s1 s2 : Nat)
    (hne : ¬ (l1 = l2 ∧ s1 = s2 ∧ o1 = o2)) :
    termSem r tbl (tNupNdown l1 l2 v o1 o2 s1 s2) =
      v • (num r (idxOf tbl l1 o1 s1) * num r (idxOf tbl l2 o2 s2)) := by
  have : (decide (l1 = l2) && nupndownDegenerate o1 o2 s1 s2) = false := by
    simp only [nupndownDegenerate, Nat.cast_inj]
    by_cases h1 : l1 = l2 <;> by_cases h2 : s1 = s2 <;> by_cases h3 : o1 = o2 <;> simp_all
  unfold tNupNdown
  rw [this]
  simp [termSem, termFactors, mkTerm, Term.order, factorSem, idxOf, num,
    nupndownOps, nupndownLabels, nupndownOrbs, nupndownSpins, List.range_succ, mul_assoc]

/-- `NupNdown` always denotes `v · n n` (the degenerate case by `n² = n`) -/
theorem termSem_tNupNdown (hcd : ∀ i, r.cd i * r.cd i = 0) (l1 l2 : String) (v : K) (o1 o2 s1 s2 : Nat) :
    termSem r tbl (tNupNdown l1 l2 v o1 o2 s1 s2) =
      v • (num r (idxOf tbl l1 o1 s1) * num r (idxOf tbl l2 o2 s2)) := by
  by_cases hne : (l1 = l2 ∧ s1 = s2 ∧ o1 = o2)
  · obtain ⟨rfl, rfl, rfl⟩ := hne
    have : (decide (l1 = l1) && nupndownDegenerate o1 o1 s1 s1) = true := by
      simp [nupndownDegenerate]
    unfold tNupNdown
    rw [this, if_pos rfl, termSem_tLevel, num_sq r hcd]
  · exact termSem_tNupNdown_ne r tbl l1 l2 v o1 o2 s1 s2 hne

theorem termSem_tSpinflip (l : String) (v : K) (o1 o2 s1 s2 : Nat) (t : Term K)
    (h : tSpinflip l v o1 o2 s1 s2 = .ok t) :
    termSem r tbl t = v • (r.cd (idxOf tbl l o1 s1) * r.cd (idxOf tbl l o2 s2) *
      r.c (idxOf tbl l o2 s1) * r.c (idxOf tbl l o1 s2)) := by
  unfold tSpinflip at h
  split at h
  · cases h
  · cases h
    simp [termSem, termFactors, mkTerm, Term.order, factorSem, idxOf,
      spinflipOps, spinflipLabels, spinflipOrbs, spinflipSpins, List.range_succ, mul_assoc]

theorem termSem_tPairHopping (l : String) (v : K) (o1 o2 s1 s2 : Nat) (t : Term K)
    (h : tPairHopping l v o1 o2 s1 s2 = .ok t) :
    termSem r tbl t = v • (r.cd (idxOf tbl l o1 s1) * r.cd (idxOf tbl l o1 s2) *
      r.c (idxOf tbl l o2 s1) * r.c (idxOf tbl l o2 s2)) := by
  unfold tPairHopping at h
  split at h
  · cases h
  · cases h
    simp [termSem, termFactors, mkTerm, Term.order, factorSem, idxOf,
      pairhoppingOps, pairhoppingLabels, pairhoppingOrbs, pairhoppingSpins, List.range_succ, mul_assoc]

/-- `S⁺_x = c†_{x↑} c_{x↓}`, `S⁻_x = c†_{x↓} c_{x↑}` for a pair (index of spin up, index of spin down) -/
def sPlus (r : CARRep K A) (u d : Nat) : A := r.cd u * r.c d
def sMinus (r : CARRep K A) (u d : Nat) : A := r.cd d * r.c u

theorem termSem_tSplusSminus (l1 l2 : String) (v : K) (o : Nat) :
    termSem r tbl (tSplusSminus l1 l2 v o) =
      v • (sPlus r (idxOf tbl l1 o spinUp) (idxOf tbl l1 o spinDown) *
           sMinus r (idxOf tbl l2 o spinUp) (idxOf tbl l2 o spinDown)) := by
  simp [termSem, termFactors, tSplusSminus, mkTerm, Term.order, factorSem, idxOf, sPlus, sMinus,
    splussminusOps, splussminusLabels, splussminusOrbs, splussminusSpins, List.range_succ, mul_assoc]

theorem termSem_tSminusSplus (l1 l2 : String) (v : K) (o : Nat) :
    termSem r tbl (tSminusSplus l1 l2 v o) =
      v • (sMinus r (idxOf tbl l1 o spinUp) (idxOf tbl l1 o spinDown) *
           sPlus r (idxOf tbl l2 o spinUp) (idxOf tbl l2 o spinDown)) := by
  simp [termSem, termFactors, tSminusSplus, tSplusSminus, mkTerm, Term.order, factorSem, idxOf, sPlus, sMinus,
    splussminusOps, splussminusLabels, splussminusOrbs, splussminusSpins, sminussplusSpins, List.range_succ, mul_assoc]

end Terms

section Presets1
variable {K A : Type} [Field K] [NonzeroTest K] [Ring A] [Algebra K A]
variable {r : CARRep K A} {tbl : List Idx.IndexInfo}
variable (hnz : ∀ x : K, NonzeroTest.nz x = false → x = 0)
include hnz

/-- **`addLevel`** adds `ε Σ_{α,σ} n_{ασ}` (all orbitals and all spin components of the site). -/
theorem addLevel_sem (L L' : Lat.Lattice K) (l : String) (lv : K) (a : Site)
    (ha : findSite L l = some a) (hwf : LatWF L) (h : addLevel L l lv = .ok L') :
    Adds r tbl L L' (lv • ∑ α ∈ range a.norb, ∑ σ ∈ range a.nspin, num r (idxOf tbl l α σ)) := by
  have hg := addLevel_guard L L' l lv h
  unfold addLevel at h
  dsimp only at h
  simp only [guardsOf] at hg
  rw [hg, guardEnv_orb1 L l l a ha, guardEnv_spin1 L l l a ha] at h
  cases h
  rw [Finset.smul_sum]
  refine forRange_adds _ _ hwf (fun L1 i hi h1 => ?_)
  rw [Finset.smul_sum]
  refine forRange_adds _ _ h1 (fun L2 z hz h2 => ?_)
  exact adds_congr (adds_ite_store hnz h2 lv _ rfl) (termSem_tLevel r tbl l lv i z)

omit hnz in
/-- **`addMagnetization`** adds `mH Σ_α (n_{α↑} − n_{α↓})`.  DEVIATION from the comment in
`LatticePresets.h`, which announces `Σ_α mH ½ (n_{α↑} − n_{α↓})`: the code adds twice that. -/
theorem addMagnetization_sem (L L' : Lat.Lattice K) (l : String) (mH : K) (a : Site)
    (ha : findSite L l = some a) (hwf : LatWF L) (h : addMagnetization L l mH = .ok L') :
    Adds r tbl L L' (mH • ∑ α ∈ range a.norb,
      (num r (idxOf tbl l α spinUp) - num r (idxOf tbl l α spinDown))) := by
  have hg := addMagnetization_guard L L' l mH h
  unfold addMagnetization at h
  dsimp only at h
  simp only [guardsOf] at hg
  rw [hg, guardEnv_orb1 L l l a ha] at h
  cases h
  rw [Finset.smul_sum]
  refine forRange_adds _ _ hwf (fun L1 i hi h1 => ?_)
  refine adds_congr (adds_trans (adds_store h1 _) (adds_store (latWF_store _ h1 _) _)) ?_
  rw [termSem_tLevel, termSem_tLevel, addMagnetization_up, addMagnetization_down, smul_sub, neg_smul,
    sub_eq_add_neg]

/-- **`addCoulombS`** adds `U Σ_α Σ_{σ>σ'} n_{ασ} n_{ασ'} + ε Σ_{α,σ} n_{ασ}`; for a site with two
spin components the first sum is `U Σ_α n_{α↑} n_{α↓}` (`addCoulombS_sem_two_spins`).  (The formula
in the comment of `LatticePresets.h` has the factor `U` twice, `U n U n`; the code adds `U n n`.) -/
theorem addCoulombS_sem (L L' : Lat.Lattice K) (l : String) (U lv : K) (a : Site)
    (ha : findSite L l = some a) (hwf : LatWF L) (h : addCoulombS L l U lv = .ok L') :
    Adds r tbl L L'
      (U • ∑ α ∈ range a.norb, ∑ σ ∈ range a.nspin, ∑ σ' ∈ range σ,
          num r (idxOf tbl l α σ) * num r (idxOf tbl l α σ') +
       lv • ∑ α ∈ range a.norb, ∑ σ ∈ range a.nspin, num r (idxOf tbl l α σ)) := by
  have hg := addCoulombS_guard L L' l U lv h
  unfold addCoulombS at h
  dsimp only at h
  simp only [guardsOf] at hg
  rw [hg, guardEnv_orb1 L l l a ha, guardEnv_spin1 L l l a ha] at h
  cases h
  have key : Adds r tbl L
      (forRange a.norb L fun L i => forRange a.nspin L fun L z1 =>
        forRange z1 (if NonzeroTest.nz lv = true then storeTerm L (tLevel l lv i z1) else L)
          fun L z2 => if NonzeroTest.nz U = true then storeTerm L (tNupNdown l l U i i z1 z2) else L)
      (∑ α ∈ range a.norb, ∑ σ ∈ range a.nspin,
        (lv • num r (idxOf tbl l α σ) +
          ∑ σ' ∈ range σ, U • (num r (idxOf tbl l α σ) * num r (idxOf tbl l α σ')))) := by
    refine forRange_adds _ _ hwf (fun L1 i hi h1 => ?_)
    refine forRange_adds _ _ h1 (fun L2 z1 hz1 h2 => ?_)
    have h3 := adds_congr (adds_ite_store (r := r) (tbl := tbl) hnz h2 lv (tLevel l lv i z1) rfl)
      (termSem_tLevel r tbl l lv i z1)
    refine adds_trans h3 (forRange_adds _ _ h3.1 (fun L3 z2 hz2 h4 => ?_))
    refine adds_congr (adds_ite_store hnz h4 U _ ?_) (termSem_tNupNdown_ne r tbl l l U i i z1 z2 ?_)
    · have : (decide (l = l) && nupndownDegenerate i i z1 z2) = false := by
        simp [nupndownDegenerate]; omega
      unfold tNupNdown
      rw [this]
      rfl
    · omega
  refine adds_congr key ?_
  simp only [Finset.sum_add_distrib, Finset.smul_sum]
  rw [add_comm]

end Presets1

section Hopping
variable {K A : Type} [Field K] [NonzeroTest K] [Ring A] [Algebra K A]
variable {r : CARRep K A} {tbl : List Idx.IndexInfo}
variable (hnz : ∀ x : K, NonzeroTest.nz x = false → x = 0)
include hnz

omit hnz in
/-- for two spin components, `Σ_{σ>σ'} f σ σ' = f ↑ ↓` -/
theorem sum_spin_pairs_two (f : Nat → Nat → A) :
    ∑ σ ∈ range 2, ∑ σ' ∈ range σ, f σ σ' = f spinUp spinDown := by
  simp [Finset.sum_range_succ, spinUp, spinDown]

omit hnz in
theorem sum_spins_two (f : Nat → A) : ∑ σ ∈ range 2, f σ = f spinUp + f spinDown := by
  simp [Finset.sum_range_succ, spinUp, spinDown, add_comm]

/-- `addCoulombS` on a site with two spin components: `U Σ_α n_{α↑} n_{α↓} + ε Σ_α (n_{α↑} + n_{α↓})` -/
theorem addCoulombS_sem_two_spins (L L' : Lat.Lattice K) (l : String) (U lv : K) (a : Site)
    (ha : findSite L l = some a) (hsp : a.nspin = 2) (hwf : LatWF L)
    (h : addCoulombS L l U lv = .ok L') :
    Adds r tbl L L'
      (U • ∑ α ∈ range a.norb, num r (idxOf tbl l α spinUp) * num r (idxOf tbl l α spinDown) +
       lv • ∑ α ∈ range a.norb, (num r (idxOf tbl l α spinUp) + num r (idxOf tbl l α spinDown))) := by
  refine adds_congr (addCoulombS_sem hnz L L' l U lv a ha hwf h) ?_
  rw [hsp]
  simp only [sum_spin_pairs_two]
  simp only [sum_spins_two]

/-- `Lattice::addTerm` (validated insertion) adds the term's operator when it returns normally -/
theorem addTerm_adds (L L' : Lat.Lattice K) (t : Term K) (hwf : LatWF L) (h : addTerm L t = .ok L') :
    Adds r tbl L L' (termSem r tbl t) := by
  unfold addTerm at h
  split at h
  · cases h
  · split at h
    · cases h; exact adds_store hwf t
    · rename_i hz
      cases h
      rw [termSem_value_zero t (hnz _ (by simpa using hz))]
      exact adds_refl hwf

/-- **`addHopping` (7 arguments)** adds `t c†_{1} c_{2} + conj(t) c†_{2} c_{1}`. -/
theorem addHoppingFull_sem (cj : K → K) (L L' : Lat.Lattice K) (l1 l2 : String) (t : K)
    (o1 o2 s1 s2 : Nat) (hwf : LatWF L) (h : addHoppingFull cj L l1 l2 t o1 o2 s1 s2 = .ok L') :
    Adds r tbl L L'
      (t • (r.cd (idxOf tbl l1 o1 s1) * r.c (idxOf tbl l2 o2 s2)) +
       cj t • (r.cd (idxOf tbl l2 o2 s2) * r.c (idxOf tbl l1 o1 s1))) := by
  have hg := addHoppingFull_guard cj L L' l1 l2 t o1 o2 s1 s2 h
  unfold addHoppingFull at h
  dsimp only at h
  simp only [guardsOf] at hg
  rw [hg] at h
  simp only [bind, Except.bind] at h
  split at h
  · cases h
  · rename_i L1 hL1
    have h1 := addTerm_adds (r := r) (tbl := tbl) hnz L L1 _ hwf hL1
    have h2 := addTerm_adds (r := r) (tbl := tbl) hnz L1 L' _ h1.1 h
    refine adds_congr (adds_trans h1 h2) ?_
    rw [termSem_tHopping, termSem_tHopping]

/-- **`addHopping` (5 arguments, all spin components)** adds
`Σ_σ (t c†_{1ασ} c_{2α'σ} + conj(t) c†_{2α'σ} c_{1ασ})`. -/
theorem addHoppingOrb_sem (cj : K → K) (L L' : Lat.Lattice K) (l1 l2 : String) (t : K)
    (o1 o2 : Nat) (a : Site) (ha : findSite L l1 = some a) (hwf : LatWF L)
    (h : addHoppingOrb cj L l1 l2 t o1 o2 = .ok L') :
    Adds r tbl L L'
      (t • ∑ σ ∈ range a.nspin, r.cd (idxOf tbl l1 o1 σ) * r.c (idxOf tbl l2 o2 σ) +
       cj t • ∑ σ ∈ range a.nspin, r.cd (idxOf tbl l2 o2 σ) * r.c (idxOf tbl l1 o1 σ)) := by
  have hg := addHoppingOrb_guard cj L L' l1 l2 t o1 o2 h
  unfold addHoppingOrb at h
  dsimp only at h
  simp only [guardsOf] at hg
  rw [hg, guardEnv_spin1 L l1 l2 a ha] at h
  dsimp only at h
  rw [Finset.smul_sum, Finset.smul_sum, ← Finset.sum_add_distrib]
  exact rangeM_adds _ L L' hwf
    (fun s z s' _ hs hr => addHoppingFull_sem hnz cj s s' l1 l2 t o1 o2 z z hs hr) h

/-- **`addHopping` (4 arguments, all orbitals and spin components)** adds
`Σ_{α,σ} (t c†_{1ασ} c_{2ασ} + conj(t) c†_{2ασ} c_{1ασ})`. -/
theorem addHoppingAll_sem (cj : K → K) (L L' : Lat.Lattice K) (l1 l2 : String) (t : K)
    (a : Site) (ha : findSite L l1 = some a) (hwf : LatWF L)
    (h : addHoppingAll cj L l1 l2 t = .ok L') :
    Adds r tbl L L'
      (t • ∑ σ ∈ range a.nspin, ∑ α ∈ range a.norb,
          r.cd (idxOf tbl l1 α σ) * r.c (idxOf tbl l2 α σ) +
       cj t • ∑ σ ∈ range a.nspin, ∑ α ∈ range a.norb,
          r.cd (idxOf tbl l2 α σ) * r.c (idxOf tbl l1 α σ)) := by
  have hg := addHoppingAll_guard cj L L' l1 l2 t h
  unfold addHoppingAll at h
  dsimp only at h
  simp only [guardsOf] at hg
  rw [hg, guardEnv_spin1 L l1 l2 a ha, guardEnv_orb1 L l1 l2 a ha] at h
  dsimp only at h
  simp only [Finset.smul_sum]
  simp only [← Finset.sum_add_distrib]
  exact rangeM_adds _ L L' hwf
    (fun s z s' _ hs hr => rangeM_adds _ s s' hs
      (fun s2 i s2' _ hs2 hr2 => addHoppingFull_sem hnz cj s2 s2' l1 l2 t i i z z hs2 hr2) hr) h

end Hopping

section Exchange
variable {K A : Type} [Field K] [NonzeroTest K] [Ring A] [Algebra K A]
variable {r : CARRep K A} {tbl : List Idx.IndexInfo}

/-- `S^z = ½ (n_↑ − n_↓)` for a pair (index of spin up, index of spin down) -/
def sZ (r : CARRep K A) (u d : Nat) : A := (2 : K)⁻¹ • (num r u - num r d)

theorem szsz_expand (J : K) (a a' b b' : A) :
    ((-J) / ((4 : Nat) : K)) • (a * b') + ((-J) / ((4 : Nat) : K)) • (a' * b) +
      ((J / ((4 : Nat) : K)) • (a * b) + (J / ((4 : Nat) : K)) • (a' * b')) =
    J • (((2 : K)⁻¹ • (a - a')) * ((2 : K)⁻¹ • (b - b'))) := by
  have h4 : ((4 : Nat) : K) = 2 * 2 := by norm_num
  rw [h4]
  simp only [smul_mul_assoc, mul_smul_comm, sub_mul, mul_sub, smul_smul, smul_sub, div_eq_mul_inv,
    mul_inv]
  module

/-- one pass of the loop of `addSzSz` adds `J S^z_{1α} S^z_{2α}` (for `l1 = l2` through `n² = n`) -/
theorem szszLoop_sem (hcd : ∀ i, r.cd i * r.cd i = 0) (L : Lat.Lattice K) (l1 l2 : String) (J : K)
    (norb : Nat) (hwf : LatWF L) :
    Adds r tbl L (szszLoop L l1 l2 J norb)
      (J • ∑ α ∈ range norb,
        sZ r (idxOf tbl l1 α spinUp) (idxOf tbl l1 α spinDown) *
        sZ r (idxOf tbl l2 α spinUp) (idxOf tbl l2 α spinDown)) := by
  unfold szszLoop
  rw [Finset.smul_sum]
  refine forRange_adds _ _ hwf (fun L1 i hi h1 => ?_)
  dsimp only
  have h2 := adds_trans (adds_store (r := r) (tbl := tbl) h1
      (tNupNdown l1 l2 (addSzSz_updown J) i i spinUp spinDown))
    (adds_store (latWF_store _ h1 _) (tNupNdown l1 l2 (addSzSz_downup J) i i spinDown spinUp))
  by_cases hl : l1 ≠ l2
  · rw [if_pos hl]
    refine adds_congr (adds_trans h2 (adds_trans (adds_store h2.1 _)
      (adds_store (latWF_store _ h2.1 _) _))) ?_
    simp only [termSem_tNupNdown r tbl hcd, addSzSz_updown, addSzSz_downup, addSzSz_upup,
      addSzSz_downdown]
    exact szsz_expand J _ _ _ _
  · rw [if_neg hl]
    have hl' : l1 = l2 := by simpa using hl
    subst hl'
    refine adds_congr (adds_trans h2 (adds_trans (adds_store h2.1 _)
      (adds_store (latWF_store _ h2.1 _) _))) ?_
    simp only [termSem_tNupNdown r tbl hcd, termSem_tLevel, addSzSz_updown, addSzSz_downup,
      addSzSz_levelUp, addSzSz_levelDown]
    have e := szsz_expand J (num r (idxOf tbl l1 i spinUp)) (num r (idxOf tbl l1 i spinDown))
      (num r (idxOf tbl l1 i spinUp)) (num r (idxOf tbl l1 i spinDown))
    rw [num_sq r hcd, num_sq r hcd] at e
    exact e

/-- **`addSzSz`** adds `J Σ_α S^z_{1α} S^z_{2α}` with `S^z = ½ (n_↑ − n_↓)`, also when both labels name
the same site (then the code stores `J/4 (n_↑ + n_↓ − n_↑ n_↓ − n_↓ n_↑)`, which is the same operator
because `n² = n`). -/
theorem addSzSz_sem (hcd : ∀ i, r.cd i * r.cd i = 0) (L L' : Lat.Lattice K) (l1 l2 : String) (J : K)
    (a : Site) (ha : findSite L l1 = some a) (hwf : LatWF L) (h : addSzSz L l1 l2 J = .ok L') :
    Adds r tbl L L'
      (J • ∑ α ∈ range a.norb,
        sZ r (idxOf tbl l1 α spinUp) (idxOf tbl l1 α spinDown) *
        sZ r (idxOf tbl l2 α spinUp) (idxOf tbl l2 α spinDown)) := by
  have hg := addSzSz_guard L L' l1 l2 J h
  unfold addSzSz at h
  dsimp only at h
  simp only [guardsOf] at hg
  rw [hg, guardEnv_orb1 L l1 l2 a ha] at h
  cases h
  exact szszLoop_sem hcd L l1 l2 J a.norb hwf

theorem ss_expand (J : K) (x y z : A) :
    x + ((J / ((2 : Nat) : K)) • y + (J / ((2 : Nat) : K)) • z) = x + J • ((2 : K)⁻¹ • (y + z)) := by
  have h2 : ((2 : Nat) : K) = 2 := by norm_num
  rw [h2]
  simp only [div_eq_mul_inv]
  module

/-- **`addSS`** adds `J Σ_α [ S^z_{1α} S^z_{2α} + ½ (S⁺_{1α} S⁻_{2α} + S⁻_{1α} S⁺_{2α}) ]`, also when both
labels name the same site. -/
theorem addSS_sem (hcd : ∀ i, r.cd i * r.cd i = 0) (L L' : Lat.Lattice K) (l1 l2 : String) (J : K)
    (a : Site) (ha : findSite L l1 = some a) (hwf : LatWF L) (h : addSS L l1 l2 J = .ok L') :
    Adds r tbl L L'
      (J • ∑ α ∈ range a.norb,
        (sZ r (idxOf tbl l1 α spinUp) (idxOf tbl l1 α spinDown) *
           sZ r (idxOf tbl l2 α spinUp) (idxOf tbl l2 α spinDown) +
         (2 : K)⁻¹ •
          (sPlus r (idxOf tbl l1 α spinUp) (idxOf tbl l1 α spinDown) *
             sMinus r (idxOf tbl l2 α spinUp) (idxOf tbl l2 α spinDown) +
           sMinus r (idxOf tbl l1 α spinUp) (idxOf tbl l1 α spinDown) *
             sPlus r (idxOf tbl l2 α spinUp) (idxOf tbl l2 α spinDown)))) := by
  have hg := addSS_guard L L' l1 l2 J h
  unfold addSS at h
  dsimp only at h
  simp only [guardsOf] at hg
  rw [hg, guardEnv_orb1 L l1 l2 a ha] at h
  dsimp only at h
  split at h
  · cases h
  · rename_i L1 hL1
    cases h
    have h1 := addSzSz_sem (r := r) (tbl := tbl) hcd L L1 l1 l2 J a ha hwf hL1
    have h2 : Adds r tbl L1
        (forRange a.norb L1 fun L i =>
          storeTerm (storeTerm L (tSplusSminus l1 l2 (addSS_plusminus J) i))
            (tSminusSplus l1 l2 (addSS_minusplus J) i))
        (∑ α ∈ range a.norb, J • ((2 : K)⁻¹ •
          (sPlus r (idxOf tbl l1 α spinUp) (idxOf tbl l1 α spinDown) *
             sMinus r (idxOf tbl l2 α spinUp) (idxOf tbl l2 α spinDown) +
           sMinus r (idxOf tbl l1 α spinUp) (idxOf tbl l1 α spinDown) *
             sPlus r (idxOf tbl l2 α spinUp) (idxOf tbl l2 α spinDown)))) := by
      refine forRange_adds _ _ h1.1 (fun L2 i hi h3 => ?_)
      refine adds_congr (adds_trans (adds_store h3 _) (adds_store (latWF_store _ h3 _) _)) ?_
      rw [termSem_tSplusSminus, termSem_tSminusSplus, addSS_plusminus, addSS_minusplus]
      have := ss_expand J (0 : A)
        (sPlus r (idxOf tbl l1 i spinUp) (idxOf tbl l1 i spinDown) *
             sMinus r (idxOf tbl l2 i spinUp) (idxOf tbl l2 i spinDown))
        (sMinus r (idxOf tbl l1 i spinUp) (idxOf tbl l1 i spinDown) *
             sPlus r (idxOf tbl l2 i spinUp) (idxOf tbl l2 i spinDown))
      simpa using this
    refine adds_congr (adds_trans h1 h2) ?_
    rw [Finset.smul_sum, Finset.smul_sum, ← Finset.sum_add_distrib]
    refine Finset.sum_congr rfl (fun α _ => ?_)
    simp only [smul_add]

end Exchange

section Kanamori
variable {K A : Type} [Field K] [NonzeroTest K] [Ring A] [Algebra K A]
variable {r : CARRep K A} {tbl : List Idx.IndexInfo}

/-- spin-flip `c†_{ασ} c†_{α'σ'} c_{α'σ} c_{ασ'}` -/
def spinflipOp (r : CARRep K A) (idx : Nat → Nat → Nat) (α β σ σ' : Nat) : A :=
  r.cd (idx α σ) * r.cd (idx β σ') * r.c (idx β σ) * r.c (idx α σ')

/-- pair hopping `c†_{ασ} c†_{ασ'} c_{α'σ} c_{α'σ'}` -/
def pairhopOp (r : CARRep K A) (idx : Nat → Nat → Nat) (α β σ σ' : Nat) : A :=
  r.cd (idx α σ) * r.cd (idx α σ') * r.c (idx β σ) * r.c (idx β σ')

/-- The operator documented for `addCoulombP` (`idx α σ` = single-particle index of orbital `α`, spin
`σ` of the site): `U Σ_{α,σ>σ'} n_{ασ} n_{ασ'} + U' Σ_{α≠α',σ>σ'} n_{ασ} n_{α'σ'}
+ (U'−J)/2 Σ_{α≠α',σ} n_{ασ} n_{α'σ}
− J Σ_{α≠α',σ>σ'} (c†_{ασ} c†_{α'σ'} c_{α'σ} c_{ασ'} + c†_{ασ} c†_{ασ'} c_{α'σ} c_{α'σ'}) + ε Σ_{α,σ} n_{ασ}`;
all sums over `α ≠ α'` run over ORDERED pairs. -/
def kanamoriOp (r : CARRep K A) (idx : Nat → Nat → Nat) (norb nspin : Nat) (U Up J lv : K) : A :=
  U • (∑ α ∈ range norb, ∑ σ ∈ range nspin, ∑ σ' ∈ range σ,
        num r (idx α σ) * num r (idx α σ')) +
  Up • (∑ α ∈ range norb, ∑ β ∈ range norb with α ≠ β, ∑ σ ∈ range nspin, ∑ σ' ∈ range σ,
        num r (idx α σ) * num r (idx β σ')) +
  ((Up - J) / 2) • (∑ α ∈ range norb, ∑ β ∈ range norb with α ≠ β, ∑ σ ∈ range nspin,
        num r (idx α σ) * num r (idx β σ)) +
  (-J) • (∑ α ∈ range norb, ∑ β ∈ range norb with α ≠ β, ∑ σ ∈ range nspin, ∑ σ' ∈ range σ,
        (spinflipOp r idx α β σ σ' + pairhopOp r idx α β σ σ')) +
  lv • (∑ α ∈ range norb, ∑ σ ∈ range nspin, num r (idx α σ))

/-- what one pass `(i, z1)` of the loops of `addCoulombP` adds -/
def kanamoriPass (r : CARRep K A) (idx : Nat → Nat → Nat) (norb : Nat) (U Up J lv : K) (i z1 : Nat) : A :=
  lv • num r (idx i z1) +
  (∑ j ∈ range norb, if i ≠ j then ((Up - J) / 2) • (num r (idx i z1) * num r (idx j z1)) else 0) +
  ∑ z2 ∈ range z1, (U • (num r (idx i z1) * num r (idx i z2)) +
    ∑ j ∈ range norb, if i ≠ j then
      (Up • (num r (idx i z1) * num r (idx j z2)) +
        ((-J) • spinflipOp r idx i j z1 z2 + (-J) • pairhopOp r idx i j z1 z2)) else 0)

theorem kanamori_sum_passes (idx : Nat → Nat → Nat) (norb nspin : Nat) (U Up J lv : K) :
    ∑ i ∈ range norb, ∑ z1 ∈ range nspin, kanamoriPass r idx norb U Up J lv i z1 =
      kanamoriOp r idx norb nspin U Up J lv := by
  unfold kanamoriPass kanamoriOp
  simp only [← Finset.sum_filter, Finset.sum_add_distrib, Finset.smul_sum, smul_add]
  have e1 : ∀ (f : Nat → Nat → Nat → A),
      ∑ i ∈ range norb, ∑ z1 ∈ range nspin, ∑ j ∈ range norb with i ≠ j, f i j z1 =
      ∑ i ∈ range norb, ∑ j ∈ range norb with i ≠ j, ∑ z1 ∈ range nspin, f i j z1 :=
    fun f => Finset.sum_congr rfl (fun i _ => Finset.sum_comm)
  have e2 : ∀ (f : Nat → Nat → Nat → Nat → A),
      ∑ i ∈ range norb, ∑ z1 ∈ range nspin, ∑ z2 ∈ range z1, ∑ j ∈ range norb with i ≠ j, f i j z1 z2 =
      ∑ i ∈ range norb, ∑ j ∈ range norb with i ≠ j, ∑ z1 ∈ range nspin, ∑ z2 ∈ range z1, f i j z1 z2 := by
    intro f
    refine Finset.sum_congr rfl (fun i _ => ?_)
    rw [Finset.sum_comm]
    refine Finset.sum_congr rfl (fun z1 _ => Finset.sum_comm)
  rw [e1, e2 (fun i j z1 z2 => Up • (num r (idx i z1) * num r (idx j z2))),
    e2 (fun i j z1 z2 => (-J) • spinflipOp r idx i j z1 z2),
    e2 (fun i j z1 z2 => (-J) • pairhopOp r idx i j z1 z2)]
  abel


variable (hnz : ∀ x : K, NonzeroTest.nz x = false → x = 0)
include hnz

/-- **`addCoulombP` (Kanamori)** adds the operator `kanamoriOp` documented in `LatticePresets.h`, for
every number of orbitals and of spin components.  (In the comment the pair-hopping term is written
`c†_{α'σ} c†_{α'σ'} c_{ασ} c_{ασ'}`, i.e. with `α` and `α'` exchanged: the same operator, because the sum
runs over ordered pairs -- `pairhop_sum_swap`.) -/
theorem addCoulombP_sem (L L' : Lat.Lattice K) (l : String) (U Up J lv : K) (a : Site)
    (ha : findSite L l = some a) (hwf : LatWF L) (h : addCoulombP L l U Up J lv = .ok L') :
    Adds r tbl L L' (kanamoriOp r (idxOf tbl l) a.norb a.nspin U Up J lv) := by
  have hg := addCoulombP_guard L L' l U Up J lv h
  unfold addCoulombP at h
  dsimp only at h
  simp only [guardsOf] at hg
  rw [hg, guardEnv_orb1 L l l a ha, guardEnv_spin1 L l l a ha] at h
  dsimp only at h
  rw [← kanamori_sum_passes]
  refine rangeM_adds _ L L' hwf (fun L1 i L1' hi h1 hs1 => ?_) h
  refine rangeM_adds _ L1 L1' h1 (fun L2 z1 L2' hz1 h2 hs2 => ?_) hs1
  unfold kanamoriPass
  -- the level term
  have a1 := adds_congr (adds_ite_store (r := r) (tbl := tbl) hnz h2 lv (tLevel l lv i z1) rfl)
    (termSem_tLevel r tbl l lv i z1)
  -- the same-spin terms
  have a2 : Adds r tbl (if NonzeroTest.nz lv = true then storeTerm L2 (tLevel l lv i z1) else L2)
      (forRange a.norb (if NonzeroTest.nz lv = true then storeTerm L2 (tLevel l lv i z1) else L2)
        fun L j => if i ≠ j then
          storeTerm L (tNupNdown l l (addCoulombP_sameSpin Up J) i j z1 z1) else L)
      (∑ j ∈ range a.norb, if i ≠ j then
        ((Up - J) / 2) • (num r (idxOf tbl l i z1) * num r (idxOf tbl l j z1)) else 0) := by
    refine forRange_adds _ _ a1.1 (fun L4 j hj h4 => ?_)
    by_cases hij : i ≠ j
    · rw [if_pos hij, if_pos hij]
      refine adds_congr (adds_store h4 _) ?_
      rw [termSem_tNupNdown_ne r tbl l l _ i j z1 z1 (fun hh => hij hh.2.2), addCoulombP_sameSpin]
      norm_num
    · rw [if_neg hij, if_neg hij]
      exact adds_refl h4
  refine adds_trans (adds_trans a1 a2) ?_
  refine rangeM_adds _ _ L2' a2.1 (fun L3 z2 L3' hz2 h3 hs3 => ?_) hs2
  have a3 := adds_congr (adds_ite_store (r := r) (tbl := tbl) hnz h3 U
      (tNupNdown l l U i i z1 z2) (by
        have : (decide (l = l) && nupndownDegenerate i i z1 z2) = false := by
          simp [nupndownDegenerate]; omega
        unfold tNupNdown
        rw [this]
        rfl))
    (termSem_tNupNdown_ne r tbl l l U i i z1 z2 (by omega))
  refine adds_trans a3 ?_
  refine rangeM_adds _ _ L3' a3.1 (fun L5 j L5' hj h5 hs5 => ?_) hs3
  by_cases hij : i ≠ j
  · rw [if_pos hij] at hs5 ⊢
    have a4 := adds_congr (adds_ite_store (r := r) (tbl := tbl) hnz h5 Up
        (tNupNdown l l Up i j z1 z2) (by
          have : (decide (l = l) && nupndownDegenerate i j z1 z2) = false := by
            simp [nupndownDegenerate]; omega
          unfold tNupNdown
          rw [this]
          rfl))
      (termSem_tNupNdown_ne r tbl l l Up i j z1 z2 (fun hh => hij hh.2.2))
    refine adds_trans a4 ?_
    split at hs5
    · simp only [bind, Except.bind] at hs5
      split at hs5
      · cases hs5
      · rename_i t1 ht1
        split at hs5
        · cases hs5
        · rename_i t2 ht2
          cases hs5
          refine adds_congr (adds_trans (adds_store a4.1 t1) (adds_store (latWF_store _ a4.1 t1) t2)) ?_
          rw [termSem_tSpinflip r tbl l _ i j z1 z2 t1 ht1,
            termSem_tPairHopping r tbl l _ i j z1 z2 t2 ht2]
          rfl
    · rename_i hJ
      cases hs5
      have hJ0 : J = 0 := hnz J (by simpa using hJ)
      rw [hJ0, neg_zero, zero_smul, zero_smul, add_zero]
      exact adds_refl a4.1
  · rw [if_neg hij] at hs5 ⊢
    cases hs5
    exact adds_refl h5

end Kanamori

section CARAlg
variable {K A : Type} [Field K] [Ring A] [Algebra K A]
variable (r : CARRep K A)

/-- the commutator `[a, b] = a b − b a` -/
def cm (a b : A) : A := a * b - b * a

theorem cm_mul (a b x : A) : cm (a * b) x = a * cm b x + cm a x * b := by
  unfold cm; noncomm_ring

theorem cm_add (a b x : A) : cm (a + b) x = cm a x + cm b x := by unfold cm; noncomm_ring
theorem cm_sub (a b x : A) : cm (a - b) x = cm a x - cm b x := by unfold cm; noncomm_ring
theorem cm_neg (a x : A) : cm (-a) x = - cm a x := by unfold cm; noncomm_ring
theorem cm_zero (x : A) : cm 0 x = 0 := by unfold cm; noncomm_ring
theorem cm_smul (k : K) (a x : A) : cm (k • a) x = k • cm a x := by
  unfold cm; rw [smul_mul_assoc, mul_smul_comm, smul_sub]
theorem cm_sum {ι : Type} (s : Finset ι) (f : ι → A) (x : A) :
    cm (∑ i ∈ s, f i) x = ∑ i ∈ s, cm (f i) x := by
  unfold cm; rw [Finset.sum_mul, Finset.mul_sum, Finset.sum_sub_distrib]
theorem cm_add_right (a x y : A) : cm a (x + y) = cm a x + cm a y := by unfold cm; noncomm_ring
theorem cm_sum_right {ι : Type} (s : Finset ι) (a : A) (f : ι → A) :
    cm a (∑ i ∈ s, f i) = ∑ i ∈ s, cm a (f i) := by
  unfold cm; rw [Finset.sum_mul, Finset.mul_sum, Finset.sum_sub_distrib]

/-- `[c_x, c†_u c_d] = δ_{xu} c_d` -/
theorem cm_c_hop (x u d : Nat) :
    cm (r.c x) (r.cd u * r.c d) = if x = u then r.c d else 0 := by
  have h1 := r.ccd x u
  have h2 := r.cc x d
  unfold cm
  split
  · rw [if_pos ‹_›] at h1
    linear_combination (norm := noncomm_ring) h1 * r.c d - r.cd u * h2
  · rw [if_neg ‹_›] at h1
    linear_combination (norm := noncomm_ring) h1 * r.c d - r.cd u * h2

/-- `[c†_x, c†_u c_d] = −δ_{xd} c†_u` -/
theorem cm_cd_hop (x u d : Nat) :
    cm (r.cd x) (r.cd u * r.c d) = if d = x then - r.cd u else 0 := by
  have h1 := r.cdcd x u
  have h2 := r.ccd d x
  unfold cm
  split
  · rw [if_pos ‹_›] at h2
    linear_combination (norm := noncomm_ring) h1 * r.c d - r.cd u * h2
  · rw [if_neg ‹_›] at h2
    linear_combination (norm := noncomm_ring) h1 * r.c d - r.cd u * h2

/-- number operators commute with the operators of other modes -/
theorem num_c_comm (x y : Nat) (h : x ≠ y) : num r x * r.c y = r.c y * num r x := by
  have h1 := r.cc x y
  have h2 := r.ccd y x
  rw [if_neg (Ne.symm h)] at h2
  unfold num
  linear_combination (norm := noncomm_ring) r.cd x * h1 - h2 * r.c x

theorem num_cd_comm (x y : Nat) (h : x ≠ y) : num r x * r.cd y = r.cd y * num r x := by
  have h1 := r.cdcd y x
  have h2 := r.ccd x y
  rw [if_neg h] at h2
  unfold num
  linear_combination (norm := noncomm_ring) r.cd x * h2 - h1 * r.c x

theorem num_num_comm (x y : Nat) : num r x * num r y = num r y * num r x := by
  by_cases h : x = y
  · rw [h]
  · show num r x * (r.cd y * r.c y) = (r.cd y * r.c y) * num r x
    rw [← mul_assoc, num_cd_comm r x y h, mul_assoc, num_c_comm r x y h, ← mul_assoc]

end CARAlg

section SU2
variable {K A : Type} [Field K] [Ring A] [Algebra K A]
variable (r : CARRep K A)

/-- `X` acts on the modes `(up α, dn α)`, `α < n`, as the total-spin raising operator does:
`[c_↑, X] = c_↓`, `[c_↓, X] = 0`, `[c†_↑, X] = 0`, `[c†_↓, X] = −c†_↑`. -/
structure SpinRaise (X : A) (up dn : Nat → Nat) (n : Nat) : Prop where
  c_up : ∀ α < n, cm (r.c (up α)) X = r.c (dn α)
  c_dn : ∀ α < n, cm (r.c (dn α)) X = 0
  cd_up : ∀ α < n, cm (r.cd (up α)) X = 0
  cd_dn : ∀ α < n, cm (r.cd (dn α)) X = - r.cd (up α)

/-- the `2 n` modes `up α`, `dn α` (`α < n`) are pairwise different -/
structure ModesDistinct (up dn : Nat → Nat) (n : Nat) : Prop where
  ud : ∀ α < n, ∀ β < n, up α ≠ dn β
  uu : ∀ α < n, ∀ β < n, α ≠ β → up α ≠ up β
  dd : ∀ α < n, ∀ β < n, α ≠ β → dn α ≠ dn β

variable {r} {X : A} {up dn : Nat → Nat} {n : Nat}

theorem SpinRaise.cm_nu (h : SpinRaise r X up dn n) {α : Nat} (hα : α < n) :
    cm (num r (up α)) X = sPlus r (up α) (dn α) := by
  unfold num sPlus
  rw [cm_mul, h.c_up α hα, h.cd_up α hα, zero_mul, add_zero]

theorem SpinRaise.cm_nd (h : SpinRaise r X up dn n) {α : Nat} (hα : α < n) :
    cm (num r (dn α)) X = - sPlus r (up α) (dn α) := by
  unfold num sPlus
  rw [cm_mul, h.c_dn α hα, h.cd_dn α hα, mul_zero, zero_add, neg_mul]

theorem SpinRaise.cm_sp (h : SpinRaise r X up dn n) {α : Nat} (hα : α < n) :
    cm (sPlus r (up α) (dn α)) X = 0 := by
  unfold sPlus
  rw [cm_mul, h.c_dn α hα, h.cd_up α hα, zero_mul, mul_zero, add_zero]

theorem SpinRaise.cm_sm (h : SpinRaise r X up dn n) {α : Nat} (hα : α < n) :
    cm (sMinus r (up α) (dn α)) X = num r (dn α) - num r (up α) := by
  unfold sMinus num
  rw [cm_mul, h.c_up α hα, h.cd_dn α hα, neg_mul, sub_eq_add_neg]

theorem SpinRaise.cm_sz (h2 : (2 : K) ≠ 0) (h : SpinRaise r X up dn n) {α : Nat} (hα : α < n) :
    cm (sZ r (up α) (dn α)) X = sPlus r (up α) (dn α) := by
  unfold sZ
  rw [cm_smul, cm_sub, h.cm_nu hα, h.cm_nd hα, sub_neg_eq_add, ← two_smul K, smul_smul,
    inv_mul_cancel₀ h2, one_smul]

/-- The operator documented for `addSS`: `J Σ_α [ S^z_{1α} S^z_{2α} + ½ (S⁺_{1α} S⁻_{2α} + S⁻_{1α} S⁺_{2α}) ]`
(`u1 α`, `d1 α`: indices of spin up / down of orbital `α` of the first site, `u2`, `d2`: second site). -/
def ssOp (r : CARRep K A) (u1 d1 u2 d2 : Nat → Nat) (n : Nat) (J : K) : A :=
  J • ∑ α ∈ range n,
    (sZ r (u1 α) (d1 α) * sZ r (u2 α) (d2 α) +
      (2 : K)⁻¹ • (sPlus r (u1 α) (d1 α) * sMinus r (u2 α) (d2 α) +
                   sMinus r (u1 α) (d1 α) * sPlus r (u2 α) (d2 α)))

/-- The operator documented for `addSzSz`: `J Σ_α S^z_{1α} S^z_{2α}`. -/
def szszOp (r : CARRep K A) (u1 d1 u2 d2 : Nat → Nat) (n : Nat) (J : K) : A :=
  J • ∑ α ∈ range n, sZ r (u1 α) (d1 α) * sZ r (u2 α) (d2 α)

/-- **The spin-spin exchange commutes with every operator that acts on its modes as the total-spin
raising operator does** -- purely from the Leibniz rule; the two sites may coincide. -/
theorem ss_commutes (h2 : (2 : K) ≠ 0) {u1 d1 u2 d2 : Nat → Nat} (h1 : SpinRaise r X u1 d1 n)
    (h2' : SpinRaise r X u2 d2 n) (J : K) : cm (ssOp r u1 d1 u2 d2 n J) X = 0 := by
  unfold ssOp
  rw [cm_smul, cm_sum, Finset.sum_eq_zero, smul_zero]
  intro α hα
  rw [Finset.mem_range] at hα
  rw [cm_add, cm_smul, cm_add, cm_mul, cm_mul, cm_mul, h1.cm_sz h2 hα, h2'.cm_sz h2 hα,
    h1.cm_sp hα, h2'.cm_sp hα, h1.cm_sm hα, h2'.cm_sm hα]
  unfold sZ
  simp only [smul_mul_assoc, mul_smul_comm, zero_mul, mul_zero, add_zero, zero_add, ← smul_add]
  rw [show (num r (u1 α) - num r (d1 α)) * sPlus r (u2 α) (d2 α) +
        sPlus r (u1 α) (d1 α) * (num r (u2 α) - num r (d2 α)) +
        (sPlus r (u1 α) (d1 α) * (num r (d2 α) - num r (u2 α)) +
          (num r (d1 α) - num r (u1 α)) * sPlus r (u2 α) (d2 α)) = 0 by noncomm_ring, smul_zero]

end SU2

section KanamoriSU2
variable {K A : Type} [Field K] [Ring A] [Algebra K A]
variable {r : CARRep K A} {X : A} {up dn : Nat → Nat} {n : Nat}

/-- sums over ordered pairs of different orbitals are symmetric -/
theorem offdiag_swap (n : Nat) (f : Nat → Nat → A) :
    ∑ α ∈ range n, ∑ β ∈ range n with α ≠ β, f α β =
    ∑ α ∈ range n, ∑ β ∈ range n with α ≠ β, f β α := by
  simp only [Finset.sum_filter]
  rw [Finset.sum_comm]
  refine Finset.sum_congr rfl (fun α _ => Finset.sum_congr rfl (fun β _ => ?_))
  by_cases h : α = β
  · subst h; rfl
  · rw [if_pos h, if_pos (Ne.symm h)]

theorem offdiag_congr (n : Nat) (f g : Nat → Nat → A)
    (h : ∀ α < n, ∀ β < n, α ≠ β → f α β = g α β) :
    ∑ α ∈ range n, ∑ β ∈ range n with α ≠ β, f α β =
    ∑ α ∈ range n, ∑ β ∈ range n with α ≠ β, g α β := by
  refine Finset.sum_congr rfl (fun α hα => Finset.sum_congr rfl (fun β hβ => ?_))
  rw [Finset.mem_filter, Finset.mem_range] at hβ
  exact h α (Finset.mem_range.mp hα) β hβ.1 hβ.2

variable (hc : ∀ i, r.c i * r.c i = 0) (hcd : ∀ i, r.cd i * r.cd i = 0)
include hc hcd

/-- `[n_{α↑} n_{α↓}, S⁺] = 0` -/
theorem SpinRaise.cm_nund_same (h : SpinRaise r X up dn n) {α : Nat} (hα : α < n) :
    cm (num r (up α) * num r (dn α)) X = 0 := by
  rw [cm_mul, h.cm_nu hα, h.cm_nd hα]
  unfold num sPlus
  have e1 := r.ccd (up α) (up α)
  have e2 := r.ccd (dn α) (dn α)
  rw [if_pos rfl] at e1 e2
  have e3 := hcd (up α)
  have e4 := hc (dn α)
  linear_combination (norm := noncomm_ring)
    (- r.cd (up α)) * e1 * r.c (dn α) + r.cd (up α) * e2 * r.c (dn α)
      + e3 * r.c (up α) * r.c (dn α) - r.cd (up α) * r.cd (dn α) * e4


omit hc hcd in
/-- `[n_{α↑} n_{β↓}, S⁺] = −n_{α↑} S⁺_β + n_{β↓} S⁺_α` for `α ≠ β` -/
theorem SpinRaise.cm_nund (h : SpinRaise r X up dn n) (hm : ModesDistinct up dn n) {α β : Nat}
    (hα : α < n) (hβ : β < n) (hne : α ≠ β) :
    cm (num r (up α) * num r (dn β)) X =
      - (num r (up α) * sPlus r (up β) (dn β)) + num r (dn β) * sPlus r (up α) (dn α) := by
  rw [cm_mul, h.cm_nu hα, h.cm_nd hβ]
  have e1 := num_cd_comm r (dn β) (up α) (Ne.symm (hm.ud α hα β hβ))
  have e2 := num_c_comm r (dn β) (dn α) (hm.dd β hβ α hα (Ne.symm hne))
  unfold sPlus num at *
  linear_combination (norm := noncomm_ring) - e1 * r.c (dn α) - r.cd (up α) * e2

omit hc hcd in
/-- `[n_{α↑} n_{β↑}, S⁺] = n_{α↑} S⁺_β + n_{β↑} S⁺_α` for `α ≠ β` -/
theorem SpinRaise.cm_nunu (h : SpinRaise r X up dn n) (hm : ModesDistinct up dn n) {α β : Nat}
    (hα : α < n) (hβ : β < n) (hne : α ≠ β) :
    cm (num r (up α) * num r (up β)) X =
      num r (up α) * sPlus r (up β) (dn β) + num r (up β) * sPlus r (up α) (dn α) := by
  rw [cm_mul, h.cm_nu hα, h.cm_nu hβ]
  have e1 := num_cd_comm r (up β) (up α) (hm.uu β hβ α hα (Ne.symm hne))
  have e2 := num_c_comm r (up β) (dn α) (hm.ud β hβ α hα)
  unfold sPlus num at *
  linear_combination (norm := noncomm_ring) - e1 * r.c (dn α) - r.cd (up α) * e2

omit hc hcd in
/-- `[n_{α↓} n_{β↓}, S⁺] = −n_{α↓} S⁺_β − n_{β↓} S⁺_α` for `α ≠ β` -/
theorem SpinRaise.cm_ndnd (h : SpinRaise r X up dn n) (hm : ModesDistinct up dn n) {α β : Nat}
    (hα : α < n) (hβ : β < n) (hne : α ≠ β) :
    cm (num r (dn α) * num r (dn β)) X =
      - (num r (dn α) * sPlus r (up β) (dn β)) - num r (dn β) * sPlus r (up α) (dn α) := by
  rw [cm_mul, h.cm_nd hα, h.cm_nd hβ]
  have e1 := num_cd_comm r (dn β) (up α) (Ne.symm (hm.ud α hα β hβ))
  have e2 := num_c_comm r (dn β) (dn α) (hm.dd β hβ α hα (Ne.symm hne))
  unfold sPlus num at *
  linear_combination (norm := noncomm_ring) e1 * r.c (dn α) + r.cd (up α) * e2

omit hc hcd in
/-- `[c†_{α↑} c†_{β↓} c_{β↑} c_{α↓}, S⁺] = n_{β↓} S⁺_α − n_{β↑} S⁺_α` for `α ≠ β` -/
theorem SpinRaise.cm_spinflip (h : SpinRaise r X up dn n) (hm : ModesDistinct up dn n) {α β : Nat}
    (hα : α < n) (hβ : β < n) (hne : α ≠ β) :
    cm (r.cd (up α) * r.cd (dn β) * r.c (up β) * r.c (dn α)) X =
      num r (dn β) * sPlus r (up α) (dn α) - num r (up β) * sPlus r (up α) (dn α) := by
  rw [cm_mul, cm_mul, cm_mul, h.c_dn α hα, h.c_up β hβ, h.cd_dn β hβ, h.cd_up α hα]
  have e1 := num_cd_comm r (dn β) (up α) (Ne.symm (hm.ud α hα β hβ))
  have e2 := num_cd_comm r (up β) (up α) (hm.uu β hβ α hα (Ne.symm hne))
  unfold sPlus num at *
  linear_combination (norm := noncomm_ring) - e1 * r.c (dn α) + e2 * r.c (dn α)

/-- `[c†_{α↑} c†_{α↓} c_{β↑} c_{β↓}, S⁺] = 0` -/
theorem SpinRaise.cm_pairhop (h : SpinRaise r X up dn n) {α β : Nat}
    (hα : α < n) (hβ : β < n) :
    cm (r.cd (up α) * r.cd (dn α) * r.c (up β) * r.c (dn β)) X = 0 := by
  rw [cm_mul, cm_mul, cm_mul, h.c_dn β hβ, h.c_up β hβ, h.cd_dn α hα, h.cd_up α hα]
  have e3 := hcd (up α)
  have e4 := hc (dn β)
  linear_combination (norm := noncomm_ring)
    r.cd (up α) * r.cd (dn α) * e4 - e3 * r.c (up β) * r.c (dn β)


omit hc hcd in
/-- `kanamoriOp` on a site with two spin components -/
theorem kanamoriOp_two_spins (idx : Nat → Nat → Nat) (n : Nat) (U Up J lv : K) :
    kanamoriOp r idx n 2 U Up J lv =
      U • (∑ α ∈ range n, num r (idx α spinUp) * num r (idx α spinDown)) +
      Up • (∑ α ∈ range n, ∑ β ∈ range n with α ≠ β,
        num r (idx α spinUp) * num r (idx β spinDown)) +
      ((Up - J) / 2) • (∑ α ∈ range n, ∑ β ∈ range n with α ≠ β,
        (num r (idx α spinUp) * num r (idx β spinUp) +
          num r (idx α spinDown) * num r (idx β spinDown))) +
      (-J) • (∑ α ∈ range n, ∑ β ∈ range n with α ≠ β,
        (spinflipOp r idx α β spinUp spinDown + pairhopOp r idx α β spinUp spinDown)) +
      lv • (∑ α ∈ range n, (num r (idx α spinUp) + num r (idx α spinDown))) := by
  unfold kanamoriOp
  simp only [sum_spin_pairs_two]
  simp only [sum_spins_two]

/-- **The Kanamori interaction commutes with every operator that acts on the modes of the site as
the total-spin raising operator does**, for every number of orbitals and all `U`, `U'`, `J`, `ε`
(the relation `U' = U − 2J` is not needed for the SPIN rotation invariance; what matters is that the
same-spin coefficient is `U' − J` -- two times `(U'−J)/2`, the sum running over ordered pairs -- and
that the spin-flip amplitude is `−J`). -/
theorem kanamori_commutes (h2 : (2 : K) ≠ 0) (idx : Nat → Nat → Nat)
    (h : SpinRaise r X (fun α => idx α spinUp) (fun α => idx α spinDown) n)
    (hm : ModesDistinct (fun α => idx α spinUp) (fun α => idx α spinDown) n) (U Up J lv : K) :
    cm (kanamoriOp r idx n 2 U Up J lv) X = 0 := by
  rw [kanamoriOp_two_spins]
  simp only [cm_add, cm_smul, cm_sum]
  have p1 : ∑ α ∈ range n, cm (num r (idx α spinUp) * num r (idx α spinDown)) X = 0 :=
    Finset.sum_eq_zero (fun α hα => h.cm_nund_same hc hcd (Finset.mem_range.mp hα))
  have p5 : ∑ α ∈ range n, (cm (num r (idx α spinUp)) X + cm (num r (idx α spinDown)) X) = 0 := by
    refine Finset.sum_eq_zero (fun α hα => ?_)
    have e1 := h.cm_nu (Finset.mem_range.mp hα)
    have e2 := h.cm_nd (Finset.mem_range.mp hα)
    rw [e1, e2, add_neg_cancel]
  set Pu : A := ∑ α ∈ range n, ∑ β ∈ range n with α ≠ β,
    num r (idx α spinUp) * sPlus r (idx β spinUp) (idx β spinDown) with hPu
  set Pd : A := ∑ α ∈ range n, ∑ β ∈ range n with α ≠ β,
    num r (idx α spinDown) * sPlus r (idx β spinUp) (idx β spinDown) with hPd
  have p2 : ∑ α ∈ range n, ∑ β ∈ range n with α ≠ β,
      cm (num r (idx α spinUp) * num r (idx β spinDown)) X = - Pu + Pd := by
    rw [offdiag_congr n _ _ (fun α hα β hβ hne => h.cm_nund hm hα hβ hne)]
    simp only [Finset.sum_add_distrib, Finset.sum_neg_distrib]
    rw [hPd, offdiag_swap n (fun α β => num r (idx α spinDown) * sPlus r (idx β spinUp) (idx β spinDown))]
  have p3 : ∑ α ∈ range n, ∑ β ∈ range n with α ≠ β,
      (cm (num r (idx α spinUp) * num r (idx β spinUp)) X +
        cm (num r (idx α spinDown) * num r (idx β spinDown)) X) = Pu + Pu - Pd - Pd := by
    rw [offdiag_congr n _ _ (fun α hα β hβ hne => congrArg₂ (· + ·)
      (h.cm_nunu hm hα hβ hne) (h.cm_ndnd hm hα hβ hne))]
    simp only [Finset.sum_add_distrib, Finset.sum_neg_distrib, Finset.sum_sub_distrib]
    rw [hPu, hPd, offdiag_swap n (fun α β => num r (idx α spinDown) * sPlus r (idx β spinUp) (idx β spinDown)),
      offdiag_swap n (fun α β => num r (idx α spinUp) * sPlus r (idx β spinUp) (idx β spinDown))]
    abel
  have p4 : ∑ α ∈ range n, ∑ β ∈ range n with α ≠ β,
      (cm (spinflipOp r idx α β spinUp spinDown) X + cm (pairhopOp r idx α β spinUp spinDown) X)
        = Pd - Pu := by
    refine (offdiag_congr n _ _ (fun α hα β hβ hne => congrArg₂ (· + ·)
      (h.cm_spinflip hm hα hβ hne) (h.cm_pairhop hc hcd hα hβ))).trans ?_
    simp only [Finset.sum_add_distrib, Finset.sum_sub_distrib, Finset.sum_const_zero, add_zero]
    rw [hPu, hPd, offdiag_swap n (fun α β => num r (idx α spinDown) * sPlus r (idx β spinUp) (idx β spinDown)),
      offdiag_swap n (fun α β => num r (idx α spinUp) * sPlus r (idx β spinUp) (idx β spinDown))]
  rw [p1, p2, p3, p4, p5, smul_zero, smul_zero, zero_add, add_zero]
  have hc' : (Up - J) / 2 + (Up - J) / 2 = Up - J := by
    rw [← two_mul, mul_div_cancel₀ _ h2]
  have : Up • (-Pu + Pd) + ((Up - J) / 2) • (Pu + Pu - Pd - Pd) + -J • (Pd - Pu) =
      (((Up - J) / 2 + (Up - J) / 2) - (Up - J)) • (Pu - Pd) := by module
  rw [this, hc', sub_self, zero_smul]

end KanamoriSU2

section TotalSpin
variable {K A : Type} [Field K] [Ring A] [Algebra K A]
variable (r : CARRep K A) {ι : Type} [DecidableEq ι]

/-- total-spin raising operator `S⁺ = Σ_p c†_{p↑} c_{p↓}` of a family `P` of orbitals
(`u p`, `d p`: single-particle indices of spin up / down of orbital `p`) -/
def totalSplus (P : Finset ι) (u d : ι → Nat) : A := ∑ p ∈ P, r.cd (u p) * r.c (d p)

/-- total-spin lowering operator `S⁻ = Σ_p c†_{p↓} c_{p↑}` -/
def totalSminus (P : Finset ι) (u d : ι → Nat) : A := ∑ p ∈ P, r.cd (d p) * r.c (u p)

/-- different (orbital, spin) pairs of the family have different single-particle indices -/
structure SpinModes (P : Finset ι) (u d : ι → Nat) : Prop where
  u_inj : ∀ p ∈ P, ∀ q ∈ P, u p = u q → p = q
  d_inj : ∀ p ∈ P, ∀ q ∈ P, d p = d q → p = q
  ud : ∀ p ∈ P, ∀ q ∈ P, u p ≠ d q

theorem SpinModes.swap {P : Finset ι} {u d : ι → Nat} (h : SpinModes P u d) : SpinModes P d u :=
  ⟨h.d_inj, h.u_inj, fun p hp q hq e => h.ud q hq p hp e.symm⟩

theorem totalSminus_eq (P : Finset ι) (u d : ι → Nat) : totalSminus r P u d = totalSplus r P d u := rfl

variable {r}

/-- the total `S⁺` of a family of orbitals acts on each of its orbitals as required by `SpinRaise` -/
theorem spinRaise_total {P : Finset ι} {u d : ι → Nat} (hP : SpinModes P u d) (e : Nat → ι) (n : Nat)
    (he : ∀ α < n, e α ∈ P) :
    SpinRaise r (totalSplus r P u d) (fun α => u (e α)) (fun α => d (e α)) n := by
  refine ⟨fun α hα => ?_, fun α hα => ?_, fun α hα => ?_, fun α hα => ?_⟩
  · show cm (r.c (u (e α))) (∑ p ∈ P, r.cd (u p) * r.c (d p)) = r.c (d (e α))
    rw [cm_sum_right, Finset.sum_eq_single (e α)]
    · rw [cm_c_hop, if_pos rfl]
    · intro p hp hne
      rw [cm_c_hop, if_neg (fun h => hne (hP.u_inj p hp _ (he α hα) h.symm))]
    · intro h; exact absurd (he α hα) h
  · show cm (r.c (d (e α))) (∑ p ∈ P, r.cd (u p) * r.c (d p)) = 0
    rw [cm_sum_right]
    refine Finset.sum_eq_zero (fun p hp => ?_)
    rw [cm_c_hop, if_neg (fun h => hP.ud p hp _ (he α hα) h.symm)]
  · show cm (r.cd (u (e α))) (∑ p ∈ P, r.cd (u p) * r.c (d p)) = 0
    rw [cm_sum_right]
    refine Finset.sum_eq_zero (fun p hp => ?_)
    rw [cm_cd_hop, if_neg (fun h => hP.ud _ (he α hα) p hp h.symm)]
  · show cm (r.cd (d (e α))) (∑ p ∈ P, r.cd (u p) * r.c (d p)) = - r.cd (u (e α))
    rw [cm_sum_right, Finset.sum_eq_single (e α)]
    · rw [cm_cd_hop, if_pos rfl]
    · intro p hp hne
      rw [cm_cd_hop, if_neg (fun h => hne (hP.d_inj p hp _ (he α hα) h))]
    · intro h; exact absurd (he α hα) h

theorem modesDistinct_total {P : Finset ι} {u d : ι → Nat} (hP : SpinModes P u d) (e : Nat → ι)
    (n : Nat) (he : ∀ α < n, e α ∈ P) (hinj : ∀ α < n, ∀ β < n, e α = e β → α = β) :
    ModesDistinct (fun α => u (e α)) (fun α => d (e α)) n :=
  ⟨fun α hα β hβ => hP.ud _ (he α hα) _ (he β hβ),
   fun α hα β hβ hne h => hne (hinj α hα β hβ (hP.u_inj _ (he α hα) _ (he β hβ) h)),
   fun α hα β hβ hne h => hne (hinj α hα β hβ (hP.d_inj _ (he α hα) _ (he β hβ) h))⟩

/-! the index table -/

/-- `getIndex` is injective on the entries of the table -/
theorem getIndex_inj_of_mem (tbl : List Idx.IndexInfo) (x y : Idx.IndexInfo) (hx : x ∈ tbl)
    (h : Idx.getIndex tbl x = Idx.getIndex tbl y) : x = y := by
  unfold Idx.getIndex at h
  cases hfx : tbl.findIdx? (· = x) with
  | none =>
    rw [List.findIdx?_eq_none_iff] at hfx
    have := hfx x hx
    simp at this
  | some i =>
    rw [hfx] at h
    rw [List.findIdx?_eq_some_iff_getElem] at hfx
    obtain ⟨hi, hxi, _⟩ := hfx
    cases hfy : tbl.findIdx? (· = y) with
    | none =>
      rw [hfy] at h
      simp only at h
      omega
    | some j =>
      rw [hfy] at h
      simp only at h
      subst h
      rw [List.findIdx?_eq_some_iff_getElem] at hfy
      obtain ⟨hj, hyj, _⟩ := hfy
      simp only [decide_eq_true_eq] at hxi hyj
      rw [← hxi, ← hyj]

/-- orbitals `(site label, orbital)` whose two spin components are in the index table have pairwise
different single-particle indices -/
theorem spinModes_of_mem (tbl : List Idx.IndexInfo) (P : Finset (String × Nat))
    (hP : ∀ p ∈ P, (⟨p.1, p.2, spinUp⟩ : Idx.IndexInfo) ∈ tbl ∧
      (⟨p.1, p.2, spinDown⟩ : Idx.IndexInfo) ∈ tbl) :
    SpinModes P (fun p => idxOf tbl p.1 p.2 spinUp) (fun p => idxOf tbl p.1 p.2 spinDown) := by
  refine ⟨fun p hp q hq h => ?_, fun p hp q hq h => ?_, fun p hp q hq h => ?_⟩
  · have := getIndex_inj_of_mem tbl _ _ (hP p hp).1 h
    injection this with h1 h2 _
    exact Prod.ext h1 h2
  · have := getIndex_inj_of_mem tbl _ _ (hP p hp).2 h
    injection this with h1 h2 _
    exact Prod.ext h1 h2
  · have := getIndex_inj_of_mem tbl _ _ (hP p hp).1 h
    injection this with _ _ h3
    exact absurd h3 (by decide)

/-- all orbitals of all sites -/
def allOrbitals (sites : List Site) : Finset (String × Nat) :=
  (sites.flatMap fun s => (List.range s.norb).map fun α => (s.label, α)).toFinset

theorem mem_allOrbitals (sites : List Site) (p : String × Nat) :
    p ∈ allOrbitals sites ↔ ∃ s ∈ sites, s.label = p.1 ∧ p.2 < s.norb := by
  unfold allOrbitals
  simp only [List.mem_toFinset, List.mem_flatMap, List.mem_map, List.mem_range]
  constructor
  · rintro ⟨s, hs, α, hα, rfl⟩; exact ⟨s, hs, rfl, hα⟩
  · rintro ⟨s, hs, h1, h2⟩; exact ⟨s, hs, p.2, h2, by rw [h1]⟩

/-- The hypothesis of `spinModes_of_mem` holds for the table `IndexClassification` builds (either
ordering mode) and ALL orbitals of ALL sites, when every site has (at least) two spin components. -/
theorem allOrbitals_in_table (sites : List Site) (hd : (sites.map (·.label)).Nodup) (mode : Bool)
    (hs : ∀ s ∈ sites, 2 ≤ s.nspin) :
    ∀ p ∈ allOrbitals sites,
      (⟨p.1, p.2, spinUp⟩ : Idx.IndexInfo) ∈ Idx.enumerate sites mode ∧
      (⟨p.1, p.2, spinDown⟩ : Idx.IndexInfo) ∈ Idx.enumerate sites mode := by
  intro p hp
  rw [mem_allOrbitals] at hp
  obtain ⟨s, hs', h1, h2⟩ := hp
  have := hs s hs'
  constructor
  · rw [IndexBij.enumerate_mem sites hd]
    exact ⟨s, hs', h1, h2, by show 1 < s.nspin; omega⟩
  · rw [IndexBij.enumerate_mem sites hd]
    exact ⟨s, hs', h1, h2, by show 0 < s.nspin; omega⟩

end TotalSpin

section SpinSwap
variable {K A : Type} [Field K] [Ring A] [Algebra K A]
variable (r : CARRep K A)

theorem four_swap (a b x y : Nat) :
    r.cd a * r.cd b * r.c x * r.c y = r.cd b * r.cd a * r.c y * r.c x := by
  have h1 := r.cdcd a b
  have h2 := r.cc x y
  linear_combination (norm := noncomm_ring) h1 * r.c x * r.c y - r.cd b * r.cd a * h2

theorem sZ_swap (u d : Nat) : sZ r d u = - sZ r u d := by
  unfold sZ
  rw [← smul_neg, neg_sub]

/-- exchanging the names of the two spin components does not change the spin-spin exchange -/
theorem ssOp_spin_swap (u1 d1 u2 d2 : Nat → Nat) (n : Nat) (J : K) :
    ssOp r d1 u1 d2 u2 n J = ssOp r u1 d1 u2 d2 n J := by
  unfold ssOp
  congr 1
  refine Finset.sum_congr rfl (fun α _ => ?_)
  rw [sZ_swap r (u1 α), sZ_swap r (u2 α), neg_mul_neg]
  congr 2
  exact add_comm _ _

/-- exchanging the names of the two spin components does not change the Kanamori interaction -/
theorem kanamoriOp_spin_swap (idx : Nat → Nat → Nat) (n : Nat) (U Up J lv : K) :
    kanamoriOp r (fun α σ => idx α (1 - σ)) n 2 U Up J lv = kanamoriOp r idx n 2 U Up J lv := by
  rw [kanamoriOp_two_spins, kanamoriOp_two_spins]
  have e1 : 1 - spinUp = spinDown := rfl
  have e2 : 1 - spinDown = spinUp := rfl
  simp only [spinflipOp, pairhopOp, e1, e2]
  congr 1
  congr 1
  congr 1
  congr 1
  · congr 1
    exact Finset.sum_congr rfl (fun α _ => num_num_comm r _ _)
  · congr 1
    rw [offdiag_swap]
    exact offdiag_congr n _ _ (fun α _ β _ _ => num_num_comm r _ _)
  · congr 1
    exact offdiag_congr n _ _ (fun α _ β _ _ => add_comm _ _)
  · congr 1
    simp only [Finset.sum_add_distrib]
    congr 1
    · rw [offdiag_swap]
      exact offdiag_congr n _ _ (fun α _ β _ _ => four_swap r _ _ _ _)
    · exact offdiag_congr n _ _ (fun α _ β _ _ => four_swap r _ _ _ _)
  · congr 1
    exact Finset.sum_congr rfl (fun α _ => add_comm _ _)

end SpinSwap

section SU2Lattice
variable {K A : Type} [Field K] [Ring A] [Algebra K A]
variable (r : CARRep K A) (tbl : List Idx.IndexInfo)

/-- single-particle index of spin up / down of the orbital `p = (site label, orbital)` -/
def upIdx (p : String × Nat) : Nat := idxOf tbl p.1 p.2 spinUp
def dnIdx (p : String × Nat) : Nat := idxOf tbl p.1 p.2 spinDown

/-- `S⁺ = Σ_{(site, α) ∈ P} c†_{site α ↑} c_{site α ↓}` -/
def latSplus (P : Finset (String × Nat)) : A := totalSplus r P (upIdx tbl) (dnIdx tbl)
/-- `S⁻ = Σ_{(site, α) ∈ P} c†_{site α ↓} c_{site α ↑}` -/
def latSminus (P : Finset (String × Nat)) : A := totalSminus r P (upIdx tbl) (dnIdx tbl)

/-- `P` is a set of orbitals whose spin-up and spin-down components are entries of the index table -/
def InTable (P : Finset (String × Nat)) : Prop :=
  ∀ p ∈ P, (⟨p.1, p.2, spinUp⟩ : Idx.IndexInfo) ∈ tbl ∧ (⟨p.1, p.2, spinDown⟩ : Idx.IndexInfo) ∈ tbl

/-- the spin-spin exchange of two sites (possibly the same) in terms of the index table -/
def ssLatOp (l1 l2 : String) (n : Nat) (J : K) : A :=
  ssOp r (fun α => idxOf tbl l1 α spinUp) (fun α => idxOf tbl l1 α spinDown)
    (fun α => idxOf tbl l2 α spinUp) (fun α => idxOf tbl l2 α spinDown) n J

variable {r tbl}

theorem spinRaise_lat {P : Finset (String × Nat)} (hP : InTable tbl P) (l : String) (n : Nat)
    (hl : ∀ α < n, (l, α) ∈ P) :
    SpinRaise r (latSplus r tbl P) (fun α => idxOf tbl l α spinUp) (fun α => idxOf tbl l α spinDown) n :=
  spinRaise_total (spinModes_of_mem tbl P hP) (fun α => (l, α)) n hl

theorem spinLower_lat {P : Finset (String × Nat)} (hP : InTable tbl P) (l : String) (n : Nat)
    (hl : ∀ α < n, (l, α) ∈ P) :
    SpinRaise r (latSminus r tbl P) (fun α => idxOf tbl l α spinDown) (fun α => idxOf tbl l α spinUp) n :=
  spinRaise_total (spinModes_of_mem tbl P hP).swap (fun α => (l, α)) n hl

theorem modesDistinct_lat {P : Finset (String × Nat)} (hP : InTable tbl P) (l : String) (n : Nat)
    (hl : ∀ α < n, (l, α) ∈ P) :
    ModesDistinct (fun α => idxOf tbl l α spinUp) (fun α => idxOf tbl l α spinDown) n :=
  modesDistinct_total (spinModes_of_mem tbl P hP) (fun α => (l, α)) n hl
    (fun α _ β _ h => (Prod.ext_iff.mp h).2)

/-- **SU(2) invariance of the Kanamori interaction**: for every number of orbitals and all `U`, `U'`,
`J`, `ε` the operator `addCoulombP` adds to a site with two spin components commutes with `S⁺` and
`S⁻` of every set `P` of orbitals of the lattice that contains the orbitals of the site (in
particular: all orbitals of all sites). -/
theorem kanamori_su2 (hc : ∀ i, r.c i * r.c i = 0) (hcd : ∀ i, r.cd i * r.cd i = 0)
    (h2 : (2 : K) ≠ 0) {P : Finset (String × Nat)} (hP : InTable tbl P) (l : String) (n : Nat)
    (hl : ∀ α < n, (l, α) ∈ P) (U Up J lv : K) :
    cm (kanamoriOp r (idxOf tbl l) n 2 U Up J lv) (latSplus r tbl P) = 0 ∧
    cm (kanamoriOp r (idxOf tbl l) n 2 U Up J lv) (latSminus r tbl P) = 0 := by
  constructor
  · exact kanamori_commutes hc hcd h2 (idxOf tbl l) (spinRaise_lat hP l n hl)
      (modesDistinct_lat hP l n hl) U Up J lv
  · rw [← kanamoriOp_spin_swap]
    refine kanamori_commutes hc hcd h2 (fun α σ => idxOf tbl l α (1 - σ)) ?_ ?_ U Up J lv
    · exact spinLower_lat hP l n hl
    · have := modesDistinct_lat hP l n hl
      exact ⟨fun α hα β hβ => (this.ud β hβ α hα).symm, this.dd, this.uu⟩

/-- **SU(2) invariance of the spin-spin exchange** between two sites, or on one site (`l1 = l2`). -/
theorem ss_su2 (h2 : (2 : K) ≠ 0) {P : Finset (String × Nat)} (hP : InTable tbl P) (l1 l2 : String)
    (n : Nat) (hl1 : ∀ α < n, (l1, α) ∈ P) (hl2 : ∀ α < n, (l2, α) ∈ P) (J : K) :
    cm (ssLatOp r tbl l1 l2 n J) (latSplus r tbl P) = 0 ∧
    cm (ssLatOp r tbl l1 l2 n J) (latSminus r tbl P) = 0 := by
  constructor
  · exact ss_commutes h2 (spinRaise_lat hP l1 n hl1) (spinRaise_lat hP l2 n hl2) J
  · unfold ssLatOp
    rw [← ssOp_spin_swap]
    exact ss_commutes h2 (spinLower_lat hP l1 n hl1) (spinLower_lat hP l2 n hl2) J

end SU2Lattice

section Documented
variable {K A : Type} [Field K] [Ring A] [Algebra K A]

/-- documented for `addLevel`: `ε Σ_{α,σ} n_{ασ}` -/
def levelOp (r : CARRep K A) (idx : Nat → Nat → Nat) (norb nspin : Nat) (lv : K) : A :=
  lv • ∑ α ∈ range norb, ∑ σ ∈ range nspin, num r (idx α σ)

/-- what `addMagnetization` adds: `mH Σ_α (n_{α↑} − n_{α↓})` (documented: half of it) -/
def magnetOp (r : CARRep K A) (idx : Nat → Nat → Nat) (norb : Nat) (mH : K) : A :=
  mH • ∑ α ∈ range norb, (num r (idx α spinUp) - num r (idx α spinDown))

/-- documented for `addCoulombS`: `U Σ_{α,σ>σ'} n_{ασ} n_{ασ'} + ε Σ_{α,σ} n_{ασ}` -/
def coulombSOp (r : CARRep K A) (idx : Nat → Nat → Nat) (norb nspin : Nat) (U lv : K) : A :=
  U • (∑ α ∈ range norb, ∑ σ ∈ range nspin, ∑ σ' ∈ range σ, num r (idx α σ) * num r (idx α σ')) +
  lv • (∑ α ∈ range norb, ∑ σ ∈ range nspin, num r (idx α σ))

/-- hopping with its conjugate: `t c†_x c_y + t' c†_y c_x` -/
def hopOp (r : CARRep K A) (x y : Nat) (t t' : K) : A :=
  t • (r.cd x * r.c y) + t' • (r.cd y * r.c x)

end Documented

section Documented2
variable {K A : Type} [Field K] [NonzeroTest K] [Ring A] [Algebra K A]
variable {r : CARRep K A} {tbl : List Idx.IndexInfo}
variable (hnz : ∀ x : K, NonzeroTest.nz x = false → x = 0)
include hnz

theorem addLevel_adds (L L' : Lat.Lattice K) (l : String) (lv : K) (a : Site)
    (ha : findSite L l = some a) (hwf : LatWF L) (h : addLevel L l lv = .ok L') :
    Adds r tbl L L' (levelOp r (idxOf tbl l) a.norb a.nspin lv) :=
  addLevel_sem hnz L L' l lv a ha hwf h

omit hnz in
theorem addMagnetization_adds (L L' : Lat.Lattice K) (l : String) (mH : K) (a : Site)
    (ha : findSite L l = some a) (hwf : LatWF L) (h : addMagnetization L l mH = .ok L') :
    Adds r tbl L L' (magnetOp r (idxOf tbl l) a.norb mH) :=
  addMagnetization_sem L L' l mH a ha hwf h

theorem addCoulombS_adds (L L' : Lat.Lattice K) (l : String) (U lv : K) (a : Site)
    (ha : findSite L l = some a) (hwf : LatWF L) (h : addCoulombS L l U lv = .ok L') :
    Adds r tbl L L' (coulombSOp r (idxOf tbl l) a.norb a.nspin U lv) :=
  addCoulombS_sem hnz L L' l U lv a ha hwf h

/-- the 5-argument overload of `addCoulombP`: `U' = U − 2J` -/
theorem addCoulombP'_sem (L L' : Lat.Lattice K) (l : String) (U J lv : K) (a : Site)
    (ha : findSite L l = some a) (hwf : LatWF L) (h : addCoulombP' L l U J lv = .ok L') :
    Adds r tbl L L' (kanamoriOp r (idxOf tbl l) a.norb a.nspin U (U - 2 * J) J lv) := by
  have := addCoulombP_sem (r := r) (tbl := tbl) hnz L L' l U (addCoulombP_Up U J) J lv a ha hwf h
  rw [addCoulombP_Up, Nat.cast_ofNat] at this
  exact this

omit hnz in
theorem addSzSz_adds (hcd : ∀ i, r.cd i * r.cd i = 0) (L L' : Lat.Lattice K) (l1 l2 : String) (J : K)
    (a : Site) (ha : findSite L l1 = some a) (hwf : LatWF L) (h : addSzSz L l1 l2 J = .ok L') :
    Adds r tbl L L' (szszOp r (fun α => idxOf tbl l1 α spinUp) (fun α => idxOf tbl l1 α spinDown)
      (fun α => idxOf tbl l2 α spinUp) (fun α => idxOf tbl l2 α spinDown) a.norb J) :=
  addSzSz_sem hcd L L' l1 l2 J a ha hwf h

omit hnz in
theorem addSS_adds (hcd : ∀ i, r.cd i * r.cd i = 0) (L L' : Lat.Lattice K) (l1 l2 : String) (J : K)
    (a : Site) (ha : findSite L l1 = some a) (hwf : LatWF L) (h : addSS L l1 l2 J = .ok L') :
    Adds r tbl L L' (ssLatOp r tbl l1 l2 a.norb J) :=
  addSS_sem hcd L L' l1 l2 J a ha hwf h

theorem addHoppingFull_adds (cj : K → K) (L L' : Lat.Lattice K) (l1 l2 : String) (t : K)
    (o1 o2 s1 s2 : Nat) (hwf : LatWF L) (h : addHoppingFull cj L l1 l2 t o1 o2 s1 s2 = .ok L') :
    Adds r tbl L L' (hopOp r (idxOf tbl l1 o1 s1) (idxOf tbl l2 o2 s2) t (cj t)) :=
  addHoppingFull_sem hnz cj L L' l1 l2 t o1 o2 s1 s2 hwf h

theorem addHoppingOrb_adds (cj : K → K) (L L' : Lat.Lattice K) (l1 l2 : String) (t : K)
    (o1 o2 : Nat) (a : Site) (ha : findSite L l1 = some a) (hwf : LatWF L)
    (h : addHoppingOrb cj L l1 l2 t o1 o2 = .ok L') :
    Adds r tbl L L' (∑ σ ∈ range a.nspin, hopOp r (idxOf tbl l1 o1 σ) (idxOf tbl l2 o2 σ) t (cj t)) := by
  refine adds_congr (addHoppingOrb_sem hnz cj L L' l1 l2 t o1 o2 a ha hwf h) ?_
  unfold hopOp
  rw [Finset.smul_sum, Finset.smul_sum, ← Finset.sum_add_distrib]

theorem addHoppingAll_adds (cj : K → K) (L L' : Lat.Lattice K) (l1 l2 : String) (t : K)
    (a : Site) (ha : findSite L l1 = some a) (hwf : LatWF L)
    (h : addHoppingAll cj L l1 l2 t = .ok L') :
    Adds r tbl L L' (∑ σ ∈ range a.nspin, ∑ α ∈ range a.norb,
      hopOp r (idxOf tbl l1 α σ) (idxOf tbl l2 α σ) t (cj t)) := by
  refine adds_congr (addHoppingAll_sem hnz cj L L' l1 l2 t a ha hwf h) ?_
  unfold hopOp
  simp only [Finset.smul_sum, ← Finset.sum_add_distrib]

end Documented2

section Hermitian
variable {K A : Type} [Field K] [StarRing K] [Ring A] [StarRing A] [Algebra K A] [StarModule K A]
variable (r : CARRep K A) (hs : ∀ i, star (r.c i) = r.cd i)
include hs

theorem star_cd (i : Nat) : star (r.cd i) = r.c i := by rw [← hs, star_star]

theorem star_num (x : Nat) : star (num r x) = num r x := by
  unfold num; rw [star_mul, hs, star_cd r hs]

theorem star_num_num (x y : Nat) : star (num r x * num r y) = num r x * num r y := by
  rw [star_mul, star_num r hs, star_num r hs, num_num_comm]

omit hs in
theorem star_two_inv : star ((2 : K)⁻¹) = (2 : K)⁻¹ := by rw [star_inv₀, star_ofNat]

/-- `addLevel`: Hermitian for a real level -/
theorem levelOp_selfAdjoint (idx : Nat → Nat → Nat) (norb nspin : Nat) (lv : K) (hlv : star lv = lv) :
    IsSelfAdjoint (levelOp r idx norb nspin lv) := by
  unfold IsSelfAdjoint levelOp
  simp only [star_smul, star_sum, star_num r hs, hlv]

/-- `addMagnetization`: Hermitian for a real field -/
theorem magnetOp_selfAdjoint (idx : Nat → Nat → Nat) (norb : Nat) (mH : K) (hm : star mH = mH) :
    IsSelfAdjoint (magnetOp r idx norb mH) := by
  unfold IsSelfAdjoint magnetOp
  simp only [star_smul, star_sum, star_sub, star_num r hs, hm]

/-- `addCoulombS`: Hermitian for real `U`, `ε` -/
theorem coulombSOp_selfAdjoint (idx : Nat → Nat → Nat) (norb nspin : Nat) (U lv : K)
    (hU : star U = U) (hlv : star lv = lv) : IsSelfAdjoint (coulombSOp r idx norb nspin U lv) := by
  unfold IsSelfAdjoint coulombSOp
  simp only [star_add, star_smul, star_sum, star_num r hs, star_num_num r hs, hU, hlv]

/-- hopping plus conjugate hopping: Hermitian when the second amplitude is the conjugate of the first -/
theorem hopOp_selfAdjoint (x y : Nat) (t : K) : IsSelfAdjoint (hopOp r x y t (star t)) := by
  unfold IsSelfAdjoint hopOp
  simp only [star_add, star_smul, star_mul, star_star, hs, star_cd r hs]
  exact add_comm _ _

theorem star_spinflipOp (idx : Nat → Nat → Nat) (α β σ σ' : Nat) :
    star (spinflipOp r idx α β σ σ') = spinflipOp r idx β α σ σ' := by
  unfold spinflipOp
  simp only [star_mul, hs, star_cd r hs, ← mul_assoc]
  exact four_swap r _ _ _ _

theorem star_pairhopOp (idx : Nat → Nat → Nat) (α β σ σ' : Nat) :
    star (pairhopOp r idx α β σ σ') = pairhopOp r idx β α σ σ' := by
  unfold pairhopOp
  simp only [star_mul, hs, star_cd r hs, ← mul_assoc]
  exact four_swap r _ _ _ _

/-- **Kanamori interaction**: Hermitian for real `U`, `U'`, `J`, `ε`, for every number of orbitals and of
spin components -/
theorem kanamoriOp_selfAdjoint (idx : Nat → Nat → Nat) (norb nspin : Nat) (U Up J lv : K)
    (hU : star U = U) (hUp : star Up = Up) (hJ : star J = J) (hlv : star lv = lv) :
    IsSelfAdjoint (kanamoriOp r idx norb nspin U Up J lv) := by
  unfold IsSelfAdjoint kanamoriOp
  have hc' : star ((Up - J) / 2) = (Up - J) / 2 := by
    rw [star_div₀, star_sub, hUp, hJ, star_ofNat]
  simp only [star_add, star_smul, star_sum, star_neg, star_num r hs, star_num_num r hs, hU, hUp, hJ,
    hlv, hc', star_spinflipOp r hs, star_pairhopOp r hs]
  congr 2
  rw [offdiag_swap]


theorem star_sZ (u d : Nat) : star (sZ r u d) = sZ r u d := by
  unfold sZ
  rw [star_smul, star_sub, star_num r hs, star_num r hs, star_two_inv]

omit hs in
theorem sZ_comm (u d u' d' : Nat) : sZ r u d * sZ r u' d' = sZ r u' d' * sZ r u d := by
  have hn : ∀ x y, Commute (num r x) (num r y) := num_num_comm r
  unfold sZ
  exact ((((hn u u').sub_right (hn u d')).sub_left ((hn d u').sub_right (hn d d'))).smul_left _).smul_right _

theorem star_sPlus (u d : Nat) : star (sPlus r u d) = sMinus r u d := by
  unfold sPlus sMinus; rw [star_mul, hs, star_cd r hs]

theorem star_sMinus (u d : Nat) : star (sMinus r u d) = sPlus r u d := by
  unfold sPlus sMinus; rw [star_mul, hs, star_cd r hs]

/-- `addSzSz`: Hermitian for a real exchange constant (two sites or one) -/
theorem szszOp_selfAdjoint (u1 d1 u2 d2 : Nat → Nat) (n : Nat) (J : K) (hJ : star J = J) :
    IsSelfAdjoint (szszOp r u1 d1 u2 d2 n J) := by
  unfold IsSelfAdjoint szszOp
  simp only [star_smul, star_sum, star_mul, star_sZ r hs, hJ]
  congr 1
  exact Finset.sum_congr rfl (fun α _ => sZ_comm r _ _ _ _)

omit hs in
/-- hopping operators on disjoint pairs of modes commute -/
theorem hop_hop_comm (a b x y : Nat) (h1 : b ≠ x) (h2 : y ≠ a) :
    (r.cd a * r.c b) * (r.cd x * r.c y) = (r.cd x * r.c y) * (r.cd a * r.c b) := by
  have e1 := r.ccd b x
  have e2 := r.ccd y a
  rw [if_neg h1] at e1
  rw [if_neg h2] at e2
  have e3 := r.cdcd a x
  have e4 := r.cc b y
  linear_combination (norm := noncomm_ring)
    r.cd a * e1 * r.c y - e3 * r.c b * r.c y + r.cd x * r.cd a * e4 - r.cd x * e2 * r.c b

/-- `addSS` on one site: Hermitian for a real exchange constant -/
theorem ssOp_selfAdjoint_same_site (u d : Nat → Nat) (n : Nat) (J : K) (hJ : star J = J) :
    IsSelfAdjoint (ssOp r u d u d n J) := by
  unfold IsSelfAdjoint ssOp
  simp only [star_smul, star_sum, star_add, star_mul, star_sZ r hs, star_sPlus r hs,
    star_sMinus r hs, hJ, star_two_inv]

/-- `addSS` between two different sites: Hermitian for a real exchange constant -/
theorem ssOp_selfAdjoint_two_sites (u1 d1 u2 d2 : Nat → Nat) (n : Nat) (J : K) (hJ : star J = J)
    (hu : ∀ α < n, u1 α ≠ u2 α) (hd : ∀ α < n, d1 α ≠ d2 α) :
    IsSelfAdjoint (ssOp r u1 d1 u2 d2 n J) := by
  unfold IsSelfAdjoint ssOp
  simp only [star_smul, star_sum, star_add, star_mul, star_sZ r hs, star_sPlus r hs,
    star_sMinus r hs, hJ, star_two_inv]
  congr 1
  refine Finset.sum_congr rfl (fun α hα => ?_)
  rw [Finset.mem_range] at hα
  rw [sZ_comm r (u2 α)]
  congr 2
  unfold sPlus sMinus
  rw [hop_hop_comm r (d2 α) (u2 α) (u1 α) (d1 α) (hu α hα).symm (hd α hα),
    hop_hop_comm r (u2 α) (d2 α) (d1 α) (u1 α) (hd α hα).symm (hu α hα)]
  exact add_comm _ _

end Hermitian

section StarModel

/-- generators: `(true, i)` = `c_i`, `(false, i)` = `c†_i` -/
abbrev Gen := Bool × ℕ

/-- the algebra homomorphism of the free algebra that exchanges `c_i ↔ c†_i` -/
noncomputable def swapHom : FreeAlgebra ℚ Gen →ₐ[ℚ] FreeAlgebra ℚ Gen :=
  FreeAlgebra.lift ℚ (fun g => FreeAlgebra.ι ℚ (!g.1, g.2))

theorem swapHom_ι (g : Gen) : swapHom (FreeAlgebra.ι ℚ g) = FreeAlgebra.ι ℚ (!g.1, g.2) :=
  FreeAlgebra.lift_ι_apply _ _

theorem swapHom_star (x : FreeAlgebra ℚ Gen) : swapHom (star x) = star (swapHom x) := by
  induction x using FreeAlgebra.induction with
  | grade0 r => simp
  | grade1 g => simp [swapHom_ι]
  | mul a b ha hb => simp [ha, hb]
  | add a b ha hb => simp [ha, hb]

theorem swapHom_swapHom (x : FreeAlgebra ℚ Gen) : swapHom (swapHom x) = x := by
  induction x using FreeAlgebra.induction with
  | grade0 r => simp
  | grade1 g => simp [swapHom_ι]
  | mul a b ha hb => simp [ha, hb]
  | add a b ha hb => simp [ha, hb]

/-- the free algebra on `c_i`, `c†_i` with the involution "reverse the word and exchange `c_i ↔ c†_i`" -/
def FA : Type := FreeAlgebra ℚ Gen
noncomputable instance : Ring FA := inferInstanceAs (Ring (FreeAlgebra ℚ Gen))
noncomputable instance : Algebra ℚ FA := inferInstanceAs (Algebra ℚ (FreeAlgebra ℚ Gen))

noncomputable instance : StarRing FA where
  star x := swapHom (star (show FreeAlgebra ℚ Gen from x))
  star_involutive x := by
    show swapHom (star (swapHom (star (show FreeAlgebra ℚ Gen from x)))) = x
    rw [← swapHom_star, swapHom_swapHom, star_star]
  star_mul a b := by
    show swapHom (star ((show FreeAlgebra ℚ Gen from a) * (show FreeAlgebra ℚ Gen from b))) = _
    rw [star_mul, map_mul]; rfl
  star_add a b := by
    show swapHom (star ((show FreeAlgebra ℚ Gen from a) + (show FreeAlgebra ℚ Gen from b))) = _
    rw [star_add, map_add]; rfl

noncomputable def fc (i : ℕ) : FA := FreeAlgebra.ι ℚ (true, i)
noncomputable def fcd (i : ℕ) : FA := FreeAlgebra.ι ℚ (false, i)

theorem star_fc (i : ℕ) : star (fc i) = fcd i := by
  show swapHom (star (FreeAlgebra.ι ℚ (true, i))) = FreeAlgebra.ι ℚ (false, i)
  rw [FreeAlgebra.star_ι, swapHom_ι]; rfl

theorem star_fcd (i : ℕ) : star (fcd i) = fc i := by
  show swapHom (star (FreeAlgebra.ι ℚ (false, i))) = FreeAlgebra.ι ℚ (true, i)
  rw [FreeAlgebra.star_ι, swapHom_ι]; rfl

/-- the canonical anticommutation relations -/
inductive CARRel : FA → FA → Prop
  | cc (i j : ℕ) : CARRel (fc i * fc j + fc j * fc i) 0
  | cdcd (i j : ℕ) : CARRel (fcd i * fcd j + fcd j * fcd i) 0
  | ccd (i j : ℕ) : CARRel (fc i * fcd j + fcd j * fc i) (if i = j then 1 else 0)

theorem CARRel.star_closed : ∀ a b, CARRel a b → CARRel (star a) (star b) := by
  intro a b h
  cases h with
  | cc i j =>
    rw [star_add, star_mul, star_mul, star_fc, star_fc, star_zero]
    exact CARRel.cdcd j i
  | cdcd i j =>
    rw [star_add, star_mul, star_mul, star_fcd, star_fcd, star_zero]
    exact CARRel.cc j i
  | ccd i j =>
    rw [star_add, star_mul, star_mul, star_fc, star_fcd]
    have : star (if i = j then (1 : FA) else 0) = if j = i then 1 else 0 := by
      by_cases h : i = j
      · rw [if_pos h, if_pos h.symm, star_one]
      · rw [if_neg h, if_neg (fun e => h e.symm), star_zero]
    rw [this]
    exact CARRel.ccd j i

/-- the universal `*`-algebra of the CAR over `ℚ` -/
abbrev CARAlg : Type := RingQuot CARRel

noncomputable instance : StarRing CARAlg := RingQuot.starRing CARRel CARRel.star_closed

theorem star_mk (x : FA) :
    star (RingQuot.mkAlgHom ℚ CARRel x) = RingQuot.mkAlgHom ℚ CARRel (star x) := by
  simp only [RingQuot.mkAlgHom_def, RingQuot.mkRingHom_def]
  rfl


/-- the tautological representation of the CAR in the universal `*`-algebra -/
noncomputable def carStarRep : CARRep ℚ CARAlg where
  c i := RingQuot.mkAlgHom ℚ CARRel (fc i)
  cd i := RingQuot.mkAlgHom ℚ CARRel (fcd i)
  cc i j := by
    have := RingQuot.mkAlgHom_rel ℚ (CARRel.cc i j)
    simpa using this
  cdcd i j := by
    have := RingQuot.mkAlgHom_rel ℚ (CARRel.cdcd i j)
    simpa using this
  ccd i j := by
    have := RingQuot.mkAlgHom_rel ℚ (CARRel.ccd i j)
    by_cases h : i = j
    · simpa [h] using this
    · simpa [h] using this

/-- in it `c†_i` is the adjoint of `c_i` -/
theorem carStarRep_star (i : ℕ) : star (carStarRep.c i) = carStarRep.cd i := by
  show star (RingQuot.mkAlgHom ℚ CARRel (fc i)) = RingQuot.mkAlgHom ℚ CARRel (fcd i)
  rw [star_mk, star_fc]

/-- the Jordan-Wigner operators as a homomorphism of the free algebra -/
noncomputable def jwLift : FA →ₐ[ℚ] Module.End ℚ (ℕ →₀ ℚ) :=
  FreeAlgebra.lift ℚ (fun g : Gen => if g.1 then (jwRep ℚ).c g.2 else (jwRep ℚ).cd g.2)

theorem jwLift_fc (i : ℕ) : jwLift (fc i) = (jwRep ℚ).c i :=
  (FreeAlgebra.lift_ι_apply _ _).trans (if_pos rfl)

theorem jwLift_fcd (i : ℕ) : jwLift (fcd i) = (jwRep ℚ).cd i :=
  (FreeAlgebra.lift_ι_apply _ _).trans (if_neg (by simp))

/-- the Jordan-Wigner representation factors through the universal algebra ... -/
noncomputable def toJW : CARAlg →ₐ[ℚ] Module.End ℚ (ℕ →₀ ℚ) :=
  RingQuot.liftAlgHom ℚ
    ⟨jwLift, by
      intro a b h
      cases h with
      | cc i j =>
        rw [map_add, map_mul, map_mul, map_zero, jwLift_fc, jwLift_fc]
        exact (jwRep ℚ).cc i j
      | cdcd i j =>
        rw [map_add, map_mul, map_mul, map_zero, jwLift_fcd, jwLift_fcd]
        exact (jwRep ℚ).cdcd i j
      | ccd i j =>
        rw [map_add, map_mul, map_mul, jwLift_fc, jwLift_fcd, (jwRep ℚ).ccd i j]
        by_cases hij : i = j
        · rw [if_pos hij, if_pos hij, map_one]
        · rw [if_neg hij, if_neg hij, map_zero]⟩

/-- ... hence the universal `*`-algebra of the CAR is not the zero ring: the hypotheses of the
Hermiticity theorems (a representation of the CAR in a `*`-algebra over a `*`-field with
`star c_i = c†_i`) are satisfiable non-trivially. -/
theorem carAlg_nontrivial : (1 : CARAlg) ≠ 0 := by
  intro h
  have h1 : toJW 1 = toJW 0 := by rw [h]
  rw [map_one, map_zero] at h1
  have h2 := congrArg (fun f : Module.End ℚ (ℕ →₀ ℚ) => f (Finsupp.single 0 1) 0) h1
  simp at h2

/-- NON-VACUITY of the Hermiticity theorems: they apply to `carStarRep` (coefficients `ℚ` with the
trivial conjugation, so every parameter is real). -/
example (idx : Nat → Nat → Nat) (norb nspin : Nat) (U Up J lv : ℚ) :
    IsSelfAdjoint (kanamoriOp carStarRep idx norb nspin U Up J lv) :=
  kanamoriOp_selfAdjoint carStarRep carStarRep_star idx norb nspin U Up J lv rfl rfl rfl rfl

end StarModel

section DocForm
variable {K A : Type} [Field K] [Ring A] [Algebra K A]

/-- The pair-hopping sum as written in the comment of `LatticePresets.h`
(`c†_{α'σ} c†_{α'σ'} c_{ασ} c_{ασ'}`, summed over ordered pairs `α ≠ α'`) is the sum the code stores
(`c†_{ασ} c†_{ασ'} c_{α'σ} c_{α'σ'}`). -/
theorem pairhop_sum_swap (r : CARRep K A) (idx : Nat → Nat → Nat) (norb nspin : Nat) :
    ∑ α ∈ range norb, ∑ β ∈ range norb with α ≠ β, ∑ σ ∈ range nspin, ∑ σ' ∈ range σ,
        pairhopOp r idx β α σ σ' =
    ∑ α ∈ range norb, ∑ β ∈ range norb with α ≠ β, ∑ σ ∈ range nspin, ∑ σ' ∈ range σ,
        pairhopOp r idx α β σ σ' :=
  (offdiag_swap norb (fun α β => ∑ σ ∈ range nspin, ∑ σ' ∈ range σ, pairhopOp r idx α β σ σ')).symm

end DocForm

end Pomerol.Spec.PresetSem
