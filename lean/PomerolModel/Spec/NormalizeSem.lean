/-
  Semantic soundness of the symbolic operator algebra model (`Model/Operator.lean`) with respect
  to every representation of the CAR (`Spec/CAR.lean`), for the exact idealisation of the
  tolerance tests.

  NOTE on the extra hypotheses `hc`, `hcd`.  The CAR with `i = j` only give
  `c i * c i + c i * c i = 0`, which does not imply `c i * c i = 0` when `2` is a zero divisor
  (e.g. the Weyl algebra over `ZMod 2` is a `CARRep` with `c i * c i ≠ 0`), while the model
  discards every monomial with two equal neighbours.  Hence the theorems that involve the normal
  ordering carry the hypotheses `hc : ∀ i, r.c i * r.c i = 0`, `hcd : ∀ i, r.cd i * r.cd i = 0`;
  `CARRep.c_sq_of_two_torsion_free` / `CARRep.cd_sq_of_two_torsion_free` discharge them whenever
  `a + a = 0 → a = 0` in `A`.
-/
import PomerolModel.Spec.CAR
import Mathlib.Tactic.NoncommRing
import Mathlib.Tactic.Abel
import Mathlib.Algebra.BigOperators.Ring.List

namespace Pomerol.Spec
open Pomerol.Model

section
variable {K A : Type} [CommRing K] [Ring A] [Algebra K A]

/-! ### Basic denotation lemmas -/

@[simp] theorem poly_nil (r : CARRep K A) : r.poly ([] : Poly K) = 0 := by
  simp [CARRep.poly]

@[simp] theorem poly_cons (r : CARRep K A) (m : Mono) (c : K) (p : Poly K) :
    r.poly ((m, c) :: p) = c • r.mono m + r.poly p := by
  simp [CARRep.poly]

@[simp] theorem mono_nil (r : CARRep K A) : r.mono [] = 1 := by
  simp [CARRep.mono]

@[simp] theorem mono_cons (r : CARRep K A) (a : Op) (m : Mono) :
    r.mono (a :: m) = r.op a * r.mono m := by
  simp [CARRep.mono]

theorem mono_append (r : CARRep K A) (m m2 : Mono) :
    r.mono (m ++ m2) = r.mono m * r.mono m2 := by
  simp [CARRep.mono, List.map_append, List.prod_append]

theorem mono_zip (r : CARRep K A) (pre : List Op) (prev : Op) (rest : List Op) :
    r.mono (pre.reverse ++ prev :: rest) = r.mono pre.reverse * (r.op prev * r.mono rest) := by
  rw [mono_append, mono_cons]

/-- `x * x = 0` for the generators when `A` has no 2-torsion. -/
theorem CARRep.c_sq_of_two_torsion_free (r : CARRep K A) (h2 : ∀ a : A, a + a = 0 → a = 0)
    (i : Nat) : r.c i * r.c i = 0 := h2 _ (r.cc i i)

theorem CARRep.cd_sq_of_two_torsion_free (r : CARRep K A) (h2 : ∀ a : A, a + a = 0 → a = 0)
    (i : Nat) : r.cd i * r.cd i = 0 := h2 _ (r.cdcd i i)

theorem op_sq (r : CARRep K A) (hc : ∀ i, r.c i * r.c i = 0) (hcd : ∀ i, r.cd i * r.cd i = 0)
    (a : Op) : r.op a * r.op a = 0 := by
  unfold CARRep.op
  split
  · exact hc _
  · exact hcd _

/-- The anticommutator of two neighbours that the bubble sort swaps. -/
theorem op_anticomm (r : CARRep K A) (a b : Op) (hlt : b.lt a = true) :
    r.op a * r.op b + r.op b * r.op a = if a = b.flip then 1 else 0 := by
  rcases a with ⟨aa, ai⟩
  rcases b with ⟨ba, bi⟩
  cases aa <;> cases ba <;> simp [Op.lt, Op.flip, CARRep.op] at hlt ⊢
  · exact r.cdcd ai bi
  · exact r.ccd ai bi
  · exact r.cc ai bi

/-- Generic accumulation lemma for `List.foldlM` in `Option`. -/
theorem foldlM_sem {α β : Type} (φ : β → A) (f : β → α → Option β) (g : α → A)
    (hf : ∀ acc x t, f acc x = some t → φ t = φ acc + g x) :
    ∀ (l : List α) (init t : β), l.foldlM f init = some t → φ t = φ init + (l.map g).sum := by
  intro l
  induction l with
  | nil =>
    intro init t h
    simp at h
    simp [h]
  | cons x l ih =>
    intro init t h
    rw [List.foldlM_cons] at h
    obtain ⟨b, hb, ht⟩ := Option.bind_eq_some_iff.mp h
    rw [ih b t ht, hf init x b hb, List.map_cons, List.sum_cons, add_assoc]

theorem foldl_sem {α β : Type} (φ : β → A) (f : β → α → β) (g : α → A)
    (hf : ∀ acc x, φ (f acc x) = φ acc + g x) :
    ∀ (l : List α) (init : β), φ (l.foldl f init) = φ init + (l.map g).sum := by
  intro l
  induction l with
  | nil => intro init; simp
  | cons x l ih =>
    intro init
    rw [List.foldl_cons, ih, hf, List.map_cons, List.sum_cons, add_assoc]

theorem list_sum_map_neg {α : Type} (f : α → A) (l : List α) :
    (l.map fun x => - f x).sum = - (l.map f).sum := by
  induction l with
  | nil => simp
  | cons x l ih => simp only [List.map_cons, List.sum_cons, ih, neg_add]

theorem poly_eq_sum (r : CARRep K A) (p : Poly K) :
    r.poly p = (p.map fun mc => mc.2 • r.mono mc.1).sum := rfl

end

section
variable {K A : Type} [CommRing K] [DecidableEq K] [Ring A] [Algebra K A]

-- the exact idealisation of the tolerance tests is used throughout this section
open scoped Pomerol.Spec.Exact

theorem insertAdd_sem (r : CARRep K A) (m : Mono) (c : K) (p : Poly K) :
    r.poly (Poly.insertAdd m c p) = r.poly p + c • r.mono m := by
  induction p with
  | nil => simp [Poly.insertAdd]
  | cons x p ih =>
    obtain ⟨m', c'⟩ := x
    unfold Poly.insertAdd
    by_cases hm : m = m'
    · subst hm
      by_cases hs : c' + c = 0
      · simp [CoefTest.negl100, hs]
        rw [add_comm _ (r.poly p), add_assoc, ← add_smul, hs, zero_smul, add_zero]
      · simp [CoefTest.negl100, hs, add_smul]
        abel
    · by_cases hlt : monoLt m m' = true
      · simp [hm, hlt]; abel
      · simp [hm, hlt, ih]; abel

theorem insertSub_sem (r : CARRep K A) (m : Mono) (c : K) (p : Poly K) :
    r.poly (Poly.insertSub m c p) = r.poly p - c • r.mono m := by
  induction p with
  | nil => simp [Poly.insertSub]
  | cons x p ih =>
    obtain ⟨m', c'⟩ := x
    unfold Poly.insertSub
    by_cases hm : m = m'
    · subst hm
      by_cases hs : c' - c = 0
      · simp [CoefTest.negl100, hs]
        rw [add_comm _ (r.poly p), add_sub_assoc, ← sub_smul, hs, zero_smul, add_zero]
      · simp [CoefTest.negl100, hs, sub_smul]
        abel
    · by_cases hlt : monoLt m m' = true
      · simp [hm, hlt]; abel
      · simp [hm, hlt, ih]; abel

omit [DecidableEq K] in
/-- Soundness of one bubble pass, given that the recursive call used for contractions is sound. -/
theorem passGo_sem (r : CARRep K A)
    (hc : ∀ i, r.c i * r.c i = 0) (hcd : ∀ i, r.cd i * r.cd i = 0)
    (rec : Mono → K → Poly K → Option (Poly K))
    (hrec : ∀ m c tg t, rec m c tg = some t → r.poly t = r.poly tg + c • r.mono m) :
    ∀ (rest pre : List Op) (prev : Op) (coeff : K) (sw : Bool) (tgt : Poly K),
      (∀ t, passGo rec pre prev rest coeff sw tgt = .zero t →
        r.poly t = r.poly tgt + coeff • r.mono (pre.reverse ++ prev :: rest)) ∧
      (∀ m' c' sw' t, passGo rec pre prev rest coeff sw tgt = .done m' c' sw' t →
        r.poly t + c' • r.mono m' = r.poly tgt + coeff • r.mono (pre.reverse ++ prev :: rest)) := by
  intro rest
  induction rest with
  | nil =>
    intro pre prev coeff sw tgt
    constructor
    · intro t h
      simp [passGo] at h
    · intro m' c' sw' t h
      simp only [passGo, Pass.done.injEq] at h
      obtain ⟨rfl, rfl, -, rfl⟩ := h
      simp
  | cons cur rest ih =>
    intro pre prev coeff sw tgt
    rw [passGo]
    by_cases h1 : prev = cur
    · subst h1
      simp only [if_true]
      constructor
      · intro t h
        simp only [Pass.zero.injEq] at h
        subst h
        rw [mono_zip, mono_cons, ← mul_assoc (r.op prev), op_sq r hc hcd]
        simp
      · intro m' c' sw' t h
        simp at h
    · simp only [h1, if_false]
      by_cases h2 : cur.lt prev = true
      · simp only [h2, if_true]
        have hanti := op_anticomm r prev cur h2
        by_cases h3 : prev = cur.flip
        · simp only [h3, if_true] at hanti ⊢
          cases hr : rec (pre.reverse ++ rest) coeff tgt with
          | none => simp
          | some t0 =>
            simp only
            have h0 := hrec _ _ _ _ hr
            have key : r.op cur.flip * (r.op cur * r.mono rest)
                = r.mono rest - r.op cur * (r.op cur.flip * r.mono rest) := by
              rw [← mul_assoc, ← mul_assoc, eq_sub_iff_add_eq, ← add_mul, hanti, one_mul]
            obtain ⟨ihz, ihd⟩ := ih (cur :: pre) cur.flip (-coeff) true t0
            constructor
            · intro t h
              rw [ihz t h, h0, mono_zip, mono_zip, mono_cons, key, mono_append,
                List.reverse_cons, mono_append]
              simp only [mul_sub, smul_sub, mul_assoc, mono_cons, mono_nil, mul_one, neg_smul]
              abel
            · intro m' c' sw' t h
              rw [ihd m' c' sw' t h, h0, mono_zip, mono_zip, mono_cons, key, mono_append,
                List.reverse_cons, mono_append]
              simp only [mul_sub, smul_sub, mul_assoc, mono_cons, mono_nil, mul_one, neg_smul]
              abel
        · simp only [h3, if_false] at hanti ⊢
          have key : r.op prev * (r.op cur * r.mono rest)
              = - (r.op cur * (r.op prev * r.mono rest)) := by
            rw [← mul_assoc, ← mul_assoc, eq_neg_iff_add_eq_zero, ← add_mul, hanti, zero_mul]
          obtain ⟨ihz, ihd⟩ := ih (cur :: pre) prev (-coeff) true tgt
          constructor
          · intro t h
            rw [ihz t h, mono_zip, mono_zip, mono_cons, key, List.reverse_cons, mono_append]
            simp [mul_assoc]
          · intro m' c' sw' t h
            rw [ihd m' c' sw' t h, mono_zip, mono_zip, mono_cons, key, List.reverse_cons,
              mono_append]
            simp [mul_assoc]
      · simp only [h2]
        obtain ⟨ihz, ihd⟩ := ih (prev :: pre) cur coeff sw tgt
        constructor
        · intro t h
          rw [ihz t h]
          simp
        · intro m' c' sw' t h
          rw [ihd m' c' sw' t h]
          simp

/-- soundness of the bubble-sort normal ordering in every CAR representation -/
theorem normalizeAux_sem (r : CARRep K A)
    (hc : ∀ i, r.c i * r.c i = 0) (hcd : ∀ i, r.cd i * r.cd i = 0) :
    ∀ (fuel : Nat) (m : Mono) (coeff : K) (tgt t : Poly K),
      normalizeAux fuel m coeff tgt = some t → r.poly t = r.poly tgt + coeff • r.mono m := by
  intro fuel
  induction fuel with
  | zero =>
    intro m coeff tgt t h
    simp [normalizeAux] at h
  | succ fuel ih =>
    intro m coeff tgt t h
    match m with
    | [] =>
      simp only [normalizeAux, Option.some.injEq] at h
      subst h
      exact insertAdd_sem r _ _ _
    | [a] =>
      simp only [normalizeAux, Option.some.injEq] at h
      subst h
      exact insertAdd_sem r _ _ _
    | a :: b :: rest =>
      obtain ⟨hz, hd⟩ := passGo_sem r hc hcd (normalizeAux fuel) ih (b :: rest) [] a coeff false tgt
      simp only [List.reverse_nil, List.nil_append] at hz hd
      simp only [normalizeAux] at h
      cases hp : passGo (normalizeAux fuel) [] a (b :: rest) coeff false tgt with
      | oof => simp [hp] at h
      | zero t0 =>
        simp only [hp, Option.some.injEq] at h
        subst h
        exact hz _ hp
      | done m' c' sw t0 =>
        simp only [hp] at h
        have hd' := hd _ _ _ _ hp
        cases sw with
        | true =>
          simp only [if_true] at h
          rw [ih _ _ _ _ h, hd']
        | false =>
          simp only [Bool.false_eq_true, if_false, Option.some.injEq] at h
          subst h
          rw [insertAdd_sem, hd']

theorem normalizeInsert_sem (r : CARRep K A)
    (hc : ∀ i, r.c i * r.c i = 0) (hcd : ∀ i, r.cd i * r.cd i = 0)
    (m : Mono) (coeff : K) (tgt t : Poly K)
    (h : normalizeInsert m coeff tgt = some t) : r.poly t = r.poly tgt + coeff • r.mono m :=
  normalizeAux_sem r hc hcd _ _ _ _ _ h

theorem mul_sem (r : CARRep K A)
    (hc : ∀ i, r.c i * r.c i = 0) (hcd : ∀ i, r.cd i * r.cd i = 0)
    (p q t : Poly K) (h : Poly.mul p q = some t) :
    r.poly t = r.poly p * r.poly q := by
  unfold Poly.mul at h
  have inner : ∀ (mc : Mono × K) (acc t : Poly K),
      q.foldlM (fun acc2 (x : Mono × K) => normalizeInsert (mc.1 ++ x.1) (mc.2 * x.2) acc2) acc
        = some t → r.poly t = r.poly acc + (mc.2 • r.mono mc.1) * r.poly q := by
    intro mc acc t ht
    have := foldlM_sem (r.poly) _ (fun x : Mono × K => (mc.2 • r.mono mc.1) * (x.2 • r.mono x.1))
      (fun acc x t hx => by
        rw [normalizeInsert_sem r hc hcd _ _ _ _ hx, mono_append, smul_mul_smul_comm]) q acc t ht
    rw [this, List.sum_map_mul_left, ← poly_eq_sum r q]
  have outer := foldlM_sem (r.poly) _ (fun mc : Mono × K => (mc.2 • r.mono mc.1) * r.poly q)
    (fun acc mc t hx => inner mc acc t hx) p [] t h
  rw [outer, List.sum_map_mul_right, ← poly_eq_sum r p, poly_nil, zero_add]

theorem add_sem (r : CARRep K A) (p q : Poly K) : r.poly (Poly.add p q) = r.poly p + r.poly q := by
  unfold Poly.add
  rw [foldl_sem (r.poly) _ (fun mc : Mono × K => mc.2 • r.mono mc.1)
    (fun acc mc => insertAdd_sem r _ _ _) q p, poly_eq_sum r q]

theorem sub_sem (r : CARRep K A) (p q : Poly K) : r.poly (Poly.sub p q) = r.poly p - r.poly q := by
  unfold Poly.sub
  rw [foldl_sem (r.poly) _ (fun mc : Mono × K => - (mc.2 • r.mono mc.1))
    (fun acc mc => by rw [insertSub_sem, sub_eq_add_neg]) q p, poly_eq_sum r q, list_sum_map_neg,
    sub_eq_add_neg]

theorem smul_sem (r : CARRep K A) (a : K) (p : Poly K) : r.poly (Poly.smul a p) = a • r.poly p := by
  unfold Poly.smul
  by_cases ha : a = 0
  · simp [CoefTest.negl100, ha]
  · simp only [CoefTest.negl100, ha, decide_false, Bool.false_eq_true, if_false]
    induction p with
    | nil => simp
    | cons x p ih =>
      obtain ⟨m, c⟩ := x
      simp only [List.map_cons, poly_cons, ih, smul_add, smul_smul, mul_comm a c]

set_option linter.unusedSectionVars false in
theorem neg_sem (r : CARRep K A) (p : Poly K) : r.poly (Poly.neg p) = - r.poly p := by
  unfold Poly.neg
  induction p with
  | nil => simp
  | cons x p ih =>
    obtain ⟨m, c⟩ := x
    simp only [List.map_cons, poly_cons, ih, neg_add, neg_smul]

theorem addConst_sem (r : CARRep K A) (a : K) (p : Poly K) :
    r.poly (Poly.addConst a p) = r.poly p + a • (1 : A) := by
  unfold Poly.addConst
  rw [insertAdd_sem, mono_nil]

theorem commutator_sem (r : CARRep K A)
    (hc : ∀ i, r.c i * r.c i = 0) (hcd : ∀ i, r.cd i * r.cd i = 0)
    (p q t : Poly K) (h : Poly.commutator p q = some t) :
    r.poly t = r.poly p * r.poly q - r.poly q * r.poly p := by
  unfold Poly.commutator at h
  simp only [Option.bind_eq_bind, Option.pure_def, Option.bind_eq_some_iff,
    Option.some.injEq] at h
  obtain ⟨pq, hpq, qp, hqp, rfl⟩ := h
  rw [sub_sem, mul_sem r hc hcd _ _ _ hpq, mul_sem r hc hcd _ _ _ hqp]

theorem antiCommutator_sem (r : CARRep K A)
    (hc : ∀ i, r.c i * r.c i = 0) (hcd : ∀ i, r.cd i * r.cd i = 0)
    (p q t : Poly K) (h : Poly.antiCommutator p q = some t) :
    r.poly t = r.poly p * r.poly q + r.poly q * r.poly p := by
  unfold Poly.antiCommutator at h
  simp only [Option.bind_eq_bind, Option.pure_def, Option.bind_eq_some_iff,
    Option.some.injEq] at h
  obtain ⟨pq, hpq, qp, hqp, rfl⟩ := h
  rw [add_sem, mul_sem r hc hcd _ _ _ hpq, mul_sem r hc hcd _ _ _ hqp]

/-- associativity of the symbolic product, as denotations -/
theorem mul_assoc_sem (r : CARRep K A)
    (hc : ∀ i, r.c i * r.c i = 0) (hcd : ∀ i, r.cd i * r.cd i = 0)
    (p q s pq qs l rr : Poly K)
    (h1 : Poly.mul p q = some pq) (h2 : Poly.mul pq s = some l)
    (h3 : Poly.mul q s = some qs) (h4 : Poly.mul p qs = some rr) : r.poly l = r.poly rr := by
  rw [mul_sem r hc hcd _ _ _ h2, mul_sem r hc hcd _ _ _ h1, mul_sem r hc hcd _ _ _ h4,
    mul_sem r hc hcd _ _ _ h3, mul_assoc]

end
end Pomerol.Spec
