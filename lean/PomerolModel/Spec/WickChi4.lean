/-
  Wick factorisation of the two-particle Green's function of a quadratic Hamiltonian
  (property C12, second half), entirely at the level of the Lehmann representation.

  Route: equation of motion in frequency space.

  * Stage 1 — `a1_mul_mtCore`, `eom_first_operator`: multiplying the multi-term of a world line by
    `a₁ = z₁ − (E₂ − E₁)` removes the first denominator; what is left depends on three levels only, so
    one intermediate sum can be carried out and gives a matrix product (`D·A` or `A·B`).
  * Stage 2 — `chi4_eom_generic`, `chi4_equation_of_motion`: the six orderings are rotated so that
    the operator `c_i` stands first, the pieces with `D·A` and `A·D` have the SAME kernel
    (`wk2_eq_wk1`), so that only anticommutators `{c_i, ·}` survive.  With the CAR this gives
        Σ_{i'} (z₀ δ_{ii'} − h_{ii'}) χ_{i'jkl}(z₀,z₁,z₂)
            = β ( [z₁+z₂=0] δ_il G_jk(z₁) − [z₀+z₂=0] δ_ik G_jl(z₁) ).
  * Stage 3 — `wick_chi4`, `wick_chiDef`, `vertex_vanishes`: multiply by `G(z₀) = (z₀ − h)⁻¹`.
-/
import PomerolModel.Spec.Wick
import PomerolModel.Spec.Chi4Exchange
import PomerolModel.Spec.Bridge
import PomerolModel.Generated.VertexFormulas

namespace Pomerol.Spec
open Matrix Complex

/-! ## Stage 1: the first denominator -/

/-- kernel left over from the 1st and the 4th term of the multi-term (levels 2,3,4) -/
noncomputable def wk1 (β a2 a3 w2 w3 w4 : ℂ) : ℂ :=
  (-(w2 + w3)) / (a2 * a3)
  + (if a2 + a3 = 0 then -(β * w2) else (w2 - w4) / (a2 + a3)) / a3

/-- kernel left over from the 2nd and the 3rd term of the multi-term (levels 1,3,4);
`a12 = a₁ + a₂` -/
noncomputable def wk2 (β a12 a3 w1 w3 w4 : ℂ) : ℂ :=
  (w1 + w4) / ((a12 + a3) * a3)
  + (if a12 = 0 then β * w1 else (w3 - w1) / a12) / a3

/-- `a₁ · multi-term`, all four resonance classes at once: no `1/a₁` is left, and the result
splits into a part not depending on level 1 and a part not depending on level 2. -/
theorem a1_mul_mtCore (β a1 a2 a3 w1 w2 w3 w4 : ℂ) (h1 : a1 ≠ 0) :
    a1 * mtCore β a1 a2 a3 w1 w2 w3 w4
      = wk1 β a2 a3 w2 w3 w4 + wk2 β (a1 + a2) a3 w1 w3 w4 := by
  have key : ∀ X Y : ℂ, a1 * (X / (a1 * Y)) = X / Y := by
    intro X Y
    rw [← mul_div_assoc, mul_div_mul_left _ _ h1]
  unfold mtCore wk1 wk2
  generalize (if a1 + a2 = 0 then β * w1 else (w3 - w1) / (a1 + a2)) = R12
  generalize (if a2 + a3 = 0 then -(β * w2) else (w2 - w4) / (a2 + a3)) = R23
  rw [mul_add, mul_add, mul_add, mul_assoc a1 a2 a3, mul_assoc a1 (a1 + a2 + a3) a3,
    key, key, key, key]
  ring

/-- the two kernels are the same function up to the cyclic relabelling of the levels
(`a₂+a₃ = 0` forces `w₄ = w₂` for fermionic frequencies) -/
theorem wk2_eq_wk1 (β a2 a3 w2 w3 w4 : ℂ) (h2 : a2 ≠ 0) (h3 : a3 ≠ 0)
    (hw : a2 + a3 = 0 → w4 = w2) :
    wk2 β (-(a2 + a3)) a2 w4 w2 w3 = wk1 β a2 a3 w2 w3 w4 := by
  have e1 : -(a2 + a3) + a2 = -a3 := by ring
  unfold wk1 wk2
  simp only [e1, neg_eq_zero]
  by_cases hb : a2 + a3 = 0
  · rw [if_pos hb, if_pos hb, hw hb]
    obtain rfl : a3 = -a2 := by linear_combination hb
    field_simp
  · rw [if_neg hb, if_neg hb]
    field_simp
    ring

variable {ι : Type} [Fintype ι] [DecidableEq ι]

set_option linter.unusedSectionVars false

/-- `z·A − [A,H]` in the eigenbasis: `(z − (E_m − E_n)) A_nm` -/
noncomputable def EigenData.eomOp (d : EigenData ι) (z : ℂ) (A : Matrix ι ι ℂ) : Matrix ι ι ℂ :=
  Matrix.of fun n m => (z - ((d.E m - d.E n : ℝ) : ℂ)) * A n m

/-- three-operator world-line sum with the kernel `wk1` -/
noncomputable def EigenData.K3 (d : EigenData ι) (M B Cc : Matrix ι ι ℂ) (zb zc : ℂ) : ℂ :=
  ∑ n2, ∑ n3, ∑ n4, M n4 n2 * B n2 n3 * Cc n3 n4 *
    wk1 d.β (zb - ((d.E n3 - d.E n2 : ℝ) : ℂ)) (zc - ((d.E n4 - d.E n3 : ℝ) : ℂ))
      (d.w n2) (d.w n3) (d.w n4)

/-- three-operator world-line sum with the kernel `wk2` (`y` is the sum of the first two
frequencies) -/
noncomputable def EigenData.K3b (d : EigenData ι) (M Cc D : Matrix ι ι ℂ) (y zc : ℂ) : ℂ :=
  ∑ n1, ∑ n3, ∑ n4, M n1 n3 * Cc n3 n4 * D n4 n1 *
    wk2 d.β (y - ((d.E n3 - d.E n1 : ℝ) : ℂ)) (zc - ((d.E n4 - d.E n3 : ℝ) : ℂ))
      (d.w n1) (d.w n3) (d.w n4)

/-- EQUATION OF MOTION FOR THE FIRST OPERATOR of one ordering: replacing `A` by `z_a A − [A,H]`
contracts `A` with its two neighbours on the closed world line. -/
theorem eom_first_operator (d : EigenData ι) (A B Cc D : Matrix ι ι ℂ) (za zb zc : ℂ)
    (ha : Complex.exp ((d.β:ℂ) * za) = -1) :
    d.orderedLehmann (d.eomOp za A) B Cc D za zb zc
      = d.K3 (D * A) B Cc zb zc + d.K3b (A * B) Cc D (za + zb) zc := by
  have hterm : ∀ n1 n2 n3 n4 : ι,
      d.eomOp za A n1 n2 * B n2 n3 * Cc n3 n4 * D n4 n1 *
        multiTerm d.β za zb zc (d.E n2 - d.E n1) (d.E n3 - d.E n2) (d.E n4 - d.E n3)
          (d.w n1) (d.w n2) (d.w n3) (d.w n4)
      = D n4 n1 * A n1 n2 * (B n2 n3 * Cc n3 n4 *
          wk1 d.β (zb - ((d.E n3 - d.E n2 : ℝ) : ℂ)) (zc - ((d.E n4 - d.E n3 : ℝ) : ℂ))
            (d.w n2) (d.w n3) (d.w n4))
        + A n1 n2 * B n2 n3 * (Cc n3 n4 * D n4 n1 *
          wk2 d.β (za + zb - ((d.E n3 - d.E n1 : ℝ) : ℂ)) (zc - ((d.E n4 - d.E n3 : ℝ) : ℂ))
            (d.w n1) (d.w n3) (d.w n4)) := by
    intro n1 n2 n3 n4
    have n1' : za - ((d.E n2 - d.E n1 : ℝ) : ℂ) ≠ 0 :=
      sub_ofReal_ne_zero_of_exp_eq_neg_one ha _
    have e12 : za - ((d.E n2 - d.E n1 : ℝ) : ℂ) + (zb - ((d.E n3 - d.E n2 : ℝ) : ℂ))
        = za + zb - ((d.E n3 - d.E n1 : ℝ) : ℂ) := by
      push_cast
      ring
    have key := a1_mul_mtCore d.β (za - ((d.E n2 - d.E n1 : ℝ) : ℂ))
      (zb - ((d.E n3 - d.E n2 : ℝ) : ℂ)) (zc - ((d.E n4 - d.E n3 : ℝ) : ℂ))
      (d.w n1) (d.w n2) (d.w n3) (d.w n4) n1'
    rw [e12] at key
    rw [multiTerm_eq_mtCore]
    unfold EigenData.eomOp
    rw [Matrix.of_apply]
    linear_combination (A n1 n2 * B n2 n3 * Cc n3 n4 * D n4 n1) * key
  unfold EigenData.orderedLehmann
  simp only [hterm, Finset.sum_add_distrib]
  congr 1
  · -- the level n1 is summed: (D·A)_{n4 n2}
    unfold EigenData.K3
    rw [sum4_rotate (fun n1 n2 n3 n4 => D n4 n1 * A n1 n2 * (B n2 n3 * Cc n3 n4 *
          wk1 d.β (zb - ((d.E n3 - d.E n2 : ℝ) : ℂ)) (zc - ((d.E n4 - d.E n3 : ℝ) : ℂ))
            (d.w n2) (d.w n3) (d.w n4)))]
    refine Finset.sum_congr rfl fun n2 _ => Finset.sum_congr rfl fun n3 _ =>
      Finset.sum_congr rfl fun n4 _ => ?_
    rw [← Finset.sum_mul, Matrix.mul_apply]
    ring
  · -- the level n2 is summed: (A·B)_{n1 n3}
    unfold EigenData.K3b
    refine Finset.sum_congr rfl fun n1 _ => ?_
    rw [Finset.sum_comm]
    refine Finset.sum_congr rfl fun n3 _ => ?_
    rw [Finset.sum_comm]
    refine Finset.sum_congr rfl fun n4 _ => ?_
    rw [← Finset.sum_mul, Matrix.mul_apply]
    ring

/-! ## Stage 2: the equation of motion of χ in frequency space -/

/-- cyclic relabelling of a three-fold sum -/
theorem sum3_rotate (g : ι → ι → ι → ℂ) :
    ∑ a, ∑ b, ∑ c, g a b c = ∑ b, ∑ c, ∑ a, g a b c := by
  rw [Finset.sum_comm]
  refine Finset.sum_congr rfl fun b _ => ?_
  rw [Finset.sum_comm]

/-- at a bosonic frequency equal to a level difference the two Gibbs weights coincide -/
theorem w_eq_of_exp_eq_one (d : EigenData ι) {y : ℂ} (hy : Complex.exp ((d.β:ℂ) * y) = 1)
    (a b : ι) (h : y = ((d.E b - d.E a : ℝ) : ℂ)) : (d.w b : ℂ) = d.w a := by
  rw [h, ← Complex.ofReal_mul, ← Complex.ofReal_exp] at hy
  have h1 : Real.exp (d.β * (d.E b - d.E a)) = 1 := by exact_mod_cast hy
  have h2 : Real.exp (-d.β * (d.E b - d.E a)) = 1 := by
    rw [neg_mul, Real.exp_neg, h1, inv_one]
  rw [w_ratio' d a b, h2, mul_one]

/-- the `wk2`-sum is a `wk1`-sum: both contractions have the same kernel -/
theorem K3b_eq_K3 (d : EigenData ι) (M Cc D : Matrix ι ι ℂ) (y zc : ℂ)
    (hy : Complex.exp ((d.β:ℂ) * y) = 1) (hc : Complex.exp ((d.β:ℂ) * zc) = -1) :
    d.K3b M Cc D y zc = d.K3 M Cc D zc (-(y + zc)) := by
  have hd : Complex.exp ((d.β:ℂ) * (-(y + zc))) = -1 := by
    rw [mul_neg, Complex.exp_neg, mul_add, Complex.exp_add, hy, hc]
    norm_num
  unfold EigenData.K3b EigenData.K3
  rw [sum3_rotate (fun a b c => M a b * Cc b c * D c a *
    wk2 d.β (y - ((d.E b - d.E a : ℝ) : ℂ)) (zc - ((d.E c - d.E b : ℝ) : ℂ))
      (d.w a) (d.w b) (d.w c))]
  refine Finset.sum_congr rfl fun b _ => Finset.sum_congr rfl fun c _ =>
    Finset.sum_congr rfl fun a _ => ?_
  have h2 : zc - ((d.E c - d.E b : ℝ) : ℂ) ≠ 0 := sub_ofReal_ne_zero_of_exp_eq_neg_one hc _
  have h3 : -(y + zc) - ((d.E a - d.E c : ℝ) : ℂ) ≠ 0 :=
    sub_ofReal_ne_zero_of_exp_eq_neg_one hd _
  have e : y - ((d.E b - d.E a : ℝ) : ℂ)
      = -((zc - ((d.E c - d.E b : ℝ) : ℂ)) + (-(y + zc) - ((d.E a - d.E c : ℝ) : ℂ))) := by
    push_cast
    ring
  have hw : (zc - ((d.E c - d.E b : ℝ) : ℂ)) + (-(y + zc) - ((d.E a - d.E c : ℝ) : ℂ)) = 0
      → (d.w a : ℂ) = d.w b := by
    intro h0
    refine (w_eq_of_exp_eq_one d hy a b ?_).symm
    have e' := e
    rw [h0, neg_zero] at e'
    exact sub_eq_zero.mp e'
  rw [e, wk2_eq_wk1 d.β _ _ (d.w b) (d.w c) (d.w a) h2 h3 hw]

/-- EQUATION OF MOTION OF ONE ORDERING, both contractions with the kernel `wk1`;
`z_a+z_b+z_c+z_d = 0`, `z_d` being the frequency of the operator at time 0 -/
theorem eom_ordering (d : EigenData ι) (A B Cc D : Matrix ι ι ℂ) (za zb zc zd : ℂ)
    (hz : za + zb + zc + zd = 0)
    (ha : Complex.exp ((d.β:ℂ) * za) = -1) (hb : Complex.exp ((d.β:ℂ) * zb) = -1)
    (hc : Complex.exp ((d.β:ℂ) * zc) = -1) :
    d.orderedLehmann (d.eomOp za A) B Cc D za zb zc
      = d.K3 (D * A) B Cc zb zc + d.K3 (A * B) Cc D zc zd := by
  have hy : Complex.exp ((d.β:ℂ) * (za + zb)) = 1 := by
    rw [mul_add, Complex.exp_add, ha, hb]
    norm_num
  have e : -(za + zb + zc) = zd := by linear_combination -hz
  rw [eom_first_operator d A B Cc D za zb zc ha, K3b_eq_K3 d _ _ _ _ _ hy hc, e]

/-- the signed sum over the orderings in which `A` (frequency `z0`) stands FIRST:
`Σ_σ sgn σ · T(A, σ(B1,B2,X))`, `y` being the frequency of `X` -/
noncomputable def EigenData.chiFirst (d : EigenData ι) (A B1 B2 X : Matrix ι ι ℂ)
    (z0 z1 z2 y : ℂ) : ℂ :=
  d.orderedLehmann A B1 B2 X z0 z1 z2
  - d.orderedLehmann A B2 B1 X z0 z2 z1
  + d.orderedLehmann A B2 X B1 z0 z2 y
  + d.orderedLehmann A X B1 B2 z0 y z1
  - d.orderedLehmann A B1 X B2 z0 z1 y
  - d.orderedLehmann A X B2 B1 z0 y z2

/-- χ with every ordering rotated (cyclicity of the trace + antiperiodicity) so that the first
operator stands first -/
theorem chiLehmann_first (d : EigenData ι) (O : Fin 3 → Matrix ι ι ℂ) (X : Matrix ι ι ℂ)
    (z : Fin 3 → ℂ) (hz : ∀ k, Complex.exp ((d.β:ℂ) * z k) = -1) :
    d.chiLehmann O X z
      = d.chiFirst (O 0) (O 1) (O 2) X (z 0) (z 1) (z 2) (-(z 0 + z 1 + z 2)) := by
  have hy : Complex.exp ((d.β:ℂ) * (-(z 0 + z 1 + z 2))) = -1 :=
    exp_fourth (z1 := z 0) (z2 := z 1) (z3 := z 2) (by ring) (hz 0) (hz 1) (hz 2)
  rw [chiLehmann_expand]
  unfold EigenData.chiFirst
  generalize hyy : -(z 0 + z 1 + z 2) = y at hy
  have hs : z 0 + z 1 + z 2 + y = 0 := by rw [← hyy]; ring
  -- T(0,2,X,1) = −T(1,0,2,X)
  have r1 := orderedLehmann_rotate d (O 1) (O 0) (O 2) X (z 1) (z 0) (z 2) y
    (by linear_combination hs) (hz 1) (hz 0) (hz 2)
  -- T(0,X,1,2) = −T(2,0,X,1) = T(1,2,0,X)
  have r2a := orderedLehmann_rotate d (O 1) (O 2) (O 0) X (z 1) (z 2) (z 0) y
    (by linear_combination hs) (hz 1) (hz 2) (hz 0)
  have r2b := orderedLehmann_rotate d (O 2) (O 0) X (O 1) (z 2) (z 0) y (z 1)
    (by linear_combination hs) (hz 2) (hz 0) hy
  -- T(0,1,X,2) = −T(2,0,1,X)
  have r3 := orderedLehmann_rotate d (O 2) (O 0) (O 1) X (z 2) (z 0) (z 1) y
    (by linear_combination hs) (hz 2) (hz 0) (hz 1)
  -- T(0,X,2,1) = −T(1,0,X,2) = T(2,1,0,X)
  have r4a := orderedLehmann_rotate d (O 2) (O 1) (O 0) X (z 2) (z 1) (z 0) y
    (by linear_combination hs) (hz 2) (hz 1) (hz 0)
  have r4b := orderedLehmann_rotate d (O 1) (O 0) X (O 2) (z 1) (z 0) y (z 2)
    (by linear_combination hs) (hz 1) (hz 0) hy
  linear_combination -r1 + r2a - r2b + r3 - r4a + r4b

/-- `orderedLehmann` is linear in its first operator -/
theorem orderedLehmann_sum_first {κ : Type} [Fintype κ] (d : EigenData ι) (g : κ → ℂ)
    (F : κ → Matrix ι ι ℂ) (B Cc D : Matrix ι ι ℂ) (za zb zc : ℂ) :
    ∑ p, g p * d.orderedLehmann (F p) B Cc D za zb zc
      = d.orderedLehmann (∑ p, g p • F p) B Cc D za zb zc := by
  unfold EigenData.orderedLehmann
  simp only [Matrix.sum_apply, Matrix.smul_apply, smul_eq_mul, Finset.mul_sum, Finset.sum_mul]
  rw [Finset.sum_comm]
  refine Finset.sum_congr rfl fun n1 _ => ?_
  rw [Finset.sum_comm]
  refine Finset.sum_congr rfl fun n2 _ => ?_
  rw [Finset.sum_comm]
  refine Finset.sum_congr rfl fun n3 _ => ?_
  rw [Finset.sum_comm]
  refine Finset.sum_congr rfl fun n4 _ => Finset.sum_congr rfl fun p _ => ?_
  ring

theorem chiFirst_sum_first {κ : Type} [Fintype κ] (d : EigenData ι) (g : κ → ℂ)
    (F : κ → Matrix ι ι ℂ) (B1 B2 X : Matrix ι ι ℂ) (z0 z1 z2 y : ℂ) :
    ∑ p, g p * d.chiFirst (F p) B1 B2 X z0 z1 z2 y
      = d.chiFirst (∑ p, g p • F p) B1 B2 X z0 z1 z2 y := by
  unfold EigenData.chiFirst
  simp only [mul_add, mul_sub, Finset.sum_add_distrib, Finset.sum_sub_distrib,
    orderedLehmann_sum_first]

/-! ### linearity of `K3` in the contracted matrix -/

theorem K3_add (d : EigenData ι) (M1 M2 B Cc : Matrix ι ι ℂ) (zb zc : ℂ) :
    d.K3 (M1 + M2) B Cc zb zc = d.K3 M1 B Cc zb zc + d.K3 M2 B Cc zb zc := by
  unfold EigenData.K3
  simp only [Matrix.add_apply, add_mul, Finset.sum_add_distrib]

theorem K3_zero (d : EigenData ι) (B Cc : Matrix ι ι ℂ) (zb zc : ℂ) :
    d.K3 0 B Cc zb zc = 0 := by
  unfold EigenData.K3
  simp only [Matrix.zero_apply, zero_mul, Finset.sum_const_zero]

/-- GENERIC EQUATION OF MOTION (no CAR used yet): applying `z₀ − [·,H]` to the first operator of χ
leaves only the anticommutators of that operator with the three others. -/
theorem chi4_eom_generic (d : EigenData ι) (A B1 B2 X : Matrix ι ι ℂ) (z : Fin 3 → ℂ)
    (hz : ∀ k, Complex.exp ((d.β:ℂ) * z k) = -1) :
    d.chiLehmann ![d.eomOp (z 0) A, B1, B2] X z
      = d.K3 (X * A + A * X) B1 B2 (z 1) (z 2) - d.K3 (X * A + A * X) B2 B1 (z 2) (z 1)
        + (d.K3 (A * B1 + B1 * A) B2 X (z 2) (-(z 0 + z 1 + z 2))
            - d.K3 (A * B1 + B1 * A) X B2 (-(z 0 + z 1 + z 2)) (z 2))
        + (d.K3 (A * B2 + B2 * A) X B1 (-(z 0 + z 1 + z 2)) (z 1)
            - d.K3 (A * B2 + B2 * A) B1 X (z 1) (-(z 0 + z 1 + z 2))) := by
  have hy : Complex.exp ((d.β:ℂ) * (-(z 0 + z 1 + z 2))) = -1 :=
    exp_fourth (z1 := z 0) (z2 := z 1) (z3 := z 2) (by ring) (hz 0) (hz 1) (hz 2)
  rw [chiLehmann_first d _ X z hz]
  simp only [Matrix.cons_val_zero, Matrix.cons_val_one, Matrix.cons_val_two, Matrix.head_cons,
    Matrix.tail_cons]
  unfold EigenData.chiFirst
  generalize hyy : -(z 0 + z 1 + z 2) = y at hy
  have hs : z 0 + z 1 + z 2 + y = 0 := by rw [← hyy]; ring
  rw [eom_ordering d A B1 B2 X (z 0) (z 1) (z 2) y (by linear_combination hs) (hz 0) (hz 1) (hz 2),
    eom_ordering d A B2 B1 X (z 0) (z 2) (z 1) y (by linear_combination hs) (hz 0) (hz 2) (hz 1),
    eom_ordering d A B2 X B1 (z 0) (z 2) y (z 1) (by linear_combination hs) (hz 0) (hz 2) hy,
    eom_ordering d A X B1 B2 (z 0) y (z 1) (z 2) (by linear_combination hs) (hz 0) hy (hz 1),
    eom_ordering d A B1 X B2 (z 0) (z 1) y (z 2) (by linear_combination hs) (hz 0) (hz 1) hy,
    eom_ordering d A X B2 B1 (z 0) y (z 2) (z 1) (by linear_combination hs) (hz 0) hy (hz 2)]
  simp only [K3_add]
  ring

/-! ### the contracted pieces are single-particle Green's functions -/

theorem K3_one (d : EigenData ι) (B Cc : Matrix ι ι ℂ) (zb zc : ℂ) :
    d.K3 1 B Cc zb zc = ∑ n2, ∑ n3, B n2 n3 * Cc n3 n2 *
      wk1 d.β (zb - ((d.E n3 - d.E n2 : ℝ) : ℂ)) (zc - ((d.E n2 - d.E n3 : ℝ) : ℂ))
        (d.w n2) (d.w n3) (d.w n2) := by
  unfold EigenData.K3
  refine Finset.sum_congr rfl fun n2 _ => Finset.sum_congr rfl fun n3 _ => ?_
  rw [Finset.sum_eq_single n2]
  · rw [Matrix.one_apply_eq, one_mul]
  · intro n4 _ hne
    rw [Matrix.one_apply_ne hne, zero_mul, zero_mul, zero_mul]
  · intro hn
    exact absurd (Finset.mem_univ n2) hn

theorem wk1_antisymm (β a2 a3 w2 w3 : ℂ) :
    wk1 β a2 a3 w2 w3 w2 - wk1 β a3 a2 w3 w2 w3
      = if a2 + a3 = 0 then β * ((w2 + w3) / a2) else 0 := by
  unfold wk1
  rw [add_comm a3 a2]
  by_cases hb : a2 + a3 = 0
  · rw [if_pos hb, if_pos hb, if_pos hb]
    obtain rfl : a3 = -a2 := by linear_combination hb
    rw [div_neg, mul_comm (-a2) a2, add_comm w3 w2]
    ring
  · rw [if_neg hb, if_neg hb, if_neg hb, sub_self, sub_self, zero_div, zero_div, zero_div,
      mul_comm a3 a2, add_comm w3 w2]
    ring

/-- the contraction `{c, c†} = 1` leaves `β δ_{z_b+z_c,0} G_{BC}(z_b)` -/
theorem K3_one_antisymm (d : EigenData ι) (B Cc : Matrix ι ι ℂ) (zb zc : ℂ) :
    d.K3 1 B Cc zb zc - d.K3 1 Cc B zc zb
      = if zb + zc = 0 then (d.β : ℂ) * d.lehmannG B Cc zb else 0 := by
  rw [K3_one, K3_one]
  rw [Finset.sum_comm (f := fun n2 n3 => Cc n2 n3 * B n3 n2 *
      wk1 d.β (zc - ((d.E n3 - d.E n2 : ℝ) : ℂ)) (zb - ((d.E n2 - d.E n3 : ℝ) : ℂ))
        (d.w n2) (d.w n3) (d.w n2))]
  rw [← Finset.sum_sub_distrib]
  simp only [← Finset.sum_sub_distrib]
  have hterm : ∀ n2 n3 : ι,
      B n2 n3 * Cc n3 n2 *
        wk1 d.β (zb - ((d.E n3 - d.E n2 : ℝ) : ℂ)) (zc - ((d.E n2 - d.E n3 : ℝ) : ℂ))
          (d.w n2) (d.w n3) (d.w n2)
      - Cc n3 n2 * B n2 n3 *
        wk1 d.β (zc - ((d.E n2 - d.E n3 : ℝ) : ℂ)) (zb - ((d.E n3 - d.E n2 : ℝ) : ℂ))
          (d.w n3) (d.w n2) (d.w n3)
      = if zb + zc = 0 then (d.β : ℂ) * (B n2 n3 * Cc n3 n2 * ((d.w n2 : ℂ) + (d.w n3 : ℂ))
          / (zb - ((d.E n3 - d.E n2 : ℝ) : ℂ))) else 0 := by
    intro n2 n3
    have e : (zb - ((d.E n3 - d.E n2 : ℝ) : ℂ)) + (zc - ((d.E n2 - d.E n3 : ℝ) : ℂ)) = zb + zc := by
      push_cast
      ring
    have key := wk1_antisymm d.β (zb - ((d.E n3 - d.E n2 : ℝ) : ℂ))
      (zc - ((d.E n2 - d.E n3 : ℝ) : ℂ)) (d.w n2) (d.w n3)
    rw [e] at key
    by_cases h0 : zb + zc = 0
    · rw [if_pos h0] at key ⊢
      linear_combination (B n2 n3 * Cc n3 n2) * key
    · rw [if_neg h0] at key ⊢
      linear_combination (B n2 n3 * Cc n3 n2) * key
  simp only [hterm]
  unfold EigenData.lehmannG
  by_cases h0 : zb + zc = 0
  · simp only [if_pos h0, Finset.mul_sum]
  · simp only [if_neg h0, Finset.sum_const_zero]

variable {J : Type} [Fintype J] [DecidableEq J]

/-- `Σ_{i'} (z δ_{ii'} − h_{ii'}) c_{i'} = z c_i − [c_i, H]` for a quadratic Hamiltonian -/
theorem eomOp_eq_sum (d : EigenData ι) (c : J → Matrix ι ι ℂ) (hc : ModeCAR c) (h : Matrix J J ℂ)
    (hH : d.H = ∑ k, ∑ l, h k l • ((c k)ᴴ * c l)) (i : J) (z : ℂ) :
    ∑ i', (z • (1 : Matrix J J ℂ) - h) i i' • c i' = d.eomOp z (c i) := by
  ext n m
  unfold EigenData.eomOp
  rw [Matrix.of_apply, sub_mul, eom_eigenbasis d c hc h hH i n m, Matrix.sum_apply]
  simp only [Matrix.smul_apply, Matrix.sub_apply, Matrix.one_apply, smul_eq_mul, sub_mul,
    Finset.sum_sub_distrib, mul_ite, mul_one, mul_zero, ite_mul, zero_mul, Finset.sum_ite_eq,
    Finset.mem_univ, if_true]

/-- EQUATION OF MOTION OF THE TWO-PARTICLE GREEN'S FUNCTION of a quadratic Hamiltonian, in frequency
space, Lehmann level, for all frequencies with `e^{βz} = −1`:
`Σ_{i'} (z₀ − h)_{ii'} χ_{i'jkl}(z₀,z₁,z₂) = β([z₁+z₂=0] δ_il G_jk(z₁) − [z₀+z₂=0] δ_ik G_jl(z₁))`. -/
theorem chi4_equation_of_motion (d : EigenData ι) (c : J → Matrix ι ι ℂ) (hc : ModeCAR c)
    (h : Matrix J J ℂ) (hH : d.H = ∑ k, ∑ l, h k l • ((c k)ᴴ * c l)) (i j k l : J)
    (z : Fin 3 → ℂ) (hz : ∀ m, Complex.exp ((d.β:ℂ) * z m) = -1) :
    ∑ i', (z 0 • (1 : Matrix J J ℂ) - h) i i' *
        d.chiLehmann ![c i', c j, (c k)ᴴ] (c l)ᴴ z
      = (d.β : ℂ) *
        ((if z 1 + z 2 = 0 then (if i = l then d.lehmannG (c j) (c k)ᴴ (z 1) else 0) else 0)
          - (if z 0 + z 2 = 0 then (if i = k then d.lehmannG (c j) (c l)ᴴ (z 1) else 0) else 0)) := by
  have hfirst : ∀ i', d.chiLehmann ![c i', c j, (c k)ᴴ] (c l)ᴴ z
      = d.chiFirst (c i') (c j) (c k)ᴴ (c l)ᴴ (z 0) (z 1) (z 2) (-(z 0 + z 1 + z 2)) := by
    intro i'
    rw [chiLehmann_first d _ _ z hz]
    simp only [Matrix.cons_val_zero, Matrix.cons_val_one, Matrix.cons_val_two, Matrix.head_cons,
      Matrix.tail_cons]
  have hback : d.chiFirst (d.eomOp (z 0) (c i)) (c j) (c k)ᴴ (c l)ᴴ (z 0) (z 1) (z 2)
        (-(z 0 + z 1 + z 2))
      = d.chiLehmann ![d.eomOp (z 0) (c i), c j, (c k)ᴴ] (c l)ᴴ z := by
    rw [chiLehmann_first d _ _ z hz]
    simp only [Matrix.cons_val_zero, Matrix.cons_val_one, Matrix.cons_val_two, Matrix.head_cons,
      Matrix.tail_cons]
  simp only [hfirst]
  rw [chiFirst_sum_first, eomOp_eq_sum d c hc h hH i (z 0), hback, chi4_eom_generic d _ _ _ _ z hz]
  -- the anticommutators
  have hXA : (c l)ᴴ * c i + c i * (c l)ᴴ = if i = l then 1 else 0 := by
    rw [add_comm]; exact hc.ccd i l
  have hA1 : c i * c j + c j * c i = 0 := hc.cc i j
  have hA2 : c i * (c k)ᴴ + (c k)ᴴ * c i = if i = k then 1 else 0 := hc.ccd i k
  rw [hXA, hA1, hA2, K3_zero, K3_zero, sub_self, add_zero]
  have e13 : z 1 + -(z 0 + z 1 + z 2) = 0 ↔ z 0 + z 2 = 0 := by
    constructor <;> intro h0 <;> linear_combination -h0
  have s1 := K3_one_antisymm d (c j) (c k)ᴴ (z 1) (z 2)
  have s2 := K3_one_antisymm d (c j) (c l)ᴴ (z 1) (-(z 0 + z 1 + z 2))
  simp only [e13] at s2
  by_cases hil : i = l <;> by_cases hik : i = k
  · simp only [if_pos hil, if_pos hik]
    rw [mul_sub, mul_ite, mul_ite, mul_zero]
    linear_combination s1 - s2
  · simp only [if_pos hil, if_neg hik, K3_zero]
    rw [mul_sub, mul_ite, mul_ite, mul_zero]
    simp only [ite_self]
    linear_combination s1
  · simp only [if_neg hil, if_pos hik, K3_zero]
    rw [mul_sub, mul_ite, mul_ite, mul_zero]
    simp only [ite_self]
    linear_combination -s2
  · simp only [if_neg hil, if_neg hik, K3_zero, ite_self]
    ring

/-! ## Stage 3: multiplying by the free propagator -/

/-- WICK'S THEOREM for the two-particle Green's function of a quadratic Hamiltonian, Lehmann level,
all frequencies with `e^{βz} = −1` (degenerate levels and coinciding frequencies included):
`χ_{ijkl}(z₀,z₁,z₂) = β([z₁+z₂=0] G_il(z₀) G_jk(z₁) − [z₀+z₂=0] G_ik(z₀) G_jl(z₁))`. -/
theorem wick_chi4_general (d : EigenData ι) (c : J → Matrix ι ι ℂ) (hc : ModeCAR c)
    (h : Matrix J J ℂ) (hH : d.H = ∑ k, ∑ l, h k l • ((c k)ᴴ * c l)) (i j k l : J)
    (z : Fin 3 → ℂ) (hz : ∀ m, Complex.exp ((d.β:ℂ) * z m) = -1) :
    d.chiLehmann ![c i, c j, (c k)ᴴ] (c l)ᴴ z
      = (d.β : ℂ) *
        ((if z 1 + z 2 = 0 then
            d.lehmannG (c i) (c l)ᴴ (z 0) * d.lehmannG (c j) (c k)ᴴ (z 1) else 0)
          - (if z 0 + z 2 = 0 then
            d.lehmannG (c i) (c k)ᴴ (z 0) * d.lehmannG (c j) (c l)ᴴ (z 1) else 0)) := by
  rcases isEmpty_or_nonempty ι with hι | hι
  · -- no states at all: every sum is empty
    have h0 : ∀ (A B : Matrix ι ι ℂ) (x : ℂ), d.lehmannG A B x = 0 := by
      intro A B x
      unfold EigenData.lehmannG
      exact Finset.sum_eq_zero fun n _ => (hι.false n).elim
    have h1 : ∀ (A B Cc D : Matrix ι ι ℂ) (za zb zc : ℂ), d.orderedLehmann A B Cc D za zb zc = 0 := by
      intro A B Cc D za zb zc
      unfold EigenData.orderedLehmann
      exact Finset.sum_eq_zero fun n _ => (hι.false n).elim
    rw [chiLehmann_expand]
    simp only [h0, h1, mul_zero, ite_self, sub_self, add_zero]
  · set L : Matrix J J ℂ := z 0 • (1 : Matrix J J ℂ) - h with hL
    set Gm : Matrix J J ℂ := Matrix.of fun a b => d.lehmannG (c a) (c b)ᴴ (z 0) with hGm
    have hpole : ∀ n m, z 0 ≠ ((d.E m - d.E n : ℝ) : ℂ) := fun n m =>
      sub_ne_zero.mp (sub_ofReal_ne_zero_of_exp_eq_neg_one (hz 0) _)
    have hLG : L * Gm = 1 := free_propagator d c hc h hH (z 0) hpole
    have hGL : Gm * L = 1 := mul_eq_one_comm.mp hLG
    set v : J → ℂ := fun i' => d.chiLehmann ![c i', c j, (c k)ᴴ] (c l)ᴴ z with hv
    set r : J → ℂ := fun i' => (d.β : ℂ) *
        ((if z 1 + z 2 = 0 then (if i' = l then d.lehmannG (c j) (c k)ᴴ (z 1) else 0) else 0)
          - (if z 0 + z 2 = 0 then (if i' = k then d.lehmannG (c j) (c l)ᴴ (z 1) else 0) else 0))
      with hr
    have heom : L *ᵥ v = r := by
      funext i'
      exact chi4_equation_of_motion d c hc h hH i' j k l z hz
    have hsol : v = Gm *ᵥ r := by
      rw [← heom, Matrix.mulVec_mulVec, hGL, Matrix.one_mulVec]
    have hvi : v i = ∑ i', Gm i i' * r i' := by
      rw [hsol]
      rfl
    change v i = _
    rw [hvi]
    simp only [hr, hGm, Matrix.of_apply]
    by_cases h12 : z 1 + z 2 = 0 <;> by_cases h02 : z 0 + z 2 = 0 <;>
      simp only [h12, h02, if_true, if_false, sub_zero, zero_sub, mul_sub, mul_ite, mul_zero,
        mul_neg, Finset.sum_sub_distrib, Finset.sum_neg_distrib, Finset.sum_ite_eq',
        Finset.mem_univ, Finset.sum_const_zero, sub_self] <;> ring

/-- `iω_a − iω_b = 0` iff `a = b` -/
theorem I_omega_sub_eq_zero_iff (d : EigenData ι) (a b : ℤ) :
    I * (d.ω a : ℂ) + -(I * (d.ω b : ℂ)) = 0 ↔ a = b := by
  have hω : d.ω a = d.ω b ↔ a = b := by
    unfold EigenData.ω
    rw [div_left_inj' d.hβ.ne', mul_left_inj' Real.pi_ne_zero]
    constructor
    · intro h
      have : (a : ℝ) = b := by linarith
      exact_mod_cast this
    · intro h
      rw [h]
  rw [← hω]
  constructor
  · intro h
    have h1 : I * ((d.ω a : ℂ) - (d.ω b : ℂ)) = 0 := by linear_combination h
    rcases mul_eq_zero.mp h1 with h2 | h2
    · exact absurd h2 Complex.I_ne_zero
    · exact_mod_cast sub_eq_zero.mp h2
  · intro h
    rw [h]
    ring

theorem matsubara_exp (d : EigenData ι) (k1 k2 k3 : ℤ) (m : Fin 3) :
    Complex.exp ((d.β:ℂ) *
      (![I * (d.ω k1 : ℂ), I * (d.ω k2 : ℂ), -(I * (d.ω k3 : ℂ))] : Fin 3 → ℂ) m) = -1 := by
  have hpos : ∀ k : ℤ, Complex.exp ((d.β:ℂ) * (I * (d.ω k : ℂ))) = -1 := by
    intro k
    rw [← exp_I_omega_beta d k]
    congr 1
    ring
  have hneg : ∀ k : ℤ, Complex.exp ((d.β:ℂ) * (-(I * (d.ω k : ℂ)))) = -1 := by
    intro k
    rw [mul_neg, Complex.exp_neg, hpos k]
    norm_num
  fin_cases m
  · exact hpos k1
  · exact hpos k2
  · exact hneg k3

/-- WICK'S THEOREM at fermionic Matsubara frequencies, for what the library evaluates:
`χ_{ijkl}(ω₁,ω₂;ω₃) = β(δ_{ω₂ω₃} G_il(ω₁) G_jk(ω₂) − δ_{ω₁ω₃} G_ik(ω₁) G_jl(ω₂))`. -/
theorem wick_chi4 (d : EigenData ι) (c : J → Matrix ι ι ℂ) (hc : ModeCAR c)
    (h : Matrix J J ℂ) (hH : d.H = ∑ k, ∑ l, h k l • ((c k)ᴴ * c l)) (i j k l : J)
    (k1 k2 k3 : ℤ) :
    d.chiLehmann ![c i, c j, (c k)ᴴ] (c l)ᴴ
        ![I * (d.ω k1 : ℂ), I * (d.ω k2 : ℂ), -(I * (d.ω k3 : ℂ))]
      = (d.β : ℂ) *
        ((if k2 = k3 then d.lehmannG (c i) (c l)ᴴ (I * (d.ω k1 : ℂ))
              * d.lehmannG (c j) (c k)ᴴ (I * (d.ω k2 : ℂ)) else 0)
          - (if k1 = k3 then d.lehmannG (c i) (c k)ᴴ (I * (d.ω k1 : ℂ))
              * d.lehmannG (c j) (c l)ᴴ (I * (d.ω k2 : ℂ)) else 0)) := by
  rw [wick_chi4_general d c hc h hH i j k l _ (matsubara_exp d k1 k2 k3)]
  simp only [Matrix.cons_val_zero, Matrix.cons_val_one, Matrix.cons_val_two, Matrix.head_cons,
    Matrix.tail_cons, I_omega_sub_eq_zero_iff]

/-- WICK'S THEOREM, definition level: the signed sum of the six time-ordered simplex integrals of
`⟨T c_i(τ₁) c_j(τ₂) c†_k(τ₃) c†_l(0)⟩` equals the antisymmetrised product of the single-particle
Green's functions `G(iω) = −∫₀^β ⟨c(τ) c†(0)⟩ e^{iωτ} dτ`. -/
theorem wick_chiDef (d : EigenData ι) (c : J → Matrix ι ι ℂ) (hc : ModeCAR c)
    (h : Matrix J J ℂ) (hH : d.H = ∑ k, ∑ l, h k l • ((c k)ᴴ * c l)) (i j k l : J)
    (k1 k2 k3 : ℤ) :
    d.chiDef ![c i, c j, (c k)ᴴ] (c l)ᴴ
        ![I * (d.ω k1 : ℂ), I * (d.ω k2 : ℂ), -(I * (d.ω k3 : ℂ))]
      = (d.β : ℂ) *
        ((if k2 = k3 then d.Gdef (c i) (c l)ᴴ k1 * d.Gdef (c j) (c k)ᴴ k2 else 0)
          - (if k1 = k3 then d.Gdef (c i) (c k)ᴴ k1 * d.Gdef (c j) (c l)ᴴ k2 else 0)) := by
  rw [chi_lehmann_matsubara, wick_chi4 d c hc h hH]
  simp only [lehmann_single]

/-- THE VERTEX VANISHES: the formula of `Vertex4::value` (extracted from the source), fed with the
two-particle and single-particle Green's functions the library evaluates for a quadratic
Hamiltonian (`G13 = G_ik`, `G24 = G_jl`, `G14 = G_il`, `G23 = G_jk`), gives exactly 0 at every
triple of Matsubara numbers. -/
theorem vertex_vanishes (d : EigenData ι) (c : J → Matrix ι ι ℂ) (hc : ModeCAR c)
    (h : Matrix J J ℂ) (hH : d.H = ∑ k, ∑ l, h k l • ((c k)ᴴ * c l)) (i j k l : J)
    (n1 n2 n3 : ℤ) :
    Pomerol.Gen.Vertex.vertexValue (R := ℝ) (K := ℂ)
      (fun a b e => d.chiLehmann ![c i, c j, (c k)ᴴ] (c l)ᴴ
        ![I * (d.ω a : ℂ), I * (d.ω b : ℂ), -(I * (d.ω e : ℂ))])
      (fun a => d.lehmannG (c i) (c k)ᴴ (I * (d.ω a : ℂ)))
      (fun a => d.lehmannG (c j) (c l)ᴴ (I * (d.ω a : ℂ)))
      (fun a => d.lehmannG (c i) (c l)ᴴ (I * (d.ω a : ℂ)))
      (fun a => d.lehmannG (c j) (c k)ᴴ (I * (d.ω a : ℂ)))
      d.β n1 n2 n3 = 0 := by
  unfold Pomerol.Gen.Vertex.vertexValue
  simp only [wick_chi4 d c hc h hH, Bridge.ofReal_eq, decide_eq_true_eq]
  by_cases h13 : n1 = n3 <;> by_cases h23 : n2 = n3 <;>
    simp only [h13, h23, if_true, if_false] <;> ring

/-- the same for the quantities DEFINED by the imaginary-time integrals -/
theorem vertex_vanishes_def (d : EigenData ι) (c : J → Matrix ι ι ℂ) (hc : ModeCAR c)
    (h : Matrix J J ℂ) (hH : d.H = ∑ k, ∑ l, h k l • ((c k)ᴴ * c l)) (i j k l : J)
    (n1 n2 n3 : ℤ) :
    Pomerol.Gen.Vertex.vertexValue (R := ℝ) (K := ℂ)
      (fun a b e => d.chiDef ![c i, c j, (c k)ᴴ] (c l)ᴴ
        ![I * (d.ω a : ℂ), I * (d.ω b : ℂ), -(I * (d.ω e : ℂ))])
      (fun a => d.Gdef (c i) (c k)ᴴ a) (fun a => d.Gdef (c j) (c l)ᴴ a)
      (fun a => d.Gdef (c i) (c l)ᴴ a) (fun a => d.Gdef (c j) (c k)ᴴ a)
      d.β n1 n2 n3 = 0 := by
  unfold Pomerol.Gen.Vertex.vertexValue
  simp only [wick_chiDef d c hc h hH, Bridge.ofReal_eq, decide_eq_true_eq]
  by_cases h13 : n1 = n3 <;> by_cases h23 : n2 = n3 <;>
    simp only [h13, h23, if_true, if_false] <;> ring

end Pomerol.Spec
