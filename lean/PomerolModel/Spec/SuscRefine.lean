/-
  Refinement: the LOOP STRUCTURE of the dynamical-susceptibility code computes the bosonic Lehmann sum.

  `Model/SuscPart.lean` models `SusceptibilityPart::compute` (the sparse-row walk of
  `GreensFunctionPart::compute` -- literally `GFPart.compute` -- followed by the bosonic loop body:
  zero-pole branch / residue filter / term) and `Susceptibility::prepare` (literally `GFPart.prepare`).

  1  `foldl_classify`            what the loop body accumulates, pair by pair (`pairVal`)
  2  `susc_part_loop`            one part: terms + zero-pole weight = sum over ALL pairs of states of
                                  the block pair of `pairVal` (any zero-pole test, any tolerance)
  3  `selected_sum_eq_all`       the parts that are not created contribute nothing
     `susc_loops_compute_pair_sum`  whole structure, any zero-pole test `zero`, any tolerance `tol`
  4  `susc_loops_compute_lehmann_sum`     exact degeneracy test, no residue filter: `d.lehmannSusc`
     `susc_loops_compute_definition`      ... hence the definition `d.suscDef`
     `susc_loops_compute_value_with_tolerances`   with the EXTRACTED tests `isZeroPole`, `residueKept`
                                  and arbitrary tolerances: `suscWithTolerances` of `Spec/SuscTol.lean`
     `susc_loops_source_tolerances_clean` with the extracted tests and constants, for a spectrum without
                                  near-degeneracies and tiny residues: the definition
  5  `susceptibilityValue_eq`, `susc_loops_operator_value`: the same for the modelled
     `Susceptibility::operator()(z)` with its own test `abs(z) < 1e-15` (needs `β ≤ 10¹⁵`).

  The zero-pole weight of a part enters its value as `ZeroPoleWeight * s` with `s = β` at `k = 0` and
  `s = 0` otherwise -- the idealisation of `abs(z) < 1e-15` used by `Bridge.susc_sum`; item 5 removes it.
-/
import PomerolModel.Model.SuscPart
import PomerolModel.Spec.GFRefine
import PomerolModel.Spec.SuscTol

namespace Pomerol.Spec.SuscRefine
open Pomerol.Model.Chase Pomerol.Model.TermList Pomerol.Spec.GFRefine
open Pomerol.Model.GFPart (SpMat SpVec Contribution)
open Pomerol.Model.SuscPart

/-! ## 1. the loop body -/

/-- the value at `z` of a stored term (extracted `SusceptibilityPart::Term::operator()(z)`) -/
noncomputable def suscTermValue (z : ℂ) (t : Term ℂ ℝ) : ℂ := Gen.Susc.termFreq t.res t.pole z

/-- What one pair (outer state with weight `wo`, energy `eo`; inner state with `wi`, `ei`) with matrix
elements `a = <outer|A|inner>`, `b = <inner|B|outer>` contributes to the value of a part: zero-pole test
`zero` first (then `a b wo · s`, where `s` is `β` at the static frequency and `0` otherwise), else the
residue filter with tolerance `tol`, else the term `−R/(z − P)`.  All formulas are the extracted ones. -/
noncomputable def pairVal (zero : ℝ → Bool) (tol : ℝ) (s z : ℂ) (wo wi eo ei : ℝ) (a b : ℂ) : ℂ :=
  if zero (Gen.Susc.pole ei eo) = true then Gen.Susc.zeroPoleIncrement a b wo * s
  else if Gen.Susc.residueKept (Gen.Susc.residue a b wo wi) tol = true then
    Gen.Susc.termFreq (Gen.Susc.residue a b wo wi) (Gen.Susc.pole ei eo) z
  else 0

theorem pairVal_zero_left (zero : ℝ → Bool) (tol : ℝ) (s z : ℂ) (wo wi eo ei : ℝ) (b : ℂ) :
    pairVal zero tol s z wo wi eo ei 0 b = 0 := by
  unfold pairVal
  rw [Bridge.susc_zeroPole, Bridge.susc_residue, Bridge.susc_termFreq]
  simp

theorem pairVal_zero_right (zero : ℝ → Bool) (tol : ℝ) (s z : ℂ) (wo wi eo ei : ℝ) (a : ℂ) :
    pairVal zero tol s z wo wi eo ei a 0 = 0 := by
  unfold pairVal
  rw [Bridge.susc_zeroPole, Bridge.susc_residue, Bridge.susc_termFreq]
  simp

/-- the value of a part in state `st`: `Terms(z) + ZeroPoleWeight * s` -/
noncomputable def stateVal (s z : ℂ) (st : PartState ℂ ℝ) : ℂ :=
  (st.1.map (suscTermValue z)).sum + st.2 * s

theorem stateVal_classify (zero : ℝ → Bool) (wO wI eO eI : ℕ → ℝ) (tol : ℝ) (s z : ℂ)
    (st : PartState ℂ ℝ) (p : Contribution ℂ) :
    stateVal s z (classify zero wO wI eO eI tol st p)
      = stateVal s z st
        + pairVal zero tol s z (wO p.1) (wI p.2.1) (eO p.1) (eI p.2.1) p.2.2.1 p.2.2.2 := by
  unfold classify pairVal stateVal
  dsimp only
  split_ifs
  · rw [add_mul, add_assoc]
  · rw [List.map_append, List.sum_append, List.map_cons, List.map_nil, List.sum_cons, List.sum_nil,
      add_zero]
    unfold suscTermValue
    ring
  · rw [add_zero]

/-- **1.**  Folding the loop body over a list of coinciding pairs adds up their `pairVal`s -/
theorem foldl_classify (zero : ℝ → Bool) (wO wI eO eI : ℕ → ℝ) (tol : ℝ) (s z : ℂ) :
    ∀ (l : List (Contribution ℂ)) (st : PartState ℂ ℝ),
      stateVal s z (l.foldl (classify zero wO wI eO eI tol) st)
        = stateVal s z st
          + (l.map fun p =>
              pairVal zero tol s z (wO p.1) (wI p.2.1) (eO p.1) (eI p.2.1) p.2.2.1 p.2.2.2).sum := by
  intro l
  induction l with
  | nil => intro st; simp
  | cons p l ih =>
    intro st
    rw [List.foldl_cons, ih, stateVal_classify, List.map_cons, List.sum_cons, add_assoc]

/-! ## 2. one part -/

section Part
variable {N M : ℕ}

/-- THE BLOCK-PAIR PART OF THE PAIR SUM: outer block with `N` states (weights `wO`, energies `EO`),
inner block with `M` states (`wI`, `EI`), `A` the `N × M` block `<outer|A|inner>`, `B` the `M × N` block
`<inner|B|outer>`; summed over ALL pairs of states. -/
noncomputable def suscBlockPart (zero : ℝ → Bool) (tol : ℝ) (s z : ℂ) (wO EO : Fin N → ℝ)
    (wI EI : Fin M → ℝ) (A : Matrix (Fin N) (Fin M) ℂ) (B : Matrix (Fin M) (Fin N) ℂ) : ℂ :=
  ∑ i : Fin N, ∑ j : Fin M, pairVal zero tol s z (wO i) (wI j) (EO i) (EI j) (A i j) (B j i)

theorem suscBlockPart_zero_left (zero : ℝ → Bool) (tol : ℝ) (s z : ℂ) (wO EO : Fin N → ℝ)
    (wI EI : Fin M → ℝ) (B : Matrix (Fin M) (Fin N) ℂ) :
    suscBlockPart zero tol s z wO EO wI EI 0 B = 0 := by
  unfold suscBlockPart
  simp only [Matrix.zero_apply, pairVal_zero_left, Finset.sum_const_zero]

theorem suscBlockPart_zero_right (zero : ℝ → Bool) (tol : ℝ) (s z : ℂ) (wO EO : Fin N → ℝ)
    (wI EI : Fin M → ℝ) (A : Matrix (Fin N) (Fin M) ℂ) :
    suscBlockPart zero tol s z wO EO wI EI A 0 = 0 := by
  unfold suscBlockPart
  simp only [Matrix.zero_apply, pairVal_zero_right, Finset.sum_const_zero]

/-- **2: THE LOOP OF ONE PART.**  With the compressed blocks representing `A` (row-major) and `B`
(column-major), `SusceptibilityPart::compute` (model `computePart`: the sparse double loop, zero-pole
test `zero`, extracted `Pole`, `Residue`, `ZeroPoleWeight +=` formulas, extracted residue filter with
tolerance `tol`) run on a freshly constructed part succeeds, and the value of the part -- its terms
evaluated at `z` plus its zero-pole weight times `s` -- is the sum over ALL pairs (outer state, inner
state) of `pairVal`: walking the sparse rows loses nothing and adds nothing. -/
theorem susc_part_loop (zero : ℝ → Bool) (tol : ℝ) (s z : ℂ) (wO EO : Fin N → ℝ) (wI EI : Fin M → ℝ)
    {A : Matrix (Fin N) (Fin M) ℂ} {B : Matrix (Fin M) (Fin N) ℂ} {As Bs : SpMat ℂ}
    (hA : RepresentsRows As A) (hB : RepresentsCols Bs B) :
    ∃ st, computePart true true zero (natExt wO) (natExt wI) (natExt EO) (natExt EI) tol 0 As Bs
        = .ok st ∧
      stateVal s z st = suscBlockPart zero tol s z wO EO wI EI A B := by
  obtain ⟨l, h1, h2⟩ := gfpart_sum_eq_matrix_sum
    (fun i k a b => pairVal zero tol s z (natExt wO i) (natExt wI k) (natExt EO i) (natExt EI k) a b)
    (fun i k x => pairVal_zero_left ..) (fun i k x => pairVal_zero_right ..) hA hB
  refine ⟨l.foldl (classify zero (natExt wO) (natExt wI) (natExt EO) (natExt EI) tol) ([], 0), ?_, ?_⟩
  · unfold computePart contributions
    rw [h1]
  · rw [foldl_classify, h2]
    unfold stateVal suscBlockPart
    simp only [natExt_val, List.map_nil, List.sum_nil, zero_mul, add_zero, zero_add]

/-- the flags extracted from the source for the two advancing loops of `SusceptibilityPart::compute`
are the guarded ones, so `computePartSource` is `computePart true true …` with the extracted test and
constants -/
theorem computePartSource_eq (wO wI eO eI : ℕ → ℝ) (As Bs : SpMat ℂ) :
    computePartSource wO wI eO eI As Bs
      = computePart true true (sourceZeroTest (Gen.Susc.tolResonance : ℝ)) wO wI eO eI
          (Gen.Susc.tolMatrixElement : ℝ) (0 : ℂ) As Bs := by
  have h1 : sourceGuardB = true := by decide
  have h2 : sourceGuardA = true := by decide
  unfold computePartSource
  rw [h1, h2]

end Part

/-! ## 3. the whole structure -/

section Whole
variable {B : ℕ} {sz : Fin B → ℕ}

/-- a function of block pairs, given block NUMBERS (zero for numbers that are not blocks) -/
noncomputable def numVal (g : Fin B → Fin B → ℂ) (p : ℕ × ℕ) : ℂ :=
  if h : p.1 < B ∧ p.2 < B then g ⟨p.1, h.1⟩ ⟨p.2, h.2⟩ else 0

theorem numVal_fin (g : Fin B → Fin B → ℂ) (L R : Fin B) : numVal g (L.1, R.1) = g L R := by
  unfold numVal
  rw [dif_pos ⟨L.2, R.2⟩]

/-- **3a: THE PARTS THAT ARE NOT CREATED CONTRIBUTE NOTHING.**  `c` / `cx`: the bimap views listing
the non-trivial blocks of `C` / `CX` (`c` strictly increasing in the left index, `cx` in the right
index); `g L R` any quantity attached to the block pair (outer `L`, inner `R`) that vanishes when
`<L|C|R>` or `<R|CX|L>` is zero.  Then the merge walk of `Susceptibility::prepare` (every block
retained) succeeds, creates no pair twice, and the sum of `g` over the pairs created is the sum of `g`
over ALL block pairs. -/
theorem selected_sum_eq_all (g : Fin B → Fin B → ℂ) (C CX : Matrix (Basis sz) (Basis sz) ℂ)
    (c cx : List (ℕ × ℕ)) (hc : SortedByLeft c) (hcx : SortedByRight cx) (hcC : CoversBlocks c C)
    (hcCX : CoversBlocks cx CX)
    (hg : ∀ L R : Fin B, block C L R = 0 ∨ block CX R L = 0 → g L R = 0) :
    ∃ parts, Pomerol.Model.SuscPart.prepare (fun _ => true) c cx = .ok parts ∧ parts.Nodup ∧
      (∀ L R, (L, R) ∈ parts ↔ (L, R) ∈ c ∧ (R, L) ∈ cx) ∧
      (parts.map (numVal g)).sum = ∑ L : Fin B, ∑ R : Fin B, g L R := by
  obtain ⟨parts, hp, hnd, hmem⟩ := prepare_parts_characterised (fun _ => true) c cx hc hcx
  have hmem' : ∀ L R, (L, R) ∈ parts ↔ (L, R) ∈ c ∧ (R, L) ∈ cx := by
    intro L R
    rw [hmem]
    simp
  refine ⟨parts, hp, hnd, hmem', ?_⟩
  rw [← List.sum_toFinset _ hnd, ← Finset.sum_product']
  let e : Fin B × Fin B ↪ ℕ × ℕ :=
    ⟨fun q => (q.1.1, q.2.1), fun q q' h => by
      simp only [Prod.mk.injEq] at h
      exact Prod.ext (Fin.ext h.1) (Fin.ext h.2)⟩
  have h1 : ∑ q ∈ (Finset.univ : Finset (Fin B)) ×ˢ (Finset.univ : Finset (Fin B)), g q.1 q.2
      = ∑ p ∈ (Finset.univ : Finset (Fin B × Fin B)).map e, numVal g p := by
    rw [Finset.sum_map, Finset.univ_product_univ]
    refine Finset.sum_congr rfl fun q _ => ?_
    exact (numVal_fin g q.1 q.2).symm
  rw [h1]
  have hA : ∑ p ∈ parts.toFinset, numVal g p
      = ∑ p ∈ parts.toFinset ∪ (Finset.univ : Finset (Fin B × Fin B)).map e, numVal g p := by
    apply Finset.sum_subset Finset.subset_union_left
    intro p hp1 hp2
    have hpe : p ∈ (Finset.univ : Finset (Fin B × Fin B)).map e := by
      rcases Finset.mem_union.mp hp1 with h | h
      · exact absurd h hp2
      · exact h
    obtain ⟨q, -, rfl⟩ := Finset.mem_map.mp hpe
    obtain ⟨L, R⟩ := q
    change numVal g (L.1, R.1) = 0
    rw [numVal_fin]
    have hnot : ¬ ((L.1, R.1) ∈ c ∧ (R.1, L.1) ∈ cx) := by
      intro h
      apply hp2
      rw [List.mem_toFinset]
      exact (hmem' L.1 R.1).mpr h
    apply hg
    by_cases h : (L.1, R.1) ∈ c
    · right
      by_contra h0
      exact hnot ⟨h, hcCX R L h0⟩
    · left
      by_contra h0
      exact h (hcC L R h0)
  have hB : ∑ p ∈ (Finset.univ : Finset (Fin B × Fin B)).map e, numVal g p
      = ∑ p ∈ parts.toFinset ∪ (Finset.univ : Finset (Fin B × Fin B)).map e, numVal g p := by
    apply Finset.sum_subset Finset.subset_union_right
    intro p _ hp2
    unfold numVal
    rw [dif_neg]
    intro h
    apply hp2
    exact Finset.mem_map.mpr ⟨(⟨p.1, h.1⟩, ⟨p.2, h.2⟩), Finset.mem_univ _, rfl⟩
  rw [hA, hB]

/-- the sum over ALL pairs of eigenstates of what the loop body does with a pair -/
noncomputable def pairSum (d : EigenData (Basis sz)) (A Bm : Matrix (Basis sz) (Basis sz) ℂ)
    (zero : ℝ → Bool) (tol : ℝ) (s z : ℂ) : ℂ :=
  ∑ n, ∑ m, pairVal zero tol s z (d.w n) (d.w m) (d.E n) (d.E m) (A n m) (Bm m n)

/-- the share of the block pair (outer `L`, inner `R`) -/
noncomputable def suscBlockPartOf (d : EigenData (Basis sz)) (A Bm : Matrix (Basis sz) (Basis sz) ℂ)
    (zero : ℝ → Bool) (tol : ℝ) (s z : ℂ) (L R : Fin B) : ℂ :=
  suscBlockPart zero tol s z (fun i => d.w ⟨L, i⟩) (fun i => d.E ⟨L, i⟩) (fun j => d.w ⟨R, j⟩)
    (fun j => d.E ⟨R, j⟩) (block A L R) (block Bm R L)

/-- the pair sum is the sum of its block-pair parts (pure regrouping) -/
theorem pairSum_eq_sum_block_parts (d : EigenData (Basis sz))
    (A Bm : Matrix (Basis sz) (Basis sz) ℂ) (zero : ℝ → Bool) (tol : ℝ) (s z : ℂ) :
    pairSum d A Bm zero tol s z = ∑ L : Fin B, ∑ R : Fin B, suscBlockPartOf d A Bm zero tol s z L R := by
  unfold pairSum suscBlockPartOf suscBlockPart block
  simp only [Fintype.sum_sigma]
  refine Finset.sum_congr rfl fun L _ => ?_
  exact Finset.sum_comm

theorem computeParts_spec (F : ℕ → ℕ → Except Err (PartState ℂ ℝ)) (g : ℕ × ℕ → ℂ) (s z : ℂ) :
    ∀ parts : List (ℕ × ℕ),
      (∀ p ∈ parts, ∃ st, F p.1 p.2 = .ok st ∧ stateVal s z st = g p) →
      ∃ sts, computeParts F parts = .ok sts ∧
        (sts.map (stateVal s z)).sum = (parts.map g).sum := by
  intro parts
  induction parts with
  | nil => intro _; exact ⟨[], rfl, rfl⟩
  | cons p ps ih =>
    intro h
    obtain ⟨st, h1, h2⟩ := h p List.mem_cons_self
    obtain ⟨sts, h3, h4⟩ := ih fun q hq => h q (List.mem_cons_of_mem _ hq)
    obtain ⟨l, r⟩ := p
    refine ⟨st :: sts, ?_, ?_⟩
    · rw [computeParts]
      simp only at h1
      rw [h1]
      dsimp only
      rw [h3]
    · rw [List.map_cons, List.sum_cons, List.map_cons, List.sum_cons, h2, h4]

/-- **3: THE WHOLE LOOP STRUCTURE, ANY ZERO-POLE TEST AND ANY TOLERANCE.**  Eigenbasis split into
blocks; `a`, `b` the bimap views listing the non-trivial blocks of `A`, `B` (`a`: left view of `A`'s
bimap, strictly increasing in the left index; `b`: right view of `B`'s bimap, strictly increasing in the
right index; block numbers in range); for every pair of blocks a compressed row-major representation
`Ablk L R` of `<L|A|R>` and a compressed column-major representation `Bblk R L` of `<R|B|L>`.  Then the
model of `Susceptibility::prepare` + `Susceptibility::compute` (merge walk over the bimaps, then for
every part the sparse double loop with the zero-pole branch; nothing truncated) succeeds, and the values
of ALL parts (terms at `z` + zero-pole weight × `s`) add up to the sum over ALL pairs of eigenstates of
what the loop body does with a pair. -/
theorem susc_loops_compute_pair_sum (d : EigenData (Basis sz))
    (A Bm : Matrix (Basis sz) (Basis sz) ℂ) (a b : List (ℕ × ℕ))
    (ha : SortedByLeft a) (hb : SortedByRight b) (haA : CoversBlocks a A)
    (hbB : CoversBlocks b Bm) (hrange : ∀ p ∈ a, p.1 < B ∧ p.2 < B)
    (Ablk Bblk : ℕ → ℕ → SpMat ℂ)
    (hAblk : ∀ L R : Fin B, RepresentsRows (Ablk L.1 R.1) (block A L R))
    (hBblk : ∀ L R : Fin B, RepresentsCols (Bblk R.1 L.1) (block Bm R L))
    (zero : ℝ → Bool) (tol : ℝ) (s z : ℂ) :
    ∃ sts, susceptibilityParts true true (fun _ => true) zero a b (blockTable d.w) (blockTable d.E)
        tol Ablk Bblk = .ok sts ∧
      (sts.map (stateVal s z)).sum = pairSum d A Bm zero tol s z := by
  obtain ⟨parts, hp, -, hmem, hsum⟩ := selected_sum_eq_all (suscBlockPartOf d A Bm zero tol s z)
    A Bm a b ha hb haA hbB (by
      intro L R h
      unfold suscBlockPartOf
      rcases h with h | h
      · rw [h, suscBlockPart_zero_left]
      · rw [h, suscBlockPart_zero_right])
  obtain ⟨sts, h1, h2⟩ := computeParts_spec
    (fun l r => computePart true true zero (blockTable d.w l) (blockTable d.w r) (blockTable d.E l)
      (blockTable d.E r) tol (0 : ℂ) (Ablk l r) (Bblk r l))
    (numVal (suscBlockPartOf d A Bm zero tol s z)) s z parts (by
    intro p hpm
    obtain ⟨l, r⟩ := p
    obtain ⟨hl, hr⟩ := hrange _ ((hmem l r).mp hpm).1
    obtain ⟨st, t1, t2⟩ := susc_part_loop zero tol s z
      (fun i => d.w ⟨⟨l, hl⟩, i⟩) (fun i => d.E ⟨⟨l, hl⟩, i⟩)
      (fun j => d.w ⟨⟨r, hr⟩, j⟩) (fun j => d.E ⟨⟨r, hr⟩, j⟩)
      (hAblk ⟨l, hl⟩ ⟨r, hr⟩) (hBblk ⟨l, hl⟩ ⟨r, hr⟩)
    refine ⟨st, ?_, ?_⟩
    · have e1 := blockTable_fin d.w ⟨l, hl⟩
      have e2 := blockTable_fin d.w ⟨r, hr⟩
      have e3 := blockTable_fin d.E ⟨l, hl⟩
      have e4 := blockTable_fin d.E ⟨r, hr⟩
      simp only at e1 e2 e3 e4
      simp only [e1, e2, e3, e4]
      exact t1
    · rw [t2]
      exact (numVal_fin (suscBlockPartOf d A Bm zero tol s z) ⟨l, hl⟩ ⟨r, hr⟩).symm)
  refine ⟨sts, ?_, by rw [h2, hsum, pairSum_eq_sum_block_parts]⟩
  unfold susceptibilityParts
  rw [hp]
  exact h1

/-! ## 4. what the pair sum is -/

/-- the factor of the zero-pole weight at the bosonic Matsubara frequency `iΩ_k`: `β` at `k = 0`, else
`0` (idealisation of `abs(z) < 1e-15`, as in `Bridge.susc_sum`) -/
noncomputable def staticFactor (β : ℝ) (k : ℤ) : ℂ := if k = 0 then (β : ℂ) else 0

/-- the exact degeneracy test `Pole = 0` -/
noncomputable def exactZeroTest : ℝ → Bool := fun P => decide (P = 0)

theorem exactZeroTest_iff (d : EigenData (Basis sz)) (n m : Basis sz) :
    exactZeroTest (Gen.Susc.pole (d.E m) (d.E n)) = true ↔ d.E m = d.E n := by
  unfold exactZeroTest
  rw [decide_eq_true_iff, Bridge.susc_pole, sub_eq_zero]

/-- the extracted test `abs(Pole) < rtol` IS the exact test on a spectrum in which any two levels are
either exactly degenerate or split by at least `rtol > 0` -/
theorem sourceZeroTest_iff (d : EigenData (Basis sz)) (rtol : ℝ) (hr : 0 < rtol)
    (hclean : ∀ n m, d.E m = d.E n ∨ rtol ≤ |d.E m - d.E n|) (n m : Basis sz) :
    sourceZeroTest rtol (Gen.Susc.pole (d.E m) (d.E n)) = true ↔ d.E m = d.E n := by
  unfold sourceZeroTest
  rw [Bridge.susc_isZeroPole, Bridge.susc_pole]
  constructor
  · intro h
    rcases hclean n m with h' | h'
    · exact h'
    · exact absurd h (not_lt.mpr h')
  · intro h
    rw [h, sub_self, abs_zero]
    exact hr

/-- with a zero-pole test that is exact on the spectrum and without residue filter, the pair sum is the
sum of `Bridge.susc_sum`, i.e. the definition of the susceptibility -/
theorem pairSum_exact (d : EigenData (Basis sz)) (A Bm : Matrix (Basis sz) (Basis sz) ℂ)
    (zero : ℝ → Bool)
    (hzero : ∀ n m, zero (Gen.Susc.pole (d.E m) (d.E n)) = true ↔ d.E m = d.E n)
    (tol : ℝ) (htol : tol < 0) (k : ℤ) :
    pairSum d A Bm zero tol (staticFactor d.β k) (Complex.I * (d.Ω k : ℂ)) = d.suscDef A Bm k := by
  rw [← Bridge.susc_sum d A Bm k]
  unfold pairSum
  refine Finset.sum_congr rfl fun n _ => Finset.sum_congr rfl fun m _ => ?_
  unfold pairVal staticFactor
  have hk : ∀ r : ℂ, Gen.Susc.residueKept r tol = true := fun r => by
    rw [Bridge.susc_residueKept]; exact lt_of_lt_of_le htol (norm_nonneg r)
  by_cases hE : d.E m = d.E n
  · rw [if_pos ((hzero n m).mpr hE), if_pos hE, mul_ite, mul_zero]
  · rw [if_neg (fun h => hE ((hzero n m).mp h)), if_neg hE, if_pos (hk _)]

/-- with the EXTRACTED tests and arbitrary tolerances the pair sum is `suscWithTolerances` -/
theorem pairSum_tolerances (d : EigenData (Basis sz)) (A Bm : Matrix (Basis sz) (Basis sz) ℂ)
    (rtol mtol : ℝ) (k : ℤ) :
    pairSum d A Bm (sourceZeroTest rtol) mtol (staticFactor d.β k) (Complex.I * (d.Ω k : ℂ))
      = suscWithTolerances d A Bm k rtol mtol := by
  unfold pairSum suscWithTolerances
  refine Finset.sum_congr rfl fun n _ => Finset.sum_congr rfl fun m _ => ?_
  unfold pairVal suscPairWithTolerances staticFactor sourceZeroTest
  rw [mul_ite, mul_zero]

/-- **A: THE LOOPS OF THE SUSCEPTIBILITY CODE COMPUTE THE BOSONIC LEHMANN SUM.**  Setting of
`GFRefine.whole_loop_refines_lehmann` (block-structured eigenbasis, bimap views `a`, `b` covering the
non-trivial blocks of `A`, `B`, compressed blocks representing the matrices).  The zero-pole test is
any test `zero` that is exact on the spectrum (`zero (E_m − E_n) ↔ E_m = E_n`; instances:
`exactZeroTest_iff`, `sourceZeroTest_iff`), the residue filter is idealised away (`tol < 0`), nothing is
truncated.  Then `Susceptibility::prepare` + `compute` (model `susceptibilityParts`) succeed, and the
sum over the parts created of (the sum of the frequency terms `−R/(iΩ_k − P)` of the part + its
zero-pole weight times `β` at `k = 0`) equals `d.lehmannSusc A B k`. -/
theorem susc_loops_compute_lehmann_sum (d : EigenData (Basis sz))
    (A Bm : Matrix (Basis sz) (Basis sz) ℂ) (a b : List (ℕ × ℕ))
    (ha : SortedByLeft a) (hb : SortedByRight b) (haA : CoversBlocks a A)
    (hbB : CoversBlocks b Bm) (hrange : ∀ p ∈ a, p.1 < B ∧ p.2 < B)
    (Ablk Bblk : ℕ → ℕ → SpMat ℂ)
    (hAblk : ∀ L R : Fin B, RepresentsRows (Ablk L.1 R.1) (block A L R))
    (hBblk : ∀ L R : Fin B, RepresentsCols (Bblk R.1 L.1) (block Bm R L))
    (zero : ℝ → Bool)
    (hzero : ∀ n m, zero (Gen.Susc.pole (d.E m) (d.E n)) = true ↔ d.E m = d.E n)
    (tol : ℝ) (htol : tol < 0) (k : ℤ) :
    ∃ sts, susceptibilityParts true true (fun _ => true) zero a b (blockTable d.w) (blockTable d.E)
        tol Ablk Bblk = .ok sts ∧
      (sts.map fun st =>
          (st.1.map (suscTermValue (Complex.I * (d.Ω k : ℂ)))).sum
            + (if k = 0 then st.2 * (d.β : ℂ) else 0)).sum
        = d.lehmannSusc A Bm k := by
  obtain ⟨sts, h1, h2⟩ := susc_loops_compute_pair_sum d A Bm a b ha hb haA hbB hrange Ablk Bblk
    hAblk hBblk zero tol (staticFactor d.β k) (Complex.I * (d.Ω k : ℂ))
  refine ⟨sts, h1, ?_⟩
  rw [← lehmann_susc, ← pairSum_exact d A Bm zero hzero tol htol k, ← h2]
  congr 1
  apply List.map_congr_left
  intro st _
  unfold stateVal staticFactor
  rw [mul_ite, mul_zero]

/-- ... hence the definition `∫₀^β ⟨A(τ)B(0)⟩ e^{iΩ_k τ} dτ` -/
theorem susc_loops_compute_definition (d : EigenData (Basis sz))
    (A Bm : Matrix (Basis sz) (Basis sz) ℂ) (a b : List (ℕ × ℕ))
    (ha : SortedByLeft a) (hb : SortedByRight b) (haA : CoversBlocks a A)
    (hbB : CoversBlocks b Bm) (hrange : ∀ p ∈ a, p.1 < B ∧ p.2 < B)
    (Ablk Bblk : ℕ → ℕ → SpMat ℂ)
    (hAblk : ∀ L R : Fin B, RepresentsRows (Ablk L.1 R.1) (block A L R))
    (hBblk : ∀ L R : Fin B, RepresentsCols (Bblk R.1 L.1) (block Bm R L))
    (zero : ℝ → Bool)
    (hzero : ∀ n m, zero (Gen.Susc.pole (d.E m) (d.E n)) = true ↔ d.E m = d.E n)
    (tol : ℝ) (htol : tol < 0) (k : ℤ) :
    ∃ sts, susceptibilityParts true true (fun _ => true) zero a b (blockTable d.w) (blockTable d.E)
        tol Ablk Bblk = .ok sts ∧
      (sts.map fun st =>
          (st.1.map (suscTermValue (Complex.I * (d.Ω k : ℂ)))).sum
            + (if k = 0 then st.2 * (d.β : ℂ) else 0)).sum
        = d.suscDef A Bm k := by
  obtain ⟨sts, h1, h2⟩ := susc_loops_compute_lehmann_sum d A Bm a b ha hb haA hbB hrange Ablk Bblk
    hAblk hBblk zero hzero tol htol k
  exact ⟨sts, h1, by rw [h2, lehmann_susc]⟩

/-- **A with the tolerance tests of the source.**  Same setting; the zero-pole test is the EXTRACTED
`abs(Pole) < rtol`, the residue filter the EXTRACTED `abs(Residue) > mtol`, tolerances arbitrary.  The
loops compute exactly `suscWithTolerances d A B k rtol mtol` of `Spec/SuscTol.lean` -- the quantity whose
distance to the definition is accounted for term by term in `suscWithTolerances_eq` (finding F14). -/
theorem susc_loops_compute_value_with_tolerances (d : EigenData (Basis sz))
    (A Bm : Matrix (Basis sz) (Basis sz) ℂ) (a b : List (ℕ × ℕ))
    (ha : SortedByLeft a) (hb : SortedByRight b) (haA : CoversBlocks a A)
    (hbB : CoversBlocks b Bm) (hrange : ∀ p ∈ a, p.1 < B ∧ p.2 < B)
    (Ablk Bblk : ℕ → ℕ → SpMat ℂ)
    (hAblk : ∀ L R : Fin B, RepresentsRows (Ablk L.1 R.1) (block A L R))
    (hBblk : ∀ L R : Fin B, RepresentsCols (Bblk R.1 L.1) (block Bm R L))
    (rtol mtol : ℝ) (k : ℤ) :
    ∃ sts, susceptibilityParts true true (fun _ => true) (sourceZeroTest rtol) a b (blockTable d.w)
        (blockTable d.E) mtol Ablk Bblk = .ok sts ∧
      (sts.map fun st =>
          (st.1.map (suscTermValue (Complex.I * (d.Ω k : ℂ)))).sum
            + (if k = 0 then st.2 * (d.β : ℂ) else 0)).sum
        = suscWithTolerances d A Bm k rtol mtol := by
  obtain ⟨sts, h1, h2⟩ := susc_loops_compute_pair_sum d A Bm a b ha hb haA hbB hrange Ablk Bblk
    hAblk hBblk (sourceZeroTest rtol) mtol (staticFactor d.β k) (Complex.I * (d.Ω k : ℂ))
  refine ⟨sts, h1, ?_⟩
  rw [← pairSum_tolerances, ← h2]
  congr 1
  apply List.map_congr_left
  intro st _
  unfold stateVal staticFactor
  rw [mul_ite, mul_zero]

/-- ... and with the extracted CONSTANTS (`10⁻⁸`, `10⁻⁸`) the loops compute the definition whenever no
pair of levels is nearly (not exactly) degenerate and no non-zero residue is below the filter -/
theorem susc_loops_source_tolerances_clean (d : EigenData (Basis sz))
    (A Bm : Matrix (Basis sz) (Basis sz) ℂ) (a b : List (ℕ × ℕ))
    (ha : SortedByLeft a) (hb : SortedByRight b) (haA : CoversBlocks a A)
    (hbB : CoversBlocks b Bm) (hrange : ∀ p ∈ a, p.1 < B ∧ p.2 < B)
    (Ablk Bblk : ℕ → ℕ → SpMat ℂ)
    (hAblk : ∀ L R : Fin B, RepresentsRows (Ablk L.1 R.1) (block A L R))
    (hBblk : ∀ L R : Fin B, RepresentsCols (Bblk R.1 L.1) (block Bm R L)) (k : ℤ)
    (hclean : ∀ n m, d.E m = d.E n ∨ ((Gen.Susc.tolResonance : ℝ) ≤ |d.E m - d.E n| ∧
      ((Gen.Susc.tolMatrixElement : ℝ) < ‖A n m * Bm m n * ((d.w n : ℂ) - (d.w m : ℂ))‖ ∨
        A n m * Bm m n * ((d.w n : ℂ) - (d.w m : ℂ)) = 0))) :
    ∃ sts, susceptibilityParts true true (fun _ => true)
        (sourceZeroTest (Gen.Susc.tolResonance : ℝ)) a b (blockTable d.w)
        (blockTable d.E) (Gen.Susc.tolMatrixElement : ℝ) Ablk Bblk = .ok sts ∧
      (sts.map fun st =>
          (st.1.map (suscTermValue (Complex.I * (d.Ω k : ℂ)))).sum
            + (if k = 0 then st.2 * (d.β : ℂ) else 0)).sum
        = d.suscDef A Bm k := by
  obtain ⟨sts, h1, h2⟩ := susc_loops_compute_value_with_tolerances d A Bm a b ha hb haA hbB hrange
    Ablk Bblk hAblk hBblk Gen.Susc.tolResonance Gen.Susc.tolMatrixElement k
  exact ⟨sts, h1, by
    rw [h2]
    exact suscWithTolerances_exact_of_clean_spectrum d A Bm k _ _ Bridge.susc_tolResonance_pos hclean⟩

/-! ## 5. the modelled `operator()(z)` with its own static-frequency test -/

theorem foldl_add_eq_sum {α : Type} (f : α → ℂ) (l : List α) (x : ℂ) :
    l.foldl (fun acc t => acc + f t) x = x + (l.map f).sum := by
  induction l generalizing x with
  | nil => simp
  | cons t l ih => rw [List.foldl_cons, ih, List.map_cons, List.sum_cons, add_assoc]

/-- the library's test `abs(z) < 1e-15` at `z = iΩ_k` is `k = 0`, provided `β ≤ 10¹⁵` (the first
non-zero bosonic frequency is `2π/β`) -/
theorem zeroPoleValue_matsubara {ι : Type} (d : EigenData ι) (hβ : d.β ≤ 10 ^ 15) (zpw : ℂ) (k : ℤ) :
    Gen.Susc.zeroPoleValue zpw d.β (Complex.I * (d.Ω k : ℂ)) = zpw * staticFactor d.β k := by
  rw [Bridge.susc_zeroPoleValue]
  unfold staticFactor
  by_cases hk : k = 0
  · subst hk
    have h0 : d.Ω 0 = 0 := by unfold EigenData.Ω; simp
    rw [h0, if_pos rfl, if_pos]
    simp
    norm_num
  · rw [if_neg hk, mul_zero, if_neg]
    rw [not_lt, norm_mul, Complex.norm_I, one_mul, Complex.norm_real, Real.norm_eq_abs]
    unfold EigenData.Ω
    have hk1 : (1 : ℝ) ≤ |(k : ℝ)| := by
      have : (1 : ℤ) ≤ |k| := Int.one_le_abs hk
      exact_mod_cast this
    rw [abs_div, abs_mul, abs_mul, abs_of_pos d.hβ, abs_of_pos Real.pi_pos, abs_two]
    rw [le_div_iff₀ d.hβ]
    have hpi := Real.two_le_pi
    have h1 : (1e-15 : ℝ) * d.β ≤ 1 := by
      have : (1e-15 : ℝ) = 1 / 10 ^ 15 := by norm_num
      rw [this, div_mul_eq_mul_div, one_mul]
      exact div_le_one_of_le₀ hβ (by positivity)
    nlinarith

/-- `SusceptibilityPart::operator()(iΩ_k)` of the model is `stateVal` -/
theorem partValue_eq {ι : Type} (d : EigenData ι) (hβ : d.β ≤ 10 ^ 15) (k : ℤ) (st : PartState ℂ ℝ) :
    Pomerol.Model.SuscPart.partValue d.β (Complex.I * (d.Ω k : ℂ)) st
      = stateVal (staticFactor d.β k) (Complex.I * (d.Ω k : ℂ)) st := by
  unfold Pomerol.Model.SuscPart.partValue termsValue stateVal
  rw [foldl_add_eq_sum, zero_add, zeroPoleValue_matsubara d hβ]
  rfl

/-- `Susceptibility::operator()(iΩ_k)` of the model is the sum of the `stateVal`s of the parts -/
theorem susceptibilityValue_eq {ι : Type} (d : EigenData ι) (hβ : d.β ≤ 10 ^ 15) (k : ℤ)
    (sts : List (PartState ℂ ℝ)) :
    susceptibilityValue d.β (Complex.I * (d.Ω k : ℂ)) sts
      = (sts.map (stateVal (staticFactor d.β k) (Complex.I * (d.Ω k : ℂ)))).sum := by
  unfold susceptibilityValue
  rw [foldl_add_eq_sum, zero_add]
  congr 1
  apply List.map_congr_left
  intro st _
  exact partValue_eq d hβ k st

/-- **A for the modelled `Susceptibility::operator()`**: prepare + compute + evaluation at `iΩ_k` with
the library's own test `abs(z) < 1e-15` for the zero-pole contribution give the definition (exact
zero-pole test, no residue filter, `β ≤ 10¹⁵`). -/
theorem susc_loops_operator_value (d : EigenData (Basis sz))
    (A Bm : Matrix (Basis sz) (Basis sz) ℂ) (a b : List (ℕ × ℕ))
    (ha : SortedByLeft a) (hb : SortedByRight b) (haA : CoversBlocks a A)
    (hbB : CoversBlocks b Bm) (hrange : ∀ p ∈ a, p.1 < B ∧ p.2 < B)
    (Ablk Bblk : ℕ → ℕ → SpMat ℂ)
    (hAblk : ∀ L R : Fin B, RepresentsRows (Ablk L.1 R.1) (block A L R))
    (hBblk : ∀ L R : Fin B, RepresentsCols (Bblk R.1 L.1) (block Bm R L))
    (zero : ℝ → Bool)
    (hzero : ∀ n m, zero (Gen.Susc.pole (d.E m) (d.E n)) = true ↔ d.E m = d.E n)
    (tol : ℝ) (htol : tol < 0) (hβ : d.β ≤ 10 ^ 15) (k : ℤ) :
    ∃ sts, susceptibilityParts true true (fun _ => true) zero a b (blockTable d.w) (blockTable d.E)
        tol Ablk Bblk = .ok sts ∧
      susceptibilityValue d.β (Complex.I * (d.Ω k : ℂ)) sts = d.suscDef A Bm k := by
  obtain ⟨sts, h1, h2⟩ := susc_loops_compute_pair_sum d A Bm a b ha hb haA hbB hrange Ablk Bblk
    hAblk hBblk zero tol (staticFactor d.β k) (Complex.I * (d.Ω k : ℂ))
  exact ⟨sts, h1, by rw [susceptibilityValue_eq d hβ, h2, pairSum_exact d A Bm zero hzero tol htol k]⟩

end Whole

end Pomerol.Spec.SuscRefine
