import PomerolModel.Model.Dispatcher

/-
  Safety and liveness of the master/worker dispatcher model (`PomerolModel/Model/Dispatcher.lean`).

  One inductive invariant `Inv P jobs s` (= `Core` + `started` + a fact on rank 0's loop position) is shown to
  hold for `init P jobs` and to be preserved by every `step`; all theorems follow from it.
  `Core` says: all per-rank lists have length `P`; the idle stack is duplicate free, below `P`, and
  `|idle| + #{i | wait[i]} = P`; `jobs = reverse (keys dmap) ++ job stack` (conservation: the stack is a suffix of
  the job order and `dmap` records exactly the jobs handed out); every `log` entry is a `dmap` entry, `log` has no
  duplicate job; every `dmap` entry `(j,i)` is either in flight as the single message `[work j]` of `down[i]`
  or in the `log`, never both; `fin` is constantly `b`, `b = true` only with an empty job stack; and every rank is
  in exactly one of the five `Phase`s (idle / assigned / done / `Finish` in flight / finished).

  `measure` is a plain `Nat`; the two measure theorems hold for every step of the model (the reachability
  hypothesis is not needed).  `can_finish` is proved by well-founded induction on `measure` along an explicit
  fair schedule.  Core Lean only.
-/

namespace Pomerol.Spec.Disp
open Pomerol.Model.Disp

/-! ### list helpers -/

theorem getD_set {α : Type} (l : List α) (i k : Nat) (v d : α) :
    (l.set i v).getD k d = if i = k ∧ i < l.length then v else l.getD k d := by grind

theorem getD_replicate {α : Type} (n i : Nat) (a d : α) :
    (List.replicate n a).getD i d = if i < n then a else d := by grind

theorem getElem?_set' {α : Type} (l : List α) (i k : Nat) (v : α) :
    (l.set i v)[k]? = if i = k ∧ i < l.length then some v else l[k]? := by grind

theorem set_eq_self {α : Type} (l : List α) (i : Nat) (v : α) (h : l[i]? = some v) : l.set i v = l := by
  induction l generalizing i with
  | nil => rfl
  | cons a l ih => cases i with
    | zero => simp_all
    | succ i => simp_all

theorem set_ge {α : Type} (l : List α) (i : Nat) (v : α) (h : l.length ≤ i) : l.set i v = l := by
  induction l generalizing i with
  | nil => rfl
  | cons a l ih => cases i with
    | zero => simp at h
    | succ i => simp at h; simp [ih i h]

/-- weighted sum of a list -/
def wsum {α : Type} (f : α → Nat) : List α → Nat
  | [] => 0
  | a :: l => f a + wsum f l

theorem wsum_set {α : Type} (f : α → Nat) (l : List α) (i : Nat) (v d : α) (h : i < l.length) :
    wsum f (l.set i v) + f (l.getD i d) = wsum f l + f v := by
  induction l generalizing i with
  | nil => simp at h
  | cons a l ih => cases i with
    | zero => simp [wsum]; omega
    | succ i =>
      have := ih i (by simpa using h)
      simp [wsum] at this ⊢; omega

theorem wsum_replicate {α : Type} (f : α → Nat) (n : Nat) (a : α) : wsum f (List.replicate n a) = n * f a := by
  induction n with
  | zero => simp [wsum]
  | succ n ih => simp [List.replicate_succ, wsum, ih, Nat.succ_mul]; omega

theorem count_true_set (l : List Bool) (i : Nat) (v : Bool) (h : i < l.length) :
    (l.set i v).count true + (if l.getD i false = true then 1 else 0) = l.count true + (if v = true then 1 else 0) := by
  induction l generalizing i with
  | nil => simp at h
  | cons a l ih => cases i with
    | zero => cases a <;> cases v <;> simp
    | succ i =>
      have := ih i (by simpa using h)
      cases a <;> simp at this ⊢ <;> omega

theorem count_true_zero (l : List Bool) : l.count true = 0 ↔ ∀ i, i < l.length → l.getD i false = false := by
  induction l with
  | nil => simp
  | cons a l ih =>
    cases a
    · simp [ih]
      constructor
      · intro h i hi; cases i with
        | zero => rfl
        | succ i => simpa using h i (by omega)
      · intro h i hi; simpa using h (i+1) (by omega)
    · simp
      exact ⟨0, by omega, by simp⟩


/-! ### unfolding lemmas for the model -/

abbrev dn (s : Sys) (i : Nat) : List Msg := s.down[i]?.getD []
abbrev upc (s : Sys) (i : Nat) : Nat := s.up[i]?.getD 0
abbrev wt (s : Sys) (i : Nat) : Bool := s.m.wait[i]?.getD false

/-- worker `r` (record `w`) receives `work j` and executes it -/
def doWork (s : Sys) (r : Nat) (w : Worker) (j : Nat) (rest : List Msg) : Sys :=
  { s with ws := s.ws.set r { w with st := .pending, cur := some j },
           down := s.down.set r rest, up := s.up.set r (upc s r + 1), log := s.log ++ [(j, r)] }

/-- worker `r` receives `finish` -/
def doFin (s : Sys) (r : Nat) (w : Worker) (rest : List Msg) : Sys :=
  { s with ws := s.ws.set r { w with st := .finish, exited := decide (r ≠ 0) }, down := s.down.set r rest }

/-- the master receives the completion token of worker `k` -/
def collect (s : Sys) (k : Nat) : Sys :=
  { s with m := { s.m with wait := s.m.wait.set k false, idle := k :: s.m.idle },
           up := s.up.set k (upc s k - 1) }

/-- rank 0 leaves the loop -/
def exit0 (s : Sys) (w0 : Worker) : Sys := { s with ws := s.ws.set 0 { w0 with exited := true } }

def setNext (s : Sys) (n : Nat) : Sys := { s with m := { s.m with next := n } }

/-- one hand-out of `order` -/
def assign (s : Sys) (j w : Nat) (js ws : List Nat) : Sys :=
  { s with m := { s.m with jobs := js, idle := ws, wait := s.m.wait.set w true, dmap := (j, w) :: s.m.dmap },
           down := s.down.set w (s.down.getD w [] ++ [Msg.work j]) }

theorem order_cons (s : Sys) (j w : Nat) (js ws : List Nat) (h1 : s.m.jobs = j :: js) (h2 : s.m.idle = w :: ws) :
    order s = order (assign s j w js ws) := by
  simp [order, assign, h1, h2, orderLoop]

theorem order_nil_jobs (s : Sys) (h : s.m.jobs = []) : order s = s := by
  obtain ⟨P, ⟨jobs, idle, wait, fin, dmap, started, next⟩, ws, down, up, log⟩ := s
  simp at h; subst h
  simp [order, orderLoop]

theorem order_nil_idle (s : Sys) (h : s.m.idle = []) : order s = s := by
  obtain ⟨P, ⟨jobs, idle, wait, fin, dmap, started, next⟩, ws, down, up, log⟩ := s
  simp at h; subst h
  cases jobs <;> simp [order, orderLoop]

theorem workerTest_false (s : Sys) (r : Nat) (w : Worker) (h : s.ws[r]? = some w) (he : w.exited = false)
    (hp : w.st = .pending) : workerTest s r false = some s := by
  obtain ⟨P, m, ws, down, up, log⟩ := s
  simp at h
  simp [workerTest, h, he, hp, set_eq_self ws r w h]

theorem workerTest_work (s : Sys) (r : Nat) (w : Worker) (h : s.ws[r]? = some w) (he : w.exited = false)
    (hp : w.st = .pending) (j : Nat) (rest : List Msg) (hd : s.down[r]?.getD [] = Msg.work j :: rest) :
    workerTest s r true = some (doWork s r w j rest) := by
  simp [workerTest, h, he, hp, hd, doWork]

theorem workerTest_finish (s : Sys) (r : Nat) (w : Worker) (h : s.ws[r]? = some w) (he : w.exited = false)
    (hp : w.st = .pending) (rest : List Msg) (hd : s.down[r]?.getD [] = Msg.finish :: rest) :
    workerTest s r true = some (doFin s r w rest) := by
  by_cases hr : r = 0
  · subst hr; simp [workerTest, h, he, hp, hd, doFin]
  · simp [workerTest, h, he, hp, hd, hr, doFin]

theorem workerTest_some (s s' : Sys) (r : Nat) (b : Bool) (h : workerTest s r b = some s') :
    ∃ w, s.ws[r]? = some w ∧ w.exited = false ∧ w.st = .pending ∧ (b = true → s.down[r]?.getD [] ≠ []) := by
  unfold workerTest at h
  split at h
  · simp at h
  · rename_i w hw
    refine ⟨w, hw, ?_⟩
    split at h
    · simp at h
    · rename_i hc
      simp at hc
      refine ⟨hc.1, hc.2, ?_⟩
      intro hb hd
      simp [hb, hd] at h


/-! ### the invariant -/

/-- the five phases of a worker `i` within a round, seen from the global state:
A idle / B job assigned, message in flight / C job done, token in flight / D `Finish` in flight / E finished.
`b` says whether the master has already broadcast `Finish`. -/
def Phase (b : Bool) (i : Nat) (idl : Prop) (wt : Bool) (d : List Msg) (u : Nat) (w : Worker) : Prop :=
  (b = false ∧ idl ∧ wt = false ∧ d = [] ∧ u = 0 ∧ w.st = .pending ∧ w.exited = false) ∨
  (b = false ∧ ¬ idl ∧ wt = true ∧ (∃ j, d = [Msg.work j]) ∧ u = 0 ∧ w.st = .pending ∧ w.exited = false) ∨
  (b = false ∧ ¬ idl ∧ wt = true ∧ d = [] ∧ u = 1 ∧ w.st = .pending ∧ w.exited = false) ∨
  (b = true ∧ idl ∧ wt = false ∧ d = [Msg.finish] ∧ u = 0 ∧ w.st = .pending ∧ w.exited = false) ∨
  (b = true ∧ idl ∧ wt = false ∧ d = [] ∧ u = 0 ∧ w.st = .finish ∧ (i ≠ 0 → w.exited = true))


/-- the part of the invariant that does not mention `next`/`started` -/
structure Core (P : Nat) (jobs : List Nat) (s : Sys) : Prop where
  hP : s.P = P
  lw : s.m.wait.length = P
  lws : s.ws.length = P
  ld : s.down.length = P
  lu : s.up.length = P
  idl_lt : ∀ i ∈ s.m.idle, i < P
  idl_nd : s.m.idle.Nodup
  cnt : s.m.idle.length + s.m.wait.count true = P
  K : (s.m.dmap.map (·.1)).reverse ++ s.m.jobs = jobs
  L1 : ∀ x ∈ s.log, x ∈ s.m.dmap
  L2 : (s.log.map (·.1)).Nodup
  D1 : ∀ j i, (j, i) ∈ s.m.dmap → i < P ∧ (dn s i = [Msg.work j] ∨ (j, i) ∈ s.log)
  D2 : ∀ i j, dn s i = [Msg.work j] → (j, i) ∈ s.m.dmap ∧ j ∉ s.log.map (·.1)
  ph : ∃ b, s.m.fin = List.replicate P b ∧ (b = true → s.m.jobs = []) ∧
        ∀ i, i < P → ∃ w, s.ws[i]? = some w ∧ Phase b i (i ∈ s.m.idle) (wt s i) (dn s i) (upc s i) w

theorem init0_core (P : Nat) (jobs : List Nat) : Core P jobs (init0 P jobs) := by
  refine ⟨rfl, by simp [init0], by simp [init0], by simp [init0], by simp [init0], ?_, ?_, ?_, by simp [init0],
    by simp [init0], by simp [init0], by simp [init0], ?_, ?_⟩
  · simp [init0]
  · simp [init0, List.nodup_range]
  · simp [init0, List.count_replicate]
  · intro i j; simp [init0, dn]; grind
  · refine ⟨false, by simp [init0], by simp, ?_⟩
    intro i hi
    refine ⟨{}, by simp [init0, hi], Or.inl ?_⟩
    simp [init0, hi, wt, dn, upc]


theorem assign_core (P : Nat) (jobs : List Nat) (s : Sys) (j w : Nat) (js ws : List Nat) (hnd : jobs.Nodup)
    (h : Core P jobs s) (h1 : s.m.jobs = j :: js) (h2 : s.m.idle = w :: ws) :
    Core P jobs (assign s j w js ws) := by
  obtain ⟨b, hfin, hbj, hph⟩ := h.ph
  have hb : b = false := by
    cases b
    · rfl
    · simp [h1] at hbj
  subst hb
  have hwP : w < P := h.idl_lt w (by simp [h2])
  have hnd2 := h.idl_nd
  rw [h2] at hnd2
  have hwws : w ∉ ws := (List.nodup_cons.1 hnd2).1
  obtain ⟨ww, hww, hphw⟩ := hph w hwP
  have hA : wt s w = false ∧ dn s w = [] ∧ upc s w = 0 ∧ ww.st = .pending ∧ ww.exited = false := by
    rcases hphw with h|h|h|h|h <;> simp_all
  have hK := h.K
  rw [h1] at hK
  have hj : j ∉ s.m.dmap.map (·.1) := by
    intro hc
    rw [← hK] at hnd
    have := (List.nodup_append.1 hnd).2.2 j (by simpa using hc) j (by simp)
    exact this rfl
  have hjlog : j ∉ s.log.map (·.1) := by
    intro hc
    obtain ⟨x, hx, rfl⟩ := List.mem_map.1 hc
    exact hj (List.mem_map.2 ⟨x, h.L1 x hx, rfl⟩)
  have hdn : ∀ i, dn (assign s j w js ws) i = if i = w then [Msg.work j] else dn s i := by
    intro i
    have h3 := hA.2.1
    have h4 := h.ld
    simp only [dn, assign] at h3 ⊢
    grind
  exact
  { hP := h.hP
    lw := by simp [assign, h.lw]
    lws := h.lws
    ld := by simp [assign, h.ld]
    lu := h.lu
    idl_lt := fun i hi => h.idl_lt i (by simp [h2]; exact Or.inr hi)
    idl_nd := (List.nodup_cons.1 hnd2).2
    cnt := by
      have := count_true_set s.m.wait w true (by rw [h.lw]; exact hwP)
      have hc := h.cnt
      have hw := hA.1
      simp [wt] at hw
      simp [h2, hw] at this hc
      simp [assign]; omega
    K := by simp [assign]; simpa using hK
    L1 := fun x hx => by simp [assign]; exact Or.inr (h.L1 x hx)
    L2 := h.L2
    D1 := by
      intro j' i' hm
      simp [assign] at hm
      rw [hdn]
      rcases hm with ⟨rfl, rfl⟩ | hm
      · exact ⟨hwP, Or.inl (by simp)⟩
      · obtain ⟨hi', hor⟩ := h.D1 j' i' hm
        refine ⟨hi', ?_⟩
        by_cases hiw : i' = w
        · subst hiw
          rcases hor with hor | hor
          · rw [hA.2.1] at hor; simp at hor
          · exact Or.inr hor
        · simp only [hiw, if_false]; exact hor
    D2 := by
      intro i' j' hd
      rw [hdn] at hd
      by_cases hiw : i' = w
      · subst hiw
        simp at hd; subst hd
        exact ⟨by simp [assign], hjlog⟩
      · simp [hiw] at hd
        obtain ⟨h1', h2'⟩ := h.D2 i' j' hd
        exact ⟨by simp [assign]; exact Or.inr h1', h2'⟩
    ph := by
      refine ⟨false, hfin, by simp, ?_⟩
      intro i hi
      obtain ⟨wi, hwi, hphi⟩ := hph i hi
      refine ⟨wi, hwi, ?_⟩
      rw [hdn]
      by_cases hiw : i = w
      · subst hiw
        rw [hww] at hwi; cases hwi
        refine Or.inr (Or.inl ?_)
        have := hA.2.2.1
        simp [upc] at this
        simp [assign, hwws, wt, h.lw, hwP, upc, this, hA.2.2.2]
      · have hmem : i ∈ ws ↔ i ∈ s.m.idle := by simp [h2, hiw]
        have hwt : wt (assign s j w js ws) i = wt s i := by
          simp [assign, wt, Ne.symm hiw]
        simp only [hiw, if_false]
        rw [hwt]
        show Phase false i (i ∈ ws) (wt s i) (dn s i) (upc s i) wi
        rw [hmem]; exact hphi }


theorem order_frame (s : Sys) : (order s).P = s.P ∧ (order s).ws = s.ws ∧ (order s).up = s.up ∧
    (order s).log = s.log ∧ (order s).m.fin = s.m.fin ∧ (order s).m.started = s.m.started ∧
    (order s).m.next = s.m.next := by
  simp [order]

theorem order_core (P : Nat) (jobs : List Nat) (hnd : jobs.Nodup) :
    ∀ (n : Nat) (s : Sys), s.m.jobs.length = n → Core P jobs s → Core P jobs (order s) := by
  intro n
  induction n with
  | zero =>
    intro s hn h
    rw [order_nil_jobs s (by simpa using hn)]; exact h
  | succ n ih =>
    intro s hn h
    match hj : s.m.jobs, hi : s.m.idle with
    | [], _ => simp [hj] at hn
    | j :: js, [] => rw [order_nil_idle s hi]; exact h
    | j :: js, w :: ws =>
      rw [order_cons s j w js ws hj hi]
      apply ih
      · simp [assign]; simpa [hj] using hn
      · exact assign_core P jobs s j w js ws hnd h hj hi

/-- the channels after the `Finish` broadcast loop over the first `n` ranks -/
def finDown (fin : List Bool) (d : List (List Msg)) (n : Nat) : List (List Msg) :=
  (List.range n).foldl (fun d i => if fin.getD i false then d else d.set i (d.getD i [] ++ [Msg.finish])) d

theorem finDown_succ (fin : List Bool) (d : List (List Msg)) (n : Nat) :
    finDown fin d (n+1) = if fin.getD n false then finDown fin d n
      else (finDown fin d n).set n ((finDown fin d n).getD n [] ++ [Msg.finish]) := by
  simp [finDown, List.range_succ, List.foldl_append]

theorem finDown_length (fin : List Bool) (d : List (List Msg)) (n : Nat) : (finDown fin d n).length = d.length := by
  induction n with
  | zero => simp [finDown]
  | succ n ih => rw [finDown_succ]; split <;> simp [ih]

theorem finDown_get (fin : List Bool) (d : List (List Msg)) (n i : Nat) :
    (finDown fin d n)[i]?.getD [] =
      if i < n ∧ i < d.length ∧ fin[i]?.getD false = false then d[i]?.getD [] ++ [Msg.finish] else d[i]?.getD [] := by
  induction n with
  | zero => simp [finDown]
  | succ n ih =>
    have hl := finDown_length fin d n
    rw [finDown_succ]
    grind

theorem finishPhase_eq (s : Sys) : finishPhase s =
    if s.m.jobs = [] ∧ s.P ≤ s.m.idle.length then
      { s with m := { s.m with fin := List.replicate s.P true }, down := finDown s.m.fin s.down s.P }
    else s := by
  simp [finishPhase, finDown]


/-- all ranks idle: nobody has anything outstanding -/
theorem all_idle (P : Nat) (jobs : List Nat) (s : Sys) (h : Core P jobs s) (hl : P ≤ s.m.idle.length) :
    ∀ i, i < P → wt s i = false := by
  have hc := h.cnt
  have h0 : s.m.wait.count true = 0 := by omega
  intro i hi
  have := (count_true_zero s.m.wait).1 h0 i (by rw [h.lw]; exact hi)
  simpa [wt] using this

theorem finish_core (P : Nat) (jobs : List Nat) (s : Sys) (h : Core P jobs s) : Core P jobs (finishPhase s) := by
  rw [finishPhase_eq]
  split
  case isFalse => exact h
  case isTrue hc =>
    obtain ⟨hj, hl⟩ := hc
    rw [h.hP] at hl ⊢
    have hwt := all_idle P jobs s h hl
    obtain ⟨b, hfin, hbj, hph⟩ := h.ph
    have hdn : ∀ i, dn { s with m := { s.m with fin := List.replicate P true }, down := finDown s.m.fin s.down P } i
        = if i < P ∧ b = false then dn s i ++ [Msg.finish] else dn s i := by
      intro i
      simp only [dn]
      rw [finDown_get, hfin, h.ld]
      cases b <;> grind
    have hidle : ∀ i, i < P → b = false → dn s i = [] := by
      intro i hi hb
      obtain ⟨w, _, hp⟩ := hph i hi
      have := hwt i hi
      rcases hp with h|h|h|h|h <;> simp_all
    exact
    { hP := rfl
      lw := h.lw
      lws := h.lws
      ld := by simp [finDown_length, h.ld]
      lu := h.lu
      idl_lt := h.idl_lt
      idl_nd := h.idl_nd
      cnt := h.cnt
      K := h.K
      L1 := h.L1
      L2 := h.L2
      D1 := by
        intro j i hm
        obtain ⟨hi, hor⟩ := h.D1 j i hm
        refine ⟨hi, ?_⟩
        rw [hdn]
        cases b
        · rcases hor with hor | hor
          · rw [hidle i hi rfl] at hor; simp at hor
          · exact Or.inr hor
        · simpa using hor
      D2 := by
        intro i j hd
        rw [hdn] at hd
        by_cases hc : i < P ∧ b = false
        · rw [if_pos hc, hidle i hc.1 hc.2] at hd; simp at hd
        · rw [if_neg hc] at hd; exact h.D2 i j hd
      ph := by
        refine ⟨true, rfl, fun _ => hj, ?_⟩
        intro i hi
        obtain ⟨w, hw, hp⟩ := hph i hi
        refine ⟨w, hw, ?_⟩
        rw [hdn]
        have := hwt i hi
        show Phase true i (i ∈ s.m.idle) (wt s i) _ (upc s i) w
        cases b
        · rcases hp with h|h|h|h|h <;> simp_all [Phase]
        · simpa using hp }


theorem keys_functional (l : List (Nat × Nat)) (h : (l.map (·.1)).Nodup) (a b b' : Nat)
    (h1 : (a, b) ∈ l) (h2 : (a, b') ∈ l) : b = b' := by
  induction l with
  | nil => simp at h1
  | cons x l ih =>
    simp at h
    obtain ⟨hx, hl⟩ := h
    simp at h1 h2
    rcases h1 with rfl | h1 <;> rcases h2 with h2 | h2
    · cases h2; rfl
    · exact absurd h2 (hx b')
    · subst h2; exact absurd h1 (hx b)
    · exact ih hl h1 h2

theorem Core.keys_nd {P : Nat} {jobs : List Nat} {s : Sys} (h : Core P jobs s) (hnd : jobs.Nodup) :
    (s.m.dmap.map (·.1)).Nodup := by
  rw [← h.K] at hnd
  exact (List.Perm.nodup_iff (List.reverse_perm _)).1 (List.nodup_append.1 hnd).1

theorem work_core (P : Nat) (jobs : List Nat) (hnd : jobs.Nodup) (s : Sys) (r : Nat) (w : Worker)
    (h : Core P jobs s) (hw : s.ws[r]? = some w) (j : Nat) (rest : List Msg)
    (hd : dn s r = Msg.work j :: rest) : Core P jobs (doWork s r w j rest) := by
  have hr : r < P := by
    rw [← h.lws]; exact (List.getElem?_eq_some_iff.1 hw).1
  obtain ⟨b, hfin, hbj, hph⟩ := h.ph
  obtain ⟨w', hw', hp⟩ := hph r hr
  rw [hw] at hw'; cases hw'
  have hB : b = false ∧ r ∉ s.m.idle ∧ wt s r = true ∧ rest = [] ∧ upc s r = 0 ∧ w.st = .pending ∧ w.exited = false := by
    rcases hp with h|h|h|h|h <;> simp_all
  obtain ⟨hb, hri, hwr, hrest, hur, hst, hex⟩ := hB
  subst hrest
  obtain ⟨hjr, hjl⟩ := h.D2 r j hd
  have hdn : ∀ i, dn (doWork s r w j []) i = if i = r then [] else dn s i := by
    intro i
    have := h.ld
    simp only [dn, doWork]
    grind
  have hup : ∀ i, upc (doWork s r w j []) i = if i = r then 1 else upc s i := by
    intro i
    have := h.lu
    simp only [upc, doWork] at hur ⊢
    grind
  exact
  { hP := h.hP
    lw := h.lw
    lws := by simp [doWork, h.lws]
    ld := by simp [doWork, h.ld]
    lu := by simp [doWork, h.lu]
    idl_lt := h.idl_lt
    idl_nd := h.idl_nd
    cnt := h.cnt
    K := h.K
    L1 := by
      intro x hx
      simp [doWork] at hx
      rcases hx with hx | rfl
      · exact h.L1 x hx
      · exact hjr
    L2 := by
      simp [doWork, List.nodup_append]
      refine ⟨h.L2, ?_⟩
      intro a b hab heq
      subst heq
      exact hjl (List.mem_map.2 ⟨(a, b), hab, rfl⟩)
    D1 := by
      intro j' i' hm
      obtain ⟨hi', hor⟩ := h.D1 j' i' hm
      refine ⟨hi', ?_⟩
      rw [hdn]
      by_cases hir : i' = r
      · subst hir
        rcases hor with hor | hor
        · rw [hd] at hor; simp at hor; subst hor; exact Or.inr (by simp [doWork])
        · exact Or.inr (by simp [doWork, hor])
      · rcases hor with hor | hor
        · exact Or.inl (by simp [hir, hor])
        · exact Or.inr (by simp [doWork, hor])
    D2 := by
      intro i' j' hd'
      rw [hdn] at hd'
      by_cases hir : i' = r
      · simp [hir] at hd'
      · simp [hir] at hd'
        obtain ⟨h1, h2⟩ := h.D2 i' j' hd'
        refine ⟨h1, ?_⟩
        simp [doWork]
        refine ⟨by simpa using h2, ?_⟩
        intro heq; subst heq
        exact hir (keys_functional _ (h.keys_nd hnd) _ _ _ h1 hjr)
    ph := by
      refine ⟨b, hfin, hbj, ?_⟩
      intro i hi
      rw [hdn, hup]
      by_cases hir : i = r
      · subst hir
        refine ⟨{ w with st := .pending, cur := some j }, by simp [doWork, h.lws, hi], ?_⟩
        refine Or.inr (Or.inr (Or.inl ?_))
        simp [hb, hex]
        exact ⟨hri, hwr⟩
      · obtain ⟨wi, hwi, hpi⟩ := hph i hi
        refine ⟨wi, ?_, ?_⟩
        · simp [doWork, Ne.symm hir, hwi]
        · simp only [hir, if_false]; exact hpi }


theorem fin_core (P : Nat) (jobs : List Nat) (s : Sys) (r : Nat) (w : Worker)
    (h : Core P jobs s) (hw : s.ws[r]? = some w) (rest : List Msg)
    (hd : dn s r = Msg.finish :: rest) : Core P jobs (doFin s r w rest) := by
  have hr : r < P := by
    rw [← h.lws]; exact (List.getElem?_eq_some_iff.1 hw).1
  obtain ⟨b, hfin, hbj, hph⟩ := h.ph
  obtain ⟨w', hw', hp⟩ := hph r hr
  rw [hw] at hw'; cases hw'
  have hB : b = true ∧ r ∈ s.m.idle ∧ wt s r = false ∧ rest = [] ∧ upc s r = 0 := by
    rcases hp with h|h|h|h|h <;> simp_all
  obtain ⟨hb, hri, hwr, hrest, hur⟩ := hB
  subst hrest
  have hdn : ∀ i, dn (doFin s r w []) i = if i = r then [] else dn s i := by
    intro i
    have := h.ld
    simp only [dn, doFin]
    grind
  exact
  { hP := h.hP
    lw := h.lw
    lws := by simp [doFin, h.lws]
    ld := by simp [doFin, h.ld]
    lu := h.lu
    idl_lt := h.idl_lt
    idl_nd := h.idl_nd
    cnt := h.cnt
    K := h.K
    L1 := h.L1
    L2 := h.L2
    D1 := by
      intro j' i' hm
      obtain ⟨hi', hor⟩ := h.D1 j' i' hm
      refine ⟨hi', ?_⟩
      rw [hdn]
      by_cases hir : i' = r
      · subst hir
        rcases hor with hor | hor
        · rw [hd] at hor; simp at hor
        · exact Or.inr hor
      · simp only [hir, if_false]; exact hor
    D2 := by
      intro i' j' hd'
      rw [hdn] at hd'
      by_cases hir : i' = r
      · simp [hir] at hd'
      · simp only [hir, if_false] at hd'
        exact h.D2 i' j' hd'
    ph := by
      refine ⟨b, hfin, hbj, ?_⟩
      intro i hi
      rw [hdn]
      by_cases hir : i = r
      · subst hir
        refine ⟨{ w with st := .finish, exited := decide (i ≠ 0) }, by simp [doFin, h.lws, hi], ?_⟩
        refine Or.inr (Or.inr (Or.inr (Or.inr ?_)))
        simp [hb]
        exact ⟨hri, hwr, hur⟩
      · obtain ⟨wi, hwi, hpi⟩ := hph i hi
        refine ⟨wi, ?_, ?_⟩
        · simp [doFin, Ne.symm hir, hwi]
        · simp only [hir, if_false]; exact hpi }

theorem collect_core (P : Nat) (jobs : List Nat) (s : Sys) (k : Nat)
    (h : Core P jobs s) (hwk : wt s k = true) (huk : 0 < upc s k) : Core P jobs (collect s k) := by
  have hk : k < P := by
    rw [← h.lw]
    simp only [wt] at hwk
    grind
  obtain ⟨b, hfin, hbj, hph⟩ := h.ph
  obtain ⟨w, hw, hp⟩ := hph k hk
  have hC : b = false ∧ k ∉ s.m.idle ∧ dn s k = [] ∧ upc s k = 1 ∧ w.st = .pending ∧ w.exited = false := by
    rcases hp with h|h|h|h|h <;> simp_all
  obtain ⟨hb, hki, hdk, hu1, hst, hex⟩ := hC
  have hup : ∀ i, upc (collect s k) i = if i = k then 0 else upc s i := by
    intro i
    have := h.lu
    simp only [upc, collect] at hu1 ⊢
    grind
  have hwt : ∀ i, wt (collect s k) i = if i = k then false else wt s i := by
    intro i
    have := h.lw
    simp only [wt, collect]
    grind
  exact
  { hP := h.hP
    lw := by simp [collect, h.lw]
    lws := h.lws
    ld := h.ld
    lu := by simp [collect, h.lu]
    idl_lt := by
      intro i hi
      simp [collect] at hi
      rcases hi with rfl | hi
      · exact hk
      · exact h.idl_lt i hi
    idl_nd := by
      simp [collect]
      exact ⟨hki, h.idl_nd⟩
    cnt := by
      have := count_true_set s.m.wait k false (by rw [h.lw]; exact hk)
      have hc := h.cnt
      simp only [wt] at hwk
      simp [hwk] at this
      simp [collect]; omega
    K := h.K
    L1 := h.L1
    L2 := h.L2
    D1 := h.D1
    D2 := h.D2
    ph := by
      refine ⟨b, hfin, hbj, ?_⟩
      intro i hi
      rw [hup, hwt]
      show ∃ w, s.ws[i]? = some w ∧ Phase b i (i ∈ k :: s.m.idle) _ (dn s i) _ w
      by_cases hik : i = k
      · subst hik
        refine ⟨w, hw, Or.inl ?_⟩
        simp [hb, hdk, hst, hex]
      · obtain ⟨wi, hwi, hpi⟩ := hph i hi
        refine ⟨wi, hwi, ?_⟩
        have : i ∈ k :: s.m.idle ↔ i ∈ s.m.idle := by simp [hik]
        simp only [hik, if_false]
        rw [this]; exact hpi }

theorem exit0_core (P : Nat) (jobs : List Nat) (s : Sys) (w0 : Worker)
    (h : Core P jobs s) (hw : s.ws[0]? = some w0) (hst : w0.st = .finish) : Core P jobs (exit0 s w0) := by
  obtain ⟨b, hfin, hbj, hph⟩ := h.ph
  exact
  { hP := h.hP
    lw := h.lw
    lws := by simp [exit0, h.lws]
    ld := h.ld
    lu := h.lu
    idl_lt := h.idl_lt
    idl_nd := h.idl_nd
    cnt := h.cnt
    K := h.K
    L1 := h.L1
    L2 := h.L2
    D1 := h.D1
    D2 := h.D2
    ph := by
      refine ⟨b, hfin, hbj, ?_⟩
      intro i hi
      obtain ⟨wi, hwi, hpi⟩ := hph i hi
      by_cases hi0 : i = 0
      · subst hi0
        rw [hw] at hwi; cases hwi
        refine ⟨{ w0 with exited := true }, by simp [exit0, h.lws, hi], ?_⟩
        show Phase b 0 (0 ∈ s.m.idle) (wt s 0) (dn s 0) (upc s 0) _
        rcases hpi with h|h|h|h|h <;> simp_all [Phase]
      · refine ⟨wi, by simp [exit0, Ne.symm hi0, hwi], hpi⟩ }


/-! ### one step preserves the invariant -/

/-- the end of a `check_workers` test: advance, or finish the loop iteration -/
def masterTail (s s1 : Sys) : Option Sys :=
  if s.m.next < s.P then some (setNext s1 (s.m.next + 1))
  else match (finishPhase s1).ws[0]? with
    | none => none
    | some w0 =>
      if w0.st = .finish then some (setNext (exit0 (finishPhase s1) w0) 0)
      else some (order (setNext (finishPhase s1) 0))

theorem masterTest_false_eq (s : Sys) : masterTest s false = masterTail s s := by
  simp only [masterTest, masterTail, setNext, exit0]
  rfl

theorem masterTest_true_eq (s : Sys) : masterTest s true =
    if wt s (s.m.next - 1) = true ∧ 0 < upc s (s.m.next - 1) then masterTail s (collect s (s.m.next - 1)) else none := by
  simp only [masterTest, masterTail, setNext, exit0, collect, wt, upc]
  by_cases h : (s.m.wait[s.m.next - 1]?.getD false = true ∧ 0 < s.up[s.m.next - 1]?.getD 0)
  · simp [h]; rfl
  · simp [h]

theorem workerTest_cases (s s' : Sys) (r : Nat) (b : Bool) (h : workerTest s r b = some s') :
    ∃ w, s.ws[r]? = some w ∧ w.exited = false ∧ w.st = .pending ∧
      ((b = false ∧ s' = s) ∨ (b = true ∧ ∃ j rest, dn s r = Msg.work j :: rest ∧ s' = doWork s r w j rest) ∨
       (b = true ∧ ∃ rest, dn s r = Msg.finish :: rest ∧ s' = doFin s r w rest)) := by
  obtain ⟨w, hw, he, hp, hne⟩ := workerTest_some s s' r b h
  refine ⟨w, hw, he, hp, ?_⟩
  cases b
  · rw [workerTest_false s r w hw he hp] at h
    exact Or.inl ⟨rfl, by cases h; rfl⟩
  · match hd : dn s r with
    | [] => exact absurd hd (hne rfl)
    | Msg.work j :: rest =>
      rw [workerTest_work s r w hw he hp j rest hd] at h
      exact Or.inr (Or.inl ⟨rfl, j, rest, rfl, by cases h; rfl⟩)
    | Msg.finish :: rest =>
      rw [workerTest_finish s r w hw he hp rest hd] at h
      exact Or.inr (Or.inr ⟨rfl, rest, rfl, by cases h; rfl⟩)

theorem core_setNext {P : Nat} {jobs : List Nat} {s : Sys} (n : Nat) (h : Core P jobs s) : Core P jobs (setNext s n) :=
  ⟨h.hP, h.lw, h.lws, h.ld, h.lu, h.idl_lt, h.idl_nd, h.cnt, h.K, h.L1, h.L2, h.D1, h.D2, h.ph⟩

/-- the inductive invariant -/
def Inv (P : Nat) (jobs : List Nat) (s : Sys) : Prop :=
  Core P jobs s ∧ s.m.started = true ∧
    ∀ w, s.ws[0]? = some w → w.st = .finish → w.exited = false → s.m.next ≠ 0

theorem workerTest_core (P : Nat) (jobs : List Nat) (hnd : jobs.Nodup) (s s' : Sys) (r : Nat) (b : Bool)
    (h : Core P jobs s) (hs : workerTest s r b = some s') :
    Core P jobs s' ∧ s'.m = s.m ∧ (r ≠ 0 → s'.ws[0]? = s.ws[0]?) := by
  obtain ⟨w, hw, he, hp, hc⟩ := workerTest_cases s s' r b hs
  rcases hc with ⟨_, rfl⟩ | ⟨_, j, rest, hd, rfl⟩ | ⟨_, rest, hd, rfl⟩
  · exact ⟨h, rfl, fun _ => rfl⟩
  · exact ⟨work_core P jobs hnd s r w h hw j rest hd, rfl, fun hr => by simp [doWork, hr]⟩
  · exact ⟨fin_core P jobs s r w h hw rest hd, rfl, fun hr => by simp [doFin, hr]⟩

theorem masterTail_inv (P : Nat) (jobs : List Nat) (hnd : jobs.Nodup) (s s1 s' : Sys)
    (h : Core P jobs s1) (hst : s1.m.started = true) (hs : masterTail s s1 = some s') : Inv P jobs s' := by
  unfold masterTail at hs
  split at hs
  · cases hs
    exact ⟨core_setNext _ h, hst, fun _ _ _ _ => by simp [setNext]⟩
  · have h2 := finish_core P jobs s1 h
    have hst2 : (finishPhase s1).m.started = true := by
      rw [finishPhase_eq]; split <;> simp [hst]
    split at hs
    · cases hs
    · rename_i w0 hw0
      split at hs
      · rename_i hfin
        cases hs
        refine ⟨core_setNext _ (exit0_core P jobs _ w0 h2 hw0 hfin), hst2, ?_⟩
        intro w hw _ hex
        have hl := h2.lws
        have : 0 < (finishPhase s1).ws.length := by
          exact (List.getElem?_eq_some_iff.1 hw0).1
        simp [setNext, exit0, this] at hw
        subst hw
        simp at hex
      · rename_i hfin
        cases hs
        obtain ⟨f1, f2, f3, f4, f5, f6, f7⟩ := order_frame (setNext (finishPhase s1) 0)
        refine ⟨order_core P jobs hnd _ _ rfl (core_setNext _ h2), ?_, ?_⟩
        · rw [f6]; exact hst2
        · intro w hw hwf
          rw [f2] at hw
          have : (setNext (finishPhase s1) 0).ws = (finishPhase s1).ws := rfl
          rw [this, hw0] at hw
          cases hw
          exact absurd hwf hfin

theorem step_inv (P : Nat) (jobs : List Nat) (hnd : jobs.Nodup) (s s' : Sys) (r : Nat) (b : Bool)
    (h : Inv P jobs s) (hs : step s r b = some s') : Inv P jobs s' := by
  obtain ⟨hc, hst, hr0⟩ := h
  unfold step at hs
  by_cases hr : r = 0
  · subst hr
    simp only [if_true, hst] at hs
    split at hs
    · split at hs
      · cases hs
      · rename_i s1 hs1
        cases hs
        obtain ⟨c1, c2, _⟩ := workerTest_core P jobs hnd s s1 0 b hc hs1
        exact ⟨core_setNext 1 c1, by show s1.m.started = true; rw [c2]; exact hst,
          fun _ _ _ _ => by simp⟩
    · cases b
      · rw [masterTest_false_eq] at hs
        exact masterTail_inv P jobs hnd s s s' hc hst hs
      · rw [masterTest_true_eq] at hs
        split at hs
        · rename_i hk
          exact masterTail_inv P jobs hnd s _ s' (collect_core P jobs s _ hc hk.1 hk.2) hst hs
        · cases hs
  · simp only [hr, if_false] at hs
    obtain ⟨c1, c2, c3⟩ := workerTest_core P jobs hnd s s' r b hc hs
    refine ⟨c1, by rw [c2]; exact hst, ?_⟩
    rw [c3 hr, c2]; exact hr0


/-! ### reachable states satisfy the invariant -/

theorem init_inv (P : Nat) (jobs : List Nat) (hnd : jobs.Nodup) : Inv P jobs (init P jobs) := by
  have h0 := init0_core P jobs
  have h1 : Core P jobs { init0 P jobs with m := { (init0 P jobs).m with started := true } } :=
    ⟨h0.hP, h0.lw, h0.lws, h0.ld, h0.lu, h0.idl_lt, h0.idl_nd, h0.cnt, h0.K, h0.L1, h0.L2, h0.D1, h0.D2, h0.ph⟩
  obtain ⟨f1, f2, f3, f4, f5, f6, f7⟩ :=
    order_frame { init0 P jobs with m := { (init0 P jobs).m with started := true } }
  refine ⟨order_core P jobs hnd _ _ rfl h1, ?_, ?_⟩
  · show (order _).m.started = true
    rw [f6]
  · intro w hw hf
    have : (init P jobs).ws = (order { init0 P jobs with m := { (init0 P jobs).m with started := true } }).ws := rfl
    rw [this, f2] at hw
    change (List.replicate P ({} : Worker))[0]? = some w at hw
    rw [List.getElem?_replicate] at hw
    split at hw
    · cases hw; simp at hf
    · cases hw

theorem run_inv (P : Nat) (jobs : List Nat) (hnd : jobs.Nodup) :
    ∀ (sched : List (Nat × Bool)) (s s' : Sys), Inv P jobs s → run s sched = some s' → Inv P jobs s' := by
  intro sched
  induction sched with
  | nil => intro s s' h hr; simp [run] at hr; subst hr; exact h
  | cons x rest ih =>
    intro s s' h hr
    obtain ⟨r, b⟩ := x
    simp only [run] at hr
    split at hr
    · cases hr
    · rename_i s1 hs1
      exact ih s1 s' (step_inv P jobs hnd s s1 r b h hs1) hr


/-- states reachable in a round with `P` ranks and the given job order, under ANY schedule (any interleaving of
the ranks and any message delays) -/
def Reachable (P : Nat) (jobs : List Nat) (s : Sys) : Prop := ∃ sched, run (init P jobs) sched = some s

theorem reachable_inv (P : Nat) (jobs : List Nat) (hnd : jobs.Nodup) (s : Sys) (h : Reachable P jobs s) :
    Inv P jobs s := by
  obtain ⟨sched, hs⟩ := h
  exact run_inv P jobs hnd sched _ s (init_inv P jobs hnd) hs

/-! ### safety -/

theorem dmapGet_of_mem (d : List (Nat × Nat)) (h : (d.map (·.1)).Nodup) (j i : Nat) (hm : (j, i) ∈ d) :
    dmapGet d j = some i := by
  induction d with
  | nil => simp at hm
  | cons x d ih =>
    simp at h
    obtain ⟨hx, hd⟩ := h
    simp at hm
    rcases hm with rfl | hm
    · simp [dmapGet]
    · have hne : x.1 ≠ j := by
        intro he; subst he; exact hx i hm
      have := ih hd hm
      simp [dmapGet, hne] at this ⊢
      exact this

theorem dmapGet_isSome (d : List (Nat × Nat)) (j : Nat) : (dmapGet d j).isSome ↔ j ∈ d.map (·.1) := by
  induction d with
  | nil => simp [dmapGet]
  | cons x d ih =>
    by_cases hx : x.1 = j
    · simp [dmapGet, hx]
    · have : ¬ j = x.1 := fun h => hx h.symm
      simp [dmapGet, hx, this] at ih ⊢

set_option linter.unusedVariables false in
/-- SAFETY 1: no job is ever executed twice, and only jobs of this round are executed -/
theorem exec_at_most_once (P : Nat) (jobs : List Nat) (hP : 0 < P) (hnd : jobs.Nodup) (s : Sys)
    (h : Reachable P jobs s) : (s.log.map (·.1)).Nodup ∧ ∀ x ∈ s.log, x.1 ∈ jobs ∧ x.2 < P := by
  obtain ⟨hc, _, _⟩ := reachable_inv P jobs hnd s h
  refine ⟨hc.L2, ?_⟩
  intro x hx
  have hd := hc.L1 x hx
  refine ⟨?_, (hc.D1 x.1 x.2 hd).1⟩
  rw [← hc.K]
  simp
  exact Or.inl ⟨x.2, hd⟩

set_option linter.unusedVariables false in
/-- SAFETY 2: the dispatch map tells the truth: whoever executed a job is the rank recorded for it -/
theorem dmap_truth (P : Nat) (jobs : List Nat) (hP : 0 < P) (hnd : jobs.Nodup) (s : Sys)
    (h : Reachable P jobs s) : ∀ x ∈ s.log, dmapGet s.m.dmap x.1 = some x.2 := by
  obtain ⟨hc, _, _⟩ := reachable_inv P jobs hnd s h
  intro x hx
  exact dmapGet_of_mem _ (hc.keys_nd hnd) x.1 x.2 (hc.L1 x hx)

/-- when everybody has exited, every rank is in phase E -/
theorem all_E (P : Nat) (jobs : List Nat) (hP : 0 < P) (s : Sys) (hc : Core P jobs s) (hf : allExited s = true) :
    s.m.jobs = [] ∧ ∀ i, i < P → wt s i = false ∧ dn s i = [] ∧ upc s i = 0 := by
  obtain ⟨b, hfin, hbj, hph⟩ := hc.ph
  simp only [allExited, List.all_eq_true] at hf
  have key : ∀ i, i < P → b = true ∧ wt s i = false ∧ dn s i = [] ∧ upc s i = 0 := by
    intro i hi
    obtain ⟨w, hw, hp⟩ := hph i hi
    have hex : w.exited = true := hf w (List.mem_iff_getElem?.2 ⟨i, hw⟩)
    rcases hp with h|h|h|h|h <;> simp_all
  exact ⟨hbj (key 0 hP).1, fun i hi => (key i hi).2⟩

/-- SAFETY 3: when every rank has left the loop, every job has been executed (hence, with SAFETY 1, exactly once),
the map is defined exactly on the jobs, and no message is left in any channel (rounds do not leak) -/
theorem final_complete (P : Nat) (jobs : List Nat) (hP : 0 < P) (hnd : jobs.Nodup) (s : Sys)
    (h : Reachable P jobs s) (hf : allExited s = true) :
    (∀ j ∈ jobs, j ∈ s.log.map (·.1)) ∧ (∀ j, (dmapGet s.m.dmap j).isSome ↔ j ∈ jobs) ∧
    (∀ d ∈ s.down, d = []) ∧ (∀ u ∈ s.up, u = 0) ∧ (∀ w ∈ s.m.wait, w = false) := by
  obtain ⟨hc, _, _⟩ := reachable_inv P jobs hnd s h
  obtain ⟨hj, hall⟩ := all_E P jobs hP s hc hf
  have hK := hc.K
  rw [hj, List.append_nil] at hK
  refine ⟨?_, ?_, ?_, ?_, ?_⟩
  · intro j hjm
    rw [← hK] at hjm
    simp at hjm
    obtain ⟨i, hji⟩ := hjm
    obtain ⟨hi, hor⟩ := hc.D1 j i hji
    rcases hor with hor | hor
    · rw [(hall i hi).2.1] at hor; simp at hor
    · exact List.mem_map.2 ⟨(j, i), hor, rfl⟩
  · intro j
    rw [dmapGet_isSome, ← hK]
    simp
  · intro d hd
    obtain ⟨i, hi⟩ := List.mem_iff_getElem?.1 hd
    have hlt : i < P := by rw [← hc.ld]; exact (List.getElem?_eq_some_iff.1 hi).1
    have := (hall i hlt).2.1
    simpa [dn, hi] using this
  · intro u hu
    obtain ⟨i, hi⟩ := List.mem_iff_getElem?.1 hu
    have hlt : i < P := by rw [← hc.lu]; exact (List.getElem?_eq_some_iff.1 hi).1
    have := (hall i hlt).2.2
    simpa [upc, hi] using this
  · intro w hw
    obtain ⟨i, hi⟩ := List.mem_iff_getElem?.1 hw
    have hlt : i < P := by rw [← hc.lw]; exact (List.getElem?_eq_some_iff.1 hi).1
    have := (hall i hlt).1
    simpa [wt, hi] using this


/-! ### liveness: the progress measure -/

/-- number of `work` messages in a channel -/
def workCount : List Msg → Nat
  | [] => 0
  | Msg.work _ :: l => workCount l + 1
  | Msg.finish :: l => workCount l

theorem workCount_append (a b : List Msg) : workCount (a ++ b) = workCount a + workCount b := by
  induction a with
  | nil => simp [workCount]
  | cons x a ih => cases x <;> simp [workCount, ih] <;> omega

def wW (w : Worker) : Nat := (if w.st = .finish then 0 else 1) + (if w.exited then 0 else 1)
def wF (b : Bool) : Nat := if b then 0 else 1
def wD (d : List Msg) : Nat := 2 * workCount d

/-- LIVENESS: a progress measure.  Weights: a job still on the stack 3; a `work` message in flight 2; a completion token
in flight 1; a worker that has not yet received `Finish` 1; a rank that has not left the loop 1; a `Finish` not yet
sent 1. -/
def measure (s : Sys) : Nat :=
  3 * s.m.jobs.length + wsum wD s.down + wsum id s.up + wsum wW s.ws + wsum wF s.m.fin

theorem measure_setNext (s : Sys) (n : Nat) : measure (setNext s n) = measure s := rfl

theorem measure_assign (s : Sys) (j w : Nat) (js ws : List Nat) (h1 : s.m.jobs = j :: js) :
    measure (assign s j w js ws) < measure s := by
  by_cases hw : w < s.down.length
  · have := wsum_set wD s.down w (s.down.getD w [] ++ [Msg.work j]) [] hw
    simp [wD, workCount_append, workCount] at this
    simp [measure, assign, h1]
    omega
  · simp [measure, assign, h1, set_ge _ _ _ (Nat.le_of_not_lt hw)]

theorem measure_order_le : ∀ (n : Nat) (s : Sys), s.m.jobs.length = n → measure (order s) ≤ measure s := by
  intro n
  induction n with
  | zero =>
    intro s hn
    rw [order_nil_jobs s (by simpa using hn)]; exact Nat.le_refl _
  | succ n ih =>
    intro s hn
    match hj : s.m.jobs, hi : s.m.idle with
    | [], _ => simp [hj] at hn
    | j :: js, [] => rw [order_nil_idle s hi]; exact Nat.le_refl _
    | j :: js, w :: ws =>
      rw [order_cons s j w js ws hj hi]
      have h1 := ih (assign s j w js ws) (by simp [assign]; simpa [hj] using hn)
      have h2 := measure_assign s j w js ws hj
      omega

theorem measure_order_lt (s : Sys) (j w : Nat) (js ws : List Nat) (hj : s.m.jobs = j :: js) (hi : s.m.idle = w :: ws) :
    measure (order s) < measure s := by
  rw [order_cons s j w js ws hj hi]
  have h1 := measure_order_le _ (assign s j w js ws) rfl
  have h2 := measure_assign s j w js ws hj
  omega

theorem wsum_finDown (fin : List Bool) (d : List (List Msg)) (n : Nat) : wsum wD (finDown fin d n) = wsum wD d := by
  induction n with
  | zero => simp [finDown]
  | succ n ih =>
    rw [finDown_succ]
    split
    · exact ih
    · by_cases hn : n < (finDown fin d n).length
      · have := wsum_set wD (finDown fin d n) n ((finDown fin d n).getD n [] ++ [Msg.finish]) [] hn
        simp [wD, workCount_append, workCount] at this
        simp at ih ⊢
        omega
      · rw [set_ge _ _ _ (Nat.le_of_not_lt hn)]; exact ih

theorem measure_finishPhase_le (s : Sys) : measure (finishPhase s) ≤ measure s := by
  rw [finishPhase_eq]
  split
  · simp [measure, wsum_finDown, wsum_replicate, wF]
  · exact Nat.le_refl _

theorem measure_finishPhase_lt (s : Sys) (hj : s.m.jobs = []) (hl : s.P ≤ s.m.idle.length)
    (hf : s.m.fin = List.replicate s.P false) (hP : 0 < s.P) : measure (finishPhase s) < measure s := by
  rw [finishPhase_eq, if_pos ⟨hj, hl⟩]
  simp [measure, wsum_finDown, wsum_replicate, wF, hf]
  exact hP

theorem measure_doWork (s : Sys) (r : Nat) (w : Worker) (hw : s.ws[r]? = some w) (hp : w.st = .pending)
    (j : Nat) (rest : List Msg) (hd : dn s r = Msg.work j :: rest) : measure (doWork s r w j rest) < measure s := by
  have hr : r < s.down.length := by
    simp only [dn] at hd
    grind
  have hrw : r < s.ws.length := (List.getElem?_eq_some_iff.1 hw).1
  have h1 := wsum_set wD s.down r rest [] hr
  have h2 := wsum_set wW s.ws r { w with st := .pending, cur := some j } w hrw
  have hd' : s.down.getD r [] = Msg.work j :: rest := by simpa [dn] using hd
  have hw' : s.ws.getD r w = w := by simp [hw]
  rw [hd'] at h1
  rw [hw'] at h2
  simp [wD, workCount] at h1
  simp [wW, hp] at h2
  by_cases hu : r < s.up.length
  · have h3 := wsum_set id s.up r (upc s r + 1) 0 hu
    simp [upc] at h3
    simp [measure, doWork, upc] at h1 h2 h3 ⊢
    omega
  · simp [measure, doWork, set_ge _ _ _ (Nat.le_of_not_lt hu)] at h1 h2 ⊢
    omega

theorem measure_doFin (s : Sys) (r : Nat) (w : Worker) (hw : s.ws[r]? = some w) (hp : w.st = .pending)
    (he : w.exited = false) (rest : List Msg) (hd : dn s r = Msg.finish :: rest) : measure (doFin s r w rest) < measure s := by
  have hr : r < s.down.length := by
    simp only [dn] at hd
    grind
  have hrw : r < s.ws.length := (List.getElem?_eq_some_iff.1 hw).1
  have h1 := wsum_set wD s.down r rest [] hr
  have h2 := wsum_set wW s.ws r { w with st := .finish, exited := decide (r ≠ 0) } w hrw
  have hd' : s.down.getD r [] = Msg.finish :: rest := by simpa [dn] using hd
  have hw' : s.ws.getD r w = w := by simp [hw]
  rw [hd'] at h1
  rw [hw'] at h2
  simp [wD, workCount] at h1
  simp [wW, hp, he] at h2
  simp [measure, doFin] at h1 h2 ⊢
  split at h2 <;> omega

theorem measure_collect (s : Sys) (k : Nat) (huk : 0 < upc s k) : measure (collect s k) < measure s := by
  have hk : k < s.up.length := by
    simp only [upc] at huk
    grind
  have h1 := wsum_set id s.up k (upc s k - 1) 0 hk
  simp [upc] at h1 huk
  simp [measure, collect, upc]
  omega

theorem measure_exit0_le (s : Sys) (w0 : Worker) (hw : s.ws[0]? = some w0) :
    measure (exit0 s w0) ≤ measure s ∧ (w0.exited = false → measure (exit0 s w0) < measure s) := by
  have hrw : 0 < s.ws.length := (List.getElem?_eq_some_iff.1 hw).1
  have h2 := wsum_set wW s.ws 0 { w0 with exited := true } w0 hrw
  have hw' : s.ws.getD 0 w0 = w0 := by simp [hw]
  rw [hw'] at h2
  simp [wW] at h2
  simp [measure, exit0]
  constructor
  · omega
  · intro he; simp [he] at h2; omega


theorem measure_workerTest (s s' : Sys) (r : Nat) (b : Bool) (hs : workerTest s r b = some s') :
    measure s' ≤ measure s ∧ (b = true → measure s' < measure s) := by
  obtain ⟨w, hw, he, hp, hc⟩ := workerTest_cases s s' r b hs
  rcases hc with ⟨hb, rfl⟩ | ⟨_, j, rest, hd, rfl⟩ | ⟨_, rest, hd, rfl⟩
  · exact ⟨Nat.le_refl _, fun h => by simp [hb] at h⟩
  · have := measure_doWork s r w hw hp j rest hd
    exact ⟨Nat.le_of_lt this, fun _ => this⟩
  · have := measure_doFin s r w hw hp he rest hd
    exact ⟨Nat.le_of_lt this, fun _ => this⟩

theorem measure_masterTail (s s1 s' : Sys) (hs : masterTail s s1 = some s') : measure s' ≤ measure s1 := by
  unfold masterTail at hs
  split at hs
  · cases hs; exact Nat.le_refl _
  · have h2 := measure_finishPhase_le s1
    split at hs
    · cases hs
    · rename_i w0 hw0
      split at hs
      · cases hs
        have := (measure_exit0_le (finishPhase s1) w0 hw0).1
        rw [measure_setNext]; omega
      · cases hs
        have := measure_order_le _ (setNext (finishPhase s1) 0) rfl
        rw [measure_setNext] at this; omega

theorem measure_masterTest (s s' : Sys) (b : Bool) (hs : masterTest s b = some s') :
    measure s' ≤ measure s ∧ (b = true → measure s' < measure s) := by
  cases b
  · rw [masterTest_false_eq] at hs
    exact ⟨measure_masterTail s s s' hs, fun h => by simp at h⟩
  · rw [masterTest_true_eq] at hs
    split at hs
    · rename_i hk
      have h1 := measure_masterTail s _ s' hs
      have h2 := measure_collect s (s.m.next - 1) hk.2
      exact ⟨by omega, fun _ => by omega⟩
    · cases hs

theorem measure_step (s s' : Sys) (r : Nat) (b : Bool) (hs : step s r b = some s') :
    measure s' ≤ measure s ∧ (b = true → measure s' < measure s) := by
  unfold step at hs
  by_cases hr : r = 0
  · subst hr
    simp only [if_true] at hs
    have h0 : measure (if s.m.started = true then s else order { s with m := { s.m with started := true } })
        ≤ measure s := by
      split
      · exact Nat.le_refl _
      · exact measure_order_le _ { s with m := { s.m with started := true } } rfl
    generalize (if s.m.started = true then s else order { s with m := { s.m with started := true } }) = s0 at hs h0
    split at hs
    · split at hs
      · cases hs
      · rename_i s1 hs1
        cases hs
        have := measure_workerTest s0 s1 0 b hs1
        show measure (setNext s1 1) ≤ _ ∧ (_ → measure (setNext s1 1) < _)
        rw [measure_setNext]
        exact ⟨by omega, fun hb => by have := this.2 hb; omega⟩
    · have := measure_masterTest s0 s' b hs
      exact ⟨by omega, fun hb => by have := this.2 hb; omega⟩
  · simp only [hr, if_false] at hs
    exact measure_workerTest s s' r b hs

set_option linter.unusedVariables false in
/-- no step increases the measure ... -/
theorem step_measure_le (P : Nat) (jobs : List Nat) (hP : 0 < P) (hnd : jobs.Nodup) (s s' : Sys) (r : Nat) (b : Bool)
    (h : Reachable P jobs s) (hs : step s r b = some s') : measure s' ≤ measure s :=
  (measure_step s s' r b hs).1

set_option linter.unusedVariables false in
/-- ... every successful test (a message is received) strictly decreases it (so only finitely many can happen) ... -/
theorem sees_measure_lt (P : Nat) (jobs : List Nat) (hP : 0 < P) (hnd : jobs.Nodup) (s s' : Sys) (r : Nat)
    (h : Reachable P jobs s) (hs : step s r true = some s') : measure s' < measure s :=
  (measure_step s s' r true hs).2 rfl


/-! ### liveness: no deadlock -/

theorem run_append (s : Sys) (a b : List (Nat × Bool)) (s1 s2 : Sys) (h1 : run s a = some s1)
    (h2 : run s1 b = some s2) : run s (a ++ b) = some s2 := by
  induction a generalizing s with
  | nil => simp [run] at h1; subst h1; simpa using h2
  | cons x a ih =>
    obtain ⟨r, c⟩ := x
    simp only [run, List.cons_append] at h1 ⊢
    split at h1
    · cases h1
    · rename_i s' hs'
      exact ih s' h1

theorem run_single (s s' : Sys) (r : Nat) (b : Bool) (h : step s r b = some s') : run s [(r, b)] = some s' := by
  simp [run, h]

theorem step0_master (s : Sys) (b : Bool) (hst : s.m.started = true) (hn : s.m.next ≠ 0) :
    step s 0 b = masterTest s b := by
  simp [step, hst, hn]

theorem step0_worker (s s1 : Sys) (b : Bool) (hst : s.m.started = true) (hn : s.m.next = 0)
    (h : workerTest s 0 b = some s1) : step s 0 b = some (setNext s1 1) := by
  simp [step, hst, hn, h, setNext]

theorem step_worker (s : Sys) (r : Nat) (b : Bool) (hr : r ≠ 0) : step s r b = workerTest s r b := by
  simp [step, hr]

theorem finishPhase_ws (s : Sys) : (finishPhase s).ws = s.ws := by
  rw [finishPhase_eq]; split <;> rfl

theorem masterTail_some (P : Nat) (jobs : List Nat) (hP : 0 < P) (s s1 : Sys) (h : Core P jobs s1) :
    ∃ s', masterTail s s1 = some s' := by
  unfold masterTail
  split
  · exact ⟨_, rfl⟩
  · have : 0 < (finishPhase s1).ws.length := by rw [finishPhase_ws, h.lws]; exact hP
    rw [List.getElem?_eq_getElem this]
    simp only
    split <;> exact ⟨_, rfl⟩

theorem masterTail_next (s s1 s' : Sys) (h : masterTail s s1 = some s') :
    s'.m.next = if s.m.next < s.P then s.m.next + 1 else 0 := by
  unfold masterTail at h
  split at h
  · rename_i hlt; cases h; rw [if_pos hlt]; rfl
  · rename_i hlt
    rw [if_neg hlt]
    split at h
    · cases h
    · split at h
      · cases h; rfl
      · cases h
        exact (order_frame _).2.2.2.2.2.2

theorem masterTail_end (s s1 s' : Sys) (w0 : Worker) (hn : ¬ s.m.next < s.P) (hw : s1.ws[0]? = some w0)
    (h : masterTail s s1 = some s') :
    (w0.st = .finish → s' = setNext (exit0 (finishPhase s1) w0) 0) ∧
    (w0.st ≠ .finish → s' = order (setNext (finishPhase s1) 0)) := by
  unfold masterTail at h
  rw [if_neg hn, finishPhase_ws, hw] at h
  simp only at h
  split at h
  · rename_i hf; cases h; exact ⟨fun _ => rfl, fun hc => absurd hf hc⟩
  · rename_i hf; cases h; exact ⟨fun hc => absurd hc hf, fun _ => rfl⟩

/-- rank 0 can always finish its current loop iteration -/
theorem to_next0 (P : Nat) (jobs : List Nat) (hP : 0 < P) (hnd : jobs.Nodup) :
    ∀ (n : Nat) (s : Sys), Inv P jobs s → P ≤ s.m.next + n →
      ∃ sched s', run s sched = some s' ∧ Inv P jobs s' ∧ s'.m.next = 0 ∧ measure s' ≤ measure s := by
  intro n
  induction n with
  | zero =>
    intro s h hn
    by_cases h0 : s.m.next = 0
    · exact ⟨[], s, rfl, h, h0, Nat.le_refl _⟩
    · obtain ⟨s1, hs1⟩ := masterTail_some P jobs hP s s h.1
      have hstep : step s 0 false = some s1 := by
        rw [step0_master s false h.2.1 h0, masterTest_false_eq]; exact hs1
      refine ⟨[(0, false)], s1, run_single _ _ _ _ hstep, step_inv P jobs hnd _ _ _ _ h hstep, ?_,
        (measure_step _ _ _ _ hstep).1⟩
      rw [masterTail_next s s s1 hs1, h.1.hP]
      have : ¬ s.m.next < P := by omega
      simp [this]
  | succ n ih =>
    intro s h hn
    by_cases h0 : s.m.next = 0
    · exact ⟨[], s, rfl, h, h0, Nat.le_refl _⟩
    · obtain ⟨s1, hs1⟩ := masterTail_some P jobs hP s s h.1
      have hstep : step s 0 false = some s1 := by
        rw [step0_master s false h.2.1 h0, masterTest_false_eq]; exact hs1
      have hinv1 := step_inv P jobs hnd _ _ _ _ h hstep
      have hm1 := (measure_step _ _ _ _ hstep).1
      have hnext := masterTail_next s s s1 hs1
      rw [h.1.hP] at hnext
      by_cases hlt : s.m.next < P
      · simp [hlt] at hnext
        obtain ⟨sched, s', hr, hi, hn', hm⟩ := ih s1 hinv1 (by omega)
        exact ⟨(0, false) :: sched, s', run_append s [(0, false)] sched s1 s' (run_single _ _ _ _ hstep) hr,
          hi, hn', by omega⟩
      · simp [hlt] at hnext
        exact ⟨[(0, false)], s1, run_single _ _ _ _ hstep, hinv1, hnext, hm1⟩

theorem to_next0' (P : Nat) (jobs : List Nat) (hP : 0 < P) (hnd : jobs.Nodup) (s : Sys) (h : Inv P jobs s) :
    ∃ sched s', run s sched = some s' ∧ Inv P jobs s' ∧ s'.m.next = 0 ∧ measure s' ≤ measure s :=
  to_next0 P jobs hP hnd P s h (by omega)


/-- a worker that is waited for but has neither a message nor a token in flight does not exist -/
theorem wt_false_of_quiet (P : Nat) (jobs : List Nat) (s : Sys) (h : Core P jobs s) (k : Nat) (hk : k < P)
    (hd : dn s k = []) (hc : ¬ (wt s k = true ∧ 0 < upc s k)) : wt s k = false := by
  obtain ⟨b, _, _, hph⟩ := h.ph
  obtain ⟨w, _, hp⟩ := hph k hk
  rcases hp with h|h|h|h|h <;> simp_all

/-- the polling loop of `check_workers`, started when all channels are empty and every rank before the current
position is idle: it makes progress before rank 0 is back at the top of its loop -/
theorem scan (P : Nat) (jobs : List Nat) (hP : 0 < P) (hnd : jobs.Nodup) :
    ∀ (n : Nat) (s : Sys), Inv P jobs s → s.m.next ≠ 0 → P ≤ s.m.next + n →
      (∀ i, i < P → dn s i = []) → (∀ i, i < P → i + 1 < s.m.next → wt s i = false) →
      (∀ w0, s.ws[0]? = some w0 → w0.exited = false) →
      ∃ sched s', run s sched = some s' ∧ Inv P jobs s' ∧ s'.m.next = 0 ∧ measure s' < measure s := by
  intro n
  induction n with
  | zero =>
    intro s h h0 hn hdn hwt hex0
    by_cases hc : wt s (s.m.next - 1) = true ∧ 0 < upc s (s.m.next - 1)
    · -- a token is received
      obtain ⟨s1, hs1⟩ := masterTail_some P jobs hP s _ (collect_core P jobs s _ h.1 hc.1 hc.2)
      have hstep : step s 0 true = some s1 := by
        rw [step0_master s true h.2.1 h0, masterTest_true_eq, if_pos hc]; exact hs1
      have hinv1 := step_inv P jobs hnd _ _ _ _ h hstep
      have hm1 := (measure_step _ _ _ _ hstep).2 rfl
      obtain ⟨sched, s', hr, hi, hn', hm⟩ := to_next0' P jobs hP hnd s1 hinv1
      exact ⟨(0, true) :: sched, s', run_append s [(0, true)] sched s1 s' (run_single _ _ _ _ hstep) hr,
        hi, hn', by omega⟩
    · -- end of the loop iteration with everybody idle
      obtain ⟨s1, hs1⟩ := masterTail_some P jobs hP s s h.1
      have hstep : step s 0 false = some s1 := by
        rw [step0_master s false h.2.1 h0, masterTest_false_eq]; exact hs1
      have hinv1 := step_inv P jobs hnd _ _ _ _ h hstep
      have hnext := masterTail_next s s s1 hs1
      have hlt : ¬ s.m.next < s.P := by rw [h.1.hP]; omega
      rw [if_neg hlt] at hnext
      refine ⟨[(0, false)], s1, run_single _ _ _ _ hstep, hinv1, hnext, ?_⟩
      have hallwt : ∀ i, i < P → wt s i = false := by
        intro i hi
        by_cases hik : i + 1 < s.m.next
        · exact hwt i hi hik
        · have : i = s.m.next - 1 := by omega
          subst this
          exact wt_false_of_quiet P jobs s h.1 _ hi (hdn _ hi) hc
      have hcount : s.m.wait.count true = 0 := by
        rw [count_true_zero]
        intro i hi
        rw [h.1.lw] at hi
        have := hallwt i hi
        simpa [wt] using this
      have hlen : s.m.idle.length = P := by have := h.1.cnt; omega
      obtain ⟨b, hfin, hbj, hph⟩ := h.1.ph
      obtain ⟨w0, hw0, hp0⟩ := hph 0 hP
      have hend := masterTail_end s s s1 w0 hlt hw0 hs1
      cases b
      · have hst0 : w0.st ≠ .finish := by
          rcases hp0 with h|h|h|h|h <;> simp_all
        rw [hend.2 hst0]
        match hj : s.m.jobs with
        | [] =>
          have h1 := measure_finishPhase_lt s hj (by rw [h.1.hP, hlen]; exact Nat.le_refl _)
            (by rw [h.1.hP]; exact hfin) (by rw [h.1.hP]; exact hP)
          have h2 := measure_order_le _ (setNext (finishPhase s) 0) rfl
          rw [measure_setNext] at h2
          omega
        | j :: js =>
          have hfp : finishPhase s = s := by
            rw [finishPhase_eq, if_neg]; simp [hj]
          rw [hfp]
          match hi : s.m.idle with
          | [] => simp [hi] at hlen; omega
          | w :: ws =>
            have := measure_order_lt (setNext s 0) j w js ws hj hi
            rw [measure_setNext] at this
            exact this
      · have hst0 : w0.st = .finish := by
          have := hdn 0 hP
          rcases hp0 with h|h|h|h|h <;> simp_all
        rw [hend.1 hst0, measure_setNext]
        have h1 := measure_finishPhase_le s
        have h2 := (measure_exit0_le (finishPhase s) w0 (by rw [finishPhase_ws]; exact hw0)).2 (hex0 w0 hw0)
        omega
  | succ n ih =>
    intro s h h0 hn hdn hwt hex0
    by_cases hlt : s.m.next < P
    · by_cases hc : wt s (s.m.next - 1) = true ∧ 0 < upc s (s.m.next - 1)
      · obtain ⟨s1, hs1⟩ := masterTail_some P jobs hP s _ (collect_core P jobs s _ h.1 hc.1 hc.2)
        have hstep : step s 0 true = some s1 := by
          rw [step0_master s true h.2.1 h0, masterTest_true_eq, if_pos hc]; exact hs1
        have hinv1 := step_inv P jobs hnd _ _ _ _ h hstep
        have hm1 := (measure_step _ _ _ _ hstep).2 rfl
        obtain ⟨sched, s', hr, hi, hn', hm⟩ := to_next0' P jobs hP hnd s1 hinv1
        exact ⟨(0, true) :: sched, s', run_append s [(0, true)] sched s1 s' (run_single _ _ _ _ hstep) hr,
          hi, hn', by omega⟩
      · have hs1 : masterTail s s = some (setNext s (s.m.next + 1)) := by
          unfold masterTail; rw [if_pos (by rw [h.1.hP]; exact hlt)]
        have hstep : step s 0 false = some (setNext s (s.m.next + 1)) := by
          rw [step0_master s false h.2.1 h0, masterTest_false_eq]; exact hs1
        have hinv1 := step_inv P jobs hnd _ _ _ _ h hstep
        have hk : wt s (s.m.next - 1) = false :=
          wt_false_of_quiet P jobs s h.1 _ (by omega) (hdn _ (by omega)) hc
        obtain ⟨sched, s', hr, hi, hn', hm⟩ := ih (setNext s (s.m.next + 1)) hinv1 (by simp [setNext])
          (by simp [setNext]; omega) hdn
          (by
            intro i hi hik
            simp [setNext] at hik
            by_cases hik' : i + 1 < s.m.next
            · exact hwt i hi hik'
            · have : i = s.m.next - 1 := by omega
              subst this; exact hk)
          hex0
        rw [measure_setNext] at hm
        exact ⟨(0, false) :: sched, s', run_append s [(0, false)] sched _ s' (run_single _ _ _ _ hstep) hr,
          hi, hn', hm⟩
    · exact ih s h h0 (by omega) hdn hwt hex0


/-- a rank with a message in its channel can receive it -/
theorem worker_can_receive (P : Nat) (jobs : List Nat) (s : Sys) (h : Core P jobs s) (i : Nat) (hi : i < P)
    (hd : dn s i ≠ []) : ∃ s', workerTest s i true = some s' := by
  obtain ⟨b, _, _, hph⟩ := h.ph
  obtain ⟨w, hw, hp⟩ := hph i hi
  have hpe : w.st = .pending ∧ w.exited = false := by
    rcases hp with h|h|h|h|h <;> simp_all
  match hm : dn s i with
  | [] => exact absurd hm hd
  | Msg.work j :: rest => exact ⟨_, workerTest_work s i w hw hpe.2 hpe.1 j rest hm⟩
  | Msg.finish :: rest => exact ⟨_, workerTest_finish s i w hw hpe.2 hpe.1 rest hm⟩

/-- from a state in which rank 0 is at the top of its loop and somebody is still running, progress can be made,
ending again with rank 0 at the top of its loop -/
theorem progress (P : Nat) (jobs : List Nat) (hP : 0 < P) (hnd : jobs.Nodup) (s : Sys) (h : Inv P jobs s)
    (h0 : s.m.next = 0) (hne : allExited s = false) :
    ∃ sched s', run s sched = some s' ∧ Inv P jobs s' ∧ s'.m.next = 0 ∧ measure s' < measure s := by
  by_cases hex : ∃ i, i ≠ 0 ∧ i < P ∧ dn s i ≠ []
  · obtain ⟨i, hi0, hiP, hd⟩ := hex
    obtain ⟨s', hs'⟩ := worker_can_receive P jobs s h.1 i hiP hd
    have hstep : step s i true = some s' := by rw [step_worker s i true hi0]; exact hs'
    have hm : s'.m = s.m := (workerTest_core P jobs hnd s s' i true h.1 hs').2.1
    exact ⟨[(i, true)], s', run_single _ _ _ _ hstep, step_inv P jobs hnd _ _ _ _ h hstep, by rw [hm]; exact h0,
      (measure_step _ _ _ _ hstep).2 rfl⟩
  · have hquiet : ∀ i, i ≠ 0 → i < P → dn s i = [] := by
      intro i hi0 hiP
      apply Classical.byContradiction
      intro hc
      exact hex ⟨i, hi0, hiP, hc⟩
    obtain ⟨b, hfin, hbj, hph⟩ := h.1.ph
    obtain ⟨w0, hw0, hp0⟩ := hph 0 hP
    have hex0 : w0.exited = false := by
      cases hw0e : w0.exited
      · rfl
      · exfalso
        have hb : b = true := by
          rcases hp0 with h|h|h|h|h <;> simp_all
        have : allExited s = true := by
          simp only [allExited, List.all_eq_true]
          intro w hw
          obtain ⟨i, hi⟩ := List.mem_iff_getElem?.1 hw
          have hiP : i < P := by rw [← h.1.lws]; exact (List.getElem?_eq_some_iff.1 hi).1
          by_cases hi0 : i = 0
          · subst hi0; rw [hw0] at hi; cases hi; exact hw0e
          · obtain ⟨w', hw', hp'⟩ := hph i hiP
            rw [hi] at hw'; cases hw'
            have := hquiet i hi0 hiP
            rcases hp' with h|h|h|h|h <;> simp_all
        rw [this] at hne; cases hne
    have hpend : w0.st = .pending := by
      have := h.2.2 w0 hw0
      rcases hp0 with h|h|h|h|h <;> simp_all
    by_cases hd0 : dn s 0 = []
    · -- failed poll, then the polling loop
      have hstep : step s 0 false = some (setNext s 1) :=
        step0_worker s s false h.2.1 h0 (workerTest_false s 0 w0 hw0 hex0 hpend)
      have hinv1 := step_inv P jobs hnd _ _ _ _ h hstep
      obtain ⟨sched, s', hr, hi, hn', hm⟩ := scan P jobs hP hnd P (setNext s 1) hinv1 (by simp [setNext])
        (by omega)
        (by
          intro i hi
          by_cases hi0 : i = 0
          · subst hi0; exact hd0
          · exact hquiet i hi0 hi)
        (by intro i _ hi1; simp [setNext] at hi1)
        (by intro w hw; have : s.ws[0]? = some w := hw
            rw [hw0] at this; cases this; exact hex0)
      rw [measure_setNext] at hm
      exact ⟨(0, false) :: sched, s', run_append s [(0, false)] sched _ s' (run_single _ _ _ _ hstep) hr,
        hi, hn', hm⟩
    · obtain ⟨s1, hs1⟩ := worker_can_receive P jobs s h.1 0 hP hd0
      have hstep : step s 0 true = some (setNext s1 1) := step0_worker s s1 true h.2.1 h0 hs1
      have hinv1 := step_inv P jobs hnd _ _ _ _ h hstep
      have hm1 := (measure_step _ _ _ _ hstep).2 rfl
      obtain ⟨sched, s', hr, hi, hn', hm⟩ := to_next0' P jobs hP hnd _ hinv1
      exact ⟨(0, true) :: sched, s', run_append s [(0, true)] sched _ s' (run_single _ _ _ _ hstep) hr,
        hi, hn', by omega⟩

theorem can_finish_aux (P : Nat) (jobs : List Nat) (hP : 0 < P) (hnd : jobs.Nodup) :
    ∀ (n : Nat) (s : Sys), Inv P jobs s → s.m.next = 0 → measure s ≤ n →
      ∃ sched s', run s sched = some s' ∧ allExited s' = true := by
  intro n
  induction n with
  | zero =>
    intro s h h0 hm
    cases hall : allExited s
    · obtain ⟨_, s', _, _, _, hlt⟩ := progress P jobs hP hnd s h h0 hall
      omega
    · exact ⟨[], s, rfl, hall⟩
  | succ n ih =>
    intro s h h0 hm
    cases hall : allExited s
    · obtain ⟨sched, s1, hr, hi, hn1, hlt⟩ := progress P jobs hP hnd s h h0 hall
      obtain ⟨sched2, s2, hr2, hall2⟩ := ih s1 hi hn1 (by omega)
      exact ⟨sched ++ sched2, s2, run_append s sched sched2 s1 s2 hr hr2, hall2⟩
    · exact ⟨[], s, rfl, hall⟩

/-- ... and from every reachable state the round can be completed: NO DEADLOCK, for any number of jobs (including none
and fewer than workers) and any number of ranks -/
theorem can_finish (P : Nat) (jobs : List Nat) (hP : 0 < P) (hnd : jobs.Nodup) (s : Sys)
    (h : Reachable P jobs s) : ∃ sched s', run s sched = some s' ∧ allExited s' = true := by
  have hinv := reachable_inv P jobs hnd s h
  obtain ⟨sched1, s1, hr1, hi1, hn1, _⟩ := to_next0' P jobs hP hnd s hinv
  obtain ⟨sched2, s2, hr2, hall⟩ := can_finish_aux P jobs hP hnd (measure s1) s1 hi1 hn1 (Nat.le_refl _)
  exact ⟨sched1 ++ sched2, s2, run_append s sched1 sched2 s1 s2 hr1 hr2, hall⟩

end Pomerol.Spec.Disp
