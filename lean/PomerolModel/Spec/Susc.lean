/-
  Bosonic Lehmann representation of the dynamical susceptibility, static limit included (C14).

  * `lehmann_susc`: χ_AB(iΩ_k) = ∫₀^β ⟨A(τ)B(0)⟩ e^{iΩ_k τ} dτ equals the library's pole sum, for
    every spectrum (degenerate levels included), β > 0, matrices, and every k : ℤ (k = 0 and k < 0 too).
  * `suscTauTerm_branch`, `suscTauTerm_forward`, `susc_tau_eq_corr`: τ-domain formula.
  * `const_transform`: disconnected part.
-/
import PomerolModel.Spec.Lehmann

namespace Pomerol.Spec
open Matrix Complex

variable {ι : Type} [Fintype ι] [DecidableEq ι]

set_option linter.unusedSectionVars false

/-- χ_AB(iΩ_k) := ∫₀^β ⟨A(τ) B(0)⟩ e^{iΩ_k τ} dτ -/
noncomputable def EigenData.suscDef (d : EigenData ι) (A B : Matrix ι ι ℂ) (k : ℤ) : ℂ :=
  ∫ τ in (0:ℝ)..d.β, d.corr A B τ * Complex.exp (I * (d.Ω k : ℂ) * (τ : ℂ))

/-- the library's evaluation: pairs of levels with E_m ≠ E_n give −R/(z − P) with
R = A_nm B_mn (w_n − w_m), P = E_m − E_n; pairs with E_m = E_n ("zero pole") contribute
β·w_n·A_nm·B_mn at Ω = 0 only -/
noncomputable def EigenData.lehmannSusc (d : EigenData ι) (A B : Matrix ι ι ℂ) (k : ℤ) : ℂ :=
  ∑ n, ∑ m, if d.E m = d.E n then
              (if k = 0 then (d.β : ℂ) * (d.w n : ℂ) * A n m * B m n else 0)
            else -(A n m * B m n * ((d.w n : ℂ) - (d.w m : ℂ)))
                  / (I * (d.Ω k : ℂ) - ((d.E m - d.E n : ℝ) : ℂ))

/-! ### basic facts on bosonic frequencies -/

theorem exp_I_Omega_beta (d : EigenData ι) (k : ℤ) :
    Complex.exp (I * (d.Ω k : ℂ) * (d.β : ℂ)) = 1 := by
  have hβ : (d.β : ℂ) ≠ 0 := by exact_mod_cast d.hβ.ne'
  have : I * (d.Ω k : ℂ) * (d.β : ℂ) = (k : ℂ) * (2 * (Real.pi : ℂ) * I) := by
    unfold EigenData.Ω
    push_cast
    field_simp
  rw [this, Complex.exp_int_mul_two_pi_mul_I]

theorem Omega_eq_zero_iff (d : EigenData ι) (k : ℤ) : d.Ω k = 0 ↔ k = 0 := by
  unfold EigenData.Ω
  constructor
  · intro h
    rcases div_eq_zero_iff.mp h with h | h
    · rcases mul_eq_zero.mp h with h | h
      · have : (k : ℝ) = 0 := by linarith
        exact_mod_cast this
      · exact absurd h Real.pi_ne_zero
    · exact absurd h d.hβ.ne'
  · rintro rfl; simp

/-- the exponent `iΩ_k − P` vanishes only for `P = 0` and `k = 0` -/
theorem I_Omega_sub_ne_zero (d : EigenData ι) (k : ℤ) (P : ℝ) (h : P ≠ 0 ∨ k ≠ 0) :
    I * (d.Ω k : ℂ) - (P : ℂ) ≠ 0 := by
  intro h0
  rcases h with h | h
  · have := congrArg Complex.re h0
    simp at this
    exact h this
  · have := congrArg Complex.im h0
    simp at this
    exact h ((Omega_eq_zero_iff d k).mp this)

theorem one_sub_exp_ne_zero (x : ℝ) (hx : x ≠ 0) : (1 : ℂ) - Complex.exp ((x : ℂ)) ≠ 0 := by
  rw [← Complex.ofReal_exp]
  have : (1:ℝ) - Real.exp x ≠ 0 := by
    intro h
    have h1 : Real.exp x = 1 := by linarith
    exact hx (Real.exp_eq_one_iff x |>.mp h1)
  exact_mod_cast this

theorem one_sub_exp_beta_ne_zero (d : EigenData ι) (P : ℝ) (hP : P ≠ 0) :
    (1 : ℂ) - Complex.exp (-(d.β:ℂ) * (P:ℂ)) ≠ 0 := by
  have := one_sub_exp_ne_zero (-d.β * P) (mul_ne_zero (neg_ne_zero.mpr d.hβ.ne') hP)
  push_cast at this
  exact this

/-! ### the basic integral -/

/-- `∫₀^β e^{-τP} e^{iΩ_k τ} dτ = -(1 − e^{-βP}) / (iΩ_k − P)` unless `P = 0` and `k = 0` -/
theorem integral_exp_matsubara_bos (d : EigenData ι) (k : ℤ) (P : ℝ) (h : P ≠ 0 ∨ k ≠ 0) :
    ∫ τ in (0:ℝ)..d.β, Complex.exp (-(τ:ℂ) * (P:ℂ)) * Complex.exp (I * (d.Ω k : ℂ) * (τ:ℂ))
      = -(1 - Complex.exp (-(d.β:ℂ) * (P:ℂ))) / (I * (d.Ω k : ℂ) - (P:ℂ)) := by
  have hc := I_Omega_sub_ne_zero d k P h
  have h1 : ∀ τ : ℝ, Complex.exp (-(τ:ℂ) * (P:ℂ)) * Complex.exp (I * (d.Ω k : ℂ) * (τ:ℂ))
      = Complex.exp ((I * (d.Ω k : ℂ) - (P:ℂ)) * (τ:ℂ)) := by
    intro τ; rw [← Complex.exp_add]; congr 1; ring
  simp_rw [h1]
  rw [integral_exp_mul_complex hc]
  have h2 : Complex.exp ((I * (d.Ω k : ℂ) - (P:ℂ)) * (d.β:ℂ))
      = Complex.exp (-(d.β:ℂ) * (P:ℂ)) := by
    have : (I * (d.Ω k : ℂ) - (P:ℂ)) * (d.β:ℂ)
        = I * (d.Ω k : ℂ) * (d.β : ℂ) + -(d.β:ℂ) * (P:ℂ) := by ring
    rw [this, Complex.exp_add, exp_I_Omega_beta]; ring
  rw [h2]
  simp only [Complex.ofReal_zero, mul_zero, Complex.exp_zero]
  congr 1; ring

/-- the static zero-pole case `P = 0`, `k = 0` -/
theorem integral_exp_matsubara_bos_zero (d : EigenData ι) :
    ∫ τ in (0:ℝ)..d.β, Complex.exp (-(τ:ℂ) * ((0:ℝ):ℂ)) * Complex.exp (I * (d.Ω 0 : ℂ) * (τ:ℂ))
      = (d.β : ℂ) := by
  have h0 : d.Ω 0 = 0 := (Omega_eq_zero_iff d 0).mpr rfl
  simp [h0]

/-- disconnected part: subtracting β⟨A⟩⟨B⟩ at k = 0 only is the transform of subtracting the
constant ⟨A⟩⟨B⟩ in τ -/
theorem const_transform (d : EigenData ι) (c : ℂ) (k : ℤ) :
    ∫ τ in (0:ℝ)..d.β, c * Complex.exp (I * (d.Ω k : ℂ) * (τ:ℂ))
      = if k = 0 then (d.β : ℂ) * c else 0 := by
  rw [intervalIntegral.integral_const_mul]
  by_cases hk : k = 0
  · subst hk
    have h0 : d.Ω 0 = 0 := (Omega_eq_zero_iff d 0).mpr rfl
    simp [h0, mul_comm]
  · rw [if_neg hk]
    have := integral_exp_matsubara_bos d k 0 (Or.inr hk)
    simp only [Complex.ofReal_zero, mul_zero, Complex.exp_zero, one_mul, sub_self, neg_zero,
      zero_div] at this
    rw [this, mul_zero]

/-! ### main theorem -/

/-- MAIN THEOREM (C14): for every spectrum (degenerate levels included), every β>0, every pair of
matrices and EVERY bosonic Matsubara number including 0 and negative ones -/
theorem lehmann_susc (d : EigenData ι) (A B : Matrix ι ι ℂ) (k : ℤ) :
    d.suscDef A B k = d.lehmannSusc A B k := by
  unfold EigenData.suscDef EigenData.lehmannSusc
  have hI : ∀ τ : ℝ, d.corr A B τ * Complex.exp (I * (d.Ω k : ℂ) * (τ : ℂ))
      = ∑ n, ∑ m, ((d.w n : ℂ) * A n m * B m n) *
          (Complex.exp (-(τ:ℂ) * ((d.E m - d.E n : ℝ) : ℂ))
            * Complex.exp (I * (d.Ω k : ℂ) * (τ:ℂ))) := by
    intro τ
    rw [corr_eq_sum, Finset.sum_mul]
    refine Finset.sum_congr rfl fun n _ => ?_
    rw [Finset.sum_mul]
    refine Finset.sum_congr rfl fun m _ => ?_
    have : Complex.exp ((τ : ℂ) * ((d.E n - d.E m : ℝ) : ℂ))
        = Complex.exp (-(τ:ℂ) * ((d.E m - d.E n : ℝ) : ℂ)) := by
      congr 1; push_cast; ring
    rw [this]; ring
  simp_rw [hI]
  have hint : ∀ (n m : ι), IntervalIntegrable (fun τ : ℝ =>
      ((d.w n : ℂ) * A n m * B m n) *
          (Complex.exp (-(τ:ℂ) * ((d.E m - d.E n : ℝ) : ℂ))
            * Complex.exp (I * (d.Ω k : ℂ) * (τ:ℂ)))) MeasureTheory.volume 0 d.β := by
    intro n m
    apply Continuous.intervalIntegrable
    fun_prop
  rw [intervalIntegral.integral_finsetSum]
  · refine Finset.sum_congr rfl fun n _ => ?_
    rw [intervalIntegral.integral_finsetSum]
    · refine Finset.sum_congr rfl fun m _ => ?_
      rw [intervalIntegral.integral_const_mul]
      by_cases hE : d.E m = d.E n
      · rw [if_pos hE]
        have hP : d.E m - d.E n = 0 := sub_eq_zero.mpr hE
        rw [hP]
        by_cases hk : k = 0
        · subst hk
          rw [if_pos rfl, integral_exp_matsubara_bos_zero]
          ring
        · rw [if_neg hk, integral_exp_matsubara_bos d k 0 (Or.inr hk)]
          simp
      · rw [if_neg hE]
        have hP : d.E m - d.E n ≠ 0 := sub_ne_zero.mpr hE
        rw [integral_exp_matsubara_bos d k _ (Or.inl hP)]
        have hc := I_Omega_sub_ne_zero d k (d.E m - d.E n) (Or.inl hP)
        have hw : (d.w m : ℂ)
            = (d.w n : ℂ) * Complex.exp (-(d.β:ℂ) * ((d.E m - d.E n : ℝ) : ℂ)) := by
          rw [w_ratio' d n m]; push_cast; rfl
        rw [hw]
        field_simp
    · intro m _; exact hint n m
  · intro n _
    apply Continuous.intervalIntegrable
    fun_prop

/-! ### τ-domain duality -/

/-- the library's imaginary-time formula for one non-zero-pole term (both overflow-safe branches
are this function) -/
noncomputable def suscTauTerm (β : ℝ) (R : ℂ) (P : ℝ) (τ : ℝ) : ℂ :=
  R * Complex.exp (-(τ:ℂ) * (P:ℂ)) / (1 - Complex.exp (-(β:ℂ) * (P:ℂ)))

/-- holds for all `P` (for `P = 0` both sides are `_/0 = 0`) -/
theorem suscTauTerm_branch (β : ℝ) (R : ℂ) (P : ℝ) (τ : ℝ) :
    suscTauTerm β R P τ
      = R * Complex.exp (((β:ℂ) - (τ:ℂ)) * (P:ℂ)) / (Complex.exp ((β:ℂ) * (P:ℂ)) - 1) := by
  unfold suscTauTerm
  have hne : Complex.exp ((β:ℂ) * (P:ℂ)) ≠ 0 := Complex.exp_ne_zero _
  have h1 : Complex.exp (((β:ℂ) - (τ:ℂ)) * (P:ℂ))
      = Complex.exp ((β:ℂ) * (P:ℂ)) * Complex.exp (-(τ:ℂ) * (P:ℂ)) := by
    rw [← Complex.exp_add]; congr 1; ring
  have h2 : Complex.exp ((β:ℂ) * (P:ℂ)) * Complex.exp (-(β:ℂ) * (P:ℂ)) = 1 := by
    rw [← Complex.exp_add]; simp
  have h3 : Complex.exp ((β:ℂ) * (P:ℂ)) - 1
      = Complex.exp ((β:ℂ) * (P:ℂ)) * (1 - Complex.exp (-(β:ℂ) * (P:ℂ))) := by
    rw [mul_sub, h2, mul_one]
  rw [h1, h3, mul_left_comm, mul_div_mul_left _ _ hne]

/-- τ/frequency consistency of a single term -/
theorem suscTauTerm_forward (d : EigenData ι) (R : ℂ) (P : ℝ) (hP : P ≠ 0) (k : ℤ) :
    ∫ τ in (0:ℝ)..d.β, suscTauTerm d.β R P τ * Complex.exp (I * (d.Ω k : ℂ) * (τ:ℂ))
      = -R / (I * (d.Ω k : ℂ) - (P:ℂ)) := by
  have hc := I_Omega_sub_ne_zero d k P (Or.inl hP)
  have hne := one_sub_exp_beta_ne_zero d P hP
  have hne' : (1 : ℂ) - Complex.exp (-((d.β:ℂ) * (P:ℂ))) ≠ 0 := by rwa [neg_mul] at hne
  have h1 : ∀ τ : ℝ, suscTauTerm d.β R P τ * Complex.exp (I * (d.Ω k : ℂ) * (τ:ℂ))
      = (R / (1 - Complex.exp (-(d.β:ℂ) * (P:ℂ)))) *
        (Complex.exp (-(τ:ℂ) * (P:ℂ)) * Complex.exp (I * (d.Ω k : ℂ) * (τ:ℂ))) := by
    intro τ; unfold suscTauTerm; ring
  simp_rw [h1]
  rw [intervalIntegral.integral_const_mul, integral_exp_matsubara_bos d k P (Or.inl hP)]
  field_simp

/-- the imaginary-time value the library returns (sum of the terms plus the zero-pole weight) IS
the correlator ⟨A(τ)B(0)⟩ -/
theorem susc_tau_eq_corr (d : EigenData ι) (A B : Matrix ι ι ℂ) (τ : ℝ) :
    (∑ n, ∑ m, if d.E m = d.E n then (d.w n : ℂ) * A n m * B m n
               else suscTauTerm d.β (A n m * B m n * ((d.w n : ℂ) - (d.w m : ℂ)))
                      (d.E m - d.E n) τ)
      = d.corr A B τ := by
  rw [corr_eq_sum]
  refine Finset.sum_congr rfl fun n _ => Finset.sum_congr rfl fun m _ => ?_
  by_cases hE : d.E m = d.E n
  · rw [if_pos hE, hE]
    simp
  · rw [if_neg hE]
    have hP : d.E m - d.E n ≠ 0 := sub_ne_zero.mpr hE
    have hne := one_sub_exp_beta_ne_zero d (d.E m - d.E n) hP
    have hne' : (1 : ℂ) - Complex.exp (-((d.β:ℂ) * ((d.E m - d.E n : ℝ) : ℂ))) ≠ 0 := by
      rwa [neg_mul] at hne
    have hw : (d.w m : ℂ)
        = (d.w n : ℂ) * Complex.exp (-(d.β:ℂ) * ((d.E m - d.E n : ℝ) : ℂ)) := by
      rw [w_ratio' d n m]; push_cast; rfl
    have hexp : Complex.exp ((τ : ℂ) * ((d.E n - d.E m : ℝ) : ℂ))
        = Complex.exp (-(τ:ℂ) * ((d.E m - d.E n : ℝ) : ℂ)) := by
      congr 1; push_cast; ring
    unfold suscTauTerm
    rw [hw, hexp]
    field_simp

end Pomerol.Spec
