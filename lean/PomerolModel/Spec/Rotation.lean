/-
  Eigenbasis operators (property C10): rotating operator matrices with the unitary eigenvector
  matrices preserves the CAR and adjointness, is invertible, and the library's `LeftMat * RightMat`
  evaluation of one block equals `Utoᴴ * O * Ufrom`.
-/
import Mathlib.LinearAlgebra.Matrix.ConjTranspose
import Mathlib.Data.Complex.Basic
import Mathlib.Data.Matrix.Mul
import Mathlib.Algebra.BigOperators.Group.Finset.Piecewise

namespace Pomerol.Spec
open Matrix

variable {σ : Type} [Fintype σ] [DecidableEq σ]

set_option linter.unusedSectionVars false

/-- conjugating a product: the inner `V * Vᴴ` cancels -/
theorem rotated_mul (V A B : Matrix σ σ ℂ) (hV : V * Vᴴ = 1) :
    (Vᴴ * A * V) * (Vᴴ * B * V) = Vᴴ * (A * B) * V := by
  calc (Vᴴ * A * V) * (Vᴴ * B * V) = Vᴴ * A * (V * Vᴴ) * B * V := by
        simp only [Matrix.mul_assoc]
    _ = Vᴴ * (A * B) * V := by rw [hV, Matrix.mul_one, Matrix.mul_assoc Vᴴ A B]

/-- rotating to the eigenbasis with a unitary V preserves the CAR -/
theorem rotated_anticomm (V A B : Matrix σ σ ℂ) (hV : V * Vᴴ = 1) (δ : ℂ)
    (h : A * B + B * A = δ • 1) (hV' : Vᴴ * V = 1) :
    (Vᴴ * A * V) * (Vᴴ * B * V) + (Vᴴ * B * V) * (Vᴴ * A * V) = δ • 1 := by
  rw [rotated_mul V A B hV, rotated_mul V B A hV, ← Matrix.add_mul, ← Matrix.mul_add, h,
    Matrix.mul_smul, Matrix.mul_one, Matrix.smul_mul, hV']

/-- the rotated annihilator is the adjoint of the rotated creator -/
theorem rotated_adjoint (V A : Matrix σ σ ℂ) : (Vᴴ * A * V)ᴴ = Vᴴ * Aᴴ * V := by
  rw [conjTranspose_mul, conjTranspose_mul, conjTranspose_conjTranspose, Matrix.mul_assoc]

/-- rotating back gives the original matrix -/
theorem rotate_back (V A : Matrix σ σ ℂ) (hV : V * Vᴴ = 1) : V * (Vᴴ * A * V) * Vᴴ = A := by
  calc V * (Vᴴ * A * V) * Vᴴ = (V * Vᴴ) * A * (V * Vᴴ) := by simp only [Matrix.mul_assoc]
    _ = A := by rw [hV, Matrix.one_mul, Matrix.mul_one]

/-- The library computes one block of the rotated operator as `LeftMat * RightMat` where, for every
source state `k` that the operator does not annihilate (`tgt k = some (l, s)`: target state `l`,
sign `s = ±1`), column `k` of `LeftMat` is `conj (Uto l ·)` and row `k` of `RightMat` is
`s • Ufrom k ·`; all other columns/rows are zero.
This equals `Utoᴴ * O * Ufrom` with `O l k = s` iff `tgt k = some (l, s)`. -/
theorem left_right_product {τ : Type} [Fintype τ] [DecidableEq τ]
    (Uto : Matrix τ τ ℂ) (Ufrom : Matrix σ σ ℂ) (tgt : σ → Option (τ × ℂ)) :
    (Matrix.of fun (n : τ) (k : σ) =>
        match tgt k with | some (l, _) => (starRingEnd ℂ) (Uto l n) | none => 0)
      * (Matrix.of fun (k : σ) (mm : σ) =>
        match tgt k with | some (_, s) => s * Ufrom k mm | none => 0)
    = Utoᴴ * (Matrix.of fun (l : τ) (k : σ) =>
        match tgt k with | some (l', s) => if l' = l then s else 0 | none => 0) * Ufrom := by
  ext n mm
  rw [Matrix.mul_apply, Matrix.mul_apply]
  refine Finset.sum_congr rfl fun k _ => ?_
  rw [Matrix.mul_apply]
  simp only [Matrix.of_apply, conjTranspose_apply]
  rcases tgt k with _ | ⟨l', s⟩
  · simp
  · simp only [mul_ite, mul_zero, Finset.sum_ite_eq, Finset.mem_univ, if_true]
    rw [starRingEnd_apply, mul_assoc]

end Pomerol.Spec
