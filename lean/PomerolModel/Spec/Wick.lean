/-
  Quadratic Hamiltonians give the free propagator (property C12, first half).

  `J` indexes the single-particle modes, `c j` is the eigenbasis matrix of the annihilation operator
  of mode `j`, `h` is the single-particle matrix.
-/
import PomerolModel.Spec.GFProps

namespace Pomerol.Spec
open Matrix Complex

variable {ι : Type} [Fintype ι] [DecidableEq ι] {J : Type} [Fintype J] [DecidableEq J]

set_option linter.unusedSectionVars false

/-- canonical anticommutation relations of the mode operators -/
structure ModeCAR (c : J → Matrix ι ι ℂ) : Prop where
  ccd : ∀ i j, c i * (c j)ᴴ + (c j)ᴴ * c i = if i = j then 1 else 0
  cc : ∀ i j, c i * c j + c j * c i = 0

/-- [c_i, c†_k c_l] = δ_ik c_l -/
theorem comm_bilinear (c : J → Matrix ι ι ℂ) (hc : ModeCAR c) (i k l : J) :
    c i * ((c k)ᴴ * c l) - ((c k)ᴴ * c l) * c i = if i = k then c l else 0 := by
  have h1 : c i * (c k)ᴴ = (if i = k then (1 : Matrix ι ι ℂ) else 0) - (c k)ᴴ * c i :=
    eq_sub_of_add_eq (hc.ccd i k)
  have h2 : c i * c l = -(c l * c i) := eq_neg_of_add_eq_zero_left (hc.cc i l)
  rw [← Matrix.mul_assoc, h1, Matrix.sub_mul, Matrix.mul_assoc ((c k)ᴴ), h2, Matrix.mul_neg,
    sub_neg_eq_add, ← Matrix.mul_assoc, add_sub_cancel_right]
  split_ifs <;> simp

/-- [c_i, Σ_kl h_kl c†_k c_l] = Σ_l h_il c_l   (pure algebra from the CAR) -/
theorem comm_quadratic (c : J → Matrix ι ι ℂ) (hc : ModeCAR c) (h : Matrix J J ℂ) (i : J) :
    c i * (∑ k, ∑ l, h k l • ((c k)ᴴ * c l)) - (∑ k, ∑ l, h k l • ((c k)ᴴ * c l)) * c i
      = ∑ l, h i l • c l := by
  simp only [Matrix.mul_sum, Matrix.sum_mul, Matrix.mul_smul, Matrix.smul_mul]
  simp only [← Finset.sum_sub_distrib, ← smul_sub, comm_bilinear c hc]
  simp only [smul_ite, smul_zero]
  rw [Finset.sum_comm]
  refine Finset.sum_congr rfl fun l _ => ?_
  rw [Finset.sum_ite_eq]
  simp

/-- equation of motion in the eigenbasis: (E_m − E_n)(c_i)_nm = Σ_l h_il (c_l)_nm -/
theorem eom_eigenbasis (d : EigenData ι) (c : J → Matrix ι ι ℂ) (hc : ModeCAR c) (h : Matrix J J ℂ)
    (hH : d.H = ∑ k, ∑ l, h k l • ((c k)ᴴ * c l)) (i : J) (n m : ι) :
    ((d.E m - d.E n : ℝ) : ℂ) * c i n m = ∑ l, h i l * c l n m := by
  have key := congrFun (congrFun (comm_quadratic c hc h i) n) m
  rw [← hH] at key
  unfold EigenData.H at key
  rw [Matrix.sub_apply, Matrix.mul_diagonal, Matrix.diagonal_mul, Matrix.sum_apply] at key
  simp only [Matrix.smul_apply, smul_eq_mul] at key
  rw [← key]
  push_cast
  ring

/-- FREE PROPAGATOR: for a quadratic Hamiltonian the matrix of Green's functions is the inverse of
(z − h), for every Hermitian or non-Hermitian h for which H is the given diagonal matrix, degenerate
levels included, at every z that is not a pole -/
theorem free_propagator [Nonempty ι] (d : EigenData ι) (c : J → Matrix ι ι ℂ) (hc : ModeCAR c)
    (h : Matrix J J ℂ) (hH : d.H = ∑ k, ∑ l, h k l • ((c k)ᴴ * c l)) (z : ℂ)
    (hz : ∀ n m, z ≠ ((d.E m - d.E n : ℝ) : ℂ)) :
    (z • (1 : Matrix J J ℂ) - h) * (Matrix.of fun l j => d.lehmannG (c l) (c j)ᴴ z) = 1 := by
  ext i j
  -- the right-hand side is the sum of the residues
  have hcar : c i * (c j)ᴴ + (c j)ᴴ * c i = (if i = j then (1 : ℂ) else 0) • (1 : Matrix ι ι ℂ) := by
    rw [hc.ccd i j]; split_ifs <;> simp
  rw [Matrix.one_apply, ← residue_sum_car d (c i) (c j)ᴴ _ hcar]
  rw [Matrix.sub_mul, Matrix.smul_mul, Matrix.one_mul, Matrix.sub_apply, Matrix.smul_apply,
    Matrix.mul_apply, smul_eq_mul]
  simp only [Matrix.of_apply]
  unfold EigenData.lehmannG EigenData.res
  simp only [Finset.mul_sum]
  rw [Finset.sum_comm (s := (Finset.univ : Finset J))]
  rw [← Finset.sum_sub_distrib]
  refine Finset.sum_congr rfl fun n _ => ?_
  rw [Finset.sum_comm (s := (Finset.univ : Finset J))]
  rw [← Finset.sum_sub_distrib]
  refine Finset.sum_congr rfl fun m _ => ?_
  have hne : z - ((d.E m - d.E n : ℝ) : ℂ) ≠ 0 := sub_ne_zero.mpr (hz n m)
  have hsum : ∑ l, h i l * (c l n m * (c j)ᴴ m n * ((d.w n : ℂ) + (d.w m : ℂ))
        / (z - ((d.E m - d.E n : ℝ) : ℂ)))
      = (∑ l, h i l * c l n m) * ((c j)ᴴ m n * ((d.w n : ℂ) + (d.w m : ℂ))
        / (z - ((d.E m - d.E n : ℝ) : ℂ))) := by
    rw [Finset.sum_mul]
    exact Finset.sum_congr rfl fun l _ => by ring
  rw [hsum, ← eom_eigenbasis d c hc h hH i n m]
  field_simp

theorem free_propagator_inv [Nonempty ι] (d : EigenData ι) (c : J → Matrix ι ι ℂ) (hc : ModeCAR c)
    (h : Matrix J J ℂ) (hH : d.H = ∑ k, ∑ l, h k l • ((c k)ᴴ * c l)) (z : ℂ)
    (hz : ∀ n m, z ≠ ((d.E m - d.E n : ℝ) : ℂ)) :
    (Matrix.of fun l j => d.lehmannG (c l) (c j)ᴴ z) = (z • (1 : Matrix J J ℂ) - h)⁻¹ :=
  (Matrix.inv_eq_right_inv (free_propagator d c hc h hH z hz)).symm

end Pomerol.Spec
