/-
  Analytic properties of the single-particle Green's function in its Lehmann form (C11).
-/
import PomerolModel.Spec.Lehmann
import Mathlib.Analysis.SpecificLimits.Basic
import Mathlib.Analysis.Normed.Field.Lemmas

namespace Pomerol.Spec
open Matrix Complex Filter Topology

variable {ι : Type} [Fintype ι] [DecidableEq ι]

set_option linter.unusedSectionVars false

/-- residue of the (n,m) Lehmann term -/
noncomputable def EigenData.res (d : EigenData ι) (C CX : Matrix ι ι ℂ) (n m : ι) : ℂ :=
  C n m * CX m n * ((d.w n : ℂ) + (d.w m : ℂ))

/-- pole of the (n,m) Lehmann term -/
noncomputable def EigenData.pole (d : EigenData ι) (n m : ι) : ℝ := d.E m - d.E n

theorem lehmannG_eq (d : EigenData ι) (C CX : Matrix ι ι ℂ) (z : ℂ) :
    d.lehmannG C CX z = ∑ n, ∑ m, d.res C CX n m / (z - (d.pole n m : ℂ)) := rfl

/-! ### (a) conjugation symmetry -/

/-- (a) conj(G_ij(z)) = G_ji(conj z) -/
theorem conj_symm (d : EigenData ι) (C D : Matrix ι ι ℂ) (z : ℂ) :
    (starRingEnd ℂ) (d.lehmannG C Dᴴ z) = d.lehmannG D Cᴴ ((starRingEnd ℂ) z) := by
  unfold EigenData.lehmannG
  rw [map_sum]
  refine Finset.sum_congr rfl fun n _ => ?_
  rw [map_sum]
  refine Finset.sum_congr rfl fun m _ => ?_
  simp only [map_div₀, map_mul, map_add, map_sub, Complex.conj_ofReal, conjTranspose_apply,
    RCLike.star_def, Complex.conj_conj]
  ring

/-! ### (b) sum rule -/

/-- (b) sum rule: the residues add up to Tr(ρ {c_i, c†_j}) -/
theorem residue_sum_trace (d : EigenData ι) (C CX : Matrix ι ι ℂ) :
    ∑ n, ∑ m, d.res C CX n m = (d.ρ * (C * CX + CX * C)).trace := by
  unfold EigenData.res EigenData.ρ
  rw [Matrix.trace]
  simp only [diag_apply, diagonal_mul, Matrix.add_apply]
  simp only [Matrix.mul_apply]
  have h1 : ∀ n : ι, (d.w n : ℂ) * (∑ m, C n m * CX m n + ∑ m, CX n m * C m n)
      = ∑ m, C n m * CX m n * (d.w n : ℂ) + ∑ m, C m n * CX n m * (d.w n : ℂ) := by
    intro n
    rw [mul_add, Finset.mul_sum, Finset.mul_sum]
    congr 1 <;> exact Finset.sum_congr rfl fun m _ => by ring
  simp_rw [h1, mul_add]
  rw [Finset.sum_add_distrib]
  simp_rw [Finset.sum_add_distrib]
  congr 1
  exact Finset.sum_comm

/-- with the CAR the sum of residues is δ_ij -/
theorem residue_sum_car [Nonempty ι] (d : EigenData ι) (C CX : Matrix ι ι ℂ) (δ : ℂ)
    (hcar : C * CX + CX * C = δ • (1 : Matrix ι ι ℂ)) :
    ∑ n, ∑ m, d.res C CX n m = δ := by
  rw [residue_sum_trace, hcar, Matrix.mul_smul, Matrix.mul_one, Matrix.trace_smul]
  unfold EigenData.ρ
  rw [Matrix.trace_diagonal]
  have : ∑ n, (d.w n : ℂ) = 1 := by
    rw [← Complex.ofReal_sum, w_sum]; simp
  rw [this]; simp

/-! ### (c) high-frequency tail -/

theorem tendsto_inv_sub_cobounded (P : ℂ) :
    Tendsto (fun z : ℂ => (z - P)⁻¹) (Bornology.cobounded ℂ) (𝓝 0) := by
  have h : Tendsto (fun z : ℂ => z - P) (Bornology.cobounded ℂ) (Bornology.cobounded ℂ) := by
    rw [← tendsto_norm_atTop_iff_cobounded]
    have h0 : Tendsto (fun z : ℂ => ‖z‖ - ‖P‖) (Bornology.cobounded ℂ) atTop :=
      tendsto_atTop_add_const_right _ _ tendsto_norm_cobounded_atTop
    exact tendsto_atTop_mono (fun z => norm_sub_norm_le z P) h0
  exact tendsto_inv₀_cobounded.comp h

/-- (c) high-frequency tail: z·G(z) → Σ residues as |z| → ∞ -/
theorem tail (d : EigenData ι) (C CX : Matrix ι ι ℂ) :
    Tendsto (fun z : ℂ => z * d.lehmannG C CX z) (Bornology.cobounded ℂ)
      (𝓝 (∑ n, ∑ m, d.res C CX n m)) := by
  -- it suffices to work where `z` is away from all the (finitely many) poles
  have hev : ∀ n m : ι, ∀ᶠ z : ℂ in Bornology.cobounded ℂ, z - (d.pole n m : ℂ) ≠ 0 := by
    intro n m
    have h : ∀ᶠ z : ℂ in Bornology.cobounded ℂ, z ≠ (d.pole n m : ℂ) := by
      have hb : ({(d.pole n m : ℂ)} : Set ℂ)ᶜ ∈ Bornology.cobounded ℂ :=
        Bornology.isCobounded_def.mp Bornology.isBounded_singleton.compl
      exact hb
    exact h.mono fun z hz => sub_ne_zero.mpr hz
  have hev' : ∀ᶠ z : ℂ in Bornology.cobounded ℂ, ∀ n m : ι, z - (d.pole n m : ℂ) ≠ 0 :=
    Filter.eventually_all.mpr fun n => Filter.eventually_all.mpr fun m => hev n m
  have hlim : Tendsto (fun z : ℂ => ∑ n, ∑ m,
      (d.res C CX n m + d.res C CX n m * (d.pole n m : ℂ) * (z - (d.pole n m : ℂ))⁻¹))
      (Bornology.cobounded ℂ) (𝓝 (∑ n, ∑ m, d.res C CX n m)) := by
    refine tendsto_finsetSum _ fun n _ => tendsto_finsetSum _ fun m _ => ?_
    have := ((tendsto_inv_sub_cobounded (d.pole n m : ℂ)).const_mul
      (d.res C CX n m * (d.pole n m : ℂ))).const_add (d.res C CX n m)
    simpa using this
  refine hlim.congr' ?_
  filter_upwards [hev'] with z hz
  rw [lehmannG_eq, Finset.mul_sum]
  refine Finset.sum_congr rfl fun n _ => ?_
  rw [Finset.mul_sum]
  refine Finset.sum_congr rfl fun m _ => ?_
  have := hz n m
  field_simp
  ring

/-! ### (d) sign of the imaginary part on the upper imaginary axis -/

theorem w_nonneg (d : EigenData ι) (n : ι) : 0 ≤ d.w n := by
  unfold EigenData.w EigenData.Z
  exact div_nonneg (Real.exp_pos _).le (Finset.sum_nonneg fun _ _ => (Real.exp_pos _).le)

/-- the diagonal residues are non-negative reals -/
theorem res_diag (d : EigenData ι) (C : Matrix ι ι ℂ) (n m : ι) :
    d.res C Cᴴ n m = ((Complex.normSq (C n m) * (d.w n + d.w m) : ℝ) : ℂ) := by
  unfold EigenData.res
  rw [conjTranspose_apply, RCLike.star_def, Complex.mul_conj]
  push_cast; ring

theorem res_diag_nonneg (d : EigenData ι) (C : Matrix ι ι ℂ) (n m : ι) :
    0 ≤ Complex.normSq (C n m) * (d.w n + d.w m) :=
  mul_nonneg (Complex.normSq_nonneg _) (add_nonneg (w_nonneg d n) (w_nonneg d m))

theorem im_term (r ω P : ℝ) (hω : 0 < ω) :
    ((r : ℂ) / (I * (ω : ℂ) - (P : ℂ))).im = -(r * ω / (ω ^ 2 + P ^ 2)) := by
  have hpos : 0 < ω ^ 2 + P ^ 2 := by positivity
  rw [Complex.div_im]
  simp [Complex.normSq_apply]
  field_simp
  ring

/-- (d) Im G_ii(iω) < 0 for ω > 0, given the CAR {c_i, c†_i} = 1 -/
theorem im_negative [Nonempty ι] (d : EigenData ι) (C : Matrix ι ι ℂ)
    (hcar : C * Cᴴ + Cᴴ * C = 1) (ω : ℝ) (hω : 0 < ω) :
    (d.lehmannG C Cᴴ (I * (ω : ℂ))).im < 0 := by
  set r : ι → ι → ℝ := fun n m => Complex.normSq (C n m) * (d.w n + d.w m) with hr
  have hsum : ∑ n, ∑ m, r n m = 1 := by
    have h := residue_sum_car d C Cᴴ 1 (by rw [hcar, one_smul])
    simp_rw [res_diag] at h
    have : ((∑ n, ∑ m, r n m : ℝ) : ℂ) = 1 := by
      rw [← h]; push_cast; simp only [hr]; push_cast; rfl
    exact_mod_cast this
  rw [lehmannG_eq, Complex.im_sum]
  simp_rw [Complex.im_sum, res_diag, im_term _ ω _ hω]
  rw [← neg_pos, ← Finset.sum_neg_distrib]
  simp_rw [← Finset.sum_neg_distrib, neg_neg]
  have hnn : ∀ n m : ι, 0 ≤ r n m * ω / (ω ^ 2 + d.pole n m ^ 2) := by
    intro n m
    have : 0 < ω ^ 2 + d.pole n m ^ 2 := by positivity
    exact div_nonneg (mul_nonneg (res_diag_nonneg d C n m) hω.le) this.le
  -- some residue is strictly positive
  have hex : ∃ n m : ι, 0 < r n m := by
    by_contra hcon
    push Not at hcon
    have : ∑ n, ∑ m, r n m ≤ 0 :=
      Finset.sum_nonpos fun n _ => Finset.sum_nonpos fun m _ => hcon n m
    linarith
  obtain ⟨n₀, m₀, h₀⟩ := hex
  have hpos₀ : 0 < r n₀ m₀ * ω / (ω ^ 2 + d.pole n₀ m₀ ^ 2) := by
    have : 0 < ω ^ 2 + d.pole n₀ m₀ ^ 2 := by positivity
    exact div_pos (mul_pos h₀ hω) this
  calc (0:ℝ) < r n₀ m₀ * ω / (ω ^ 2 + d.pole n₀ m₀ ^ 2) := hpos₀
    _ ≤ ∑ m, r n₀ m * ω / (ω ^ 2 + d.pole n₀ m ^ 2) :=
        Finset.single_le_sum (f := fun m => r n₀ m * ω / (ω ^ 2 + d.pole n₀ m ^ 2))
          (fun m _ => hnn n₀ m) (Finset.mem_univ m₀)
    _ ≤ ∑ n, ∑ m, r n m * ω / (ω ^ 2 + d.pole n m ^ 2) :=
        Finset.single_le_sum (f := fun n => ∑ m, r n m * ω / (ω ^ 2 + d.pole n m ^ 2))
          (fun n _ => Finset.sum_nonneg fun m _ => hnn n m) (Finset.mem_univ n₀)

/-! ### imaginary time -/

/-- imaginary-time Green's function as the library evaluates it -/
noncomputable def EigenData.Gtau (d : EigenData ι) (C CX : Matrix ι ι ℂ) (τ : ℝ) : ℂ :=
  ∑ n, ∑ m, tauTerm d.β (d.res C CX n m) (d.pole n m) τ

/-- closed form of one τ-domain term: the Fermi factor cancels against `w_n + w_m` -/
theorem tauTerm_res (d : EigenData ι) (C CX : Matrix ι ι ℂ) (n m : ι) (τ : ℝ) :
    tauTerm d.β (d.res C CX n m) (d.pole n m) τ
      = -(C n m * CX m n * (d.w n : ℂ) * Complex.exp (-(τ:ℂ) * (d.pole n m : ℂ))) := by
  unfold tauTerm EigenData.res
  have hne : (1 : ℂ) + Complex.exp (-(d.β:ℂ) * (d.pole n m : ℂ)) ≠ 0 := by
    have := one_add_exp_ne_zero (-d.β * d.pole n m)
    push_cast at this
    exact this
  have hw : (d.w m : ℂ)
      = (d.w n : ℂ) * Complex.exp (-(d.β:ℂ) * (d.pole n m : ℂ)) := by
    rw [w_ratio' d n m]; unfold EigenData.pole; push_cast; rfl
  rw [hw, div_eq_iff hne]
  ring

theorem Gtau_closed (d : EigenData ι) (C CX : Matrix ι ι ℂ) (τ : ℝ) :
    d.Gtau C CX τ
      = -∑ n, ∑ m, C n m * CX m n * (d.w n : ℂ) * Complex.exp (-(τ:ℂ) * (d.pole n m : ℂ)) := by
  unfold EigenData.Gtau
  simp_rw [tauTerm_res, Finset.sum_neg_distrib]

/-- it is minus the correlator: G(τ) = −⟨c_i(τ) c†_j(0)⟩ -/
theorem Gtau_eq_corr (d : EigenData ι) (C CX : Matrix ι ι ℂ) (τ : ℝ) :
    d.Gtau C CX τ = -d.corr C CX τ := by
  rw [Gtau_closed, corr_eq_sum]
  congr 1
  refine Finset.sum_congr rfl fun n _ => Finset.sum_congr rfl fun m _ => ?_
  have : Complex.exp ((τ : ℂ) * ((d.E n - d.E m : ℝ) : ℂ))
      = Complex.exp (-(τ:ℂ) * (d.pole n m : ℂ)) := by
    congr 1; unfold EigenData.pole; push_cast; ring
  rw [this]; ring

/-- (e) G_ii(τ) is real and ≤ 0 -/
theorem Gtau_nonpos (d : EigenData ι) (C : Matrix ι ι ℂ) (τ : ℝ) :
    (d.Gtau C Cᴴ τ).im = 0 ∧ (d.Gtau C Cᴴ τ).re ≤ 0 := by
  have h : d.Gtau C Cᴴ τ
      = ((-∑ n, ∑ m, Complex.normSq (C n m) * d.w n * Real.exp (-τ * d.pole n m) : ℝ) : ℂ) := by
    rw [Gtau_closed]
    push_cast
    congr 1
    refine Finset.sum_congr rfl fun n _ => Finset.sum_congr rfl fun m _ => ?_
    rw [conjTranspose_apply, RCLike.star_def, Complex.mul_conj]
  rw [h]
  refine ⟨Complex.ofReal_im _, ?_⟩
  rw [Complex.ofReal_re, neg_nonpos]
  exact Finset.sum_nonneg fun n _ => Finset.sum_nonneg fun m _ =>
    mul_nonneg (mul_nonneg (Complex.normSq_nonneg _) (w_nonneg d n)) (Real.exp_pos _).le

theorem tauTerm_jump (β : ℝ) (R : ℂ) (P : ℝ) :
    tauTerm β R P 0 + tauTerm β R P β = -R := by
  unfold tauTerm
  have hne : (1 : ℂ) + Complex.exp (-(β:ℂ) * (P:ℂ)) ≠ 0 := by
    have := one_add_exp_ne_zero (-β * P)
    push_cast at this
    exact this
  rw [← add_div, div_eq_iff hne]
  simp
  ring

/-- (f) jump: G_ij(0⁺) + G_ij(β⁻) = −Σ residues -/
theorem Gtau_jump (d : EigenData ι) (C CX : Matrix ι ι ℂ) :
    d.Gtau C CX 0 + d.Gtau C CX d.β = -(∑ n, ∑ m, d.res C CX n m) := by
  unfold EigenData.Gtau
  rw [← Finset.sum_add_distrib, ← Finset.sum_neg_distrib]
  refine Finset.sum_congr rfl fun n _ => ?_
  rw [← Finset.sum_add_distrib, ← Finset.sum_neg_distrib]
  exact Finset.sum_congr rfl fun m _ => tauTerm_jump _ _ _

/-- (g) G_ij(β⁻) = −⟨c†_j c_i⟩ = −Tr(ρ · CX · C) -/
theorem Gtau_beta (d : EigenData ι) (C CX : Matrix ι ι ℂ) :
    d.Gtau C CX d.β = -(d.ρ * CX * C).trace := by
  rw [Gtau_closed]
  congr 1
  unfold EigenData.ρ
  rw [Matrix.trace]
  simp only [diag_apply, Matrix.mul_apply (N := C), diagonal_mul]
  rw [Finset.sum_comm]
  refine Finset.sum_congr rfl fun m _ => Finset.sum_congr rfl fun n _ => ?_
  have hw : (d.w m : ℂ)
      = (d.w n : ℂ) * Complex.exp (-(d.β:ℂ) * (d.pole n m : ℂ)) := by
    rw [w_ratio' d n m]; unfold EigenData.pole; push_cast; rfl
  rw [hw]; ring

/-- (h) the frequency values are the forward transform of the τ values -/
theorem Gtau_transform (d : EigenData ι) (C CX : Matrix ι ι ℂ) (k : ℤ) :
    ∫ τ in (0:ℝ)..d.β, d.Gtau C CX τ * Complex.exp (I * (d.ω k : ℂ) * (τ:ℂ))
      = d.lehmannG C CX (I * (d.ω k : ℂ)) := by
  rw [lehmannG_eq]
  unfold EigenData.Gtau
  simp_rw [Finset.sum_mul]
  have hint : ∀ (n m : ι), IntervalIntegrable (fun τ : ℝ =>
      tauTerm d.β (d.res C CX n m) (d.pole n m) τ * Complex.exp (I * (d.ω k : ℂ) * (τ:ℂ)))
      MeasureTheory.volume 0 d.β := by
    intro n m
    apply Continuous.intervalIntegrable
    unfold tauTerm
    fun_prop
  rw [intervalIntegral.integral_finsetSum]
  · refine Finset.sum_congr rfl fun n _ => ?_
    rw [intervalIntegral.integral_finsetSum]
    · exact Finset.sum_congr rfl fun m _ => tauTerm_forward d _ _ k
    · intro m _; exact hint n m
  · intro n _
    apply Continuous.intervalIntegrable
    unfold tauTerm
    fun_prop

end Pomerol.Spec
