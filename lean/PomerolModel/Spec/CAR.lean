/-
  Specification layer for the operator algebra: representations of the canonical
  anticommutation relations (CAR) in an arbitrary algebra, and the denotation of the model's
  monomials / polynomials in such a representation.  The Jordan-Wigner matrices are one instance
  (`Spec/JW.lean`); theorems proved for every `CARRep` hold for them in particular.
-/
import Mathlib.Algebra.Algebra.Basic
import Mathlib.Algebra.BigOperators.Group.List.Basic
import PomerolModel.Model.Operator

namespace Pomerol.Spec
open Pomerol.Model

/-- A representation of the CAR `{c_i, c_j} = 0`, `{c†_i, c†_j} = 0`, `{c_i, c†_j} = δ_ij`
in a `K`-algebra `A`. -/
structure CARRep (K A : Type) [CommRing K] [Ring A] [Algebra K A] where
  c : Nat → A
  cd : Nat → A
  cc : ∀ i j, c i * c j + c j * c i = 0
  cdcd : ∀ i j, cd i * cd j + cd j * cd i = 0
  ccd : ∀ i j, c i * cd j + cd j * c i = if i = j then 1 else 0

variable {K A : Type} [CommRing K] [Ring A] [Algebra K A]

/-- Denotation of one elementary operator. -/
def CARRep.op (r : CARRep K A) (o : Op) : A := if o.ann then r.c o.idx else r.cd o.idx

/-- Denotation of a monomial: the ordered product of its factors. -/
def CARRep.mono (r : CARRep K A) (m : Mono) : A := (m.map r.op).prod

/-- Denotation of a polynomial. -/
def CARRep.poly (r : CARRep K A) (p : Poly K) : A := (p.map fun mc => mc.2 • r.mono mc.1).sum

/-- The exact idealisation of the tolerance tests: "negligible" means "equal to zero". -/
@[reducible] def exactTest (K : Type) [Zero K] [DecidableEq K] : CoefTest K :=
  ⟨fun x => decide (x = 0), fun x => decide (x ≠ 0), fun x => decide (x = 0)⟩

end Pomerol.Spec

-- `open scoped Pomerol.Spec.Exact` makes the exact idealisation the `CoefTest` instance.
namespace Pomerol.Spec.Exact
attribute [scoped instance] Pomerol.Spec.exactTest
end Pomerol.Spec.Exact
