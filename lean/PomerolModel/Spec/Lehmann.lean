/-
  Spectral (Lehmann) representation of the fermionic single-particle Matsubara Green's function.

  * `corr_eq_sum`, `lehmann_single` (C01): Tr(ρ e^{τH} C e^{-τH} C†) integrated against e^{iω_k τ}
    equals the Lehmann sum, for any spectrum / β > 0 / matrices (no `Nonempty` needed).
  * `tauTerm_forward`, `tauTerm_branch` (C11): τ-domain formula of one Lehmann term.
  * `corr_conj`: basis independence under any invertible change of basis.

  Note: in this Mathlib `NormedSpace.exp` takes no scalar-field argument (it is `NormedSpace.exp x`,
  not `NormedSpace.exp ℂ x`); this is the genuine matrix exponential on `Matrix ι ι ℂ`.
-/
import Mathlib.Analysis.SpecialFunctions.Integrals.Basic
import Mathlib.Analysis.Normed.Algebra.MatrixExponential
import Mathlib.Analysis.SpecialFunctions.Exponential
import Mathlib.LinearAlgebra.Matrix.Trace
import Mathlib.Analysis.SpecialFunctions.Exp
import Mathlib.Tactic.Ring
import Mathlib.Tactic.FieldSimp
import Mathlib.Tactic.Linarith

namespace Pomerol.Spec
open Matrix Complex

/-- eigen-data of a finite Hamiltonian: inverse temperature and the eigenvalues -/
structure EigenData (ι : Type) where
  β : ℝ
  hβ : 0 < β
  E : ι → ℝ

variable {ι : Type} [Fintype ι] [DecidableEq ι]

set_option linter.unusedSectionVars false

noncomputable def EigenData.Z (d : EigenData ι) : ℝ := ∑ n, Real.exp (-d.β * d.E n)
noncomputable def EigenData.w (d : EigenData ι) (n : ι) : ℝ := Real.exp (-d.β * d.E n) / d.Z
/-- fermionic Matsubara frequency ω_k = (2k+1)π/β -/
noncomputable def EigenData.ω (d : EigenData ι) (k : ℤ) : ℝ := (2 * (k : ℝ) + 1) * Real.pi / d.β
/-- bosonic Matsubara frequency Ω_k = 2kπ/β -/
noncomputable def EigenData.Ω (d : EigenData ι) (k : ℤ) : ℝ := (2 * (k : ℝ)) * Real.pi / d.β
noncomputable def EigenData.H (d : EigenData ι) : Matrix ι ι ℂ := diagonal fun n => (d.E n : ℂ)
noncomputable def EigenData.ρ (d : EigenData ι) : Matrix ι ι ℂ := diagonal fun n => (d.w n : ℂ)

/-- ⟨A(τ) B(0)⟩ = Tr(ρ e^{τH} A e^{−τH} B) in the eigenbasis (matrix exponentials!) -/
noncomputable def EigenData.corr (d : EigenData ι) (A B : Matrix ι ι ℂ) (τ : ℝ) : ℂ :=
  (d.ρ * NormedSpace.exp ((τ : ℂ) • d.H) * A * NormedSpace.exp ((-(τ : ℂ)) • d.H) * B).trace

/-- G(iω_k) := −∫₀^β ⟨T c(τ) c†(0)⟩ e^{iω_k τ} dτ -/
noncomputable def EigenData.Gdef (d : EigenData ι) (C CX : Matrix ι ι ℂ) (k : ℤ) : ℂ :=
  -∫ τ in (0:ℝ)..d.β, d.corr C CX τ * Complex.exp (I * (d.ω k : ℂ) * (τ : ℂ))

/-- the Lehmann sum as the library evaluates it -/
noncomputable def EigenData.lehmannG (d : EigenData ι) (C CX : Matrix ι ι ℂ) (z : ℂ) : ℂ :=
  ∑ n, ∑ m, C n m * CX m n * ((d.w n : ℂ) + (d.w m : ℂ)) / (z - ((d.E m - d.E n : ℝ) : ℂ))

/-- matrix exponential of a scalar multiple of the diagonal Hamiltonian -/
theorem exp_smul_H (d : EigenData ι) (t : ℂ) :
    NormedSpace.exp (t • d.H) = diagonal fun n => Complex.exp (t * (d.E n : ℂ)) := by
  unfold EigenData.H
  rw [← diagonal_smul, Matrix.exp_diagonal, Pi.exp_def]
  congr 1
  funext n
  rw [Complex.exp_eq_exp_ℂ]
  simp

theorem corr_eq_sum (d : EigenData ι) (A B : Matrix ι ι ℂ) (τ : ℝ) :
    d.corr A B τ = ∑ n, ∑ m, (d.w n : ℂ) * Complex.exp ((τ : ℂ) * ((d.E n - d.E m : ℝ) : ℂ)) * A n m * B m n := by
  unfold EigenData.corr
  rw [exp_smul_H, exp_smul_H]
  unfold EigenData.ρ
  rw [diagonal_mul_diagonal, Matrix.trace]
  simp only [diag_apply, Matrix.mul_apply (N := B), mul_diagonal, diagonal_mul]
  refine Finset.sum_congr rfl fun n _ => Finset.sum_congr rfl fun m _ => ?_
  have : Complex.exp ((τ : ℂ) * ((d.E n - d.E m : ℝ) : ℂ))
      = Complex.exp ((τ : ℂ) * (d.E n : ℂ)) * Complex.exp (-(τ : ℂ) * (d.E m : ℂ)) := by
    rw [← Complex.exp_add]; congr 1; push_cast; ring
  rw [this]; ring

/-! ### basic facts -/

theorem Z_pos [Nonempty ι] (d : EigenData ι) : 0 < d.Z :=
  Finset.sum_pos (fun _ _ => Real.exp_pos _) Finset.univ_nonempty

theorem w_pos [Nonempty ι] (d : EigenData ι) (n : ι) : 0 < d.w n :=
  div_pos (Real.exp_pos _) (Z_pos d)

theorem w_sum [Nonempty ι] (d : EigenData ι) : ∑ n, d.w n = 1 := by
  unfold EigenData.w
  rw [← Finset.sum_div]
  exact div_self (Z_pos d).ne'

/-- holds without `Nonempty` (both sides are `_/0 = 0` then) -/
theorem w_ratio' (d : EigenData ι) (n m : ι) :
    d.w m = d.w n * Real.exp (-d.β * (d.E m - d.E n)) := by
  unfold EigenData.w
  rw [div_mul_eq_mul_div, ← Real.exp_add]
  congr 2; ring

theorem w_ratio [Nonempty ι] (d : EigenData ι) (n m : ι) :
    d.w m = d.w n * Real.exp (-d.β * (d.E m - d.E n)) := w_ratio' d n m

theorem omega_ne_zero (d : EigenData ι) (k : ℤ) : d.ω k ≠ 0 := by
  unfold EigenData.ω
  have h : (2 * (k : ℝ) + 1) ≠ 0 := by
    intro h
    have h' : (2 * k + 1 : ℤ) = 0 := by exact_mod_cast h
    omega
  exact div_ne_zero (mul_ne_zero h Real.pi_ne_zero) d.hβ.ne'

theorem exp_I_omega_beta (d : EigenData ι) (k : ℤ) :
    Complex.exp (I * (d.ω k : ℂ) * (d.β : ℂ)) = -1 := by
  have hβ : (d.β : ℂ) ≠ 0 := by exact_mod_cast d.hβ.ne'
  have : I * (d.ω k : ℂ) * (d.β : ℂ) = (Real.pi : ℂ) * I + (k : ℂ) * (2 * (Real.pi : ℂ) * I) := by
    unfold EigenData.ω
    push_cast
    field_simp
    ring
  rw [this, Complex.exp_add, Complex.exp_pi_mul_I, Complex.exp_int_mul_two_pi_mul_I]
  ring

/-! ### the basic integral -/

theorem one_add_exp_ne_zero (x : ℝ) : (1 : ℂ) + Complex.exp ((x : ℂ)) ≠ 0 := by
  rw [← Complex.ofReal_exp]
  have : (0:ℝ) < 1 + Real.exp x := by positivity
  exact_mod_cast this.ne'

theorem I_omega_sub_ne_zero (d : EigenData ι) (k : ℤ) (P : ℝ) :
    I * (d.ω k : ℂ) - (P : ℂ) ≠ 0 := by
  intro h
  have := congrArg Complex.im h
  simp at this
  exact omega_ne_zero d k this

/-- `∫₀^β e^{-τP} e^{iω_k τ} dτ = -(1 + e^{-βP}) / (iω_k - P)` -/
theorem integral_exp_matsubara (d : EigenData ι) (k : ℤ) (P : ℝ) :
    ∫ τ in (0:ℝ)..d.β, Complex.exp (-(τ:ℂ) * (P:ℂ)) * Complex.exp (I * (d.ω k : ℂ) * (τ:ℂ))
      = -(1 + Complex.exp (-(d.β:ℂ) * (P:ℂ))) / (I * (d.ω k : ℂ) - (P:ℂ)) := by
  have hc := I_omega_sub_ne_zero d k P
  have h1 : ∀ τ : ℝ, Complex.exp (-(τ:ℂ) * (P:ℂ)) * Complex.exp (I * (d.ω k : ℂ) * (τ:ℂ))
      = Complex.exp ((I * (d.ω k : ℂ) - (P:ℂ)) * (τ:ℂ)) := by
    intro τ; rw [← Complex.exp_add]; congr 1; ring
  simp_rw [h1]
  rw [integral_exp_mul_complex hc]
  have h2 : Complex.exp ((I * (d.ω k : ℂ) - (P:ℂ)) * (d.β:ℂ))
      = - Complex.exp (-(d.β:ℂ) * (P:ℂ)) := by
    have : (I * (d.ω k : ℂ) - (P:ℂ)) * (d.β:ℂ)
        = I * (d.ω k : ℂ) * (d.β : ℂ) + -(d.β:ℂ) * (P:ℂ) := by ring
    rw [this, Complex.exp_add, exp_I_omega_beta]; ring
  rw [h2]
  simp only [Complex.ofReal_zero, mul_zero, Complex.exp_zero]
  congr 1; ring

/-! ### main theorem -/

/-- MAIN THEOREM (C01): the definition equals the Lehmann sum at every fermionic Matsubara
frequency, for every spectrum (degenerate or not), every β > 0, every pair of matrices. -/
theorem lehmann_single (d : EigenData ι) (C CX : Matrix ι ι ℂ) (k : ℤ) :
    d.Gdef C CX k = d.lehmannG C CX (I * (d.ω k : ℂ)) := by
  unfold EigenData.Gdef EigenData.lehmannG
  -- rewrite the integrand as a finite double sum of exponentials
  have hI : ∀ τ : ℝ, d.corr C CX τ * Complex.exp (I * (d.ω k : ℂ) * (τ : ℂ))
      = ∑ n, ∑ m, ((d.w n : ℂ) * C n m * CX m n) *
          (Complex.exp (-(τ:ℂ) * ((d.E m - d.E n : ℝ) : ℂ))
            * Complex.exp (I * (d.ω k : ℂ) * (τ:ℂ))) := by
    intro τ
    rw [corr_eq_sum, Finset.sum_mul]
    refine Finset.sum_congr rfl fun n _ => ?_
    rw [Finset.sum_mul]
    refine Finset.sum_congr rfl fun m _ => ?_
    have : Complex.exp ((τ : ℂ) * ((d.E n - d.E m : ℝ) : ℂ))
        = Complex.exp (-(τ:ℂ) * ((d.E m - d.E n : ℝ) : ℂ)) := by
      congr 1; push_cast; ring
    rw [this]; ring
  simp_rw [hI]
  have hint : ∀ (n m : ι), IntervalIntegrable (fun τ : ℝ =>
      ((d.w n : ℂ) * C n m * CX m n) *
          (Complex.exp (-(τ:ℂ) * ((d.E m - d.E n : ℝ) : ℂ))
            * Complex.exp (I * (d.ω k : ℂ) * (τ:ℂ)))) MeasureTheory.volume 0 d.β := by
    intro n m
    apply Continuous.intervalIntegrable
    fun_prop
  rw [intervalIntegral.integral_finsetSum]
  · rw [← Finset.sum_neg_distrib]
    refine Finset.sum_congr rfl fun n _ => ?_
    rw [intervalIntegral.integral_finsetSum]
    · rw [← Finset.sum_neg_distrib]
      refine Finset.sum_congr rfl fun m _ => ?_
      rw [intervalIntegral.integral_const_mul, integral_exp_matsubara]
      have hc := I_omega_sub_ne_zero d k (d.E m - d.E n)
      have hw : (d.w m : ℂ)
          = (d.w n : ℂ) * Complex.exp (-(d.β:ℂ) * ((d.E m - d.E n : ℝ) : ℂ)) := by
        rw [w_ratio' d n m]; push_cast; rfl
      rw [hw]
      field_simp
    · intro m _; exact hint n m
  · intro n _
    apply Continuous.intervalIntegrable
    fun_prop

/-! ### τ-domain duality (C11) -/

/-- the library's imaginary-time formula for one Lehmann term, residue R, pole P
(both overflow-safe branches are this function) -/
noncomputable def tauTerm (β : ℝ) (R : ℂ) (P : ℝ) (τ : ℝ) : ℂ :=
  -R * Complex.exp (-(τ:ℂ) * (P:ℂ)) / (1 + Complex.exp (-(β:ℂ) * (P:ℂ)))

theorem tauTerm_forward (d : EigenData ι) (R : ℂ) (P : ℝ) (k : ℤ) :
    ∫ τ in (0:ℝ)..d.β, tauTerm d.β R P τ * Complex.exp (I * (d.ω k : ℂ) * (τ:ℂ))
      = R / (I * (d.ω k : ℂ) - (P:ℂ)) := by
  have hc := I_omega_sub_ne_zero d k P
  have hne : (1 : ℂ) + Complex.exp (-(d.β:ℂ) * (P:ℂ)) ≠ 0 := by
    have := one_add_exp_ne_zero (-d.β * P)
    push_cast at this
    exact this
  have h1 : ∀ τ : ℝ, tauTerm d.β R P τ * Complex.exp (I * (d.ω k : ℂ) * (τ:ℂ))
      = (-R / (1 + Complex.exp (-(d.β:ℂ) * (P:ℂ)))) *
        (Complex.exp (-(τ:ℂ) * (P:ℂ)) * Complex.exp (I * (d.ω k : ℂ) * (τ:ℂ))) := by
    intro τ; unfold tauTerm; ring
  simp_rw [h1]
  rw [intervalIntegral.integral_const_mul, integral_exp_matsubara]
  rw [neg_div, neg_div, neg_mul_neg, div_mul_div_comm, mul_comm R, mul_div_mul_left _ _ hne]

theorem tauTerm_branch (β : ℝ) (R : ℂ) (P : ℝ) (τ : ℝ) :
    tauTerm β R P τ
      = -R * Complex.exp (((β:ℂ) - (τ:ℂ)) * (P:ℂ)) / (Complex.exp ((β:ℂ) * (P:ℂ)) + 1) := by
  unfold tauTerm
  have hne : (1 : ℂ) + Complex.exp (-(β:ℂ) * (P:ℂ)) ≠ 0 := by
    have := one_add_exp_ne_zero (-β * P)
    push_cast at this
    exact this
  have hne' : Complex.exp ((β:ℂ) * (P:ℂ)) + 1 ≠ 0 := by
    have := one_add_exp_ne_zero (β * P)
    push_cast at this
    rwa [add_comm] at this
  have h1 : Complex.exp (((β:ℂ) - (τ:ℂ)) * (P:ℂ))
      = Complex.exp ((β:ℂ) * (P:ℂ)) * Complex.exp (-(τ:ℂ) * (P:ℂ)) := by
    rw [← Complex.exp_add]; congr 1; ring
  have h2 : Complex.exp (-(β:ℂ) * (P:ℂ)) * Complex.exp ((β:ℂ) * (P:ℂ)) = 1 := by
    rw [← Complex.exp_add]; simp
  rw [h1, div_eq_div_iff hne hne']
  linear_combination (R * Complex.exp (-(τ:ℂ) * (P:ℂ))) * h2

/-! ### basis independence -/

theorem corr_conj (d : EigenData ι) (V : Matrix ι ι ℂ) (hV : IsUnit V) (A B : Matrix ι ι ℂ) (τ : ℝ) :
    ((V * d.ρ * V⁻¹) * NormedSpace.exp ((τ : ℂ) • (V * d.H * V⁻¹)) * (V * A * V⁻¹)
        * NormedSpace.exp ((-(τ : ℂ)) • (V * d.H * V⁻¹)) * (V * B * V⁻¹)).trace = d.corr A B τ := by
  unfold EigenData.corr
  have hdet : IsUnit V.det := (Matrix.isUnit_iff_isUnit_det V).mp hV
  have hVV : V⁻¹ * V = 1 := Matrix.nonsing_inv_mul V hdet
  have hs : ∀ t : ℂ, t • (V * d.H * V⁻¹) = V * (t • d.H) * V⁻¹ := by
    intro t; rw [Matrix.mul_smul, Matrix.smul_mul]
  rw [hs, hs, Matrix.exp_conj _ _ hV, Matrix.exp_conj _ _ hV]
  have key : ∀ X Y : Matrix ι ι ℂ, (V * X * V⁻¹) * (V * Y * V⁻¹) = V * (X * Y) * V⁻¹ := by
    intro X Y
    calc (V * X * V⁻¹) * (V * Y * V⁻¹) = V * X * (V⁻¹ * V) * Y * V⁻¹ := by
          simp only [Matrix.mul_assoc]
      _ = V * (X * Y) * V⁻¹ := by rw [hVV, Matrix.mul_one, Matrix.mul_assoc V X Y]
  rw [key, key, key, key, Matrix.trace_mul_comm, ← Matrix.mul_assoc, hVV, Matrix.one_mul]

end Pomerol.Spec

