/-
  The first-come identification of quantum numbers that agree within a tolerance
  (`StatesClassification::compute`, models `snap`, `snapRow`, `snapAll` of `Model/Symm.lean`):
  nothing changes under exact comparison, every value is replaced by a raw value of an
  earlier-or-equal state it is close to, equal raw values are never separated, and when `close`
  is an equivalence on the occurring values the identification groups exactly the close ones.
  Core Lean only.
-/
import PomerolModel.Model.Symm

namespace Pomerol.Spec.Snap
open Pomerol.Model.Symm

variable {Q : Type}

/-- raw/snapped value of operation `n` for state `s` -/
def entry {Q : Type} (rows : List (List Q)) (s n : Nat) : Option Q := (rows[s]?).bind (·[n]?)

/-- every row lists one value per operation -/
def WellShaped {Q : Type} (nops : Nat) (rows : List (List Q)) : Prop := ∀ r ∈ rows, r.length = nops

/-- the values of operation `n`, in the order of the states -/
def col {Q : Type} (rows : List (List Q)) (n : Nat) : List Q := rows.filterMap (·[n]?)

/-- `close` is an equivalence relation on the values listed in `l` -/
structure IsEquivOn {Q : Type} (close : Q → Q → Bool) (l : List Q) : Prop where
  refl : ∀ a ∈ l, close a a = true
  symm : ∀ a ∈ l, ∀ b ∈ l, close a b = true → close b a = true
  trans : ∀ a ∈ l, ∀ b ∈ l, ∀ c ∈ l, close a b = true → close b c = true → close a c = true

/-! ### one value -/

section Snap
variable (close : Q → Q → Bool)

theorem snap_some {known : List Q} {v k : Q} (h : known.find? (fun k => close v k) = some k) :
    snap close known v = (k, known) := by
  unfold snap; rw [h]

theorem snap_none {known : List Q} {v : Q} (h : known.find? (fun k => close v k) = none) :
    snap close known v = (v, known ++ [v]) := by
  unfold snap; rw [h]

theorem snap_fst_mem_or (known : List Q) (v : Q) :
    (snap close known v).1 ∈ known ∨ (snap close known v).1 = v := by
  cases h : known.find? (fun k => close v k) with
  | some k => rw [snap_some close h]; exact Or.inl (List.mem_of_find?_eq_some h)
  | none => rw [snap_none close h]; exact Or.inr rfl

theorem snap_snd_mem (known : List Q) (v x : Q) (hx : x ∈ (snap close known v).2) :
    x ∈ known ∨ x = v := by
  cases h : known.find? (fun k => close v k) with
  | some k => rw [snap_some close h] at hx; exact Or.inl hx
  | none =>
    rw [snap_none close h] at hx
    rcases List.mem_append.1 hx with hx | hx
    · exact Or.inl hx
    · exact Or.inr (List.mem_singleton.1 hx)

theorem snap_snd_append (known : List Q) (v : Q) :
    ∃ e, (snap close known v).2 = known ++ e := by
  cases h : known.find? (fun k => close v k) with
  | some k => rw [snap_some close h]; exact ⟨[], (List.append_nil _).symm⟩
  | none => rw [snap_none close h]; exact ⟨[v], rfl⟩

theorem snap_close (known : List Q) (v : Q) (hv : close v v = true) :
    close v (snap close known v).1 = true := by
  cases h : known.find? (fun k => close v k) with
  | some k => rw [snap_some close h]; exact List.find?_some h
  | none => rw [snap_none close h]; exact hv

theorem snap_exact [DecidableEq Q] (known : List Q) (v : Q) :
    (snap (fun a b => decide (a = b)) known v).1 = v := by
  cases h : known.find? (fun k => decide (v = k)) with
  | some k =>
    rw [snap_some _ h]
    have := List.find?_some h
    exact (of_decide_eq_true this).symm
  | none => rw [snap_none _ h]

theorem find?_congr' {p q : Q → Bool} (l : List Q) (h : ∀ k, k ∈ l → p k = q k) :
    l.find? p = l.find? q := by
  induction l with
  | nil => rfl
  | cons x l ih =>
    simp only [List.find?_cons, h x List.mem_cons_self]
    rw [ih (fun k hk => h k (List.mem_cons_of_mem _ hk))]

/-- after `v` has been processed, every `w` that is close to `v` and that judges the known values
like `v` does finds the representative of `v` first -/
theorem snap_find (known : List Q) (v w : Q) (hc : close w v = true)
    (hk : ∀ k, k ∈ known → close v k = close w k) :
    (snap close known v).2.find? (fun k => close w k) = some (snap close known v).1 := by
  have hcongr : known.find? (fun k => close w k) = known.find? (fun k => close v k) :=
    find?_congr' known (fun k hk' => (hk k hk').symm)
  cases h : known.find? (fun k => close v k) with
  | some k => rw [snap_some close h]; rw [hcongr]; exact h
  | none =>
    rw [snap_none close h]
    rw [h] at hcongr
    simp only [List.find?_append, hcongr, List.find?_cons, hc, Option.none_or]

end Snap

/-! ### one operation: the column of its values -/

/-- the values used for a column `vs`, starting from the known values `known` -/
def colOut (close : Q → Q → Bool) : List Q → List Q → List Q
  | _, [] => []
  | known, v :: vs => (snap close known v).1 :: colOut close (snap close known v).2 vs

section Column
variable (close : Q → Q → Bool)

theorem colOut_length (known vs : List Q) : (colOut close known vs).length = vs.length := by
  induction vs generalizing known with
  | nil => rfl
  | cons v vs ih => simp only [colOut, List.length_cons, ih]

theorem colOut_exact [DecidableEq Q] (known vs : List Q) :
    colOut (fun a b => decide (a = b)) known vs = vs := by
  induction vs generalizing known with
  | nil => rfl
  | cons v vs ih => simp only [colOut, snap_exact, ih]

theorem colOut_close (known vs : List Q) (i : Nat) (v : Q) (hv : vs[i]? = some v)
    (hr : close v v = true) :
    ∃ v', (colOut close known vs)[i]? = some v' ∧ close v v' = true := by
  induction vs generalizing known i with
  | nil => simp at hv
  | cons x vs ih =>
    cases i with
    | zero =>
      simp only [List.getElem?_cons_zero, Option.some.injEq] at hv
      subst hv
      exact ⟨_, by simp only [colOut, List.getElem?_cons_zero], snap_close close known x hr⟩
    | succ i =>
      simp only [List.getElem?_cons_succ] at hv
      simpa only [colOut, List.getElem?_cons_succ] using ih _ i hv

theorem colOut_raw (known vs : List Q) (i : Nat) (v' : Q)
    (hv : (colOut close known vs)[i]? = some v') :
    v' ∈ known ∨ ∃ j, j ≤ i ∧ vs[j]? = some v' := by
  induction vs generalizing known i with
  | nil => simp [colOut] at hv
  | cons x vs ih =>
    cases i with
    | zero =>
      simp only [colOut, List.getElem?_cons_zero, Option.some.injEq] at hv
      subst hv
      rcases snap_fst_mem_or close known x with h | h
      · exact Or.inl h
      · exact Or.inr ⟨0, Nat.le_refl _, by simp only [List.getElem?_cons_zero, h]⟩
    | succ i =>
      simp only [colOut, List.getElem?_cons_succ] at hv
      rcases ih _ i hv with h | ⟨j, hj, h⟩
      · rcases snap_snd_mem close known x v' h with h | h
        · exact Or.inl h
        · exact Or.inr ⟨0, Nat.zero_le _, by simp only [List.getElem?_cons_zero, h]⟩
      · exact Or.inr ⟨j + 1, Nat.succ_le_succ hj, by simpa only [List.getElem?_cons_succ] using h⟩

theorem colOut_mem (known vs : List Q) (i : Nat) (v' : Q)
    (hv : (colOut close known vs)[i]? = some v') : v' ∈ known ++ vs := by
  rcases colOut_raw close known vs i v' hv with h | ⟨j, _, h⟩
  · exact List.mem_append_left _ h
  · exact List.mem_append_right _ (List.mem_of_getElem? h)

/-- a value whose first close known value is `k` is replaced by `k`, wherever it occurs later -/
theorem colOut_of_find (known vs : List Q) (w k : Q)
    (hf : known.find? (fun k => close w k) = some k) (j : Nat) (hj : vs[j]? = some w) :
    (colOut close known vs)[j]? = some k := by
  induction vs generalizing known j with
  | nil => simp at hj
  | cons x vs ih =>
    cases j with
    | zero =>
      simp only [List.getElem?_cons_zero, Option.some.injEq] at hj
      subst hj
      simp only [colOut, List.getElem?_cons_zero, snap_some close hf]
    | succ j =>
      simp only [List.getElem?_cons_succ] at hj
      simp only [colOut, List.getElem?_cons_succ]
      refine ih _ ?_ j hj
      obtain ⟨e, he⟩ := snap_snd_append close known x
      rw [he, List.find?_append, hf]; rfl

/-- a later value `w` which is close to an earlier value `v`, and which judges all values like `v`
does, gets the representative of `v` -/
theorem colOut_link (known vs : List Q) (v w : Q) (hc : close w v = true)
    (hk : ∀ k, k ∈ known ++ vs → close v k = close w k)
    (i j : Nat) (hij : i ≤ j) (hi : vs[i]? = some v) (hj : vs[j]? = some w) :
    (colOut close known vs)[i]? = (colOut close known vs)[j]? := by
  induction vs generalizing known i j with
  | nil => simp at hi
  | cons x vs ih =>
    cases i with
    | zero =>
      cases j with
      | zero => rfl
      | succ j =>
        simp only [List.getElem?_cons_zero, Option.some.injEq] at hi
        subst hi
        simp only [List.getElem?_cons_succ] at hj
        simp only [colOut, List.getElem?_cons_zero, List.getElem?_cons_succ]
        refine (colOut_of_find close _ vs w _ ?_ j hj).symm
        exact snap_find close known x w hc (fun k hk' => hk k (List.mem_append_left _ hk'))
    | succ i =>
      cases j with
      | zero => exact absurd hij (Nat.not_succ_le_zero _)
      | succ j =>
        simp only [List.getElem?_cons_succ] at hi hj
        simp only [colOut, List.getElem?_cons_succ]
        refine ih _ ?_ i j (Nat.le_of_succ_le_succ hij) hi hj
        intro k hk'
        apply hk
        rcases List.mem_append.1 hk' with h | h
        · rcases snap_snd_mem close known x k h with h | h
          · exact List.mem_append_left _ h
          · exact List.mem_append_right _ (h ▸ List.mem_cons_self)
        · exact List.mem_append_right _ (List.mem_cons_of_mem _ h)

/-- equal raw values get the same representative -/
theorem colOut_stable (known vs : List Q) (v : Q) (hr : close v v = true) (i j : Nat)
    (hi : vs[i]? = some v) (hj : vs[j]? = some v) :
    (colOut close known vs)[i]? = (colOut close known vs)[j]? := by
  rcases Nat.le_total i j with h | h
  · exact colOut_link close known vs v v hr (fun _ _ => rfl) i j h hi hj
  · exact (colOut_link close known vs v v hr (fun _ _ => rfl) j i h hj hi).symm

/-- when `close` is an equivalence on the values of the column, two values get the same
representative iff they are close -/
theorem colOut_iff_close (vs : List Q) (he : IsEquivOn close vs) (i j : Nat) (v w : Q)
    (hi : vs[i]? = some v) (hj : vs[j]? = some w) :
    (colOut close [] vs)[i]? = (colOut close [] vs)[j]? ↔ close v w = true := by
  have hvm : v ∈ vs := List.mem_of_getElem? hi
  have hwm : w ∈ vs := List.mem_of_getElem? hj
  constructor
  · intro h
    obtain ⟨v', hv', hcv⟩ := colOut_close close [] vs i v hi (he.refl v hvm)
    obtain ⟨w', hw', hcw⟩ := colOut_close close [] vs j w hj (he.refl w hwm)
    have hvw : v' = w' := by rw [hv', hw'] at h; exact Option.some.inj h
    subst hvw
    have hm : v' ∈ vs := by simpa only [List.nil_append] using colOut_mem close [] vs i v' hv'
    exact he.trans v hvm v' hm w hwm hcv (he.symm w hwm v' hm hcw)
  · intro h
    have h' : close w v = true := he.symm v hvm w hwm h
    have key : ∀ k, k ∈ [] ++ vs → close v k = close w k := by
      intro k hk
      have hkm : k ∈ vs := by simpa only [List.nil_append] using hk
      rw [Bool.eq_iff_iff]
      exact ⟨fun hvk => he.trans w hwm v hvm k hkm h' hvk,
        fun hwk => he.trans v hvm w hwm k hkm h hwk⟩
    rcases Nat.le_total i j with hij | hij
    · exact colOut_link close [] vs v w h' key i j hij hi hj
    · exact (colOut_link close [] vs w v h (fun k hk => (key k hk).symm) j i hij hj hi).symm

end Column

/-! ### one Fock state: the operations are processed independently -/

section Row
variable (close : Q → Q → Bool)

theorem snapRow_getElem? (ks : List (List Q)) (vs : List Q) (n : Nat) (k : List Q) (v : Q)
    (hk : ks[n]? = some k) (hv : vs[n]? = some v) :
    (snapRow close ks vs).1[n]? = some (snap close k v).1 ∧
    (snapRow close ks vs).2[n]? = some (snap close k v).2 := by
  induction ks generalizing vs n with
  | nil => simp at hk
  | cons k0 ks ih =>
    cases vs with
    | nil => simp at hv
    | cons v0 vs =>
      cases n with
      | zero =>
        simp only [List.getElem?_cons_zero, Option.some.injEq] at hk hv
        subst hk; subst hv
        simp only [snapRow, List.getElem?_cons_zero, and_self]
      | succ n =>
        simp only [List.getElem?_cons_succ] at hk hv
        simpa only [snapRow, List.getElem?_cons_succ] using ih vs n hk hv

theorem snapRow_length (ks : List (List Q)) (vs : List Q) (h : ks.length = vs.length) :
    (snapRow close ks vs).1.length = vs.length ∧ (snapRow close ks vs).2.length = ks.length := by
  induction ks generalizing vs with
  | nil => simp [snapRow]
  | cons k0 ks ih =>
    cases vs with
    | nil => simp at h
    | cons v0 vs =>
      have := ih vs (Nat.succ.inj h)
      simp only [snapRow, List.length_cons, this, and_self]

end Row

/-! ### all Fock states -/

/-- `snapAll` as a recursion: the replaced rows, starting from the known values `ks` -/
def go (close : Q → Q → Bool) : List (List Q) → List (List Q) → List (List Q)
  | _, [] => []
  | ks, row :: rows => (snapRow close ks row).1 :: go close (snapRow close ks row).2 rows

section All
variable (close : Q → Q → Bool)

theorem foldl_eq_go (acc ks rows : List (List Q)) :
    (rows.foldl (fun (acc : List (List Q) × List (List Q)) row =>
      let r := snapRow close acc.2 row
      (acc.1 ++ [r.1], r.2)) (acc, ks)).1 = acc ++ go close ks rows := by
  induction rows generalizing acc ks with
  | nil => simp only [List.foldl_nil, go, List.append_nil]
  | cons row rows ih =>
    simp only [List.foldl_cons, go]
    rw [ih]
    simp only [List.append_assoc, List.singleton_append]

theorem snapAll_eq_go (nops : Nat) (rows : List (List Q)) :
    snapAll close nops rows = go close (List.replicate nops []) rows := by
  unfold snapAll
  rw [foldl_eq_go]; rfl

theorem go_length (ks rows : List (List Q)) : (go close ks rows).length = rows.length := by
  induction rows generalizing ks with
  | nil => rfl
  | cons row rows ih => simp only [go, List.length_cons, ih]

theorem wellShaped_cons {nops : Nat} {row : List Q} {rows : List (List Q)} :
    WellShaped nops (row :: rows) ↔ row.length = nops ∧ WellShaped nops rows := by
  simp only [WellShaped, List.mem_cons, forall_eq_or_imp]

theorem go_wellShaped (nops : Nat) (ks rows : List (List Q)) (hk : ks.length = nops)
    (h : WellShaped nops rows) : WellShaped nops (go close ks rows) := by
  induction rows generalizing ks with
  | nil => intro r hr; simp [go] at hr
  | cons row rows ih =>
    obtain ⟨h1, h2⟩ := wellShaped_cons.1 h
    have hl := snapRow_length close ks row (hk.trans h1.symm)
    simp only [go]
    exact wellShaped_cons.2 ⟨hl.1.trans h1, ih _ (hl.2.trans hk) h2⟩

theorem entry_cons_zero (row : List Q) (rows : List (List Q)) (n : Nat) :
    entry (row :: rows) 0 n = row[n]? := by
  simp only [entry, List.getElem?_cons_zero, Option.bind_some]

theorem entry_cons_succ (row : List Q) (rows : List (List Q)) (s n : Nat) :
    entry (row :: rows) (s + 1) n = entry rows s n := by
  simp only [entry, List.getElem?_cons_succ]

theorem entry_some_lt {nops : Nat} {rows : List (List Q)} (h : WellShaped nops rows) {s n : Nat}
    {v : Q} (hv : entry rows s n = some v) : s < rows.length ∧ n < nops := by
  unfold entry at hv
  cases hr : rows[s]? with
  | none => rw [hr] at hv; simp at hv
  | some r =>
    rw [hr] at hv
    simp only [Option.bind_some] at hv
    have hs : s < rows.length := (List.getElem?_eq_some_iff.1 hr).1
    have hn : n < r.length := (List.getElem?_eq_some_iff.1 hv).1
    exact ⟨hs, h r (List.mem_of_getElem? hr) ▸ hn⟩

/-- under well-shapedness the entries of operation `n` are the elements of the column -/
theorem entry_eq_col {nops : Nat} {rows : List (List Q)} (h : WellShaped nops rows) (s n : Nat)
    (hn : n < nops) : entry rows s n = (col rows n)[s]? := by
  induction rows generalizing s with
  | nil => simp [entry, col]
  | cons row rows ih =>
    obtain ⟨h1, h2⟩ := wellShaped_cons.1 h
    have hlt : n < row.length := h1 ▸ hn
    have hc : col (row :: rows) n = row[n] :: col rows n := by
      simp only [col, List.filterMap_cons, List.getElem?_eq_getElem hlt]
    rw [hc]
    cases s with
    | zero => simp only [entry_cons_zero, List.getElem?_cons_zero, List.getElem?_eq_getElem hlt]
    | succ s => simp only [entry_cons_succ, List.getElem?_cons_succ]; exact ih h2 s

/-- the rows decompose column-wise -/
theorem go_entry {nops : Nat} (ks rows : List (List Q)) (hk : ks.length = nops)
    (h : WellShaped nops rows) (s n : Nat) (k : List Q) (hkn : ks[n]? = some k) :
    entry (go close ks rows) s n = (colOut close k (col rows n))[s]? := by
  have hn : n < nops := hk ▸ (List.getElem?_eq_some_iff.1 hkn).1
  induction rows generalizing ks s k with
  | nil => simp [entry, col, go, colOut]
  | cons row rows ih =>
    obtain ⟨h1, h2⟩ := wellShaped_cons.1 h
    have hlt : n < row.length := h1 ▸ hn
    have hc : col (row :: rows) n = row[n] :: col rows n := by
      simp only [col, List.filterMap_cons, List.getElem?_eq_getElem hlt]
    have hl := snapRow_length close ks row (hk.trans h1.symm)
    have hg := snapRow_getElem? close ks row n k row[n] hkn (List.getElem?_eq_getElem hlt)
    rw [hc]
    simp only [go, colOut]
    cases s with
    | zero => simp only [entry_cons_zero, List.getElem?_cons_zero, hg.1]
    | succ s =>
      simp only [entry_cons_succ, List.getElem?_cons_succ]
      exact ih _ (hl.2.trans hk) h2 s _ hg.2

/-- the entries of `snapAll` are the first-come identification of the column -/
theorem snapAll_entry {nops : Nat} {rows : List (List Q)} (h : WellShaped nops rows) (s n : Nat)
    (hn : n < nops) :
    entry (snapAll close nops rows) s n = (colOut close [] (col rows n))[s]? := by
  rw [snapAll_eq_go]
  refine go_entry close _ rows List.length_replicate h s n [] ?_
  rw [List.getElem?_replicate, if_pos hn]

end All

/-! ### the theorems -/

section Main
variable {close : Q → Q → Bool} {nops : Nat} {rows : List (List Q)}

/-- 1a. one replaced row per Fock state -/
theorem snapAll_length : (snapAll close nops rows).length = rows.length := by
  rw [snapAll_eq_go, go_length]

/-- 1b. every replaced row lists one value per operation -/
theorem snapAll_wellShaped (h : WellShaped nops rows) :
    WellShaped nops (snapAll close nops rows) := by
  rw [snapAll_eq_go]
  exact go_wellShaped close nops _ rows List.length_replicate h

/-- 2. exact comparison: nothing changes -/
theorem snapAll_exact [DecidableEq Q] (h : WellShaped nops rows) :
    snapAll (fun a b => decide (a = b)) nops rows = rows := by
  have hw := snapAll_wellShaped (close := fun a b => decide (a = b)) h
  have hentry : ∀ s n, entry (snapAll (fun a b => decide (a = b)) nops rows) s n = entry rows s n := by
    intro s n
    by_cases hn : n < nops
    · rw [snapAll_entry _ h s n hn, colOut_exact, entry_eq_col h s n hn]
    · cases h1 : entry (snapAll (fun a b => decide (a = b)) nops rows) s n with
      | some v => exact absurd (entry_some_lt hw h1).2 hn
      | none =>
        cases h2 : entry rows s n with
        | some v => exact absurd (entry_some_lt h h2).2 hn
        | none => rfl
  apply List.ext_getElem?
  intro s
  by_cases hs : s < rows.length
  · have hs' : s < (snapAll (fun a b => decide (a = b)) nops rows).length := by
      rw [snapAll_length]; exact hs
    rw [List.getElem?_eq_getElem hs, List.getElem?_eq_getElem hs']
    congr 1
    apply List.ext_getElem?
    intro n
    have := hentry s n
    simpa only [entry, List.getElem?_eq_getElem hs, List.getElem?_eq_getElem hs',
      Option.bind_some] using this
  · have hs' : ¬ s < (snapAll (fun a b => decide (a = b)) nops rows).length := by
      rw [snapAll_length]; exact hs
    rw [List.getElem?_eq_none (Nat.le_of_not_lt hs), List.getElem?_eq_none (Nat.le_of_not_lt hs')]

/-- 3. every value is replaced by a value it is close to -/
theorem snapAll_close (hrefl : ∀ v, close v v = true) (h : WellShaped nops rows) (s n : Nat)
    (v : Q) (hv : entry rows s n = some v) :
    ∃ v', entry (snapAll close nops rows) s n = some v' ∧ close v v' = true := by
  have hn := (entry_some_lt h hv).2
  rw [snapAll_entry close h s n hn]
  rw [entry_eq_col h s n hn] at hv
  exact colOut_close close [] _ s v hv (hrefl v)

/-- 4. the representative is the raw value of an earlier-or-equal state -/
theorem snapAll_representative_is_raw (h : WellShaped nops rows) (s n : Nat) (v' : Q)
    (hv : entry (snapAll close nops rows) s n = some v') :
    ∃ t, t ≤ s ∧ entry rows t n = some v' := by
  have hn := (entry_some_lt (snapAll_wellShaped h) hv).2
  rw [snapAll_entry close h s n hn] at hv
  rcases colOut_raw close [] _ s v' hv with hm | ⟨j, hj, hm⟩
  · simp at hm
  · exact ⟨j, hj, by rw [entry_eq_col h j n hn]; exact hm⟩

/-- 5. equal raw values get the same representative.  (Reflexivity of `close` at the value is
needed: see the counterexample below.) -/
theorem snapAll_stable (hrefl : ∀ v, close v v = true) (h : WellShaped nops rows) (s t n : Nat)
    (v : Q) (hs : entry rows s n = some v) (ht : entry rows t n = some v) :
    entry (snapAll close nops rows) s n = entry (snapAll close nops rows) t n := by
  have hn := (entry_some_lt h hs).2
  rw [snapAll_entry close h s n hn, snapAll_entry close h t n hn]
  rw [entry_eq_col h s n hn] at hs
  rw [entry_eq_col h t n hn] at ht
  exact colOut_stable close [] _ v (hrefl v) s t hs ht

/-- 6. when `close` is an equivalence on the occurring values of operation `n`, two states get the
same representative iff their raw values are close -/
theorem snapAll_iff_close {n : Nat} (h : WellShaped nops rows) (he : IsEquivOn close (col rows n))
    (s t : Nat) (v w : Q) (hs : entry rows s n = some v) (ht : entry rows t n = some w) :
    (entry (snapAll close nops rows) s n = entry (snapAll close nops rows) t n) ↔
      close v w = true := by
  have hn := (entry_some_lt h hs).2
  rw [snapAll_entry close h s n hn, snapAll_entry close h t n hn]
  rw [entry_eq_col h s n hn] at hs
  rw [entry_eq_col h t n hn] at ht
  exact colOut_iff_close close _ he s t v w hs ht

/-- 7. two states have equal replaced rows iff all their raw entries are pairwise close -/
theorem snapAll_rows_iff (h : WellShaped nops rows)
    (he : ∀ n, n < nops → IsEquivOn close (col rows n)) (s t : Nat) (hs : s < rows.length)
    (ht : t < rows.length) :
    (snapAll close nops rows)[s]? = (snapAll close nops rows)[t]? ↔
      ∀ n, n < nops → ∃ v w, entry rows s n = some v ∧ entry rows t n = some w ∧
        close v w = true := by
  have hw := snapAll_wellShaped (close := close) h
  have hs' : s < (snapAll close nops rows).length := by rw [snapAll_length]; exact hs
  have ht' : t < (snapAll close nops rows).length := by rw [snapAll_length]; exact ht
  have raw : ∀ u, (hu : u < rows.length) → ∀ n, n < nops → ∃ v, entry rows u n = some v := by
    intro u hu n hn
    have hl : n < (rows[u]).length := (h _ (List.getElem_mem hu)) ▸ hn
    exact ⟨(rows[u])[n], by
      simp only [entry, List.getElem?_eq_getElem hu, Option.bind_some, List.getElem?_eq_getElem hl]⟩
  have hrow : (snapAll close nops rows)[s]? = (snapAll close nops rows)[t]? ↔
      ∀ n, entry (snapAll close nops rows) s n = entry (snapAll close nops rows) t n := by
    simp only [entry, List.getElem?_eq_getElem hs', List.getElem?_eq_getElem ht',
      Option.bind_some, Option.some.injEq]
    exact ⟨fun e n => by rw [e], fun e => List.ext_getElem? e⟩
  rw [hrow]
  constructor
  · intro e n hn
    obtain ⟨v, hv⟩ := raw s hs n hn
    obtain ⟨w, hw⟩ := raw t ht n hn
    exact ⟨v, w, hv, hw, (snapAll_iff_close h (he n hn) s t v w hv hw).1 (e n)⟩
  · intro e n
    by_cases hn : n < nops
    · obtain ⟨v, w, hv, hw, hc⟩ := e n hn
      exact (snapAll_iff_close h (he n hn) s t v w hv hw).2 hc
    · cases h1 : entry (snapAll close nops rows) s n with
      | some v => exact absurd (entry_some_lt hw h1).2 hn
      | none =>
        cases h2 : entry (snapAll close nops rows) t n with
        | some v => exact absurd (entry_some_lt hw h2).2 hn
        | none => rfl

end Main

/-! ### examples -/

/-- tolerance `|a - b| ≤ 1` on natural numbers -/
def near (a b : Nat) : Bool := decide (max a b - min a b ≤ 1)

/-- (i) identification happens: 31 is replaced by the earlier 30 -/
example : snapAll near 1 [[30], [31], [50]] = [[30], [30], [50]] := by decide

/-- two operations are processed independently -/
example : snapAll near 2 [[30, 7], [31, 9], [50, 8]] = [[30, 7], [30, 9], [50, 7]] := by decide

/-- (ii) first come, first served on a non-transitive chain: 31 joins 30, but 32 (close to 31, not
to 30) stays apart -- although the raw values 31 and 32 are close, their representatives differ.
This is why `snapAll_iff_close` needs `close` to be an equivalence on the occurring values. -/
example : snapAll near 1 [[30], [31], [32]] = [[30], [30], [32]] := by decide

/-- on the data of (i) `near` is an equivalence on the occurring values: the hypothesis of
`snapAll_iff_close` / `snapAll_rows_iff` is satisfiable in a non-trivial instance -/
example : IsEquivOn near (col [[30], [31], [50]] 0) := by
  have hcol : col [[30], [31], [50]] 0 = [30, 31, 50] := by decide
  rw [hcol]
  refine ⟨?_, ?_, ?_⟩
  · decide
  · decide
  · decide

/-- `near` is reflexive: the hypothesis of `snapAll_close` and `snapAll_stable` -/
example : ∀ v, near v v = true := by
  intro v; simp [near]

/-- `snapAll_stable` fails without reflexivity: with `close a b := a < b` the two occurrences of
the raw value 1 get different representatives -/
example : snapAll (fun a b : Nat => decide (a < b)) 1 [[1], [2], [1]] = [[1], [2], [2]] := by
  decide

end Pomerol.Spec.Snap
