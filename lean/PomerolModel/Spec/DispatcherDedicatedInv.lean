import PomerolModel.Model.DispatcherDedicated
import PomerolModel.Spec.DispatcherInv

/-
  Safety and liveness of the dispatcher model in its *dedicated master* use
  (`PomerolModel/Model/DispatcherDedicated.lean`); the proof follows `Spec/DispatcherInv.lean`.

  One inductive invariant `Inv N jobs s` (= `Core` + `fin = replicate N exited` + "an exited master is at
  position 0") holds for `init N jobs` and is preserved by every `step`; all theorems follow from it.
  `Core` is the invariant of `Spec/DispatcherInv.lean` read for pool indices: all per-worker lists have length `N`;
  the idle stack is duplicate free, below `N`, and `|idle| + #{i | wait[i]} = N`;
  `jobs = reverse (keys dmap) ++ job stack`; every `log` entry is a `dmap` entry, `log` has no duplicate job; every
  `dmap` entry `(j,i)` is either in flight as the single message `[work j]` of `down[i]` or in the `log`, never
  both; `fin` is constantly `b`, `b = true` only with an empty job stack; and every worker is in exactly one of
  the five `Phase`s (idle / assigned / done / `Finish` in flight / finished and gone).

  The proofs unfold the generated definitions `Gen.Disp.masterIsFinished` and `Gen.Disp.finishCondition`
  (lemmas `loopHead_eq`, `finishPhase_eq`): they depend on what the C++ source says.
-/

namespace Pomerol.Spec.DispD
open Pomerol.Model.DispD
open Pomerol.Model.Disp (Msg WStatus Worker orderLoop dmapGet)
open Pomerol.Spec.Disp (getD_set getD_replicate getElem?_set' set_eq_self set_ge wsum wsum_set wsum_replicate
  count_true_set count_true_zero keys_functional dmapGet_of_mem dmapGet_isSome workCount workCount_append wW wF wD)

/-! ### unfolding lemmas for the model -/

abbrev dn (s : SysD) (i : Nat) : List Msg := s.down[i]?.getD []
abbrev upc (s : SysD) (i : Nat) : Nat := s.up[i]?.getD 0
abbrev wt (s : SysD) (i : Nat) : Bool := s.m.wait[i]?.getD false

/-- worker `r` (record `w`) receives `work j` and executes it -/
def doWork (s : SysD) (r : Nat) (w : Worker) (j : Nat) (rest : List Msg) : SysD :=
  { s with ws := s.ws.set r { w with st := .pending, cur := some j },
           down := s.down.set r rest, up := s.up.set r (upc s r + 1), log := s.log ++ [(j, r)] }

/-- worker `r` receives `finish` and leaves its loop -/
def doFin (s : SysD) (r : Nat) (w : Worker) (rest : List Msg) : SysD :=
  { s with ws := s.ws.set r { w with st := .finish, exited := true }, down := s.down.set r rest }

/-- the master receives the completion token of worker `k` -/
def collect (s : SysD) (k : Nat) : SysD :=
  { s with m := { s.m with wait := s.m.wait.set k false, idle := k :: s.m.idle },
           up := s.up.set k (upc s k - 1) }

/-- the master leaves its loop -/
def exitM (s : SysD) : SysD := { s with m := { s.m with exited := true, next := 0 } }

def setNext (s : SysD) (n : Nat) : SysD := { s with m := { s.m with next := n } }

/-- one hand-out of `order` -/
def assign (s : SysD) (j w : Nat) (js ws : List Nat) : SysD :=
  { s with m := { s.m with jobs := js, idle := ws, wait := s.m.wait.set w true, dmap := (j, w) :: s.m.dmap },
           down := s.down.set w (s.down.getD w [] ++ [Msg.work j]) }

theorem order_cons (s : SysD) (j w : Nat) (js ws : List Nat) (h1 : s.m.jobs = j :: js) (h2 : s.m.idle = w :: ws) :
    order s = order (assign s j w js ws) := by
  simp [order, assign, h1, h2, orderLoop]

theorem order_nil_jobs (s : SysD) (h : s.m.jobs = []) : order s = s := by
  obtain ⟨N, ⟨jobs, idle, wait, fin, dmap, next, exited⟩, ws, down, up, log⟩ := s
  simp at h; subst h
  simp [order, orderLoop]

theorem order_nil_idle (s : SysD) (h : s.m.idle = []) : order s = s := by
  obtain ⟨N, ⟨jobs, idle, wait, fin, dmap, next, exited⟩, ws, down, up, log⟩ := s
  simp at h; subst h
  cases jobs <;> simp [order, orderLoop]

theorem workerTest_false (s : SysD) (r : Nat) (w : Worker) (h : s.ws[r]? = some w) (he : w.exited = false)
    (hp : w.st = .pending) : workerTest s r false = some s := by
  obtain ⟨N, m, ws, down, up, log⟩ := s
  simp at h
  simp [workerTest, h, he, hp, set_eq_self ws r w h]

theorem workerTest_work (s : SysD) (r : Nat) (w : Worker) (h : s.ws[r]? = some w) (he : w.exited = false)
    (hp : w.st = .pending) (j : Nat) (rest : List Msg) (hd : s.down[r]?.getD [] = Msg.work j :: rest) :
    workerTest s r true = some (doWork s r w j rest) := by
  simp [workerTest, h, he, hp, hd, doWork]

theorem workerTest_finish (s : SysD) (r : Nat) (w : Worker) (h : s.ws[r]? = some w) (he : w.exited = false)
    (hp : w.st = .pending) (rest : List Msg) (hd : s.down[r]?.getD [] = Msg.finish :: rest) :
    workerTest s r true = some (doFin s r w rest) := by
  simp [workerTest, h, he, hp, hd, doFin]

theorem workerTest_some (s s' : SysD) (r : Nat) (b : Bool) (h : workerTest s r b = some s') :
    ∃ w, s.ws[r]? = some w ∧ w.exited = false ∧ w.st = .pending ∧ (b = true → s.down[r]?.getD [] ≠ []) := by
  unfold workerTest at h
  split at h
  · simp at h
  · rename_i w hw
    refine ⟨w, hw, ?_⟩
    split at h
    · simp at h
    · rename_i hc
      simp at hc
      refine ⟨hc.1, hc.2, ?_⟩
      intro hb hd
      simp [hb, hd] at h


/-! ### the invariant -/

/-- the five phases of a worker `i` within a round, seen from the global state:
A idle / B job assigned, message in flight / C job done, token in flight / D `Finish` in flight / E finished and gone.
`b` says whether the master has already broadcast `Finish`. -/
def Phase (b : Bool) (idl : Prop) (wt : Bool) (d : List Msg) (u : Nat) (w : Worker) : Prop :=
  (b = false ∧ idl ∧ wt = false ∧ d = [] ∧ u = 0 ∧ w.st = .pending ∧ w.exited = false) ∨
  (b = false ∧ ¬ idl ∧ wt = true ∧ (∃ j, d = [Msg.work j]) ∧ u = 0 ∧ w.st = .pending ∧ w.exited = false) ∨
  (b = false ∧ ¬ idl ∧ wt = true ∧ d = [] ∧ u = 1 ∧ w.st = .pending ∧ w.exited = false) ∨
  (b = true ∧ idl ∧ wt = false ∧ d = [Msg.finish] ∧ u = 0 ∧ w.st = .pending ∧ w.exited = false) ∨
  (b = true ∧ idl ∧ wt = false ∧ d = [] ∧ u = 0 ∧ w.st = .finish ∧ w.exited = true)


/-- the part of the invariant that does not mention `next`/`exited` -/
structure Core (N : Nat) (jobs : List Nat) (s : SysD) : Prop where
  hN : s.N = N
  lw : s.m.wait.length = N
  lws : s.ws.length = N
  ld : s.down.length = N
  lu : s.up.length = N
  idl_lt : ∀ i ∈ s.m.idle, i < N
  idl_nd : s.m.idle.Nodup
  cnt : s.m.idle.length + s.m.wait.count true = N
  K : (s.m.dmap.map (·.1)).reverse ++ s.m.jobs = jobs
  L1 : ∀ x ∈ s.log, x ∈ s.m.dmap
  L2 : (s.log.map (·.1)).Nodup
  D1 : ∀ j i, (j, i) ∈ s.m.dmap → i < N ∧ (dn s i = [Msg.work j] ∨ (j, i) ∈ s.log)
  D2 : ∀ i j, dn s i = [Msg.work j] → (j, i) ∈ s.m.dmap ∧ j ∉ s.log.map (·.1)
  ph : ∃ b, s.m.fin = List.replicate N b ∧ (b = true → s.m.jobs = []) ∧
        ∀ i, i < N → ∃ w, s.ws[i]? = some w ∧ Phase b (i ∈ s.m.idle) (wt s i) (dn s i) (upc s i) w

theorem init0_core (N : Nat) (jobs : List Nat) : Core N jobs (init0 N jobs) := by
  refine ⟨rfl, by simp [init0], by simp [init0], by simp [init0], by simp [init0], ?_, ?_, ?_, by simp [init0],
    by simp [init0], by simp [init0], by simp [init0], ?_, ?_⟩
  · simp [init0]
  · simp [init0, List.nodup_range]
  · simp [init0, List.count_replicate]
  · intro i j; simp [init0, dn]; grind
  · refine ⟨false, by simp [init0], by simp, ?_⟩
    intro i hi
    refine ⟨{}, by simp [init0, hi], Or.inl ?_⟩
    simp [init0, hi, wt, dn, upc]


theorem assign_core (N : Nat) (jobs : List Nat) (s : SysD) (j w : Nat) (js ws : List Nat) (hnd : jobs.Nodup)
    (h : Core N jobs s) (h1 : s.m.jobs = j :: js) (h2 : s.m.idle = w :: ws) :
    Core N jobs (assign s j w js ws) := by
  obtain ⟨b, hfin, hbj, hph⟩ := h.ph
  have hb : b = false := by
    cases b
    · rfl
    · simp [h1] at hbj
  subst hb
  have hwP : w < N := h.idl_lt w (by simp [h2])
  have hnd2 := h.idl_nd
  rw [h2] at hnd2
  have hwws : w ∉ ws := (List.nodup_cons.1 hnd2).1
  obtain ⟨ww, hww, hphw⟩ := hph w hwP
  have hA : wt s w = false ∧ dn s w = [] ∧ upc s w = 0 ∧ ww.st = .pending ∧ ww.exited = false := by
    rcases hphw with h|h|h|h|h <;> simp_all
  have hK := h.K
  rw [h1] at hK
  have hj : j ∉ s.m.dmap.map (·.1) := by
    intro hc
    rw [← hK] at hnd
    have := (List.nodup_append.1 hnd).2.2 j (by simpa using hc) j (by simp)
    exact this rfl
  have hjlog : j ∉ s.log.map (·.1) := by
    intro hc
    obtain ⟨x, hx, rfl⟩ := List.mem_map.1 hc
    exact hj (List.mem_map.2 ⟨x, h.L1 x hx, rfl⟩)
  have hdn : ∀ i, dn (assign s j w js ws) i = if i = w then [Msg.work j] else dn s i := by
    intro i
    have h3 := hA.2.1
    have h4 := h.ld
    simp only [dn, assign] at h3 ⊢
    grind
  exact
  { hN := h.hN
    lw := by simp [assign, h.lw]
    lws := h.lws
    ld := by simp [assign, h.ld]
    lu := h.lu
    idl_lt := fun i hi => h.idl_lt i (by simp [h2]; exact Or.inr hi)
    idl_nd := (List.nodup_cons.1 hnd2).2
    cnt := by
      have := count_true_set s.m.wait w true (by rw [h.lw]; exact hwP)
      have hc := h.cnt
      have hw := hA.1
      simp [wt] at hw
      simp [h2, hw] at this hc
      simp [assign]; omega
    K := by simp [assign]; simpa using hK
    L1 := fun x hx => by simp [assign]; exact Or.inr (h.L1 x hx)
    L2 := h.L2
    D1 := by
      intro j' i' hm
      simp [assign] at hm
      rw [hdn]
      rcases hm with ⟨rfl, rfl⟩ | hm
      · exact ⟨hwP, Or.inl (by simp)⟩
      · obtain ⟨hi', hor⟩ := h.D1 j' i' hm
        refine ⟨hi', ?_⟩
        by_cases hiw : i' = w
        · subst hiw
          rcases hor with hor | hor
          · rw [hA.2.1] at hor; simp at hor
          · exact Or.inr hor
        · simp only [hiw, if_false]; exact hor
    D2 := by
      intro i' j' hd
      rw [hdn] at hd
      by_cases hiw : i' = w
      · subst hiw
        simp at hd; subst hd
        exact ⟨by simp [assign], hjlog⟩
      · simp [hiw] at hd
        obtain ⟨h1', h2'⟩ := h.D2 i' j' hd
        exact ⟨by simp [assign]; exact Or.inr h1', h2'⟩
    ph := by
      refine ⟨false, hfin, by simp, ?_⟩
      intro i hi
      obtain ⟨wi, hwi, hphi⟩ := hph i hi
      refine ⟨wi, hwi, ?_⟩
      rw [hdn]
      by_cases hiw : i = w
      · subst hiw
        rw [hww] at hwi; cases hwi
        refine Or.inr (Or.inl ?_)
        have := hA.2.2.1
        simp [upc] at this
        simp [assign, hwws, wt, h.lw, hwP, upc, this, hA.2.2.2]
      · have hmem : i ∈ ws ↔ i ∈ s.m.idle := by simp [h2, hiw]
        have hwt : wt (assign s j w js ws) i = wt s i := by
          simp [assign, wt, Ne.symm hiw]
        simp only [hiw, if_false]
        rw [hwt]
        show Phase false (i ∈ ws) (wt s i) (dn s i) (upc s i) wi
        rw [hmem]; exact hphi }


theorem order_frame (s : SysD) : (order s).N = s.N ∧ (order s).ws = s.ws ∧ (order s).up = s.up ∧
    (order s).log = s.log ∧ (order s).m.fin = s.m.fin ∧ (order s).m.exited = s.m.exited ∧
    (order s).m.next = s.m.next := by
  simp [order]

theorem order_core (N : Nat) (jobs : List Nat) (hnd : jobs.Nodup) :
    ∀ (n : Nat) (s : SysD), s.m.jobs.length = n → Core N jobs s → Core N jobs (order s) := by
  intro n
  induction n with
  | zero =>
    intro s hn h
    rw [order_nil_jobs s (by simpa using hn)]; exact h
  | succ n ih =>
    intro s hn h
    match hj : s.m.jobs, hi : s.m.idle with
    | [], _ => simp [hj] at hn
    | j :: js, [] => rw [order_nil_idle s hi]; exact h
    | j :: js, w :: ws =>
      rw [order_cons s j w js ws hj hi]
      apply ih
      · simp [assign]; simpa [hj] using hn
      · exact assign_core N jobs s j w js ws hnd h hj hi

/-- the channels after the `Finish` broadcast loop over the first `n` ranks -/
def finDown (fin : List Bool) (d : List (List Msg)) (n : Nat) : List (List Msg) :=
  (List.range n).foldl (fun d i => if fin.getD i false then d else d.set i (d.getD i [] ++ [Msg.finish])) d

theorem finDown_succ (fin : List Bool) (d : List (List Msg)) (n : Nat) :
    finDown fin d (n+1) = if fin.getD n false then finDown fin d n
      else (finDown fin d n).set n ((finDown fin d n).getD n [] ++ [Msg.finish]) := by
  simp [finDown, List.range_succ, List.foldl_append]

theorem finDown_length (fin : List Bool) (d : List (List Msg)) (n : Nat) : (finDown fin d n).length = d.length := by
  induction n with
  | zero => simp [finDown]
  | succ n ih => rw [finDown_succ]; split <;> simp [ih]

theorem finDown_get (fin : List Bool) (d : List (List Msg)) (n i : Nat) :
    (finDown fin d n)[i]?.getD [] =
      if i < n ∧ i < d.length ∧ fin[i]?.getD false = false then d[i]?.getD [] ++ [Msg.finish] else d[i]?.getD [] := by
  induction n with
  | zero => simp [finDown]
  | succ n ih =>
    have hl := finDown_length fin d n
    rw [finDown_succ]
    grind

theorem finishPhase_eq (s : SysD) : finishPhase s =
    if s.m.jobs = [] ∧ s.N ≤ s.m.idle.length then
      { s with m := { s.m with fin := List.replicate s.N true }, down := finDown s.m.fin s.down s.N }
    else s := by
  simp [finishPhase, finDown, finishCond, Pomerol.Gen.Disp.finishCondition]


/-- all ranks idle: nobody has anything outstanding -/
theorem all_idle (N : Nat) (jobs : List Nat) (s : SysD) (h : Core N jobs s) (hl : N ≤ s.m.idle.length) :
    ∀ i, i < N → wt s i = false := by
  have hc := h.cnt
  have h0 : s.m.wait.count true = 0 := by omega
  intro i hi
  have := (count_true_zero s.m.wait).1 h0 i (by rw [h.lw]; exact hi)
  simpa [wt] using this

theorem finish_core (N : Nat) (jobs : List Nat) (s : SysD) (h : Core N jobs s) : Core N jobs (finishPhase s) := by
  rw [finishPhase_eq]
  split
  case isFalse => exact h
  case isTrue hc =>
    obtain ⟨hj, hl⟩ := hc
    rw [h.hN] at hl ⊢
    have hwt := all_idle N jobs s h hl
    obtain ⟨b, hfin, hbj, hph⟩ := h.ph
    have hdn : ∀ i, dn { s with m := { s.m with fin := List.replicate N true }, down := finDown s.m.fin s.down N } i
        = if i < N ∧ b = false then dn s i ++ [Msg.finish] else dn s i := by
      intro i
      simp only [dn]
      rw [finDown_get, hfin, h.ld]
      cases b <;> grind
    have hidle : ∀ i, i < N → b = false → dn s i = [] := by
      intro i hi hb
      obtain ⟨w, _, hp⟩ := hph i hi
      have := hwt i hi
      rcases hp with h|h|h|h|h <;> simp_all
    exact
    { hN := rfl
      lw := h.lw
      lws := h.lws
      ld := by simp [finDown_length, h.ld]
      lu := h.lu
      idl_lt := h.idl_lt
      idl_nd := h.idl_nd
      cnt := h.cnt
      K := h.K
      L1 := h.L1
      L2 := h.L2
      D1 := by
        intro j i hm
        obtain ⟨hi, hor⟩ := h.D1 j i hm
        refine ⟨hi, ?_⟩
        rw [hdn]
        cases b
        · rcases hor with hor | hor
          · rw [hidle i hi rfl] at hor; simp at hor
          · exact Or.inr hor
        · simpa using hor
      D2 := by
        intro i j hd
        rw [hdn] at hd
        by_cases hc : i < N ∧ b = false
        · rw [if_pos hc, hidle i hc.1 hc.2] at hd; simp at hd
        · rw [if_neg hc] at hd; exact h.D2 i j hd
      ph := by
        refine ⟨true, rfl, fun _ => hj, ?_⟩
        intro i hi
        obtain ⟨w, hw, hp⟩ := hph i hi
        refine ⟨w, hw, ?_⟩
        rw [hdn]
        have := hwt i hi
        show Phase true (i ∈ s.m.idle) (wt s i) _ (upc s i) w
        cases b
        · rcases hp with h|h|h|h|h <;> simp_all [Phase]
        · simpa using hp }


theorem keys_functional (l : List (Nat × Nat)) (h : (l.map (·.1)).Nodup) (a b b' : Nat)
    (h1 : (a, b) ∈ l) (h2 : (a, b') ∈ l) : b = b' := by
  induction l with
  | nil => simp at h1
  | cons x l ih =>
    simp at h
    obtain ⟨hx, hl⟩ := h
    simp at h1 h2
    rcases h1 with rfl | h1 <;> rcases h2 with h2 | h2
    · cases h2; rfl
    · exact absurd h2 (hx b')
    · subst h2; exact absurd h1 (hx b)
    · exact ih hl h1 h2

theorem Core.keys_nd {N : Nat} {jobs : List Nat} {s : SysD} (h : Core N jobs s) (hnd : jobs.Nodup) :
    (s.m.dmap.map (·.1)).Nodup := by
  rw [← h.K] at hnd
  exact (List.Perm.nodup_iff (List.reverse_perm _)).1 (List.nodup_append.1 hnd).1

theorem work_core (N : Nat) (jobs : List Nat) (hnd : jobs.Nodup) (s : SysD) (r : Nat) (w : Worker)
    (h : Core N jobs s) (hw : s.ws[r]? = some w) (j : Nat) (rest : List Msg)
    (hd : dn s r = Msg.work j :: rest) : Core N jobs (doWork s r w j rest) := by
  have hr : r < N := by
    rw [← h.lws]; exact (List.getElem?_eq_some_iff.1 hw).1
  obtain ⟨b, hfin, hbj, hph⟩ := h.ph
  obtain ⟨w', hw', hp⟩ := hph r hr
  rw [hw] at hw'; cases hw'
  have hB : b = false ∧ r ∉ s.m.idle ∧ wt s r = true ∧ rest = [] ∧ upc s r = 0 ∧ w.st = .pending ∧ w.exited = false := by
    rcases hp with h|h|h|h|h <;> simp_all
  obtain ⟨hb, hri, hwr, hrest, hur, hst, hex⟩ := hB
  subst hrest
  obtain ⟨hjr, hjl⟩ := h.D2 r j hd
  have hdn : ∀ i, dn (doWork s r w j []) i = if i = r then [] else dn s i := by
    intro i
    have := h.ld
    simp only [dn, doWork]
    grind
  have hup : ∀ i, upc (doWork s r w j []) i = if i = r then 1 else upc s i := by
    intro i
    have := h.lu
    simp only [upc, doWork] at hur ⊢
    grind
  exact
  { hN := h.hN
    lw := h.lw
    lws := by simp [doWork, h.lws]
    ld := by simp [doWork, h.ld]
    lu := by simp [doWork, h.lu]
    idl_lt := h.idl_lt
    idl_nd := h.idl_nd
    cnt := h.cnt
    K := h.K
    L1 := by
      intro x hx
      simp [doWork] at hx
      rcases hx with hx | rfl
      · exact h.L1 x hx
      · exact hjr
    L2 := by
      simp [doWork, List.nodup_append]
      refine ⟨h.L2, ?_⟩
      intro a b hab heq
      subst heq
      exact hjl (List.mem_map.2 ⟨(a, b), hab, rfl⟩)
    D1 := by
      intro j' i' hm
      obtain ⟨hi', hor⟩ := h.D1 j' i' hm
      refine ⟨hi', ?_⟩
      rw [hdn]
      by_cases hir : i' = r
      · subst hir
        rcases hor with hor | hor
        · rw [hd] at hor; simp at hor; subst hor; exact Or.inr (by simp [doWork])
        · exact Or.inr (by simp [doWork, hor])
      · rcases hor with hor | hor
        · exact Or.inl (by simp [hir, hor])
        · exact Or.inr (by simp [doWork, hor])
    D2 := by
      intro i' j' hd'
      rw [hdn] at hd'
      by_cases hir : i' = r
      · simp [hir] at hd'
      · simp [hir] at hd'
        obtain ⟨h1, h2⟩ := h.D2 i' j' hd'
        refine ⟨h1, ?_⟩
        simp [doWork]
        refine ⟨by simpa using h2, ?_⟩
        intro heq; subst heq
        exact hir (keys_functional _ (h.keys_nd hnd) _ _ _ h1 hjr)
    ph := by
      refine ⟨b, hfin, hbj, ?_⟩
      intro i hi
      rw [hdn, hup]
      by_cases hir : i = r
      · subst hir
        refine ⟨{ w with st := .pending, cur := some j }, by simp [doWork, h.lws, hi], ?_⟩
        refine Or.inr (Or.inr (Or.inl ?_))
        simp [hb, hex]
        exact ⟨hri, hwr⟩
      · obtain ⟨wi, hwi, hpi⟩ := hph i hi
        refine ⟨wi, ?_, ?_⟩
        · simp [doWork, Ne.symm hir, hwi]
        · simp only [hir, if_false]; exact hpi }


theorem fin_core (N : Nat) (jobs : List Nat) (s : SysD) (r : Nat) (w : Worker)
    (h : Core N jobs s) (hw : s.ws[r]? = some w) (rest : List Msg)
    (hd : dn s r = Msg.finish :: rest) : Core N jobs (doFin s r w rest) := by
  have hr : r < N := by
    rw [← h.lws]; exact (List.getElem?_eq_some_iff.1 hw).1
  obtain ⟨b, hfin, hbj, hph⟩ := h.ph
  obtain ⟨w', hw', hp⟩ := hph r hr
  rw [hw] at hw'; cases hw'
  have hB : b = true ∧ r ∈ s.m.idle ∧ wt s r = false ∧ rest = [] ∧ upc s r = 0 := by
    rcases hp with h|h|h|h|h <;> simp_all
  obtain ⟨hb, hri, hwr, hrest, hur⟩ := hB
  subst hrest
  have hdn : ∀ i, dn (doFin s r w []) i = if i = r then [] else dn s i := by
    intro i
    have := h.ld
    simp only [dn, doFin]
    grind
  exact
  { hN := h.hN
    lw := h.lw
    lws := by simp [doFin, h.lws]
    ld := by simp [doFin, h.ld]
    lu := h.lu
    idl_lt := h.idl_lt
    idl_nd := h.idl_nd
    cnt := h.cnt
    K := h.K
    L1 := h.L1
    L2 := h.L2
    D1 := by
      intro j' i' hm
      obtain ⟨hi', hor⟩ := h.D1 j' i' hm
      refine ⟨hi', ?_⟩
      rw [hdn]
      by_cases hir : i' = r
      · subst hir
        rcases hor with hor | hor
        · rw [hd] at hor; simp at hor
        · exact Or.inr hor
      · simp only [hir, if_false]; exact hor
    D2 := by
      intro i' j' hd'
      rw [hdn] at hd'
      by_cases hir : i' = r
      · simp [hir] at hd'
      · simp only [hir, if_false] at hd'
        exact h.D2 i' j' hd'
    ph := by
      refine ⟨b, hfin, hbj, ?_⟩
      intro i hi
      rw [hdn]
      by_cases hir : i = r
      · subst hir
        refine ⟨{ w with st := .finish, exited := true }, by simp [doFin, h.lws, hi], ?_⟩
        refine Or.inr (Or.inr (Or.inr (Or.inr ?_)))
        simp [hb]
        exact ⟨hri, hwr, hur⟩
      · obtain ⟨wi, hwi, hpi⟩ := hph i hi
        refine ⟨wi, ?_, ?_⟩
        · simp [doFin, Ne.symm hir, hwi]
        · simp only [hir, if_false]; exact hpi }

theorem collect_core (N : Nat) (jobs : List Nat) (s : SysD) (k : Nat)
    (h : Core N jobs s) (hwk : wt s k = true) (huk : 0 < upc s k) : Core N jobs (collect s k) := by
  have hk : k < N := by
    rw [← h.lw]
    simp only [wt] at hwk
    grind
  obtain ⟨b, hfin, hbj, hph⟩ := h.ph
  obtain ⟨w, hw, hp⟩ := hph k hk
  have hC : b = false ∧ k ∉ s.m.idle ∧ dn s k = [] ∧ upc s k = 1 ∧ w.st = .pending ∧ w.exited = false := by
    rcases hp with h|h|h|h|h <;> simp_all
  obtain ⟨hb, hki, hdk, hu1, hst, hex⟩ := hC
  have hup : ∀ i, upc (collect s k) i = if i = k then 0 else upc s i := by
    intro i
    have := h.lu
    simp only [upc, collect] at hu1 ⊢
    grind
  have hwt : ∀ i, wt (collect s k) i = if i = k then false else wt s i := by
    intro i
    have := h.lw
    simp only [wt, collect]
    grind
  exact
  { hN := h.hN
    lw := by simp [collect, h.lw]
    lws := h.lws
    ld := h.ld
    lu := by simp [collect, h.lu]
    idl_lt := by
      intro i hi
      simp [collect] at hi
      rcases hi with rfl | hi
      · exact hk
      · exact h.idl_lt i hi
    idl_nd := by
      simp [collect]
      exact ⟨hki, h.idl_nd⟩
    cnt := by
      have := count_true_set s.m.wait k false (by rw [h.lw]; exact hk)
      have hc := h.cnt
      simp only [wt] at hwk
      simp [hwk] at this
      simp [collect]; omega
    K := h.K
    L1 := h.L1
    L2 := h.L2
    D1 := h.D1
    D2 := h.D2
    ph := by
      refine ⟨b, hfin, hbj, ?_⟩
      intro i hi
      rw [hup, hwt]
      show ∃ w, s.ws[i]? = some w ∧ Phase b (i ∈ k :: s.m.idle) _ (dn s i) _ w
      by_cases hik : i = k
      · subst hik
        refine ⟨w, hw, Or.inl ?_⟩
        simp [hb, hdk, hst, hex]
      · obtain ⟨wi, hwi, hpi⟩ := hph i hi
        refine ⟨wi, hwi, ?_⟩
        have : i ∈ k :: s.m.idle ↔ i ∈ s.m.idle := by simp [hik]
        simp only [hik, if_false]
        rw [this]; exact hpi }


/-! ### one step preserves the invariant -/

/-- the loop condition as the source has it: all `workers_finish` flags are set -/
theorem loopHead_eq (s : SysD) :
    loopHead s = if s.m.fin.count true = s.N then exitM s else order (setNext s 0) := by
  simp only [loopHead, isFinished, nFinished, Pomerol.Gen.Disp.masterIsFinished, exitM, setNext,
    Int.natCast_inj, decide_eq_true_eq]

/-- the end of a `check_workers` test: advance, or finish the loop iteration -/
def masterTail (s s1 : SysD) : SysD :=
  if s.m.next + 1 < s.N then setNext s1 (s.m.next + 1) else loopHead (finishPhase s1)

theorem masterTest_exited (s : SysD) (b : Bool) (he : s.m.exited = true) : masterTest s b = none := by
  simp [masterTest, he]

theorem masterTest_false_eq (s : SysD) (he : s.m.exited = false) : masterTest s false = some (masterTail s s) := by
  by_cases h : s.m.next + 1 < s.N <;> simp [masterTest, masterTail, setNext, he, h]

theorem masterTest_true_eq (s : SysD) (he : s.m.exited = false) : masterTest s true =
    if wt s s.m.next = true ∧ 0 < upc s s.m.next then some (masterTail s (collect s s.m.next)) else none := by
  by_cases h : (s.m.wait[s.m.next]?.getD false = true ∧ 0 < s.up[s.m.next]?.getD 0)
  · by_cases h2 : s.m.next + 1 < s.N <;> simp [masterTest, masterTail, setNext, collect, wt, upc, he, h, h2]
  · simp only [wt, upc, h, if_false]
    rw [Classical.not_and_iff_not_or_not] at h
    rcases h with h | h <;> simp [masterTest, he, h]

theorem masterTest_some (s s' : SysD) (b : Bool) (h : masterTest s b = some s') : s.m.exited = false := by
  cases he : s.m.exited
  · rfl
  · rw [masterTest_exited s b he] at h; cases h

theorem workerTest_cases (s s' : SysD) (r : Nat) (b : Bool) (h : workerTest s r b = some s') :
    ∃ w, s.ws[r]? = some w ∧ w.exited = false ∧ w.st = .pending ∧
      ((b = false ∧ s' = s) ∨ (b = true ∧ ∃ j rest, dn s r = Msg.work j :: rest ∧ s' = doWork s r w j rest) ∨
       (b = true ∧ ∃ rest, dn s r = Msg.finish :: rest ∧ s' = doFin s r w rest)) := by
  obtain ⟨w, hw, he, hp, hne⟩ := workerTest_some s s' r b h
  refine ⟨w, hw, he, hp, ?_⟩
  cases b
  · rw [workerTest_false s r w hw he hp] at h
    exact Or.inl ⟨rfl, by cases h; rfl⟩
  · match hd : dn s r with
    | [] => exact absurd hd (hne rfl)
    | Msg.work j :: rest =>
      rw [workerTest_work s r w hw he hp j rest hd] at h
      exact Or.inr (Or.inl ⟨rfl, j, rest, rfl, by cases h; rfl⟩)
    | Msg.finish :: rest =>
      rw [workerTest_finish s r w hw he hp rest hd] at h
      exact Or.inr (Or.inr ⟨rfl, rest, rfl, by cases h; rfl⟩)

theorem core_setNext {N : Nat} {jobs : List Nat} {s : SysD} (n : Nat) (h : Core N jobs s) : Core N jobs (setNext s n) :=
  ⟨h.hN, h.lw, h.lws, h.ld, h.lu, h.idl_lt, h.idl_nd, h.cnt, h.K, h.L1, h.L2, h.D1, h.D2, h.ph⟩

theorem core_exitM {N : Nat} {jobs : List Nat} {s : SysD} (h : Core N jobs s) : Core N jobs (exitM s) :=
  ⟨h.hN, h.lw, h.lws, h.ld, h.lu, h.idl_lt, h.idl_nd, h.cnt, h.K, h.L1, h.L2, h.D1, h.D2, h.ph⟩

/-- the inductive invariant: `Core`, the `workers_finish` flags are all set exactly when the master has left its
loop, and a master that has left stands at position 0 -/
def Inv (N : Nat) (jobs : List Nat) (s : SysD) : Prop :=
  Core N jobs s ∧ s.m.fin = List.replicate N s.m.exited ∧ (s.m.exited = true → s.m.next = 0)

theorem replicate_bool_inj (N : Nat) (hN : 0 < N) (a b : Bool) (h : List.replicate N a = List.replicate N b) :
    a = b := by
  have := congrArg (fun l => l[0]?) h
  simpa [List.getElem?_replicate, hN] using this

/-- under `Inv` the phase flag is the master's `exited` flag -/
theorem Inv.ph' {N : Nat} {jobs : List Nat} {s : SysD} (hN : 0 < N) (h : Inv N jobs s) :
    (s.m.exited = true → s.m.jobs = []) ∧
    ∀ i, i < N → ∃ w, s.ws[i]? = some w ∧ Phase s.m.exited (i ∈ s.m.idle) (wt s i) (dn s i) (upc s i) w := by
  obtain ⟨b, hfin, hbj, hph⟩ := h.1.ph
  have hb : b = s.m.exited := replicate_bool_inj N hN _ _ (by rw [← hfin, h.2.1])
  subst hb
  exact ⟨hbj, hph⟩

theorem workerTest_core (N : Nat) (jobs : List Nat) (hnd : jobs.Nodup) (s s' : SysD) (r : Nat) (b : Bool)
    (h : Core N jobs s) (hs : workerTest s r b = some s') : Core N jobs s' ∧ s'.m = s.m := by
  obtain ⟨w, hw, he, hp, hc⟩ := workerTest_cases s s' r b hs
  rcases hc with ⟨_, rfl⟩ | ⟨_, j, rest, hd, rfl⟩ | ⟨_, rest, hd, rfl⟩
  · exact ⟨h, rfl⟩
  · exact ⟨work_core N jobs hnd s r w h hw j rest hd, rfl⟩
  · exact ⟨fin_core N jobs s r w h hw rest hd, rfl⟩

theorem finishPhase_frame (s : SysD) : (finishPhase s).N = s.N ∧ (finishPhase s).ws = s.ws ∧
    (finishPhase s).m.exited = s.m.exited ∧ (finishPhase s).m.next = s.m.next ∧
    ((finishPhase s).m.fin = s.m.fin ∨ (finishPhase s).m.fin = List.replicate s.N true) := by
  rw [finishPhase_eq]; split <;> simp

/-- evaluation of the loop condition (and `order()`), for a master still in its loop whose flags are constant -/
theorem loopHead_inv (N : Nat) (jobs : List Nat) (hN : 0 < N) (hnd : jobs.Nodup) (s : SysD) (h : Core N jobs s)
    (b : Bool) (hfin : s.m.fin = List.replicate N b) (hex : s.m.exited = false) : Inv N jobs (loopHead s) := by
  rw [loopHead_eq, hfin, h.hN, List.count_replicate]
  cases b
  · have : ¬ (0 = N) := by omega
    simp only [Bool.false_eq_true, beq_iff_eq, if_false, this]
    obtain ⟨f1, f2, f3, f4, f5, f6, f7⟩ := order_frame (setNext s 0)
    refine ⟨order_core N jobs hnd _ _ rfl (core_setNext _ h), ?_, ?_⟩
    · rw [f5, f6]; show s.m.fin = List.replicate N s.m.exited; rw [hfin, hex]
    · rw [f6]; intro hc; exact absurd (show s.m.exited = true from hc) (by simp [hex])
  · simp only [beq_self_eq_true, if_true]
    refine ⟨core_exitM h, ?_, fun _ => rfl⟩
    show s.m.fin = List.replicate N true
    exact hfin

theorem masterTail_inv (N : Nat) (jobs : List Nat) (hN : 0 < N) (hnd : jobs.Nodup) (s s1 : SysD)
    (h : Core N jobs s1) (hfin : s1.m.fin = List.replicate N false) (hex : s1.m.exited = false) :
    Inv N jobs (masterTail s s1) := by
  unfold masterTail
  split
  · exact ⟨core_setNext _ h, by show s1.m.fin = List.replicate N s1.m.exited; rw [hfin, hex],
      fun hc => absurd (show s1.m.exited = true from hc) (by simp [hex])⟩
  · have h2 := finish_core N jobs s1 h
    obtain ⟨g1, g2, g3, g4, g5⟩ := finishPhase_frame s1
    rcases g5 with g5 | g5
    · exact loopHead_inv N jobs hN hnd _ h2 false (by rw [g5, hfin]) (by rw [g3, hex])
    · exact loopHead_inv N jobs hN hnd _ h2 true (by rw [g5, h.hN]) (by rw [g3, hex])

theorem step_inv (N : Nat) (jobs : List Nat) (hN : 0 < N) (hnd : jobs.Nodup) (s s' : SysD) (r : Nat) (b : Bool)
    (h : Inv N jobs s) (hs : step s r b = some s') : Inv N jobs s' := by
  obtain ⟨hc, hfin, hn0⟩ := h
  unfold step at hs
  by_cases hr : r = 0
  · subst hr
    simp only [if_true] at hs
    have hex := masterTest_some s s' b hs
    rw [hex] at hfin
    cases b
    · rw [masterTest_false_eq s hex] at hs
      cases hs
      exact masterTail_inv N jobs hN hnd s s hc hfin hex
    · rw [masterTest_true_eq s hex] at hs
      split at hs
      · rename_i hk
        cases hs
        exact masterTail_inv N jobs hN hnd s _ (collect_core N jobs s _ hc hk.1 hk.2) hfin hex
      · cases hs
  · simp only [hr, if_false] at hs
    obtain ⟨c1, c2⟩ := workerTest_core N jobs hnd s s' (r - 1) b hc hs
    exact ⟨c1, by rw [c2]; exact hfin, by rw [c2]; exact hn0⟩


/-! ### reachable states satisfy the invariant -/

theorem init_inv (N : Nat) (jobs : List Nat) (hN : 0 < N) (hnd : jobs.Nodup) : Inv N jobs (init N jobs) :=
  loopHead_inv N jobs hN hnd (init0 N jobs) (init0_core N jobs) false rfl rfl

theorem run_inv (N : Nat) (jobs : List Nat) (hN : 0 < N) (hnd : jobs.Nodup) :
    ∀ (sched : List (Nat × Bool)) (s s' : SysD), Inv N jobs s → run s sched = some s' → Inv N jobs s' := by
  intro sched
  induction sched with
  | nil => intro s s' h hr; simp [run] at hr; subst hr; exact h
  | cons x rest ih =>
    intro s s' h hr
    obtain ⟨r, b⟩ := x
    simp only [run] at hr
    split at hr
    · cases hr
    · rename_i s1 hs1
      exact ih s1 s' (step_inv N jobs hN hnd s s1 r b h hs1) hr

/-- states reachable in a round with `N` workers and the given job order, under ANY schedule (any interleaving of
the ranks and any message delays) -/
def Reachable (N : Nat) (jobs : List Nat) (s : SysD) : Prop := ∃ sched, run (init N jobs) sched = some s

theorem reachable_inv (N : Nat) (jobs : List Nat) (hN : 0 < N) (hnd : jobs.Nodup) (s : SysD)
    (h : Reachable N jobs s) : Inv N jobs s := by
  obtain ⟨sched, hs⟩ := h
  exact run_inv N jobs hN hnd sched _ s (init_inv N jobs hN hnd) hs

/-! ### safety -/

/-- SAFETY 1: no job is ever executed twice, and only jobs of this round are executed, by workers of the pool -/
theorem exec_at_most_once (N : Nat) (jobs : List Nat) (hN : 0 < N) (hnd : jobs.Nodup) (s : SysD)
    (h : Reachable N jobs s) : (s.log.map (·.1)).Nodup ∧ ∀ x ∈ s.log, x.1 ∈ jobs ∧ x.2 < N := by
  obtain ⟨hc, _, _⟩ := reachable_inv N jobs hN hnd s h
  refine ⟨hc.L2, ?_⟩
  intro x hx
  have hd := hc.L1 x hx
  refine ⟨?_, (hc.D1 x.1 x.2 hd).1⟩
  rw [← hc.K]
  simp
  exact Or.inl ⟨x.2, hd⟩

/-- SAFETY 2: the dispatch map tells the truth: whoever executed a job is the worker recorded for it -/
theorem dmap_truth (N : Nat) (jobs : List Nat) (hN : 0 < N) (hnd : jobs.Nodup) (s : SysD)
    (h : Reachable N jobs s) : ∀ x ∈ s.log, dmapGet s.m.dmap x.1 = some x.2 := by
  obtain ⟨hc, _, _⟩ := reachable_inv N jobs hN hnd s h
  intro x hx
  exact dmapGet_of_mem _ (hc.keys_nd hnd) x.1 x.2 (hc.L1 x hx)

/-- when everybody has exited, every worker is in phase E -/
theorem all_E (N : Nat) (jobs : List Nat) (hN : 0 < N) (s : SysD) (hc : Core N jobs s) (hf : allExited s = true) :
    s.m.jobs = [] ∧ ∀ i, i < N → wt s i = false ∧ dn s i = [] ∧ upc s i = 0 := by
  obtain ⟨b, hfin, hbj, hph⟩ := hc.ph
  simp only [allExited, Bool.and_eq_true, List.all_eq_true] at hf
  have key : ∀ i, i < N → b = true ∧ wt s i = false ∧ dn s i = [] ∧ upc s i = 0 := by
    intro i hi
    obtain ⟨w, hw, hp⟩ := hph i hi
    have hex : w.exited = true := hf.2 w (List.mem_iff_getElem?.2 ⟨i, hw⟩)
    rcases hp with h|h|h|h|h <;> simp_all
  exact ⟨hbj (key 0 hN).1, fun i hi => (key i hi).2⟩

/-- SAFETY 3: when the master and every worker have left their loops, every job has been executed (hence, with
SAFETY 1, exactly once), the map is defined exactly on the jobs, and no message is left in any channel -/
theorem final_complete (N : Nat) (jobs : List Nat) (hN : 0 < N) (hnd : jobs.Nodup) (s : SysD)
    (h : Reachable N jobs s) (hf : allExited s = true) :
    (∀ j ∈ jobs, j ∈ s.log.map (·.1)) ∧ (∀ j, (dmapGet s.m.dmap j).isSome ↔ j ∈ jobs) ∧
    ((∀ d ∈ s.down, d = []) ∧ (∀ u ∈ s.up, u = 0) ∧ (∀ w ∈ s.m.wait, w = false)) := by
  obtain ⟨hc, _, _⟩ := reachable_inv N jobs hN hnd s h
  obtain ⟨hj, hall⟩ := all_E N jobs hN s hc hf
  have hK := hc.K
  rw [hj, List.append_nil] at hK
  refine ⟨?_, ?_, ?_, ?_, ?_⟩
  · intro j hjm
    rw [← hK] at hjm
    simp at hjm
    obtain ⟨i, hji⟩ := hjm
    obtain ⟨hi, hor⟩ := hc.D1 j i hji
    rcases hor with hor | hor
    · rw [(hall i hi).2.1] at hor; simp at hor
    · exact List.mem_map.2 ⟨(j, i), hor, rfl⟩
  · intro j
    rw [dmapGet_isSome, ← hK]
    simp
  · intro d hd
    obtain ⟨i, hi⟩ := List.mem_iff_getElem?.1 hd
    have hlt : i < N := by rw [← hc.ld]; exact (List.getElem?_eq_some_iff.1 hi).1
    have := (hall i hlt).2.1
    simpa [dn, hi] using this
  · intro u hu
    obtain ⟨i, hi⟩ := List.mem_iff_getElem?.1 hu
    have hlt : i < N := by rw [← hc.lu]; exact (List.getElem?_eq_some_iff.1 hi).1
    have := (hall i hlt).2.2
    simpa [upc, hi] using this
  · intro w hw
    obtain ⟨i, hi⟩ := List.mem_iff_getElem?.1 hw
    have hlt : i < N := by rw [← hc.lw]; exact (List.getElem?_eq_some_iff.1 hi).1
    have := (hall i hlt).1
    simpa [wt, hi] using this

/-- SAFETY 4: the master leaves its loop only after `Finish` has been sent to every worker -/
theorem master_exit_after_finish (N : Nat) (jobs : List Nat) (hN : 0 < N) (hnd : jobs.Nodup) (s : SysD)
    (h : Reachable N jobs s) (hx : s.m.exited = true) : ∀ i, i < N → s.m.fin.getD i false = true := by
  obtain ⟨_, hfin, _⟩ := reachable_inv N jobs hN hnd s h
  intro i hi
  rw [hfin, hx, getD_replicate, if_pos hi]


/-! ### liveness: the progress measure -/

/-- weight of the master: 1 as long as it is in its loop -/
def wM (b : Bool) : Nat := if b then 0 else 1

/-- LIVENESS: a progress measure.  Weights: a job still on the stack 3; a `work` message in flight 2; a completion token
in flight 1; a worker that has not yet received `Finish` 1; a worker that has not left the loop 1; a `Finish` not yet
sent 1; the master still in its loop 1. -/
def measure (s : SysD) : Nat :=
  3 * s.m.jobs.length + wsum wD s.down + wsum id s.up + wsum wW s.ws + wsum wF s.m.fin + wM s.m.exited

theorem measure_setNext (s : SysD) (n : Nat) : measure (setNext s n) = measure s := rfl

theorem measure_exitM_le (s : SysD) : measure (exitM s) ≤ measure s := by
  simp only [measure, exitM, wM]
  cases s.m.exited <;> simp

theorem measure_exitM_lt (s : SysD) (he : s.m.exited = false) : measure (exitM s) < measure s := by
  simp [measure, exitM, wM, he]

theorem measure_assign (s : SysD) (j w : Nat) (js ws : List Nat) (h1 : s.m.jobs = j :: js) :
    measure (assign s j w js ws) < measure s := by
  by_cases hw : w < s.down.length
  · have := wsum_set wD s.down w (s.down.getD w [] ++ [Msg.work j]) [] hw
    simp [wD, workCount_append, workCount] at this
    simp [measure, assign, h1]
    omega
  · simp [measure, assign, h1, set_ge _ _ _ (Nat.le_of_not_lt hw)]

theorem measure_order_le : ∀ (n : Nat) (s : SysD), s.m.jobs.length = n → measure (order s) ≤ measure s := by
  intro n
  induction n with
  | zero =>
    intro s hn
    rw [order_nil_jobs s (by simpa using hn)]; exact Nat.le_refl _
  | succ n ih =>
    intro s hn
    match hj : s.m.jobs, hi : s.m.idle with
    | [], _ => simp [hj] at hn
    | j :: js, [] => rw [order_nil_idle s hi]; exact Nat.le_refl _
    | j :: js, w :: ws =>
      rw [order_cons s j w js ws hj hi]
      have h1 := ih (assign s j w js ws) (by simp [assign]; simpa [hj] using hn)
      have h2 := measure_assign s j w js ws hj
      omega

theorem measure_order_lt (s : SysD) (j w : Nat) (js ws : List Nat) (hj : s.m.jobs = j :: js) (hi : s.m.idle = w :: ws) :
    measure (order s) < measure s := by
  rw [order_cons s j w js ws hj hi]
  have h1 := measure_order_le _ (assign s j w js ws) rfl
  have h2 := measure_assign s j w js ws hj
  omega

theorem wsum_finDown (fin : List Bool) (d : List (List Msg)) (n : Nat) : wsum wD (finDown fin d n) = wsum wD d := by
  induction n with
  | zero => simp [finDown]
  | succ n ih =>
    rw [finDown_succ]
    split
    · exact ih
    · by_cases hn : n < (finDown fin d n).length
      · have := wsum_set wD (finDown fin d n) n ((finDown fin d n).getD n [] ++ [Msg.finish]) [] hn
        simp [wD, workCount_append, workCount] at this
        simp at ih ⊢
        omega
      · rw [set_ge _ _ _ (Nat.le_of_not_lt hn)]; exact ih

theorem measure_finishPhase_le (s : SysD) : measure (finishPhase s) ≤ measure s := by
  rw [finishPhase_eq]
  split
  · simp [measure, wsum_finDown, wsum_replicate, wF]
  · exact Nat.le_refl _

theorem measure_finishPhase_lt (s : SysD) (hj : s.m.jobs = []) (hl : s.N ≤ s.m.idle.length)
    (hf : s.m.fin = List.replicate s.N false) (hN : 0 < s.N) : measure (finishPhase s) < measure s := by
  rw [finishPhase_eq, if_pos ⟨hj, hl⟩]
  simp [measure, wsum_finDown, wsum_replicate, wF, hf]
  exact hN

theorem measure_loopHead_le (s : SysD) : measure (loopHead s) ≤ measure s := by
  rw [loopHead_eq]
  split
  · exact measure_exitM_le s
  · have := measure_order_le _ (setNext s 0) rfl
    rw [measure_setNext] at this; exact this

theorem measure_doWork (s : SysD) (r : Nat) (w : Worker) (hw : s.ws[r]? = some w) (hp : w.st = .pending)
    (j : Nat) (rest : List Msg) (hd : dn s r = Msg.work j :: rest) : measure (doWork s r w j rest) < measure s := by
  have hr : r < s.down.length := by
    simp only [dn] at hd
    grind
  have hrw : r < s.ws.length := (List.getElem?_eq_some_iff.1 hw).1
  have h1 := wsum_set wD s.down r rest [] hr
  have h2 := wsum_set wW s.ws r { w with st := .pending, cur := some j } w hrw
  have hd' : s.down.getD r [] = Msg.work j :: rest := by simpa [dn] using hd
  have hw' : s.ws.getD r w = w := by simp [hw]
  rw [hd'] at h1
  rw [hw'] at h2
  simp [wD, workCount] at h1
  simp [wW, hp] at h2
  by_cases hu : r < s.up.length
  · have h3 := wsum_set id s.up r (upc s r + 1) 0 hu
    simp [upc] at h3
    simp [measure, doWork, upc] at h1 h2 h3 ⊢
    omega
  · simp [measure, doWork, set_ge _ _ _ (Nat.le_of_not_lt hu)] at h1 h2 ⊢
    omega

theorem measure_doFin (s : SysD) (r : Nat) (w : Worker) (hw : s.ws[r]? = some w) (hp : w.st = .pending)
    (he : w.exited = false) (rest : List Msg) (hd : dn s r = Msg.finish :: rest) : measure (doFin s r w rest) < measure s := by
  have hr : r < s.down.length := by
    simp only [dn] at hd
    grind
  have hrw : r < s.ws.length := (List.getElem?_eq_some_iff.1 hw).1
  have h1 := wsum_set wD s.down r rest [] hr
  have h2 := wsum_set wW s.ws r { w with st := .finish, exited := true } w hrw
  have hd' : s.down.getD r [] = Msg.finish :: rest := by simpa [dn] using hd
  have hw' : s.ws.getD r w = w := by simp [hw]
  rw [hd'] at h1
  rw [hw'] at h2
  simp [wD, workCount] at h1
  simp [wW, hp, he] at h2
  simp [measure, doFin] at h1 h2 ⊢
  omega

theorem measure_collect (s : SysD) (k : Nat) (huk : 0 < upc s k) : measure (collect s k) < measure s := by
  have hk : k < s.up.length := by
    simp only [upc] at huk
    grind
  have h1 := wsum_set id s.up k (upc s k - 1) 0 hk
  simp [upc] at h1 huk
  simp [measure, collect, upc]
  omega

theorem measure_workerTest (s s' : SysD) (r : Nat) (b : Bool) (hs : workerTest s r b = some s') :
    measure s' ≤ measure s ∧ (b = true → measure s' < measure s) := by
  obtain ⟨w, hw, he, hp, hc⟩ := workerTest_cases s s' r b hs
  rcases hc with ⟨hb, rfl⟩ | ⟨_, j, rest, hd, rfl⟩ | ⟨_, rest, hd, rfl⟩
  · exact ⟨Nat.le_refl _, fun h => by simp [hb] at h⟩
  · have := measure_doWork s r w hw hp j rest hd
    exact ⟨Nat.le_of_lt this, fun _ => this⟩
  · have := measure_doFin s r w hw hp he rest hd
    exact ⟨Nat.le_of_lt this, fun _ => this⟩

theorem measure_masterTail (s s1 : SysD) : measure (masterTail s s1) ≤ measure s1 := by
  unfold masterTail
  split
  · exact Nat.le_refl _
  · have h1 := measure_finishPhase_le s1
    have h2 := measure_loopHead_le (finishPhase s1)
    omega

theorem measure_masterTest (s s' : SysD) (b : Bool) (hs : masterTest s b = some s') :
    measure s' ≤ measure s ∧ (b = true → measure s' < measure s) := by
  have hex := masterTest_some s s' b hs
  cases b
  · rw [masterTest_false_eq s hex] at hs
    cases hs
    exact ⟨measure_masterTail s s, fun h => by simp at h⟩
  · rw [masterTest_true_eq s hex] at hs
    split at hs
    · rename_i hk
      cases hs
      have h1 := measure_masterTail s (collect s s.m.next)
      have h2 := measure_collect s s.m.next hk.2
      exact ⟨by omega, fun _ => by omega⟩
    · cases hs

theorem measure_step (s s' : SysD) (r : Nat) (b : Bool) (hs : step s r b = some s') :
    measure s' ≤ measure s ∧ (b = true → measure s' < measure s) := by
  unfold step at hs
  by_cases hr : r = 0
  · subst hr
    simp only [if_true] at hs
    exact measure_masterTest s s' b hs
  · simp only [hr, if_false] at hs
    exact measure_workerTest s s' (r - 1) b hs

set_option linter.unusedVariables false in
/-- no step increases the measure ... -/
theorem step_measure_le (N : Nat) (jobs : List Nat) (hN : 0 < N) (hnd : jobs.Nodup) (s s' : SysD) (r : Nat) (b : Bool)
    (h : Reachable N jobs s) (hs : step s r b = some s') : measure s' ≤ measure s :=
  (measure_step s s' r b hs).1

set_option linter.unusedVariables false in
/-- ... every successful test (a message is received) strictly decreases it (so only finitely many can happen) ... -/
theorem sees_measure_lt (N : Nat) (jobs : List Nat) (hN : 0 < N) (hnd : jobs.Nodup) (s s' : SysD) (r : Nat)
    (h : Reachable N jobs s) (hs : step s r true = some s') : measure s' < measure s :=
  (measure_step s s' r true hs).2 rfl


/-! ### liveness: no deadlock -/

theorem run_append (s : SysD) (a b : List (Nat × Bool)) (s1 s2 : SysD) (h1 : run s a = some s1)
    (h2 : run s1 b = some s2) : run s (a ++ b) = some s2 := by
  induction a generalizing s with
  | nil => simp [run] at h1; subst h1; simpa using h2
  | cons x a ih =>
    obtain ⟨r, c⟩ := x
    simp only [run, List.cons_append] at h1 ⊢
    split at h1
    · cases h1
    · rename_i s' hs'
      exact ih s' h1

theorem run_single (s s' : SysD) (r : Nat) (b : Bool) (h : step s r b = some s') : run s [(r, b)] = some s' := by
  simp [run, h]

theorem step_master (s : SysD) (b : Bool) : step s 0 b = masterTest s b := by
  simp [step]

theorem step_worker (s : SysD) (i : Nat) (b : Bool) : step s (i + 1) b = workerTest s i b := by
  simp [step]

theorem loopHead_next (s : SysD) : (loopHead s).m.next = 0 := by
  rw [loopHead_eq]
  split
  · rfl
  · exact (order_frame _).2.2.2.2.2.2

theorem masterTail_next (s s1 : SysD) :
    (masterTail s s1).m.next = if s.m.next + 1 < s.N then s.m.next + 1 else 0 := by
  unfold masterTail
  split
  · rfl
  · exact loopHead_next _

/-- the master can always finish its current loop iteration -/
theorem to_next0 (N : Nat) (jobs : List Nat) (hN : 0 < N) (hnd : jobs.Nodup) :
    ∀ (n : Nat) (s : SysD), Inv N jobs s → N ≤ s.m.next + n →
      ∃ sched s', run s sched = some s' ∧ Inv N jobs s' ∧ s'.m.next = 0 ∧ measure s' ≤ measure s := by
  intro n
  induction n with
  | zero =>
    intro s h hn
    by_cases h0 : s.m.next = 0
    · exact ⟨[], s, rfl, h, h0, Nat.le_refl _⟩
    · have hex : s.m.exited = false := by
        cases he : s.m.exited
        · rfl
        · exact absurd (h.2.2 he) h0
      have hstep : step s 0 false = some (masterTail s s) := by
        rw [step_master, masterTest_false_eq s hex]
      refine ⟨[(0, false)], _, run_single _ _ _ _ hstep, step_inv N jobs hN hnd _ _ _ _ h hstep, ?_,
        (measure_step _ _ _ _ hstep).1⟩
      rw [masterTail_next s s, h.1.hN]
      have : ¬ s.m.next + 1 < N := by omega
      simp [this]
  | succ n ih =>
    intro s h hn
    by_cases h0 : s.m.next = 0
    · exact ⟨[], s, rfl, h, h0, Nat.le_refl _⟩
    · have hex : s.m.exited = false := by
        cases he : s.m.exited
        · rfl
        · exact absurd (h.2.2 he) h0
      have hstep : step s 0 false = some (masterTail s s) := by
        rw [step_master, masterTest_false_eq s hex]
      have hinv1 := step_inv N jobs hN hnd _ _ _ _ h hstep
      have hm1 := (measure_step _ _ _ _ hstep).1
      have hnext := masterTail_next s s
      rw [h.1.hN] at hnext
      by_cases hlt : s.m.next + 1 < N
      · simp [hlt] at hnext
        obtain ⟨sched, s', hr, hi, hn', hm⟩ := ih (masterTail s s) hinv1 (by omega)
        exact ⟨(0, false) :: sched, s', run_append s [(0, false)] sched _ s' (run_single _ _ _ _ hstep) hr,
          hi, hn', by omega⟩
      · simp [hlt] at hnext
        exact ⟨[(0, false)], _, run_single _ _ _ _ hstep, hinv1, hnext, hm1⟩

theorem to_next0' (N : Nat) (jobs : List Nat) (hN : 0 < N) (hnd : jobs.Nodup) (s : SysD) (h : Inv N jobs s) :
    ∃ sched s', run s sched = some s' ∧ Inv N jobs s' ∧ s'.m.next = 0 ∧ measure s' ≤ measure s :=
  to_next0 N jobs hN hnd N s h (by omega)

/-- a worker that is waited for but has neither a message nor a token in flight does not exist -/
theorem wt_false_of_quiet (N : Nat) (jobs : List Nat) (s : SysD) (h : Core N jobs s) (k : Nat) (hk : k < N)
    (hd : dn s k = []) (hc : ¬ (wt s k = true ∧ 0 < upc s k)) : wt s k = false := by
  obtain ⟨b, _, _, hph⟩ := h.ph
  obtain ⟨w, _, hp⟩ := hph k hk
  rcases hp with h|h|h|h|h <;> simp_all

/-- the master receives the token of the worker it is polling and then finishes its loop iteration -/
theorem collect_then_next0 (N : Nat) (jobs : List Nat) (hN : 0 < N) (hnd : jobs.Nodup) (s : SysD) (h : Inv N jobs s)
    (hex : s.m.exited = false) (hc : wt s s.m.next = true ∧ 0 < upc s s.m.next) :
    ∃ sched s', run s sched = some s' ∧ Inv N jobs s' ∧ s'.m.next = 0 ∧ measure s' < measure s := by
  have hstep : step s 0 true = some (masterTail s (collect s s.m.next)) := by
    rw [step_master, masterTest_true_eq s hex, if_pos hc]
  have hinv1 := step_inv N jobs hN hnd _ _ _ _ h hstep
  have hm1 := (measure_step _ _ _ _ hstep).2 rfl
  obtain ⟨sched, s', hr, hi, hn', hm⟩ := to_next0' N jobs hN hnd _ hinv1
  exact ⟨(0, true) :: sched, s', run_append s [(0, true)] sched _ s' (run_single _ _ _ _ hstep) hr,
    hi, hn', by omega⟩

/-- the polling loop of `check_workers`, started when all channels are empty and every worker before the current
position is idle: it makes progress before the master is back at the top of its loop -/
theorem scan (N : Nat) (jobs : List Nat) (hN : 0 < N) (hnd : jobs.Nodup) :
    ∀ (n : Nat) (s : SysD), Inv N jobs s → s.m.exited = false → N ≤ s.m.next + 1 + n →
      (∀ i, i < N → dn s i = []) → (∀ i, i < N → i < s.m.next → wt s i = false) →
      ∃ sched s', run s sched = some s' ∧ Inv N jobs s' ∧ s'.m.next = 0 ∧ measure s' < measure s := by
  intro n
  induction n with
  | zero =>
    intro s h hex hn hdn hwt
    by_cases hc : wt s s.m.next = true ∧ 0 < upc s s.m.next
    · exact collect_then_next0 N jobs hN hnd s h hex hc
    · -- end of the loop iteration with everybody idle
      have hstep : step s 0 false = some (masterTail s s) := by
        rw [step_master, masterTest_false_eq s hex]
      have hinv1 := step_inv N jobs hN hnd _ _ _ _ h hstep
      have hlt : ¬ s.m.next + 1 < s.N := by rw [h.1.hN]; omega
      have hnext := masterTail_next s s
      rw [if_neg hlt] at hnext
      refine ⟨[(0, false)], _, run_single _ _ _ _ hstep, hinv1, hnext, ?_⟩
      have hallwt : ∀ i, i < N → wt s i = false := by
        intro i hi
        by_cases hik : i < s.m.next
        · exact hwt i hi hik
        · have : i = s.m.next := by omega
          subst this
          exact wt_false_of_quiet N jobs s h.1 _ hi (hdn _ hi) hc
      have hcount : s.m.wait.count true = 0 := by
        rw [count_true_zero]
        intro i hi
        rw [h.1.lw] at hi
        have := hallwt i hi
        simpa [wt] using this
      have hlen : s.m.idle.length = N := by have := h.1.cnt; omega
      have hfin : s.m.fin = List.replicate N false := by rw [h.2.1, hex]
      have hmt : masterTail s s = loopHead (finishPhase s) := by
        unfold masterTail; rw [if_neg hlt]
      rw [hmt]
      match hj : s.m.jobs with
      | [] =>
        have h1 := measure_finishPhase_lt s hj (by rw [h.1.hN, hlen]; exact Nat.le_refl _)
          (by rw [h.1.hN]; exact hfin) (by rw [h.1.hN]; exact hN)
        have h2 := measure_loopHead_le (finishPhase s)
        omega
      | j :: js =>
        have hfp : finishPhase s = s := by
          rw [finishPhase_eq, if_neg]; simp [hj]
        rw [hfp, loopHead_eq, hfin, List.count_replicate, h.1.hN]
        have : ¬ (0 = N) := by omega
        simp only [Bool.false_eq_true, beq_iff_eq, if_false, this]
        match hi : s.m.idle with
        | [] => simp [hi] at hlen; omega
        | w :: ws =>
          have := measure_order_lt (setNext s 0) j w js ws hj hi
          rw [measure_setNext] at this
          exact this
  | succ n ih =>
    intro s h hex hn hdn hwt
    by_cases hlt : s.m.next + 1 < N
    · by_cases hc : wt s s.m.next = true ∧ 0 < upc s s.m.next
      · exact collect_then_next0 N jobs hN hnd s h hex hc
      · have hs1 : masterTail s s = setNext s (s.m.next + 1) := by
          unfold masterTail; rw [if_pos (by rw [h.1.hN]; exact hlt)]
        have hstep : step s 0 false = some (setNext s (s.m.next + 1)) := by
          rw [step_master, masterTest_false_eq s hex, hs1]
        have hinv1 := step_inv N jobs hN hnd _ _ _ _ h hstep
        have hk : wt s s.m.next = false :=
          wt_false_of_quiet N jobs s h.1 _ (by omega) (hdn _ (by omega)) hc
        obtain ⟨sched, s', hr, hi, hn', hm⟩ := ih (setNext s (s.m.next + 1)) hinv1 hex
          (by simp [setNext]; omega) hdn
          (by
            intro i hi hik
            simp [setNext] at hik
            by_cases hik' : i < s.m.next
            · exact hwt i hi hik'
            · have : i = s.m.next := by omega
              subst this; exact hk)
        rw [measure_setNext] at hm
        exact ⟨(0, false) :: sched, s', run_append s [(0, false)] sched _ s' (run_single _ _ _ _ hstep) hr,
          hi, hn', hm⟩
    · exact ih s h hex (by omega) hdn hwt

/-- a worker with a message in its channel can receive it -/
theorem worker_can_receive (N : Nat) (jobs : List Nat) (s : SysD) (h : Core N jobs s) (i : Nat) (hi : i < N)
    (hd : dn s i ≠ []) : ∃ s', workerTest s i true = some s' := by
  obtain ⟨b, _, _, hph⟩ := h.ph
  obtain ⟨w, hw, hp⟩ := hph i hi
  have hpe : w.st = .pending ∧ w.exited = false := by
    rcases hp with h|h|h|h|h <;> simp_all
  match hm : dn s i with
  | [] => exact absurd hm hd
  | Msg.work j :: rest => exact ⟨_, workerTest_work s i w hw hpe.2 hpe.1 j rest hm⟩
  | Msg.finish :: rest => exact ⟨_, workerTest_finish s i w hw hpe.2 hpe.1 rest hm⟩

/-- from a state in which the master is at the top of its loop (or gone) and somebody is still running, progress can
be made, ending again with the master at the top of its loop (or gone) -/
theorem progress (N : Nat) (jobs : List Nat) (hN : 0 < N) (hnd : jobs.Nodup) (s : SysD) (h : Inv N jobs s)
    (h0 : s.m.next = 0) (hne : allExited s = false) :
    ∃ sched s', run s sched = some s' ∧ Inv N jobs s' ∧ s'.m.next = 0 ∧ measure s' < measure s := by
  by_cases hex : ∃ i, i < N ∧ dn s i ≠ []
  · obtain ⟨i, hiN, hd⟩ := hex
    obtain ⟨s', hs'⟩ := worker_can_receive N jobs s h.1 i hiN hd
    have hstep : step s (i + 1) true = some s' := by rw [step_worker s i true]; exact hs'
    have hm : s'.m = s.m := (workerTest_core N jobs hnd s s' i true h.1 hs').2
    exact ⟨[(i + 1, true)], s', run_single _ _ _ _ hstep, step_inv N jobs hN hnd _ _ _ _ h hstep,
      by rw [hm]; exact h0, (measure_step _ _ _ _ hstep).2 rfl⟩
  · have hquiet : ∀ i, i < N → dn s i = [] := by
      intro i hiN
      apply Classical.byContradiction
      intro hc
      exact hex ⟨i, hiN, hc⟩
    cases hme : s.m.exited
    · exact scan N jobs hN hnd N s h hme (by omega) hquiet (by intro i _ hi; rw [h0] at hi; omega)
    · -- the master is gone and all channels are empty: every worker is gone, too
      exfalso
      obtain ⟨_, hph⟩ := h.ph' hN
      have : allExited s = true := by
        simp only [allExited, Bool.and_eq_true, List.all_eq_true]
        refine ⟨hme, ?_⟩
        intro w hw
        obtain ⟨i, hi⟩ := List.mem_iff_getElem?.1 hw
        have hiN : i < N := by rw [← h.1.lws]; exact (List.getElem?_eq_some_iff.1 hi).1
        obtain ⟨w', hw', hp'⟩ := hph i hiN
        rw [hi] at hw'; cases hw'
        have := hquiet i hiN
        rcases hp' with h|h|h|h|h <;> simp_all
      rw [this] at hne; cases hne

theorem can_finish_aux (N : Nat) (jobs : List Nat) (hN : 0 < N) (hnd : jobs.Nodup) :
    ∀ (n : Nat) (s : SysD), Inv N jobs s → s.m.next = 0 → measure s ≤ n →
      ∃ sched s', run s sched = some s' ∧ allExited s' = true := by
  intro n
  induction n with
  | zero =>
    intro s h h0 hm
    cases hall : allExited s
    · obtain ⟨_, s', _, _, _, hlt⟩ := progress N jobs hN hnd s h h0 hall
      omega
    · exact ⟨[], s, rfl, hall⟩
  | succ n ih =>
    intro s h h0 hm
    cases hall : allExited s
    · obtain ⟨sched, s1, hr, hi, hn1, hlt⟩ := progress N jobs hN hnd s h h0 hall
      obtain ⟨sched2, s2, hr2, hall2⟩ := ih s1 hi hn1 (by omega)
      exact ⟨sched ++ sched2, s2, run_append s sched sched2 s1 s2 hr hr2, hall2⟩
    · exact ⟨[], s, rfl, hall⟩

/-- ... and from every reachable state the round can be completed: NO DEADLOCK, for any number of jobs (including none
and fewer than workers) and any number of workers -/
theorem can_finish (N : Nat) (jobs : List Nat) (hN : 0 < N) (hnd : jobs.Nodup) (s : SysD)
    (h : Reachable N jobs s) : ∃ sched s', run s sched = some s' ∧ allExited s' = true := by
  have hinv := reachable_inv N jobs hN hnd s h
  obtain ⟨sched1, s1, hr1, hi1, hn1, _⟩ := to_next0' N jobs hN hnd s hinv
  obtain ⟨sched2, s2, hr2, hall⟩ := can_finish_aux N jobs hN hnd (measure s1) s1 hi1 hn1 (Nat.le_refl _)
  exact ⟨sched1 ++ sched2, s2, run_append s sched1 sched2 s1 s2 hr1 hr2, hall⟩

end Pomerol.Spec.DispD
