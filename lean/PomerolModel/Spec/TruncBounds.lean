/-
  Block truncation (C19), continued: the stripe rule as an identity of finite sums, and error
  bounds for the dynamical susceptibility χ_AB(iΩ_k) and for one world line of the two-particle
  Green's function.

  Notion of "discarded" used throughout (the same as in `Spec/Gibbs.lean`, `trunc_bound_G`): a set of
  eigenstates (`D : Finset ι`), or directly a set `S` of index tuples, ALL of whose Gibbs weights are
  `≤ eps`.  (The library discards whole blocks; a block is discarded iff all its weights are
  `≤ eps`, so the set of states of the discarded blocks is such a `D`.  Closedness of `D` under
  "same block" is not needed for any bound.)

  * `stripe_rule_pairs`, `stripe_rule_quads`, `stripe_rule_G`, `stripe_rule_susc`,
    `stripe_rule_ordered`: the sum the library evaluates after truncation (a term is kept unless ALL
    its states are discarded) = full sum − sum over tuples with all states discarded.
  * `weight_diff_quotient_le`, `w_diff_le`: `|w_n − w_m| ≤ β·max(w_n, w_m)·|E_m − E_n|`.
  * `susc_truncation_bound` (k ≠ 0), `susc_truncation_bound_static` (k = 0) and their
    "full − truncated" forms `susc_stripe_error`, `susc_stripe_error_static`.
  * `multiTerm_bound_nonres`, `chi4_truncation_bound_partial`: one world line / one time ordering of
    the two-particle function, arbitrary complex frequencies, non-resonant regime only (`6·eps/δ³`).
  * `multiTerm_bound_imag`, `chi4_truncation_bound_imag`, `chi_stripe_error_imag`,
    `chi_stripe_error_matsubara`: purely imaginary (Matsubara) frequencies, ALL resonance classes,
    `4·eps/δ³ + 2·β·eps/δ²`, i.e. `(4 + 2π)·eps·β³/π³` with `δ = π/β`.
  * `absWeight_le_card`, `quadratic_row_normSq_le_one`, `quadratic_col_normSq_le_one`: dimension
    form of the susceptibility bound for quadratic operators.
-/
import PomerolModel.Spec.Gibbs
import PomerolModel.Spec.GFProps
import PomerolModel.Spec.Susc
import PomerolModel.Spec.Chi4
import Mathlib.Algebra.BigOperators.Group.Finset.Basic
import Mathlib.Algebra.Order.BigOperators.Group.Finset
import Mathlib.Tactic.Positivity
import Mathlib.Tactic.GCongr

namespace Pomerol.Spec
open Matrix Complex

variable {ι : Type} [Fintype ι] [DecidableEq ι]

set_option linter.unusedSectionVars false

/-! ## (1) the stripe rule: pure finite-sum algebra -/

/-- generic form: the terms NOT having property `P` sum to the full sum minus the terms having `P` -/
theorem stripe_rule_sum {α : Type} [Fintype α] (P : α → Prop) [DecidablePred P] (f : α → ℂ) :
    (∑ x, if ¬ P x then f x else 0) = (∑ x, f x) - ∑ x, if P x then f x else 0 := by
  rw [eq_sub_iff_add_eq, ← Finset.sum_add_distrib]
  refine Finset.sum_congr rfl fun x _ => ?_
  by_cases h : P x <;> simp [h]

/-- STRIPE RULE for pair sums: keeping the pairs `(n, m)` with `n ∉ D ∨ m ∉ D` (a stripe is skipped
only when BOTH blocks are discarded) = full sum − sum over `D × D` -/
theorem stripe_rule_pairs (D : Finset ι) (f : ι → ι → ℂ) :
    (∑ n, ∑ m, if n ∉ D ∨ m ∉ D then f n m else 0)
      = (∑ n, ∑ m, f n m) - ∑ p ∈ D ×ˢ D, f p.1 p.2 := by
  have h1 : (∑ n, ∑ m, if n ∉ D ∨ m ∉ D then f n m else 0)
      = ∑ p : ι × ι, if ¬ (p.1 ∈ D ∧ p.2 ∈ D) then f p.1 p.2 else 0 := by
    rw [Fintype.sum_prod_type]
    refine Finset.sum_congr rfl fun n _ => Finset.sum_congr rfl fun m _ => ?_
    by_cases hn : n ∈ D <;> by_cases hm : m ∈ D <;> simp [hn, hm]
  have h2 : (∑ p ∈ D ×ˢ D, f p.1 p.2)
      = ∑ p : ι × ι, if (p.1 ∈ D ∧ p.2 ∈ D) then f p.1 p.2 else 0 := by
    rw [← Finset.sum_filter]
    refine Finset.sum_congr ?_ fun _ _ => rfl
    ext p
    simp [Finset.mem_product]
  rw [h1, h2, stripe_rule_sum (fun p : ι × ι => p.1 ∈ D ∧ p.2 ∈ D), Fintype.sum_prod_type]

/-- STRIPE RULE for world-line (quadruple) sums: a world line is skipped only when ALL FOUR states
are discarded -/
theorem stripe_rule_quads (D : Finset ι) (f : ι → ι → ι → ι → ℂ) :
    (∑ n1, ∑ n2, ∑ n3, ∑ n4,
        if n1 ∉ D ∨ n2 ∉ D ∨ n3 ∉ D ∨ n4 ∉ D then f n1 n2 n3 n4 else 0)
      = (∑ n1, ∑ n2, ∑ n3, ∑ n4, f n1 n2 n3 n4)
        - ∑ p ∈ D ×ˢ D ×ˢ D ×ˢ D, f p.1 p.2.1 p.2.2.1 p.2.2.2 := by
  have h1 : (∑ n1, ∑ n2, ∑ n3, ∑ n4,
        if n1 ∉ D ∨ n2 ∉ D ∨ n3 ∉ D ∨ n4 ∉ D then f n1 n2 n3 n4 else 0)
      = ∑ p : ι × ι × ι × ι, if ¬ (p.1 ∈ D ∧ p.2.1 ∈ D ∧ p.2.2.1 ∈ D ∧ p.2.2.2 ∈ D)
          then f p.1 p.2.1 p.2.2.1 p.2.2.2 else 0 := by
    simp only [Fintype.sum_prod_type]
    refine Finset.sum_congr rfl fun n1 _ => Finset.sum_congr rfl fun n2 _ =>
      Finset.sum_congr rfl fun n3 _ => Finset.sum_congr rfl fun n4 _ => ?_
    by_cases h1 : n1 ∈ D <;> by_cases h2 : n2 ∈ D <;> by_cases h3 : n3 ∈ D <;>
      by_cases h4 : n4 ∈ D <;> simp [h1, h2, h3, h4]
  have h2 : (∑ p ∈ D ×ˢ D ×ˢ D ×ˢ D, f p.1 p.2.1 p.2.2.1 p.2.2.2)
      = ∑ p : ι × ι × ι × ι, if (p.1 ∈ D ∧ p.2.1 ∈ D ∧ p.2.2.1 ∈ D ∧ p.2.2.2 ∈ D)
          then f p.1 p.2.1 p.2.2.1 p.2.2.2 else 0 := by
    rw [← Finset.sum_filter]
    refine Finset.sum_congr ?_ fun _ _ => rfl
    ext p
    simp [Finset.mem_product]
  rw [h1, h2,
    stripe_rule_sum (fun p : ι × ι × ι × ι => p.1 ∈ D ∧ p.2.1 ∈ D ∧ p.2.2.1 ∈ D ∧ p.2.2.2 ∈ D)]
  simp only [Fintype.sum_prod_type]

/-! ### the stripe rule for the single-particle Green's function -/

/-- one term of the Lehmann sum of G -/
noncomputable def EigenData.gTerm (d : EigenData ι) (C CX : Matrix ι ι ℂ) (z : ℂ) (n m : ι) : ℂ :=
  C n m * CX m n * ((d.w n : ℂ) + (d.w m : ℂ)) / (z - ((d.E m - d.E n : ℝ) : ℂ))

theorem lehmannG_eq_sum_gTerm (d : EigenData ι) (C CX : Matrix ι ι ℂ) (z : ℂ) :
    d.lehmannG C CX z = ∑ n, ∑ m, d.gTerm C CX z n m := rfl

/-- the Lehmann sum of G after truncation: the term `(n, m)` is kept unless both states are
discarded -/
noncomputable def EigenData.truncLehmannG (d : EigenData ι) (C CX : Matrix ι ι ℂ) (D : Finset ι)
    (z : ℂ) : ℂ :=
  ∑ n, ∑ m, if n ∉ D ∨ m ∉ D then d.gTerm C CX z n m else 0

/-- STRIPE RULE for G -/
theorem stripe_rule_G (d : EigenData ι) (C CX : Matrix ι ι ℂ) (D : Finset ι) (z : ℂ) :
    d.truncLehmannG C CX D z
      = d.lehmannG C CX z - ∑ p ∈ D ×ˢ D, d.gTerm C CX z p.1 p.2 := by
  unfold EigenData.truncLehmannG
  rw [stripe_rule_pairs, lehmannG_eq_sum_gTerm]

/-- the truncation error of G in "full − truncated" form -/
theorem G_stripe_error [Nonempty ι] (d : EigenData ι) (C Dm : Matrix ι ι ℂ)
    (hC : C * Cᴴ + Cᴴ * C = 1) (hD : Dm * Dmᴴ + Dmᴴ * Dm = 1)
    (eps : ℝ) (heps : 0 ≤ eps) (D : Finset ι) (hD' : ∀ n ∈ D, d.w n ≤ eps)
    (z : ℂ) (hz : z.im ≠ 0) :
    ‖d.lehmannG C Dmᴴ z - d.truncLehmannG C Dmᴴ D z‖ ≤ 2 * eps * (Fintype.card ι) / |z.im| := by
  rw [stripe_rule_G, sub_sub_cancel]
  refine trunc_bound_G d C Dm hC hD eps heps (D ×ˢ D) (fun p hp => ?_) z hz
  rw [Finset.mem_product] at hp
  exact ⟨hD' _ hp.1, hD' _ hp.2⟩

/-! ## (2) the susceptibility -/

/-! ### scalar inequalities -/

theorem one_sub_exp_neg_le (x : ℝ) : 1 - Real.exp (-x) ≤ x := by
  linarith [Real.add_one_le_exp (-x)]

/-- `v = u e^{-βx}` with `x ≥ 0`: then `0 ≤ u − v ≤ β u x` -/
theorem ratio_diff_nonneg {β u v x : ℝ} (hβ : 0 ≤ β) (hu : 0 ≤ u) (hx : 0 ≤ x)
    (hv : v = u * Real.exp (-β * x)) : 0 ≤ u - v ∧ u - v ≤ β * u * x := by
  have h0 : 0 ≤ β * x := mul_nonneg hβ hx
  have he1 : Real.exp (-β * x) ≤ 1 := by
    rw [Real.exp_le_one_iff]; linarith
  have he2 : 1 - Real.exp (-β * x) ≤ β * x := by
    have := one_sub_exp_neg_le (β * x)
    rwa [show -(β * x) = -β * x by ring] at this
  have hd : u - v = u * (1 - Real.exp (-β * x)) := by rw [hv]; ring
  rw [hd]
  constructor
  · exact mul_nonneg hu (by linarith)
  · calc u * (1 - Real.exp (-β * x)) ≤ u * (β * x) := mul_le_mul_of_nonneg_left he2 hu
      _ = β * u * x := by ring

/-- two non-negative numbers in Boltzmann ratio `v = u e^{-βx}`:
`|u − v| ≤ β · max(u, v) · |x|` (mean-value / convexity estimate for the exponential) -/
theorem ratio_diff_le {β u v x : ℝ} (hβ : 0 ≤ β) (hu : 0 ≤ u)
    (hv : v = u * Real.exp (-β * x)) : |u - v| ≤ β * max u v * |x| := by
  have hv0 : 0 ≤ v := by rw [hv]; exact mul_nonneg hu (Real.exp_pos _).le
  rcases le_total 0 x with hx | hx
  · obtain ⟨h1, h2⟩ := ratio_diff_nonneg hβ hu hx hv
    rw [abs_of_nonneg h1, abs_of_nonneg hx]
    calc u - v ≤ β * u * x := h2
      _ ≤ β * max u v * x :=
        mul_le_mul_of_nonneg_right (mul_le_mul_of_nonneg_left (le_max_left _ _) hβ) hx
  · have hu' : u = v * Real.exp (-β * (-x)) := by
      rw [hv, mul_assoc, ← Real.exp_add]
      have : -β * x + -β * -x = 0 := by ring
      rw [this, Real.exp_zero, mul_one]
    have hx' : 0 ≤ -x := by linarith
    obtain ⟨h1, h2⟩ := ratio_diff_nonneg hβ hv0 hx' hu'
    rw [abs_sub_comm, abs_of_nonneg h1, abs_of_nonpos hx]
    calc v - u ≤ β * v * -x := h2
      _ ≤ β * max u v * -x :=
        mul_le_mul_of_nonneg_right (mul_le_mul_of_nonneg_left (le_max_right _ _) hβ) hx'

/-- THE SCALAR INEQUALITY: for `β > 0` and `a ≠ b`,
`|e^{-βa} − e^{-βb}| / |b − a| ≤ β · max(e^{-βa}, e^{-βb}) = β e^{-β min(a,b)}` -/
theorem weight_diff_quotient_le (β : ℝ) (hβ : 0 < β) (a b : ℝ) (hab : a ≠ b) :
    |Real.exp (-β * a) - Real.exp (-β * b)| / |b - a|
      ≤ β * max (Real.exp (-β * a)) (Real.exp (-β * b)) := by
  have hpos : 0 < |b - a| := abs_pos.mpr (sub_ne_zero.mpr (Ne.symm hab))
  rw [div_le_iff₀ hpos]
  refine ratio_diff_le hβ.le (Real.exp_pos _).le ?_
  rw [← Real.exp_add]
  congr 1; ring

/-- the same for Gibbs weights (normalised): `|w_n − w_m| ≤ β · max(w_n, w_m) · |E_m − E_n|` -/
theorem w_diff_le (d : EigenData ι) (n m : ι) :
    |d.w n - d.w m| ≤ d.β * max (d.w n) (d.w m) * |d.E m - d.E n| :=
  ratio_diff_le d.hβ.le (w_nonneg d n) (w_ratio' d n m)

/-- the difference quotient of two Gibbs weights both `≤ eps` is at most `β·eps` -/
theorem w_diff_quotient_le_eps (d : EigenData ι) (n m : ι) (hE : d.E m ≠ d.E n) (eps : ℝ)
    (hn : d.w n ≤ eps) (hm : d.w m ≤ eps) :
    |d.w n - d.w m| / |d.E m - d.E n| ≤ d.β * eps := by
  have hpos : 0 < |d.E m - d.E n| := abs_pos.mpr (sub_ne_zero.mpr hE)
  rw [div_le_iff₀ hpos]
  calc |d.w n - d.w m| ≤ d.β * max (d.w n) (d.w m) * |d.E m - d.E n| := w_diff_le d n m
    _ ≤ d.β * eps * |d.E m - d.E n| :=
      mul_le_mul_of_nonneg_right (mul_le_mul_of_nonneg_left (max_le hn hm) d.hβ.le) hpos.le

/-- two non-negative numbers `≤ eps` differ by at most `eps` -/
theorem abs_sub_le_of_nonneg_le {a b eps : ℝ} (ha : 0 ≤ a) (hb : 0 ≤ b) (hae : a ≤ eps)
    (hbe : b ≤ eps) : |a - b| ≤ eps := by
  rw [abs_le]; constructor <;> linarith

/-! ### the terms of the bosonic Lehmann sum -/

/-- one term of the bosonic Lehmann sum `lehmannSusc` -/
noncomputable def EigenData.suscTerm (d : EigenData ι) (A B : Matrix ι ι ℂ) (k : ℤ) (n m : ι) : ℂ :=
  if d.E m = d.E n then
    (if k = 0 then (d.β : ℂ) * (d.w n : ℂ) * A n m * B m n else 0)
  else -(A n m * B m n * ((d.w n : ℂ) - (d.w m : ℂ)))
        / (I * (d.Ω k : ℂ) - ((d.E m - d.E n : ℝ) : ℂ))

theorem lehmannSusc_eq_sum_suscTerm (d : EigenData ι) (A B : Matrix ι ι ℂ) (k : ℤ) :
    d.lehmannSusc A B k = ∑ n, ∑ m, d.suscTerm A B k n m := rfl

/-- the bosonic Lehmann sum after truncation: the term `(n, m)` is kept unless both states are
discarded -/
noncomputable def EigenData.truncLehmannSusc (d : EigenData ι) (A B : Matrix ι ι ℂ) (D : Finset ι)
    (k : ℤ) : ℂ :=
  ∑ n, ∑ m, if n ∉ D ∨ m ∉ D then d.suscTerm A B k n m else 0

/-- STRIPE RULE for χ_AB -/
theorem stripe_rule_susc (d : EigenData ι) (A B : Matrix ι ι ℂ) (D : Finset ι) (k : ℤ) :
    d.truncLehmannSusc A B D k
      = d.lehmannSusc A B k - ∑ p ∈ D ×ˢ D, d.suscTerm A B k p.1 p.2 := by
  unfold EigenData.truncLehmannSusc
  rw [stripe_rule_pairs, lehmannSusc_eq_sum_suscTerm]

/-- `|iΩ − P| ≥ |Ω|` -/
theorem abs_le_norm_I_mul_sub (y P : ℝ) : |y| ≤ ‖I * (y : ℂ) - (P : ℂ)‖ := by
  have h := Complex.abs_im_le_norm (I * (y : ℂ) - (P : ℂ))
  simpa using h

/-- dynamic term, `k ≠ 0`: at most `‖A_nm‖‖B_mn‖ · eps / |Ω_k|` -/
theorem suscTerm_bound (d : EigenData ι) (A B : Matrix ι ι ℂ) (k : ℤ) (hk : k ≠ 0) (n m : ι)
    (eps : ℝ) (hn : d.w n ≤ eps) (hm : d.w m ≤ eps) :
    ‖d.suscTerm A B k n m‖ ≤ ‖A n m‖ * ‖B m n‖ * (eps / |d.Ω k|) := by
  have hΩ : 0 < |d.Ω k| := abs_pos.mpr (fun h => hk ((Omega_eq_zero_iff d k).mp h))
  have heps : 0 ≤ eps := (w_nonneg d n).trans hn
  unfold EigenData.suscTerm
  by_cases hE : d.E m = d.E n
  · rw [if_pos hE, if_neg hk, norm_zero]
    positivity
  · rw [if_neg hE, norm_div, norm_neg, norm_mul, norm_mul]
    have hw : ‖(d.w n : ℂ) - (d.w m : ℂ)‖ ≤ eps := by
      rw [← Complex.ofReal_sub, Complex.norm_real, Real.norm_eq_abs]
      exact abs_sub_le_of_nonneg_le (w_nonneg d n) (w_nonneg d m) hn hm
    have hden : |d.Ω k| ≤ ‖I * (d.Ω k : ℂ) - ((d.E m - d.E n : ℝ) : ℂ)‖ :=
      abs_le_norm_I_mul_sub _ _
    calc ‖A n m‖ * ‖B m n‖ * ‖(d.w n : ℂ) - (d.w m : ℂ)‖
          / ‖I * (d.Ω k : ℂ) - ((d.E m - d.E n : ℝ) : ℂ)‖
        ≤ ‖A n m‖ * ‖B m n‖ * eps / |d.Ω k| := by gcongr
      _ = ‖A n m‖ * ‖B m n‖ * (eps / |d.Ω k|) := by ring

/-- static term, `k = 0`: at most `‖A_nm‖‖B_mn‖ · β · eps` (zero-pole terms AND difference-quotient
terms) -/
theorem suscTerm_bound_static (d : EigenData ι) (A B : Matrix ι ι ℂ) (n m : ι)
    (eps : ℝ) (hn : d.w n ≤ eps) (hm : d.w m ≤ eps) :
    ‖d.suscTerm A B 0 n m‖ ≤ ‖A n m‖ * ‖B m n‖ * (d.β * eps) := by
  have heps : 0 ≤ eps := (w_nonneg d n).trans hn
  unfold EigenData.suscTerm
  by_cases hE : d.E m = d.E n
  · rw [if_pos hE, if_pos rfl, norm_mul, norm_mul, norm_mul, Complex.norm_real, Complex.norm_real,
      Real.norm_eq_abs, Real.norm_eq_abs, abs_of_pos d.hβ, abs_of_nonneg (w_nonneg d n)]
    calc d.β * d.w n * ‖A n m‖ * ‖B m n‖ = ‖A n m‖ * ‖B m n‖ * (d.β * d.w n) := by ring
      _ ≤ ‖A n m‖ * ‖B m n‖ * (d.β * eps) := by
        have := d.hβ.le
        gcongr
  · rw [if_neg hE, norm_div, norm_neg, norm_mul, norm_mul]
    have h0 : d.Ω 0 = 0 := (Omega_eq_zero_iff d 0).mpr rfl
    have hden : ‖I * (d.Ω 0 : ℂ) - ((d.E m - d.E n : ℝ) : ℂ)‖ = |d.E m - d.E n| := by
      rw [h0, Complex.ofReal_zero, mul_zero, zero_sub, norm_neg, Complex.norm_real,
        Real.norm_eq_abs]
    have hw : ‖(d.w n : ℂ) - (d.w m : ℂ)‖ = |d.w n - d.w m| := by
      rw [← Complex.ofReal_sub, Complex.norm_real, Real.norm_eq_abs]
    rw [hden, hw, mul_div_assoc]
    exact mul_le_mul_of_nonneg_left (w_diff_quotient_le_eps d n m hE eps hn hm)
      (mul_nonneg (norm_nonneg _) (norm_nonneg _))

/-- summation helper: termwise bounds `‖t p‖ ≤ g p.1 p.2 · c` on `S` give
`‖Σ_{p∈S} t p‖ ≤ (Σ_n Σ_m g n m) · c` -/
theorem norm_sum_pairs_le (S : Finset (ι × ι)) (t : ι × ι → ℂ) (g : ι → ι → ℝ)
    (hg : ∀ n m, 0 ≤ g n m) (c : ℝ) (hc : 0 ≤ c) (h : ∀ p ∈ S, ‖t p‖ ≤ g p.1 p.2 * c) :
    ‖∑ p ∈ S, t p‖ ≤ (∑ n, ∑ m, g n m) * c :=
  calc ‖∑ p ∈ S, t p‖ ≤ ∑ p ∈ S, ‖t p‖ := norm_sum_le _ _
    _ ≤ ∑ p ∈ S, g p.1 p.2 * c := Finset.sum_le_sum h
    _ ≤ ∑ p : ι × ι, g p.1 p.2 * c :=
      Finset.sum_le_sum_of_subset_of_nonneg (Finset.subset_univ S)
        (fun p _ _ => mul_nonneg (hg _ _) hc)
    _ = (∑ n, ∑ m, g n m) * c := by rw [← Finset.sum_mul, Fintype.sum_prod_type]

/-- the "sum of norms" that multiplies `eps` in the susceptibility bounds -/
noncomputable def absWeight (A B : Matrix ι ι ℂ) : ℝ := ∑ n, ∑ m, ‖A n m‖ * ‖B m n‖

theorem absWeight_nonneg (A B : Matrix ι ι ℂ) : 0 ≤ absWeight A B :=
  Finset.sum_nonneg fun _ _ => Finset.sum_nonneg fun _ _ =>
    mul_nonneg (norm_nonneg _) (norm_nonneg _)

/-- sharp form of the dynamic bound (constant 1 instead of 2) -/
theorem susc_truncation_bound_sharp (d : EigenData ι) (A B : Matrix ι ι ℂ) (k : ℤ) (hk : k ≠ 0)
    (eps : ℝ) (heps : 0 ≤ eps) (S : Finset (ι × ι))
    (hS : ∀ p ∈ S, d.w p.1 ≤ eps ∧ d.w p.2 ≤ eps) :
    ‖∑ p ∈ S, d.suscTerm A B k p.1 p.2‖
      ≤ eps * (∑ n, ∑ m, ‖A n m‖ * ‖B m n‖) / |d.Ω k| := by
  have hΩ : 0 < |d.Ω k| := abs_pos.mpr (fun h => hk ((Omega_eq_zero_iff d k).mp h))
  have h := norm_sum_pairs_le S (fun p => d.suscTerm A B k p.1 p.2)
    (fun n m => ‖A n m‖ * ‖B m n‖) (fun _ _ => mul_nonneg (norm_nonneg _) (norm_nonneg _))
    (eps / |d.Ω k|) (div_nonneg heps hΩ.le)
    (fun p hp => suscTerm_bound d A B k hk p.1 p.2 eps (hS p hp).1 (hS p hp).2)
  calc ‖∑ p ∈ S, d.suscTerm A B k p.1 p.2‖
      ≤ (∑ n, ∑ m, ‖A n m‖ * ‖B m n‖) * (eps / |d.Ω k|) := h
    _ = eps * (∑ n, ∑ m, ‖A n m‖ * ‖B m n‖) / |d.Ω k| := by ring

/-- TRUNCATION BOUND for χ_AB(iΩ_k), `k ≠ 0`: the terms of the bosonic Lehmann sum over any set `S`
of pairs of eigenstates whose two weights are both `≤ eps` contribute at most
`2·eps·(Σ_{nm} ‖A_nm‖‖B_mn‖)/|Ω_k|` -/
theorem susc_truncation_bound (d : EigenData ι) (A B : Matrix ι ι ℂ) (k : ℤ) (hk : k ≠ 0)
    (eps : ℝ) (heps : 0 ≤ eps) (S : Finset (ι × ι))
    (hS : ∀ p ∈ S, d.w p.1 ≤ eps ∧ d.w p.2 ≤ eps) :
    ‖∑ p ∈ S, d.suscTerm A B k p.1 p.2‖
      ≤ 2 * eps * (∑ n, ∑ m, ‖A n m‖ * ‖B m n‖) / |d.Ω k| := by
  have hΩ : 0 < |d.Ω k| := abs_pos.mpr (fun h => hk ((Omega_eq_zero_iff d k).mp h))
  have hW := absWeight_nonneg A B
  unfold absWeight at hW
  calc ‖∑ p ∈ S, d.suscTerm A B k p.1 p.2‖
      ≤ eps * (∑ n, ∑ m, ‖A n m‖ * ‖B m n‖) / |d.Ω k| :=
        susc_truncation_bound_sharp d A B k hk eps heps S hS
    _ ≤ 2 * eps * (∑ n, ∑ m, ‖A n m‖ * ‖B m n‖) / |d.Ω k| := by
        apply div_le_div_of_nonneg_right _ hΩ.le
        nlinarith [mul_nonneg heps hW]

/-- TRUNCATION BOUND for the static susceptibility χ_AB(0): at most `β·eps·Σ_{nm} ‖A_nm‖‖B_mn‖` -/
theorem susc_truncation_bound_static (d : EigenData ι) (A B : Matrix ι ι ℂ)
    (eps : ℝ) (heps : 0 ≤ eps) (S : Finset (ι × ι))
    (hS : ∀ p ∈ S, d.w p.1 ≤ eps ∧ d.w p.2 ≤ eps) :
    ‖∑ p ∈ S, d.suscTerm A B 0 p.1 p.2‖
      ≤ d.β * eps * (∑ n, ∑ m, ‖A n m‖ * ‖B m n‖) := by
  have h := norm_sum_pairs_le S (fun p => d.suscTerm A B 0 p.1 p.2)
    (fun n m => ‖A n m‖ * ‖B m n‖) (fun _ _ => mul_nonneg (norm_nonneg _) (norm_nonneg _))
    (d.β * eps) (mul_nonneg d.hβ.le heps)
    (fun p hp => suscTerm_bound_static d A B p.1 p.2 eps (hS p hp).1 (hS p hp).2)
  calc ‖∑ p ∈ S, d.suscTerm A B 0 p.1 p.2‖
      ≤ (∑ n, ∑ m, ‖A n m‖ * ‖B m n‖) * (d.β * eps) := h
    _ = d.β * eps * (∑ n, ∑ m, ‖A n m‖ * ‖B m n‖) := by ring

/-- "full − truncated" form, `k ≠ 0` -/
theorem susc_stripe_error (d : EigenData ι) (A B : Matrix ι ι ℂ) (k : ℤ) (hk : k ≠ 0)
    (eps : ℝ) (heps : 0 ≤ eps) (D : Finset ι) (hD : ∀ n ∈ D, d.w n ≤ eps) :
    ‖d.lehmannSusc A B k - d.truncLehmannSusc A B D k‖
      ≤ 2 * eps * (∑ n, ∑ m, ‖A n m‖ * ‖B m n‖) / |d.Ω k| := by
  rw [stripe_rule_susc, sub_sub_cancel]
  refine susc_truncation_bound d A B k hk eps heps (D ×ˢ D) (fun p hp => ?_)
  rw [Finset.mem_product] at hp
  exact ⟨hD _ hp.1, hD _ hp.2⟩

/-- "full − truncated" form, `k = 0` -/
theorem susc_stripe_error_static (d : EigenData ι) (A B : Matrix ι ι ℂ)
    (eps : ℝ) (heps : 0 ≤ eps) (D : Finset ι) (hD : ∀ n ∈ D, d.w n ≤ eps) :
    ‖d.lehmannSusc A B 0 - d.truncLehmannSusc A B D 0‖
      ≤ d.β * eps * (∑ n, ∑ m, ‖A n m‖ * ‖B m n‖) := by
  rw [stripe_rule_susc, sub_sub_cancel]
  refine susc_truncation_bound_static d A B eps heps (D ×ˢ D) (fun p hp => ?_)
  rw [Finset.mem_product] at hp
  exact ⟨hD _ hp.1, hD _ hp.2⟩

/-! ## (3) the two-particle Green's function: one world line, non-resonant regime -/

/-- NON-RESONANT regime with margin `δ`: all six denominators that occur in the non-resonant branches
of `multiTerm` are at least `δ` in modulus -/
structure NonResonant (δ : ℝ) (z1 z2 z3 : ℂ) (P1 P2 P3 : ℝ) : Prop where
  h1 : δ ≤ ‖z1 - (P1:ℂ)‖
  h2 : δ ≤ ‖z2 - (P2:ℂ)‖
  h3 : δ ≤ ‖z3 - (P3:ℂ)‖
  h12 : δ ≤ ‖z1 + z2 - (P1:ℂ) - (P2:ℂ)‖
  h23 : δ ≤ ‖z2 + z3 - (P2:ℂ) - (P3:ℂ)‖
  h123 : δ ≤ ‖z1 + z2 + z3 - (P1:ℂ) - (P2:ℂ) - (P3:ℂ)‖

theorem norm_div_mul3_le {x a b c : ℂ} {N δ : ℝ} (hδ : 0 < δ) (hx : ‖x‖ ≤ N)
    (ha : δ ≤ ‖a‖) (hb : δ ≤ ‖b‖) (hc : δ ≤ ‖c‖) : ‖x / (a * b * c)‖ ≤ N / δ ^ 3 := by
  rw [norm_div, norm_mul, norm_mul]
  have hN : 0 ≤ N := (norm_nonneg _).trans hx
  calc ‖x‖ / (‖a‖ * ‖b‖ * ‖c‖) ≤ N / (δ * δ * δ) := by gcongr
    _ = N / δ ^ 3 := by ring

/-- BOUND FOR ONE WORLD LINE (unit matrix-element product), NON-RESONANT REGIME: the closed form
bounded is exactly `multiTerm` of `Spec/Simplex.lean` (the value of `w_i ·` simplex integral, see
`simplex_closed_form`), i.e.
`−(w_j+w_k)/((z₁−P₁)(z₂−P₂)(z₃−P₃)) + (w_i+w_l)/((z₁−P₁)(z₁+z₂+z₃−P₁−P₂−P₃)(z₃−P₃))
 + (w_k−w_i)/((z₁+z₂−P₁−P₂)(z₁−P₁)(z₃−P₃)) + (w_j−w_l)/((z₂+z₃−P₂−P₃)(z₁−P₁)(z₃−P₃))`.
If all six denominators are `≥ δ > 0` in modulus and the four weights lie in `[0, eps]`, its modulus
is at most `6·eps/δ³` (2 + 2 + 1 + 1).
NOT COVERED: the resonant classes `z₁+z₂ = P₁+P₂` / `z₂+z₃ = P₂+P₃`, where `multiTerm` contains the
terms `β·w_i/((z₁−P₁)(z₃−P₃))`, `−β·w_j/((z₁−P₁)(z₃−P₃))` (these would give `β·eps/δ²`), and
near-resonant denominators below `δ`. -/
theorem multiTerm_bound_nonres (β : ℝ) (z1 z2 z3 : ℂ) (P1 P2 P3 : ℝ) (wi wj wk wl eps δ : ℝ)
    (hδ : 0 < δ) (hnr : NonResonant δ z1 z2 z3 P1 P2 P3)
    (hi0 : 0 ≤ wi) (hj0 : 0 ≤ wj) (hk0 : 0 ≤ wk) (hl0 : 0 ≤ wl)
    (hi : wi ≤ eps) (hj : wj ≤ eps) (hk : wk ≤ eps) (hl : wl ≤ eps) :
    ‖multiTerm β z1 z2 z3 P1 P2 P3 wi wj wk wl‖ ≤ 6 * eps / δ ^ 3 := by
  obtain ⟨h1, h2, h3, h12, h23, h123⟩ := hnr
  have n12 : z1 + z2 - (P1:ℂ) - (P2:ℂ) ≠ 0 := fun h => by
    rw [h, norm_zero] at h12; linarith
  have n23 : z2 + z3 - (P2:ℂ) - (P3:ℂ) ≠ 0 := fun h => by
    rw [h, norm_zero] at h23; linarith
  unfold multiTerm
  rw [if_neg n12, if_neg n23, div_div, div_div]
  have t1 : ‖(-((wj:ℂ) + wk)) / ((z1 - P1) * (z2 - P2) * (z3 - P3))‖ ≤ (2 * eps) / δ ^ 3 := by
    refine norm_div_mul3_le hδ ?_ h1 h2 h3
    rw [norm_neg, ← Complex.ofReal_add, Complex.norm_real, Real.norm_eq_abs,
      abs_of_nonneg (add_nonneg hj0 hk0)]
    linarith
  have t2 : ‖((wi:ℂ) + wl) / ((z1 - P1) * (z1 + z2 + z3 - P1 - P2 - P3) * (z3 - P3))‖
      ≤ (2 * eps) / δ ^ 3 := by
    refine norm_div_mul3_le hδ ?_ h1 h123 h3
    rw [← Complex.ofReal_add, Complex.norm_real, Real.norm_eq_abs,
      abs_of_nonneg (add_nonneg hi0 hl0)]
    linarith
  have t3 : ‖((wk:ℂ) - wi) / ((z1 + z2 - P1 - P2) * ((z1 - P1) * (z3 - P3)))‖ ≤ eps / δ ^ 3 := by
    rw [← mul_assoc]
    refine norm_div_mul3_le hδ ?_ h12 h1 h3
    rw [← Complex.ofReal_sub, Complex.norm_real, Real.norm_eq_abs]
    exact abs_sub_le_of_nonneg_le hk0 hi0 hk hi
  have t4 : ‖((wj:ℂ) - wl) / ((z2 + z3 - P2 - P3) * ((z1 - P1) * (z3 - P3)))‖ ≤ eps / δ ^ 3 := by
    rw [← mul_assoc]
    refine norm_div_mul3_le hδ ?_ h23 h1 h3
    rw [← Complex.ofReal_sub, Complex.norm_real, Real.norm_eq_abs]
    exact abs_sub_le_of_nonneg_le hj0 hl0 hj hl
  calc _ ≤ (2 * eps) / δ ^ 3 + (2 * eps) / δ ^ 3 + eps / δ ^ 3 + eps / δ ^ 3 :=
        (norm_add_le _ _).trans (add_le_add ((norm_add_le _ _).trans (add_le_add
          ((norm_add_le _ _).trans (add_le_add t1 t2)) t3)) t4)
    _ = 6 * eps / δ ^ 3 := by ring

/-! ### world-line sums -/

/-- the term of one world line `(n1, n2, n3, n4)` in `orderedLehmann` -/
noncomputable def EigenData.worldLineTerm (d : EigenData ι) (A B Cc X : Matrix ι ι ℂ)
    (za zb zc : ℂ) (n1 n2 n3 n4 : ι) : ℂ :=
  A n1 n2 * B n2 n3 * Cc n3 n4 * X n4 n1 *
    multiTerm d.β za zb zc (d.E n2 - d.E n1) (d.E n3 - d.E n2) (d.E n4 - d.E n3)
      (d.w n1) (d.w n2) (d.w n3) (d.w n4)

theorem orderedLehmann_eq_sum_worldLineTerm (d : EigenData ι) (A B Cc X : Matrix ι ι ℂ)
    (za zb zc : ℂ) :
    d.orderedLehmann A B Cc X za zb zc
      = ∑ n1, ∑ n2, ∑ n3, ∑ n4, d.worldLineTerm A B Cc X za zb zc n1 n2 n3 n4 := rfl

/-- the sum of norms of matrix-element products over all world lines -/
noncomputable def absWeight4 (A B Cc X : Matrix ι ι ℂ) : ℝ :=
  ∑ n1, ∑ n2, ∑ n3, ∑ n4, ‖A n1 n2‖ * ‖B n2 n3‖ * ‖Cc n3 n4‖ * ‖X n4 n1‖

theorem absWeight4_nonneg (A B Cc X : Matrix ι ι ℂ) : 0 ≤ absWeight4 A B Cc X :=
  Finset.sum_nonneg fun _ _ => Finset.sum_nonneg fun _ _ => Finset.sum_nonneg fun _ _ =>
    Finset.sum_nonneg fun _ _ => by positivity

/-- TRUNCATION BOUND for one time ordering of the two-particle function, NON-RESONANT REGIME ONLY
(hence `_partial`): `S` is any set of world lines all four of whose weights are `≤ eps` and all of
whose denominators are `≥ δ` (hypothesis `hnr`); their total contribution to `orderedLehmann` is at
most `6·eps/δ³ · Σ ‖A‖‖B‖‖C‖‖X‖`.
WHAT IS MISSING HERE: the same for ARBITRARY complex frequencies without `hnr` (resonant and
near-resonant world lines, where `multiTerm` has `β`-proportional terms).  For purely imaginary
frequencies — the only ones the library uses — the full statement IS proved below:
`chi4_truncation_bound_imag` (bound `4·eps/δ³ + 2·β·eps/δ²`, no hypothesis on the bosonic
denominators) and `chi_stripe_error_matsubara`. -/
theorem chi4_truncation_bound_partial (d : EigenData ι) (A B Cc X : Matrix ι ι ℂ) (za zb zc : ℂ)
    (eps δ : ℝ) (heps : 0 ≤ eps) (hδ : 0 < δ) (S : Finset (ι × ι × ι × ι))
    (hS : ∀ p ∈ S, d.w p.1 ≤ eps ∧ d.w p.2.1 ≤ eps ∧ d.w p.2.2.1 ≤ eps ∧ d.w p.2.2.2 ≤ eps)
    (hnr : ∀ p ∈ S, NonResonant δ za zb zc
      (d.E p.2.1 - d.E p.1) (d.E p.2.2.1 - d.E p.2.1) (d.E p.2.2.2 - d.E p.2.2.1)) :
    ‖∑ p ∈ S, d.worldLineTerm A B Cc X za zb zc p.1 p.2.1 p.2.2.1 p.2.2.2‖
      ≤ 6 * eps / δ ^ 3 * absWeight4 A B Cc X := by
  have hc : 0 ≤ 6 * eps / δ ^ 3 := by positivity
  have hterm : ∀ p ∈ S, ‖d.worldLineTerm A B Cc X za zb zc p.1 p.2.1 p.2.2.1 p.2.2.2‖
      ≤ ‖A p.1 p.2.1‖ * ‖B p.2.1 p.2.2.1‖ * ‖Cc p.2.2.1 p.2.2.2‖ * ‖X p.2.2.2 p.1‖
        * (6 * eps / δ ^ 3) := by
    intro p hp
    obtain ⟨w1, w2, w3, w4⟩ := hS p hp
    unfold EigenData.worldLineTerm
    rw [norm_mul, norm_mul, norm_mul, norm_mul]
    exact mul_le_mul_of_nonneg_left
      (multiTerm_bound_nonres d.β za zb zc _ _ _ _ _ _ _ eps δ hδ (hnr p hp)
        (w_nonneg d _) (w_nonneg d _) (w_nonneg d _) (w_nonneg d _) w1 w2 w3 w4)
      (by positivity)
  calc ‖∑ p ∈ S, d.worldLineTerm A B Cc X za zb zc p.1 p.2.1 p.2.2.1 p.2.2.2‖
      ≤ ∑ p ∈ S, ‖d.worldLineTerm A B Cc X za zb zc p.1 p.2.1 p.2.2.1 p.2.2.2‖ :=
        norm_sum_le _ _
    _ ≤ ∑ p ∈ S, ‖A p.1 p.2.1‖ * ‖B p.2.1 p.2.2.1‖ * ‖Cc p.2.2.1 p.2.2.2‖ * ‖X p.2.2.2 p.1‖
          * (6 * eps / δ ^ 3) := Finset.sum_le_sum hterm
    _ ≤ ∑ p : ι × ι × ι × ι,
          ‖A p.1 p.2.1‖ * ‖B p.2.1 p.2.2.1‖ * ‖Cc p.2.2.1 p.2.2.2‖ * ‖X p.2.2.2 p.1‖
          * (6 * eps / δ ^ 3) :=
        Finset.sum_le_sum_of_subset_of_nonneg (Finset.subset_univ S)
          (fun p _ _ => mul_nonneg (by positivity) hc)
    _ = 6 * eps / δ ^ 3 * absWeight4 A B Cc X := by
        rw [← Finset.sum_mul, mul_comm]
        unfold absWeight4
        simp only [Fintype.sum_prod_type]

/-- `orderedLehmann` after truncation: a world line is kept unless all four states are discarded -/
noncomputable def EigenData.truncOrderedLehmann (d : EigenData ι) (A B Cc X : Matrix ι ι ℂ)
    (D : Finset ι) (za zb zc : ℂ) : ℂ :=
  ∑ n1, ∑ n2, ∑ n3, ∑ n4, if n1 ∉ D ∨ n2 ∉ D ∨ n3 ∉ D ∨ n4 ∉ D
    then d.worldLineTerm A B Cc X za zb zc n1 n2 n3 n4 else 0

/-- STRIPE RULE for one time ordering of the two-particle function -/
theorem stripe_rule_ordered (d : EigenData ι) (A B Cc X : Matrix ι ι ℂ) (D : Finset ι)
    (za zb zc : ℂ) :
    d.truncOrderedLehmann A B Cc X D za zb zc
      = d.orderedLehmann A B Cc X za zb zc
        - ∑ p ∈ D ×ˢ D ×ˢ D ×ˢ D, d.worldLineTerm A B Cc X za zb zc p.1 p.2.1 p.2.2.1 p.2.2.2 := by
  unfold EigenData.truncOrderedLehmann
  rw [stripe_rule_quads, orderedLehmann_eq_sum_worldLineTerm]

/-- "full − truncated" form for one time ordering; non-resonance is required for ALL level
differences (hypothesis `hnr`), e.g. purely imaginary frequencies, see `nonResonant_of_imag` -/
theorem ordered_stripe_error_partial (d : EigenData ι) (A B Cc X : Matrix ι ι ℂ) (za zb zc : ℂ)
    (eps δ : ℝ) (heps : 0 ≤ eps) (hδ : 0 < δ) (D : Finset ι) (hD : ∀ n ∈ D, d.w n ≤ eps)
    (hnr : ∀ P1 P2 P3 : ℝ, NonResonant δ za zb zc P1 P2 P3) :
    ‖d.orderedLehmann A B Cc X za zb zc - d.truncOrderedLehmann A B Cc X D za zb zc‖
      ≤ 6 * eps / δ ^ 3 * absWeight4 A B Cc X := by
  rw [stripe_rule_ordered, sub_sub_cancel]
  refine chi4_truncation_bound_partial d A B Cc X za zb zc eps δ heps hδ _ (fun p hp => ?_)
    (fun p _ => hnr _ _ _)
  simp only [Finset.mem_product] at hp
  exact ⟨hD _ hp.1, hD _ hp.2.1, hD _ hp.2.2.1, hD _ hp.2.2.2⟩

/-- purely imaginary frequencies `z_a = i y_a` are non-resonant for EVERY choice of (real) level
differences, with margin the smallest of `|y₁|, |y₂|, |y₃|, |y₁+y₂|, |y₂+y₃|, |y₁+y₂+y₃|` -/
theorem nonResonant_of_imag (δ y1 y2 y3 : ℝ) (h1 : δ ≤ |y1|) (h2 : δ ≤ |y2|) (h3 : δ ≤ |y3|)
    (h12 : δ ≤ |y1 + y2|) (h23 : δ ≤ |y2 + y3|) (h123 : δ ≤ |y1 + y2 + y3|) (P1 P2 P3 : ℝ) :
    NonResonant δ (I * (y1:ℂ)) (I * (y2:ℂ)) (I * (y3:ℂ)) P1 P2 P3 := by
  refine ⟨h1.trans (abs_le_norm_I_mul_sub _ _), h2.trans (abs_le_norm_I_mul_sub _ _),
    h3.trans (abs_le_norm_I_mul_sub _ _), ?_, ?_, ?_⟩
  · have e : I * (y1:ℂ) + I * (y2:ℂ) - (P1:ℂ) - (P2:ℂ)
        = I * ((y1 + y2 : ℝ) : ℂ) - ((P1 + P2 : ℝ) : ℂ) := by push_cast; ring
    rw [e]; exact h12.trans (abs_le_norm_I_mul_sub _ _)
  · have e : I * (y2:ℂ) + I * (y3:ℂ) - (P2:ℂ) - (P3:ℂ)
        = I * ((y2 + y3 : ℝ) : ℂ) - ((P2 + P3 : ℝ) : ℂ) := by push_cast; ring
    rw [e]; exact h23.trans (abs_le_norm_I_mul_sub _ _)
  · have e : I * (y1:ℂ) + I * (y2:ℂ) + I * (y3:ℂ) - (P1:ℂ) - (P2:ℂ) - (P3:ℂ)
        = I * ((y1 + y2 + y3 : ℝ) : ℂ) - ((P1 + P2 + P3 : ℝ) : ℂ) := by push_cast; ring
    rw [e]; exact h123.trans (abs_le_norm_I_mul_sub _ _)

/-! ## (3') ALL resonance classes at purely imaginary (Matsubara) frequencies

At purely imaginary frequencies the "bosonic" denominators `i(y₁+y₂) − (P₁+P₂)` may vanish or be
arbitrarily small (when `y₁+y₂ = 0`), but then the numerator `w_k − w_i` is small too: by
`ratio_diff_le` the bracket `(w_k − w_i)/(z₁+z₂−P₁−P₂)` is ALWAYS at most `β·eps`, the same as the
resonant value `β·w_i`.  This gives a bound without any non-resonance hypothesis on `z₁+z₂`,
`z₂+z₃`. -/

theorem abs_le_norm_I_mul_sub' (y P : ℝ) : |P| ≤ ‖I * (y : ℂ) - (P : ℂ)‖ := by
  have h := Complex.abs_re_le_norm (I * (y : ℂ) - (P : ℂ))
  simpa using h

/-- difference quotient over a purely-imaginary-shifted pole -/
theorem diffquot_imag_le {β u v x y eps : ℝ} (hβ : 0 ≤ β) (hu : 0 ≤ u)
    (hv : v = u * Real.exp (-β * x)) (hue : u ≤ eps) (hve : v ≤ eps)
    (ha : I * (y:ℂ) - (x:ℂ) ≠ 0) :
    ‖((u:ℂ) - v) / (I * (y:ℂ) - (x:ℂ))‖ ≤ β * eps := by
  rw [norm_div, div_le_iff₀ (norm_pos_iff.mpr ha), ← Complex.ofReal_sub, Complex.norm_real,
    Real.norm_eq_abs]
  have heps : 0 ≤ eps := hu.trans hue
  calc |u - v| ≤ β * max u v * |x| := ratio_diff_le hβ hu hv
    _ ≤ β * eps * ‖I * (y:ℂ) - (x:ℂ)‖ := by
      have h1 : max u v ≤ eps := max_le hue hve
      have h2 := abs_le_norm_I_mul_sub' y x
      have h3 : 0 ≤ max u v := le_max_of_le_left hu
      gcongr

theorem norm_div_mul2_le {x a b : ℂ} {N δ : ℝ} (hδ : 0 < δ) (hx : ‖x‖ ≤ N)
    (ha : δ ≤ ‖a‖) (hb : δ ≤ ‖b‖) : ‖x / (a * b)‖ ≤ N / δ ^ 2 := by
  rw [norm_div, norm_mul]
  have hN : 0 ≤ N := (norm_nonneg _).trans hx
  calc ‖x‖ / (‖a‖ * ‖b‖) ≤ N / (δ * δ) := by gcongr
    _ = N / δ ^ 2 := by ring

/-- BOUND FOR ONE WORLD LINE, ALL RESONANCE CLASSES, purely imaginary frequencies `z_a = i·y_a`
with `|y_a| ≥ δ`, `|y₁+y₂+y₃| ≥ δ` (true for fermionic Matsubara frequencies with `δ = π/β`), weights
Boltzmann-related along the world line (as in `simplex_closed_form`) and all `≤ eps`:
`‖multiTerm‖ ≤ 4·eps/δ³ + 2·β·eps/δ²`.  No hypothesis on `y₁+y₂`, `y₂+y₃`. -/
theorem multiTerm_bound_imag (β : ℝ) (hβ : 0 < β) (y1 y2 y3 : ℝ) (P1 P2 P3 : ℝ)
    (wi wj wk wl eps δ : ℝ) (hδ : 0 < δ)
    (h1 : δ ≤ |y1|) (h2 : δ ≤ |y2|) (h3 : δ ≤ |y3|) (h123 : δ ≤ |y1 + y2 + y3|)
    (hi0 : 0 ≤ wi)
    (hj : wj = wi * Real.exp (-β * P1)) (hk : wk = wj * Real.exp (-β * P2))
    (hl : wl = wk * Real.exp (-β * P3))
    (hie : wi ≤ eps) (hje : wj ≤ eps) (hke : wk ≤ eps) (hle : wl ≤ eps) :
    ‖multiTerm β (I * (y1:ℂ)) (I * (y2:ℂ)) (I * (y3:ℂ)) P1 P2 P3 wi wj wk wl‖
      ≤ 4 * eps / δ ^ 3 + 2 * β * eps / δ ^ 2 := by
  have hj0 : 0 ≤ wj := by rw [hj]; exact mul_nonneg hi0 (Real.exp_pos _).le
  have hk0 : 0 ≤ wk := by rw [hk]; exact mul_nonneg hj0 (Real.exp_pos _).le
  have hl0 : 0 ≤ wl := by rw [hl]; exact mul_nonneg hk0 (Real.exp_pos _).le
  have heps : 0 ≤ eps := hi0.trans hie
  have d1 : δ ≤ ‖I * (y1:ℂ) - (P1:ℂ)‖ := h1.trans (abs_le_norm_I_mul_sub _ _)
  have d2 : δ ≤ ‖I * (y2:ℂ) - (P2:ℂ)‖ := h2.trans (abs_le_norm_I_mul_sub _ _)
  have d3 : δ ≤ ‖I * (y3:ℂ) - (P3:ℂ)‖ := h3.trans (abs_le_norm_I_mul_sub _ _)
  have d123 : δ ≤ ‖I * (y1:ℂ) + I * (y2:ℂ) + I * (y3:ℂ) - (P1:ℂ) - (P2:ℂ) - (P3:ℂ)‖ := by
    have e : I * (y1:ℂ) + I * (y2:ℂ) + I * (y3:ℂ) - (P1:ℂ) - (P2:ℂ) - (P3:ℂ)
        = I * ((y1 + y2 + y3 : ℝ) : ℂ) - ((P1 + P2 + P3 : ℝ) : ℂ) := by push_cast; ring
    rw [e]; exact h123.trans (abs_le_norm_I_mul_sub _ _)
  have e12 : I * (y1:ℂ) + I * (y2:ℂ) - (P1:ℂ) - (P2:ℂ)
      = I * ((y1 + y2 : ℝ) : ℂ) - ((P1 + P2 : ℝ) : ℂ) := by push_cast; ring
  have e23 : I * (y2:ℂ) + I * (y3:ℂ) - (P2:ℂ) - (P3:ℂ)
      = I * ((y2 + y3 : ℝ) : ℂ) - ((P2 + P3 : ℝ) : ℂ) := by push_cast; ring
  have hki : wk = wi * Real.exp (-β * (P1 + P2)) := by
    rw [hk, hj, mul_assoc, ← Real.exp_add]; congr 2; ring
  have hlj : wl = wj * Real.exp (-β * (P2 + P3)) := by
    rw [hl, hk, mul_assoc, ← Real.exp_add]; congr 2; ring
  -- the two brackets
  have b3 : ‖(if I * (y1:ℂ) + I * (y2:ℂ) - (P1:ℂ) - (P2:ℂ) = 0 then (β:ℂ) * wi
      else ((wk:ℂ) - wi) / (I * (y1:ℂ) + I * (y2:ℂ) - (P1:ℂ) - (P2:ℂ)))‖ ≤ β * eps := by
    by_cases h : I * (y1:ℂ) + I * (y2:ℂ) - (P1:ℂ) - (P2:ℂ) = 0
    · rw [if_pos h, norm_mul, Complex.norm_real, Complex.norm_real, Real.norm_eq_abs,
        Real.norm_eq_abs, abs_of_pos hβ, abs_of_nonneg hi0]
      exact mul_le_mul_of_nonneg_left hie hβ.le
    · rw [if_neg h]
      rw [e12] at h ⊢
      rw [norm_div, norm_sub_rev, ← norm_div]
      exact diffquot_imag_le hβ.le hi0 hki hie hke h
  have b4 : ‖(if I * (y2:ℂ) + I * (y3:ℂ) - (P2:ℂ) - (P3:ℂ) = 0 then -((β:ℂ) * wj)
      else ((wj:ℂ) - wl) / (I * (y2:ℂ) + I * (y3:ℂ) - (P2:ℂ) - (P3:ℂ)))‖ ≤ β * eps := by
    by_cases h : I * (y2:ℂ) + I * (y3:ℂ) - (P2:ℂ) - (P3:ℂ) = 0
    · rw [if_pos h, norm_neg, norm_mul, Complex.norm_real, Complex.norm_real, Real.norm_eq_abs,
        Real.norm_eq_abs, abs_of_pos hβ, abs_of_nonneg hj0]
      exact mul_le_mul_of_nonneg_left hje hβ.le
    · rw [if_neg h]
      rw [e23] at h ⊢
      exact diffquot_imag_le hβ.le hj0 hlj hje hle h
  unfold multiTerm
  have t1 : ‖(-((wj:ℂ) + wk)) / ((I * (y1:ℂ) - P1) * (I * (y2:ℂ) - P2) * (I * (y3:ℂ) - P3))‖
      ≤ (2 * eps) / δ ^ 3 := by
    refine norm_div_mul3_le hδ ?_ d1 d2 d3
    rw [norm_neg, ← Complex.ofReal_add, Complex.norm_real, Real.norm_eq_abs,
      abs_of_nonneg (add_nonneg hj0 hk0)]
    linarith
  have t2 : ‖((wi:ℂ) + wl) / ((I * (y1:ℂ) - P1)
        * (I * (y1:ℂ) + I * (y2:ℂ) + I * (y3:ℂ) - P1 - P2 - P3) * (I * (y3:ℂ) - P3))‖
      ≤ (2 * eps) / δ ^ 3 := by
    refine norm_div_mul3_le hδ ?_ d1 d123 d3
    rw [← Complex.ofReal_add, Complex.norm_real, Real.norm_eq_abs,
      abs_of_nonneg (add_nonneg hi0 hl0)]
    linarith
  have t3 := norm_div_mul2_le hδ b3 d1 d3
  have t4 := norm_div_mul2_le hδ b4 d1 d3
  calc _ ≤ (2 * eps) / δ ^ 3 + (2 * eps) / δ ^ 3 + β * eps / δ ^ 2 + β * eps / δ ^ 2 :=
        (norm_add_le _ _).trans (add_le_add ((norm_add_le _ _).trans (add_le_add
          ((norm_add_le _ _).trans (add_le_add t1 t2)) t3)) t4)
    _ = 4 * eps / δ ^ 3 + 2 * β * eps / δ ^ 2 := by ring

/-- TRUNCATION BOUND for one time ordering, ALL resonance classes, purely imaginary frequencies:
any set `S` of world lines all four of whose weights are `≤ eps` contributes at most
`(4·eps/δ³ + 2·β·eps/δ²) · Σ ‖A‖‖B‖‖C‖‖X‖` to `orderedLehmann` -/
theorem chi4_truncation_bound_imag (d : EigenData ι) (A B Cc X : Matrix ι ι ℂ) (y1 y2 y3 : ℝ)
    (eps δ : ℝ) (heps : 0 ≤ eps) (hδ : 0 < δ)
    (h1 : δ ≤ |y1|) (h2 : δ ≤ |y2|) (h3 : δ ≤ |y3|) (h123 : δ ≤ |y1 + y2 + y3|)
    (S : Finset (ι × ι × ι × ι))
    (hS : ∀ p ∈ S, d.w p.1 ≤ eps ∧ d.w p.2.1 ≤ eps ∧ d.w p.2.2.1 ≤ eps ∧ d.w p.2.2.2 ≤ eps) :
    ‖∑ p ∈ S, d.worldLineTerm A B Cc X (I * (y1:ℂ)) (I * (y2:ℂ)) (I * (y3:ℂ))
        p.1 p.2.1 p.2.2.1 p.2.2.2‖
      ≤ (4 * eps / δ ^ 3 + 2 * d.β * eps / δ ^ 2) * absWeight4 A B Cc X := by
  have hβ := d.hβ
  have hc : 0 ≤ 4 * eps / δ ^ 3 + 2 * d.β * eps / δ ^ 2 := by positivity
  have hterm : ∀ p ∈ S, ‖d.worldLineTerm A B Cc X (I * (y1:ℂ)) (I * (y2:ℂ)) (I * (y3:ℂ))
        p.1 p.2.1 p.2.2.1 p.2.2.2‖
      ≤ ‖A p.1 p.2.1‖ * ‖B p.2.1 p.2.2.1‖ * ‖Cc p.2.2.1 p.2.2.2‖ * ‖X p.2.2.2 p.1‖
        * (4 * eps / δ ^ 3 + 2 * d.β * eps / δ ^ 2) := by
    intro p hp
    obtain ⟨w1, w2, w3, w4⟩ := hS p hp
    unfold EigenData.worldLineTerm
    rw [norm_mul, norm_mul, norm_mul, norm_mul]
    exact mul_le_mul_of_nonneg_left
      (multiTerm_bound_imag d.β d.hβ y1 y2 y3 _ _ _ _ _ _ _ eps δ hδ h1 h2 h3 h123
        (w_nonneg d _) (w_ratio' d _ _) (w_ratio' d _ _) (w_ratio' d _ _) w1 w2 w3 w4)
      (by positivity)
  calc _ ≤ ∑ p ∈ S, ‖d.worldLineTerm A B Cc X (I * (y1:ℂ)) (I * (y2:ℂ)) (I * (y3:ℂ))
          p.1 p.2.1 p.2.2.1 p.2.2.2‖ := norm_sum_le _ _
    _ ≤ ∑ p ∈ S, ‖A p.1 p.2.1‖ * ‖B p.2.1 p.2.2.1‖ * ‖Cc p.2.2.1 p.2.2.2‖ * ‖X p.2.2.2 p.1‖
          * (4 * eps / δ ^ 3 + 2 * d.β * eps / δ ^ 2) := Finset.sum_le_sum hterm
    _ ≤ ∑ p : ι × ι × ι × ι,
          ‖A p.1 p.2.1‖ * ‖B p.2.1 p.2.2.1‖ * ‖Cc p.2.2.1 p.2.2.2‖ * ‖X p.2.2.2 p.1‖
          * (4 * eps / δ ^ 3 + 2 * d.β * eps / δ ^ 2) :=
        Finset.sum_le_sum_of_subset_of_nonneg (Finset.subset_univ S)
          (fun p _ _ => mul_nonneg (by positivity) hc)
    _ = (4 * eps / δ ^ 3 + 2 * d.β * eps / δ ^ 2) * absWeight4 A B Cc X := by
        rw [← Finset.sum_mul, mul_comm]
        unfold absWeight4
        simp only [Fintype.sum_prod_type]

/-- "full − truncated" form for one time ordering, all resonance classes -/
theorem ordered_stripe_error_imag (d : EigenData ι) (A B Cc X : Matrix ι ι ℂ) (y1 y2 y3 : ℝ)
    (eps δ : ℝ) (heps : 0 ≤ eps) (hδ : 0 < δ)
    (h1 : δ ≤ |y1|) (h2 : δ ≤ |y2|) (h3 : δ ≤ |y3|) (h123 : δ ≤ |y1 + y2 + y3|)
    (D : Finset ι) (hD : ∀ n ∈ D, d.w n ≤ eps) :
    ‖d.orderedLehmann A B Cc X (I * (y1:ℂ)) (I * (y2:ℂ)) (I * (y3:ℂ))
        - d.truncOrderedLehmann A B Cc X D (I * (y1:ℂ)) (I * (y2:ℂ)) (I * (y3:ℂ))‖
      ≤ (4 * eps / δ ^ 3 + 2 * d.β * eps / δ ^ 2) * absWeight4 A B Cc X := by
  rw [stripe_rule_ordered, sub_sub_cancel]
  refine chi4_truncation_bound_imag d A B Cc X y1 y2 y3 eps δ heps hδ h1 h2 h3 h123 _
    (fun p hp => ?_)
  simp only [Finset.mem_product] at hp
  exact ⟨hD _ hp.1, hD _ hp.2.1, hD _ hp.2.2.1, hD _ hp.2.2.2⟩

/-! ### the full two-particle function: signed sum over the six time orderings -/

/-- `chiLehmann` after truncation -/
noncomputable def EigenData.truncChiLehmann (d : EigenData ι) (O : Fin 3 → Matrix ι ι ℂ)
    (X : Matrix ι ι ℂ) (D : Finset ι) (z : Fin 3 → ℂ) : ℂ :=
  (perms3.map fun p => (p.2 : ℂ) * d.truncOrderedLehmann (O (p.1 0)) (O (p.1 1)) (O (p.1 2)) X D
    (z (p.1 0)) (z (p.1 1)) (z (p.1 2))).sum

/-- sum over the six orderings of the sums of norms of matrix-element products -/
noncomputable def absWeightChi (O : Fin 3 → Matrix ι ι ℂ) (X : Matrix ι ι ℂ) : ℝ :=
  (perms3.map fun p => absWeight4 (O (p.1 0)) (O (p.1 1)) (O (p.1 2)) X).sum

theorem list_sum_map_sub {α : Type} (l : List α) (f g : α → ℂ) :
    (l.map f).sum - (l.map g).sum = (l.map fun a => f a - g a).sum := by
  induction l with
  | nil => simp
  | cons a l ih =>
    simp only [List.map_cons, List.sum_cons]
    rw [← ih]; ring

theorem norm_list_map_sum_le {α : Type} (l : List α) (f : α → ℂ) (g : α → ℝ)
    (h : ∀ a ∈ l, ‖f a‖ ≤ g a) : ‖(l.map f).sum‖ ≤ (l.map g).sum := by
  induction l with
  | nil => simp
  | cons a l ih =>
    simp only [List.map_cons, List.sum_cons]
    exact (norm_add_le _ _).trans (add_le_add (h a List.mem_cons_self)
      (ih fun b hb => h b (List.mem_cons_of_mem _ hb)))

theorem list_sum_map_mul_left' {α : Type} (l : List α) (c : ℝ) (g : α → ℝ) :
    (l.map fun a => c * g a).sum = c * (l.map g).sum := by
  induction l with
  | nil => simp
  | cons a l ih =>
    simp only [List.map_cons, List.sum_cons]
    rw [ih]; ring

theorem perms3_sign_norm : ∀ p ∈ perms3, ‖((p.2 : ℤ) : ℂ)‖ = 1 := by
  intro p hp
  simp only [perms3, List.mem_cons, List.not_mem_nil, or_false] at hp
  rcases hp with rfl | rfl | rfl | rfl | rfl | rfl <;> simp

theorem perms3_sum (y : Fin 3 → ℝ) :
    ∀ p ∈ perms3, y (p.1 0) + y (p.1 1) + y (p.1 2) = y 0 + y 1 + y 2 := by
  intro p hp
  simp only [perms3, List.mem_cons, List.not_mem_nil, or_false] at hp
  rcases hp with rfl | rfl | rfl | rfl | rfl | rfl <;> simp <;> ring

/-- TRUNCATION ERROR OF THE FULL TWO-PARTICLE FUNCTION (all six orderings, all resonance classes) at
purely imaginary frequencies `z_a = i·y_a`, `|y_a| ≥ δ`, `|y₀+y₁+y₂| ≥ δ` -/
theorem chi_stripe_error_imag (d : EigenData ι) (O : Fin 3 → Matrix ι ι ℂ) (X : Matrix ι ι ℂ)
    (y : Fin 3 → ℝ) (eps δ : ℝ) (heps : 0 ≤ eps) (hδ : 0 < δ)
    (hy : ∀ a, δ ≤ |y a|) (hsum : δ ≤ |y 0 + y 1 + y 2|)
    (D : Finset ι) (hD : ∀ n ∈ D, d.w n ≤ eps) :
    ‖d.chiLehmann O X (fun a => I * (y a : ℂ)) - d.truncChiLehmann O X D (fun a => I * (y a : ℂ))‖
      ≤ (4 * eps / δ ^ 3 + 2 * d.β * eps / δ ^ 2) * absWeightChi O X := by
  unfold EigenData.chiLehmann EigenData.truncChiLehmann absWeightChi
  rw [list_sum_map_sub, ← list_sum_map_mul_left']
  refine norm_list_map_sum_le _ _ _ (fun p hp => ?_)
  rw [← mul_sub, norm_mul, perms3_sign_norm p hp, one_mul]
  refine ordered_stripe_error_imag d _ _ _ X _ _ _ eps δ heps hδ (hy _) (hy _) (hy _) ?_ D hD
  rw [perms3_sum y p hp]
  exact hsum

theorem abs_omega_ge (d : EigenData ι) (k : ℤ) : Real.pi / d.β ≤ |d.ω k| := by
  have hpos : 0 < Real.pi / d.β := div_pos Real.pi_pos d.hβ
  have e : d.ω k = ((2 * k + 1 : ℤ) : ℝ) * (Real.pi / d.β) := by
    unfold EigenData.ω; push_cast; ring
  rw [e, abs_mul, abs_of_pos hpos]
  have h1 : (1:ℤ) ≤ |2 * k + 1| := Int.one_le_abs (by omega)
  have h2 : (1:ℝ) ≤ |((2 * k + 1 : ℤ) : ℝ)| := by exact_mod_cast h1
  exact le_mul_of_one_le_left hpos.le h2

theorem omega_add_sub (d : EigenData ι) (k1 k2 k3 : ℤ) :
    d.ω k1 + d.ω k2 + -d.ω k3 = d.ω (k1 + k2 - k3) := by
  unfold EigenData.ω; push_cast; ring

/-- TRUNCATION ERROR OF THE FULL TWO-PARTICLE FUNCTION at fermionic Matsubara frequencies
`(iω_{k1}, iω_{k2}; iω_{k3})`, EVERY triple (resonant ones included):
`‖χ − χ_truncated‖ ≤ (4 + 2π)·eps·β³/π³ · Σ_{orderings} Σ ‖O‖‖O‖‖O‖‖X‖` -/
theorem chi_stripe_error_matsubara (d : EigenData ι) (O : Fin 3 → Matrix ι ι ℂ)
    (X : Matrix ι ι ℂ) (k1 k2 k3 : ℤ) (eps : ℝ) (heps : 0 ≤ eps)
    (D : Finset ι) (hD : ∀ n ∈ D, d.w n ≤ eps) :
    ‖d.chiLehmann O X ![I * (d.ω k1 : ℂ), I * (d.ω k2 : ℂ), -(I * (d.ω k3 : ℂ))]
        - d.truncChiLehmann O X D ![I * (d.ω k1 : ℂ), I * (d.ω k2 : ℂ), -(I * (d.ω k3 : ℂ))]‖
      ≤ (4 + 2 * Real.pi) * eps * d.β ^ 3 / Real.pi ^ 3 * absWeightChi O X := by
  have hpos : 0 < Real.pi / d.β := div_pos Real.pi_pos d.hβ
  have hz : (![I * (d.ω k1 : ℂ), I * (d.ω k2 : ℂ), -(I * (d.ω k3 : ℂ))] : Fin 3 → ℂ)
      = fun a => I * ((![d.ω k1, d.ω k2, -d.ω k3] : Fin 3 → ℝ) a : ℂ) := by
    funext a
    fin_cases a <;> simp
  rw [hz]
  have h := chi_stripe_error_imag d O X ![d.ω k1, d.ω k2, -d.ω k3] eps (Real.pi / d.β) heps hpos
    (fun a => by
      fin_cases a
      · exact abs_omega_ge d k1
      · exact abs_omega_ge d k2
      · simpa using abs_omega_ge d k3)
    (by
      have e : (![d.ω k1, d.ω k2, -d.ω k3] : Fin 3 → ℝ) 0 + (![d.ω k1, d.ω k2, -d.ω k3] : Fin 3 → ℝ) 1
          + (![d.ω k1, d.ω k2, -d.ω k3] : Fin 3 → ℝ) 2 = d.ω (k1 + k2 - k3) := by
        rw [← omega_add_sub]; simp
      rw [e]; exact abs_omega_ge d _)
    D hD
  refine h.trans_eq ?_
  have hπ : Real.pi ≠ 0 := Real.pi_ne_zero
  have hβ : d.β ≠ 0 := d.hβ.ne'
  congr 1
  field_simp

/-! ## (2') dimension form of the susceptibility bounds -/

/-- if every row of `A` and every column of `B` has Euclidean norm `≤ 1` (true for products `c†c`
of operators obeying the CAR, whose operator norm is `≤ 1`), the sum of norms is at most `dim` -/
theorem absWeight_le_card (A B : Matrix ι ι ℂ) (hA : ∀ n, ∑ m, Complex.normSq (A n m) ≤ 1)
    (hB : ∀ n, ∑ m, Complex.normSq (B m n) ≤ 1) :
    ∑ n, ∑ m, ‖A n m‖ * ‖B m n‖ ≤ Fintype.card ι := by
  have hterm : ∀ n m, ‖A n m‖ * ‖B m n‖
      ≤ (Complex.normSq (A n m) + Complex.normSq (B m n)) / 2 := by
    intro n m
    rw [Complex.normSq_eq_norm_sq, Complex.normSq_eq_norm_sq]
    nlinarith [sq_nonneg (‖A n m‖ - ‖B m n‖)]
  calc ∑ n, ∑ m, ‖A n m‖ * ‖B m n‖
      ≤ ∑ n, ∑ m, (Complex.normSq (A n m) + Complex.normSq (B m n)) / 2 :=
        Finset.sum_le_sum fun n _ => Finset.sum_le_sum fun m _ => hterm n m
    _ = ∑ n, ((∑ m, Complex.normSq (A n m)) + ∑ m, Complex.normSq (B m n)) / 2 := by
        refine Finset.sum_congr rfl fun n _ => ?_
        rw [← Finset.sum_div, Finset.sum_add_distrib]
    _ ≤ ∑ _n : ι, ((1:ℝ) + 1) / 2 := by
        refine Finset.sum_le_sum fun n _ => ?_
        have := hA n; have := hB n
        linarith
    _ = Fintype.card ι := by simp

/-- dimension form, `k ≠ 0`: `‖full − truncated‖ ≤ 2·eps·dim/|Ω_k|` -/
theorem susc_stripe_error_dim (d : EigenData ι) (A B : Matrix ι ι ℂ)
    (hA : ∀ n, ∑ m, Complex.normSq (A n m) ≤ 1) (hB : ∀ n, ∑ m, Complex.normSq (B m n) ≤ 1)
    (k : ℤ) (hk : k ≠ 0) (eps : ℝ) (heps : 0 ≤ eps) (D : Finset ι) (hD : ∀ n ∈ D, d.w n ≤ eps) :
    ‖d.lehmannSusc A B k - d.truncLehmannSusc A B D k‖
      ≤ 2 * eps * (Fintype.card ι) / |d.Ω k| := by
  have hΩ : 0 < |d.Ω k| := abs_pos.mpr (fun h => hk ((Omega_eq_zero_iff d k).mp h))
  refine (susc_stripe_error d A B k hk eps heps D hD).trans ?_
  have := absWeight_le_card A B hA hB
  gcongr

/-- dimension form, `k = 0`: `‖full − truncated‖ ≤ β·eps·dim` -/
theorem susc_stripe_error_static_dim (d : EigenData ι) (A B : Matrix ι ι ℂ)
    (hA : ∀ n, ∑ m, Complex.normSq (A n m) ≤ 1) (hB : ∀ n, ∑ m, Complex.normSq (B m n) ≤ 1)
    (eps : ℝ) (heps : 0 ≤ eps) (D : Finset ι) (hD : ∀ n ∈ D, d.w n ≤ eps) :
    ‖d.lehmannSusc A B 0 - d.truncLehmannSusc A B D 0‖ ≤ d.β * eps * (Fintype.card ι) := by
  refine (susc_stripe_error_static d A B eps heps D hD).trans ?_
  have := absWeight_le_card A B hA hB
  have := d.hβ.le
  gcongr

/-! ### quadratic operators `c†_i c_j` satisfy the row / column hypothesis -/

theorem mul_conjTranspose_diag (M : Matrix ι ι ℂ) (n : ι) :
    (M * Mᴴ) n n = ((∑ m, Complex.normSq (M n m) : ℝ) : ℂ) := by
  rw [Matrix.mul_apply]
  push_cast
  refine Finset.sum_congr rfl fun m _ => ?_
  rw [conjTranspose_apply, Complex.star_def, Complex.mul_conj]

theorem conjTranspose_mul_diag (M : Matrix ι ι ℂ) (n : ι) :
    (Mᴴ * M) n n = ((∑ m, Complex.normSq (M m n) : ℝ) : ℂ) := by
  rw [Matrix.mul_apply]
  push_cast
  refine Finset.sum_congr rfl fun m _ => ?_
  rw [conjTranspose_apply, Complex.star_def, mul_comm, Complex.mul_conj]

/-- columns of an operator obeying the CAR have norm ≤ 1 -/
theorem col_normSq_le_one (C : Matrix ι ι ℂ) (hcar : C * Cᴴ + Cᴴ * C = 1) (n : ι) :
    ∑ m, Complex.normSq (C m n) ≤ 1 := by
  have h : Cᴴ * Cᴴᴴ + Cᴴᴴ * Cᴴ = 1 := by
    rw [conjTranspose_conjTranspose, add_comm]; exact hcar
  have h1 := row_normSq_le_one Cᴴ h n
  simp only [conjTranspose_apply, Complex.star_def, Complex.normSq_conj] at h1
  exact h1

/-- rows of `c†·c'` (both obeying the CAR) have norm ≤ 1 -/
theorem quadratic_row_normSq_le_one (C Dm : Matrix ι ι ℂ) (hC : C * Cᴴ + Cᴴ * C = 1)
    (hD : Dm * Dmᴴ + Dmᴴ * Dm = 1) (n : ι) :
    ∑ m, Complex.normSq ((Cᴴ * Dm) n m) ≤ 1 := by
  have hDD : Dm * Dmᴴ = 1 - Dmᴴ * Dm := eq_sub_of_add_eq hD
  have key : (Cᴴ * Dm) * (Cᴴ * Dm)ᴴ = Cᴴ * C - (Dm * C)ᴴ * (Dm * C) := by
    rw [conjTranspose_mul, conjTranspose_conjTranspose, conjTranspose_mul]
    calc Cᴴ * Dm * (Dmᴴ * C) = Cᴴ * (Dm * Dmᴴ) * C := by simp only [Matrix.mul_assoc]
      _ = Cᴴ * C - Cᴴ * Dmᴴ * (Dm * C) := by
        rw [hDD, Matrix.mul_sub, Matrix.sub_mul, Matrix.mul_one]
        simp only [Matrix.mul_assoc]
  have h := congrFun (congrFun key n) n
  rw [mul_conjTranspose_diag, Matrix.sub_apply, conjTranspose_mul_diag, conjTranspose_mul_diag] at h
  have h' : ∑ m, Complex.normSq ((Cᴴ * Dm) n m)
      = ∑ m, Complex.normSq (C m n) - ∑ m, Complex.normSq ((Dm * C) m n) := by
    exact_mod_cast h
  have h1 := col_normSq_le_one C hC n
  have h2 : 0 ≤ ∑ m, Complex.normSq ((Dm * C) m n) :=
    Finset.sum_nonneg fun _ _ => Complex.normSq_nonneg _
  linarith

/-- columns of `c†·c'` have norm ≤ 1 -/
theorem quadratic_col_normSq_le_one (E F : Matrix ι ι ℂ) (hE : E * Eᴴ + Eᴴ * E = 1)
    (hF : F * Fᴴ + Fᴴ * F = 1) (n : ι) :
    ∑ m, Complex.normSq ((Eᴴ * F) m n) ≤ 1 := by
  have h := quadratic_row_normSq_le_one F E hF hE n
  have e : ∀ m, (Fᴴ * E) n m = star ((Eᴴ * F) m n) := by
    intro m
    rw [← conjTranspose_apply, conjTranspose_mul, conjTranspose_conjTranspose]
  simp only [e, Complex.star_def, Complex.normSq_conj] at h
  exact h

end Pomerol.Spec
