/-
  Property C20: lattice input is validated and looked up faithfully.
  Theorems relating the model of `Lattice` / `LatticePresets` (`Model/Lattice.lean`, partly generated from
  the C++ source) to the hand-written specification predicates of `Model/LatticeSpec.lean`.  Core Lean only.
-/
import PomerolModel.Model.LatticeSpec

namespace Pomerol.Spec.LatticeProps
open Pomerol.Model.Lat Pomerol.Model.LatSpec Pomerol.Gen.Presets

set_option linter.unusedSectionVars false
set_option linter.unusedVariables false
set_option linter.unusedSimpArgs false

variable {K : Type} [Add K] [Sub K] [Mul K] [Div K] [Neg K] [Zero K] [One K] [NatCast K] [NonzeroTest K]

/-! ## well-formedness of the containers (std::map invariants) -/

def SitesOK (L : Lattice K) : Prop := (L.sites.map (·.label)).Pairwise (· < ·)
def TermsOK (L : Lattice K) : Prop := (L.terms.map (·.1)).Pairwise (· < ·)

theorem empty_ok : SitesOK (Model.Lat.empty : Lattice K) ∧ TermsOK (Model.Lat.empty : Lattice K) := by
  simp [SitesOK, TermsOK, Model.Lat.empty]

private theorem str_lt_of_not (a b : String) (hne : a ≠ b) (hlt : ¬ a < b) : b < a :=
  Std.lt_of_le_of_ne (String.not_lt.mp hlt) (fun h => hne h.symm)

private theorem mem_insertSite (s : Site) (l : List Site) (x : Site) (hx : x ∈ insertSite s l) :
    x = s ∨ x ∈ l := by
  induction l with
  | nil => simp [insertSite] at hx; exact .inl hx
  | cons t rest ih =>
    simp only [insertSite] at hx
    split at hx
    · simp only [List.mem_cons] at hx ⊢
      rcases hx with h | h
      · exact .inl h
      · exact .inr (.inr h)
    · split at hx
      · simp only [List.mem_cons] at hx ⊢
        exact hx
      · simp only [List.mem_cons] at hx ⊢
        rcases hx with h | h
        · exact .inr (.inl h)
        · rcases ih h with h | h
          · exact .inl h
          · exact .inr (.inr h)

private theorem insertSite_sorted (s : Site) (l : List Site)
    (h : (l.map (·.label)).Pairwise (· < ·)) : ((insertSite s l).map (·.label)).Pairwise (· < ·) := by
  induction l with
  | nil => simp [insertSite]
  | cons t rest ih =>
    simp only [List.map_cons, List.pairwise_cons, List.mem_map, forall_exists_index, and_imp,
      forall_apply_eq_imp_iff₂] at h
    obtain ⟨h1, h2⟩ := h
    simp only [insertSite]
    split
    · rename_i heq
      simp only [List.map_cons, List.pairwise_cons, List.mem_map, forall_exists_index, and_imp,
        forall_apply_eq_imp_iff₂]
      exact ⟨fun a ha => heq ▸ h1 a ha, h2⟩
    · split
      · rename_i hne hlt
        simp only [List.map_cons, List.pairwise_cons, List.mem_map, forall_exists_index, and_imp,
          forall_apply_eq_imp_iff₂, List.mem_cons, forall_eq_or_imp]
        exact ⟨⟨hlt, fun a ha => String.lt_trans hlt (h1 a ha)⟩, h1, h2⟩
      · rename_i hne hlt
        simp only [List.map_cons, List.pairwise_cons, List.mem_map, forall_exists_index, and_imp,
          forall_apply_eq_imp_iff₂]
        refine ⟨fun a ha => ?_, ih h2⟩
        rcases mem_insertSite s rest a ha with rfl | h
        · exact str_lt_of_not _ _ hne hlt
        · exact h1 a h

theorem addSite_ok (L : Lattice K) (h : SitesOK L) (l : String) (o s : Nat) : SitesOK (addSite L l o s) :=
  insertSite_sorted _ _ h

private theorem mem_insertTermList (n : Nat) (t : Term K) (l : List (Nat × List (Term K))) (x : Nat)
    (hx : x ∈ (insertTermList n t l).map (·.1)) : x = n ∨ x ∈ l.map (·.1) := by
  induction l with
  | nil => simp [insertTermList] at hx; exact .inl hx
  | cons p rest ih =>
    obtain ⟨m, ts⟩ := p
    simp only [insertTermList] at hx
    split at hx
    · exact .inr (by simpa using hx)
    · split at hx
      · simpa using hx
      · simp only [List.map_cons, List.mem_cons] at hx ⊢
        rcases hx with h | h
        · exact .inr (.inl h)
        · rcases ih h with h | h
          · exact .inl h
          · exact .inr (.inr h)

private theorem insertTermList_sorted (n : Nat) (t : Term K) (l : List (Nat × List (Term K)))
    (h : (l.map (·.1)).Pairwise (· < ·)) : ((insertTermList n t l).map (·.1)).Pairwise (· < ·) := by
  induction l with
  | nil => simp [insertTermList]
  | cons p rest ih =>
    obtain ⟨m, ts⟩ := p
    simp only [List.map_cons, List.pairwise_cons] at h
    obtain ⟨h1, h2⟩ := h
    simp only [insertTermList]
    split
    · simp only [List.map_cons, List.pairwise_cons]
      exact ⟨h1, h2⟩
    · split
      · rename_i hne hlt
        simp only [List.map_cons, List.pairwise_cons, List.mem_cons, forall_eq_or_imp]
        exact ⟨⟨hlt, fun a ha => Nat.lt_trans hlt (h1 a ha)⟩, h1, h2⟩
      · rename_i hne hlt
        simp only [List.map_cons, List.pairwise_cons]
        refine ⟨fun a ha => ?_, ih h2⟩
        rcases mem_insertTermList n t rest a ha with rfl | h
        · omega
        · exact h1 a h

theorem storeTerm_ok (L : Lattice K) (h : TermsOK L) (t : Term K) : TermsOK (storeTerm L t) :=
  insertTermList_sorted _ _ _ h

/-! ## (1) site lookup -/

theorem findSite_eq_siteOf (L : Lattice K) (l : String) : findSite L l = siteOf L l := by
  unfold findSite siteOf
  congr 1

private theorem find_insertSite_same (s : Site) (l : List Site) :
    (insertSite s l).find? (fun x => decide (x.label = s.label)) = some s := by
  induction l with
  | nil => simp [insertSite]
  | cons t rest ih =>
    simp only [insertSite]
    split
    · simp
    · split
      · simp
      · rename_i hne _
        have : ¬ t.label = s.label := fun h => hne h.symm
        simp [List.find?_cons, this, ih]

private theorem find_insertSite_other (s : Site) (l : List Site) (l' : String) (hne : l' ≠ s.label) :
    (insertSite s l).find? (fun x => decide (x.label = l')) = l.find? (fun x => decide (x.label = l')) := by
  have hs : ¬ s.label = l' := fun h => hne h.symm
  induction l with
  | nil => simp [insertSite, hs]
  | cons t rest ih =>
    simp only [insertSite]
    split
    · rename_i heq
      have : ¬ t.label = l' := heq ▸ hs
      simp [List.find?_cons, hs, this]
    · split
      · simp [List.find?_cons, hs]
      · simp only [List.find?_cons, ih]

theorem getSite_after_addSite (L : Lattice K) (h : SitesOK L) (l : String) (o s : Nat) :
    getSite (addSite L l o s) l = .ok ⟨l, o, s⟩ := by
  have := find_insertSite_same ⟨l, o, s⟩ L.sites
  simp only [getSite, findSite, addSite, this, getSiteThrowsOnMissing, if_true]

theorem getSite_other (L : Lattice K) (h : SitesOK L) (l l' : String) (o s : Nat) (hne : l' ≠ l) :
    getSite (addSite L l o s) l' = getSite L l' := by
  have := find_insertSite_other ⟨l, o, s⟩ L.sites l' hne
  simp only [getSite, findSite, addSite, this]

theorem getSite_unknown (L : Lattice K) (l : String) (h : siteOf L l = none) :
    getSite L l = .error .wrongLabel := by
  rw [← findSite_eq_siteOf] at h
  simp [getSite, h, getSiteThrowsOnMissing]

/-! ## (2) validated insertion -/

/-- some site with label `l` accommodates orbital `o` and spin `z` (one conjunct of `validTerm`) -/
def slotOK (S : List Site) (l : String) (o z : Nat) : Bool :=
  S.any fun s => s.label == l && decide (o < s.norb) && decide (z < s.nspin)

/-- the check that `Lattice::addTerm` makes for one factor -/
def slotChk (S : List Site) (l : String) (o z : Nat) : Bool :=
  match S.find? (fun x => decide (x.label = l)) with
  | none => false
  | some s => decide (o < s.norb) && decide (z < s.nspin)

theorem validTerm_def (L : Lattice K) (t : Term K) :
    validTerm L t = (List.range t.order).all fun i =>
      slotOK L.sites (t.labels.getD i "") (t.orbs.getD i 0) (t.spins.getD i 0) := rfl

theorem validateTerm_def (L : Lattice K) (t : Term K) :
    validateTerm L t = (List.range t.order).all fun i =>
      slotChk L.sites (t.labels.getD i "") (t.orbs.getD i 0) (t.spins.getD i 0) := by
  unfold validateTerm slotChk findSite
  rfl

theorem slotOK_of_find (S : List Site) (l : String) (o z : Nat) (s : Site)
    (hf : S.find? (fun x => decide (x.label = l)) = some s) (ho : o < s.norb) (hz : z < s.nspin) :
    slotOK S l o z = true := by
  have hm := List.mem_of_find?_eq_some hf
  have hl := List.find?_some hf
  simp only [decide_eq_true_eq] at hl
  simp only [slotOK, List.any_eq_true]
  exact ⟨s, hm, by simp [hl, ho, hz]⟩

theorem slotOK_of_slotChk (S : List Site) (l : String) (o z : Nat) (h : slotChk S l o z = true) :
    slotOK S l o z = true := by
  unfold slotChk at h
  split at h
  · cases h
  · rename_i s hf
    simp only [Bool.and_eq_true, decide_eq_true_eq] at h
    exact slotOK_of_find S l o z s hf h.1 h.2

theorem slotChk_eq_slotOK (S : List Site) (hS : (S.map (·.label)).Pairwise (· < ·)) (l : String) (o z : Nat) :
    slotChk S l o z = slotOK S l o z := by
  induction S with
  | nil => simp [slotChk, slotOK]
  | cons s rest ih =>
    simp only [List.map_cons, List.pairwise_cons, List.mem_map, forall_exists_index, and_imp,
      forall_apply_eq_imp_iff₂] at hS
    obtain ⟨h1, h2⟩ := hS
    by_cases hl : s.label = l
    · have hrest : rest.any (fun s => s.label == l && decide (o < s.norb) && decide (z < s.nspin)) = false := by
        rw [List.any_eq_false]
        intro x hx
        have hlt := h1 x hx
        have : ¬ x.label = l := fun h => String.lt_irrefl l (by rw [hl, h] at hlt; exact hlt)
        simp [this]
      simp only [slotChk, slotOK, List.find?_cons, hl, decide_true, List.any_cons, hrest, Bool.or_false,
        beq_self_eq_true, Bool.true_and]
    · have ih' := ih h2
      simp only [slotChk, slotOK] at ih' ⊢
      simp only [List.find?_cons, hl, decide_false, List.any_cons, ih']
      simp [hl]

theorem validTerm_of_validateTerm (L : Lattice K) (t : Term K) (h : validateTerm L t = true) :
    validTerm L t = true := by
  rw [validateTerm_def, List.all_eq_true] at h
  rw [validTerm_def, List.all_eq_true]
  exact fun i hi => slotOK_of_slotChk _ _ _ _ (h i hi)

/-- DEVIATION: needs `SitesOK L` (unique labels); with a duplicated label `validTerm` may accept a term through the
second site while the C++ loop only ever sees the first one.  Such a site list is unreachable (`empty_ok`,
`addSite_ok`). -/
theorem validateTerm_eq_validTerm (L : Lattice K) (hS : SitesOK L) (t : Term K) :
    validateTerm L t = validTerm L t := by
  rw [validateTerm_def, validTerm_def]
  congr 1
  funext i
  exact slotChk_eq_slotOK _ hS _ _ _

theorem addTerm_invalid (L : Lattice K) (t : Term K) (h : validTerm L t = false) :
    addTerm L t = .error .wrongLabel := by
  have : validateTerm L t = false := by
    cases hv : validateTerm L t
    · rfl
    · rw [validTerm_of_validateTerm L t hv] at h; cases h
  simp [addTerm, this]

/-- DEVIATION: needs `SitesOK L`, see `validateTerm_eq_validTerm`. -/
theorem addTerm_zero (L : Lattice K) (hS : SitesOK L) (t : Term K) (h : validTerm L t = true)
    (hz : NonzeroTest.nz t.value = false) : addTerm L t = .ok L := by
  rw [← validateTerm_eq_validTerm L hS] at h
  simp [addTerm, h, hz]

/-- DEVIATION: needs `SitesOK L`, see `validateTerm_eq_validTerm`. -/
theorem addTerm_valid (L : Lattice K) (hS : SitesOK L) (t : Term K) (h : validTerm L t = true)
    (hz : NonzeroTest.nz t.value = true) : addTerm L t = .ok (storeTerm L t) := by
  rw [← validateTerm_eq_validTerm L hS] at h
  simp [addTerm, h, hz]

/-- what a successful `addTerm` does, without any well-formedness hypothesis -/
theorem addTerm_ok_cases (L L' : Lattice K) (t : Term K) (h : addTerm L t = .ok L') :
    L' = L ∨ (validTerm L t = true ∧ L' = storeTerm L t) := by
  unfold addTerm at h
  split at h
  · cases h
  · rename_i hv
    have hv' : validateTerm L t = true := by simpa using hv
    split at h
    · right; exact ⟨validTerm_of_validateTerm L t hv', by cases h; rfl⟩
    · left; cases h; rfl

/-! ## (3) terms are retrievable by order, in insertion order, and nothing else changes -/

private def lookupT (l : List (Nat × List (Term K))) (n : Nat) : List (Term K) :=
  match l.find? (fun p => decide (p.1 = n)) with
  | some (_, ts) => ts
  | none => []

private theorem lookupT_cons (m : Nat) (ts : List (Term K)) (l : List (Nat × List (Term K))) (n : Nat) :
    lookupT ((m, ts) :: l) n = if m = n then ts else lookupT l n := by
  unfold lookupT
  by_cases h : m = n <;> simp [List.find?_cons, h]

private theorem lookupT_none (l : List (Nat × List (Term K))) (n : Nat) (h : ∀ a ∈ l.map (·.1), n < a) :
    lookupT l n = [] := by
  induction l with
  | nil => rfl
  | cons p rest ih =>
    obtain ⟨m, ts⟩ := p
    simp only [List.map_cons, List.mem_cons, forall_eq_or_imp] at h
    rw [lookupT_cons, if_neg (by omega), ih h.2]

private theorem lookupT_insert (k : Nat) (t : Term K) (l : List (Nat × List (Term K)))
    (h : (l.map (·.1)).Pairwise (· < ·)) (n : Nat) :
    lookupT (insertTermList k t l) n = if n = k then lookupT l n ++ [t] else lookupT l n := by
  induction l with
  | nil =>
    simp only [insertTermList, lookupT_cons]
    by_cases hk : n = k
    · simp [hk, lookupT]
    · have : ¬ k = n := fun h => hk h.symm
      simp [hk, this]
  | cons p rest ih =>
    obtain ⟨m, ts⟩ := p
    simp only [List.map_cons, List.pairwise_cons] at h
    obtain ⟨h1, h2⟩ := h
    simp only [insertTermList]
    split
    · rename_i hkm
      subst hkm
      simp only [lookupT_cons]
      by_cases hk : n = k
      · simp [hk]
      · have : ¬ k = n := fun h => hk h.symm
        simp [hk, this]
    · split
      · rename_i hne hlt
        simp only [lookupT_cons]
        by_cases hk : n = k
        · subst hk
          have : ¬ m = n := by omega
          have hr : lookupT rest n = [] := lookupT_none rest n (fun a ha => Nat.lt_trans hlt (h1 a ha))
          simp [this, hr]
        · have : ¬ k = n := fun h => hk h.symm
          simp [hk, this]
      · rename_i hne hlt
        simp only [lookupT_cons, ih h2]
        by_cases hm : m = n
        · have : ¬ n = k := by omega
          simp [hm, this]
        · simp [hm]

theorem getTerms_storeTerm (L : Lattice K) (h : TermsOK L) (t : Term K) (n : Nat) :
    getTerms (storeTerm L t) n = if n = t.order then getTerms L n ++ [t] else getTerms L n :=
  lookupT_insert t.order t L.terms h n

theorem maxOrder_storeTerm (L : Lattice K) (t : Term K) :
    (storeTerm L t).maxOrder = max L.maxOrder t.order := by
  simp only [storeTerm, Nat.max_def]
  split <;> split <;> omega

theorem storeTerm_sites (L : Lattice K) (t : Term K) : (storeTerm L t).sites = L.sites := rfl

/-! ## (4) presets reject the argument combinations for which they are undefined -/

theorem firstGuard_none (l : List (Bool × Nat)) : firstGuard l = none ↔ ∀ p ∈ l, p.1 = false := by
  induction l with
  | nil => simp [firstGuard]
  | cons p rest ih =>
    obtain ⟨b, c⟩ := p
    cases b <;> simp [firstGuard, ih]

/-- the guard list evaluated by a preset, as a function of the generated guard table -/
abbrev guardsOf (G : Bool → Bool → Int → Int → Int → Int → Int → Int → Int → Int → List (Bool × Nat))
    (L : Lattice K) (l1 l2 : String) (o1 o2 s1 s2 : Int) : List (Bool × Nat) :=
  G (guardEnv L l1 l2).m1 (guardEnv L l1 l2).m2 (guardEnv L l1 l2).orbsz1 (guardEnv L l1 l2).orbsz2
    (guardEnv L l1 l2).spinsz1 (guardEnv L l1 l2).spinsz2 o1 o2 s1 s2

theorem addCoulombS_guard (L L' : Lattice K) (l : String) (U lv : K) (h : addCoulombS L l U lv = .ok L') :
    firstGuard (guardsOf addCoulombSGuards L l l 0 0 0 0) = none := by
  unfold addCoulombS at h
  dsimp only at h
  split at h
  · cases h
  · assumption

theorem addLevel_guard (L L' : Lattice K) (l : String) (lv : K) (h : addLevel L l lv = .ok L') :
    firstGuard (guardsOf addLevelGuards L l l 0 0 0 0) = none := by
  unfold addLevel at h
  dsimp only at h
  split at h
  · cases h
  · assumption

theorem addCoulombP_guard (L L' : Lattice K) (l : String) (U Up J lv : K) (h : addCoulombP L l U Up J lv = .ok L') :
    firstGuard (guardsOf addCoulombPGuards L l l 0 0 0 0) = none := by
  unfold addCoulombP at h
  dsimp only at h
  split at h
  · cases h
  · assumption

theorem addMagnetization_guard (L L' : Lattice K) (l : String) (m : K) (h : addMagnetization L l m = .ok L') :
    firstGuard (guardsOf addMagnetizationGuards L l l 0 0 0 0) = none := by
  unfold addMagnetization at h
  dsimp only at h
  split at h
  · cases h
  · assumption

theorem addSzSz_guard (L L' : Lattice K) (l1 l2 : String) (J : K) (h : addSzSz L l1 l2 J = .ok L') :
    firstGuard (guardsOf addSzSzGuards L l1 l2 0 0 0 0) = none := by
  unfold addSzSz at h
  dsimp only at h
  split at h
  · cases h
  · assumption

theorem addSS_guard (L L' : Lattice K) (l1 l2 : String) (J : K) (h : addSS L l1 l2 J = .ok L') :
    firstGuard (guardsOf addSSGuards L l1 l2 0 0 0 0) = none := by
  unfold addSS at h
  dsimp only at h
  cases hg : firstGuard (guardsOf addSSGuards L l1 l2 0 0 0 0) with
  | none => rfl
  | some e => simp only [guardsOf] at hg; rw [hg] at h; cases h

theorem addHoppingFull_guard (cj : K → K) (L L' : Lattice K) (l1 l2 : String) (t : K) (o1 o2 s1 s2 : Nat)
    (h : addHoppingFull cj L l1 l2 t o1 o2 s1 s2 = .ok L') :
    firstGuard (guardsOf addHoppingFullGuards L l1 l2 o1 o2 s1 s2) = none := by
  unfold addHoppingFull at h
  dsimp only at h
  cases hg : firstGuard (guardsOf addHoppingFullGuards L l1 l2 o1 o2 s1 s2) with
  | none => rfl
  | some e => simp only [guardsOf] at hg; rw [hg] at h; cases h

theorem addHoppingOrb_guard (cj : K → K) (L L' : Lattice K) (l1 l2 : String) (t : K) (o1 o2 : Nat)
    (h : addHoppingOrb cj L l1 l2 t o1 o2 = .ok L') :
    firstGuard (guardsOf addHoppingOrbGuards L l1 l2 o1 o2 0 0) = none := by
  unfold addHoppingOrb at h
  dsimp only at h
  cases hg : firstGuard (guardsOf addHoppingOrbGuards L l1 l2 o1 o2 0 0) with
  | none => rfl
  | some e => simp only [guardsOf] at hg; rw [hg] at h; cases h

theorem addHoppingAll_guard (cj : K → K) (L L' : Lattice K) (l1 l2 : String) (t : K)
    (h : addHoppingAll cj L l1 l2 t = .ok L') :
    firstGuard (guardsOf addHoppingAllGuards L l1 l2 0 0 0 0) = none := by
  unfold addHoppingAll at h
  dsimp only at h
  cases hg : firstGuard (guardsOf addHoppingAllGuards L l1 l2 0 0 0 0) with
  | none => rfl
  | some e => simp only [guardsOf] at hg; rw [hg] at h; cases h

/-! site facts implied by the guards -/

theorem onSite_facts (L : Lattice K) (l : String)
    (hg : firstGuard (guardsOf addCoulombSGuards L l l 0 0 0 0) = none) :
    ∃ a, findSite L l = some a := by
  rw [firstGuard_none] at hg
  cases ha : findSite L l <;> simp [ha, addCoulombSGuards, guardEnv] at hg ⊢

theorem level_facts (L : Lattice K) (l : String)
    (hg : firstGuard (guardsOf addLevelGuards L l l 0 0 0 0) = none) :
    ∃ a, findSite L l = some a := by
  rw [firstGuard_none] at hg
  cases ha : findSite L l <;> simp [ha, addLevelGuards, guardEnv] at hg ⊢

theorem coulombP_facts (L : Lattice K) (l : String)
    (hg : firstGuard (guardsOf addCoulombPGuards L l l 0 0 0 0) = none) :
    ∃ a, findSite L l = some a ∧ 2 ≤ a.norb ∧ 2 ≤ a.nspin := by
  rw [firstGuard_none] at hg
  cases ha : findSite L l <;> simp [ha, addCoulombPGuards, guardEnv] at hg ⊢
  omega

theorem magnetization_facts (L : Lattice K) (l : String)
    (hg : firstGuard (guardsOf addMagnetizationGuards L l l 0 0 0 0) = none) :
    ∃ a, findSite L l = some a ∧ a.nspin = 2 := by
  rw [firstGuard_none] at hg
  cases ha : findSite L l <;> simp [ha, addMagnetizationGuards, guardEnv] at hg ⊢
  omega

theorem szsz_facts (L : Lattice K) (l1 l2 : String)
    (hg : firstGuard (guardsOf addSzSzGuards L l1 l2 0 0 0 0) = none) :
    ∃ a b, findSite L l1 = some a ∧ findSite L l2 = some b ∧ a.norb = b.norb ∧ a.nspin = b.nspin ∧ a.nspin = 2 := by
  rw [firstGuard_none] at hg
  cases ha : findSite L l1 <;> cases hb : findSite L l2 <;> simp [ha, hb, addSzSzGuards, guardEnv] at hg ⊢
  omega

theorem ss_facts (L : Lattice K) (l1 l2 : String)
    (hg : firstGuard (guardsOf addSSGuards L l1 l2 0 0 0 0) = none) :
    ∃ a b, findSite L l1 = some a ∧ findSite L l2 = some b ∧ a.norb = b.norb ∧ a.nspin = b.nspin ∧ a.nspin = 2 := by
  rw [firstGuard_none] at hg
  cases ha : findSite L l1 <;> cases hb : findSite L l2 <;> simp [ha, hb, addSSGuards, guardEnv] at hg ⊢
  omega

theorem hoppingAll_facts (L : Lattice K) (l1 l2 : String)
    (hg : firstGuard (guardsOf addHoppingAllGuards L l1 l2 0 0 0 0) = none) :
    ∃ a b, findSite L l1 = some a ∧ findSite L l2 = some b ∧ a.norb = b.norb ∧ a.nspin = b.nspin := by
  rw [firstGuard_none] at hg
  cases ha : findSite L l1 <;> cases hb : findSite L l2 <;> simp [ha, hb, addHoppingAllGuards, guardEnv] at hg ⊢
  omega

theorem hoppingOrb_facts (L : Lattice K) (l1 l2 : String) (o1 o2 : Nat)
    (hg : firstGuard (guardsOf addHoppingOrbGuards L l1 l2 o1 o2 0 0) = none) :
    ∃ a b, findSite L l1 = some a ∧ findSite L l2 = some b ∧ o1 < a.norb ∧ o2 < b.norb ∧ a.nspin = b.nspin := by
  rw [firstGuard_none] at hg
  cases ha : findSite L l1 <;> cases hb : findSite L l2 <;> simp [ha, hb, addHoppingOrbGuards, guardEnv] at hg ⊢
  omega

theorem hoppingFull_facts (L : Lattice K) (l1 l2 : String) (o1 o2 s1 s2 : Nat)
    (hg : firstGuard (guardsOf addHoppingFullGuards L l1 l2 o1 o2 s1 s2) = none) :
    ∃ a b, findSite L l1 = some a ∧ findSite L l2 = some b ∧ o1 < a.norb ∧ o2 < b.norb ∧
      s1 < a.nspin ∧ s2 < b.nspin := by
  rw [firstGuard_none] at hg
  cases ha : findSite L l1 <;> cases hb : findSite L l2 <;> simp [ha, hb, addHoppingFullGuards, guardEnv] at hg ⊢
  omega

/-! the theorems of group (4) -/

theorem addCoulombS_defined (L L' : Lattice K) (l : String) (U lv : K) (h : addCoulombS L l U lv = .ok L') :
    definedOnSite L l = true := by
  obtain ⟨a, ha⟩ := onSite_facts L l (addCoulombS_guard L L' l U lv h)
  simp [definedOnSite, ← findSite_eq_siteOf, ha]

theorem addLevel_defined (L L' : Lattice K) (l : String) (lv : K) (h : addLevel L l lv = .ok L') :
    definedOnSite L l = true := by
  obtain ⟨a, ha⟩ := level_facts L l (addLevel_guard L L' l lv h)
  simp [definedOnSite, ← findSite_eq_siteOf, ha]

theorem addCoulombP_defined (L L' : Lattice K) (l : String) (U Up J lv : K)
    (h : addCoulombP L l U Up J lv = .ok L') : definedCoulombP L l = true := by
  obtain ⟨a, ha, h1, h2⟩ := coulombP_facts L l (addCoulombP_guard L L' l U Up J lv h)
  simp [definedCoulombP, ← findSite_eq_siteOf, ha, h1, h2]

theorem addMagnetization_defined (L L' : Lattice K) (l : String) (m : K)
    (h : addMagnetization L l m = .ok L') : definedMagnetization L l = true := by
  obtain ⟨a, ha, h1⟩ := magnetization_facts L l (addMagnetization_guard L L' l m h)
  simp [definedMagnetization, ← findSite_eq_siteOf, ha, h1]

theorem addSzSz_defined (L L' : Lattice K) (l1 l2 : String) (J : K) (h : addSzSz L l1 l2 J = .ok L') :
    definedExchange L l1 l2 = true := by
  obtain ⟨a, b, ha, hb, h1, h2, h3⟩ := szsz_facts L l1 l2 (addSzSz_guard L L' l1 l2 J h)
  simp [definedExchange, ← findSite_eq_siteOf, ha, hb, ← h1, ← h2, h3]

theorem addSS_defined (L L' : Lattice K) (l1 l2 : String) (J : K) (h : addSS L l1 l2 J = .ok L') :
    definedExchange L l1 l2 = true := by
  obtain ⟨a, b, ha, hb, h1, h2, h3⟩ := ss_facts L l1 l2 (addSS_guard L L' l1 l2 J h)
  simp [definedExchange, ← findSite_eq_siteOf, ha, hb, ← h1, ← h2, h3]

theorem addHoppingAll_defined (cj : K → K) (L L' : Lattice K) (l1 l2 : String) (t : K)
    (h : addHoppingAll cj L l1 l2 t = .ok L') : definedHoppingAll L l1 l2 = true := by
  obtain ⟨a, b, ha, hb, h1, h2⟩ := hoppingAll_facts L l1 l2 (addHoppingAll_guard cj L L' l1 l2 t h)
  simp [definedHoppingAll, ← findSite_eq_siteOf, ha, hb, ← h1, ← h2]

theorem addHoppingOrb_defined (cj : K → K) (L L' : Lattice K) (l1 l2 : String) (t : K) (o1 o2 : Nat)
    (h : addHoppingOrb cj L l1 l2 t o1 o2 = .ok L') : definedHoppingOrb L l1 l2 o1 o2 = true := by
  obtain ⟨a, b, ha, hb, h1, h2, h3⟩ := hoppingOrb_facts L l1 l2 o1 o2 (addHoppingOrb_guard cj L L' l1 l2 t o1 o2 h)
  simp [definedHoppingOrb, ← findSite_eq_siteOf, ha, hb, h1, h2, ← h3]

theorem addHoppingFull_defined (cj : K → K) (L L' : Lattice K) (l1 l2 : String) (t : K) (o1 o2 s1 s2 : Nat)
    (h : addHoppingFull cj L l1 l2 t o1 o2 s1 s2 = .ok L') : definedHoppingFull L l1 l2 o1 o2 s1 s2 = true := by
  obtain ⟨a, b, ha, hb, h1, h2, h3, h4⟩ :=
    hoppingFull_facts L l1 l2 o1 o2 s1 s2 (addHoppingFull_guard cj L L' l1 l2 t o1 o2 s1 s2 h)
  simp [definedHoppingFull, ← findSite_eq_siteOf, ha, hb, h1, h2, h3, h4]

theorem tSpinflip_defined (l : String) (v : K) (o1 o2 s1 s2 : Nat) (t : Term K)
    (h : tSpinflip l v o1 o2 s1 s2 = .ok t) : definedSpinflip o1 o2 s1 s2 = true := by
  unfold tSpinflip at h
  split at h
  · cases h
  · rename_i hr
    simp [spinflipRejects] at hr
    simp only [definedSpinflip, Bool.and_eq_true, bne_iff_ne, ne_eq]
    omega

theorem tPairHopping_defined (l : String) (v : K) (o1 o2 s1 s2 : Nat) (t : Term K)
    (h : tPairHopping l v o1 o2 s1 s2 = .ok t) : definedSpinflip o1 o2 s1 s2 = true := by
  unfold tPairHopping at h
  split at h
  · cases h
  · rename_i hr
    simp [pairhoppingRejects] at hr
    simp only [definedSpinflip, Bool.and_eq_true, bne_iff_ne, ne_eq]
    omega

/-! ## (5) every term a preset stores is valid -/

/-- `validTerm` depends on the lattice only through its sites -/
def validS (S : List Site) (t : Term K) : Bool :=
  (List.range t.order).all fun i => slotOK S (t.labels.getD i "") (t.orbs.getD i 0) (t.spins.getD i 0)

theorem validTerm_eq_validS (L : Lattice K) (t : Term K) : validTerm L t = validS L.sites t := rfl

theorem allValid_def (L : Lattice K) : allValid L = L.terms.all fun p => p.2.all (validS L.sites) := rfl

private theorem all_insertTermList (P : Term K → Bool) (n : Nat) (t : Term K) (l : List (Nat × List (Term K)))
    (hl : (l.all fun p => p.2.all P) = true) (ht : P t = true) :
    ((insertTermList n t l).all fun p => p.2.all P) = true := by
  induction l with
  | nil => simp [insertTermList, ht]
  | cons p rest ih =>
    obtain ⟨m, ts⟩ := p
    simp only [List.all_cons, Bool.and_eq_true] at hl
    simp only [insertTermList]
    split
    · simp only [List.all_cons, List.all_append, List.all_nil, Bool.and_true, Bool.and_eq_true]
      exact ⟨⟨hl.1, ht⟩, hl.2⟩
    · split
      · simp only [List.all_cons, List.all_nil, Bool.and_true, Bool.and_eq_true]
        exact ⟨ht, hl.1, hl.2⟩
      · simp only [List.all_cons, Bool.and_eq_true]
        exact ⟨hl.1, ih hl.2⟩

theorem storeTerm_allValid (L : Lattice K) (t : Term K) (h : allValid L = true) (ht : validTerm L t = true) :
    allValid (storeTerm L t) = true := by
  rw [allValid_def] at h ⊢
  exact all_insertTermList _ _ _ _ h ht

/-- the invariant carried through the loops of the presets: the sites are `S` and every stored term is valid -/
def Inv (S : List Site) (L : Lattice K) : Prop := L.sites = S ∧ allValid L = true

theorem Inv_store {S : List Site} {L : Lattice K} (h : Inv S L) (t : Term K) (ht : validS S t = true) :
    Inv S (storeTerm L t) := by
  obtain ⟨h1, h2⟩ := h
  subst h1
  exact ⟨rfl, storeTerm_allValid L t h2 ht⟩

theorem Inv_ite {S : List Site} {L : Lattice K} (h : Inv S L) (c : Prop) [Decidable c] (t : Term K)
    (ht : validS S t = true) : Inv S (if c then storeTerm L t else L) := by
  split
  · exact Inv_store h t ht
  · exact h

/-- a counted loop whose every step preserves `P` preserves `P` -/
theorem foldl_inv {σ : Type} (P : σ → Prop) (f : σ → Nat → σ) (l : List Nat) (s : σ) (h0 : P s)
    (hstep : ∀ s i, i ∈ l → P s → P (f s i)) : P (l.foldl f s) := by
  induction l generalizing s with
  | nil => exact h0
  | cons a rest ih =>
    simp only [List.foldl_cons]
    exact ih _ (hstep s a (by simp) h0) (fun s i hi => hstep s i (by simp [hi]))

theorem forRange_inv {σ : Type} (P : σ → Prop) (n : Nat) (s : σ) (f : σ → Nat → σ) (h0 : P s)
    (hstep : ∀ s i, i < n → P s → P (f s i)) : P (forRange n s f) :=
  foldl_inv P f _ s h0 (fun s i hi => hstep s i (by simpa using hi))

/-- the same for loops that may throw -/
theorem foldlM_inv {σ : Type} (P : σ → Prop) (f : σ → Nat → Except Exc σ) (l : List Nat) (s s' : σ) (h0 : P s)
    (hstep : ∀ s i s', i ∈ l → P s → f s i = .ok s' → P s') (h : l.foldlM f s = .ok s') : P s' := by
  induction l generalizing s with
  | nil =>
    simp only [List.foldlM_nil, pure, Except.pure] at h
    cases h; exact h0
  | cons a rest ih =>
    simp only [List.foldlM_cons, bind, Except.bind] at h
    split at h
    · cases h
    · rename_i s1 hs1
      exact ih s1 (hstep s a s1 (by simp) h0 hs1) (fun s i s' hi => hstep s i s' (by simp [hi])) h

theorem rangeM_inv {σ : Type} (P : σ → Prop) (n : Nat) (f : σ → Nat → Except Exc σ) (s s' : σ) (h0 : P s)
    (hstep : ∀ s i s', i < n → P s → f s i = .ok s' → P s') (h : (List.range n).foldlM f s = .ok s') : P s' :=
  foldlM_inv P f _ s s' h0 (fun s i s' hi => hstep s i s' (by simpa using hi)) h

/-! validity of the preset terms -/

theorem valid_tLevel (S : List Site) (l : String) (v : K) (o z : Nat) (h : slotOK S l o z = true) :
    validS S (tLevel l v o z) = true := by
  show (slotOK S l o z && (slotOK S l o z && true)) = true
  simp [h]

theorem valid_tNupNdown (S : List Site) (l1 l2 : String) (v : K) (o1 o2 s1 s2 : Nat)
    (h1 : slotOK S l1 o1 s1 = true) (h2 : slotOK S l2 o2 s2 = true) :
    validS S (tNupNdown l1 l2 v o1 o2 s1 s2) = true := by
  unfold tNupNdown
  split
  · exact valid_tLevel S l1 v o1 s1 h1
  · show (slotOK S l1 o1 s1 && (slotOK S l1 o1 s1 && (slotOK S l2 o2 s2 && (slotOK S l2 o2 s2 && true)))) = true
    simp [h1, h2]

theorem valid_tSpinflip (S : List Site) (l : String) (v : K) (o1 o2 s1 s2 : Nat) (t : Term K)
    (h : tSpinflip l v o1 o2 s1 s2 = .ok t)
    (h11 : slotOK S l o1 s1 = true) (h22 : slotOK S l o2 s2 = true)
    (h21 : slotOK S l o2 s1 = true) (h12 : slotOK S l o1 s2 = true) : validS S t = true := by
  unfold tSpinflip at h
  split at h
  · cases h
  · cases h
    show (slotOK S l o1 s1 && (slotOK S l o2 s2 && (slotOK S l o2 s1 && (slotOK S l o1 s2 && true)))) = true
    simp [h11, h22, h21, h12]

theorem valid_tPairHopping (S : List Site) (l : String) (v : K) (o1 o2 s1 s2 : Nat) (t : Term K)
    (h : tPairHopping l v o1 o2 s1 s2 = .ok t)
    (h11 : slotOK S l o1 s1 = true) (h22 : slotOK S l o2 s2 = true)
    (h21 : slotOK S l o2 s1 = true) (h12 : slotOK S l o1 s2 = true) : validS S t = true := by
  unfold tPairHopping at h
  split at h
  · cases h
  · cases h
    show (slotOK S l o1 s1 && (slotOK S l o1 s2 && (slotOK S l o2 s1 && (slotOK S l o2 s2 && true)))) = true
    simp [h11, h22, h21, h12]

theorem valid_tSplusSminus (S : List Site) (l1 l2 : String) (v : K) (o : Nat)
    (h11 : slotOK S l1 o 1 = true) (h10 : slotOK S l1 o 0 = true)
    (h21 : slotOK S l2 o 1 = true) (h20 : slotOK S l2 o 0 = true) :
    validS S (tSplusSminus l1 l2 v o) = true := by
  show (slotOK S l1 o 1 && (slotOK S l1 o 0 && (slotOK S l2 o 0 && (slotOK S l2 o 1 && true)))) = true
  simp [h11, h10, h21, h20]

theorem valid_tSminusSplus (S : List Site) (l1 l2 : String) (v : K) (o : Nat)
    (h11 : slotOK S l1 o 1 = true) (h10 : slotOK S l1 o 0 = true)
    (h21 : slotOK S l2 o 1 = true) (h20 : slotOK S l2 o 0 = true) :
    validS S (tSminusSplus l1 l2 v o) = true := by
  show (slotOK S l1 o 0 && (slotOK S l1 o 1 && (slotOK S l2 o 1 && (slotOK S l2 o 0 && true)))) = true
  simp [h11, h10, h21, h20]

/-! loop bounds read from the guard environment -/

theorem guardEnv_orb1 (L : Lattice K) (l1 l2 : String) (a : Site) (ha : findSite L l1 = some a) :
    (guardEnv L l1 l2).orbsz1.toNat = a.norb := by simp [guardEnv, ha]

theorem guardEnv_spin1 (L : Lattice K) (l1 l2 : String) (a : Site) (ha : findSite L l1 = some a) :
    (guardEnv L l1 l2).spinsz1.toNat = a.nspin := by simp [guardEnv, ha]

theorem slotOK_of_findSite {S : List Site} {L : Lattice K} (hS : L.sites = S) {l : String} {a : Site}
    (ha : findSite L l = some a) {o z : Nat} (ho : o < a.norb) (hz : z < a.nspin) : slotOK S l o z = true := by
  subst hS
  exact slotOK_of_find _ l o z a ha ho hz

/-! the presets preserve the invariant -/

theorem addLevel_inv (S : List Site) (L L' : Lattice K) (l : String) (lv : K) (hv : Inv S L)
    (h : addLevel L l lv = .ok L') : Inv S L' := by
  have hg := addLevel_guard L L' l lv h
  obtain ⟨a, ha⟩ := level_facts L l hg
  unfold addLevel at h
  dsimp only at h
  simp only [guardsOf] at hg
  rw [hg, guardEnv_orb1 L l l a ha, guardEnv_spin1 L l l a ha] at h
  cases h
  refine forRange_inv (Inv S) _ _ _ hv (fun L1 i hi h1 => ?_)
  refine forRange_inv (Inv S) _ _ _ h1 (fun L2 z hz h2 => ?_)
  exact Inv_ite h2 _ _ (valid_tLevel S l lv i z (slotOK_of_findSite hv.1 ha hi hz))

theorem addCoulombS_inv (S : List Site) (L L' : Lattice K) (l : String) (U lv : K) (hv : Inv S L)
    (h : addCoulombS L l U lv = .ok L') : Inv S L' := by
  have hg := addCoulombS_guard L L' l U lv h
  obtain ⟨a, ha⟩ := onSite_facts L l hg
  unfold addCoulombS at h
  dsimp only at h
  simp only [guardsOf] at hg
  rw [hg, guardEnv_orb1 L l l a ha, guardEnv_spin1 L l l a ha] at h
  cases h
  refine forRange_inv (Inv S) _ _ _ hv (fun L1 i hi h1 => ?_)
  refine forRange_inv (Inv S) _ _ _ h1 (fun L2 z1 hz1 h2 => ?_)
  refine forRange_inv (Inv S) _ _ _ ?_ (fun L3 z2 hz2 h3 => ?_)
  · exact Inv_ite h2 _ _ (valid_tLevel S l lv i z1 (slotOK_of_findSite hv.1 ha hi hz1))
  · exact Inv_ite h3 _ _ (valid_tNupNdown S l l U i i z1 z2 (slotOK_of_findSite hv.1 ha hi hz1)
      (slotOK_of_findSite hv.1 ha hi (Nat.lt_trans hz2 hz1)))

theorem addMagnetization_inv (S : List Site) (L L' : Lattice K) (l : String) (m : K) (hv : Inv S L)
    (h : addMagnetization L l m = .ok L') : Inv S L' := by
  have hg := addMagnetization_guard L L' l m h
  obtain ⟨a, ha, hsp⟩ := magnetization_facts L l hg
  unfold addMagnetization at h
  dsimp only at h
  simp only [guardsOf] at hg
  rw [hg, guardEnv_orb1 L l l a ha] at h
  cases h
  refine forRange_inv (Inv S) _ _ _ hv (fun L1 i hi h1 => ?_)
  have hup : spinUp < a.nspin := by simp [spinUp, hsp]
  have hdn : spinDown < a.nspin := by simp [spinDown, hsp]
  exact Inv_store (Inv_store h1 _ (valid_tLevel S l _ i spinUp (slotOK_of_findSite hv.1 ha hi hup))) _
    (valid_tLevel S l _ i spinDown (slotOK_of_findSite hv.1 ha hi hdn))

theorem szszLoop_inv (S : List Site) (L : Lattice K) (l1 l2 : String) (J : K) (a b : Site) (hv : Inv S L)
    (ha : findSite L l1 = some a) (hb : findSite L l2 = some b) (hnorb : a.norb = b.norb)
    (hsa : a.nspin = 2) (hsb : b.nspin = 2) : Inv S (szszLoop L l1 l2 J a.norb) := by
  unfold szszLoop
  refine forRange_inv (Inv S) _ _ _ hv (fun L1 i hi h1 => ?_)
  have hup : spinUp < a.nspin := by simp [spinUp, hsa]
  have hdn : spinDown < a.nspin := by simp [spinDown, hsa]
  have hupb : spinUp < b.nspin := by simp [spinUp, hsb]
  have hdnb : spinDown < b.nspin := by simp [spinDown, hsb]
  have hib : i < b.norb := hnorb ▸ hi
  have a1 := slotOK_of_findSite hv.1 ha hi hup
  have a0 := slotOK_of_findSite hv.1 ha hi hdn
  have b1 := slotOK_of_findSite hv.1 hb hib hupb
  have b0 := slotOK_of_findSite hv.1 hb hib hdnb
  dsimp only
  have h2 := Inv_store (Inv_store h1 _ (valid_tNupNdown S l1 l2 (addSzSz_updown J) i i spinUp spinDown a1 b0)) _
    (valid_tNupNdown S l1 l2 (addSzSz_downup J) i i spinDown spinUp a0 b1)
  split
  · exact Inv_store (Inv_store h2 _ (valid_tNupNdown S l1 l2 _ i i spinUp spinUp a1 b1)) _
      (valid_tNupNdown S l1 l2 _ i i spinDown spinDown a0 b0)
  · exact Inv_store (Inv_store h2 _ (valid_tLevel S l1 _ i spinUp a1)) _ (valid_tLevel S l1 _ i spinDown a0)

theorem addSzSz_inv (S : List Site) (L L' : Lattice K) (l1 l2 : String) (J : K) (hv : Inv S L)
    (h : addSzSz L l1 l2 J = .ok L') : Inv S L' := by
  have hg := addSzSz_guard L L' l1 l2 J h
  obtain ⟨a, b, ha, hb, h1, h2, h3⟩ := szsz_facts L l1 l2 hg
  unfold addSzSz at h
  dsimp only at h
  simp only [guardsOf] at hg
  rw [hg, guardEnv_orb1 L l1 l2 a ha] at h
  cases h
  exact szszLoop_inv S L l1 l2 J a b hv ha hb h1 h3 (h2 ▸ h3)

theorem addSS_inv (S : List Site) (L L' : Lattice K) (l1 l2 : String) (J : K) (hv : Inv S L)
    (h : addSS L l1 l2 J = .ok L') : Inv S L' := by
  have hg := addSS_guard L L' l1 l2 J h
  obtain ⟨a, b, ha, hb, h1, h2, h3⟩ := ss_facts L l1 l2 hg
  unfold addSS at h
  dsimp only at h
  simp only [guardsOf] at hg
  rw [hg, guardEnv_orb1 L l1 l2 a ha] at h
  dsimp only at h
  split at h
  · cases h
  · rename_i L1 hL1
    cases h
    have hv1 := addSzSz_inv S L L1 l1 l2 J hv hL1
    refine forRange_inv (Inv S) _ _ _ hv1 (fun L2 i hi h4 => ?_)
    have hsb : b.nspin = 2 := h2 ▸ h3
    have hib : i < b.norb := h1 ▸ hi
    have a1 := slotOK_of_findSite (z := 1) hv.1 ha hi (by omega)
    have a0 := slotOK_of_findSite (z := 0) hv.1 ha hi (by omega)
    have b1 := slotOK_of_findSite (z := 1) hv.1 hb hib (by omega)
    have b0 := slotOK_of_findSite (z := 0) hv.1 hb hib (by omega)
    exact Inv_store (Inv_store h4 _ (valid_tSplusSminus S l1 l2 _ i a1 a0 b1 b0)) _
      (valid_tSminusSplus S l1 l2 _ i a1 a0 b1 b0)

theorem addTerm_inv (S : List Site) (L L' : Lattice K) (t : Term K) (hv : Inv S L) (h : addTerm L t = .ok L') :
    Inv S L' := by
  rcases addTerm_ok_cases L L' t h with rfl | ⟨ht, rfl⟩
  · exact hv
  · exact Inv_store hv t (by rw [← hv.1]; exact ht)

theorem addHoppingFull_inv (cj : K → K) (S : List Site) (L L' : Lattice K) (l1 l2 : String) (t : K)
    (o1 o2 s1 s2 : Nat) (hv : Inv S L) (h : addHoppingFull cj L l1 l2 t o1 o2 s1 s2 = .ok L') : Inv S L' := by
  have hg := addHoppingFull_guard cj L L' l1 l2 t o1 o2 s1 s2 h
  unfold addHoppingFull at h
  dsimp only at h
  simp only [guardsOf] at hg
  rw [hg] at h
  simp only [bind, Except.bind] at h
  split at h
  · cases h
  · rename_i L1 hL1
    exact addTerm_inv S L1 L' _ (addTerm_inv S L L1 _ hv hL1) h

/-! the theorems of group (5) -/

theorem addSzSz_allValid (L L' : Lattice K) (l1 l2 : String) (J : K) (hv : allValid L = true)
    (h : addSzSz L l1 l2 J = .ok L') : allValid L' = true :=
  (addSzSz_inv L.sites L L' l1 l2 J ⟨rfl, hv⟩ h).2

theorem addSS_allValid (L L' : Lattice K) (l1 l2 : String) (J : K) (hv : allValid L = true)
    (h : addSS L l1 l2 J = .ok L') : allValid L' = true :=
  (addSS_inv L.sites L L' l1 l2 J ⟨rfl, hv⟩ h).2

theorem addCoulombS_allValid (L L' : Lattice K) (l : String) (U lv : K) (hv : allValid L = true)
    (h : addCoulombS L l U lv = .ok L') : allValid L' = true :=
  (addCoulombS_inv L.sites L L' l U lv ⟨rfl, hv⟩ h).2

theorem addLevel_allValid (L L' : Lattice K) (l : String) (lv : K) (hv : allValid L = true)
    (h : addLevel L l lv = .ok L') : allValid L' = true :=
  (addLevel_inv L.sites L L' l lv ⟨rfl, hv⟩ h).2

theorem addMagnetization_allValid (L L' : Lattice K) (l : String) (m : K) (hv : allValid L = true)
    (h : addMagnetization L l m = .ok L') : allValid L' = true :=
  (addMagnetization_inv L.sites L L' l m ⟨rfl, hv⟩ h).2

theorem addHoppingFull_allValid (cj : K → K) (L L' : Lattice K) (l1 l2 : String) (t : K) (o1 o2 s1 s2 : Nat)
    (hv : allValid L = true) (h : addHoppingFull cj L l1 l2 t o1 o2 s1 s2 = .ok L') : allValid L' = true :=
  (addHoppingFull_inv cj L.sites L L' l1 l2 t o1 o2 s1 s2 ⟨rfl, hv⟩ h).2

theorem addCoulombP_inv (S : List Site) (L L' : Lattice K) (l : String) (U Up J lv : K) (hv : Inv S L)
    (h : addCoulombP L l U Up J lv = .ok L') : Inv S L' := by
  have hg := addCoulombP_guard L L' l U Up J lv h
  obtain ⟨a, ha, _, _⟩ := coulombP_facts L l hg
  unfold addCoulombP at h
  dsimp only at h
  simp only [guardsOf] at hg
  rw [hg, guardEnv_orb1 L l l a ha, guardEnv_spin1 L l l a ha] at h
  dsimp only at h
  have ok : ∀ {o z : Nat}, o < a.norb → z < a.nspin → slotOK S l o z = true :=
    fun ho hz => slotOK_of_findSite hv.1 ha ho hz
  refine rangeM_inv (Inv S) _ _ L L' hv (fun L1 i L1' hi h1 hs1 => ?_) h
  refine rangeM_inv (Inv S) _ _ L1 L1' h1 (fun L2 z1 L2' hz1 h2 hs2 => ?_) hs1
  refine rangeM_inv (Inv S) _ _ _ L2' ?_ (fun L3 z2 L3' hz2 h3 hs3 => ?_) hs2
  · refine forRange_inv (Inv S) _ _ _ (Inv_ite h2 _ _ (valid_tLevel S l lv i z1 (ok hi hz1)))
      (fun L4 j hj h4 => ?_)
    exact Inv_ite h4 _ _ (valid_tNupNdown S l l _ i j z1 z1 (ok hi hz1) (ok hj hz1))
  · have hz2' : z2 < a.nspin := Nat.lt_trans hz2 hz1
    refine rangeM_inv (Inv S) _ _ _ L3'
      (Inv_ite h3 _ _ (valid_tNupNdown S l l U i i z1 z2 (ok hi hz1) (ok hi hz2')))
      (fun L5 j L5' hj h5 hs5 => ?_) hs3
    split at hs5
    · have h6 := Inv_ite h5 (NonzeroTest.nz Up = true) _
        (valid_tNupNdown S l l Up i j z1 z2 (ok hi hz1) (ok hj hz2'))
      split at hs5
      · simp only [bind, Except.bind] at hs5
        split at hs5
        · cases hs5
        · rename_i t1 ht1
          split at hs5
          · cases hs5
          · rename_i t2 ht2
            cases hs5
            exact Inv_store (Inv_store h6 t1
                (valid_tSpinflip S l _ i j z1 z2 t1 ht1 (ok hi hz1) (ok hj hz2') (ok hj hz1) (ok hi hz2'))) t2
              (valid_tPairHopping S l _ i j z1 z2 t2 ht2 (ok hi hz1) (ok hj hz2') (ok hj hz1) (ok hi hz2'))
      · cases hs5
        exact h6
    · cases hs5
      exact h5

theorem addCoulombP_allValid (L L' : Lattice K) (l : String) (U Up J lv : K) (hv : allValid L = true)
    (h : addCoulombP L l U Up J lv = .ok L') : allValid L' = true :=
  (addCoulombP_inv L.sites L L' l U Up J lv ⟨rfl, hv⟩ h).2

/-! extras: the remaining hopping presets and `keyedByOrder` -/

theorem addHoppingOrb_allValid (cj : K → K) (L L' : Lattice K) (l1 l2 : String) (t : K) (o1 o2 : Nat)
    (hv : allValid L = true) (h : addHoppingOrb cj L l1 l2 t o1 o2 = .ok L') : allValid L' = true := by
  have hg := addHoppingOrb_guard cj L L' l1 l2 t o1 o2 h
  unfold addHoppingOrb at h
  dsimp only at h
  simp only [guardsOf] at hg
  rw [hg] at h
  dsimp only at h
  exact (rangeM_inv (Inv L.sites) _ _ L L' ⟨rfl, hv⟩
    (fun L1 z L1' _ h1 hs => addHoppingFull_inv cj _ L1 L1' l1 l2 t o1 o2 z z h1 hs) h).2

theorem addHoppingAll_allValid (cj : K → K) (L L' : Lattice K) (l1 l2 : String) (t : K)
    (hv : allValid L = true) (h : addHoppingAll cj L l1 l2 t = .ok L') : allValid L' = true := by
  have hg := addHoppingAll_guard cj L L' l1 l2 t h
  unfold addHoppingAll at h
  dsimp only at h
  simp only [guardsOf] at hg
  rw [hg] at h
  dsimp only at h
  exact (rangeM_inv (Inv L.sites) _ _ L L' ⟨rfl, hv⟩
    (fun L1 z L1' _ h1 hs => rangeM_inv (Inv L.sites) _ _ L1 L1' h1
      (fun L2 i L2' _ h2 hs2 => addHoppingFull_inv cj _ L2 L2' l1 l2 t i i z z h2 hs2) hs) h).2

theorem storeTerm_keyedByOrder (L : Lattice K) (t : Term K) (h : keyedByOrder L = true) :
    keyedByOrder (storeTerm L t) = true := by
  have key : ∀ (l : List (Nat × List (Term K))), (l.all fun p => p.2.all fun t => t.order == p.1) = true →
      ((insertTermList t.order t l).all fun p => p.2.all fun t => t.order == p.1) = true := by
    intro l hl
    induction l with
    | nil => simp [insertTermList]
    | cons p rest ih =>
      obtain ⟨m, ts⟩ := p
      simp only [List.all_cons, Bool.and_eq_true] at hl
      simp only [insertTermList]
      split
      · rename_i hm
        simp only [List.all_cons, List.all_append, List.all_nil, Bool.and_true, Bool.and_eq_true, beq_iff_eq]
        exact ⟨⟨hl.1, hm⟩, hl.2⟩
      · split
        · simp only [List.all_cons, List.all_nil, Bool.and_true, Bool.and_eq_true, beq_self_eq_true, true_and]
          exact ⟨hl.1, hl.2⟩
        · simp only [List.all_cons, Bool.and_eq_true]
          exact ⟨hl.1, ih hl.2⟩
  exact key L.terms h

/-! ## why `SitesOK` is needed in group (2): a site list with a duplicated label (not a `std::map`) -/

section Counterexample
local instance : NonzeroTest Int := ⟨fun x => x != 0⟩
private def Ldup : Lattice Int := ⟨[⟨"a", 1, 1⟩, ⟨"a", 2, 2⟩], [], 0⟩
example : validTerm Ldup (tLevel "a" (1 : Int) 1 1) = true ∧ validateTerm Ldup (tLevel "a" (1 : Int) 1 1) = false := by
  decide
end Counterexample

end Pomerol.Spec.LatticeProps
