/-
  C18: the index bookkeeping of `IndexClassification` is a bijection between the valid
  (label, orbital, spin) triples of a lattice and `0 .. IndexSize-1`, for both ordering modes.
-/
import PomerolModel.Model.Index
import Mathlib.Data.List.Nodup

namespace Pomerol.Spec.IndexBij
open Pomerol.Model Pomerol.Model.Lat Pomerol.Model.Idx Pomerol.Gen.Core

/-- a triple (label, orbital, spin) is valid for the lattice -/
def Valid (sites : List Site) (x : IndexInfo) : Prop :=
  ∃ s ∈ sites, s.label = x.label ∧ x.orb < s.norb ∧ x.spin < s.nspin

/-! ### `maxSpin` is an upper bound -/

private theorem foldl_max_ge (sites : List Site) (m : Nat) :
    m ≤ sites.foldl (fun m s => if s.nspin > m then s.nspin else m) m ∧
    ∀ s ∈ sites, s.nspin ≤ sites.foldl (fun m s => if s.nspin > m then s.nspin else m) m := by
  induction sites generalizing m with
  | nil => simp
  | cons t rest ih =>
    simp only [List.foldl_cons, List.mem_cons, forall_eq_or_imp]
    have h := ih (if t.nspin > m then t.nspin else m)
    have h1 : m ≤ (if t.nspin > m then t.nspin else m) := by split <;> omega
    have h2 : t.nspin ≤ (if t.nspin > m then t.nspin else m) := by split <;> omega
    exact ⟨Nat.le_trans h1 h.1, Nat.le_trans h2 h.1, h.2⟩

theorem le_maxSpin {sites : List Site} {s : Site} (hs : s ∈ sites) : s.nspin ≤ maxSpin sites :=
  (foldl_max_ge sites 0).2 s hs

/-! ### site-major mode -/

private theorem mem_siteMajor (sites : List Site) (x : IndexInfo) :
    x ∈ (sites.flatMap fun s => (List.range s.norb).flatMap fun i =>
      (List.range s.nspin).map fun z => (⟨s.label, i, z⟩ : IndexInfo)) ↔ Valid sites x := by
  simp only [List.mem_flatMap, List.mem_map, List.mem_range, Valid]
  constructor
  · rintro ⟨s, hs, i, hi, z, hz, rfl⟩
    exact ⟨s, hs, rfl, hi, hz⟩
  · rintro ⟨s, hs, hl, ho, hz⟩
    refine ⟨s, hs, x.orb, ho, x.spin, hz, ?_⟩
    cases x; simp_all

private theorem nodup_siteMajor (sites : List Site) (hd : (sites.map (·.label)).Nodup) :
    (sites.flatMap fun s => (List.range s.norb).flatMap fun i =>
      (List.range s.nspin).map fun z => (⟨s.label, i, z⟩ : IndexInfo)).Nodup := by
  rw [List.nodup_flatMap]
  constructor
  · intro s _
    rw [List.nodup_flatMap]
    constructor
    · intro i _
      refine List.Nodup.map_on ?_ List.nodup_range
      intro a _ b _ h
      injection h
    · refine List.Pairwise.imp ?_ (List.pairwise_lt_range (n := s.norb))
      intro a b hab
      simp only [Function.onFun]
      intro x hx hy
      simp only [List.mem_map] at hx hy
      obtain ⟨_, _, rfl⟩ := hx
      obtain ⟨_, _, h⟩ := hy
      injection h with _ h2 _
      omega
  · rw [List.Nodup, List.pairwise_map] at hd
    refine List.Pairwise.imp ?_ hd
    intro a b hab
    simp only [Function.onFun]
    intro x hx hy
    simp only [List.mem_flatMap, List.mem_map] at hx hy
    obtain ⟨_, _, _, _, rfl⟩ := hx
    obtain ⟨_, _, _, _, h⟩ := hy
    injection h with h1 _ _
    exact hab h1.symm

private theorem length_orbSpin (l : String) (n k : Nat) :
    ((List.range n).flatMap fun i => (List.range k).map fun z => (⟨l, i, z⟩ : IndexInfo)).length
      = n * k := by
  induction n with
  | zero => simp
  | succ n ih =>
    rw [List.range_succ, List.flatMap_append, List.length_append, ih]
    simp [Nat.succ_mul]

private theorem length_siteMajor (sites : List Site) :
    (sites.flatMap fun s => (List.range s.norb).flatMap fun i =>
      (List.range s.nspin).map fun z => (⟨s.label, i, z⟩ : IndexInfo)).length = indexSize sites := by
  induction sites with
  | nil => simp [indexSize]
  | cons s rest ih =>
    rw [List.flatMap_cons, List.length_append, ih, length_orbSpin]
    simp [indexSize]

/-! ### spin-major mode (`continue` variant) -/

private theorem mem_siteSpinEntries (s : Site) (z : Nat) (x : IndexInfo) :
    x ∈ siteSpinEntries s z ↔ x.label = s.label ∧ x.orb < s.norb ∧ x.spin = z := by
  simp only [siteSpinEntries, List.mem_map, List.mem_range]
  constructor
  · rintro ⟨i, hi, rfl⟩; exact ⟨rfl, hi, rfl⟩
  · rintro ⟨h1, h2, h3⟩
    refine ⟨x.orb, h2, ?_⟩
    cases x; simp_all

private theorem mem_spinMajorSites (z : Nat) (sites : List Site) (x : IndexInfo) :
    x ∈ spinMajorSites false z sites ↔
      x.spin = z ∧ ∃ s ∈ sites, s.label = x.label ∧ x.orb < s.norb ∧ z < s.nspin := by
  induction sites with
  | nil => simp [spinMajorSites]
  | cons s rest ih =>
    simp only [spinMajorSites, Bool.false_eq_true, if_false, List.mem_cons, exists_eq_or_imp]
    split
    · rename_i h
      rw [ih]
      constructor
      · rintro ⟨h1, h2⟩; exact ⟨h1, Or.inr h2⟩
      · rintro ⟨h1, h2 | h2⟩
        · omega
        · exact ⟨h1, h2⟩
    · rename_i h
      rw [List.mem_append, ih, mem_siteSpinEntries]
      constructor
      · rintro (⟨h1, h2, h3⟩ | ⟨h1, h2⟩)
        · exact ⟨h3, Or.inl ⟨h1.symm, h2, by omega⟩⟩
        · exact ⟨h1, Or.inr h2⟩
      · rintro ⟨h1, ⟨h2, h3, h4⟩ | h2⟩
        · exact Or.inl ⟨h2.symm, h3, h1⟩
        · exact Or.inr ⟨h1, h2⟩

private theorem nodup_siteSpinEntries (s : Site) (z : Nat) : (siteSpinEntries s z).Nodup := by
  refine List.Nodup.map_on ?_ List.nodup_range
  intro a _ b _ h
  injection h

private theorem nodup_spinMajorSites (z : Nat) (sites : List Site)
    (hd : (sites.map (·.label)).Nodup) : (spinMajorSites false z sites).Nodup := by
  induction sites with
  | nil => simp [spinMajorSites]
  | cons s rest ih =>
    simp only [List.map_cons, List.nodup_cons, List.mem_map, not_exists, not_and] at hd
    simp only [spinMajorSites, Bool.false_eq_true, if_false]
    split
    · exact ih hd.2
    · rw [List.nodup_append]
      refine ⟨nodup_siteSpinEntries s z, ih hd.2, ?_⟩
      intro a ha b hb hab
      subst hab
      rw [mem_siteSpinEntries] at ha
      rw [mem_spinMajorSites] at hb
      obtain ⟨_, t, ht, hl, _⟩ := hb
      exact hd.1 t ht (hl.trans ha.1)

private theorem mem_spinMajor (sites : List Site) (x : IndexInfo) :
    x ∈ ((List.range (maxSpin sites)).flatMap fun z => spinMajorSites false z sites) ↔
      Valid sites x := by
  simp only [List.mem_flatMap, List.mem_range, mem_spinMajorSites, Valid]
  constructor
  · rintro ⟨z, _, rfl, s, hs, h1, h2, h3⟩
    exact ⟨s, hs, h1, h2, h3⟩
  · rintro ⟨s, hs, h1, h2, h3⟩
    have := le_maxSpin hs
    exact ⟨x.spin, by omega, rfl, s, hs, h1, h2, h3⟩

private theorem nodup_spinMajor (sites : List Site) (hd : (sites.map (·.label)).Nodup) (M : Nat) :
    ((List.range M).flatMap fun z => spinMajorSites false z sites).Nodup := by
  rw [List.nodup_flatMap]
  refine ⟨fun z _ => nodup_spinMajorSites z sites hd, ?_⟩
  refine List.Pairwise.imp ?_ (List.pairwise_lt_range (n := M))
  intro a b hab
  simp only [Function.onFun]
  intro x hx hy
  rw [mem_spinMajorSites] at hx hy
  omega

private theorem length_spinMajor_cons (s : Site) (rest : List Site) (M : Nat) :
    ((List.range M).flatMap fun z => spinMajorSites false z (s :: rest)).length =
      s.norb * min M s.nspin +
        ((List.range M).flatMap fun z => spinMajorSites false z rest).length := by
  induction M with
  | zero => simp
  | succ M ih =>
    rw [List.range_succ, List.flatMap_append, List.length_append, ih,
      List.flatMap_append, List.length_append]
    simp only [List.flatMap_cons, List.flatMap_nil, List.append_nil, spinMajorSites,
      Bool.false_eq_true, if_false]
    by_cases h : M ≥ s.nspin
    · rw [if_pos h, Nat.min_eq_right h, Nat.min_eq_right (by omega : s.nspin ≤ M + 1)]
      omega
    · rw [if_neg h, Nat.min_eq_left (by omega : M ≤ s.nspin),
        Nat.min_eq_left (by omega : M + 1 ≤ s.nspin), List.length_append]
      simp only [siteSpinEntries, List.length_map, List.length_range, Nat.mul_succ]
      omega

private theorem length_spinMajor (sites : List Site) (M : Nat) (hM : ∀ s ∈ sites, s.nspin ≤ M) :
    ((List.range M).flatMap fun z => spinMajorSites false z sites).length = indexSize sites := by
  induction sites with
  | nil =>
    simp only [spinMajorSites, indexSize, List.map_nil, List.sum_nil]
    clear hM
    induction M with
    | zero => simp
    | succ M ih => rw [List.range_succ, List.flatMap_append, List.length_append, ih]; simp
  | cons s rest ih =>
    rw [length_spinMajor_cons, ih (fun t ht => hM t (List.mem_cons_of_mem _ ht)),
      Nat.min_eq_right (hM s List.mem_cons_self)]
    simp [indexSize]

/-! ### main statements -/

/-- the enumeration lists exactly the valid triples, each once, for BOTH modes and every list of
sites with distinct labels (any numbers of orbitals and spins per site, including 0) -/
theorem enumerate_mem (sites : List Site) (hd : (sites.map (·.label)).Nodup) (mode : Bool)
    (x : IndexInfo) : x ∈ enumerate sites mode ↔ Valid sites x := by
  have _ := hd  -- (membership does not need distinct labels; hypothesis kept for a uniform interface)
  cases mode
  · simp only [enumerate, Bool.false_eq_true, if_false]; exact mem_siteMajor sites x
  · simp only [enumerate, if_true, spinMajorBreaks]; exact mem_spinMajor sites x

theorem enumerate_nodup (sites : List Site) (hd : (sites.map (·.label)).Nodup) (mode : Bool) :
    (enumerate sites mode).Nodup := by
  cases mode
  · simp only [enumerate, Bool.false_eq_true, if_false]; exact nodup_siteMajor sites hd
  · simp only [enumerate, if_true, spinMajorBreaks]; exact nodup_spinMajor sites hd _

theorem enumerate_length (sites : List Site) (mode : Bool) :
    (enumerate sites mode).length = indexSize sites := by
  cases mode
  · simp only [enumerate, Bool.false_eq_true, if_false]; exact length_siteMajor sites
  · simp only [enumerate, if_true, spinMajorBreaks]
    exact length_spinMajor sites _ (fun s hs => le_maxSpin hs)

/-- hence `prepare` never leaves a null slot and never overflows -/
theorem prepare_ok (sites : List Site) (mode : Bool) :
    prepare sites mode = .ok (enumerate sites mode) := by
  simp [prepare, enumerate_length]

/-! ### lookups -/

private theorem getIndex_getElem {tbl : List IndexInfo} (hn : tbl.Nodup) (i : Nat)
    (hi : i < tbl.length) : getIndex tbl tbl[i] = i := by
  have : tbl.findIdx? (· = tbl[i]) = some i := by
    rw [List.findIdx?_eq_some_iff_getElem]
    refine ⟨hi, by simp, ?_⟩
    intro j hji
    have hj : j < tbl.length := by omega
    simp only [decide_eq_true_eq]
    intro h
    have := (hn.getElem_inj_iff (hi := hj) (hj := hi)).1 h
    omega
  simp [getIndex, this]

private theorem getIndex_not_mem {tbl : List IndexInfo} {x : IndexInfo} (hx : x ∉ tbl) :
    getIndex tbl x = tbl.length := by
  have : tbl.findIdx? (· = x) = none := by
    rw [List.findIdx?_eq_none_iff]
    intro y hy
    simp only [decide_eq_false_iff_not]
    rintro rfl
    exact hx hy
  simp [getIndex, this]

/-- forward and inverse lookups are mutual inverses onto 0..N-1; invalid triples map to N -/
theorem getIndex_getInfo (sites : List Site) (hd : (sites.map (·.label)).Nodup) (mode : Bool)
    (i : Nat) (hi : i < indexSize sites) :
    ∃ x, getInfo (enumerate sites mode) i = .ok x ∧ getIndex (enumerate sites mode) x = i ∧
      Valid sites x := by
  have hi' : i < (enumerate sites mode).length := by rw [enumerate_length]; exact hi
  refine ⟨(enumerate sites mode)[i], ?_, getIndex_getElem (enumerate_nodup sites hd mode) i hi', ?_⟩
  · simp [getInfo, List.getElem?_eq_getElem hi']
  · exact (enumerate_mem sites hd mode _).1 (List.getElem_mem hi')

theorem getInfo_getIndex (sites : List Site) (hd : (sites.map (·.label)).Nodup) (mode : Bool)
    (x : IndexInfo) (hx : Valid sites x) :
    getIndex (enumerate sites mode) x < indexSize sites ∧
      getInfo (enumerate sites mode) (getIndex (enumerate sites mode) x) = .ok x := by
  have hm := (enumerate_mem sites hd mode x).2 hx
  obtain ⟨i, hi, rfl⟩ := List.getElem_of_mem hm
  rw [getIndex_getElem (enumerate_nodup sites hd mode) i hi]
  refine ⟨by rw [← enumerate_length sites mode]; exact hi, ?_⟩
  simp [getInfo, List.getElem?_eq_getElem hi]

theorem getIndex_invalid (sites : List Site) (hd : (sites.map (·.label)).Nodup) (mode : Bool)
    (x : IndexInfo) (hx : ¬ Valid sites x) :
    getIndex (enumerate sites mode) x = indexSize sites := by
  rw [getIndex_not_mem (fun h => hx ((enumerate_mem sites hd mode x).1 h)), enumerate_length]

theorem getInfo_out_of_range (sites : List Site) (mode : Bool) (i : Nat)
    (hi : indexSize sites ≤ i) : getInfo (enumerate sites mode) i = .error .wrongIndex := by
  have : (enumerate sites mode)[i]? = none := by
    rw [List.getElem?_eq_none_iff, enumerate_length]; exact hi
  simp [getInfo, this]

/-- the two modes enumerate the same set: switching the mode is a permutation of the indices -/
theorem modes_perm (sites : List Site) (hd : (sites.map (·.label)).Nodup) :
    (enumerate sites true).Perm (enumerate sites false) := by
  rw [List.perm_ext_iff_of_nodup (enumerate_nodup sites hd true) (enumerate_nodup sites hd false)]
  intro a
  rw [enumerate_mem sites hd, enumerate_mem sites hd]

/-- REGRESSION: with `break` instead of `continue` in the spin-major loop (the defect that was
fixed) the table has null slots for sites with fewer spins sorted before sites with more spins -/
theorem break_variant_loses_entries :
    ((List.range 2).flatMap fun z => spinMajorSites true z [⟨"A", 1, 1⟩, ⟨"B", 1, 2⟩]).length
      < indexSize [⟨"A", 1, 1⟩, ⟨"B", 1, 2⟩] := by
  decide

end Pomerol.Spec.IndexBij
