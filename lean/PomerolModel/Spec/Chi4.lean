/-
  Lehmann representation of the two-particle Green's function (C02) and its first exchange
  symmetry (C13).

  χ_{ijkl}(ω₁,ω₂;ω₃) = ∫∫∫_{[0,β]³} ⟨T c_i(τ₁) c_j(τ₂) c†_k(τ₃) c†_l(0)⟩ e^{iω₁τ₁ + iω₂τ₂ − iω₃τ₃}
  with the time-ordered product over the cube formalised as the signed sum over the six ordered
  simplices.

  * `corr4_eq_sum`     : the four-operator thermal correlator in the eigenbasis.
  * `ordered_lehmann`  : one ordered simplex = world-line sum of the library's multi-term.
  * `chi_lehmann`, `chi_lehmann_matsubara` : definition = what the library evaluates.
  * `chiLehmann_swap01`, `chiDef_swap01` : antisymmetry under exchange of the two annihilators.
-/
import PomerolModel.Spec.Lehmann
import PomerolModel.Spec.Simplex
import Mathlib.MeasureTheory.Integral.DominatedConvergence
import Mathlib.Algebra.BigOperators.Fin
import Mathlib.Data.Fintype.BigOperators

namespace Pomerol.Spec
open Matrix Complex

variable {ι : Type} [Fintype ι] [DecidableEq ι]

set_option linter.unusedSectionVars false

/-- Heisenberg evolution in imaginary time, eigenbasis -/
noncomputable def EigenData.evol (d : EigenData ι) (A : Matrix ι ι ℂ) (τ : ℝ) : Matrix ι ι ℂ :=
  NormedSpace.exp ((τ : ℂ) • d.H) * A * NormedSpace.exp ((-(τ : ℂ)) • d.H)

/-- ⟨A(s₁) B(s₂) C(s₃) X(0)⟩ -/
noncomputable def EigenData.corr4 (d : EigenData ι) (A B Cc X : Matrix ι ι ℂ) (s1 s2 s3 : ℝ) : ℂ :=
  (d.ρ * d.evol A s1 * d.evol B s2 * d.evol Cc s3 * X).trace

/-- matrix elements of the evolved operator -/
theorem evol_apply (d : EigenData ι) (A : Matrix ι ι ℂ) (τ : ℝ) (n m : ι) :
    d.evol A τ n m = Complex.exp ((τ : ℂ) * ((d.E n - d.E m : ℝ) : ℂ)) * A n m := by
  unfold EigenData.evol
  rw [exp_smul_H, exp_smul_H]
  simp only [mul_diagonal, diagonal_mul]
  have : Complex.exp ((τ : ℂ) * ((d.E n - d.E m : ℝ) : ℂ))
      = Complex.exp ((τ : ℂ) * (d.E n : ℂ)) * Complex.exp (-(τ : ℂ) * (d.E m : ℂ)) := by
    rw [← Complex.exp_add]; congr 1; push_cast; ring
  rw [this]; ring

/-- trace of a product of a diagonal matrix and four matrices as a four-fold sum -/
theorem trace_diag_mul4 (w : ι → ℂ) (M1 M2 M3 X : Matrix ι ι ℂ) :
    (diagonal w * M1 * M2 * M3 * X).trace
      = ∑ n1, ∑ n2, ∑ n3, ∑ n4, w n1 * M1 n1 n2 * M2 n2 n3 * M3 n3 n4 * X n4 n1 := by
  have h : diagonal w * M1 * M2 * M3 * X = diagonal w * (M1 * (M2 * (M3 * X))) := by
    simp only [Matrix.mul_assoc]
  rw [h, Matrix.trace]
  simp only [diag_apply, diagonal_mul]
  refine Finset.sum_congr rfl fun n1 _ => ?_
  rw [Matrix.mul_apply, Finset.mul_sum]
  refine Finset.sum_congr rfl fun n2 _ => ?_
  rw [Matrix.mul_apply, Finset.mul_sum, Finset.mul_sum]
  refine Finset.sum_congr rfl fun n3 _ => ?_
  rw [Matrix.mul_apply, Finset.mul_sum, Finset.mul_sum, Finset.mul_sum]
  refine Finset.sum_congr rfl fun n4 _ => ?_
  ring

theorem corr4_eq_sum (d : EigenData ι) (A B Cc X : Matrix ι ι ℂ) (s1 s2 s3 : ℝ) :
    d.corr4 A B Cc X s1 s2 s3 = ∑ n1, ∑ n2, ∑ n3, ∑ n4,
      (d.w n1 : ℂ) * A n1 n2 * B n2 n3 * Cc n3 n4 * X n4 n1 *
      Complex.exp ((s1:ℂ) * ((d.E n1 - d.E n2 : ℝ):ℂ) + (s2:ℂ) * ((d.E n2 - d.E n3 : ℝ):ℂ)
        + (s3:ℂ) * ((d.E n3 - d.E n4 : ℝ):ℂ)) := by
  unfold EigenData.corr4 EigenData.ρ
  rw [trace_diag_mul4]
  refine Finset.sum_congr rfl fun n1 _ => Finset.sum_congr rfl fun n2 _ =>
    Finset.sum_congr rfl fun n3 _ => Finset.sum_congr rfl fun n4 _ => ?_
  rw [evol_apply, evol_apply, evol_apply, Complex.exp_add, Complex.exp_add]
  ring

/-- the contribution of ONE time ordering s₁ > s₂ > s₃ > 0 with frequencies (za, zb, zc) attached
to (A, B, C) -/
noncomputable def EigenData.orderedIntegral (d : EigenData ι) (A B Cc X : Matrix ι ι ℂ)
    (za zb zc : ℂ) : ℂ :=
  ∫ s1 in (0:ℝ)..d.β, ∫ s2 in (0:ℝ)..s1, ∫ s3 in (0:ℝ)..s2,
    d.corr4 A B Cc X s1 s2 s3 * Complex.exp (za * (s1:ℂ) + zb * (s2:ℂ) + zc * (s3:ℂ))

/-- what the library accumulates for one ordering ("world line" sum over four eigenstates of the
multi-term) -/
noncomputable def EigenData.orderedLehmann (d : EigenData ι) (A B Cc X : Matrix ι ι ℂ)
    (za zb zc : ℂ) : ℂ :=
  ∑ n1, ∑ n2, ∑ n3, ∑ n4, A n1 n2 * B n2 n3 * Cc n3 n4 * X n4 n1 *
    multiTerm d.β za zb zc (d.E n2 - d.E n1) (d.E n3 - d.E n2) (d.E n4 - d.E n3)
      (d.w n1) (d.w n2) (d.w n3) (d.w n4)

/-! ### pulling a finite sum of exponentials through the ordered triple integral -/

theorem expInt2_continuous (a b : ℂ) : Continuous (fun t : ℝ => expInt2 a b t) := by
  unfold expInt2
  apply intervalIntegral.continuous_primitive
  intro x y
  exact (Continuous.mul (by fun_prop) (expInt_continuous b)).intervalIntegrable _ _

/-- a finite linear combination of products of exponentials, integrated over the ordered simplex,
is the same combination of `simplexIntegral`s -/
theorem tripleIntegral_sum {κ : Type} (s : Finset κ) (c a1 a2 a3 : κ → ℂ) (β : ℝ) :
    (∫ s1 in (0:ℝ)..β, ∫ s2 in (0:ℝ)..s1, ∫ s3 in (0:ℝ)..s2,
        ∑ p ∈ s, c p * (Complex.exp (a1 p * (s1:ℂ)) *
          (Complex.exp (a2 p * (s2:ℂ)) * Complex.exp (a3 p * (s3:ℂ)))))
      = ∑ p ∈ s, c p * simplexIntegral β (a1 p) (a2 p) (a3 p) := by
  -- innermost
  have h3 : ∀ s1 s2 : ℝ, (∫ s3 in (0:ℝ)..s2,
        ∑ p ∈ s, c p * (Complex.exp (a1 p * (s1:ℂ)) *
          (Complex.exp (a2 p * (s2:ℂ)) * Complex.exp (a3 p * (s3:ℂ)))))
      = ∑ p ∈ s, c p * (Complex.exp (a1 p * (s1:ℂ)) *
          (Complex.exp (a2 p * (s2:ℂ)) * expInt (a3 p) s2)) := by
    intro s1 s2
    rw [intervalIntegral.integral_finsetSum]
    · refine Finset.sum_congr rfl fun p _ => ?_
      rw [intervalIntegral.integral_const_mul, intervalIntegral.integral_const_mul,
        intervalIntegral.integral_const_mul]
      rfl
    · intro p _
      apply Continuous.intervalIntegrable
      fun_prop
  -- middle
  have h2 : ∀ s1 : ℝ, (∫ s2 in (0:ℝ)..s1,
        ∑ p ∈ s, c p * (Complex.exp (a1 p * (s1:ℂ)) *
          (Complex.exp (a2 p * (s2:ℂ)) * expInt (a3 p) s2)))
      = ∑ p ∈ s, c p * (Complex.exp (a1 p * (s1:ℂ)) * expInt2 (a2 p) (a3 p) s1) := by
    intro s1
    rw [intervalIntegral.integral_finsetSum]
    · refine Finset.sum_congr rfl fun p _ => ?_
      rw [intervalIntegral.integral_const_mul, intervalIntegral.integral_const_mul]
      rfl
    · intro p _
      apply Continuous.intervalIntegrable
      exact continuous_const.mul (continuous_const.mul
        (Continuous.mul (by fun_prop) (expInt_continuous _)))
  simp_rw [h3, h2]
  rw [intervalIntegral.integral_finsetSum]
  · refine Finset.sum_congr rfl fun p _ => ?_
    rw [intervalIntegral.integral_const_mul]
    rfl
  · intro p _
    apply Continuous.intervalIntegrable
    exact continuous_const.mul (Continuous.mul (by fun_prop) (expInt2_continuous _ _))

/-- MAIN STEP: one ordered simplex, any fermionic frequencies (e^{βz} = −1), any spectrum incl.
all resonant cases -/
theorem ordered_lehmann (d : EigenData ι) (A B Cc X : Matrix ι ι ℂ) (za zb zc : ℂ)
    (ha : Complex.exp ((d.β:ℂ) * za) = -1) (hb : Complex.exp ((d.β:ℂ) * zb) = -1)
    (hc : Complex.exp ((d.β:ℂ) * zc) = -1) :
    d.orderedIntegral A B Cc X za zb zc = d.orderedLehmann A B Cc X za zb zc := by
  unfold EigenData.orderedIntegral EigenData.orderedLehmann
  -- the integrand as a single finite sum over world lines p = (n1, n2, n3, n4)
  have hI : ∀ s1 s2 s3 : ℝ,
      d.corr4 A B Cc X s1 s2 s3 * Complex.exp (za * (s1:ℂ) + zb * (s2:ℂ) + zc * (s3:ℂ))
      = ∑ p : ι × ι × ι × ι,
          ((d.w p.1 : ℂ) * A p.1 p.2.1 * B p.2.1 p.2.2.1 * Cc p.2.2.1 p.2.2.2 * X p.2.2.2 p.1) *
          (Complex.exp ((za - ((d.E p.2.1 - d.E p.1 : ℝ) : ℂ)) * (s1:ℂ)) *
            (Complex.exp ((zb - ((d.E p.2.2.1 - d.E p.2.1 : ℝ) : ℂ)) * (s2:ℂ)) *
              Complex.exp ((zc - ((d.E p.2.2.2 - d.E p.2.2.1 : ℝ) : ℂ)) * (s3:ℂ)))) := by
    intro s1 s2 s3
    rw [corr4_eq_sum]
    simp only [Fintype.sum_prod_type, Finset.sum_mul]
    refine Finset.sum_congr rfl fun n1 _ => Finset.sum_congr rfl fun n2 _ =>
      Finset.sum_congr rfl fun n3 _ => Finset.sum_congr rfl fun n4 _ => ?_
    rw [mul_assoc, ← Complex.exp_add, ← Complex.exp_add, ← Complex.exp_add]
    congr 2
    push_cast
    ring
  simp_rw [hI]
  rw [tripleIntegral_sum]
  simp only [Fintype.sum_prod_type]
  refine Finset.sum_congr rfl fun n1 _ => Finset.sum_congr rfl fun n2 _ =>
    Finset.sum_congr rfl fun n3 _ => Finset.sum_congr rfl fun n4 _ => ?_
  have key := simplex_closed_form d.β d.hβ za zb zc ha hb hc
    (d.E n2 - d.E n1) (d.E n3 - d.E n2) (d.E n4 - d.E n3) (d.w n1) (d.w n2) (d.w n3) (d.w n4)
    (w_ratio' d n1 n2) (w_ratio' d n2 n3) (w_ratio' d n3 n4)
  rw [← key]
  ring

/-- the six orderings of three objects: position → which object, with the sign of the permutation
(this is the library's table `permutations3`) -/
def perms3 : List ((Fin 3 → Fin 3) × ℤ) :=
  [ (![0,1,2], 1), (![0,2,1], -1), (![1,0,2], -1), (![1,2,0], 1), (![2,0,1], 1), (![2,1,0], -1) ]

/-- χ as the signed sum over the six time orderings; `O 0 = c_i`, `O 1 = c_j`, `O 2 = c†_k`,
`X = c†_l`, `z 0 = iω₁`, `z 1 = iω₂`, `z 2 = −iω₃` -/
noncomputable def EigenData.chiDef (d : EigenData ι) (O : Fin 3 → Matrix ι ι ℂ) (X : Matrix ι ι ℂ)
    (z : Fin 3 → ℂ) : ℂ :=
  (perms3.map fun p => (p.2 : ℂ) * d.orderedIntegral (O (p.1 0)) (O (p.1 1)) (O (p.1 2)) X
    (z (p.1 0)) (z (p.1 1)) (z (p.1 2))).sum

noncomputable def EigenData.chiLehmann (d : EigenData ι) (O : Fin 3 → Matrix ι ι ℂ)
    (X : Matrix ι ι ℂ) (z : Fin 3 → ℂ) : ℂ :=
  (perms3.map fun p => (p.2 : ℂ) * d.orderedLehmann (O (p.1 0)) (O (p.1 1)) (O (p.1 2)) X
    (z (p.1 0)) (z (p.1 1)) (z (p.1 2))).sum

/-- MAIN THEOREM (C02): definition = what the library evaluates, for all spectra, matrices and
fermionic triples -/
theorem chi_lehmann (d : EigenData ι) (O : Fin 3 → Matrix ι ι ℂ) (X : Matrix ι ι ℂ)
    (z : Fin 3 → ℂ) (hz : ∀ k, Complex.exp ((d.β:ℂ) * z k) = -1) :
    d.chiDef O X z = d.chiLehmann O X z := by
  unfold EigenData.chiDef EigenData.chiLehmann
  congr 1
  apply List.map_congr_left
  intro p _
  rw [ordered_lehmann d _ _ _ X _ _ _ (hz _) (hz _) (hz _)]

/-- at Matsubara frequencies -/
theorem chi_lehmann_matsubara (d : EigenData ι) (O : Fin 3 → Matrix ι ι ℂ) (X : Matrix ι ι ℂ)
    (k1 k2 k3 : ℤ) :
    d.chiDef O X ![I * (d.ω k1 : ℂ), I * (d.ω k2 : ℂ), -(I * (d.ω k3 : ℂ))] =
    d.chiLehmann O X ![I * (d.ω k1 : ℂ), I * (d.ω k2 : ℂ), -(I * (d.ω k3 : ℂ))] := by
  apply chi_lehmann
  have hpos : ∀ k : ℤ, Complex.exp ((d.β:ℂ) * (I * (d.ω k : ℂ))) = -1 := by
    intro k
    rw [← exp_I_omega_beta d k]
    congr 1
    ring
  have hneg : ∀ k : ℤ, Complex.exp ((d.β:ℂ) * (-(I * (d.ω k : ℂ)))) = -1 := by
    intro k
    rw [mul_neg, Complex.exp_neg, hpos k]
    norm_num
  intro k
  fin_cases k
  · exact hpos k1
  · exact hpos k2
  · exact hneg k3

/-- FIRST EXCHANGE SYMMETRY (C13): swapping the two annihilators together with their frequencies
flips the sign: χ_{jikl}(ω₂,ω₁;ω₃) = −χ_{ijkl}(ω₁,ω₂;ω₃) — both for the definition and for the
Lehmann form -/
theorem chiLehmann_swap01 (d : EigenData ι) (O : Fin 3 → Matrix ι ι ℂ) (X : Matrix ι ι ℂ)
    (z : Fin 3 → ℂ) :
    d.chiLehmann ![O 1, O 0, O 2] X ![z 1, z 0, z 2] = - d.chiLehmann O X z := by
  unfold EigenData.chiLehmann perms3
  simp
  ring

theorem chiDef_swap01 (d : EigenData ι) (O : Fin 3 → Matrix ι ι ℂ) (X : Matrix ι ι ℂ)
    (z : Fin 3 → ℂ) :
    d.chiDef ![O 1, O 0, O 2] X ![z 1, z 0, z 2] = - d.chiDef O X z := by
  unfold EigenData.chiDef perms3
  simp
  ring

end Pomerol.Spec
