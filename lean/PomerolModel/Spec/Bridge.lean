/-
  Bridge between the formulas extracted mechanically from the C++ sources
  (`PomerolModel/Generated/*Formulas.lean`, polymorphic in a real sort `R` and a complex sort `K`)
  and the mathematical formulas of the specification layer (`PomerolModel/Spec/*.lean`).

  The generated formulas are instantiated at `R := ℝ`, `K := ℂ` and shown to BE the formulas the
  Spec theorems talk about; combined with the Spec main theorems this gives
  "the value the library's formulas give equals the definition".
-/
import PomerolModel.Generated.GFFormulas
import PomerolModel.Generated.Chi4Formulas
import PomerolModel.Generated.SuscFormulas
import PomerolModel.Generated.DMFormulas
import PomerolModel.Spec.GFProps
import PomerolModel.Spec.Susc
import PomerolModel.Spec.Chi4
import PomerolModel.Spec.Gibbs
import Mathlib.Tactic.NormNum.OfScientific
import Mathlib.Tactic.LinearCombination

namespace Pomerol.Spec.Bridge
open Pomerol Pomerol.Spec Complex

noncomputable instance : HasExp ℝ := ⟨Real.exp⟩
noncomputable instance : HasExp ℂ := ⟨Complex.exp⟩
noncomputable instance : CplxOver ℝ ℂ := ⟨Complex.ofReal, fun z => ‖z‖⟩

/-! ## the instance projections at ℝ / ℂ -/

@[simp] theorem ofReal_eq (x : ℝ) : (CplxOver.ofReal (K := ℂ) x) = (x : ℂ) := rfl
@[simp] theorem abs_eq (z : ℂ) : (CplxOver.abs (R := ℝ) z) = ‖z‖ := rfl
@[simp] theorem expR_eq (x : ℝ) : (HasExp.exp x : ℝ) = Real.exp x := rfl
@[simp] theorem expC_eq (z : ℂ) : (HasExp.exp z : ℂ) = Complex.exp z := rfl

/-! ## single-particle Green's function (GreensFunctionPart) -/

theorem gf_term (c cx : ℂ) (wo wi ei eo : ℝ) (z : ℂ) :
    Gen.GF.termFreq (Gen.GF.residue c cx wo wi) (Gen.GF.pole ei eo) z
      = c * cx * ((wo : ℂ) + (wi : ℂ)) / (z - ((ei - eo : ℝ) : ℂ)) := by
  simp only [Gen.GF.termFreq, Gen.GF.residue, Gen.GF.pole, ofReal_eq, Complex.ofReal_add]

/-- summing the library's terms over all pairs of eigenstates (outer index n, inner index m) gives
the Lehmann sum -/
theorem gf_sum {ι : Type} [Fintype ι] [DecidableEq ι] (d : EigenData ι) (C CX : Matrix ι ι ℂ)
    (z : ℂ) :
    (∑ n, ∑ m, Gen.GF.termFreq (Gen.GF.residue (C n m) (CX m n) (d.w n) (d.w m))
        (Gen.GF.pole (d.E m) (d.E n)) z) = d.lehmannG C CX z := by
  simp only [gf_term]
  rfl

/-- the library's Matsubara frequency `MatsubaraSpacing * (2n+1)` with `MatsubaraSpacing = iπ/β`
is `i ω_n` -/
theorem gf_matsubara {ι : Type} (d : EigenData ι) (n : ℤ) :
    (Complex.I * (Real.pi : ℂ) / (d.β : ℂ)) * ((Gen.GF.matsubaraOdd n : ℤ) : ℂ)
      = Complex.I * (d.ω n : ℂ) := by
  unfold Gen.GF.matsubaraOdd EigenData.ω
  push_cast
  ring

/-- hence: THE VALUE THE LIBRARY'S FORMULAS GIVE EQUALS THE DEFINITION
−∫₀^β ⟨T c(τ)c†⟩ e^{iωτ} -/
theorem gf_equals_definition {ι : Type} [Fintype ι] [DecidableEq ι] (d : EigenData ι)
    (C CX : Matrix ι ι ℂ) (n : ℤ) :
    (∑ a, ∑ b, Gen.GF.termFreq (Gen.GF.residue (C a b) (CX b a) (d.w a) (d.w b))
        (Gen.GF.pole (d.E b) (d.E a))
        ((Complex.I * (Real.pi : ℂ) / (d.β : ℂ)) * ((Gen.GF.matsubaraOdd n : ℤ) : ℂ)))
      = d.Gdef C CX n := by
  rw [gf_matsubara, gf_sum, lehmann_single]

/-- both overflow-avoiding branches of the imaginary-time formula are `tauTerm` -/
theorem gf_tau (res : ℂ) (P τ β : ℝ) : Gen.GF.termTau res P τ β = tauTerm β res P τ := by
  unfold Gen.GF.termTau
  split_ifs with h
  · unfold tauTerm
    simp only [ofReal_eq, expR_eq]
    push_cast
    rfl
  · rw [tauTerm_branch]
    simp only [ofReal_eq, expR_eq]
    push_cast
    rfl

/-- the extracted tolerances -/
theorem gf_tolerances :
    (Gen.GF.tolCompare : ℝ) = 1e-8 ∧ (Gen.GF.tolNegligible : ℝ) = 1e-8 ∧
      (Gen.GF.tolMatrixElement : ℝ) = 1e-8 := by
  unfold Gen.GF.tolCompare Gen.GF.tolNegligible Gen.GF.tolMatrixElement
  refine ⟨?_, ?_, ?_⟩ <;> norm_num

theorem gf_residueKept (res : ℂ) (tol : ℝ) : Gen.GF.residueKept res tol = true ↔ tol < ‖res‖ := by
  unfold Gen.GF.residueKept
  rw [decide_eq_true_iff, abs_eq]

/-! ## two-particle Green's function (TwoParticleGFPart::addMultiterm and the term evaluation) -/

/-- the four terms the library creates for one world line, evaluated, are `coeff * multiTerm`
provided the resonance test `|Diff| < tol` coincides with `Diff = 0` (exact idealisation of the
tolerance; `ktol > 0` then gives the "if" direction) -/
theorem chi4_multiterm (coeff : ℂ) (β Ei Ej Ek El wi wj wk wl : ℝ) (z1 z2 z3 : ℂ) (ktol : ℝ)
    (h12 : ‖z1 + z2 - ((Ej - Ei : ℝ):ℂ) - ((Ek - Ej : ℝ):ℂ)‖ < ktol ↔
      z1 + z2 - ((Ej - Ei : ℝ):ℂ) - ((Ek - Ej : ℝ):ℂ) = 0)
    (h23 : ‖z2 + z3 - ((Ek - Ej : ℝ):ℂ) - ((El - Ek : ℝ):ℂ)‖ < ktol ↔
      z2 + z3 - ((Ek - Ej : ℝ):ℂ) - ((El - Ek : ℝ):ℂ) = 0) :
    let P1 := Gen.Chi4.p1 Ei Ej Ek El; let P2 := Gen.Chi4.p2 Ei Ej Ek El
    let P3 := Gen.Chi4.p3 Ei Ej Ek El
    Gen.Chi4.nonResZ2 (Gen.Chi4.coeffZ2 coeff β wi wj wk wl) P1 P2 P3 z1 z2 z3
    + Gen.Chi4.nonResZ4 (Gen.Chi4.coeffZ4 coeff β wi wj wk wl) P1 P2 P3 z1 z2 z3
    + Gen.Chi4.resZ1Z2 (Gen.Chi4.coeffZ1Z2Res coeff β wi wj wk wl)
        (Gen.Chi4.coeffZ1Z2NonRes coeff β wi wj wk wl)
        (Gen.Chi4.diffZ1Z2 P1 P2 P3 z1 z2 z3) ktol P1 P2 P3 z1 z2 z3
    + Gen.Chi4.resZ2Z3 (Gen.Chi4.coeffZ2Z3Res coeff β wi wj wk wl)
        (Gen.Chi4.coeffZ2Z3NonRes coeff β wi wj wk wl)
        (Gen.Chi4.diffZ2Z3 P1 P2 P3 z1 z2 z3) ktol P1 P2 P3 z1 z2 z3
    = coeff * multiTerm β z1 z2 z3 (Ej - Ei) (Ek - Ej) (El - Ek) wi wj wk wl := by
  intro P1 P2 P3
  simp only [P1, P2, P3, Gen.Chi4.p1, Gen.Chi4.p2, Gen.Chi4.p3, Gen.Chi4.nonResZ2,
    Gen.Chi4.nonResZ4, Gen.Chi4.resZ1Z2, Gen.Chi4.resZ2Z3, Gen.Chi4.coeffZ2, Gen.Chi4.coeffZ4,
    Gen.Chi4.coeffZ1Z2Res, Gen.Chi4.coeffZ1Z2NonRes, Gen.Chi4.coeffZ2Z3Res,
    Gen.Chi4.coeffZ2Z3NonRes, Gen.Chi4.diffZ1Z2, Gen.Chi4.diffZ2Z3, ofReal_eq, abs_eq, multiTerm]
  by_cases c12 : z1 + z2 - ((Ej - Ei : ℝ):ℂ) - ((Ek - Ej : ℝ):ℂ) = 0 <;>
  by_cases c23 : z2 + z3 - ((Ek - Ej : ℝ):ℂ) - ((El - Ek : ℝ):ℂ) = 0
  · rw [if_pos (h12.mpr c12), if_pos (h23.mpr c23), if_pos c12, if_pos c23]
    push_cast; ring
  · rw [if_pos (h12.mpr c12), if_neg (mt h23.mp c23), if_pos c12, if_neg c23]
    push_cast; ring
  · rw [if_neg (mt h12.mp c12), if_pos (h23.mpr c23), if_neg c12, if_pos c23]
    push_cast; ring
  · rw [if_neg (mt h12.mp c12), if_neg (mt h23.mp c23), if_neg c12, if_neg c23]
    push_cast; ring

/-- the extracted permutation table is the table of the six orderings used in the specification,
with the right signs -/
theorem chi4_perms :
    Gen.Chi4.permutations3
      = perms3.map (fun p => ([(p.1 0).val, (p.1 1).val, (p.1 2).val], p.2)) := by
  rfl

theorem chi4_freqTable (z1 z2 z3 : ℂ) : Gen.Chi4.freqTable z1 z2 z3 = [z1, z2, -z3] := rfl

theorem chi4_matsubara (n : ℤ) : Gen.Chi4.matsubaraOdd n = 2 * n + 1 := rfl

/-- entries 0, 1, 6, 7 of `permutations4` are the identity, the exchange of the last two, of the
first two, and both (used by the 4-index container) -/
theorem chi4_perms4_entries :
    Gen.Chi4.permutations4[0]? = some ([0,1,2,3], 1) ∧
    Gen.Chi4.permutations4[1]? = some ([0,1,3,2], -1) ∧
    Gen.Chi4.permutations4[6]? = some ([1,0,2,3], -1) ∧
    Gen.Chi4.permutations4[7]? = some ([1,0,3,2], 1) :=
  ⟨rfl, rfl, rfl, rfl⟩

/-- number of inversions of a list of naturals -/
def inversions : List ℕ → ℕ
  | [] => 0
  | a :: l => (l.filter (· < a)).length + inversions l

/-- every entry of the extracted tables `permutations3`, `permutations4` is a permutation of
`{0,1,2}` resp. `{0,1,2,3}` whose recorded sign is its parity `(-1)^(number of inversions)`; the
tables have no repeated entries and 6 resp. 24 entries, i.e. they list ALL permutations -/
theorem chi4_perms_parity :
    (∀ p ∈ Gen.Chi4.permutations3, p.1.Perm [0,1,2] ∧ p.2 = (-1) ^ inversions p.1) ∧
    Gen.Chi4.permutations3.Nodup ∧ Gen.Chi4.permutations3.length = 6 ∧
    (∀ p ∈ Gen.Chi4.permutations4, p.1.Perm [0,1,2,3] ∧ p.2 = (-1) ^ inversions p.1) ∧
    Gen.Chi4.permutations4.Nodup ∧ Gen.Chi4.permutations4.length = 24 := by
  decide

/-! ## susceptibility (SusceptibilityPart) -/

theorem susc_term (a b : ℂ) (wo wi ei eo : ℝ) (z : ℂ) :
    Gen.Susc.termFreq (Gen.Susc.residue a b wo wi) (Gen.Susc.pole ei eo) z
      = -(a * b * ((wo : ℂ) - (wi : ℂ))) / (z - ((ei - eo : ℝ) : ℂ)) := by
  simp only [Gen.Susc.termFreq, Gen.Susc.residue, Gen.Susc.pole, ofReal_eq, Complex.ofReal_sub]

theorem susc_zeroPole (a b : ℂ) (wo : ℝ) : Gen.Susc.zeroPoleIncrement a b wo = a * b * (wo : ℂ) :=
  rfl

theorem susc_zeroPoleValue (zpw : ℂ) (β : ℝ) (z : ℂ) :
    Gen.Susc.zeroPoleValue zpw β z = if ‖z‖ < 1e-15 then zpw * (β : ℂ) else 0 := by
  unfold Gen.Susc.zeroPoleValue
  have h : (((1 : ℕ) : ℝ) / ((1000000000000000 : ℕ) : ℝ)) = 1e-15 := by norm_num
  rw [h]
  rfl

/-- both overflow-avoiding branches of the bosonic imaginary-time formula are `suscTauTerm`; no
hypothesis on the pole is needed (for `P = 0` both sides are `_/0 = 0`) -/
theorem susc_tau_all (res : ℂ) (P τ β : ℝ) :
    Gen.Susc.termTau res P τ β = suscTauTerm β res P τ := by
  unfold Gen.Susc.termTau
  split_ifs with h
  · unfold suscTauTerm
    simp only [ofReal_eq, expR_eq]
    push_cast
    rfl
  · rw [suscTauTerm_branch]
    simp only [ofReal_eq, expR_eq]
    push_cast
    rfl

set_option linter.unusedVariables false in
/-- the statement as specified (the hypothesis `hP` is not used, see `susc_tau_all`) -/
theorem susc_tau (res : ℂ) (P τ β : ℝ) (hP : P ≠ 0) :
    Gen.Susc.termTau res P τ β = suscTauTerm β res P τ := susc_tau_all res P τ β

theorem susc_matsubara (n : ℤ) : Gen.Susc.matsubaraEven n = 2 * n := rfl

theorem susc_disconnected (aveA aveB : ℂ) (β : ℝ) :
    Gen.Susc.disconnectedFreq aveA aveB β = aveA * aveB * (β : ℂ) ∧
      Gen.Susc.disconnectedTau aveA aveB = aveA * aveB :=
  ⟨rfl, rfl⟩

/-- summing the library's terms (non-degenerate pairs) and zero-pole weights (degenerate pairs,
exact degeneracy test) gives the bosonic Lehmann sum, hence the definition
∫₀^β ⟨A(τ)B⟩ e^{iΩτ} -/
theorem susc_sum {ι : Type} [Fintype ι] [DecidableEq ι] (d : EigenData ι) (A B : Matrix ι ι ℂ)
    (k : ℤ) :
    (∑ n, ∑ m, if d.E m = d.E n then
        (if k = 0 then Gen.Susc.zeroPoleIncrement (A n m) (B m n) (d.w n) * (d.β : ℂ) else 0)
      else Gen.Susc.termFreq (Gen.Susc.residue (A n m) (B m n) (d.w n) (d.w m))
        (Gen.Susc.pole (d.E m) (d.E n)) (Complex.I * (d.Ω k : ℂ)))
    = d.suscDef A B k := by
  rw [lehmann_susc]
  unfold EigenData.lehmannSusc
  refine Finset.sum_congr rfl fun n _ => Finset.sum_congr rfl fun m _ => ?_
  simp only [susc_term, susc_zeroPole]
  split_ifs <;> ring

/-! ## density matrix -/

theorem dm_weight (β e e0 : ℝ) : Gen.DM.unnormWeight β e e0 = shiftedWeight β e0 e := rfl

theorem dm_retains (w tol : ℝ) : Gen.DM.retainsState w tol = true ↔ tol < w := by
  unfold Gen.DM.retainsState
  exact decide_eq_true_iff

end Pomerol.Spec.Bridge

section AxiomAudit
open Pomerol.Spec.Bridge
end AxiomAudit
