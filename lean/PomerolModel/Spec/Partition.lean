/-
  `StatesClassification::compute` (model `classify`) partitions the Fock states `0 … n-1` into
  blocks: every state lies in exactly one block, blocks are non-empty ascending lists, the
  (block, inner index) address is a bijection, and two states share a block iff their quantum
  numbers agree.  Core Lean only.
-/
import PomerolModel.Model.Symm

namespace Pomerol.Spec.Partition
open Pomerol.Model.Symm

variable {Q : Type} (qeq : Q → Q → Bool) (qn : Nat → Q) (n : Nat)

structure IsEquiv (qeq : Q → Q → Bool) : Prop where
  refl : ∀ a, qeq a a = true
  symm : ∀ a b, qeq a b = true → qeq b a = true
  trans : ∀ a b c, qeq a b = true → qeq b c = true → qeq a c = true

/-! ### the loop body and the loop after `k` iterations -/

/-- one iteration of the scan -/
def step (acc : List Nat × List (List Nat) × List Q) (s : Nat) :
    List Nat × List (List Nat) × List Q :=
  match acc.2.2.findIdx? (qeq (qn s)) with
  | some b => (acc.1 ++ [b], acc.2.1.modify b (· ++ [s]), acc.2.2)
  | none => (acc.1 ++ [acc.2.1.length], acc.2.1 ++ [[s]], acc.2.2 ++ [qn s])

/-- the accumulator after the states `0 … k-1` -/
def run (k : Nat) : List Nat × List (List Nat) × List Q :=
  (List.range k).foldl (step qeq qn) ([], [], [])

theorem run_succ (k : Nat) : run qeq qn (k + 1) = step qeq qn (run qeq qn k) k := by
  unfold run
  rw [List.range_succ, List.foldl_append]
  rfl

theorem classify_eq : classify qeq qn n = ((run qeq qn n).1, (run qeq qn n).2.1) := rfl

/-! ### list helpers -/

theorem getD_modify_snoc (bl : List (List Nat)) (b c s : Nat) (hb : b < bl.length) :
    (bl.modify b (· ++ [s])).getD c [] =
      if b = c then bl.getD c [] ++ [s] else bl.getD c [] := by
  simp only [List.getD_eq_getElem?_getD, List.getElem?_modify]
  by_cases h : b = c
  · subst h
    simp [List.getElem?_eq_getElem hb]
  · simp [h]

theorem getD_snoc (bl : List (List Nat)) (x : List Nat) (c : Nat) :
    (bl ++ [x]).getD c [] = if c = bl.length then x else bl.getD c [] := by
  simp only [List.getD_eq_getElem?_getD]
  by_cases h : c = bl.length
  · subst h
    simp
  · rw [if_neg h]
    by_cases h2 : c < bl.length
    · rw [List.getElem?_append_left h2]
    · have h3 : bl.length + 1 ≤ c := by omega
      rw [List.getElem?_eq_none (by simpa using h3), List.getElem?_eq_none (by omega)]

theorem sum_length_modify_snoc (bl : List (List Nat)) (b s : Nat) (hb : b < bl.length) :
    ((bl.modify b (· ++ [s])).map List.length).sum = (bl.map List.length).sum + 1 := by
  induction bl generalizing b with
  | nil => cases hb
  | cons x bl ih =>
    cases b with
    | zero => simp [List.modify]; omega
    | succ b =>
      have hb' : b < bl.length := by simpa using hb
      simp only [List.modify_succ_cons, List.map_cons, List.sum_cons, ih b hb']
      omega

/-! ### the loop invariant -/

structure Inv (k : Nat) (acc : List Nat × List (List Nat) × List Q) : Prop where
  len : acc.1.length = k
  reps : acc.2.2.length = acc.2.1.length
  own : ∀ s, s < k → ∃ b, acc.1[s]? = some b ∧ b < acc.2.1.length ∧ s ∈ acc.2.1.getD b []
  uniq : ∀ b s, s ∈ acc.2.1.getD b [] → s < k ∧ acc.1[s]? = some b
  nonempty : ∀ b, b < acc.2.1.length → acc.2.1.getD b [] ≠ []
  sorted : ∀ b, (acc.2.1.getD b []).Pairwise (· < ·)
  sum : (acc.2.1.map List.length).sum = k

theorem inv_zero : Inv (Q := Q) 0 ([], [], []) where
  len := rfl
  reps := rfl
  own := fun s hs => absurd hs (Nat.not_lt_zero s)
  uniq := fun b s hm => by simp at hm
  nonempty := fun b hb => absurd hb (Nat.not_lt_zero b)
  sorted := fun b => by simp
  sum := rfl

theorem getElem?_snoc_old (l : List Nat) (x s : Nat) (b : Nat) (h : l[s]? = some b) :
    (l ++ [x])[s]? = some b := by
  have hs : s < l.length := by
    rcases Nat.lt_or_ge s l.length with h1 | h1
    · exact h1
    · rw [List.getElem?_eq_none h1] at h
      cases h
  rw [List.getElem?_append_left hs, h]

theorem getElem?_snoc_new (l : List Nat) (x : Nat) : (l ++ [x])[l.length]? = some x := by
  simp

theorem inv_step (k : Nat) (acc : List Nat × List (List Nat) × List Q) (h : Inv k acc) :
    Inv (k + 1) (step qeq qn acc k) := by
  obtain ⟨blkOf, blocks, reps⟩ := acc
  obtain ⟨hlen, hreps, hown, huniq, hne, hsorted, hsum⟩ := h
  simp only at hlen hreps hown huniq hne hsorted hsum
  unfold step
  simp only
  cases hf : reps.findIdx? (qeq (qn k)) with
  | some b =>
    simp only
    have hb : b < blocks.length := by
      rw [List.findIdx?_eq_some_iff_getElem] at hf
      obtain ⟨hb, _⟩ := hf
      omega
    refine ⟨by simp [hlen], by simp [hreps], ?_, ?_, ?_, ?_, ?_⟩
    · intro s hs
      simp only [List.length_modify]
      rcases Nat.lt_or_ge s k with h1 | h1
      · obtain ⟨b', h2, h3, h4⟩ := hown s h1
        refine ⟨b', getElem?_snoc_old _ _ _ _ h2, h3, ?_⟩
        rw [getD_modify_snoc _ _ _ _ hb]
        by_cases hbb : b = b'
        · rw [if_pos hbb]
          exact List.mem_append_left _ h4
        · rw [if_neg hbb]
          exact h4
      · have hsk : s = k := by omega
        subst hsk
        refine ⟨b, ?_, hb, ?_⟩
        · rw [← hlen]
          exact getElem?_snoc_new _ _
        · rw [getD_modify_snoc _ _ _ _ hb, if_pos rfl]
          simp
    · intro c s hm
      simp only at hm
      rw [getD_modify_snoc _ _ _ _ hb] at hm
      by_cases hbc : b = c
      · rw [if_pos hbc, List.mem_append] at hm
        rcases hm with hm | hm
        · obtain ⟨h1, h2⟩ := huniq c s hm
          exact ⟨by omega, getElem?_snoc_old _ _ _ _ h2⟩
        · have hsk : s = k := by simpa using hm
          subst hsk
          refine ⟨by omega, ?_⟩
          simp only
          rw [← hbc, ← hlen]
          exact getElem?_snoc_new _ _
      · rw [if_neg hbc] at hm
        obtain ⟨h1, h2⟩ := huniq c s hm
        exact ⟨by omega, getElem?_snoc_old _ _ _ _ h2⟩
    · intro c hc
      simp only [List.length_modify] at hc
      simp only
      rw [getD_modify_snoc _ _ _ _ hb]
      by_cases hbc : b = c
      · rw [if_pos hbc]
        simp
      · rw [if_neg hbc]
        exact hne c hc
    · intro c
      simp only
      rw [getD_modify_snoc _ _ _ _ hb]
      by_cases hbc : b = c
      · rw [if_pos hbc, List.pairwise_append]
        refine ⟨hsorted c, by simp, ?_⟩
        intro a ha x hx
        have hxk : x = k := by simpa using hx
        subst hxk
        exact (huniq c a ha).1
      · rw [if_neg hbc]
        exact hsorted c
    · simp only
      rw [sum_length_modify_snoc _ _ _ hb, hsum]
  | none =>
    simp only
    refine ⟨by simp [hlen], by simp [hreps], ?_, ?_, ?_, ?_, ?_⟩
    · intro s hs
      simp only [List.length_append, List.length_cons, List.length_nil]
      rcases Nat.lt_or_ge s k with h1 | h1
      · obtain ⟨b', h2, h3, h4⟩ := hown s h1
        refine ⟨b', getElem?_snoc_old _ _ _ _ h2, by omega, ?_⟩
        rw [getD_snoc, if_neg (by omega)]
        exact h4
      · have hsk : s = k := by omega
        subst hsk
        refine ⟨blocks.length, ?_, by omega, ?_⟩
        · rw [← hlen]
          exact getElem?_snoc_new _ _
        · rw [getD_snoc, if_pos rfl]
          simp
    · intro c s hm
      simp only at hm
      rw [getD_snoc] at hm
      by_cases hc : c = blocks.length
      · rw [if_pos hc] at hm
        have hsk : s = k := by simpa using hm
        subst hsk
        refine ⟨by omega, ?_⟩
        simp only
        rw [hc, ← hlen]
        exact getElem?_snoc_new _ _
      · rw [if_neg hc] at hm
        obtain ⟨h1, h2⟩ := huniq c s hm
        exact ⟨by omega, getElem?_snoc_old _ _ _ _ h2⟩
    · intro c hc
      simp only [List.length_append, List.length_cons, List.length_nil] at hc
      simp only
      rw [getD_snoc]
      by_cases hcl : c = blocks.length
      · rw [if_pos hcl]
        simp
      · rw [if_neg hcl]
        exact hne c (by omega)
    · intro c
      simp only
      rw [getD_snoc]
      by_cases hcl : c = blocks.length
      · rw [if_pos hcl]
        simp
      · rw [if_neg hcl]
        exact hsorted c
    · simp only
      simp [hsum]

theorem inv_run (k : Nat) : Inv k (run qeq qn k) := by
  induction k with
  | zero => exact inv_zero
  | succ k ih =>
    rw [run_succ]
    exact inv_step qeq qn k _ ih

/-- the block of a state is the index of the first representative equivalent to its quantum
numbers (needs reflexivity only) -/
theorem blk_eq_findIdx (hrefl : ∀ a, qeq a a = true) (k : Nat) :
    ∀ s, s < k → (run qeq qn k).1[s]? = (run qeq qn k).2.2.findIdx? (qeq (qn s)) := by
  induction k with
  | zero => intro s hs; cases hs
  | succ k ih =>
    have hinv := inv_run qeq qn k
    rw [run_succ]
    generalize run qeq qn k = acc at ih hinv
    obtain ⟨blkOf, blocks, reps⟩ := acc
    obtain ⟨hlen, hreps, hown, -, -, -, -⟩ := hinv
    simp only at hlen hreps hown ih
    intro s hs
    unfold step
    simp only
    cases hf : reps.findIdx? (qeq (qn k)) with
    | some b =>
      simp only
      rcases Nat.lt_or_ge s k with h1 | h1
      · obtain ⟨b', h2, -, -⟩ := hown s h1
        rw [getElem?_snoc_old _ _ _ _ h2, ← ih s h1, h2]
      · have hsk : s = k := by omega
        subst hsk
        rw [hf, ← hlen]
        exact getElem?_snoc_new _ _
    | none =>
      simp only
      rw [List.findIdx?_append]
      rcases Nat.lt_or_ge s k with h1 | h1
      · obtain ⟨b', h2, -, -⟩ := hown s h1
        rw [getElem?_snoc_old _ _ _ _ h2, ← ih s h1, h2]
        rfl
      · have hsk : s = k := by omega
        subst hsk
        rw [hf, ← hlen, getElem?_snoc_new]
        simp [List.findIdx?_cons, hrefl, hreps]

/-! ### the theorems -/

/-- every Fock state belongs to exactly one block -/
theorem blkOf_length : (classify qeq qn n).1.length = n := by
  rw [classify_eq]
  exact (inv_run qeq qn n).len

theorem mem_own_block (s : Nat) (hs : s < n) :
    ∃ b, (classify qeq qn n).1[s]? = some b ∧ b < (classify qeq qn n).2.length ∧
      s ∈ ((classify qeq qn n).2.getD b []) := by
  rw [classify_eq]
  exact (inv_run qeq qn n).own s hs

/-- (holds for any `qeq`; the hypothesis `h` is not needed) -/
theorem mem_unique_block' (s b : Nat) (hm : s ∈ ((classify qeq qn n).2.getD b [])) :
    (classify qeq qn n).1[s]? = some b := by
  rw [classify_eq] at hm ⊢
  exact ((inv_run qeq qn n).uniq b s hm).2

theorem mem_unique_block (h : IsEquiv qeq) (s b : Nat)
    (hm : s ∈ ((classify qeq qn n).2.getD b [])) :
    (classify qeq qn n).1[s]? = some b :=
  have _ := h
  mem_unique_block' qeq qn n s b hm

theorem block_members_lt (b s : Nat) (hm : s ∈ ((classify qeq qn n).2.getD b [])) : s < n := by
  rw [classify_eq] at hm
  exact ((inv_run qeq qn n).uniq b s hm).1

/-- blocks are non-empty, duplicate-free, ascending; sizes add up to the number of states -/
theorem blocks_nonempty (b : Nat) (hb : b < (classify qeq qn n).2.length) :
    ((classify qeq qn n).2.getD b []) ≠ [] := by
  rw [classify_eq] at hb ⊢
  exact (inv_run qeq qn n).nonempty b hb

theorem blocks_sorted (b : Nat) : ((classify qeq qn n).2.getD b []).Pairwise (· < ·) := by
  rw [classify_eq]
  exact (inv_run qeq qn n).sorted b

theorem sizes_sum : ((classify qeq qn n).2.map List.length).sum = n := by
  rw [classify_eq]
  exact (inv_run qeq qn n).sum

/-- in an ascending list the first position holding `s` is the only one -/
theorem findIdx?_of_sorted (l : List Nat) (hl : l.Pairwise (· < ·)) (i s : Nat)
    (h : l[i]? = some s) : l.findIdx? (fun x => decide (x = s)) = some i := by
  rw [List.findIdx?_eq_some_iff_getElem]
  obtain ⟨hi, hget⟩ := List.getElem?_eq_some_iff.mp h
  refine ⟨hi, by simp [hget], ?_⟩
  intro j hji
  have hlt : l[j]'(Nat.lt_trans hji hi) < l[i] :=
    List.pairwise_iff_getElem.mp hl j i (Nat.lt_trans hji hi) hi hji
  rw [hget] at hlt
  simp only [decide_eq_true_eq]
  omega

/-- the (block, position) address recovers the state and vice versa -/
theorem inner_roundtrip (s : Nat) (hs : s < n) :
    ∃ b i, (classify qeq qn n).1[s]? = some b ∧
      innerState (classify qeq qn n).1 (classify qeq qn n).2 s = some i ∧
      ((classify qeq qn n).2.getD b [])[i]? = some s := by
  obtain ⟨b, h1, -, h3⟩ := mem_own_block qeq qn n s hs
  obtain ⟨i, hi⟩ := List.getElem?_of_mem h3
  refine ⟨b, i, h1, ?_, hi⟩
  unfold innerState
  rw [h1]
  exact findIdx?_of_sorted _ (blocks_sorted qeq qn n b) i s hi

/-- (holds for any `qeq`; the hypothesis `h` is not needed) -/
theorem address_roundtrip' (b i s : Nat)
    (hs : ((classify qeq qn n).2.getD b [])[i]? = some s) :
    (classify qeq qn n).1[s]? = some b ∧
      innerState (classify qeq qn n).1 (classify qeq qn n).2 s = some i := by
  have hm : s ∈ (classify qeq qn n).2.getD b [] := List.mem_of_getElem? hs
  have h1 := mem_unique_block' qeq qn n s b hm
  refine ⟨h1, ?_⟩
  unfold innerState
  rw [h1]
  exact findIdx?_of_sorted _ (blocks_sorted qeq qn n b) i s hs

theorem address_roundtrip (h : IsEquiv qeq) (b i s : Nat)
    (hs : ((classify qeq qn n).2.getD b [])[i]? = some s) :
    (classify qeq qn n).1[s]? = some b ∧
      innerState (classify qeq qn n).1 (classify qeq qn n).2 s = some i :=
  have _ := h
  address_roundtrip' qeq qn n b i s hs

/-- two states are in the same block iff their quantum numbers agree -/
theorem same_block_iff (h : IsEquiv qeq) (s t : Nat) (hs : s < n) (ht : t < n) :
    (classify qeq qn n).1[s]? = (classify qeq qn n).1[t]? ↔ qeq (qn s) (qn t) = true := by
  rw [classify_eq]
  simp only
  rw [blk_eq_findIdx qeq qn h.refl n s hs, blk_eq_findIdx qeq qn h.refl n t ht]
  obtain ⟨b, hb1, hb2, -⟩ := (inv_run qeq qn n).own s hs
  rw [blk_eq_findIdx qeq qn h.refl n s hs] at hb1
  constructor
  · intro heq
    have hb1' := hb1
    rw [heq] at hb1'
    rw [List.findIdx?_eq_some_iff_getElem] at hb1 hb1'
    obtain ⟨hl, h1, -⟩ := hb1
    obtain ⟨_, h2, -⟩ := hb1'
    exact h.trans _ _ _ h1 (h.symm _ _ h2)
  · intro hq
    have hfun : qeq (qn s) = qeq (qn t) := by
      funext r
      cases h1 : qeq (qn s) r with
      | true =>
        exact (h.trans _ _ _ (h.symm _ _ hq) h1).symm
      | false =>
        cases h2 : qeq (qn t) r with
        | false => rfl
        | true => rw [h.trans _ _ _ hq h2] at h1; cases h1
    rw [hfun]

end Pomerol.Spec.Partition
