/-
  Closed form of the time-ordered simplex integral underlying the two-particle Green's function
  (Hafermann et al. multi-term), in all four resonance classes.
-/
import Mathlib.Analysis.SpecialFunctions.Integrals.Basic
import Mathlib.MeasureTheory.Integral.IntervalIntegral.FundThmCalculus
import Mathlib.Analysis.SpecialFunctions.Exp
import Mathlib.Tactic.Ring
import Mathlib.Tactic.FieldSimp
import Mathlib.Tactic.Linarith
import Mathlib.Tactic.LinearCombination

namespace Pomerol.Spec
open Complex

/-! ### Level 1: `∫₀^t e^{aτ} dτ` -/

/-- `E a t = ∫₀^t e^{aτ} dτ` -/
noncomputable def expInt (a : ℂ) (t : ℝ) : ℂ := ∫ τ in (0:ℝ)..t, Complex.exp (a * (τ:ℂ))

theorem expInt_ne {a : ℂ} (ha : a ≠ 0) (t : ℝ) :
    expInt a t = (Complex.exp (a * t) - 1) / a := by
  unfold expInt
  rw [integral_exp_mul_complex ha]
  simp

theorem expInt_zero (t : ℝ) : expInt 0 t = t := by
  unfold expInt
  simp

theorem expInt_continuous (a : ℂ) : Continuous (fun t : ℝ => expInt a t) := by
  by_cases ha : a = 0
  · subst ha
    simp only [expInt_zero]
    exact Complex.continuous_ofReal
  · simp only [expInt_ne ha]
    fun_prop

/-! ### Level 2: `∫₀^t e^{aτ} E_b(τ) dτ` -/

noncomputable def expInt2 (a b : ℂ) (t : ℝ) : ℂ :=
  ∫ τ in (0:ℝ)..t, Complex.exp (a * (τ:ℂ)) * expInt b τ

theorem expInt2_ne (a : ℂ) {b : ℂ} (hb : b ≠ 0) (t : ℝ) :
    expInt2 a b t = (expInt (a + b) t - expInt a t) / b := by
  have h : ∀ τ : ℝ, Complex.exp (a * (τ:ℂ)) * expInt b τ
      = (Complex.exp ((a + b) * (τ:ℂ)) - Complex.exp (a * (τ:ℂ))) / b := by
    intro τ
    rw [expInt_ne hb, add_mul, Complex.exp_add]
    field_simp
  unfold expInt2
  simp_rw [h]
  rw [intervalIntegral.integral_div, intervalIntegral.integral_sub]
  · rfl
  · exact (by fun_prop : Continuous fun τ : ℝ => Complex.exp ((a + b) * (τ:ℂ))).intervalIntegrable _ _
  · exact (by fun_prop : Continuous fun τ : ℝ => Complex.exp (a * (τ:ℂ))).intervalIntegrable _ _

theorem expInt2_zero {a : ℂ} (ha : a ≠ 0) (t : ℝ) :
    expInt2 a 0 t = ((t:ℂ) / a - 1 / a ^ 2) * Complex.exp (a * t) + 1 / a ^ 2 := by
  have hd : ∀ τ : ℝ, HasDerivAt (fun x : ℝ => ((x:ℂ) / a - 1 / a ^ 2) * Complex.exp (a * (x:ℂ)))
      (Complex.exp (a * (τ:ℂ)) * (τ:ℂ)) τ := by
    intro τ
    have h1 : HasDerivAt (fun z : ℂ => (z / a - 1 / a ^ 2) * Complex.exp (a * z))
        (1 / a * Complex.exp (a * (τ:ℂ))
          + ((τ:ℂ) / a - 1 / a ^ 2) * (Complex.exp (a * (τ:ℂ)) * (a * 1))) (τ:ℂ) := by
      have h2 := ((hasDerivAt_id (τ:ℂ)).div_const a).sub_const (1 / a ^ 2)
      have h3 := ((hasDerivAt_id (τ:ℂ)).const_mul a).cexp
      exact h2.mul h3
    have h4 := h1.comp_ofReal
    convert h4 using 1
    field_simp
    ring
  unfold expInt2
  simp_rw [expInt_zero]
  rw [intervalIntegral.integral_eq_sub_of_hasDerivAt (fun τ _ => hd τ)]
  · simp
  · exact (by fun_prop : Continuous fun τ : ℝ => Complex.exp (a * (τ:ℂ)) * (τ:ℂ)).intervalIntegrable _ _

/-! ### Level 3: the simplex integral -/

/-- ∫₀^β dτ₁ e^{a₁τ₁} ∫₀^{τ₁} dτ₂ e^{a₂τ₂} ∫₀^{τ₂} dτ₃ e^{a₃τ₃} -/
noncomputable def simplexIntegral (β : ℝ) (a1 a2 a3 : ℂ) : ℂ :=
  ∫ τ1 in (0:ℝ)..β, Complex.exp (a1 * (τ1:ℂ)) *
    ∫ τ2 in (0:ℝ)..τ1, Complex.exp (a2 * (τ2:ℂ)) *
      ∫ τ3 in (0:ℝ)..τ2, Complex.exp (a3 * (τ3:ℂ))

theorem simplexIntegral_eq (β : ℝ) (a1 a2 : ℂ) {a3 : ℂ} (h3 : a3 ≠ 0) :
    simplexIntegral β a1 a2 a3 = (expInt2 a1 (a2 + a3) β - expInt2 a1 a2 β) / a3 := by
  have h : ∀ τ : ℝ, Complex.exp (a1 * (τ:ℂ)) * expInt2 a2 a3 τ
      = (Complex.exp (a1 * (τ:ℂ)) * expInt (a2 + a3) τ
          - Complex.exp (a1 * (τ:ℂ)) * expInt a2 τ) / a3 := by
    intro τ
    rw [expInt2_ne a2 h3]
    ring
  change ∫ τ in (0:ℝ)..β, Complex.exp (a1 * (τ:ℂ)) * expInt2 a2 a3 τ = _
  simp_rw [h]
  rw [intervalIntegral.integral_div, intervalIntegral.integral_sub]
  · rfl
  · exact (Continuous.mul (by fun_prop) (expInt_continuous _)).intervalIntegrable _ _
  · exact (Continuous.mul (by fun_prop) (expInt_continuous _)).intervalIntegrable _ _

/-! ### Algebraic core, one lemma per resonance class -/

section core
variable (β : ℝ) (a1 a2 a3 x1 x12 x123 w : ℂ)

/-- non-resonant / non-resonant -/
theorem simplex_core_NN (h1 : a1 ≠ 0) (h2 : a2 ≠ 0) (h3 : a3 ≠ 0) (hs : a1 + a2 + a3 ≠ 0)
    (hc : a1 + a2 ≠ 0) (hb : a2 + a3 ≠ 0)
    (e1 : Complex.exp (a1 * β) = -x1) (e12 : Complex.exp ((a1 + a2) * β) = x12)
    (es : Complex.exp ((a1 + a2 + a3) * β) = -x123) :
    w * simplexIntegral β a1 a2 a3 =
      (-(w * x1 + w * x12)) / (a1 * a2 * a3) + (w + w * x123) / (a1 * (a1 + a2 + a3) * a3)
      + ((w * x12 - w) / (a1 + a2)) / (a1 * a3)
      + ((w * x1 - w * x123) / (a2 + a3)) / (a1 * a3) := by
  have hs' : a1 + (a2 + a3) ≠ 0 := by rwa [← add_assoc]
  have es' : Complex.exp ((a1 + (a2 + a3)) * β) = -x123 := by rwa [← add_assoc]
  rw [simplexIntegral_eq β a1 a2 h3, expInt2_ne a1 hb, expInt2_ne a1 h2, expInt_ne hs',
    expInt_ne h1, expInt_ne hc, e1, e12, es']
  field_simp
  ring

/-- `z₁+z₂` non-resonant, `z₂+z₃` resonant (`a₂ + a₃ = 0`) -/
theorem simplex_core_NR (h1 : a1 ≠ 0) (h2 : a2 ≠ 0) (h3 : a3 ≠ 0)
    (hc : a1 + a2 ≠ 0) (hb : a2 + a3 = 0)
    (e1 : Complex.exp (a1 * β) = -x1) (e12 : Complex.exp ((a1 + a2) * β) = x12) :
    w * simplexIntegral β a1 a2 a3 =
      (-(w * x1 + w * x12)) / (a1 * a2 * a3) + (w + w * x1) / (a1 * (a1 + a2 + a3) * a3)
      + ((w * x12 - w) / (a1 + a2)) / (a1 * a3)
      + (-((β:ℂ) * (w * x1))) / (a1 * a3) := by
  rw [simplexIntegral_eq β a1 a2 h3, hb, expInt2_zero h1, expInt2_ne a1 h2,
    expInt_ne h1, expInt_ne hc, e1, e12]
  obtain rfl : a3 = -a2 := by linear_combination hb
  have : a1 + a2 + -a2 = a1 := by ring
  rw [this]
  field_simp
  ring

/-- `z₁+z₂` resonant (`a₁ + a₂ = 0`), `z₂+z₃` non-resonant -/
theorem simplex_core_RN (h1 : a1 ≠ 0) (h2 : a2 ≠ 0) (h3 : a3 ≠ 0) (hs : a1 + a2 + a3 ≠ 0)
    (hc : a1 + a2 = 0) (hb : a2 + a3 ≠ 0)
    (e1 : Complex.exp (a1 * β) = -x1)
    (es : Complex.exp ((a1 + a2 + a3) * β) = -x123) :
    w * simplexIntegral β a1 a2 a3 =
      (-(w * x1 + w * 1)) / (a1 * a2 * a3) + (w + w * x123) / (a1 * (a1 + a2 + a3) * a3)
      + ((β:ℂ) * w) / (a1 * a3)
      + ((w * x1 - w * x123) / (a2 + a3)) / (a1 * a3) := by
  have hs' : a1 + (a2 + a3) ≠ 0 := by rwa [← add_assoc]
  have es' : Complex.exp ((a1 + (a2 + a3)) * β) = -x123 := by rwa [← add_assoc]
  rw [simplexIntegral_eq β a1 a2 h3, expInt2_ne a1 hb, expInt2_ne a1 h2, expInt_ne hs',
    expInt_ne h1, hc, expInt_zero, e1, es']
  obtain rfl : a2 = -a1 := by linear_combination hc
  have : a1 + (-a1 + a3) = a3 := by ring
  rw [this, zero_add]
  field_simp
  ring

/-- both resonant (`a₁ + a₂ = 0`, `a₂ + a₃ = 0`) -/
theorem simplex_core_RR (h1 : a1 ≠ 0) (h2 : a2 ≠ 0) (h3 : a3 ≠ 0)
    (hc : a1 + a2 = 0) (hb : a2 + a3 = 0)
    (e1 : Complex.exp (a1 * β) = -x1) :
    w * simplexIntegral β a1 a2 a3 =
      (-(w * x1 + w * 1)) / (a1 * a2 * a3) + (w + w * x1) / (a1 * (a1 + a2 + a3) * a3)
      + ((β:ℂ) * w) / (a1 * a3)
      + (-((β:ℂ) * (w * x1))) / (a1 * a3) := by
  rw [simplexIntegral_eq β a1 a2 h3, hb, expInt2_zero h1, expInt2_ne a1 h2,
    expInt_ne h1, hc, expInt_zero, e1]
  obtain rfl : a2 = -a1 := by linear_combination hc
  have ha3 : a3 = a1 := by linear_combination hb
  rw [ha3] at h3 ⊢
  rw [zero_add]
  field_simp
  ring

end core

/-! ### Consequences of `e^{βz} = -1` -/

theorem sub_ofReal_ne_zero_of_exp_eq_neg_one {β : ℝ} {z : ℂ}
    (h : Complex.exp ((β:ℂ) * z) = -1) (P : ℝ) : z - (P:ℂ) ≠ 0 := by
  intro h0
  have hz : z = (P:ℂ) := sub_eq_zero.mp h0
  rw [hz, ← Complex.ofReal_mul, ← Complex.ofReal_exp] at h
  have h' : Real.exp (β * P) = -1 := by exact_mod_cast h
  linarith [Real.exp_pos (β * P)]

theorem exp_sub_ofReal_mul {β : ℝ} {z : ℂ} (h : Complex.exp ((β:ℂ) * z) = -1) (P : ℝ) :
    Complex.exp ((z - (P:ℂ)) * (β:ℂ)) = -((Real.exp (-β * P) : ℝ) : ℂ) := by
  have hsplit : (z - (P:ℂ)) * (β:ℂ) = (β:ℂ) * z + ((-β * P : ℝ) : ℂ) := by
    push_cast
    ring
  rw [hsplit, Complex.exp_add, h, Complex.ofReal_exp]
  ring

/-! ### Main theorem -/

/-- the library's multi-term (coefficient 1): two non-resonant and two (possibly) resonant terms -/
noncomputable def multiTerm (β : ℝ) (z1 z2 z3 : ℂ) (P1 P2 P3 : ℝ) (wi wj wk wl : ℝ) : ℂ :=
  (-((wj:ℂ) + wk)) / ((z1 - P1) * (z2 - P2) * (z3 - P3))
  + ((wi:ℂ) + wl) / ((z1 - P1) * (z1 + z2 + z3 - P1 - P2 - P3) * (z3 - P3))
  + (if z1 + z2 - P1 - P2 = 0 then (β:ℂ) * wi else ((wk:ℂ) - wi) / (z1 + z2 - P1 - P2)) / ((z1 - P1) * (z3 - P3))
  + (if z2 + z3 - P2 - P3 = 0 then -((β:ℂ) * wj) else ((wj:ℂ) - wl) / (z2 + z3 - P2 - P3)) / ((z1 - P1) * (z3 - P3))

set_option linter.unusedVariables false in
/-- MAIN THEOREM.  z₁,z₂,z₃ are fermionic Matsubara frequencies (or any complex numbers with
e^{βz} = −1), P₁,P₂,P₃ arbitrary real level differences (coinciding levels allowed), and the
weights are Boltzmann-related along the world line.  All four resonance classes
(z₁+z₂ = P₁+P₂ or not, z₂+z₃ = P₂+P₃ or not) are covered.
(`hβ` is part of the specified statement; it is implied by `h1` and not needed in the proof.) -/
theorem simplex_closed_form (β : ℝ) (hβ : 0 < β) (z1 z2 z3 : ℂ)
    (h1 : Complex.exp ((β:ℂ) * z1) = -1) (h2 : Complex.exp ((β:ℂ) * z2) = -1)
    (h3 : Complex.exp ((β:ℂ) * z3) = -1)
    (P1 P2 P3 : ℝ) (wi wj wk wl : ℝ)
    (hj : wj = wi * Real.exp (-β * P1)) (hk : wk = wj * Real.exp (-β * P2))
    (hl : wl = wk * Real.exp (-β * P3)) :
    (wi : ℂ) * simplexIntegral β (z1 - P1) (z2 - P2) (z3 - P3)
      = multiTerm β z1 z2 z3 P1 P2 P3 wi wj wk wl := by
  -- non-vanishing denominators
  have n1 : z1 - (P1:ℂ) ≠ 0 := sub_ofReal_ne_zero_of_exp_eq_neg_one h1 P1
  have n2 : z2 - (P2:ℂ) ≠ 0 := sub_ofReal_ne_zero_of_exp_eq_neg_one h2 P2
  have n3 : z3 - (P3:ℂ) ≠ 0 := sub_ofReal_ne_zero_of_exp_eq_neg_one h3 P3
  have h123 : Complex.exp ((β:ℂ) * (z1 + z2 + z3)) = -1 := by
    rw [mul_add, mul_add, Complex.exp_add, Complex.exp_add, h1, h2, h3]
    ring
  have ns : (z1 - (P1:ℂ)) + (z2 - (P2:ℂ)) + (z3 - (P3:ℂ)) ≠ 0 := by
    have h := sub_ofReal_ne_zero_of_exp_eq_neg_one h123 (P1 + P2 + P3)
    intro h0
    apply h
    rw [← h0]
    push_cast
    ring
  -- exponentials at τ = β
  have e1 := exp_sub_ofReal_mul h1 P1
  have e2 := exp_sub_ofReal_mul h2 P2
  have e3 := exp_sub_ofReal_mul h3 P3
  have e12 : Complex.exp (((z1 - (P1:ℂ)) + (z2 - (P2:ℂ))) * (β:ℂ))
      = ((Real.exp (-β * P1) : ℝ) : ℂ) * ((Real.exp (-β * P2) : ℝ) : ℂ) := by
    rw [add_mul, Complex.exp_add, e1, e2]
    ring
  have es : Complex.exp (((z1 - (P1:ℂ)) + (z2 - (P2:ℂ)) + (z3 - (P3:ℂ))) * (β:ℂ))
      = -(((Real.exp (-β * P1) : ℝ) : ℂ) * ((Real.exp (-β * P2) : ℝ) : ℂ)
          * ((Real.exp (-β * P3) : ℝ) : ℂ)) := by
    rw [add_mul, Complex.exp_add, e12, e3]
    ring
  -- weights in ℂ
  have hj' : (wj:ℂ) = (wi:ℂ) * ((Real.exp (-β * P1) : ℝ) : ℂ) := by
    rw [hj, Complex.ofReal_mul]
  have hk' : (wk:ℂ) = (wi:ℂ) * (((Real.exp (-β * P1) : ℝ) : ℂ) * ((Real.exp (-β * P2) : ℝ) : ℂ)) := by
    rw [hk, Complex.ofReal_mul, hj']
    ring
  have hl' : (wl:ℂ) = (wi:ℂ) * (((Real.exp (-β * P1) : ℝ) : ℂ) * ((Real.exp (-β * P2) : ℝ) : ℂ)
      * ((Real.exp (-β * P3) : ℝ) : ℂ)) := by
    rw [hl, Complex.ofReal_mul, hk']
    ring
  have c12 : z1 + z2 - (P1:ℂ) - (P2:ℂ) = (z1 - (P1:ℂ)) + (z2 - (P2:ℂ)) := by ring
  have c23 : z2 + z3 - (P2:ℂ) - (P3:ℂ) = (z2 - (P2:ℂ)) + (z3 - (P3:ℂ)) := by ring
  unfold multiTerm
  by_cases hc : z1 + z2 - (P1:ℂ) - (P2:ℂ) = 0 <;> by_cases hb : z2 + z3 - (P2:ℂ) - (P3:ℂ) = 0
  · -- both resonant
    rw [if_pos hc, if_pos hb]
    rw [c12] at hc
    rw [c23] at hb
    have hwk : (wk:ℂ) = wi := by
      rw [hk', ← e12, hc, zero_mul, Complex.exp_zero, mul_one]
    have hwl : (wl:ℂ) = wj := by
      have hs1 : (z1 - (P1:ℂ)) + (z2 - (P2:ℂ)) + (z3 - (P3:ℂ)) = z1 - (P1:ℂ) := by
        linear_combination hb
      rw [hs1, e1] at es
      rw [hl', hj']
      linear_combination (wi:ℂ) * es
    rw [simplex_core_RR β _ _ _ _ (wi:ℂ) n1 n2 n3 hc hb e1, hwl, hwk, hj']
    ring
  · -- z₁+z₂ resonant
    rw [if_pos hc, if_neg hb]
    rw [c12] at hc
    rw [c23] at hb
    have hwk : (wk:ℂ) = wi := by
      rw [hk', ← e12, hc, zero_mul, Complex.exp_zero, mul_one]
    rw [simplex_core_RN β _ _ _ _ _ (wi:ℂ) n1 n2 n3 ns hc hb e1 es, hwk, hl', hj']
    ring
  · -- z₂+z₃ resonant
    rw [if_neg hc, if_pos hb]
    rw [c12] at hc
    rw [c23] at hb
    have hwl : (wl:ℂ) = wj := by
      have hs1 : (z1 - (P1:ℂ)) + (z2 - (P2:ℂ)) + (z3 - (P3:ℂ)) = z1 - (P1:ℂ) := by
        linear_combination hb
      rw [hs1, e1] at es
      rw [hl', hj']
      linear_combination (wi:ℂ) * es
    rw [simplex_core_NR β _ _ _ _ _ (wi:ℂ) n1 n2 n3 hc hb e1 e12, hwl, hk', hj']
    ring
  · -- generic
    rw [if_neg hc, if_neg hb]
    rw [c12] at hc
    rw [c23] at hb
    rw [simplex_core_NN β _ _ _ _ _ _ (wi:ℂ) n1 n2 n3 ns hc hb e1 e12 es, hl', hk', hj']
    ring

end Pomerol.Spec

