/-
  Block-wise diagonalisation reproduces the eigen-system of the full matrix (property C03).

  `B` = blocks (invariant subspaces), `m b` = states of block `b`; the full index type is
  `Σ b, m b`; a Hamiltonian without inter-block matrix elements is `blockDiagonal' Hb`.
-/
import Mathlib.Data.Matrix.Block
import Mathlib.Data.Complex.Basic
import Mathlib.LinearAlgebra.Matrix.Reindex
import Mathlib.LinearAlgebra.Matrix.NonsingularInverse
import Mathlib.LinearAlgebra.Matrix.Charpoly.Basic
import Mathlib.Algebra.Polynomial.Roots

namespace Pomerol.Spec
open Matrix Polynomial

variable {B : Type} [Fintype B] [DecidableEq B] {m : B → Type} [∀ b, Fintype (m b)]
  [∀ b, DecidableEq (m b)]

set_option linter.unusedSectionVars false

/-- per-block solver post-condition: U_b unitary and H_b U_b = U_b diag(E_b) -/
structure BlockEigen (Hb : ∀ b, Matrix (m b) (m b) ℂ) (U : ∀ b, Matrix (m b) (m b) ℂ)
    (E : ∀ b, m b → ℝ) : Prop where
  unitary : ∀ b, (U b)ᴴ * U b = 1
  eigen : ∀ b, Hb b * U b = U b * diagonal (fun i => (E b i : ℂ))

/-- the assembled eigenvector matrix is unitary (both sides) -/
theorem block_unitary (U : ∀ b, Matrix (m b) (m b) ℂ) (hU : ∀ b, (U b)ᴴ * U b = 1) :
    (blockDiagonal' U)ᴴ * blockDiagonal' U = 1 ∧ blockDiagonal' U * (blockDiagonal' U)ᴴ = 1 := by
  have h1 : (blockDiagonal' U)ᴴ * blockDiagonal' U = 1 := by
    rw [blockDiagonal'_conjTranspose, ← blockDiagonal'_mul]
    have : (fun k => (U k)ᴴ * U k) = (1 : ∀ b, Matrix (m b) (m b) ℂ) := funext hU
    rw [this, blockDiagonal'_one]
  exact ⟨h1, mul_eq_one_comm.mp h1⟩

/-- assembled eigenvectors diagonalise the full matrix -/
theorem block_eigen {Hb : ∀ b, Matrix (m b) (m b) ℂ} {U : ∀ b, Matrix (m b) (m b) ℂ}
    {E : ∀ b, m b → ℝ} (h : BlockEigen (m := m) Hb U E) :
    blockDiagonal' Hb * blockDiagonal' U
      = blockDiagonal' U * diagonal (fun k : Σ b, m b => (E k.1 k.2 : ℂ)) := by
  rw [← blockDiagonal'_mul, ← blockDiagonal'_diagonal (fun b i => (E b i : ℂ)),
    ← blockDiagonal'_mul]
  congr 1
  exact funext h.eigen

/-- every assembled column is an eigenvector of the full matrix: H v = E v -/
theorem block_eigenvector {Hb : ∀ b, Matrix (m b) (m b) ℂ} {U : ∀ b, Matrix (m b) (m b) ℂ}
    {E : ∀ b, m b → ℝ} (h : BlockEigen (m := m) Hb U E) (k : Σ b, m b) :
    (blockDiagonal' Hb).mulVec (fun f => blockDiagonal' U f k)
      = (E k.1 k.2 : ℂ) • (fun f => blockDiagonal' U f k) := by
  funext f
  have := congrFun (congrFun (block_eigen h) f) k
  rw [mul_apply, mul_diagonal] at this
  simp only [mulVec, dotProduct, Pi.smul_apply, smul_eq_mul]
  rw [this, mul_comm]

/-- eigenvectors (within and across blocks) are orthonormal -/
theorem block_orthonormal {Hb : ∀ b, Matrix (m b) (m b) ℂ} {U : ∀ b, Matrix (m b) (m b) ℂ}
    {E : ∀ b, m b → ℝ} (h : BlockEigen (m := m) Hb U E) (k l : Σ b, m b) :
    ∑ f, (starRingEnd ℂ) (blockDiagonal' U f k) * blockDiagonal' U f l
      = if k = l then 1 else 0 := by
  have := congrFun (congrFun (block_unitary U h.unitary).1 k) l
  rw [mul_apply, one_apply] at this
  rw [← this]
  rfl

/-- the full matrix is unitarily similar to the diagonal matrix of all block eigenvalues -/
theorem block_similar {Hb : ∀ b, Matrix (m b) (m b) ℂ} {U : ∀ b, Matrix (m b) (m b) ℂ}
    {E : ∀ b, m b → ℝ} (h : BlockEigen (m := m) Hb U E) :
    blockDiagonal' Hb
      = blockDiagonal' U * diagonal (fun k : Σ b, m b => (E k.1 k.2 : ℂ)) * (blockDiagonal' U)ᴴ := by
  rw [← block_eigen h, Matrix.mul_assoc, (block_unitary U h.unitary).2, Matrix.mul_one]

/-- THE MULTISET OF ALL BLOCK EIGENVALUES IS THE SPECTRUM OF THE FULL MATRIX (with multiplicities) -/
theorem block_charpoly {Hb : ∀ b, Matrix (m b) (m b) ℂ} {U : ∀ b, Matrix (m b) (m b) ℂ}
    {E : ∀ b, m b → ℝ} (h : BlockEigen (m := m) Hb U E) :
    (blockDiagonal' Hb).charpoly = ∏ k : Σ b, m b, (X - C (E k.1 k.2 : ℂ)) := by
  obtain ⟨h1, h2⟩ := block_unitary U h.unitary
  let P : (Matrix (Σ b, m b) (Σ b, m b) ℂ)ˣ := ⟨blockDiagonal' U, (blockDiagonal' U)ᴴ, h2, h1⟩
  have hsim : blockDiagonal' Hb
      = P.val * diagonal (fun k : Σ b, m b => (E k.1 k.2 : ℂ)) * P.val⁻¹ := by
    rw [← Matrix.coe_units_inv]
    exact block_similar h
  rw [hsim, charpoly_units_conj, charpoly_diagonal]

theorem block_spectrum_roots {Hb : ∀ b, Matrix (m b) (m b) ℂ} {U : ∀ b, Matrix (m b) (m b) ℂ}
    {E : ∀ b, m b → ℝ} (h : BlockEigen (m := m) Hb U E) :
    (blockDiagonal' Hb).charpoly.roots
      = (Finset.univ : Finset (Σ b, m b)).val.map (fun k => (E k.1 k.2 : ℂ)) := by
  rw [block_charpoly h, Finset.prod_eq_multiset_prod]
  have := roots_multiset_prod_X_sub_C
    ((Finset.univ : Finset (Σ b, m b)).val.map (fun k => (E k.1 k.2 : ℂ)))
  rwa [Multiset.map_map] at this

/-- the same for a Hamiltonian given on the Fock states `σ` together with the (block, position)
addressing `e` -/
theorem fock_charpoly {σ : Type} [Fintype σ] [DecidableEq σ] (e : σ ≃ Σ b, m b)
    (H : Matrix σ σ ℂ)
    {Hb : ∀ b, Matrix (m b) (m b) ℂ} {U : ∀ b, Matrix (m b) (m b) ℂ} {E : ∀ b, m b → ℝ}
    (h : BlockEigen (m := m) Hb U E)
    (hH : H = Matrix.reindex e.symm e.symm (blockDiagonal' Hb)) :
    H.charpoly = ∏ k : Σ b, m b, (X - C (E k.1 k.2 : ℂ)) := by
  rw [hH, charpoly_reindex, block_charpoly h]

/-- a Hamiltonian has this block form iff it has no matrix element between states of different
blocks (⇐ direction) -/
theorem blockDiagonal'_of_no_interblock (Hfull : Matrix (Σ b, m b) (Σ b, m b) ℂ)
    (h0 : ∀ k l : Σ b, m b, k.1 ≠ l.1 → Hfull k l = 0) :
    Hfull = blockDiagonal' (fun b => Matrix.of fun i j => Hfull ⟨b, i⟩ ⟨b, j⟩) := by
  ext ⟨b, i⟩ ⟨b', j⟩
  by_cases hb : b = b'
  · subst hb
    simp
  · rw [blockDiagonal'_apply_ne _ _ _ hb]
    exact h0 _ _ hb

/-- (⇒ direction) a `blockDiagonal'` matrix has no inter-block matrix element -/
theorem no_interblock_of_blockDiagonal' (Hb : ∀ b, Matrix (m b) (m b) ℂ)
    (k l : Σ b, m b) (hkl : k.1 ≠ l.1) : blockDiagonal' Hb k l = 0 := by
  obtain ⟨b, i⟩ := k
  obtain ⟨b', j⟩ := l
  exact blockDiagonal'_apply_ne _ _ _ hkl

/-- the 1×1 special case of the library: E = Re H₀₀, U = 1 satisfies the post-condition when H₀₀ is
real -/
theorem one_by_one (x : ℂ) (hx : x.im = 0) :
    (Matrix.of fun (_ _ : Unit) => x) * (1 : Matrix Unit Unit ℂ)
      = (1 : Matrix Unit Unit ℂ) * diagonal (fun _ => ((x.re : ℝ) : ℂ)) := by
  have hxr : ((x.re : ℝ) : ℂ) = x := Complex.ext (by simp) (by simp [hx])
  rw [Matrix.mul_one, Matrix.one_mul, hxr]
  ext i j
  simp [diagonal]

/-- ground energy: the minimum over blocks of the block minima is the global minimum -/
theorem ground_is_min [Nonempty (Σ b, m b)] (E : ∀ b, m b → ℝ) (g : ℝ)
    (hg : ∃ k : Σ b, m b, E k.1 k.2 = g) (hle : ∀ b i, g ≤ E b i) :
    ∀ k : Σ b, m b, g ≤ E k.1 k.2 ∧ ∃ k0 : Σ b, m b, E k0.1 k0.2 = g :=
  fun k => ⟨hle k.1 k.2, hg⟩

end Pomerol.Spec
