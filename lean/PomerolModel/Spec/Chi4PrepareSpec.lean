/-
  The world-stripe selection of `TwoParticleGF::prepare` (model: `Model/Chi4Prepare.lean`) creates exactly
  the closing chains of blocks, each once; and the parts it creates add up to the per-ordering Lehmann sum.

  1  `getRightIndex_eq_some_iff`, `getLeftIndex_eq_some_iff`   lookups in the graph of a partial injective
                                       map
  2  `mem_stripeFor_iff`, `mem_prepare_iff`                     what the double loop emits (no hypothesis)
     `stripes_selected_exactly`        for bimaps: the stripes are exactly the closing chains
                                       `(b0,b1) ∈ O_{p,0}, (b1,b2) ∈ O_{p,1}, (b2,b3) ∈ O_{p,2},
                                       (b3,b0) ∈ CX4` with a retained block, each exactly once
     `stripes_need_unique_keys`        the hypothesis cannot be dropped for the loop as an algorithm
  3  `selected_stripes_sum_to_ordered_lehmann`   sum over the selected stripes of one permutation of what
                                       the parts accumulate = sum over ALL block quadruples = `orderedLehmann`
     `selected_stripes_sum_to_chi`     signed sum over all selected stripes = `chiLehmann` (= definition)
  4  `selected_stripes_sum_partition_free`   ... for ANY numbering of the eigenstates by blocks: the
                                       partition-free `d.orderedLehmann` / `d.chiLehmann`
-/
import PomerolModel.Model.Chi4Prepare
import PomerolModel.Spec.Chi4Refine
import PomerolModel.Spec.GFRefine

namespace Pomerol.Spec.Chi4PrepareSpec
open Pomerol.Model.Chi4Prepare

/-! ## 1. lookups -/

/-- every left block occurs at most once (the left side of the bimap is a key) -/
def LeftUnique (m : BlockMap) : Prop := m.Pairwise fun q q' => q.1 ≠ q'.1

/-- every right block occurs at most once (the right side of the bimap is a key) -/
def RightUnique (m : BlockMap) : Prop := m.Pairwise fun q q' => q.2 ≠ q'.2

/-- the list is the content of a `bimap<set_of, set_of>`: the graph of a partial injective map -/
def IsBimap (m : BlockMap) : Prop := LeftUnique m ∧ RightUnique m

instance (m : BlockMap) : Decidable (LeftUnique m) := by unfold LeftUnique; infer_instance
instance (m : BlockMap) : Decidable (RightUnique m) := by unfold RightUnique; infer_instance
instance (m : BlockMap) : Decidable (IsBimap m) := by unfold IsBimap; infer_instance

theorem isBimap_nil : IsBimap [] := ⟨List.Pairwise.nil, List.Pairwise.nil⟩

private theorem find_key {α : Type} (f : α → ℕ) (m : List α)
    (h : m.Pairwise fun a b => f a ≠ f b) (k : ℕ) (q : α) :
    m.find? (fun a => f a == k) = some q ↔ q ∈ m ∧ f q = k := by
  induction m with
  | nil => simp
  | cons a m ih =>
    obtain ⟨ha, hm⟩ := List.pairwise_cons.mp h
    rw [List.find?_cons]
    by_cases hk : f a = k
    · have : (f a == k) = true := by simpa using hk
      rw [this]
      constructor
      · intro e
        cases e
        exact ⟨List.mem_cons_self, hk⟩
      · rintro ⟨hq, hfq⟩
        rcases List.mem_cons.mp hq with rfl | hq
        · rfl
        · exact absurd (hk.trans hfq.symm) (ha q hq)
    · have : (f a == k) = false := by simpa using hk
      rw [this]
      simp only [ih hm, List.mem_cons]
      constructor
      · rintro ⟨hq, hfq⟩
        exact ⟨Or.inr hq, hfq⟩
      · rintro ⟨hq | hq, hfq⟩
        · subst hq; exact absurd hfq hk
        · exact ⟨hq, hfq⟩

/-- `getRightIndex` returns the right partner of a left block -/
theorem getRightIndex_eq_some_iff (m : BlockMap) (h : LeftUnique m) (l r : ℕ) :
    getRightIndex m (some l) = some r ↔ (l, r) ∈ m := by
  have e : getRightIndex m (some l) = (m.find? (fun q => q.1 == l)).map Prod.snd := by
    unfold getRightIndex; dsimp only
    cases m.find? (fun q => q.1 == l) <;> rfl
  rw [e, Option.map_eq_some_iff]
  constructor
  · rintro ⟨q, hf, rfl⟩
    obtain ⟨hq, rfl⟩ := (find_key Prod.fst m h _ q).mp hf
    exact hq
  · intro hm
    exact ⟨(l, r), (find_key Prod.fst m h l (l, r)).mpr ⟨hm, rfl⟩, rfl⟩

/-- `getLeftIndex` returns the left partner of a right block -/
theorem getLeftIndex_eq_some_iff (m : BlockMap) (h : RightUnique m) (l r : ℕ) :
    getLeftIndex m (some r) = some l ↔ (l, r) ∈ m := by
  have e : getLeftIndex m (some r) = (m.find? (fun q => q.2 == r)).map Prod.fst := by
    unfold getLeftIndex; dsimp only
    cases m.find? (fun q => q.2 == r) <;> rfl
  rw [e, Option.map_eq_some_iff]
  constructor
  · rintro ⟨q, hf, rfl⟩
    obtain ⟨hq, rfl⟩ := (find_key Prod.snd m h _ q).mp hf
    exact hq
  · intro hm
    exact ⟨(l, r), (find_key Prod.snd m h r (l, r)).mpr ⟨hm, rfl⟩, rfl⟩

/-- the bimap of the operator selected by the `switch` of `TwoParticleGF::getLeftIndex/getRightIndex`
(`default: return ERROR_BLOCK_NUMBER` = lookup in an empty bimap) -/
def opAt (c1 c2 cx3 : BlockMap) : Option ℕ → BlockMap
  | some 0 => c1
  | some 1 => c2
  | some 2 => cx3
  | _ => []

theorem isBimap_opAt (c1 c2 cx3 : BlockMap) (h1 : IsBimap c1) (h2 : IsBimap c2) (h3 : IsBimap cx3)
    (e : Option ℕ) : IsBimap (opAt c1 c2 cx3 e) := by
  match e with
  | some 0 => exact h1
  | some 1 => exact h2
  | some 2 => exact h3
  | some (n + 3) => exact isBimap_nil
  | none => exact isBimap_nil

theorem tpGetLeftIndex_eq (c1 c2 cx3 : BlockMap) (p pos : ℕ) (r : BlockNumber) :
    tpGetLeftIndex c1 c2 cx3 p pos r = getLeftIndex (opAt c1 c2 cx3 (permAt p pos)) r := by
  unfold tpGetLeftIndex
  match permAt p pos with
  | some 0 => rfl
  | some 1 => rfl
  | some 2 => rfl
  | some (n + 3) => cases r <;> rfl
  | none => cases r <;> rfl

theorem tpGetRightIndex_eq (c1 c2 cx3 : BlockMap) (p pos : ℕ) (l : BlockNumber) :
    tpGetRightIndex c1 c2 cx3 p pos l = getRightIndex (opAt c1 c2 cx3 (permAt p pos)) l := by
  unfold tpGetRightIndex
  match permAt p pos with
  | some 0 => rfl
  | some 1 => rfl
  | some 2 => rfl
  | some (n + 3) => cases l <;> rfl
  | none => cases l <;> rfl

/-! ## 2. what the double loop emits -/

/-- the body of the loop, for one pair of CX4 and one permutation: no hypothesis on the maps -/
theorem mem_stripeFor_iff (retained : ℕ → Bool) (c1 c2 cx3 : BlockMap) (outer : ℕ × ℕ) (p : ℕ)
    (s : Stripe) :
    s ∈ stripeFor retained c1 c2 cx3 outer p ↔
      ∃ b1 b2, s = (p, outer.2, b1, b2, outer.1) ∧
        tpGetRightIndex c1 c2 cx3 p 0 (some outer.2) = some b1 ∧
        tpGetLeftIndex c1 c2 cx3 p 2 (some outer.1) = some b2 ∧
        tpGetRightIndex c1 c2 cx3 p 1 (some b1) = some b2 ∧
        (retained outer.2 || retained b1 || retained b2 || retained outer.1) = true := by
  unfold stripeFor
  dsimp only
  cases h1 : tpGetRightIndex c1 c2 cx3 p 0 (some outer.2) with
  | none => simp
  | some b1 =>
    cases h2 : tpGetLeftIndex c1 c2 cx3 p 2 (some outer.1) with
    | none => simp
    | some b2 =>
      simp only [Option.isSome_some, Bool.and_true, beq_iff_eq, Option.some.injEq]
      by_cases hc : tpGetRightIndex c1 c2 cx3 p 1 (some b1) = some b2
      · rw [if_pos hc]
        by_cases hr : (retained outer.2 || retained b1 || retained b2 || retained outer.1) = true
        · rw [if_pos hr, List.mem_singleton]
          constructor
          · intro e; exact ⟨b1, b2, e, rfl, rfl, hc, hr⟩
          · rintro ⟨b1', b2', e, rfl, rfl, -, -⟩; exact e
        · rw [if_neg hr]
          constructor
          · intro h; cases h
          · rintro ⟨b1', b2', -, rfl, rfl, -, hr'⟩; exact absurd hr' hr
      · rw [if_neg hc]
        constructor
        · intro h; cases h
        · rintro ⟨b1', b2', -, rfl, rfl, hc', -⟩; exact absurd hc' hc

theorem mem_prepare_iff (retained : ℕ → Bool) (c1 c2 cx3 cx4 : BlockMap) (s : Stripe) :
    s ∈ prepare retained c1 c2 cx3 cx4 ↔
      ∃ outer ∈ cx4, ∃ p, p < 6 ∧ s ∈ stripeFor retained c1 c2 cx3 outer p := by
  unfold prepare
  simp only [List.mem_flatMap, List.mem_range]

/-- the stripes of one `(outer, p)` differ from those of another one in `p` or in `LeftIndices[0]` -/
theorem prepare_nodup (retained : ℕ → Bool) (c1 c2 cx3 cx4 : BlockMap) (h4 : RightUnique cx4) :
    (prepare retained c1 c2 cx3 cx4).Nodup := by
  unfold prepare List.Nodup
  rw [List.pairwise_flatMap]
  constructor
  · intro outer _
    rw [List.pairwise_flatMap]
    constructor
    · intro p _
      unfold stripeFor
      dsimp only
      split_ifs
      · split
        · split_ifs
          · exact List.pairwise_singleton _ _
          · exact List.Pairwise.nil
        · exact List.Pairwise.nil
      · exact List.Pairwise.nil
    · refine List.Pairwise.imp ?_ List.pairwise_lt_range
      intro p p' hpp s hs s' hs' e
      obtain ⟨_, _, rfl, -⟩ := (mem_stripeFor_iff ..).mp hs
      obtain ⟨_, _, e', -⟩ := (mem_stripeFor_iff ..).mp hs'
      rw [e'] at e
      simp only [Prod.mk.injEq] at e
      omega
  · refine List.Pairwise.imp ?_ h4
    intro o o' hoo s hs s' hs' e
    obtain ⟨p, _, hs⟩ := List.mem_flatMap.mp hs
    obtain ⟨p', _, hs'⟩ := List.mem_flatMap.mp hs'
    obtain ⟨_, _, rfl, -⟩ := (mem_stripeFor_iff ..).mp hs
    obtain ⟨_, _, e', -⟩ := (mem_stripeFor_iff ..).mp hs'
    rw [e'] at e
    simp only [Prod.mk.injEq] at e
    exact hoo e.2.1

/-- **B.1: `TwoParticleGF::prepare` SELECTS EXACTLY THE CLOSING CHAINS OF BLOCKS, EACH ONCE.**
`c1`, `c2`, `cx3`, `cx4` the contents of the block bimaps of `C1`, `C2`, `CX3`, `CX4` as lists of
`(LeftIndex, RightIndex)` pairs (`<LeftIndex|Op|RightIndex>` non-trivial).  If the first three are graphs
of partial injective maps (both sides keys: what `bimap<set_of, set_of>` guarantees) and no right block
occurs twice in `cx4` (the right view the loop iterates over), then

* no stripe is created twice, and
* a part is created for `(p, b0, b1, b2, b3)` (`bk = LeftIndices[k]`) iff `p < 6` and, with
  `O_{p,k}` the operator `permutations3[p].perm[k]` (`0 ↦ C1, 1 ↦ C2, 2 ↦ CX3`):
  `<b0|O_{p,0}|b1>`, `<b1|O_{p,1}|b2>`, `<b2|O_{p,2}|b3>`, `<b3|CX4|b0>` are non-trivial blocks
  -- `(b0, b1)`, `(b1, b2)`, `(b2, b3)`, `(b3, b0)` are (left, right) pairs of the respective bimaps --
  and at least one of the four blocks is retained. -/
theorem stripes_selected_exactly (retained : ℕ → Bool) (c1 c2 cx3 cx4 : BlockMap)
    (h1 : IsBimap c1) (h2 : IsBimap c2) (h3 : IsBimap cx3) (h4 : RightUnique cx4) :
    (prepare retained c1 c2 cx3 cx4).Nodup ∧
    ∀ p b0 b1 b2 b3, (p, b0, b1, b2, b3) ∈ prepare retained c1 c2 cx3 cx4 ↔
      p < 6 ∧ (b0, b1) ∈ opAt c1 c2 cx3 (permAt p 0) ∧ (b1, b2) ∈ opAt c1 c2 cx3 (permAt p 1) ∧
        (b2, b3) ∈ opAt c1 c2 cx3 (permAt p 2) ∧ (b3, b0) ∈ cx4 ∧
        (retained b0 = true ∨ retained b1 = true ∨ retained b2 = true ∨ retained b3 = true) := by
  refine ⟨prepare_nodup retained c1 c2 cx3 cx4 h4, fun p b0 b1 b2 b3 => ?_⟩
  have hb : ∀ k, IsBimap (opAt c1 c2 cx3 (permAt p k)) := fun k => isBimap_opAt c1 c2 cx3 h1 h2 h3 _
  rw [mem_prepare_iff]
  constructor
  · rintro ⟨outer, ho, p', hp', hs⟩
    obtain ⟨b1', b2', e, g1, g2, g3, hr⟩ := (mem_stripeFor_iff ..).mp hs
    simp only [Prod.mk.injEq] at e
    obtain ⟨rfl, rfl, rfl, rfl, rfl⟩ := e
    rw [tpGetRightIndex_eq, getRightIndex_eq_some_iff _ (hb 0).1] at g1
    rw [tpGetLeftIndex_eq, getLeftIndex_eq_some_iff _ (hb 2).2] at g2
    rw [tpGetRightIndex_eq, getRightIndex_eq_some_iff _ (hb 1).1] at g3
    refine ⟨hp', g1, g3, g2, ho, ?_⟩
    simpa [or_assoc] using hr
  · rintro ⟨hp, g1, g3, g2, ho, hr⟩
    refine ⟨(b3, b0), ho, p, hp, (mem_stripeFor_iff ..).mpr ⟨b1, b2, rfl, ?_, ?_, ?_, ?_⟩⟩
    · rw [tpGetRightIndex_eq, getRightIndex_eq_some_iff _ (hb 0).1]; exact g1
    · rw [tpGetLeftIndex_eq, getLeftIndex_eq_some_iff _ (hb 2).2]; exact g2
    · rw [tpGetRightIndex_eq, getRightIndex_eq_some_iff _ (hb 1).1]; exact g3
    · simpa [or_assoc] using hr

/-- The hypothesis cannot be dropped for the loop AS AN ALGORITHM: if a left block could occur twice in
`C1`'s map (a multimap), `getRightIndex` only ever returns the first partner, and the closing chain
`<0|C1|2><2|C2|3><3|CX3|4><4|CX4|0>` (permutation `p = 0`) gets no part.  (Not reachable in the library:
the bimap type makes both sides keys, and a field operator maps a block to at most one block.) -/
theorem stripes_need_unique_keys :
    prepare (fun _ => true) [(0, 1), (0, 2)] [(2, 3)] [(3, 4)] [(4, 0)] = [] ∧
      (0, 2) ∈ opAt [(0, 1), (0, 2)] [(2, 3)] [(3, 4)] (permAt 0 0) ∧
      (2, 3) ∈ opAt [(0, 1), (0, 2)] [(2, 3)] [(3, 4)] (permAt 0 1) ∧
      (3, 4) ∈ opAt [(0, 1), (0, 2)] [(2, 3)] [(3, 4)] (permAt 0 2) := by
  decide

/-! ## 3. the selected stripes carry the whole sum -/

section Sum
open Pomerol.Spec.Chi4Refine
open Pomerol.Model.Chi4Part (SpMat)
open Pomerol.Spec.GFRefine (Basis CoversBlocks)
variable {nB : ℕ} {sz : Fin nB → ℕ}

/-- a function of block quadruples, given block NUMBERS (zero for numbers that are not blocks) -/
noncomputable def quadVal (g : Fin nB → Fin nB → Fin nB → Fin nB → ℂ) (q : ℕ × ℕ × ℕ × ℕ) : ℂ :=
  if h : q.1 < nB ∧ q.2.1 < nB ∧ q.2.2.1 < nB ∧ q.2.2.2 < nB then
    g ⟨q.1, h.1⟩ ⟨q.2.1, h.2.1⟩ ⟨q.2.2.1, h.2.2.1⟩ ⟨q.2.2.2, h.2.2.2⟩
  else 0

theorem quadVal_fin (g : Fin nB → Fin nB → Fin nB → Fin nB → ℂ) (b0 b1 b2 b3 : Fin nB) :
    quadVal g (b0.1, b1.1, b2.1, b3.1) = g b0 b1 b2 b3 := by
  unfold quadVal
  rw [dif_pos ⟨b0.2, b1.2, b2.2, b3.2⟩]

/-- summing over a duplicate-free list of quadruples of block numbers that contains every quadruple with
a non-zero value is summing over ALL quadruples of blocks -/
theorem sum_quads (Q : List (ℕ × ℕ × ℕ × ℕ)) (hnd : Q.Nodup)
    (g : Fin nB → Fin nB → Fin nB → Fin nB → ℂ)
    (hz : ∀ b0 b1 b2 b3 : Fin nB, (b0.1, b1.1, b2.1, b3.1) ∉ Q → g b0 b1 b2 b3 = 0) :
    (Q.map (quadVal g)).sum = ∑ b0, ∑ b1, ∑ b2, ∑ b3, g b0 b1 b2 b3 := by
  rw [← List.sum_toFinset _ hnd]
  let e : Fin nB × Fin nB × Fin nB × Fin nB ↪ ℕ × ℕ × ℕ × ℕ :=
    ⟨fun q => (q.1.1, q.2.1.1, q.2.2.1.1, q.2.2.2.1), fun q q' h => by
      simp only [Prod.mk.injEq] at h
      exact Prod.ext (Fin.ext h.1) (Prod.ext (Fin.ext h.2.1)
        (Prod.ext (Fin.ext h.2.2.1) (Fin.ext h.2.2.2)))⟩
  have h1 : (∑ b0, ∑ b1, ∑ b2, ∑ b3, g b0 b1 b2 b3)
      = ∑ q ∈ (Finset.univ : Finset (Fin nB × Fin nB × Fin nB × Fin nB)).map e, quadVal g q := by
    rw [Finset.sum_map]
    simp only [Fintype.sum_prod_type]
    refine Finset.sum_congr rfl fun b0 _ => Finset.sum_congr rfl fun b1 _ =>
      Finset.sum_congr rfl fun b2 _ => Finset.sum_congr rfl fun b3 _ => ?_
    exact (quadVal_fin g b0 b1 b2 b3).symm
  rw [h1]
  have hA : ∑ q ∈ Q.toFinset, quadVal g q
      = ∑ q ∈ Q.toFinset ∪ (Finset.univ : Finset (Fin nB × Fin nB × Fin nB × Fin nB)).map e,
          quadVal g q := by
    apply Finset.sum_subset Finset.subset_union_left
    intro q hq1 hq2
    have hqe : q ∈ (Finset.univ : Finset (Fin nB × Fin nB × Fin nB × Fin nB)).map e := by
      rcases Finset.mem_union.mp hq1 with h | h
      · exact absurd h hq2
      · exact h
    obtain ⟨⟨b0, b1, b2, b3⟩, -, rfl⟩ := Finset.mem_map.mp hqe
    change quadVal g (b0.1, b1.1, b2.1, b3.1) = 0
    rw [quadVal_fin]
    apply hz
    intro h
    exact hq2 (List.mem_toFinset.mpr h)
  have hB : ∑ q ∈ (Finset.univ : Finset (Fin nB × Fin nB × Fin nB × Fin nB)).map e, quadVal g q
      = ∑ q ∈ Q.toFinset ∪ (Finset.univ : Finset (Fin nB × Fin nB × Fin nB × Fin nB)).map e,
          quadVal g q := by
    apply Finset.sum_subset Finset.subset_union_right
    intro q _ hq2
    unfold quadVal
    rw [dif_neg]
    intro h
    apply hq2
    exact Finset.mem_map.mpr
      ⟨(⟨q.1, h.1⟩, ⟨q.2.1, h.2.1⟩, ⟨q.2.2.1, h.2.2.1⟩, ⟨q.2.2.2, h.2.2.2⟩), Finset.mem_univ _, rfl⟩
  rw [hA, hB]

/-- the `p`-th entry of the table of orderings of `Spec/Chi4.lean` (which IS the library's
`permutations3`: `Bridge.chi4_perms`) -/
def permEntry (p : ℕ) : (Fin 3 → Fin 3) × ℤ := perms3.getD p (![0, 1, 2], 1)

/-- the operator at position `k` of permutation `p` -/
def permFn (p : Fin 6) : Fin 3 → Fin 3 := (permEntry p.1).1

/-- the table the model of `prepare` reads (extracted `permutations3`) agrees with `perms3` -/
theorem permAt_permFn : ∀ (p : Fin 6) (k : Fin 3), permAt p.1 k.1 = some (permFn p k).1 := by
  decide

theorem opAt_fin (bm : Fin 3 → BlockMap) (k : Fin 3) :
    opAt (bm 0) (bm 1) (bm 2) (some k.1) = bm k := by
  fin_cases k <;> rfl

/-- what the part created for the stripe `(p, b0, b1, b2, b3)` accumulates: the part gets the blocks
`OperatorPartAtPosition(p,0,b0) = <b0|O_{p,0}|b1>` (row-major copy `R`), `<b1|O_{p,1}|b2>` (column-major
copy `C`), `<b2|O_{p,2}|b3>` (row-major), `CX4.getPartFromLeftIndex(b3) = <b3|CX4|b0>` (column-major) and
the Hamiltonian / density-matrix parts of `b0, b1, b2, b3`; the frequencies are permuted with the
operators -/
noncomputable def stripeParts (d : EigenData (Basis sz)) (z : Fin 3 → ℂ)
    (R C : Fin 3 → Fin nB → Fin nB → SpMat ℂ) (CX : Fin nB → Fin nB → SpMat ℂ) (p : Fin 6)
    (b0 b1 b2 b3 : Fin nB) : ℂ :=
  partValue d (z (permFn p 0)) (z (permFn p 1)) (z (permFn p 2)) b0 b1 b2 b3
    (R (permFn p 0) b0 b1) (C (permFn p 1) b1 b2) (R (permFn p 2) b2 b3) (CX b3 b0)

/-- the same for a stripe given by numbers (zero if the numbers are not a permutation number and block
numbers) -/
noncomputable def stripeValue (d : EigenData (Basis sz)) (z : Fin 3 → ℂ)
    (R C : Fin 3 → Fin nB → Fin nB → SpMat ℂ) (CX : Fin nB → Fin nB → SpMat ℂ) (s : Stripe) : ℂ :=
  if h : s.1 < 6 then quadVal (stripeParts d z R C CX ⟨s.1, h⟩) s.2 else 0

/-- a part whose chain of blocks does not close accumulates nothing -/
theorem stripeParts_eq_zero (d : EigenData (Basis sz)) (O : Fin 3 → Matrix (Basis sz) (Basis sz) ℂ)
    (X : Matrix (Basis sz) (Basis sz) ℂ) (z : Fin 3 → ℂ)
    (R C : Fin 3 → Fin nB → Fin nB → SpMat ℂ) (CX : Fin nB → Fin nB → SpMat ℂ)
    (hR : ∀ k b b', RowMajorOf (R k b b') (blockOf (O k) b b'))
    (hC : ∀ k b b', ColMajorOf (C k b b') (blockOf (O k) b b'))
    (hX : ∀ b b', ColMajorOf (CX b b') (blockOf X b b'))
    (bm : Fin 3 → BlockMap) (cx4 : BlockMap) (hO : ∀ k, CoversBlocks (bm k) (O k))
    (hX4 : CoversBlocks cx4 X) (p : Fin 6) (b0 b1 b2 b3 : Fin nB)
    (h : ¬ ((b0.1, b1.1) ∈ bm (permFn p 0) ∧ (b1.1, b2.1) ∈ bm (permFn p 1) ∧
      (b2.1, b3.1) ∈ bm (permFn p 2) ∧ (b3.1, b0.1) ∈ cx4)) :
    stripeParts d z R C CX p b0 b1 b2 b3 = 0 := by
  unfold stripeParts
  rw [partValue_eq d _ _ _ b0 b1 b2 b3 (O (permFn p 0)) (O (permFn p 1)) (O (permFn p 2)) X _ _ _ _
    (hR _ _ _) (hC _ _ _) (hR _ _ _) (hX _ _)]
  have hzero : ∀ (M : Matrix (Basis sz) (Basis sz) ℂ) (m : BlockMap) (b b' : Fin nB),
      CoversBlocks m M → (b.1, b'.1) ∉ m → ∀ i j, M ⟨b, i⟩ ⟨b', j⟩ = 0 := by
    intro M m b b' hcov hn i j
    have : GFRefine.block M b b' = 0 := by
      by_contra h0
      exact hn (hcov b b' h0)
    exact congrFun (congrFun this i) j
  refine Finset.sum_eq_zero fun i1 _ => Finset.sum_eq_zero fun i2 _ =>
    Finset.sum_eq_zero fun i3 _ => Finset.sum_eq_zero fun i4 _ => ?_
  by_cases g0 : (b0.1, b1.1) ∈ bm (permFn p 0)
  · by_cases g1 : (b1.1, b2.1) ∈ bm (permFn p 1)
    · by_cases g2 : (b2.1, b3.1) ∈ bm (permFn p 2)
      · have g3 : (b3.1, b0.1) ∉ cx4 := fun g3 => h ⟨g0, g1, g2, g3⟩
        rw [hzero X cx4 b3 b0 hX4 g3 i4 i1]; ring
      · rw [hzero _ _ b2 b3 (hO _) g2 i3 i4]; ring
    · rw [hzero _ _ b1 b2 (hO _) g1 i2 i3]; ring
  · rw [hzero _ _ b0 b1 (hO _) g0 i1 i2]; ring

/-- the stripes of permutation `p` -/
def stripesOf (p : ℕ) (l : List Stripe) : List Stripe := l.filter fun s => s.1 == p

/-- **B.2: THE SELECTED STRIPES OF ONE PERMUTATION ADD UP TO THE ORDERED LEHMANN SUM.**  Block-structured
eigenbasis (`nB` blocks, block `b` has `sz b` states); `O 0, O 1, O 2, X` the matrices of `C1, C2, CX3,
CX4`; `bm k` / `cx4` the contents of their block bimaps (graphs of partial injective maps) which list at
least all non-trivial blocks (`CoversBlocks`: the matrix vanishes outside the listed blocks); every block
stored in compressed form (`R` row-major, `C` column-major, `CX` column-major for CX4).  Nothing is
truncated.  Then, for every permutation `p`: the sum over the stripes SELECTED by
`TwoParticleGF::prepare` for `p` of what their parts accumulate (`partValue`: sparse world-line
enumeration of `TwoParticleGFPart::compute` with the multi-term of the four levels) equals the sum over
ALL quadruples of blocks, hence (`parts_enumeration_refines_ordered_lehmann`) the per-ordering Lehmann sum
`orderedLehmann` of the operators in the order `p`. -/
theorem selected_stripes_sum_to_ordered_lehmann (d : EigenData (Basis sz))
    (O : Fin 3 → Matrix (Basis sz) (Basis sz) ℂ) (X : Matrix (Basis sz) (Basis sz) ℂ)
    (z : Fin 3 → ℂ) (R C : Fin 3 → Fin nB → Fin nB → SpMat ℂ) (CX : Fin nB → Fin nB → SpMat ℂ)
    (hR : ∀ k b b', RowMajorOf (R k b b') (blockOf (O k) b b'))
    (hC : ∀ k b b', ColMajorOf (C k b b') (blockOf (O k) b b'))
    (hX : ∀ b b', ColMajorOf (CX b b') (blockOf X b b'))
    (bm : Fin 3 → BlockMap) (cx4 : BlockMap) (hbm : ∀ k, IsBimap (bm k)) (h4 : RightUnique cx4)
    (hO : ∀ k, CoversBlocks (bm k) (O k)) (hX4 : CoversBlocks cx4 X) (p : Fin 6) :
    ((stripesOf p.1 (prepare (fun _ => true) (bm 0) (bm 1) (bm 2) cx4)).map
        (stripeValue d z R C CX)).sum
      = ∑ b0, ∑ b1, ∑ b2, ∑ b3, stripeParts d z R C CX p b0 b1 b2 b3 ∧
    ∑ b0, ∑ b1, ∑ b2, ∑ b3, stripeParts d z R C CX p b0 b1 b2 b3
      = d.orderedLehmann (O (permFn p 0)) (O (permFn p 1)) (O (permFn p 2)) X
          (z (permFn p 0)) (z (permFn p 1)) (z (permFn p 2)) := by
  constructor
  · obtain ⟨hnd, hmem⟩ := stripes_selected_exactly (fun _ => true) (bm 0) (bm 1) (bm 2) cx4
      (hbm 0) (hbm 1) (hbm 2) h4
    set L := prepare (fun _ => true) (bm 0) (bm 1) (bm 2) cx4 with hL
    -- the quadruples of the stripes of `p`
    have hval : (stripesOf p.1 L).map (stripeValue d z R C CX)
        = ((stripesOf p.1 L).map Prod.snd).map (quadVal (stripeParts d z R C CX p)) := by
      rw [List.map_map]
      apply List.map_congr_left
      intro s hs
      have hs1 : s.1 = p.1 := by
        have := (List.mem_filter.mp hs).2
        simpa using this
      unfold stripeValue
      rw [dif_pos (by rw [hs1]; exact p.2)]
      have : (⟨s.1, by rw [hs1]; exact p.2⟩ : Fin 6) = p := Fin.ext hs1
      rw [this]
      rfl
    rw [hval]
    apply sum_quads
    · -- no quadruple twice
      refine List.Nodup.map_on ?_ (hnd.filter _)
      intro s hs s' hs' e
      have hs1 : s.1 = p.1 := by simpa using (List.mem_filter.mp hs).2
      have hs1' : s'.1 = p.1 := by simpa using (List.mem_filter.mp hs').2
      exact Prod.ext (hs1.trans hs1'.symm) e
    · -- a quadruple that is not selected does not close
      intro b0 b1 b2 b3 hn
      apply stripeParts_eq_zero d O X z R C CX hR hC hX bm cx4 hO hX4
      intro hchain
      apply hn
      rw [List.mem_map]
      refine ⟨(p.1, b0.1, b1.1, b2.1, b3.1), ?_, rfl⟩
      unfold stripesOf
      rw [List.mem_filter]
      refine ⟨(hmem _ _ _ _ _).mpr ⟨p.2, ?_, ?_, ?_, hchain.2.2.2, Or.inl rfl⟩, by simp⟩
      · rw [show permAt p.1 0 = some (permFn p 0).1 from permAt_permFn p 0, opAt_fin]; exact hchain.1
      · rw [show permAt p.1 1 = some (permFn p 1).1 from permAt_permFn p 1, opAt_fin]; exact hchain.2.1
      · rw [show permAt p.1 2 = some (permFn p 2).1 from permAt_permFn p 2, opAt_fin]; exact hchain.2.2.1
  · exact parts_enumeration_refines_ordered_lehmann d (O (permFn p 0)) (O (permFn p 1))
      (O (permFn p 2)) X (R (permFn p 0)) (C (permFn p 1)) (R (permFn p 2)) CX (hR _) (hC _) (hR _) hX
      _ _ _

/-- splitting a sum over stripes by the permutation number -/
theorem sum_by_permutation (f : Stripe → ℂ) :
    ∀ l : List Stripe, (∀ s ∈ l, s.1 < 6) →
      (l.map f).sum = ∑ p : Fin 6, ((stripesOf p.1 l).map f).sum := by
  intro l
  induction l with
  | nil => intro _; simp [stripesOf]
  | cons s l ih =>
    intro h
    have hs : s.1 < 6 := h s List.mem_cons_self
    rw [List.map_cons, List.sum_cons, ih fun t ht => h t (List.mem_cons_of_mem _ ht)]
    have hstep : ∀ p : Fin 6, ((stripesOf p.1 (s :: l)).map f).sum
        = (if p = ⟨s.1, hs⟩ then f s else 0) + ((stripesOf p.1 l).map f).sum := by
      intro p
      unfold stripesOf
      rw [List.filter_cons]
      by_cases hp : p = ⟨s.1, hs⟩
      · have : (s.1 == p.1) = true := by rw [hp]; simp
        rw [if_pos this, if_pos hp, List.map_cons, List.sum_cons]
      · have : ¬ (s.1 == p.1) = true := by
          intro e
          apply hp
          exact Fin.ext (by simpa using e : s.1 = p.1).symm
        rw [if_neg this, if_neg hp, zero_add]
    rw [Finset.sum_congr rfl fun p _ => hstep p, Finset.sum_add_distrib, Finset.sum_ite_eq']
    simp

theorem chiLehmann_eq_sum_fin {ι : Type} [Fintype ι] [DecidableEq ι] (d : EigenData ι)
    (O : Fin 3 → Matrix ι ι ℂ) (X : Matrix ι ι ℂ) (z : Fin 3 → ℂ) :
    d.chiLehmann O X z = ∑ p : Fin 6, ((permEntry p.1).2 : ℂ) *
      d.orderedLehmann (O (permFn p 0)) (O (permFn p 1)) (O (permFn p 2)) X
        (z (permFn p 0)) (z (permFn p 1)) (z (permFn p 2)) := by
  unfold EigenData.chiLehmann
  have hp : perms3 = List.ofFn fun p : Fin 6 => permEntry p.1 := by
    simp [List.ofFn_succ, permEntry, perms3]
  rw [hp, List.map_ofFn, List.sum_ofFn]
  rfl

/-- **B.3: THE PARTS CREATED BY `TwoParticleGF::prepare` COMPUTE THE TWO-PARTICLE GREEN'S FUNCTION.**
Same setting.  The signed sum (sign of `permutations3[p]`) over ALL stripes selected by `prepare` of what
their parts accumulate is `d.chiLehmann O X z` -- the library's Lehmann representation summed over all
quadruples of eigenstates and all six orderings, which equals the definition `d.chiDef O X z` at
fermionic frequencies (`chi_lehmann`). -/
theorem selected_stripes_sum_to_chi (d : EigenData (Basis sz))
    (O : Fin 3 → Matrix (Basis sz) (Basis sz) ℂ) (X : Matrix (Basis sz) (Basis sz) ℂ)
    (z : Fin 3 → ℂ) (R C : Fin 3 → Fin nB → Fin nB → SpMat ℂ) (CX : Fin nB → Fin nB → SpMat ℂ)
    (hR : ∀ k b b', RowMajorOf (R k b b') (blockOf (O k) b b'))
    (hC : ∀ k b b', ColMajorOf (C k b b') (blockOf (O k) b b'))
    (hX : ∀ b b', ColMajorOf (CX b b') (blockOf X b b'))
    (bm : Fin 3 → BlockMap) (cx4 : BlockMap) (hbm : ∀ k, IsBimap (bm k)) (h4 : RightUnique cx4)
    (hO : ∀ k, CoversBlocks (bm k) (O k)) (hX4 : CoversBlocks cx4 X) :
    ((prepare (fun _ => true) (bm 0) (bm 1) (bm 2) cx4).map fun s =>
        ((permEntry s.1).2 : ℂ) * stripeValue d z R C CX s).sum
      = d.chiLehmann O X z := by
  rw [chiLehmann_eq_sum_fin, sum_by_permutation]
  · refine Finset.sum_congr rfl fun p _ => ?_
    obtain ⟨e1, e2⟩ := selected_stripes_sum_to_ordered_lehmann d O X z R C CX hR hC hX bm cx4 hbm h4
      hO hX4 p
    rw [← e2, ← e1, ← List.sum_map_mul_left]
    congr 1
    apply List.map_congr_left
    intro s hs
    have hs1 : s.1 = p.1 := by simpa [stripesOf] using (List.mem_filter.mp hs).2
    rw [hs1]
  · intro s hs
    obtain ⟨p, b0, b1, b2, b3⟩ := s
    exact ((stripes_selected_exactly (fun _ => true) (bm 0) (bm 1) (bm 2) cx4
      (hbm 0) (hbm 1) (hbm 2) h4).2 p b0 b1 b2 b3).mp hs |>.1

end Sum

/-! ## 4. the value does not depend on the block structure

A block structure is a numbering `e : ι ≃ Σ b, Fin (sz b)` of the eigenstates by (block, index within the
block).  The Lehmann sums run over all eigenstates, so they do not see the numbering. -/

section Reindex
open Pomerol.Spec.Chi4Refine
open Pomerol.Model.Chi4Part (SpMat)
open Pomerol.Spec.GFRefine (Basis CoversBlocks)
variable {ι κ : Type} [Fintype ι] [Fintype κ]

/-- the eigen-data with the eigenstates renumbered by `e` -/
def reindexData (d : EigenData ι) (e : ι ≃ κ) : EigenData κ := ⟨d.β, d.hβ, fun k => d.E (e.symm k)⟩

theorem reindexData_w (d : EigenData ι) (e : ι ≃ κ) (k : κ) :
    (reindexData d e).w k = d.w (e.symm k) := by
  unfold EigenData.w EigenData.Z reindexData
  dsimp only
  rw [Fintype.sum_equiv e.symm (fun k => Real.exp (-d.β * d.E (e.symm k)))
    (fun n => Real.exp (-d.β * d.E n)) (fun _ => rfl)]

theorem orderedLehmann_reindex (d : EigenData ι) (e : ι ≃ κ) (A B Cc X : Matrix ι ι ℂ)
    (za zb zc : ℂ) :
    (reindexData d e).orderedLehmann (Matrix.reindex e e A) (Matrix.reindex e e B)
        (Matrix.reindex e e Cc) (Matrix.reindex e e X) za zb zc
      = d.orderedLehmann A B Cc X za zb zc := by
  unfold EigenData.orderedLehmann
  refine Fintype.sum_equiv e.symm _ _ fun k1 => ?_
  refine Fintype.sum_equiv e.symm _ _ fun k2 => ?_
  refine Fintype.sum_equiv e.symm _ _ fun k3 => ?_
  refine Fintype.sum_equiv e.symm _ _ fun k4 => ?_
  simp only [reindexData_w, Matrix.reindex_apply, Matrix.submatrix_apply]
  rfl

theorem chiLehmann_reindex (d : EigenData ι) (e : ι ≃ κ) (O : Fin 3 → Matrix ι ι ℂ)
    (X : Matrix ι ι ℂ) (z : Fin 3 → ℂ) :
    (reindexData d e).chiLehmann (fun k => Matrix.reindex e e (O k)) (Matrix.reindex e e X) z
      = d.chiLehmann O X z := by
  unfold EigenData.chiLehmann
  congr 1
  apply List.map_congr_left
  intro p _
  rw [orderedLehmann_reindex]

/-- **B.4: THE SELECTED-STRIPE SUM IS THE PARTITION-FREE LEHMANN SUM, FOR ANY BLOCK STRUCTURE.**
`d`, `O`, `X` live on the eigenstates `ι`; `e` is ANY numbering of the eigenstates by blocks for which the
hypotheses of `selected_stripes_sum_to_chi` hold (bimaps covering the non-zero blocks of the renumbered
matrices, compressed copies of the blocks).  Then the parts created by `TwoParticleGF::prepare` add up,
ordering by ordering, to `d.orderedLehmann` and, with signs, to `d.chiLehmann O X z` -- expressions in
which neither the blocks nor the numbering occur. -/
theorem selected_stripes_sum_partition_free {nB : ℕ} {sz : Fin nB → ℕ} (d : EigenData ι)
    (O : Fin 3 → Matrix ι ι ℂ) (X : Matrix ι ι ℂ) (z : Fin 3 → ℂ) (e : ι ≃ Basis sz)
    (R C : Fin 3 → Fin nB → Fin nB → SpMat ℂ) (CX : Fin nB → Fin nB → SpMat ℂ)
    (hR : ∀ k b b', RowMajorOf (R k b b') (blockOf (Matrix.reindex e e (O k)) b b'))
    (hC : ∀ k b b', ColMajorOf (C k b b') (blockOf (Matrix.reindex e e (O k)) b b'))
    (hX : ∀ b b', ColMajorOf (CX b b') (blockOf (Matrix.reindex e e X) b b'))
    (bm : Fin 3 → BlockMap) (cx4 : BlockMap) (hbm : ∀ k, IsBimap (bm k)) (h4 : RightUnique cx4)
    (hO : ∀ k, CoversBlocks (bm k) (Matrix.reindex e e (O k)))
    (hX4 : CoversBlocks cx4 (Matrix.reindex e e X)) :
    (∀ p : Fin 6,
      ((stripesOf p.1 (prepare (fun _ => true) (bm 0) (bm 1) (bm 2) cx4)).map
          (stripeValue (reindexData d e) z R C CX)).sum
        = d.orderedLehmann (O (permFn p 0)) (O (permFn p 1)) (O (permFn p 2)) X
            (z (permFn p 0)) (z (permFn p 1)) (z (permFn p 2))) ∧
    ((prepare (fun _ => true) (bm 0) (bm 1) (bm 2) cx4).map fun s =>
        ((permEntry s.1).2 : ℂ) * stripeValue (reindexData d e) z R C CX s).sum
      = d.chiLehmann O X z := by
  constructor
  · intro p
    obtain ⟨e1, e2⟩ := selected_stripes_sum_to_ordered_lehmann (reindexData d e)
      (fun k => Matrix.reindex e e (O k)) (Matrix.reindex e e X) z R C CX hR hC hX bm cx4 hbm h4
      hO hX4 p
    rw [e1, e2, orderedLehmann_reindex]
  · rw [selected_stripes_sum_to_chi (reindexData d e) (fun k => Matrix.reindex e e (O k))
      (Matrix.reindex e e X) z R C CX hR hC hX bm cx4 hbm h4 hO hX4, chiLehmann_reindex]

end Reindex

end Pomerol.Spec.Chi4PrepareSpec
