/-
  Properties of the collection phase that follows a dispatch round (`Model/Collect.lean`):
  the per-part broadcasts from `job_map[p]` and the reduction of the rank-local frequency tables,
  and their composition with the dispatcher model (`Model/Dispatcher.lean`, `Spec/DispatcherInv.lean`).

  The table entries live in an arbitrary additive commutative monoid: exact arithmetic.  The
  re-association of a floating-point sum is NOT covered.
-/
import PomerolModel.Model.Collect
import PomerolModel.Spec.DispatcherInv
import Mathlib.Algebra.BigOperators.Group.Finset.Basic
import Mathlib.Algebra.BigOperators.Group.Finset.Piecewise
import Mathlib.Data.List.Perm.Basic

namespace Pomerol.Spec.Collect
open Pomerol.Model.Collect Pomerol.Model.Disp Pomerol.Spec.Disp

/-! ### (a) broadcasts -/

section Bcast
variable {α : Type}

/-- a world of `P` ranks with `J` entries each -/
def WF (P J : Nat) (w : World α) : Prop := w.length = P ∧ ∀ st ∈ w, st.length = J

theorem entry_of_ge (w : World α) (r p : Nat) (h : w.length ≤ r) : entry w r p = none := by
  simp [entry, List.getD_eq_getElem?_getD, List.getElem?_eq_none h]

theorem initWorld_wf (P J : Nat) (ran : Nat → Nat → Bool) (result : Nat → α) (stale : Nat → Nat → Option α) :
    WF P J (initWorld P J ran result stale) := by
  refine ⟨by simp [initWorld], ?_⟩
  intro st hst
  simp only [initWorld, List.mem_map] at hst
  obtain ⟨r, _, rfl⟩ := hst
  simp

theorem entry_initWorld (P J : Nat) (ran : Nat → Nat → Bool) (result : Nat → α) (stale : Nat → Nat → Option α)
    (r p : Nat) (hr : r < P) (hp : p < J) :
    entry (initWorld P J ran result stale) r p = if ran r p then some (result p) else stale r p := by
  simp [entry, initWorld, List.getD_eq_getElem?_getD, hr, hp]

theorem bcastStep_wf (P J : Nat) (owner : Nat → Nat) (w : World α) (p : Nat) (h : WF P J w) :
    WF P J (bcastStep owner w p) := by
  refine ⟨by simp [bcastStep, h.1], ?_⟩
  intro st hst
  simp only [bcastStep, List.mem_map] at hst
  obtain ⟨st0, h0, rfl⟩ := hst
  simp [h.2 st0 h0]

/-- one broadcast: entry `p` of every rank becomes the root's entry `p`; nothing else changes -/
theorem entry_bcastStep (P J : Nat) (owner : Nat → Nat) (w : World α) (p : Nat) (h : WF P J w) (hp : p < J)
    (r q : Nat) :
    entry (bcastStep owner w p) r q = if q = p ∧ r < P then entry w (owner p) p else entry w r q := by
  by_cases hr : r < P
  · have hr' : r < w.length := by rw [h.1]; exact hr
    have hlen : (w[r]).length = J := h.2 _ (List.getElem_mem hr')
    have e1 : entry (bcastStep owner w p) r q = ((w[r]).set p (entry w (owner p) p)).getD q none := by
      simp [entry, bcastStep, List.getD_eq_getElem?_getD, hr']
    have e2 : entry w r q = (w[r]).getD q none := by
      simp [entry, List.getD_eq_getElem?_getD, hr']
    rw [e1, e2]
    by_cases hq : q = p
    · subst hq
      simp [List.getD_eq_getElem?_getD, hr, hlen, hp]
    · have hq' : ¬ p = q := fun e => hq e.symm
      simp [List.getD_eq_getElem?_getD, hq, hq']
  · have h1 : (bcastStep owner w p).length ≤ r := by
      rw [(bcastStep_wf P J owner w p h).1]; omega
    have h2 : w.length ≤ r := by rw [h.1]; omega
    rw [entry_of_ge _ _ _ h1, entry_of_ge _ _ _ h2]
    simp [hr]

theorem bcast_prefix (P J : Nat) (owner : Nat → Nat) (w : World α) (h : WF P J w) :
    ∀ k, k ≤ J → WF P J ((List.range k).foldl (bcastStep owner) w) ∧
      ∀ r q, r < P → entry ((List.range k).foldl (bcastStep owner) w) r q =
        if q < k then entry w (owner q) q else entry w r q := by
  intro k
  induction k with
  | zero => intro _; exact ⟨h, fun r q _ => by simp⟩
  | succ k ih =>
    intro hk
    obtain ⟨hwf, hent⟩ := ih (by omega)
    rw [List.range_succ, List.foldl_append]
    simp only [List.foldl_cons, List.foldl_nil]
    refine ⟨bcastStep_wf P J owner _ k hwf, ?_⟩
    intro r q hr
    rw [entry_bcastStep P J owner _ k hwf (by omega)]
    by_cases hq : q = k
    · subst hq
      simp only [hr, and_self, if_true, Nat.lt_succ_self]
      by_cases ho : owner q < P
      · rw [hent _ _ ho]; simp
      · rw [entry_of_ge _ _ _ (by rw [hwf.1]; omega), entry_of_ge _ _ _ (by rw [h.1]; omega)]
    · rw [if_neg (fun c => hq c.1), hent r q hr]
      have : q < k + 1 ↔ q < k := by omega
      simp only [this]

/-- THE BROADCAST LOOP: afterwards every rank holds, for every part, what the rank named by the map held for
that part before the loop. -/
theorem entry_bcastAll (P J : Nat) (owner : Nat → Nat) (w : World α) (h : WF P J w) (r p : Nat) (hr : r < P)
    (hp : p < J) : entry (bcastAll J owner w) r p = entry w (owner p) p := by
  have := (bcast_prefix P J owner w h J (Nat.le_refl J)).2 r p hr
  rw [bcastAll, this, if_pos hp]

theorem bcastAll_wf (P J : Nat) (owner : Nat → Nat) (w : World α) (h : WF P J w) : WF P J (bcastAll J owner w) :=
  (bcast_prefix P J owner w h J (Nat.le_refl J)).1

/-- a well-formed world is determined by its entries -/
theorem world_ext (P J : Nat) (w w' : World α) (h : WF P J w) (h' : WF P J w')
    (he : ∀ r p, r < P → p < J → entry w r p = entry w' r p) : w = w' := by
  apply List.ext_getElem (by rw [h.1, h'.1])
  intro r h1 h2
  have l1 : (w[r]).length = J := h.2 _ (List.getElem_mem h1)
  have l2 : (w'[r]).length = J := h'.2 _ (List.getElem_mem h2)
  apply List.ext_getElem (by rw [l1, l2])
  intro p hp1 hp2
  have := he r p (by rw [← h.1]; exact h1) (by rw [← l1]; exact hp1)
  simpa [entry, List.getD_eq_getElem?_getD, h1, h2, hp1, hp2] using this

/-- General form of statement 1: if the map names, for every part, a rank of the communicator that has executed
the part, then after the loop every rank holds the computed result of every part -- whatever the ranks that did
not execute a part held for it before. -/
theorem bcast_all_ranks_agree_of_ran (P J : Nat) (owner : Nat → Nat) (ran : Nat → Nat → Bool) (result : Nat → α)
    (stale : Nat → Nat → Option α) (hown : ∀ p, p < J → owner p < P ∧ ran (owner p) p = true)
    (r p : Nat) (hr : r < P) (hp : p < J) :
    entry (bcastAll J owner (initWorld P J ran result stale)) r p = some (result p) := by
  rw [entry_bcastAll P J owner _ (initWorld_wf P J ran result stale) r p hr hp,
    entry_initWorld P J ran result stale _ p (hown p hp).1 hp, (hown p hp).2]
  rfl

/-- STATEMENT 1.  If the ranks executed the parts as the map says and the map names ranks of the communicator,
then after the broadcast loop every rank holds `some (result p)` for every part `p < J`, regardless of the
stale entries. -/
theorem bcast_all_ranks_agree (P J : Nat) (owner : Nat → Nat) (result : Nat → α) (stale : Nat → Nat → Option α)
    (hown : ∀ p, p < J → owner p < P) (r p : Nat) (hr : r < P) (hp : p < J) :
    entry (bcastAll J owner (initWorld P J (ranByMap owner) result stale)) r p = some (result p) :=
  bcast_all_ranks_agree_of_ran P J owner (ranByMap owner) result stale
    (fun p hp => ⟨hown p hp, by simp [ranByMap]⟩) r p hr hp

/-- statement 1 as an equation between worlds: all ranks hold the same, complete store -/
theorem bcast_all_ranks_agree_world (P J : Nat) (owner : Nat → Nat) (ran : Nat → Nat → Bool) (result : Nat → α)
    (stale : Nat → Nat → Option α) (hown : ∀ p, p < J → owner p < P ∧ ran (owner p) p = true) :
    bcastAll J owner (initWorld P J ran result stale) =
      List.replicate P ((List.range J).map fun p => some (result p)) := by
  have hwf : WF P J (List.replicate P ((List.range J).map fun p => some (result p))) := by
    refine ⟨by simp, ?_⟩
    intro st hst
    rw [List.eq_of_mem_replicate hst]
    simp
  apply world_ext P J _ _ (bcastAll_wf P J owner _ (initWorld_wf P J ran result stale)) hwf
  intro r p hr hp
  rw [bcast_all_ranks_agree_of_ran P J owner ran result stale hown r p hr hp]
  simp [entry, List.getD_eq_getElem?_getD, hr, hp]

/-- WHY THE MAP MUST NAME THE EXECUTING RANK.  If for a part `p` the rank named by the map has not executed `p`,
then after the loop EVERY rank -- including the one that did compute `p` -- holds the stale entry of the named
rank (no hypothesis on the other parts). -/
theorem bcast_wrong_owner_spreads_stale (P J : Nat) (owner : Nat → Nat) (ran : Nat → Nat → Bool)
    (result : Nat → α) (stale : Nat → Nat → Option α) (p : Nat) (hp : p < J) (hown : owner p < P)
    (hwrong : ran (owner p) p = false) (r : Nat) (hr : r < P) :
    entry (bcastAll J owner (initWorld P J ran result stale)) r p = stale (owner p) p := by
  rw [entry_bcastAll P J owner _ (initWorld_wf P J ran result stale) r p hr hp,
    entry_initWorld P J ran result stale _ p hown hp, hwrong]
  rfl

/-- a root outside the communicator leaves nothing for that part on any rank -/
theorem bcast_invalid_root_loses_part (P J : Nat) (owner : Nat → Nat) (ran : Nat → Nat → Bool)
    (result : Nat → α) (stale : Nat → Nat → Option α) (p : Nat) (hp : p < J) (hown : P ≤ owner p)
    (r : Nat) (hr : r < P) :
    entry (bcastAll J owner (initWorld P J ran result stale)) r p = none := by
  rw [entry_bcastAll P J owner _ (initWorld_wf P J ran result stale) r p hr hp]
  exact entry_of_ge _ _ _ (by rw [(initWorld_wf P J ran result stale).1]; exact hown)

end Bcast

/-! ### (b) tables -/

section Tables
variable {β : Type} [AddCommMonoid β]

theorem length_accumulate (t c : List β) : (accumulate t c).length = t.length := by
  simp [accumulate]

theorem getD_accumulate (t c : List β) (w : Nat) (hw : w < t.length) :
    (accumulate t c).getD w 0 = t.getD w 0 + c.getD w 0 := by
  simp [accumulate, List.getD_eq_getElem?_getD, hw]

theorem length_zeroTable (F : Nat) : (zeroTable F : List β).length = F := by simp [zeroTable]

theorem getD_zeroTable (F w : Nat) : (zeroTable F : List β).getD w 0 = 0 := by
  simp only [zeroTable, List.getD_eq_getElem?_getD, List.getElem?_replicate]
  split <;> rfl

theorem foldl_accumulate {ι : Type} (c : ι → List β) (l : List ι) :
    ∀ t : List β, (l.foldl (fun t x => accumulate t (c x)) t).length = t.length ∧
      ∀ w, w < t.length → (l.foldl (fun t x => accumulate t (c x)) t).getD w 0 =
        t.getD w 0 + (l.map fun x => (c x).getD w 0).sum := by
  induction l with
  | nil => intro t; simp
  | cons x l ih =>
    intro t
    obtain ⟨h1, h2⟩ := ih (accumulate t (c x))
    rw [length_accumulate] at h1
    refine ⟨h1, ?_⟩
    intro w hw
    rw [List.foldl_cons, h2 w (by rw [length_accumulate]; exact hw), getD_accumulate t _ w hw]
    simp [add_assoc]

/-- two tables of length `F` with the same entries are equal -/
theorem table_ext (F : Nat) (a b : List β) (ha : a.length = F) (hb : b.length = F)
    (h : ∀ w, w < F → a.getD w 0 = b.getD w 0) : a = b := by
  apply List.ext_getElem (by rw [ha, hb])
  intro w h1 h2
  have := h w (by rw [← ha]; exact h1)
  simpa [List.getD_eq_getElem?_getD, h1, h2] using this

theorem length_localTable (F : Nat) (contrib : Nat → List β) (log : List (Nat × Nat)) (r : Nat) :
    (localTable F contrib log r).length = F := by
  unfold localTable
  rw [(foldl_accumulate (fun x : Nat × Nat => contrib x.1) _ _).1, length_zeroTable]

/-- the table of rank `r`: the sum of the contributions of the executions that took place on `r` -/
theorem getD_localTable (F : Nat) (contrib : Nat → List β) (log : List (Nat × Nat)) (r w : Nat) (hw : w < F) :
    (localTable F contrib log r).getD w 0 =
      ((log.filter fun x => x.2 == r).map fun x => (contrib x.1).getD w 0).sum := by
  unfold localTable
  rw [(foldl_accumulate (fun x : Nat × Nat => contrib x.1) _ _).2 w (by rw [length_zeroTable]; exact hw),
    getD_zeroTable, zero_add]

theorem length_reduceTables (P F : Nat) (contrib : Nat → List β) (log : List (Nat × Nat)) :
    (reduceTables P F contrib log).length = F := by
  unfold reduceTables
  rw [(foldl_accumulate (fun r : Nat => localTable F contrib log r) _ _).1, length_zeroTable]

theorem list_range_sum (n : Nat) (f : Nat → β) : ((List.range n).map f).sum = ∑ i ∈ Finset.range n, f i := by
  induction n with
  | zero => simp
  | succ n ih => rw [List.range_succ, List.map_append, List.sum_append, ih, Finset.sum_range_succ]; simp

/-- the sum over the ranks of the rank-local sums is the sum over all executions on ranks of the communicator -/
theorem sum_over_ranks (P : Nat) (f : Nat × Nat → β) (log : List (Nat × Nat)) (h : ∀ x ∈ log, x.2 < P) :
    ∑ r ∈ Finset.range P, ((log.filter fun x => x.2 == r).map f).sum = (log.map f).sum := by
  induction log with
  | nil => simp
  | cons x log ih =>
    have hx : x.2 < P := h x List.mem_cons_self
    have ih' := ih (fun y hy => h y (List.mem_cons_of_mem _ hy))
    have e : ∀ r, (((x :: log).filter fun y => y.2 == r).map f).sum =
        (if x.2 = r then f x else 0) + ((log.filter fun y => y.2 == r).map f).sum := by
      intro r
      by_cases hr : x.2 = r
      · simp [hr]
      · simp [hr]
    simp only [e]
    rw [Finset.sum_add_distrib, ih', Finset.sum_ite_eq, if_pos (Finset.mem_range.2 hx)]
    simp

/-- the reduced table: every execution on a rank of the communicator contributes once -/
theorem getD_reduceTables (P F : Nat) (contrib : Nat → List β) (log : List (Nat × Nat))
    (h : ∀ x ∈ log, x.2 < P) (w : Nat) (hw : w < F) :
    (reduceTables P F contrib log).getD w 0 = (log.map fun x => (contrib x.1).getD w 0).sum := by
  unfold reduceTables
  rw [(foldl_accumulate (fun r : Nat => localTable F contrib log r) _ _).2 w (by rw [length_zeroTable]; exact hw),
    getD_zeroTable, zero_add, list_range_sum]
  rw [← sum_over_ranks P (fun x => (contrib x.1).getD w 0) log h]
  exact Finset.sum_congr rfl fun r _ => getD_localTable F contrib log r w hw

theorem length_serialTable (J F : Nat) (contrib : Nat → List β) : (serialTable J F contrib).length = F := by
  unfold serialTable
  rw [(foldl_accumulate contrib _ _).1, length_zeroTable]

/-- the single-rank table: entry `w` is the sum over all parts -/
theorem getD_serialTable (J F : Nat) (contrib : Nat → List β) (w : Nat) (hw : w < F) :
    (serialTable J F contrib).getD w 0 = ∑ p ∈ Finset.range J, (contrib p).getD w 0 := by
  unfold serialTable
  rw [(foldl_accumulate contrib _ _).2 w (by rw [length_zeroTable]; exact hw), getD_zeroTable, zero_add,
    list_range_sum]

/-- GENERAL FORM of statement 2: entry `w` of the reduced table is the sum over the parts of
(number of executions of the part) × (its contribution). -/
theorem reduce_counts_multiplicity (P J F : Nat) (contrib : Nat → List β) (log : List (Nat × Nat))
    (h : ∀ x ∈ log, x.1 < J ∧ x.2 < P) (w : Nat) (hw : w < F) :
    (reduceTables P F contrib log).getD w 0 =
      ∑ p ∈ Finset.range J, (log.map (·.1)).count p • (contrib p).getD w 0 := by
  rw [getD_reduceTables P F contrib log (fun x hx => (h x hx).2) w hw]
  have e : (log.map fun x => (contrib x.1).getD w 0) = (log.map (·.1)).map fun p => (contrib p).getD w 0 := by
    rw [List.map_map]; rfl
  rw [e, Finset.sum_list_map_count]
  apply Finset.sum_subset
  · intro p hp
    rw [List.mem_toFinset, List.mem_map] at hp
    obtain ⟨x, hx, rfl⟩ := hp
    exact Finset.mem_range.2 (h x hx).1
  · intro p _ hp
    rw [List.mem_toFinset] at hp
    rw [List.count_eq_zero_of_not_mem hp, zero_nsmul]

/-- every part `p < J` is executed exactly once, on a rank of the communicator, and nothing else is executed
(what C16 proves for a finished dispatch round) -/
def ExactlyOnce (P J : Nat) (log : List (Nat × Nat)) : Prop :=
  (log.map (·.1)).Nodup ∧ (∀ p, p ∈ log.map (·.1) ↔ p < J) ∧ ∀ x ∈ log, x.2 < P

/-- the same in terms of counting -/
theorem exactlyOnce_iff_count (P J : Nat) (log : List (Nat × Nat)) :
    ExactlyOnce P J log ↔
      (∀ p, p < J → (log.filter fun x => x.1 = p).length = 1) ∧ ∀ x ∈ log, x.1 < J ∧ x.2 < P := by
  have hc : ∀ p, (log.filter fun x => x.1 = p).length = (log.map (·.1)).count p := by
    intro p
    rw [List.count_eq_countP, List.countP_map, List.countP_eq_length_filter]
    congr 1
  constructor
  · rintro ⟨hnd, hmem, hr⟩
    refine ⟨?_, fun x hx => ⟨(hmem x.1).1 (List.mem_map.2 ⟨x, hx, rfl⟩), hr x hx⟩⟩
    intro p hp
    rw [hc, List.Nodup.count hnd, if_pos ((hmem p).2 hp)]
  · rintro ⟨hcnt, hlt⟩
    refine ⟨?_, ?_, fun x hx => (hlt x hx).2⟩
    · rw [List.nodup_iff_count_le_one]
      intro p
      by_cases hp : p ∈ log.map (·.1)
      · obtain ⟨x, hx, rfl⟩ := List.mem_map.1 hp
        rw [← hc, hcnt _ (hlt x hx).1]
      · rw [List.count_eq_zero_of_not_mem hp]; omega
    · intro p
      constructor
      · intro hp
        obtain ⟨x, hx, rfl⟩ := List.mem_map.1 hp
        exact (hlt x hx).1
      · intro hp
        have := hcnt p hp
        rw [hc] at this
        exact List.count_pos_iff.1 (by omega)

theorem ExactlyOnce.count_eq {P J : Nat} {log : List (Nat × Nat)} (h : ExactlyOnce P J log) (p : Nat)
    (hp : p < J) : (log.map (·.1)).count p = 1 := by
  rw [List.Nodup.count h.1, if_pos ((h.2.1 p).2 hp)]

/-- the log "every part once, on the rank the map names" is an exactly-once log as soon as the map names
ranks of the communicator -/
theorem ownerLog_exactlyOnce (P J : Nat) (owner : Nat → Nat) (hown : ∀ p, p < J → owner p < P) :
    ExactlyOnce P J (ownerLog J owner) := by
  have e : (ownerLog J owner).map (·.1) = List.range J := by
    simp [ownerLog, List.map_map, Function.comp_def]
  refine ⟨by rw [e]; exact List.nodup_range, fun p => by rw [e, List.mem_range], ?_⟩
  intro x hx
  simp only [ownerLog, List.mem_map, List.mem_range] at hx
  obtain ⟨p, hp, rfl⟩ := hx
  exact hown p hp

/-- STATEMENT 2.  If every part is accumulated exactly once (on whatever rank of the communicator, in whatever
order), the table delivered on rank 0 is the table a single rank accumulates, and its entry `w` is the sum of
the contributions of ALL parts: independent of the assignment of parts to ranks and of the number of ranks. -/
theorem reduce_is_sum_over_parts (P J F : Nat) (contrib : Nat → List β) (log : List (Nat × Nat))
    (h : ExactlyOnce P J log) :
    reduceTables P F contrib log = serialTable J F contrib ∧
    (reduceTables P F contrib log).length = F ∧
    ∀ w, w < F → (reduceTables P F contrib log).getD w 0 = ∑ p ∈ Finset.range J, (contrib p).getD w 0 := by
  have key : ∀ w, w < F →
      (reduceTables P F contrib log).getD w 0 = ∑ p ∈ Finset.range J, (contrib p).getD w 0 := by
    intro w hw
    rw [reduce_counts_multiplicity P J F contrib log
      (fun x hx => ⟨(h.2.1 x.1).1 (List.mem_map.2 ⟨x, hx, rfl⟩), h.2.2 x hx⟩) w hw]
    apply Finset.sum_congr rfl
    intro p hp
    rw [h.count_eq p (Finset.mem_range.1 hp), one_nsmul]
  refine ⟨?_, length_reduceTables P F contrib log, key⟩
  apply table_ext F _ _ (length_reduceTables P F contrib log) (length_serialTable J F contrib)
  intro w hw
  rw [key w hw, getD_serialTable J F contrib w hw]

/-- statement 2 with the executions given by a map `owner` -/
theorem reduce_owner_is_serial (P J F : Nat) (contrib : Nat → List β) (owner : Nat → Nat)
    (hown : ∀ p, p < J → owner p < P) :
    reduceTables P F contrib (ownerLog J owner) = serialTable J F contrib :=
  (reduce_is_sum_over_parts P J F contrib _ (ownerLog_exactlyOnce P J owner hown)).1

/-- the serial table IS the outcome of the distributed procedure on a single rank -/
theorem serialTable_eq_single_rank (J F : Nat) (contrib : Nat → List β) :
    serialTable J F contrib = reduceTables 1 F contrib (ownerLog J fun _ => 0) :=
  (reduce_owner_is_serial 1 J F contrib (fun _ => 0) (fun _ _ => Nat.zero_lt_one)).symm

/-- WHY "EXACTLY ONCE" MATTERS.  If, in addition to an exactly-once round, part `p` is executed a second time
(on any rank `r'` of the communicator, at any position `log'` of the execution order), its contribution
appears twice in the reduced table. -/
theorem reduce_double_execution_counts_twice (P J F : Nat) (contrib : Nat → List β) (log log' : List (Nat × Nat))
    (h : ExactlyOnce P J log) (p r' : Nat) (hr' : r' < P) (hperm : log'.Perm ((p, r') :: log))
    (w : Nat) (hw : w < F) :
    (reduceTables P F contrib log').getD w 0 = (serialTable J F contrib).getD w 0 + (contrib p).getD w 0 := by
  have hlt : ∀ x ∈ log', x.2 < P := by
    intro x hx
    rcases List.mem_cons.1 (hperm.mem_iff.1 hx) with rfl | hx
    · exact hr'
    · exact h.2.2 x hx
  rw [getD_reduceTables P F contrib log' hlt w hw, (hperm.map _).sum_eq, List.map_cons, List.sum_cons,
    ← getD_reduceTables P F contrib log h.2.2 w hw, (reduce_is_sum_over_parts P J F contrib log h).1, add_comm]

/-- what the ranks other than 0 return: zeros -/
theorem reduceWorld_spec (P F : Nat) (contrib : Nat → List β) (log : List (Nat × Nat)) (r : Nat) (hr : r < P) :
    (reduceWorld P F contrib log).getD r [] =
      if r = 0 then reduceTables P F contrib log else zeroTable F := by
  simp [reduceWorld, List.getD_eq_getElem?_getD, hr]

end Tables

/-! ### composition with the dispatcher -/

/-- DISPATCHER LEMMA.  After a finished round with job list a permutation of `0 … J-1` (what `mpi_skel::run`
builds by sorting the job numbers by complexity), `job_map[p]` is, for every part `p < J`, a rank of the
communicator, and that rank has executed `p`. -/
theorem final_owner (P J : Nat) (jobs : List Nat) (hP : 0 < P) (hjobs : jobs.Perm (List.range J)) (s : Sys)
    (h : Reachable P jobs s) (hf : allExited s = true) (p : Nat) (hp : p < J) :
    ownerOfMap s.m.dmap p < P ∧ (p, ownerOfMap s.m.dmap p) ∈ s.log := by
  have hnd : jobs.Nodup := hjobs.nodup_iff.2 List.nodup_range
  have hpj : p ∈ jobs := hjobs.mem_iff.2 (List.mem_range.2 hp)
  have hin := (final_complete P jobs hP hnd s h hf).1 p hpj
  obtain ⟨x, hx, rfl⟩ := List.mem_map.1 hin
  have hd := dmap_truth P jobs hP hnd s h x hx
  have hlt := ((exec_at_most_once P jobs hP hnd s h).2 x hx).2
  have e : ownerOfMap s.m.dmap x.1 = x.2 := by rw [ownerOfMap, hd]; rfl
  rw [e]
  exact ⟨hlt, hx⟩

/-- DISPATCHER LEMMA.  The execution log of a finished round is an exactly-once log. -/
theorem final_exactlyOnce (P J : Nat) (jobs : List Nat) (hP : 0 < P) (hjobs : jobs.Perm (List.range J)) (s : Sys)
    (h : Reachable P jobs s) (hf : allExited s = true) : ExactlyOnce P J s.log := by
  have hnd : jobs.Nodup := hjobs.nodup_iff.2 List.nodup_range
  obtain ⟨h1, h2⟩ := exec_at_most_once P jobs hP hnd s h
  refine ⟨h1, ?_, fun x hx => (h2 x hx).2⟩
  intro p
  constructor
  · intro hp
    obtain ⟨x, hx, rfl⟩ := List.mem_map.1 hp
    exact List.mem_range.1 (hjobs.mem_iff.1 (h2 x hx).1)
  · intro hp
    exact (final_complete P jobs hP hnd s h hf).1 p (hjobs.mem_iff.2 (List.mem_range.2 hp))

/-- STATEMENT 3.  For every finished round of the dispatcher model (any number of ranks `P ≥ 1`, any order of
the `J` jobs, any schedule), feeding its dispatch map as `job_map` into the broadcast loop and its execution log
into the table reduction gives
(i) on every rank, for every part, the result computed by the rank that executed the part -- the same on all
ranks, whatever stale data the other ranks held; and
(ii) on rank 0 the table of a single-rank run. -/
theorem distributed_step_refines_serial {α β : Type} [AddCommMonoid β] (P J : Nat) (jobs : List Nat) (hP : 0 < P)
    (hjobs : jobs.Perm (List.range J)) (s : Sys) (h : Reachable P jobs s) (hf : allExited s = true)
    (result : Nat → α) (stale : Nat → Nat → Option α) (F : Nat) (contrib : Nat → List β) :
    (∀ r p, r < P → p < J →
      entry (bcastAll J (ownerOfMap s.m.dmap) (initWorld P J (ranByLog s.log) result stale)) r p
        = some (result p)) ∧
    bcastAll J (ownerOfMap s.m.dmap) (initWorld P J (ranByLog s.log) result stale)
      = List.replicate P ((List.range J).map fun p => some (result p)) ∧
    reduceTables P F contrib s.log = serialTable J F contrib ∧
    (∀ w, w < F → (reduceTables P F contrib s.log).getD w 0 = ∑ p ∈ Finset.range J, (contrib p).getD w 0) := by
  have hown : ∀ p, p < J →
      ownerOfMap s.m.dmap p < P ∧ ranByLog s.log (ownerOfMap s.m.dmap p) p = true := by
    intro p hp
    obtain ⟨h1, h2⟩ := final_owner P J jobs hP hjobs s h hf p hp
    exact ⟨h1, by simpa [ranByLog] using h2⟩
  have hred := reduce_is_sum_over_parts P J F contrib s.log (final_exactlyOnce P J jobs hP hjobs s h hf)
  exact ⟨fun r p hr hp => bcast_all_ranks_agree_of_ran P J _ _ result stale hown r p hr hp,
    bcast_all_ranks_agree_world P J _ _ result stale hown, hred.1, hred.2.2⟩

end Pomerol.Spec.Collect
