/-
  Refinement: the LOOP STRUCTURE of the single-particle Green's function code computes the Lehmann sum.

  `Model/GFPart.lean` models `GreensFunctionPart::compute` (parallel walk over a compressed row of the
  block of `c` and a compressed column of the block of `c†`, with chasing) and
  `GreensFunction::prepare` (merge walk over the two block bimaps).  Here:

  A.1 `gfpart_contributions`      the double loop emits exactly the list `computeSpec` (row by row, the
                                   entries of the row that have a partner in the column); membership and
                                   order: `mem_computeSpec`, `computeSpec_sorted`
      `rowWalk_agrees_with_chase`  the index-only merge walk of `Model/Chase.lean` (property C17)
                                   returns the inner indices of the contributions emitted here
  A.2 `gfpart_sum_eq_matrix_sum`  sum over the emitted contributions = sum over ALL index pairs
      `gfpart_sum_kept`, `gfpart_sum_kept_add_dropped`   the same with the test `keep`
  A.3 `part_loop_refines_lehmann_filtered`, `part_loop_refines_lehmann`,
      `one_block_loop_refines_lehmann`   with the extracted residue / pole / term formulas: the terms of
                                   one part add up to the block-pair part of the Lehmann sum
  B   `prepare_selects_matching_pairs`, `prepare_parts_characterised`, `prepare_needs_unique_keys`
  A+B `lehmann_eq_sum_block_parts`, `selected_parts_sum_to_lehmann`, `whole_loop_refines_lehmann`

  Why block pairs are phrased with two index types: `Spec/Lehmann.lean` sums over ONE index type `ι`
  (the whole eigenbasis).  A part of the library sees an `N × M` block of `c` and the `M × N` block of
  `c†`, so A.3 is stated for rectangular blocks over `Fin N`, `Fin M` (`blockPart`); the link to
  `d.lehmannG` is made twice: for the whole basis as one block (`one_block_loop_refines_lehmann`,
  `ι = Fin N`) and for a basis split into blocks (`ι = Σ b, Fin (sz b)`, `whole_loop_refines_lehmann`).
-/
import PomerolModel.Model.GFPart
import PomerolModel.Properties.C17
import PomerolModel.Spec.Bridge

namespace Pomerol.Spec.GFRefine
open Pomerol.Model.GFPart Pomerol.Model.Chase Pomerol.Properties

section Walk
variable {V : Type}

/-- the inner indices of an inner vector are strictly increasing (what Eigen's compressed storage
guarantees); in particular there are no duplicates -/
def SortedVec (l : SpVec V) : Prop := C17.Sorted (indices l)

instance (l : SpVec V) : Decidable (SortedVec l) := by
  unfold SortedVec C17.Sorted; infer_instance

theorem sortedVec_iff (l : SpVec V) : SortedVec l ↔ l.Pairwise (fun p q => p.1 < q.1) := by
  unfold SortedVec C17.Sorted indices
  exact List.pairwise_map

/-- what the loop body does with the stored entry `p = (index2, c)` of row `index1` of `C`, given the
column `b` of `CX`: if `b` stores an entry `cx` at the same inner index and the test passes, emit -/
def emit (keep : Nat → Nat → V → V → Bool) (i : Nat) (b : SpVec V) (p : Nat × V) :
    Option (Contribution V) :=
  match b.lookup p.1 with
  | some cx => if keep i p.1 p.2 cx then some (i, p.1, p.2, cx) else none
  | none => none

/-- specification of one pass of the `while` loop: the entries of the row that have a partner in the
column, in the order of the row -/
def rowSpec (keep : Nat → Nat → V → V → Bool) (i : Nat) (a b : SpVec V) : List (Contribution V) :=
  a.filterMap (emit keep i b)

/-- specification of the double loop -/
def computeSpec (keep : Nat → Nat → V → V → Bool) (C CX : SpMat V) : List (Contribution V) :=
  (List.range C.length).flatMap fun i => rowSpec keep i (C[i]?.getD []) (CX[i]?.getD [])

/-! ### helpers -/

@[simp] theorem length_indices (l : SpVec V) : (indices l).length = l.length := by
  unfold indices; exact List.length_map _

private theorem getElem?_indices (l : SpVec V) (p : Nat) :
    (indices l)[p]? = (l[p]?).map Prod.fst := by
  unfold indices; exact List.getElem?_map

private theorem getElem?_indices_lt (l : SpVec V) {p : Nat} (h : p < l.length) :
    (indices l)[p]? = some l[p].1 := by
  rw [getElem?_indices, List.getElem?_eq_getElem h]; rfl

private theorem indexAt_of_lt (l : SpVec V) {p : Nat} (h : p < l.length) :
    indexAt (indices l) p = .ok l[p].1 := by
  unfold indexAt; rw [getElem?_indices_lt l h]

private theorem valueAt_of_lt (l : SpVec V) {p : Nat} (h : p < l.length) :
    valueAt l p = .ok l[p].2 := by
  unfold valueAt; rw [List.getElem?_eq_getElem h]

private theorem lookup_cons' (k : Nat) (q : Nat × V) (l : SpVec V) :
    List.lookup k (q :: l) = if k = q.1 then some q.2 else List.lookup k l := by
  obtain ⟨k', v⟩ := q
  rw [List.lookup_cons]
  by_cases h : k = k'
  · subst h; simp
  · have : (k == k') = false := by simpa using h
    simp [this, h]

private theorem lookup_none_of_ne (k : Nat) (l : SpVec V) (h : ∀ q ∈ l, q.1 ≠ k) :
    List.lookup k l = none := by
  rw [List.lookup_eq_none_iff]
  intro q hq
  have := h q hq
  simpa [bne_iff_ne] using fun e : k = q.1 => this e.symm

private theorem filterMap_drop_skip {α β : Type} (l : List α) (φ : α → Option β) :
    ∀ d n, (∀ k, n ≤ k → k < n + d → ∃ p, l[k]? = some p ∧ φ p = none) →
      (l.drop n).filterMap φ = (l.drop (n + d)).filterMap φ := by
  intro d
  induction d with
  | zero => intro n _; rfl
  | succ d ih =>
    intro n h
    obtain ⟨p, hp, hφ⟩ := h n (Nat.le_refl _) (by omega)
    have hn : n < l.length := by
      rcases Nat.lt_or_ge n l.length with h' | h'
      · exact h'
      · rw [List.getElem?_eq_none h'] at hp; cases hp
    rw [List.getElem?_eq_getElem hn] at hp
    cases hp
    rw [List.drop_eq_getElem_cons hn, List.filterMap_cons_none hφ,
      ih (n + 1) (fun k hk1 hk2 => h k (by omega) (by omega))]
    have : n + 1 + d = n + (d + 1) := by omega
    rw [this]

private theorem lookup_drop_skip (l : SpVec V) (key : Nat) :
    ∀ d n, (∀ k, n ≤ k → k < n + d → ∃ x, (indices l)[k]? = some x ∧ x ≠ key) →
      (l.drop n).lookup key = (l.drop (n + d)).lookup key := by
  intro d
  induction d with
  | zero => intro n _; rfl
  | succ d ih =>
    intro n h
    obtain ⟨x, hx, hne⟩ := h n (Nat.le_refl _) (by omega)
    have hn : n < l.length := by
      rcases Nat.lt_or_ge n l.length with h' | h'
      · exact h'
      · rw [getElem?_indices, List.getElem?_eq_none h'] at hx; cases hx
    rw [getElem?_indices_lt l hn] at hx
    cases hx
    rw [List.drop_eq_getElem_cons hn, lookup_cons', if_neg (fun e => hne e.symm),
      ih (n + 1) (fun k hk1 hk2 => h k (by omega) (by omega))]
    have : n + 1 + d = n + (d + 1) := by omega
    rw [this]

/-! ### one iteration of the `while` loop -/

theorem rowWalk_stop (gCX gC : Bool) (keep : Nat → Nat → V → V → Bool) (i : Nat) (a b : SpVec V)
    (fuel pa pb : Nat) (acc : List (Contribution V)) (h : pa ≥ a.length ∨ pb ≥ b.length) :
    rowWalk gCX gC keep i a b (fuel + 1) pa pb acc = .ok acc := by
  rw [rowWalk, if_pos h]

theorem rowWalk_eq (gCX gC : Bool) (keep : Nat → Nat → V → V → Bool) (i : Nat) (a b : SpVec V)
    (fuel pa pb : Nat) (acc : List (Contribution V)) (h1 : pa < a.length) (h2 : pb < b.length)
    (heq : a[pa].1 = b[pb].1) :
    rowWalk gCX gC keep i a b (fuel + 1) pa pb acc
      = rowWalk gCX gC keep i a b fuel (pa + 1) (pb + 1)
          (if keep i a[pa].1 a[pa].2 b[pb].2 then acc ++ [(i, a[pa].1, a[pa].2, b[pb].2)]
            else acc) := by
  rw [rowWalk, if_neg (by omega)]
  simp only [indexAt_of_lt a h1, indexAt_of_lt b h2, valueAt_of_lt a h1, valueAt_of_lt b h2]
  rw [if_pos heq]

theorem rowWalk_lt (gCX gC : Bool) (keep : Nat → Nat → V → V → Bool) (i : Nat) (a b : SpVec V)
    (fuel pa pb : Nat) (acc : List (Contribution V)) (h1 : pa < a.length) (h2 : pb < b.length)
    (hlt : b[pb].1 < a[pa].1) (pb' : Nat)
    (hadv : advance gCX (indices b) a[pa].1 (b.length + 1) pb = .ok pb') :
    rowWalk gCX gC keep i a b (fuel + 1) pa pb acc = rowWalk gCX gC keep i a b fuel pa pb' acc := by
  rw [rowWalk, if_neg (by omega)]
  simp only [indexAt_of_lt a h1, indexAt_of_lt b h2]
  rw [if_neg (by omega), if_pos hlt, hadv]

theorem rowWalk_gt (gCX gC : Bool) (keep : Nat → Nat → V → V → Bool) (i : Nat) (a b : SpVec V)
    (fuel pa pb : Nat) (acc : List (Contribution V)) (h1 : pa < a.length) (h2 : pb < b.length)
    (hlt : a[pa].1 < b[pb].1) (pa' : Nat)
    (hadv : advance gC (indices a) b[pb].1 (a.length + 1) pa = .ok pa') :
    rowWalk gCX gC keep i a b (fuel + 1) pa pb acc = rowWalk gCX gC keep i a b fuel pa' pb acc := by
  rw [rowWalk, if_neg (by omega)]
  simp only [indexAt_of_lt a h1, indexAt_of_lt b h2]
  rw [if_neg (by omega), if_neg (by omega), hadv]

/-! ### the `while` loop on sorted inner vectors -/

private theorem emit_nil (keep : Nat → Nat → V → V → Bool) (i : Nat) (p : Nat × V) :
    emit keep i [] p = none := by
  simp [emit]

private theorem emit_congr (keep : Nat → Nat → V → V → Bool) (i : Nat) (b b' : SpVec V) (p : Nat × V)
    (h : b.lookup p.1 = b'.lookup p.1) : emit keep i b p = emit keep i b' p := by
  unfold emit; rw [h]

theorem rowWalk_spec (keep : Nat → Nat → V → V → Bool) (i : Nat) (a b : SpVec V)
    (ha : SortedVec a) (hb : SortedVec b) :
    ∀ fuel pa pb acc, pa ≤ a.length → pb ≤ b.length → (a.length - pa) + (b.length - pb) < fuel →
      rowWalk true true keep i a b fuel pa pb acc
        = .ok (acc ++ (a.drop pa).filterMap (emit keep i (b.drop pb))) := by
  have ha' := (sortedVec_iff a).mp ha
  have hb' := (sortedVec_iff b).mp hb
  intro fuel
  induction fuel with
  | zero => intro pa pb acc _ _ h; omega
  | succ fuel ih =>
    intro pa pb acc hpa hpb hm
    by_cases hstop : pa ≥ a.length ∨ pb ≥ b.length
    · rw [rowWalk_stop _ _ _ _ _ _ _ _ _ _ hstop]
      rcases hstop with h | h
      · rw [List.drop_eq_nil_of_le h]; simp
      · rw [List.drop_eq_nil_of_le h]
        have : (a.drop pa).filterMap (emit keep i []) = [] := by
          rw [List.filterMap_eq_nil_iff]; intro p _; exact emit_nil keep i p
        rw [this]; simp
    · have h1 : pa < a.length := by omega
      have h2 : pb < b.length := by omega
      have hda := List.drop_eq_getElem_cons h1
      have hdb := List.drop_eq_getElem_cons h2
      have hsa : ∀ z ∈ a.drop (pa + 1), a[pa].1 < z.1 := by
        have := List.Pairwise.drop (i := pa) ha'
        rw [hda, List.pairwise_cons] at this
        exact this.1
      have hsb : ∀ z ∈ b.drop (pb + 1), b[pb].1 < z.1 := by
        have := List.Pairwise.drop (i := pb) hb'
        rw [hdb, List.pairwise_cons] at this
        exact this.1
      have hxa := getElem?_indices_lt a h1
      have hxb := getElem?_indices_lt b h2
      rcases Nat.lt_trichotomy a[pa].1 b[pb].1 with hlt | heq | hgt
      · -- the row is behind: skip its entries below `b[pb].1`; none of them has a partner
        obtain ⟨pa', hadv, hp1, hp2, hskip, _⟩ :=
          C17.advance_progress (indices a) b[pb].1 pa a[pa].1 hxa hlt
        rw [length_indices] at hadv hp2
        rw [rowWalk_gt true true keep i a b fuel pa pb acc h1 h2 hlt pa' hadv,
          ih pa' pb acc hp2 hpb (by omega)]
        have hd : pa' = pa + (pa' - pa) := by omega
        rw [hd, ← filterMap_drop_skip a _ (pa' - pa) pa]
        intro k hk1 hk2
        obtain ⟨x, hxk, hxlt⟩ := hskip k hk1 (by omega)
        have hk : k < a.length := by omega
        rw [getElem?_indices_lt a hk] at hxk
        cases hxk
        refine ⟨a[k], List.getElem?_eq_getElem hk, ?_⟩
        unfold emit
        rw [lookup_none_of_ne]
        intro q hq
        rw [hdb] at hq
        rcases List.mem_cons.mp hq with rfl | hq
        · omega
        · have := hsb q hq; omega
      · -- common inner index
        rw [rowWalk_eq true true keep i a b fuel pa pb acc h1 h2 heq,
          ih (pa + 1) (pb + 1) _ (by omega) (by omega) (by omega)]
        have hrest : (a.drop (pa + 1)).filterMap (emit keep i (b.drop pb))
            = (a.drop (pa + 1)).filterMap (emit keep i (b.drop (pb + 1))) := by
          apply List.filterMap_congr
          intro z hz
          apply emit_congr
          rw [hdb, lookup_cons', if_neg]
          have := hsa z hz
          omega
        have hhead : emit keep i (b.drop pb) a[pa]
            = if keep i a[pa].1 a[pa].2 b[pb].2 then some (i, a[pa].1, a[pa].2, b[pb].2)
              else none := by
          unfold emit
          rw [hdb, lookup_cons', if_pos heq]
        rw [hda, List.filterMap_cons, hhead, hrest]
        by_cases hk : keep i a[pa].1 a[pa].2 b[pb].2 = true
        · simp only [hk, if_true, List.append_assoc, List.singleton_append]
        · simp only [hk, Bool.false_eq_true, if_false]
      · -- the column is behind: skip its entries below `a[pa].1`; no remaining row entry needs them
        obtain ⟨pb', hadv, hp1, hp2, hskip, _⟩ :=
          C17.advance_progress (indices b) a[pa].1 pb b[pb].1 hxb hgt
        rw [length_indices] at hadv hp2
        rw [rowWalk_lt true true keep i a b fuel pa pb acc h1 h2 hgt pb' hadv,
          ih pa pb' acc hpa hp2 (by omega)]
        congr 2
        apply List.filterMap_congr
        intro z hz
        apply emit_congr
        have hz' : a[pa].1 ≤ z.1 := by
          rw [hda] at hz
          rcases List.mem_cons.mp hz with rfl | hz
          · exact Nat.le_refl _
          · exact Nat.le_of_lt (hsa z hz)
        have hd : pb' = pb + (pb' - pb) := by omega
        rw [hd, ← lookup_drop_skip b z.1 (pb' - pb) pb]
        intro k hk1 hk2
        obtain ⟨x, hxk, hxlt⟩ := hskip k hk1 (by omega)
        exact ⟨x, hxk, by omega⟩

/-- one pass of the `while` loop over a sorted row and a sorted column emits exactly the entries of the
row that have a partner in the column (and pass the test), in the order of the row -/
theorem rowWalk_rowSpec (keep : Nat → Nat → V → V → Bool) (i : Nat) (a b : SpVec V)
    (ha : SortedVec a) (hb : SortedVec b) (acc : List (Contribution V)) :
    rowWalk true true keep i a b (a.length + b.length + 1) 0 0 acc
      = .ok (acc ++ rowSpec keep i a b) := by
  rw [rowWalk_spec keep i a b ha hb _ 0 0 acc (Nat.zero_le _) (Nat.zero_le _) (by omega)]
  rfl

/-! ### agreement with the index-only model of `Model/Chase.lean` -/

theorem lookup_eq_none_iff_not_mem (b : SpVec V) (k : Nat) :
    b.lookup k = none ↔ k ∉ indices b := by
  rw [List.lookup_eq_none_iff]
  unfold indices
  rw [List.mem_map]
  constructor
  · rintro h ⟨q, hq, rfl⟩
    have := h q hq
    simp at this
  · intro h q hq
    rw [bne_iff_ne]
    intro e
    exact h ⟨q, hq, e.symm⟩

/-- without a test, the inner indices at which contributions are emitted for one row are the common
inner indices of the row and the column -/
theorem rowSpec_indices (i : Nat) (a b : SpVec V) :
    (rowSpec (fun _ _ _ _ => true) i a b).map (fun x => x.2.1)
      = (indices a).filter (fun k => decide (k ∈ indices b)) := by
  unfold rowSpec
  induction a with
  | nil => rfl
  | cons p a ih =>
    have hi : indices (p :: a) = p.1 :: indices a := rfl
    rw [hi, List.filter_cons]
    cases hl : b.lookup p.1 with
    | none =>
      have hn : emit (fun _ _ _ _ => true) i b p = none := by unfold emit; rw [hl]
      rw [List.filterMap_cons_none hn, ih, if_neg]
      rw [decide_eq_true_iff]
      exact (lookup_eq_none_iff_not_mem b p.1).mp hl
    | some cx =>
      have hs : emit (fun _ _ _ _ => true) i b p = some (i, p.1, p.2, cx) := by
        unfold emit; rw [hl]; rfl
      have hm : p.1 ∈ indices b := by
        by_contra h
        rw [← lookup_eq_none_iff_not_mem, hl] at h
        cases h
      rw [List.filterMap_cons_some hs, List.map_cons, ih, if_pos (decide_eq_true hm)]

/-- THE TWO MODELS AGREE: on sorted inner vectors the index-only merge walk of `Model/Chase.lean`
(whose memory safety and correctness is property C17) returns exactly the inner indices at which the
walk with values emits its contributions -/
theorem rowWalk_agrees_with_chase (i : Nat) (a b : SpVec V) (ha : SortedVec a) (hb : SortedVec b) :
    ∃ l, rowWalk true true (fun _ _ _ _ => true) i a b (a.length + b.length + 1) 0 0 [] = .ok l ∧
      commonIndices true (indices a) (indices b) = .ok (l.map fun x => x.2.1) := by
  refine ⟨_, rowWalk_rowSpec _ i a b ha hb [], ?_⟩
  rw [List.nil_append, rowSpec_indices, C17.merge_walk_common _ _ ha hb]

/-! ### the double loop -/

theorem outerLoop_spec (keep : Nat → Nat → V → V → Bool) (C CX : SpMat V)
    (hC : ∀ r ∈ C, SortedVec r) (hCX : ∀ r ∈ CX, SortedVec r) :
    ∀ n i acc, i + n ≤ C.length → i + n ≤ CX.length →
      outerLoop true true keep C CX n i acc
        = .ok (acc ++ (List.range' i n).flatMap fun j =>
            rowSpec keep j (C[j]?.getD []) (CX[j]?.getD [])) := by
  intro n
  induction n with
  | zero => intro i acc _ _; simp [outerLoop]
  | succ n ih =>
    intro i acc h1 h2
    have hi1 : i < C.length := by omega
    have hi2 : i < CX.length := by omega
    rw [outerLoop, List.getElem?_eq_getElem hi1, List.getElem?_eq_getElem hi2]
    dsimp only
    rw [rowWalk_rowSpec keep i C[i] CX[i] (hC _ (List.getElem_mem hi1))
      (hCX _ (List.getElem_mem hi2)) acc]
    dsimp only
    rw [ih (i + 1) _ (by omega) (by omega), List.range'_succ, List.flatMap_cons,
      List.getElem?_eq_getElem hi1, List.getElem?_eq_getElem hi2, List.append_assoc]
    rfl

/-- **A.1.**  For sorted (strictly increasing, hence duplicate-free) inner index lists the double loop
of `GreensFunctionPart::compute` never fails and the contributions it emits are, as a LIST,

  `for index1 in 0 … outerSize-1, for (k, c) in row index1 of C (in storage order):`
  `   if column index1 of CX stores an entry (k, cx) and keep index1 k c cx: (index1, k, c, cx)`.

`C.length ≤ CX.length`: the column-major block of `CX` has at least as many columns as the row-major
block of `C` has rows (in the library both are the dimension of the outer block). -/
theorem gfpart_contributions (keep : Nat → Nat → V → V → Bool) (C CX : SpMat V)
    (hC : ∀ r ∈ C, SortedVec r) (hCX : ∀ r ∈ CX, SortedVec r) (hlen : C.length ≤ CX.length) :
    compute true true keep C CX = .ok (computeSpec keep C CX) := by
  unfold compute computeSpec
  rw [outerLoop_spec keep C CX hC hCX C.length 0 [] (by omega) (by omega), List.range_eq_range']
  simp

/-- the flags extracted from the source are the guarded ones, hence the same holds for the loop as the
source has it -/
theorem gfpart_contributions_source (keep : Nat → Nat → V → V → Bool) (C CX : SpMat V)
    (hC : ∀ r ∈ C, SortedVec r) (hCX : ∀ r ∈ CX, SortedVec r) (hlen : C.length ≤ CX.length) :
    computeSource keep C CX = .ok (computeSpec keep C CX) := by
  have h1 : sourceGuardCX = true := by decide
  have h2 : sourceGuardC = true := by decide
  unfold computeSource
  rw [h1, h2]
  exact gfpart_contributions keep C CX hC hCX hlen

/-! ### the specification list determines "which pairs, once each, in which order" -/

theorem lookup_eq_some_iff_mem (l : SpVec V) (hl : SortedVec l) (k : Nat) (v : V) :
    l.lookup k = some v ↔ (k, v) ∈ l := by
  rw [sortedVec_iff] at hl
  induction l with
  | nil => simp
  | cons q l ih =>
    obtain ⟨hq, hl'⟩ := List.pairwise_cons.mp hl
    rw [lookup_cons', List.mem_cons]
    by_cases hk : k = q.1
    · rw [if_pos hk]
      constructor
      · intro h
        left
        obtain ⟨q1, q2⟩ := q
        simp only [Option.some.injEq] at h
        simp only at hk
        rw [hk, h]
      · rintro (h | h)
        · rw [← h]
        · have := hq _ h
          simp only at this
          omega
    · rw [if_neg hk, ih hl']
      constructor
      · exact Or.inr
      · rintro (h | h)
        · exact absurd (by rw [← h]) hk
        · exact h

/-- membership in the emitted list: `(index1, k, c, cx)` is emitted iff row `index1` of `C` stores
`(k, c)`, column `index1` of `CX` stores `(k, cx)`, and the test passes -/
theorem mem_computeSpec (keep : Nat → Nat → V → V → Bool) (C CX : SpMat V)
    (hCX : ∀ r ∈ CX, SortedVec r) (hlen : C.length ≤ CX.length) (i k : Nat) (c cx : V) :
    (i, k, c, cx) ∈ computeSpec keep C CX ↔
      ∃ a b, C[i]? = some a ∧ CX[i]? = some b ∧ (k, c) ∈ a ∧ (k, cx) ∈ b ∧ keep i k c cx = true := by
  unfold computeSpec rowSpec
  simp only [List.mem_flatMap, List.mem_range, List.mem_filterMap]
  constructor
  · rintro ⟨j, hj, p, hp, he⟩
    have hj2 : j < CX.length := by omega
    rw [List.getElem?_eq_getElem hj, Option.getD_some] at hp
    rw [List.getElem?_eq_getElem hj2, Option.getD_some] at he
    unfold emit at he
    cases hlk : List.lookup p.1 CX[j] with
    | none => rw [hlk] at he; cases he
    | some cx' =>
      rw [hlk] at he
      dsimp only at he
      split_ifs at he with hkeep
      simp only [Option.some.injEq, Prod.mk.injEq] at he
      obtain ⟨rfl, rfl, rfl, rfl⟩ := he
      exact ⟨C[j], CX[j], List.getElem?_eq_getElem hj, List.getElem?_eq_getElem hj2, hp,
        (lookup_eq_some_iff_mem _ (hCX _ (List.getElem_mem hj2)) _ _).mp hlk, hkeep⟩
  · rintro ⟨a, b, ha, hb, hka, hkb, hkeep⟩
    have hi : i < C.length := by
      rcases Nat.lt_or_ge i C.length with h | h
      · exact h
      · rw [List.getElem?_eq_none h] at ha; cases ha
    refine ⟨i, hi, (k, c), by rw [ha]; exact hka, ?_⟩
    rw [hb, Option.getD_some]
    unfold emit
    have hbs : SortedVec b := hCX b (List.mem_of_getElem? hb)
    rw [(lookup_eq_some_iff_mem b hbs k cx).mpr hkb]
    dsimp only
    rw [if_pos hkeep]

/-- the emitted list is strictly increasing in the lexicographic order of `(index1, index2)`: every
pair occurs at most once, and the order is row by row, by increasing inner index -/
theorem computeSpec_sorted (keep : Nat → Nat → V → V → Bool) (C CX : SpMat V)
    (hC : ∀ r ∈ C, SortedVec r) :
    (computeSpec keep C CX).Pairwise
      (fun p q => p.1 < q.1 ∨ (p.1 = q.1 ∧ p.2.1 < q.2.1)) := by
  unfold computeSpec
  rw [List.pairwise_flatMap]
  constructor
  · intro i hi
    rw [List.mem_range] at hi
    rw [List.getElem?_eq_getElem hi, Option.getD_some]
    have hs := (sortedVec_iff _).mp (hC _ (List.getElem_mem hi))
    unfold rowSpec
    refine List.Pairwise.filterMap _ ?_ hs
    intro p q hpq x hx y hy
    right
    unfold emit at hx hy
    split at hx
    · split_ifs at hx
      cases hx
      split at hy
      · split_ifs at hy
        cases hy
        exact ⟨rfl, hpq⟩
      · cases hy
    · cases hx
  · refine List.Pairwise.imp ?_ List.pairwise_lt_range
    intro i j hij x hx y hy
    left
    unfold rowSpec at hx hy
    obtain ⟨p, _, hp⟩ := List.mem_filterMap.mp hx
    obtain ⟨q, _, hq⟩ := List.mem_filterMap.mp hy
    unfold emit at hp hq
    split at hp
    · split_ifs at hp
      cases hp
      split at hq
      · split_ifs at hq
        cases hq
        exact hij
      · cases hq
    · cases hp

end Walk

/-! ## A.2: walking the sparse rows loses nothing and adds nothing -/

section Sum
variable {α β : Type} [Zero α] [AddCommMonoid β] {N M : ℕ}

/-- `rows` is a compressed row-major representation of the `N × M` matrix `A`: one inner vector per
row, inner indices strictly increasing and below `M`, every stored entry equals the matrix entry,
every entry that is not stored is zero.  (Stored zeros are allowed.) -/
structure RepresentsRows (rows : SpMat α) (A : Matrix (Fin N) (Fin M) α) : Prop where
  len : rows.length = N
  sorted : ∀ r ∈ rows, SortedVec r
  bound : ∀ r ∈ rows, ∀ p ∈ r, p.1 < M
  stored : ∀ (i : Fin N) (j : Fin M) (v : α), (j.1, v) ∈ rows[i.1]?.getD [] → v = A i j
  notStored : ∀ (i : Fin N) (j : Fin M), (∀ v, (j.1, v) ∉ rows[i.1]?.getD []) → A i j = 0

/-- `cols` is a compressed column-major representation of the `M × N` matrix `A`: one inner vector per
column -/
def RepresentsCols (cols : SpMat α) (A : Matrix (Fin M) (Fin N) α) : Prop :=
  RepresentsRows cols A.transpose

theorem RepresentsRows.lookup {rows : SpMat α} {A : Matrix (Fin N) (Fin M) α}
    (h : RepresentsRows rows A) (i : Fin N) (j : Fin M) :
    (rows[i.1]?.getD []).lookup j.1 = some (A i j) ∨
      ((rows[i.1]?.getD []).lookup j.1 = none ∧ A i j = 0) := by
  have hi : i.1 < rows.length := by rw [h.len]; exact i.2
  have hs : SortedVec (rows[i.1]?.getD []) := by
    rw [List.getElem?_eq_getElem hi, Option.getD_some]
    exact h.sorted _ (List.getElem_mem hi)
  cases hl : (rows[i.1]?.getD []).lookup j.1 with
  | some v =>
    left
    rw [h.stored i j v ((lookup_eq_some_iff_mem _ hs _ _).mp hl)]
  | none =>
    right
    refine ⟨rfl, h.notStored i j fun v hv => ?_⟩
    rw [← lookup_eq_some_iff_mem _ hs, hl] at hv
    cases hv

/-- the empty compressed matrix represents the zero matrix -/
theorem representsRows_zero (N M : ℕ) :
    RepresentsRows (List.replicate N ([] : SpVec α)) (0 : Matrix (Fin N) (Fin M) α) where
  len := List.length_replicate
  sorted := by
    intro r hr
    rw [List.eq_of_mem_replicate hr]
    exact List.Pairwise.nil
  bound := by
    intro r hr p hp
    rw [List.eq_of_mem_replicate hr] at hp
    cases hp
  stored := by
    intro i j v hv
    rw [List.getElem?_replicate] at hv
    split_ifs at hv <;> simp at hv
  notStored := fun _ _ _ => rfl

/-- a `1 × 1` matrix with its entry stored -/
theorem representsRows_single (v : α) :
    RepresentsRows [[(0, v)]] (fun _ _ => v : Matrix (Fin 1) (Fin 1) α) where
  len := rfl
  sorted := by
    intro r hr
    rw [List.mem_singleton] at hr
    subst hr
    exact (sortedVec_iff _).mpr (List.pairwise_singleton _ _)
  bound := by
    intro r hr p hp
    rw [List.mem_singleton] at hr
    subst hr
    rw [List.mem_singleton] at hp
    subst hp
    exact Nat.zero_lt_one
  stored := by
    intro i j w hw
    fin_cases i
    simpa using hw
  notStored := by
    intro i j h
    fin_cases i; fin_cases j
    exact absurd (by simp) (h v)
private theorem sum_filterMap {γ δ : Type} (l : List γ) (φ : γ → Option δ) (ψ : δ → β) :
    ((l.filterMap φ).map ψ).sum = (l.map fun x => (φ x).elim 0 ψ).sum := by
  induction l with
  | nil => simp
  | cons x l ih =>
    cases hx : φ x with
    | none => rw [List.filterMap_cons_none hx, ih]; simp [hx]
    | some y => rw [List.filterMap_cons_some hx]; simp [hx, ih]

private theorem sum_flatMap {γ δ : Type} (l : List γ) (g : γ → List δ) (ψ : δ → β) :
    ((l.flatMap g).map ψ).sum = (l.map fun x => ((g x).map ψ).sum).sum := by
  induction l with
  | nil => simp
  | cons x l ih => simp [List.flatMap_cons, ih]

private theorem sum_range_eq_sum_fin (h : ℕ → β) (n : ℕ) :
    ((List.range n).map h).sum = ∑ i : Fin n, h i.1 := by
  induction n with
  | zero => simp
  | succ n ih => rw [List.sum_range_succ, ih, Fin.sum_univ_castSucc]; simp

omit [Zero α] in
/-- summing over the stored entries of a sorted inner vector = summing over ALL inner indices, with
`0` where nothing is stored -/
theorem sum_map_lookup (a : SpVec α) (ha : SortedVec a) (hM : ∀ p ∈ a, p.1 < M) (h : ℕ → α → β) :
    (a.map fun p => h p.1 p.2).sum = ∑ j : Fin M, (a.lookup j.1).elim 0 (h j.1) := by
  rw [sortedVec_iff] at ha
  induction a with
  | nil => simp
  | cons q a ih =>
    obtain ⟨hq, ha'⟩ := List.pairwise_cons.mp ha
    have hqM : q.1 < M := hM q List.mem_cons_self
    rw [List.map_cons, List.sum_cons, ih ha' (fun p hp => hM p (List.mem_cons_of_mem _ hp))]
    have hpt : ∀ j : Fin M, ((q :: a).lookup j.1).elim 0 (h j.1)
        = (if j = ⟨q.1, hqM⟩ then h q.1 q.2 else 0) + (a.lookup j.1).elim 0 (h j.1) := by
      intro j
      rw [lookup_cons']
      by_cases hj : j.1 = q.1
      · have hj' : j = ⟨q.1, hqM⟩ := Fin.ext hj
        rw [if_pos hj, if_pos hj']
        have : a.lookup j.1 = none := by
          apply lookup_none_of_ne
          intro p hp
          have := hq p hp
          omega
        rw [this, hj]
        simp
      · have hj' : ¬ j = ⟨q.1, hqM⟩ := fun e => hj (by rw [e])
        rw [if_neg hj, if_neg hj', zero_add]
    rw [Finset.sum_congr rfl (fun j _ => hpt j), Finset.sum_add_distrib, Finset.sum_ite_eq']
    simp

/-- the summand with the test built in -/
def kept (keep : ℕ → ℕ → α → α → Bool) (f : ℕ → ℕ → α → α → β) : ℕ → ℕ → α → α → β :=
  fun i k c cx => if keep i k c cx then f i k c cx else 0

omit [Zero α] in
private theorem emit_elim (keep : ℕ → ℕ → α → α → Bool) (f : ℕ → ℕ → α → α → β) (i : ℕ)
    (b : SpVec α) (p : ℕ × α) :
    (emit keep i b p).elim 0 (fun x : Contribution α => f x.1 x.2.1 x.2.2.1 x.2.2.2)
      = (b.lookup p.1).elim 0 (kept keep f i p.1 p.2) := by
  unfold emit kept
  cases b.lookup p.1 with
  | none => rfl
  | some cx =>
    dsimp only [Option.elim]
    split_ifs <;> rfl

omit [Zero α] in
/-- one row: the sum over the contributions emitted for row `i` is the sum over ALL inner indices -/
theorem sum_rowSpec (keep : ℕ → ℕ → α → α → Bool) (f : ℕ → ℕ → α → α → β) (i : ℕ) (a b : SpVec α)
    (ha : SortedVec a) (hM : ∀ p ∈ a, p.1 < M) :
    ((rowSpec keep i a b).map fun x => f x.1 x.2.1 x.2.2.1 x.2.2.2).sum
      = ∑ j : Fin M, (a.lookup j.1).elim 0
          (fun c => (b.lookup j.1).elim 0 (kept keep f i j.1 c)) := by
  unfold rowSpec
  rw [sum_filterMap]
  simp only [emit_elim]
  exact sum_map_lookup a ha hM (fun k c => (b.lookup k).elim 0 (kept keep f i k c))

/-- the sum over the specification list -/
theorem sum_computeSpec (keep : ℕ → ℕ → α → α → Bool) (f : ℕ → ℕ → α → α → β)
    (hf1 : ∀ i k x, f i k 0 x = 0) (hf2 : ∀ i k x, f i k x 0 = 0)
    {Cs CXs : SpMat α} {C : Matrix (Fin N) (Fin M) α} {CX : Matrix (Fin M) (Fin N) α}
    (hC : RepresentsRows Cs C) (hCX : RepresentsCols CXs CX) :
    ((computeSpec keep Cs CXs).map fun x => f x.1 x.2.1 x.2.2.1 x.2.2.2).sum
      = ∑ i : Fin N, ∑ j : Fin M, kept keep f i.1 j.1 (C i j) (CX j i) := by
  unfold computeSpec
  rw [sum_flatMap, hC.len, sum_range_eq_sum_fin]
  refine Finset.sum_congr rfl fun i _ => ?_
  have hi : i.1 < Cs.length := by rw [hC.len]; exact i.2
  have hs : SortedVec (Cs[i.1]?.getD []) := by
    rw [List.getElem?_eq_getElem hi, Option.getD_some]
    exact hC.sorted _ (List.getElem_mem hi)
  have hb : ∀ p ∈ Cs[i.1]?.getD [], p.1 < M := by
    rw [List.getElem?_eq_getElem hi, Option.getD_some]
    exact hC.bound _ (List.getElem_mem hi)
  rw [sum_rowSpec keep f i.1 _ _ hs hb]
  refine Finset.sum_congr rfl fun j _ => ?_
  have k1 : ∀ x, kept keep f i.1 j.1 0 x = 0 := fun x => by unfold kept; rw [hf1]; simp
  have k2 : ∀ x, kept keep f i.1 j.1 x 0 = 0 := fun x => by unfold kept; rw [hf2]; simp
  rcases hC.lookup i j with h1 | ⟨h1, h1'⟩
  · rw [h1]
    rcases RepresentsRows.lookup hCX i j with h2 | ⟨h2, h2'⟩
    · rw [h2]; rfl
    · rw [h2]
      have : CX j i = 0 := h2'
      rw [this, k2]; rfl
  · rw [h1, h1', k1]; rfl

/-- **A.2 with the test.**  If the two compressed matrices represent `C` (`N × M`, row-major) and `CX`
(`M × N`, column-major), then the double loop succeeds and, for every summand `f index1 index2 c cx`
that vanishes when one of the two matrix elements is zero, the sum of `f` over the contributions
emitted equals the sum over ALL pairs `(index1, index2)` of `f` at the matrix elements
`C index1 index2`, `CX index2 index1` -- restricted to the pairs that pass the test `keep`. -/
theorem gfpart_sum_kept (keep : ℕ → ℕ → α → α → Bool) (f : ℕ → ℕ → α → α → β)
    (hf1 : ∀ i k x, f i k 0 x = 0) (hf2 : ∀ i k x, f i k x 0 = 0)
    {Cs CXs : SpMat α} {C : Matrix (Fin N) (Fin M) α} {CX : Matrix (Fin M) (Fin N) α}
    (hC : RepresentsRows Cs C) (hCX : RepresentsCols CXs CX) :
    ∃ l, compute true true keep Cs CXs = .ok l ∧
      (l.map fun x => f x.1 x.2.1 x.2.2.1 x.2.2.2).sum
        = ∑ i : Fin N, ∑ j : Fin M,
            if keep i.1 j.1 (C i j) (CX j i) then f i.1 j.1 (C i j) (CX j i) else 0 :=
  ⟨_, gfpart_contributions keep Cs CXs hC.sorted hCX.sorted (by rw [hC.len, hCX.len]),
    sum_computeSpec keep f hf1 hf2 hC hCX⟩

/-- **A.2: WALKING THE SPARSE ROWS LOSES NOTHING AND ADDS NOTHING.**  Without a test (every coinciding
pair of inner indices produces a contribution): the sum of `f` over the contributions emitted by the
double loop equals `∑ index1, ∑ index2, f index1 index2 (C index1 index2) (CX index2 index1)`. -/
theorem gfpart_sum_eq_matrix_sum (f : ℕ → ℕ → α → α → β)
    (hf1 : ∀ i k x, f i k 0 x = 0) (hf2 : ∀ i k x, f i k x 0 = 0)
    {Cs CXs : SpMat α} {C : Matrix (Fin N) (Fin M) α} {CX : Matrix (Fin M) (Fin N) α}
    (hC : RepresentsRows Cs C) (hCX : RepresentsCols CXs CX) :
    ∃ l, compute true true (fun _ _ _ _ => true) Cs CXs = .ok l ∧
      (l.map fun x => f x.1 x.2.1 x.2.2.1 x.2.2.2).sum
        = ∑ i : Fin N, ∑ j : Fin M, f i.1 j.1 (C i j) (CX j i) := by
  obtain ⟨l, h1, h2⟩ := gfpart_sum_kept (fun _ _ _ _ => true) f hf1 hf2 hC hCX
  exact ⟨l, h1, by simpa using h2⟩

/-- the part of the full sum that the test removes is explicit: (sum over the contributions emitted
with the test) + (sum over all pairs failing the test) = full sum -/
theorem gfpart_sum_kept_add_dropped (keep : ℕ → ℕ → α → α → Bool) (f : ℕ → ℕ → α → α → β)
    (hf1 : ∀ i k x, f i k 0 x = 0) (hf2 : ∀ i k x, f i k x 0 = 0)
    {Cs CXs : SpMat α} {C : Matrix (Fin N) (Fin M) α} {CX : Matrix (Fin M) (Fin N) α}
    (hC : RepresentsRows Cs C) (hCX : RepresentsCols CXs CX) :
    ∃ l, compute true true keep Cs CXs = .ok l ∧
      (l.map fun x => f x.1 x.2.1 x.2.2.1 x.2.2.2).sum
        + (∑ i : Fin N, ∑ j : Fin M,
            if keep i.1 j.1 (C i j) (CX j i) then 0 else f i.1 j.1 (C i j) (CX j i))
        = ∑ i : Fin N, ∑ j : Fin M, f i.1 j.1 (C i j) (CX j i) := by
  obtain ⟨l, h1, h2⟩ := gfpart_sum_kept keep f hf1 hf2 hC hCX
  refine ⟨l, h1, ?_⟩
  rw [h2, ← Finset.sum_add_distrib]
  refine Finset.sum_congr rfl fun i _ => ?_
  rw [← Finset.sum_add_distrib]
  refine Finset.sum_congr rfl fun j _ => ?_
  split_ifs <;> simp

end Sum

/-! ## A.3: the loop of one part computes the block-pair part of the Lehmann sum -/

section Lehmann
open Pomerol.Model.TermList
variable {N M : ℕ}

/-- a table indexed by the states of a block, as the `getWeight(n)` / `getEigenValue(n)` accessors see
it (extended by zero outside the block; the loop never asks there) -/
def natExt {n : ℕ} (v : Fin n → ℝ) : ℕ → ℝ := fun k => if h : k < n then v ⟨k, h⟩ else 0

@[simp] theorem natExt_val {n : ℕ} (v : Fin n → ℝ) (i : Fin n) : natExt v i.1 = v i := by
  simp [natExt]

/-- the value of a stored term at the complex frequency `z` (extracted `Term::operator()`) -/
noncomputable def termValue (z : ℂ) (t : Term ℂ ℝ) : ℂ := Gen.GF.termFreq t.res t.pole z

/-- THE BLOCK-PAIR PART OF THE LEHMANN SUM: outer block with `N` states (weights `wO`, energies `EO`),
inner block with `M` states (`wI`, `EI`), `C` the `N × M` block `<outer|c|inner>`, `CX` the `M × N`
block `<inner|c†|outer>`; summed over ALL pairs of states with the extracted formulas. -/
noncomputable def blockPart (wO EO : Fin N → ℝ) (wI EI : Fin M → ℝ) (C : Matrix (Fin N) (Fin M) ℂ)
    (CX : Matrix (Fin M) (Fin N) ℂ) (z : ℂ) : ℂ :=
  ∑ i : Fin N, ∑ j : Fin M, Gen.GF.termFreq (Gen.GF.residue (C i j) (CX j i) (wO i) (wI j))
    (Gen.GF.pole (EI j) (EO i)) z

private theorem term_zero_left (x : ℂ) (wo wi ei eo : ℝ) (z : ℂ) :
    Gen.GF.termFreq (Gen.GF.residue 0 x wo wi) (Gen.GF.pole ei eo) z = 0 := by
  rw [Bridge.gf_term]; simp

private theorem term_zero_right (x : ℂ) (wo wi ei eo : ℝ) (z : ℂ) :
    Gen.GF.termFreq (Gen.GF.residue x 0 wo wi) (Gen.GF.pole ei eo) z = 0 := by
  rw [Bridge.gf_term]; simp

/-- **A.3 with the residue filter as in the source.**  For one block pair, with the compressed blocks
representing `C` and `CX`: `GreensFunctionPart::compute` (model `computeTerms`: the double loop, the
extracted `Residue`, `Pole` formulas and the extracted test `abs(Residue) > tol`) succeeds, and the
values of the terms it hands to the term container, PLUS the values of the terms of all pairs of states
whose residue fails the test (each of them has `|Residue| ≤ tol`), add up to the block-pair part of the
Lehmann sum, at every complex `z`. -/
theorem part_loop_refines_lehmann_filtered (wO EO : Fin N → ℝ) (wI EI : Fin M → ℝ)
    {C : Matrix (Fin N) (Fin M) ℂ} {CX : Matrix (Fin M) (Fin N) ℂ} {Cs CXs : SpMat ℂ}
    (hC : RepresentsRows Cs C) (hCX : RepresentsCols CXs CX) (tol : ℝ) (z : ℂ) :
    ∃ ts, computeTerms true true (natExt wO) (natExt wI) (natExt EO) (natExt EI) tol Cs CXs = .ok ts ∧
      (ts.map (termValue z)).sum
        + (∑ i : Fin N, ∑ j : Fin M,
            if Gen.GF.residueKept (Gen.GF.residue (C i j) (CX j i) (wO i) (wI j)) tol then 0
            else Gen.GF.termFreq (Gen.GF.residue (C i j) (CX j i) (wO i) (wI j))
              (Gen.GF.pole (EI j) (EO i)) z)
        = blockPart wO EO wI EI C CX z := by
  obtain ⟨l, h1, h2⟩ := gfpart_sum_kept_add_dropped
    (keepResidue (natExt wO) (natExt wI) tol)
    (fun i k c cx => Gen.GF.termFreq (Gen.GF.residue c cx (natExt wO i) (natExt wI k))
      (Gen.GF.pole (natExt EI k) (natExt EO i)) z)
    (fun i k x => term_zero_left x _ _ _ _ z) (fun i k x => term_zero_right x _ _ _ _ z) hC hCX
  refine ⟨l.map (toTerm (natExt wO) (natExt wI) (natExt EO) (natExt EI)), ?_, ?_⟩
  · unfold computeTerms; rw [h1]
  · rw [List.map_map]
    simp only [keepResidue, natExt_val] at h2
    exact h2

/-- **A.3: THE LOOP OF ONE PART REFINES THE BLOCK-PAIR PART OF THE LEHMANN SUM** (residue filter
idealised to "keep everything": any negative tolerance, since `abs(Residue) ≥ 0 > tol`).  The values of
the terms produced by the modelled `GreensFunctionPart::compute` for one block pair add up to the sum
over ALL pairs (outer state, inner state) of the extracted term formula. -/
theorem part_loop_refines_lehmann (wO EO : Fin N → ℝ) (wI EI : Fin M → ℝ)
    {C : Matrix (Fin N) (Fin M) ℂ} {CX : Matrix (Fin M) (Fin N) ℂ} {Cs CXs : SpMat ℂ}
    (hC : RepresentsRows Cs C) (hCX : RepresentsCols CXs CX) (tol : ℝ) (htol : tol < 0) (z : ℂ) :
    ∃ ts, computeTerms true true (natExt wO) (natExt wI) (natExt EO) (natExt EI) tol Cs CXs = .ok ts ∧
      (ts.map (termValue z)).sum = blockPart wO EO wI EI C CX z := by
  obtain ⟨ts, h1, h2⟩ := part_loop_refines_lehmann_filtered wO EO wI EI hC hCX tol z
  refine ⟨ts, h1, ?_⟩
  rw [← h2]
  have : ∀ r : ℂ, Gen.GF.residueKept r tol = true := fun r => by
    rw [Bridge.gf_residueKept]; exact lt_of_lt_of_le htol (norm_nonneg r)
  simp [this]

/-- every term the filter removes has `|Residue| ≤ tol` -/
theorem filtered_residue_small (r : ℂ) (tol : ℝ) (h : ¬ Gen.GF.residueKept r tol = true) :
    ‖r‖ ≤ tol := by
  rw [Bridge.gf_residueKept] at h
  exact not_lt.mp h

/-- The whole eigenbasis as ONE block (`N` states, `C`, `CX` the full `N × N` matrices): the loop
computes the Lehmann sum `d.lehmannG C CX z` of `Spec/Lehmann.lean`, which is the definition of the
Green's function (`Bridge.gf_equals_definition`). -/
theorem one_block_loop_refines_lehmann (d : EigenData (Fin N)) {C CX : Matrix (Fin N) (Fin N) ℂ}
    {Cs CXs : SpMat ℂ} (hC : RepresentsRows Cs C) (hCX : RepresentsCols CXs CX)
    (tol : ℝ) (htol : tol < 0) (z : ℂ) :
    ∃ ts, computeTerms true true (natExt d.w) (natExt d.w) (natExt d.E) (natExt d.E) tol Cs CXs
        = .ok ts ∧ (ts.map (termValue z)).sum = d.lehmannG C CX z := by
  obtain ⟨ts, h1, h2⟩ := part_loop_refines_lehmann d.w d.E d.w d.E hC hCX tol htol z
  exact ⟨ts, h1, by rw [h2]; exact Bridge.gf_sum d C CX z⟩

end Lehmann

/-! ## B: the block pairs selected by `GreensFunction::prepare` -/

section Prepare

/-- the left view of a bimap: ordered by the left index, every left index at most once -/
def SortedByLeft (c : List (ℕ × ℕ)) : Prop := c.Pairwise fun p q => p.1 < q.1

/-- the right view of a bimap: ordered by the right index, every right index at most once -/
def SortedByRight (cx : List (ℕ × ℕ)) : Prop := cx.Pairwise fun p q => p.2 < q.2

instance (c : List (ℕ × ℕ)) : Decidable (SortedByLeft c) := by
  unfold SortedByLeft; infer_instance

instance (c : List (ℕ × ℕ)) : Decidable (SortedByRight c) := by
  unfold SortedByRight; infer_instance

/-- the block pairs `(L, R)` for which a part has to be created: `<L|c|R>` is a non-trivial block of
`C`, `<R|c†|L>` is a non-trivial block of `CX`, and one of `L`, `R` is retained -- in the order of the
left view of `C` -/
def selected (retained : ℕ → Bool) (c cx : List (ℕ × ℕ)) : List (ℕ × ℕ) :=
  c.filter fun p => decide ((p.2, p.1) ∈ cx) && (retained p.1 || retained p.2)

private theorem selected_congr (retained : ℕ → Bool) (c cx cx' : List (ℕ × ℕ))
    (h : ∀ p ∈ c, (p.2, p.1) ∈ cx ↔ (p.2, p.1) ∈ cx') :
    selected retained c cx = selected retained c cx' := by
  unfold selected
  apply List.filter_congr
  intro p hp
  rw [decide_eq_decide.mpr (h p hp)]

private theorem selected_cons_not (retained : ℕ → Bool) (p : ℕ × ℕ) (c cx : List (ℕ × ℕ))
    (h : (p.2, p.1) ∉ cx) : selected retained (p :: c) cx = selected retained c cx := by
  unfold selected
  rw [List.filter_cons, if_neg]
  simp [h]

theorem prepareWalk_spec (retained : ℕ → Bool) :
    ∀ fuel c cx, SortedByLeft c → SortedByRight cx → c.length + cx.length < fuel →
      prepareWalk retained fuel c cx = .ok (selected retained c cx) := by
  intro fuel
  induction fuel with
  | zero => intro c cx _ _ h; omega
  | succ fuel ih =>
    intro c cx hc hcx hf
    cases c with
    | nil => simp [prepareWalk, selected]
    | cons p c =>
      cases cx with
      | nil => simp [prepareWalk, selected]
      | cons q cx =>
        obtain ⟨cl, cr⟩ := p
        obtain ⟨cxl, cxr⟩ := q
        obtain ⟨hp, hc'⟩ := List.pairwise_cons.mp hc
        obtain ⟨hq, hcx'⟩ := List.pairwise_cons.mp hcx
        simp only [List.length_cons] at hf
        rw [prepareWalk]
        rcases Nat.lt_trichotomy cl cxr with hlt | heq | hgt
        · -- Cleft < CXright: only Citer advances; (cl, cr) has no partner
          rw [if_pos (Nat.le_of_lt hlt), if_neg (by omega : ¬ cl ≥ cxr),
            ih c ((cxl, cxr) :: cx) hc' hcx (by simp only [List.length_cons]; omega)]
          rw [if_neg (by omega : ¬ (cl = cxr ∧ cr = cxl))]
          rw [selected_cons_not]
          · rfl
          · intro hm
            rcases List.mem_cons.mp hm with h | h
            · simp only [Prod.mk.injEq] at h; omega
            · have := hq _ h; simp only at this; omega
        · -- Cleft = CXright: both advance
          subst heq
          rw [if_pos (Nat.le_refl _), if_pos (Nat.le_refl _),
            ih c cx hc' hcx' (by omega)]
          have hrest : selected retained c ((cxl, cl) :: cx) = selected retained c cx := by
            apply selected_congr
            intro p' hp'
            have := hp p' hp'
            simp only at this
            rw [List.mem_cons]
            constructor
            · rintro (h | h)
              · simp only [Prod.mk.injEq] at h; omega
              · exact h
            · exact Or.inr
          have hnot : (cr, cl) ∉ cx := by
            intro h
            have := hq _ h; simp only at this; omega
          unfold selected at hrest ⊢
          rw [List.filter_cons, hrest]
          by_cases hcr : cr = cxl
          · subst hcr
            simp only [true_and, List.mem_cons, true_or, decide_true, Bool.true_and]
            split_ifs <;> rfl
          · have : ¬ (cr, cl) ∈ (cxl, cl) :: cx := by
              intro h
              rcases List.mem_cons.mp h with h | h
              · simp only [Prod.mk.injEq] at h; exact hcr h.1
              · exact hnot h
            simp only [hcr, and_false, if_false, this, decide_false, Bool.false_and,
              Bool.false_eq_true, List.nil_append]
        · -- Cleft > CXright: only CXiter advances; (cxl, cxr) is nobody's partner
          rw [if_neg (by omega : ¬ cl ≤ cxr), if_pos (Nat.le_of_lt hgt),
            ih ((cl, cr) :: c) cx hc hcx' (by simp only [List.length_cons]; omega)]
          rw [if_neg (by omega : ¬ (cl = cxr ∧ cr = cxl))]
          show Except.ok ([] ++ selected retained ((cl, cr) :: c) cx) = _
          rw [List.nil_append]
          congr 1
          apply selected_congr
          intro p' hp'
          have hge : cl ≤ p'.1 := by
            rcases List.mem_cons.mp hp' with h | h
            · rw [h]
            · exact Nat.le_of_lt (hp p' h)
          rw [List.mem_cons]
          constructor
          · exact Or.inr
          · rintro (h | h)
            · simp only [Prod.mk.injEq] at h; omega
            · exact h

/-- **B: `GreensFunction::prepare` CREATES EXACTLY THE MATCHING BLOCK PAIRS.**  If the left view of
`C`'s block bimap is strictly increasing in the left index and the right view of `CX`'s block bimap is
strictly increasing in the right index (what `boost::bimap<set_of, set_of>` guarantees: both sides are
keys, i.e. the bimap is the graph of a partial injective map), then the merge walk of `prepare`
terminates and the parts created are exactly the pairs `(L, R)` with `(L, R)` in `C`'s bimap, `(R, L)`
in `CX`'s bimap and `L` or `R` retained -- as a list: in the order of `C`'s left view. -/
theorem prepare_selects_matching_pairs (retained : ℕ → Bool) (c cx : List (ℕ × ℕ))
    (hc : SortedByLeft c) (hcx : SortedByRight cx) :
    prepare retained c cx = .ok (selected retained c cx) :=
  prepareWalk_spec retained _ c cx hc hcx (by omega)

/-- ... in words: `(L, R)` gets a part iff `<L|c|R>` and `<R|c†|L>` are non-trivial blocks and one of
the two blocks is retained; and no pair gets two parts -/
theorem prepare_parts_characterised (retained : ℕ → Bool) (c cx : List (ℕ × ℕ))
    (hc : SortedByLeft c) (hcx : SortedByRight cx) :
    ∃ parts, prepare retained c cx = .ok parts ∧ parts.Nodup ∧
      ∀ L R, (L, R) ∈ parts ↔
        (L, R) ∈ c ∧ (R, L) ∈ cx ∧ (retained L = true ∨ retained R = true) := by
  refine ⟨_, prepare_selects_matching_pairs retained c cx hc hcx, ?_, fun L R => ?_⟩
  · unfold selected
    apply List.Nodup.filter
    unfold SortedByLeft at hc
    refine List.Pairwise.imp (fun {p q} h e => ?_) hc
    rw [e] at h; omega
  · unfold selected
    simp [List.mem_filter]

/-- The hypothesis cannot be dropped for the walk AS AN ALGORITHM: if the left view could contain the
same left index twice (a multimap), both iterators advance past the first of the two and the second
one's partner is never seen.  Here `<1|c|3>` and `<3|c†|1>` match, but no part is created.  (Not
reachable in the library: the bimap type makes both sides keys.) -/
theorem prepare_needs_unique_keys :
    prepare (fun _ => true) [(1, 2), (1, 3)] [(3, 1)] = .ok [] ∧
      selected (fun _ => true) [(1, 2), (1, 3)] [(3, 1)] = [(1, 3)] := by
  decide

end Prepare

/-! ## A + B: the whole loop structure computes the Lehmann sum

The eigenbasis is split into `B` blocks, block `b` having `sz b` states: `Basis sz = Σ b, Fin (sz b)`.
-/

section Whole
open Pomerol.Model.TermList
variable {B : ℕ} {sz : Fin B → ℕ}

/-- the eigenbasis, block by block -/
abbrev Basis (sz : Fin B → ℕ) := Σ b : Fin B, Fin (sz b)

/-- the block `<L|A|R>` of a matrix over the block basis -/
def block (A : Matrix (Basis sz) (Basis sz) ℂ) (L R : Fin B) :
    Matrix (Fin (sz L)) (Fin (sz R)) ℂ := fun i j => A ⟨L, i⟩ ⟨R, j⟩

/-- the bimap `c` lists (at least) all non-trivial blocks of `A` -/
def CoversBlocks (c : List (ℕ × ℕ)) (A : Matrix (Basis sz) (Basis sz) ℂ) : Prop :=
  ∀ L R : Fin B, block A L R ≠ 0 → (L.1, R.1) ∈ c

/-- the share of the block pair (outer `L`, inner `R`) in the Lehmann sum -/
noncomputable def blockPartOf (d : EigenData (Basis sz)) (C CX : Matrix (Basis sz) (Basis sz) ℂ)
    (z : ℂ) (L R : Fin B) : ℂ :=
  blockPart (fun i => d.w ⟨L, i⟩) (fun i => d.E ⟨L, i⟩) (fun j => d.w ⟨R, j⟩) (fun j => d.E ⟨R, j⟩)
    (block C L R) (block CX R L) z

/-- THE LEHMANN SUM IS THE SUM OF ITS BLOCK-PAIR PARTS (pure regrouping of the double sum) -/
theorem lehmann_eq_sum_block_parts (d : EigenData (Basis sz))
    (C CX : Matrix (Basis sz) (Basis sz) ℂ) (z : ℂ) :
    d.lehmannG C CX z = ∑ L : Fin B, ∑ R : Fin B, blockPartOf d C CX z L R := by
  rw [← Bridge.gf_sum d C CX z]
  unfold blockPartOf blockPart block
  simp only [Fintype.sum_sigma]
  refine Finset.sum_congr rfl fun L _ => ?_
  exact Finset.sum_comm

theorem blockPart_zero_left {N M : ℕ} (wO EO : Fin N → ℝ) (wI EI : Fin M → ℝ)
    (CX : Matrix (Fin M) (Fin N) ℂ) (z : ℂ) : blockPart wO EO wI EI 0 CX z = 0 := by
  unfold blockPart
  simp only [Matrix.zero_apply, term_zero_left, Finset.sum_const_zero]

theorem blockPart_zero_right {N M : ℕ} (wO EO : Fin N → ℝ) (wI EI : Fin M → ℝ)
    (C : Matrix (Fin N) (Fin M) ℂ) (z : ℂ) : blockPart wO EO wI EI C 0 z = 0 := by
  unfold blockPart
  simp only [Matrix.zero_apply, term_zero_right, Finset.sum_const_zero]

/-- the share of a block pair given by block NUMBERS (zero for numbers that are not blocks) -/
noncomputable def partValue (d : EigenData (Basis sz)) (C CX : Matrix (Basis sz) (Basis sz) ℂ)
    (z : ℂ) (p : ℕ × ℕ) : ℂ :=
  if h : p.1 < B ∧ p.2 < B then blockPartOf d C CX z ⟨p.1, h.1⟩ ⟨p.2, h.2⟩ else 0

theorem partValue_fin (d : EigenData (Basis sz)) (C CX : Matrix (Basis sz) (Basis sz) ℂ) (z : ℂ)
    (L R : Fin B) : partValue d C CX z (L.1, R.1) = blockPartOf d C CX z L R := by
  unfold partValue
  rw [dif_pos ⟨L.2, R.2⟩]

/-- **A + B, at the level of block pairs.**  If `c` / `cx` list the non-trivial blocks of `C` / `CX`
(bimap views: `c` strictly increasing in the left index, `cx` in the right index), then the shares of
the block pairs selected by `GreensFunction::prepare` (nothing truncated: every block retained) add up
to the full Lehmann sum: the pairs that get no part contribute nothing. -/
theorem selected_parts_sum_to_lehmann (d : EigenData (Basis sz))
    (C CX : Matrix (Basis sz) (Basis sz) ℂ) (c cx : List (ℕ × ℕ))
    (hc : SortedByLeft c) (hcx : SortedByRight cx) (hcC : CoversBlocks c C)
    (hcCX : CoversBlocks cx CX) (z : ℂ) :
    ∃ parts, Pomerol.Model.GFPart.prepare (fun _ => true) c cx = .ok parts ∧
      (parts.map (partValue d C CX z)).sum = d.lehmannG C CX z := by
  obtain ⟨parts, hp, hnd, hmem⟩ := prepare_parts_characterised (fun _ => true) c cx hc hcx
  refine ⟨parts, hp, ?_⟩
  rw [lehmann_eq_sum_block_parts, ← List.sum_toFinset _ hnd, ← Finset.sum_product']
  let e : Fin B × Fin B ↪ ℕ × ℕ :=
    ⟨fun q => (q.1.1, q.2.1), fun q q' h => by
      simp only [Prod.mk.injEq] at h
      exact Prod.ext (Fin.ext h.1) (Fin.ext h.2)⟩
  have h1 : ∑ q ∈ (Finset.univ : Finset (Fin B)) ×ˢ (Finset.univ : Finset (Fin B)),
        blockPartOf d C CX z q.1 q.2
      = ∑ p ∈ (Finset.univ : Finset (Fin B × Fin B)).map e, partValue d C CX z p := by
    rw [Finset.sum_map, Finset.univ_product_univ]
    refine Finset.sum_congr rfl fun q _ => ?_
    exact (partValue_fin d C CX z q.1 q.2).symm
  rw [h1]
  -- both index sets may be enlarged to their union without changing the sums
  have hA : ∑ p ∈ parts.toFinset, partValue d C CX z p
      = ∑ p ∈ parts.toFinset ∪ (Finset.univ : Finset (Fin B × Fin B)).map e,
          partValue d C CX z p := by
    apply Finset.sum_subset Finset.subset_union_left
    intro p hp1 hp2
    -- a pair of blocks that got no part: one of the two blocks is trivial
    have hpe : p ∈ (Finset.univ : Finset (Fin B × Fin B)).map e := by
      rcases Finset.mem_union.mp hp1 with h | h
      · exact absurd h hp2
      · exact h
    obtain ⟨q, -, rfl⟩ := Finset.mem_map.mp hpe
    obtain ⟨L, R⟩ := q
    change partValue d C CX z (L.1, R.1) = 0
    rw [partValue_fin]
    have hnot : ¬ ((L.1, R.1) ∈ c ∧ (R.1, L.1) ∈ cx) := by
      intro h
      apply hp2
      rw [List.mem_toFinset]
      exact (hmem L.1 R.1).mpr ⟨h.1, h.2, Or.inl rfl⟩
    unfold blockPartOf
    by_cases h : (L.1, R.1) ∈ c
    · have : block CX R L = 0 := by
        by_contra h0
        exact hnot ⟨h, hcCX R L h0⟩
      rw [this, blockPart_zero_right]
    · have : block C L R = 0 := by
        by_contra h0
        exact h (hcC L R h0)
      rw [this, blockPart_zero_left]
  have hB : ∑ p ∈ (Finset.univ : Finset (Fin B × Fin B)).map e, partValue d C CX z p
      = ∑ p ∈ parts.toFinset ∪ (Finset.univ : Finset (Fin B × Fin B)).map e,
          partValue d C CX z p := by
    apply Finset.sum_subset Finset.subset_union_right
    intro p _ hp2
    -- a pair of numbers that are not block numbers
    unfold partValue
    rw [dif_neg]
    intro h
    apply hp2
    exact Finset.mem_map.mpr ⟨(⟨p.1, h.1⟩, ⟨p.2, h.2⟩), Finset.mem_univ _, rfl⟩
  rw [hA, hB]

/-- the tables `w b n` / `E b n` (state `n` of block `b`) the parts see -/
noncomputable def blockTable (v : Basis sz → ℝ) : ℕ → ℕ → ℝ :=
  fun b n => if h : b < B then natExt (fun i : Fin (sz ⟨b, h⟩) => v ⟨⟨b, h⟩, i⟩) n else 0

theorem blockTable_fin (v : Basis sz → ℝ) (L : Fin B) :
    blockTable v L.1 = natExt (fun i => v ⟨L, i⟩) := by
  funext n
  unfold blockTable
  rw [dif_pos L.2]

theorem computeParts_spec (F : ℕ → ℕ → Except Err (List (Term ℂ ℝ))) (g : ℕ × ℕ → ℂ) (z : ℂ) :
    ∀ parts : List (ℕ × ℕ),
      (∀ p ∈ parts, ∃ ts, F p.1 p.2 = .ok ts ∧ (ts.map (termValue z)).sum = g p) →
      ∃ tss, computeParts F parts = .ok tss ∧
        (tss.map fun ts => (ts.map (termValue z)).sum).sum = (parts.map g).sum := by
  intro parts
  induction parts with
  | nil => intro _; exact ⟨[], rfl, rfl⟩
  | cons p ps ih =>
    intro h
    obtain ⟨ts, h1, h2⟩ := h p List.mem_cons_self
    obtain ⟨tss, h3, h4⟩ := ih fun q hq => h q (List.mem_cons_of_mem _ hq)
    obtain ⟨l, r⟩ := p
    refine ⟨ts :: tss, ?_, ?_⟩
    · rw [computeParts]
      simp only at h1
      rw [h1]
      dsimp only
      rw [h3]
    · rw [List.map_cons, List.sum_cons, List.map_cons, List.sum_cons, h2, h4]

/-- **A + B: THE WHOLE LOOP STRUCTURE COMPUTES THE LEHMANN SUM.**  Eigenbasis split into blocks;
`c`, `cx` the bimap views listing the non-trivial blocks of `C`, `CX` (block numbers in range);
for every pair of blocks a compressed row-major representation `Cblk L R` of `<L|c|R>` and a compressed
column-major representation `CXblk R L` of `<R|c†|L>`.  Then the model of `GreensFunction::prepare` +
`GreensFunction::compute` (merge walk over the bimaps, then for every part the sparse double loop with
the extracted residue / pole formulas; no truncation, residue filter idealised away by `tol < 0`)
succeeds, and the values at `z` of ALL terms of ALL parts add up to `d.lehmannG C CX z` -- which is
the definition of the Green's function at `z = iω_n` by `Bridge.gf_equals_definition` /
`lehmann_single`. -/
theorem whole_loop_refines_lehmann (d : EigenData (Basis sz))
    (C CX : Matrix (Basis sz) (Basis sz) ℂ) (c cx : List (ℕ × ℕ))
    (hc : SortedByLeft c) (hcx : SortedByRight cx) (hcC : CoversBlocks c C)
    (hcCX : CoversBlocks cx CX) (hrange : ∀ p ∈ c, p.1 < B ∧ p.2 < B)
    (Cblk CXblk : ℕ → ℕ → SpMat ℂ)
    (hCblk : ∀ L R : Fin B, RepresentsRows (Cblk L.1 R.1) (block C L R))
    (hCXblk : ∀ L R : Fin B, RepresentsCols (CXblk R.1 L.1) (block CX R L))
    (tol : ℝ) (htol : tol < 0) (z : ℂ) :
    ∃ tss, greensFunctionTerms true true (fun _ => true) c cx (blockTable d.w) (blockTable d.E) tol
        Cblk CXblk = .ok tss ∧
      (tss.map fun ts => (ts.map (termValue z)).sum).sum = d.lehmannG C CX z := by
  obtain ⟨parts, hp, hsum⟩ := selected_parts_sum_to_lehmann d C CX c cx hc hcx hcC hcCX z
  obtain ⟨parts', hp', -, hmem⟩ := prepare_parts_characterised (fun _ => true) c cx hc hcx
  rw [hp] at hp'
  cases hp'
  obtain ⟨tss, h1, h2⟩ := computeParts_spec
    (fun l r => computeTerms true true (blockTable d.w l) (blockTable d.w r) (blockTable d.E l)
      (blockTable d.E r) tol (Cblk l r) (CXblk r l)) (partValue d C CX z) z parts (by
    intro p hpm
    obtain ⟨l, r⟩ := p
    obtain ⟨hl, hr⟩ := hrange _ ((hmem l r).mp hpm).1
    obtain ⟨ts, t1, t2⟩ := part_loop_refines_lehmann
      (fun i => d.w ⟨⟨l, hl⟩, i⟩) (fun i => d.E ⟨⟨l, hl⟩, i⟩)
      (fun j => d.w ⟨⟨r, hr⟩, j⟩) (fun j => d.E ⟨⟨r, hr⟩, j⟩)
      (hCblk ⟨l, hl⟩ ⟨r, hr⟩) (hCXblk ⟨l, hl⟩ ⟨r, hr⟩) tol htol z
    refine ⟨ts, ?_, ?_⟩
    · have e1 := blockTable_fin d.w ⟨l, hl⟩
      have e2 := blockTable_fin d.w ⟨r, hr⟩
      have e3 := blockTable_fin d.E ⟨l, hl⟩
      have e4 := blockTable_fin d.E ⟨r, hr⟩
      simp only at e1 e2 e3 e4
      simp only [e1, e2, e3, e4]
      exact t1
    · rw [t2]
      exact (partValue_fin d C CX z ⟨l, hl⟩ ⟨r, hr⟩).symm)
  refine ⟨tss, ?_, by rw [h2, hsum]⟩
  unfold greensFunctionTerms
  rw [hp]
  exact h1

end Whole

end Pomerol.Spec.GFRefine
