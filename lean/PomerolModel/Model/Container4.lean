/-
  Model of `IndexContainer4<TwoParticleGF, TwoParticleGFContainer>` (include/pomerol/IndexContainer4.h) and of
  the bulk calls of `TwoParticleGFContainer` (src/pomerol/TwoParticleGFContainer.cpp) as a state machine over
  request histories.  Elements are identified by their creation number; every element remembers the
  quadruple it was created for and whether it has been prepared / computed.

  `clearsNonTrivial` says whether `fill` also clears `NonTrivialElements` (extracted from the source:
  `Generated/CoreFlags.lean`).  Core Lean only.
-/
import PomerolModel.Generated.Chi4Formulas
import PomerolModel.Generated.CoreFlags

namespace Pomerol.Model.C4

abbrev Quad := Nat × Nat × Nat × Nat

def quadLt (a b : Quad) : Bool :=
  a.1 < b.1 || (a.1 == b.1 && (a.2.1 < b.2.1 || (a.2.1 == b.2.1 && (a.2.2.1 < b.2.2.1 ||
    (a.2.2.1 == b.2.2.1 && a.2.2.2 < b.2.2.2)))))

structure Elem where
  quad : Quad
  prepared : Bool := false
  computed : Bool := false
  deriving DecidableEq, Repr, Inhabited

structure State where
  /-- all elements ever created, by creation number -/
  elems : List Elem := []
  /-- `ElementsMap`: quadruple ↦ (element, index into `permutations4`), sorted by key -/
  emap : List (Quad × Nat × Nat) := []
  /-- `NonTrivialElements`: quadruple ↦ element, sorted by key -/
  nontriv : List (Quad × Nat) := []
  deriving Repr, Inhabited

/-- `std::map::insert`: no overwrite -/
def insertNoOverwrite {β : Type} (k : Quad) (v : β) : List (Quad × β) → List (Quad × β)
  | [] => [(k, v)]
  | (k', v') :: rest =>
    if k = k' then (k', v') :: rest
    else if quadLt k k' then (k, v) :: (k', v') :: rest
    else (k', v') :: insertNoOverwrite k v rest

def lookupMap {β : Type} (m : List (Quad × β)) (k : Quad) : Option β := (m.find? (·.1 = k)).map (·.2)

/-- `IndexContainer4::set(Indices)`: create the element, register it and its aliases -/
def set (s : State) (q : Quad) : State × Nat :=
  let id := s.elems.length
  let (i, j, k, l) := q
  let s1 : State := { s with elems := s.elems ++ [{ quad := q }],
                             emap := insertNoOverwrite q (id, Pomerol.Gen.Core.aliasPerms.getD 0 0) s.emap,
                             nontriv := insertNoOverwrite q id s.nontriv }
  let sameC := i == j
  let sameCX := k == l
  let addAlias (st : State) (q' : Quad) (perm : Nat) : State :=
    if (lookupMap st.emap q').isSome then st else { st with emap := insertNoOverwrite q' (id, perm) st.emap }
  let pm := Pomerol.Gen.Core.aliasPerms
  let s2 := if !sameC then addAlias s1 (j, i, k, l) (pm.getD 1 6) else s1
  let s3 := if !sameCX then addAlias s2 (i, j, l, k) (pm.getD 2 1) else s2
  let s4 := if !sameC && !sameCX then addAlias s3 (j, i, l, k) (pm.getD 3 7) else s3
  (s4, id)

/-- `enumerateInitialIndices` for `n` single-particle indices -/
def allInitial (n : Nat) : List Quad :=
  (List.range n).flatMap fun i => ((List.range n).filter (· ≥ i)).flatMap fun j =>
    (List.range n).flatMap fun k => ((List.range n).filter (· ≥ k)).map fun l => (i, j, k, l)

def sortQuads (qs : List Quad) : List Quad :=
  qs.foldl (fun acc q => (insertNoOverwrite q () (acc.map fun x => (x, ()))).map (·.1)) []

/-- `IndexContainer4::fill(InitialIndices)` (`std::set` iteration order; empty set = all initial combinations) -/
def fill (clearsNonTrivial : Bool) (nIndices : Nat) (s : State) (qs : List Quad) : State :=
  let s0 : State := { s with emap := [], nontriv := if clearsNonTrivial then [] else s.nontriv }
  let II := if qs.isEmpty then allInitial nIndices else sortQuads qs
  II.foldl (fun st q => if (lookupMap st.emap q).isSome then st else (set st q).1) s0

def markPrepared (s : State) (id : Nat) : State :=
  { s with elems := s.elems.modify id fun e => { e with prepared := true } }

/-- `TwoParticleGF::compute`: throws `exStatusMismatch` when the element is not prepared -/
def computeElem (s : State) (id : Nat) : Option State :=
  match s.elems[id]? with
  | some e => if e.prepared then some { s with elems := s.elems.modify id fun e => { e with computed := true } } else none
  | none => none

/-- `TwoParticleGFContainer::prepareAll(InitialIndices)` -/
def prepareAll (clearsNonTrivial : Bool) (nIndices : Nat) (s : State) (qs : List Quad) : State :=
  let s1 := fill clearsNonTrivial nIndices s qs
  s1.emap.foldl (fun st (_, id, _) => markPrepared st id) s1

/-- walk a list of elements computing each; stops at the first unprepared element (`exStatusMismatch`),
keeping what was computed before it -/
def computeList : List Nat → State → State × Bool
  | [], s => (s, true)
  | id :: rest, s =>
    match computeElem s id with
    | some s' => computeList rest s'
    | none => (s, false)

/-- `computeAll(split)`: the unsplit variant walks `ElementsMap`, the split one `NonTrivialElements`;
the flag is `false` when an element was reached that had not been prepared (the call throws) -/
def computeAll (split : Bool) (s : State) : State × Bool :=
  if split then computeList (s.nontriv.map (·.2)) s
  else computeList (s.emap.map (·.2.1)) s

/-- `operator()(Indices)`: creates the element on a miss -/
def lookup (s : State) (q : Quad) : State × Nat × Nat :=
  match lookupMap s.emap q with
  | some (id, perm) => (s, id, perm)
  | none => let (s', id) := set s q; (s', id, 0)

/-- the stored element is evaluable iff it has been computed -/
def evaluable (s : State) (id : Nat) : Bool := ((s.elems[id]?).map (·.computed)).getD false

/-! ### values -/

/-- `ElementWithPermFreq::operator()`: the numbers handed to the element and the sign, for the entry `p` of the
extracted table `permutations4` -/
def aliasArgs (p : Nat) (n1 n2 n3 : Int) : Option ((Int × Int × Int) × Int) :=
  match Pomerol.Gen.Chi4.permutations4[p]? with
  | some ([a, b, c, _], sign) =>
    let nums : List Int := [n1, n2, n3, Pomerol.Gen.Core.fourthNumber n1 n2 n3]
    some ((nums.getD a 0, nums.getD b 0, nums.getD c 0), sign)
  | _ => none

end Pomerol.Model.C4
