/-
  Executable model of the WORLD-STRIPE SELECTION of the two-particle Green's function,
  `TwoParticleGF::prepare` (src/pomerol/TwoParticleGF.cpp), with its helpers
  `TwoParticleGF::getLeftIndex`, `TwoParticleGF::getRightIndex` and
  `FieldOperator::getLeftIndex`, `FieldOperator::getRightIndex` (src/pomerol/FieldOperator.cpp).

  Data.  Every field operator owns a `boost::bimap<set_of<BlockNumber>, set_of<BlockNumber>>`
  `LeftRightBlocks` holding the pairs `(LeftIndex, RightIndex)` of its non-trivial blocks
  `<LeftIndex|Op|RightIndex>`; here: a list of `(left, right)` pairs (`BlockMap`).
  `BlockNumber` is an `int`, `ERROR_BLOCK_NUMBER = -1`, `isCorrect()` is `number >= 0`; only correct
  block numbers are ever inserted into a bimap.  Here: `Option Nat`, `none` = `ERROR_BLOCK_NUMBER`;
  looking up `ERROR_BLOCK_NUMBER` finds nothing and returns `ERROR_BLOCK_NUMBER`.

    FieldOperator::getRightIndex(LeftIndex):  it = LeftRightBlocks.left.find(LeftIndex);
                                              return it != end ? it->second : ERROR_BLOCK_NUMBER;
    FieldOperator::getLeftIndex(RightIndex):  it = LeftRightBlocks.right.find(RightIndex);
                                              return it != end ? it->second : ERROR_BLOCK_NUMBER;
    TwoParticleGF::getLeftIndex(p, pos, RightIndex):
        switch(permutations3[p].perm[pos]){ case 0: return C1.getLeftIndex(RightIndex);
          case 1: return C2.getLeftIndex(RightIndex); case 2: return CX3.getLeftIndex(RightIndex);
          default: return ERROR_BLOCK_NUMBER; }                       (getRightIndex: likewise)

    TwoParticleGF::prepare:
      for(outer_iter = CX4NontrivialBlocks.right.begin(); … ; outer_iter++)     // RIGHT view of CX4
        for(size_t p=0; p<6; ++p){
          LeftIndices[0] = outer_iter->first;                    // the RIGHT block of CX4's pair
          LeftIndices[3] = outer_iter->second;                   // the LEFT block of CX4's pair
          LeftIndices[2] = getLeftIndex(p,2,LeftIndices[3]);
          LeftIndices[1] = getRightIndex(p,0,LeftIndices[0]);
          // <L[0]|O_1|L[1]>  <L[1]|O_2|getRightIndex(p,1,L[1])>  <L[2]|O_3|L[3]>  <L[3]|CX4|L[0]>
          if(getRightIndex(p,1,LeftIndices[1]) == LeftIndices[2]
             && LeftIndices[1].isCorrect() && LeftIndices[2].isCorrect()){
            if(none of DM.isRetained(LeftIndices[0..3])) continue;
            parts.push_back(new TwoParticleGFPart(OperatorPartAtPosition(p,0,L[0]),
              OperatorPartAtPosition(p,1,L[1]), OperatorPartAtPosition(p,2,L[2]),
              CX4.getPartFromLeftIndex(L[3]), H.getPart(L[0..3]), DM.getPart(L[0..3]), permutations3[p]));
          } }

  The permutation table is the extracted `Gen.Chi4.permutations3`.  Core Lean only.
-/
import PomerolModel.Generated.Chi4Formulas

namespace Pomerol.Model.Chi4Prepare

/-- the content of a `BlocksBimap`: the pairs `(LeftIndex, RightIndex)` -/
abbrev BlockMap := List (Nat × Nat)

/-- `BlockNumber` with `none = ERROR_BLOCK_NUMBER` -/
abbrev BlockNumber := Option Nat

/-- `FieldOperator::getRightIndex(LeftIndex)`: `left.find(LeftIndex)`, `it->second` or
`ERROR_BLOCK_NUMBER` -/
def getRightIndex (m : BlockMap) : BlockNumber → BlockNumber
  | none => none
  | some l =>
    match m.find? (fun q => q.1 == l) with
    | some q => some q.2
    | none => none

/-- `FieldOperator::getLeftIndex(RightIndex)`: `right.find(RightIndex)`, `it->second` (the left block)
or `ERROR_BLOCK_NUMBER` -/
def getLeftIndex (m : BlockMap) : BlockNumber → BlockNumber
  | none => none
  | some r =>
    match m.find? (fun q => q.2 == r) with
    | some q => some q.1
    | none => none

/-- `permutations3[PermutationNumber].perm[OperatorPosition]` (`none`: outside the table) -/
def permAt (p pos : Nat) : Option Nat :=
  match Pomerol.Gen.Chi4.permutations3[p]? with
  | some q => q.1[pos]?
  | none => none

/-- `TwoParticleGF::getLeftIndex(PermutationNumber, OperatorPosition, RightIndex)` -/
def tpGetLeftIndex (c1 c2 cx3 : BlockMap) (p pos : Nat) (r : BlockNumber) : BlockNumber :=
  match permAt p pos with
  | some 0 => getLeftIndex c1 r
  | some 1 => getLeftIndex c2 r
  | some 2 => getLeftIndex cx3 r
  | _ => none

/-- `TwoParticleGF::getRightIndex(PermutationNumber, OperatorPosition, LeftIndex)` -/
def tpGetRightIndex (c1 c2 cx3 : BlockMap) (p pos : Nat) (l : BlockNumber) : BlockNumber :=
  match permAt p pos with
  | some 0 => getRightIndex c1 l
  | some 1 => getRightIndex c2 l
  | some 2 => getRightIndex cx3 l
  | _ => none

/-- a world stripe: `(p, LeftIndices[0], LeftIndices[1], LeftIndices[2], LeftIndices[3])` -/
abbrev Stripe := Nat × Nat × Nat × Nat × Nat

/-- the body of the double loop for one pair `outer = (left, right)` of CX4's bimap and one `p`:
the list of the parts pushed (empty or one element) -/
def stripeFor (retained : Nat → Bool) (c1 c2 cx3 : BlockMap) (outer : Nat × Nat) (p : Nat) :
    List Stripe :=
  -- LeftIndices[0] = outer_iter->first (right view: the right block); [3] = outer_iter->second
  let L0 : BlockNumber := some outer.2
  let L3 : BlockNumber := some outer.1
  let L2 := tpGetLeftIndex c1 c2 cx3 p 2 L3
  let L1 := tpGetRightIndex c1 c2 cx3 p 0 L0
  if tpGetRightIndex c1 c2 cx3 p 1 L1 == L2 && L1.isSome && L2.isSome then
    match L1, L2 with
    | some b1, some b2 =>
      if retained outer.2 || retained b1 || retained b2 || retained outer.1 then
        [(p, outer.2, b1, b2, outer.1)]
      else []
    | _, _ => []
  else []

/-- `TwoParticleGF::prepare`: the stripes for which a `TwoParticleGFPart` is created, in order of
creation.  `cx4Right` is the RIGHT view of CX4's bimap (pairs `(left, right)` in the order of the right
index), `retained = DM.isRetained`. -/
def prepare (retained : Nat → Bool) (c1 c2 cx3 cx4Right : BlockMap) : List Stripe :=
  cx4Right.flatMap fun outer =>
    (List.range 6).flatMap fun p => stripeFor retained c1 c2 cx3 outer p

end Pomerol.Model.Chi4Prepare
