/-
  Executable model of the LOOP STRUCTURE of the thermal-average routines:

  * `DensityMatrixPart::computeUnnormalized`, `normalize`, `truncate`, `getWeight`,
    `getAverageEnergy`, `getAverageOccupancy()`, `getAverageOccupancy(ParticleIndex)`,
    `getAverageDoubleOccupancy(i,j)`                         (src/pomerol/DensityMatrixPart.cpp)
  * `DensityMatrix::compute`, `getAverageEnergy`, `getAverageOccupancy…`,
    `getAverageDoubleOccupancy` (sums over the parts)          (src/pomerol/DensityMatrix.cpp)
  * `EnsembleAverage::compute`, `EnsembleAverage::prepare`    (src/pomerol/EnsembleAverage.cpp)

  Data of one block (`Part`):
  * `fock`     = `S.getFockStates(block)`: the Fock states of the block as `Nat` bit masks
                 (`boost::dynamic_bitset::to_ulong`, as in `Model/Operator.lean`), in the order of the
                 inner index `fi`.  `S.getFockState(block, fi)` THROWS `exWrongState` when
                 `fi ≥ fock.size()`: error `wrongState` here.
  * `dim`      = `hpart.getSize()`: number of rows (= columns) of the dense matrix `H` of the
                 `HamiltonianPart`.
  * `U r c`    = `H(r, c)` AFTER `HamiltonianPart::compute()`: the eigenvectors are the COLUMNS of `H`
                 (`getEigenState(s)` returns `H.col(s)`), so `getEigenState(s)(fi) = H(fi, s) = U fi s`:
                 FIRST index = Fock (inner) index, SECOND index = eigenstate number.
  * `energies` = `Eigenvalues` (`getEigenValue(s) = Eigenvalues(s)`; reading past the end is undefined
                 behaviour in the source: error `outOfRange` here).
  * `weights`  = `DensityMatrixPart::weights`; `partSize = weights.size()` is the bound of every loop over
                 eigenstates `s` (so `weights(s)` inside those loops is always in range).
  * `retained` = `DensityMatrixPart::retained` (constructor: `true`; changed by `truncate` only).
  * `nmodes`   = number of bits of a `FockState` (`count()` counts all of them).

  The scalar sorts are abstract (`R` = `RealType`, `K` = `MelemType`/`ComplexType`), as in the generated
  formulas; `std::abs` of a matrix element is `CplxOver.abs`.  Core Lean only.
-/
import PomerolModel.Scalar
import PomerolModel.Model.Operator
import PomerolModel.Model.GFPart
import PomerolModel.Generated.DMFormulas

namespace Pomerol.Model.Averages
open Pomerol.Model.GFPart (SpMat)

inductive Err where
  /-- `StatesClassification::getFockState(block, m)` throws `exWrongState` (`m` not in the block) -/
  | wrongState
  /-- element access past the end of an Eigen vector / `std::vector`: undefined behaviour in the source -/
  | outOfRange
  deriving DecidableEq, Repr

/-- `for (k = k0; k < k0 + n; ++k) acc = body k acc` (`n` iterations remain). -/
def loop {σ : Type} (body : Nat → σ → Except Err σ) : Nat → Nat → σ → Except Err σ
  | 0, _, acc => .ok acc
  | n + 1, k, acc =>
    match body k acc with
    | .ok acc' => loop body n (k + 1) acc'
    | .error e => .error e

structure Part (R K : Type) where
  nmodes : Nat
  fock : List Nat
  dim : Nat
  U : Nat → Nat → K
  energies : List R
  weights : List R
  retained : Bool := true

section
variable {R K : Type} [Add R] [Sub R] [Mul R] [Div R] [Neg R] [Zero R] [One R] [NatCast R]
  [LT R] [DecidableLT R] [HasExp R]
  [Add K] [Mul K] [Zero K] [CplxOver R K]

namespace Part

/-- `S.getFockState(hpart.getBlockNumber(), fi)` -/
def getFockState (p : Part R K) (fi : Nat) : Except Err Nat :=
  match p.fock[fi]? with
  | some f => .ok f
  | none => .error .wrongState

/-- `hpart.getEigenState(s)` = `H.col(s)`: the vector `fi ↦ H(fi, s)` (of size `H.rows() = dim`) -/
def getEigenState (p : Part R K) (s : Nat) : Nat → K := fun fi => p.U fi s

/-- `hpart.getEigenValue(s)` = `Eigenvalues(s)` -/
def getEigenValue (p : Part R K) (s : Nat) : Except Err R :=
  match p.energies[s]? with
  | some e => .ok e
  | none => .error .outOfRange

/-- `weights(s)` inside a loop `s < weights.size()` -/
def weightAt (p : Part R K) (s : Nat) : R := p.weights.getD s 0

/-- `DensityMatrixPart::getWeight(s)` called from outside (no bound known) -/
def getWeight (p : Part R K) (s : Nat) : Except Err R :=
  match p.weights[s]? with
  | some w => .ok w
  | none => .error .outOfRange

/-- `bool`/`size_t` → `RealType` (the integral promotions of the C++ products) -/
def ofBool (b : Bool) : R := ((b.toNat : Nat) : R)

/-- `DensityMatrixPart::computeUnnormalized`: `weights(s) = exp(-beta*(E_s - GroundEnergy))` (the
EXTRACTED formula `Gen.DM.unnormWeight`), `Z_part += weights(s)`; returns the new part and `Z_part`. -/
def computeUnnormalized (beta groundEnergy : R) (p : Part R K) : Except Err (Part R K × R) :=
  match loop (fun s (st : List R × R) =>
      match p.getEigenValue s with
      | .ok e =>
        let w := Pomerol.Gen.DM.unnormWeight beta e groundEnergy
        .ok (st.1 ++ [w], st.2 + w)
      | .error e => .error e) p.weights.length 0 ([], 0) with
  | .ok st => .ok ({ p with weights := st.1 }, st.2)
  | .error e => .error e

/-- `DensityMatrixPart::normalize(Z)`: `weights /= Z` -/
def normalize (Z : R) (p : Part R K) : Part R K := { p with weights := p.weights.map (· / Z) }

/-- `DensityMatrixPart::truncate(Tolerance)`: retained iff some `weights(s) > Tolerance` -/
def truncate (tol : R) (p : Part R K) : Part R K :=
  { p with retained := p.weights.any (fun w => Pomerol.Gen.DM.retainsState w tol) }

/-- `DensityMatrixPart::getAverageEnergy`: `E += weights(s)*hpart.getEigenValue(s)` -/
def avgEnergy (p : Part R K) : Except Err R :=
  loop (fun s E =>
    match p.getEigenValue s with
    | .ok e => .ok (E + p.weightAt s * e)
    | .error e => .error e) p.weights.length 0 0

/-- The common shape of the three occupancy routines:
```
for (s = 0; s < weights.size(); ++s) {
    VectorType CurrentEigenState = hpart.getEigenState(s);
    for (fi = 0; fi < CurrentEigenState.size(); ++fi)
        n += <term>(weights(s), S.getFockState(block, fi), std::abs(CurrentEigenState(fi)*CurrentEigenState(fi)));
}
```
with ONE accumulator `n` shared by both loops.  `CurrentEigenState(fi) = U fi s`. -/
def fockLoop (p : Part R K) (term : R → Nat → R → R) : Except Err R :=
  loop (fun s n =>
    let cur := p.getEigenState s
    loop (fun fi n =>
      match p.getFockState fi with
      | .ok f => .ok (n + term (p.weightAt s) f (CplxOver.abs (cur fi * cur fi)))
      | .error e => .error e) p.dim 0 n) p.weights.length 0 0

/-- `getAverageOccupancy()`: `weights(s) * fock.count() * abs(v*v)` -/
def avgOccupancyTotal (p : Part R K) : Except Err R :=
  p.fockLoop (fun w f a => w * ((popCount f p.nmodes : Nat) : R) * a)

/-- `getAverageOccupancy(i)`: `weights(s) * fock.test(i) * abs(v*v)` -/
def avgOccupancy (p : Part R K) (i : Nat) : Except Err R :=
  p.fockLoop (fun w f a => w * ofBool (f.testBit i) * a)

/-- `getAverageDoubleOccupancy(i,j)`: `weights(s) * fock[i] * fock[j] * abs(v*v)` -/
def avgDoubleOccupancy (p : Part R K) (i j : Nat) : Except Err R :=
  p.fockLoop (fun w f a => w * ofBool (f.testBit i) * ofBool (f.testBit j) * a)

/-- what a refactoring that confuses the two indices of `H` would read: `H(s, fi)` (row `s`) instead of
`H(fi, s)` (column `s`) -/
def transposeU (p : Part R K) : Part R K := { p with U := fun r c => p.U c r }

end Part

/-! ### `DensityMatrix`: the vector of parts -/

/-- `for (iter = parts.begin(); iter != parts.end(); iter++) acc += f(*iter)` -/
def sumParts {α : Type} [Add α] (f : Part R K → Except Err α) : List (Part R K) → α → Except Err α
  | [], acc => .ok acc
  | p :: ps, acc =>
    match f p with
    | .ok x => sumParts f ps (acc + x)
    | .error e => .error e

namespace DM

/-- first loop of `DensityMatrix::compute`: `Z += (*iter)->computeUnnormalized()` -/
def computeUnnormalizedAll (beta groundEnergy : R) :
    List (Part R K) → List (Part R K) → R → Except Err (List (Part R K) × R)
  | [], done, Z => .ok (done, Z)
  | p :: ps, done, Z =>
    match p.computeUnnormalized beta groundEnergy with
    | .ok (p', Zp) => computeUnnormalizedAll beta groundEnergy ps (done ++ [p']) (Z + Zp)
    | .error e => .error e

/-- `DensityMatrix::compute`: all unnormalised weights, then `normalize(Z)` for every part -/
def compute (beta groundEnergy : R) (parts : List (Part R K)) : Except Err (List (Part R K)) :=
  match computeUnnormalizedAll beta groundEnergy parts [] 0 with
  | .ok (ps, Z) => .ok (ps.map (Part.normalize Z))
  | .error e => .error e

/-- `DensityMatrix::truncateBlocks(Tolerance)` -/
def truncateBlocks (tol : R) (parts : List (Part R K)) : List (Part R K) :=
  parts.map (Part.truncate tol)

def avgEnergy (parts : List (Part R K)) : Except Err R := sumParts Part.avgEnergy parts 0
def avgOccupancyTotal (parts : List (Part R K)) : Except Err R :=
  sumParts Part.avgOccupancyTotal parts 0
def avgOccupancy (parts : List (Part R K)) (i : Nat) : Except Err R :=
  sumParts (fun p => p.avgOccupancy i) parts 0
def avgDoubleOccupancy (parts : List (Part R K)) (i j : Nat) : Except Err R :=
  sumParts (fun p => p.avgDoubleOccupancy i j) parts 0

end DM

/-! ### `EnsembleAverage` -/

namespace EA

/-- `Amatrix.coeff(r, c)` of a row-major compressed matrix (`SpMat`: one list of stored
`(column, value)` pairs per row): the stored value, `0` when nothing is stored. -/
def coeff (A : SpMat K) (r c : Nat) : K :=
  match A[r]? with
  | none => 0
  | some row =>
    match row.find? (fun p => p.1 == c) with
    | some p => p.2
    | none => 0

/-- `EnsembleAverage::compute(Apart, Hpart, DMpart)`:
`for (index1 = 0; index1 < Amatrix.outerSize(); ++index1)
   result_part += Amatrix.coeff(index1, index1) * DMpart.getWeight(index1);`
with `Amatrix = Apart.getRowMajorValue()` (outer size = number of rows). -/
def compute (A : SpMat K) (dmp : Part R K) : Except Err K :=
  loop (fun index1 res =>
    match dmp.getWeight index1 with
    | .ok w => .ok (res + coeff A index1 index1 * CplxOver.ofReal w)
    | .error e => .error e) A.length 0 0

/-- the loop of `EnsembleAverage::prepare` over the LEFT view of the block bimap of `A`
(pairs `(Aleft, Aright)`): only `Aleft == Aright`, only retained blocks.  `DM.isRetained(b)` and
`DM.getPart(b)` read `parts[b]` (past the end: undefined behaviour, error here). -/
def prepareLoop (partFromLeft : Nat → SpMat K) (dm : List (Part R K)) :
    List (Nat × Nat) → K → Except Err K
  | [], result => .ok result
  | (aleft, aright) :: rest, result =>
    if aleft = aright then
      match dm[aleft]? with
      | none => .error .outOfRange
      | some dmp =>
        if dmp.retained then
          match compute (partFromLeft aleft) dmp with
          | .ok x => prepareLoop partFromLeft dm rest (result + x)
          | .error e => .error e
        else prepareLoop partFromLeft dm rest result
    else prepareLoop partFromLeft dm rest result

/-- `EnsembleAverage::prepare` (`result` is initialised to `0` by the constructor); `mapping` =
`A.getBlockMapping().left`, `partFromLeft b` = `A.getPartFromLeftIndex(b).getRowMajorValue()`. -/
def prepare (mapping : List (Nat × Nat)) (partFromLeft : Nat → SpMat K) (dm : List (Part R K)) :
    Except Err K :=
  prepareLoop partFromLeft dm mapping 0

end EA
end
end Pomerol.Model.Averages
