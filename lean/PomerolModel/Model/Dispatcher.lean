/-
  Model of the master/worker job dispatcher
  (src/mpi_dispatcher/mpi_dispatcher.cpp, include/mpi_dispatcher/mpi_skel.hpp : mpi_skel::run).

  One dispatch round on a communicator with `P ≥ 1` ranks.  Rank 0 is master *and* worker.
  The only nondeterminism of a round is (a) which rank performs its next `request::test()` and
  (b) whether that test already sees a message that has been sent ("message delay").  A step of
  the model is therefore a pair `(rank, sees)`: the rank performs its next `test()` with that outcome
  and continues deterministically up to (not including) its following `test()`.

  MPI semantics assumed (validated against the real code running on a mock MPI with full
  posted-receive matching, and against real `mpiexec` runs): standard-mode sends of these tiny messages
  complete locally; messages between one pair of ranks are non-overtaking; a completed request is
  inactive and `test()` on an inactive request returns "nothing"; the master's receive for a worker's
  completion token is always posted before that worker re-posts its own wildcard receive, so the
  master->worker traffic and the worker->master tokens can be kept in separate FIFO channels.

  Core Lean only.
-/
namespace Pomerol.Model.Disp

inductive Msg where
  | work (j : Nat)
  | finish
  deriving DecidableEq, Repr, Inhabited

inductive WStatus where
  | pending | work | finish
  deriving DecidableEq, Repr, Inhabited

structure Worker where
  st : WStatus := .pending
  /-- `current_job_` (`none` = the initial −1) -/
  cur : Option Nat := none
  /-- has left the dispatch loop -/
  exited : Bool := false
  deriving DecidableEq, Repr, Inhabited

structure Master where
  /-- `JobStack`, top first -/
  jobs : List Nat
  /-- `WorkerStack`, top first -/
  idle : List Nat
  /-- `wait_statuses[i]` is an active request -/
  wait : List Bool
  /-- `workers_finish` -/
  fin : List Bool
  /-- `DispatchMap` as an association list, most recent assignment first -/
  dmap : List (Nat × Nat)
  /-- has executed its first `order()` -/
  started : Bool := false
  /-- position of rank 0 inside its loop iteration: `0` = its next test is the worker's
  `receive_order`; `k+1` = its next test is `wait_statuses[k].test()` in `check_workers` -/
  next : Nat := 0
  deriving DecidableEq, Repr, Inhabited

structure Sys where
  P : Nat
  m : Master
  ws : List Worker
  /-- master → worker FIFO channels -/
  down : List (List Msg)
  /-- worker → master completion tokens in flight -/
  up : List Nat
  /-- ghost: executed (job, rank), oldest first -/
  log : List (Nat × Nat)
  deriving DecidableEq, Repr, Inhabited

def setAt {α : Type} (l : List α) (i : Nat) (v : α) : List α := l.set i v

/-- Initial state of a round: `jobOrder` is the list given to `MPIMaster` (jobs sorted by
complexity); `fill_stack_` makes its first element the top of the job stack and rank 0 the top of
the worker stack. -/
def init0 (P : Nat) (jobOrder : List Nat) : Sys :=
  { P := P,
    m := { jobs := jobOrder, idle := List.range P, wait := List.replicate P false,
           fin := List.replicate P false, dmap := [] },
    ws := List.replicate P {},
    down := List.replicate P [],
    up := List.replicate P 0,
    log := [] }

/-- `MPIMaster::order()`: hand out jobs while an idle worker and a job are available.
Structural recursion on the job stack. -/
def orderLoop : List Nat → List Nat → List Bool → List (Nat × Nat) → List (List Msg) →
    (List Nat × List Nat × List Bool × List (Nat × Nat) × List (List Msg))
  | [], idle, wait, dmap, down => ([], idle, wait, dmap, down)
  | j :: jobs, [], wait, dmap, down => (j :: jobs, [], wait, dmap, down)
  | j :: jobs, w :: idle, wait, dmap, down =>
    orderLoop jobs idle (wait.set w true) ((j, w) :: dmap)
      (down.set w ((down.getD w []) ++ [Msg.work j]))

def order (s : Sys) : Sys :=
  let (jobs, idle, wait, dmap, down) := orderLoop s.m.jobs s.m.idle s.m.wait s.m.dmap s.down
  { s with m := { s.m with jobs := jobs, idle := idle, wait := wait, dmap := dmap }, down := down }

/-- The part of `check_workers` after the polling loop: send `Finish` to everybody once no job is
left and all workers are idle. -/
def finishPhase (s : Sys) : Sys :=
  if s.m.jobs.isEmpty && decide (s.m.idle.length ≥ s.P) then
    let down := (List.range s.P).foldl
      (fun d i => if s.m.fin.getD i false then d else d.set i ((d.getD i []) ++ [Msg.finish])) s.down
    { s with m := { s.m with fin := List.replicate s.P true }, down := down }
  else s

/-- `MPIWorker::receive_order` followed by the job execution and `report_job_done` of the same
loop iteration.  `sees = true` requires a message in the worker's channel. -/
def workerTest (s : Sys) (r : Nat) (sees : Bool) : Option Sys :=
  match s.ws[r]? with
  | none => none
  | some w =>
    if w.exited || w.st ≠ .pending then none else
    -- the test
    let res : Option (Worker × List (List Msg)) :=
      if sees then
        match s.down.getD r [] with
        | [] => none
        | Msg.work j :: rest => some ({ w with st := .work, cur := some j }, s.down.set r rest)
        | Msg.finish :: rest => some ({ w with st := .finish }, s.down.set r rest)
      else some (w, s.down)
    match res with
    | none => none
    | some (w1, down1) =>
      -- run the job and report
      let (w2, up2, log2) :=
        if w1.st = .work then
          ({ w1 with st := WStatus.pending }, s.up.set r (s.up.getD r 0 + 1), s.log ++ [(w1.cur.getD 0, r)])
        else (w1, s.up, s.log)
      -- ranks other than the root re-evaluate the loop condition right away
      let w3 := if r ≠ 0 && w2.st = .finish then { w2 with exited := true } else w2
      some { s with ws := s.ws.set r w3, down := down1, up := up2, log := log2 }

/-- One `wait_statuses[k].test()` of `check_workers` and, after the last one, the finish phase, the
loop condition of rank 0 and the `order()` of its next iteration. -/
def masterTest (s : Sys) (sees : Bool) : Option Sys :=
  let k := s.m.next - 1
  let s1 : Option Sys :=
    if sees then
      if s.m.wait.getD k false && decide (s.up.getD k 0 > 0) then
        some { s with m := { s.m with wait := s.m.wait.set k false, idle := k :: s.m.idle },
                      up := s.up.set k (s.up.getD k 0 - 1) }
      else none
    else some s
  match s1 with
  | none => none
  | some s1 =>
    if s.m.next < s.P then some { s1 with m := { s1.m with next := s.m.next + 1 } }
    else
      let s2 := finishPhase s1
      match s2.ws[0]? with
      | none => none
      | some w0 =>
        if w0.st = .finish then some { s2 with ws := s2.ws.set 0 { w0 with exited := true },
                                               m := { s2.m with next := 0 } }
        else some (order { s2 with m := { s2.m with next := 0 } })

/-- A step `(rank, sees)`. -/
def step (s : Sys) (r : Nat) (sees : Bool) : Option Sys :=
  if r = 0 then
    let s0 := if s.m.started then s else order { s with m := { s.m with started := true } }
    if s0.m.next = 0 then
      match workerTest s0 0 sees with
      | none => none
      | some s1 => some { s1 with m := { s1.m with next := 1 } }
    else masterTest s0 sees
  else workerTest s r sees

def run : Sys → List (Nat × Bool) → Option Sys
  | s, [] => some s
  | s, (r, b) :: rest => match step s r b with
    | none => none
    | some s' => run s' rest

/-- Initial state of a round as the other ranks can first observe it: rank 0 executes its first
`order()` before its first `test()`, and nothing any other rank does before those sends can have an
effect (their tests see nothing), so the round starts with the first batch of jobs handed out. -/
def init (P : Nat) (jobOrder : List Nat) : Sys :=
  let s := init0 P jobOrder
  order { s with m := { s.m with started := true } }

def allExited (s : Sys) : Bool := s.ws.all (·.exited)

/-- `DispatchMap` lookup. -/
def dmapGet (d : List (Nat × Nat)) (j : Nat) : Option Nat := (d.find? (·.1 == j)).map (·.2)

end Pomerol.Model.Disp
