/-
  Hand-written, source-independent specification predicates for the lattice input layer (property C20):
  what a *valid* term is and for which arguments each preset is *defined* according to its documentation.
  They are Boolean so that the driver can evaluate them as the property oracle, and they are what the
  theorems of `Properties/C20.lean` relate the (partly regenerated) model to.  Core Lean only.
-/
import PomerolModel.Model.Lattice

namespace Pomerol.Model.LatSpec
open Pomerol.Model.Lat

/-- every factor of the term refers to a known site and to an orbital and spin inside that site's range -/
def validTerm {K : Type} (L : Lattice K) (t : Term K) : Bool :=
  (List.range t.order).all fun i =>
    L.sites.any fun s => s.label == t.labels.getD i "" && decide (t.orbs.getD i 0 < s.norb) && decide (t.spins.getD i 0 < s.nspin)

def siteOf {K : Type} (L : Lattice K) (l : String) : Option Site := L.sites.find? (·.label == l)

/-- on-site Coulomb / level presets need the site -/
def definedOnSite {K : Type} (L : Lattice K) (l : String) : Bool := (siteOf L l).isSome

/-- the multi-orbital (Kanamori) interaction needs at least two orbitals and two spins -/
def definedCoulombP {K : Type} (L : Lattice K) (l : String) : Bool :=
  match siteOf L l with
  | some s => decide (2 ≤ s.norb) && decide (2 ≤ s.nspin)
  | none => false

/-- magnetic splitting: spin-1/2 sites only -/
def definedMagnetization {K : Type} (L : Lattice K) (l : String) : Bool :=
  match siteOf L l with
  | some s => s.nspin == 2
  | none => false

/-- SzSz / SS exchange and the all-orbital hopping: both sites exist and have the same shape; exchange needs spin 1/2 -/
def definedExchange {K : Type} (L : Lattice K) (l1 l2 : String) : Bool :=
  match siteOf L l1, siteOf L l2 with
  | some a, some b => a.norb == b.norb && a.nspin == b.nspin && a.nspin == 2
  | _, _ => false

def definedHoppingAll {K : Type} (L : Lattice K) (l1 l2 : String) : Bool :=
  match siteOf L l1, siteOf L l2 with
  | some a, some b => a.norb == b.norb && a.nspin == b.nspin
  | _, _ => false

def definedHoppingOrb {K : Type} (L : Lattice K) (l1 l2 : String) (o1 o2 : Nat) : Bool :=
  match siteOf L l1, siteOf L l2 with
  | some a, some b => decide (o1 < a.norb) && decide (o2 < b.norb) && a.nspin == b.nspin
  | _, _ => false

def definedHoppingFull {K : Type} (L : Lattice K) (l1 l2 : String) (o1 o2 s1 s2 : Nat) : Bool :=
  match siteOf L l1, siteOf L l2 with
  | some a, some b => decide (o1 < a.norb) && decide (o2 < b.norb) && decide (s1 < a.nspin) && decide (s2 < b.nspin)
  | _, _ => false

/-- spin-flip and pair-hopping terms need two different orbitals and two different spins -/
def definedSpinflip (o1 o2 s1 s2 : Nat) : Bool := o1 != o2 && s1 != s2

/-- every stored term is valid -/
def allValid {K : Type} (L : Lattice K) : Bool := L.terms.all fun (_, ts) => ts.all (validTerm L)

/-- the storage is keyed by the order of the terms it holds -/
def keyedByOrder {K : Type} (L : Lattice K) : Bool := L.terms.all fun (n, ts) => ts.all fun t => t.order == n

end Pomerol.Model.LatSpec
