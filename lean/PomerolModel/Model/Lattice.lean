/-
  Model of `Lattice`, `Lattice::TermStorage`, `Lattice::Term::Presets` and `LatticePresets`
  (src/pomerol/Lattice.cpp, src/pomerol/LatticePresets.cpp).

  The operator sequences, label/orbital/spin arrays, the coefficient expressions, the argument
  guards of every preset and the direction of the test in `Lattice::getSite` are taken from
  `Generated/Presets.lean`, i.e. from the C++ source of the tree under verification; the loop
  structure of the `add*` functions is modelled by hand.  Core Lean only.
-/
import PomerolModel.Generated.Presets

namespace Pomerol.Model.Lat
open Pomerol.Gen.Presets

/-- `std::abs(x)` used as a truth value: "the amplitude is not zero". -/
class NonzeroTest (K : Type) where
  nz : K → Bool

inductive Exc where
  | wrongLabel      -- Lattice::exWrongLabel
  | wrongIndices    -- Lattice::Term::Presets::exWrongIndices
  | ub              -- dereference of `end()` (undefined behaviour)
  deriving DecidableEq, Repr, Inhabited

structure Site where
  label : String
  norb : Nat
  nspin : Nat
  deriving DecidableEq, Repr, Inhabited

structure Term (K : Type) where
  /-- `OperatorSequence`: `true` = creation -/
  ops : List Bool
  labels : List String
  orbs : List Nat
  spins : List Nat
  value : K
  deriving Repr, Inhabited

instance {K : Type} [DecidableEq K] : DecidableEq (Term K) := by
  intro a b; cases a; cases b; simp only [Term.mk.injEq]; exact inferInstance

def Term.order {K : Type} (t : Term K) : Nat := t.ops.length

structure Lattice (K : Type) where
  /-- `std::map<std::string, Site*>`: sorted by label, unique labels -/
  sites : List Site
  /-- `std::map<unsigned, TermList>`: sorted by order; each list in insertion order -/
  terms : List (Nat × List (Term K))
  maxOrder : Nat
  deriving Repr, Inhabited

def empty {K : Type} : Lattice K := ⟨[], [], 0⟩

/-- `Sites[label] = S` on a sorted association list. -/
def insertSite (s : Site) : List Site → List Site
  | [] => [s]
  | t :: rest =>
    if s.label = t.label then s :: rest
    else if s.label < t.label then s :: t :: rest
    else t :: insertSite s rest

def addSite {K : Type} (L : Lattice K) (label : String) (norb nspin : Nat) : Lattice K :=
  { L with sites := insertSite ⟨label, norb, nspin⟩ L.sites }

def findSite {K : Type} (L : Lattice K) (label : String) : Option Site :=
  L.sites.find? (·.label = label)

/-- `Lattice::getSite` (the direction of its test comes from the source). -/
def getSite {K : Type} (L : Lattice K) (label : String) : Except Exc Site :=
  match findSite L label with
  | some s => if getSiteThrowsOnMissing then .ok s else .error .wrongLabel
  | none => if getSiteThrowsOnMissing then .error .wrongLabel else .error .ub

def insertTermList {K : Type} (n : Nat) (t : Term K) : List (Nat × List (Term K)) → List (Nat × List (Term K))
  | [] => [(n, [t])]
  | (m, l) :: rest =>
    if n = m then (m, l ++ [t]) :: rest
    else if n < m then (n, [t]) :: (m, l) :: rest
    else (m, l) :: insertTermList n t rest

/-- `TermStorage::addTerm`: no validation, no zero filter. -/
def storeTerm {K : Type} (L : Lattice K) (t : Term K) : Lattice K :=
  { L with terms := insertTermList t.order t L.terms, maxOrder := if L.maxOrder < t.order then t.order else L.maxOrder }

/-- `TermStorage::getTerms(N)`. -/
def getTerms {K : Type} (L : Lattice K) (n : Nat) : List (Term K) :=
  match L.terms.find? (·.1 = n) with
  | some (_, l) => l
  | none => []

/-- The validation loop of `Lattice::addTerm`: first offending factor decides. -/
def validateTerm {K : Type} (L : Lattice K) (t : Term K) : Bool :=
  (List.range t.order).all fun i =>
    match findSite L (t.labels.getD i "") with
    | none => false
    | some s => decide (t.orbs.getD i 0 < s.norb) && decide (t.spins.getD i 0 < s.nspin)

section
variable {K : Type} [Add K] [Sub K] [Mul K] [Div K] [Neg K] [Zero K] [One K] [NatCast K] [NonzeroTest K]

/-- `Lattice::addTerm(const Term*)`: every failed check throws `exWrongLabel` and leaves the lattice unchanged;
zero-amplitude terms are ignored. -/
def addTerm (L : Lattice K) (t : Term K) : Except Exc (Lattice K) :=
  if !validateTerm L t then .error .wrongLabel
  else if NonzeroTest.nz t.value then .ok (storeTerm L t) else .ok L

/-! ### `Lattice::Term::Presets` -/

def mkTerm (ops : List Bool) (slots : List Nat) (l1 l2 : String) (orbs spins : List Nat) (v : K) : Term K :=
  { ops := ops, labels := slots.map (fun s => if s = 1 then l1 else l2), orbs := orbs, spins := spins, value := v }

def tHopping (l1 l2 : String) (v : K) (o1 o2 s1 s2 : Nat) : Term K :=
  mkTerm hoppingOps hoppingLabels l1 l2 (hoppingOrbs o1 o2) (hoppingSpins s1 s2) v

def tLevel (l : String) (v : K) (o s : Nat) : Term K :=
  mkTerm levelOps levelLabels l l (levelOrbs o o) (levelSpins s s) v

def tNupNdown (l1 l2 : String) (v : K) (o1 o2 s1 s2 : Nat) : Term K :=
  if l1 = l2 && nupndownDegenerate o1 o2 s1 s2 then tLevel l1 v o1 s1
  else mkTerm nupndownOps nupndownLabels l1 l2 (nupndownOrbs o1 o2) (nupndownSpins s1 s2) v

def tSpinflip (l : String) (v : K) (o1 o2 s1 s2 : Nat) : Except Exc (Term K) :=
  if spinflipRejects o1 o2 s1 s2 then .error .wrongIndices
  else .ok (mkTerm spinflipOps spinflipLabels l l (spinflipOrbs o1 o2) (spinflipSpins s1 s2) v)

def tPairHopping (l : String) (v : K) (o1 o2 s1 s2 : Nat) : Except Exc (Term K) :=
  if pairhoppingRejects o1 o2 s1 s2 then .error .wrongIndices
  else .ok (mkTerm pairhoppingOps pairhoppingLabels l l (pairhoppingOrbs o1 o2) (pairhoppingSpins s1 s2) v)

def tSplusSminus (l1 l2 : String) (v : K) (o : Nat) : Term K :=
  mkTerm splussminusOps splussminusLabels l1 l2 (splussminusOrbs o o) (splussminusSpins 0 0) v

def tSminusSplus (l1 l2 : String) (v : K) (o : Nat) : Term K :=
  { tSplusSminus l1 l2 v o with spins := sminussplusSpins }

/-! ### `LatticePresets::add*` -/

def excOfCode : Nat → Exc
  | 0 => .wrongLabel
  | _ => .wrongIndices

/-- first guard that fires -/
def firstGuard : List (Bool × Nat) → Option Exc
  | [] => none
  | (true, c) :: _ => some (excOfCode c)
  | (false, _) :: rest => firstGuard rest

structure GuardEnv where
  m1 : Bool
  m2 : Bool
  orbsz1 : Int
  orbsz2 : Int
  spinsz1 : Int
  spinsz2 : Int

def guardEnv (L : Lattice K) (l1 l2 : String) : GuardEnv :=
  let a := findSite L l1
  let b := findSite L l2
  { m1 := a.isNone, m2 := b.isNone,
    orbsz1 := (a.map (·.norb)).getD 0, orbsz2 := (b.map (·.norb)).getD 0,
    spinsz1 := (a.map (·.nspin)).getD 0, spinsz2 := (b.map (·.nspin)).getD 0 }

/-- nested counted loops as folds over `List.range` -/
def forRange {σ : Type} (n : Nat) (s : σ) (f : σ → Nat → σ) : σ := (List.range n).foldl f s

def addCoulombS (L : Lattice K) (label : String) (U level : K) : Except Exc (Lattice K) :=
  let g := guardEnv L label label
  match firstGuard (addCoulombSGuards g.m1 g.m2 g.orbsz1 g.orbsz2 g.spinsz1 g.spinsz2 0 0 0 0) with
  | some e => .error e
  | none =>
    let norb := g.orbsz1.toNat
    let nspin := g.spinsz1.toNat
    .ok <| forRange norb L fun L i => forRange nspin L fun L z1 =>
      let L := if NonzeroTest.nz level then storeTerm L (tLevel label level i z1) else L
      forRange z1 L fun L z2 =>
        if NonzeroTest.nz U then storeTerm L (tNupNdown label label U i i z1 z2) else L

def addCoulombP (L : Lattice K) (label : String) (U Up J level : K) : Except Exc (Lattice K) :=
  let g := guardEnv L label label
  match firstGuard (addCoulombPGuards g.m1 g.m2 g.orbsz1 g.orbsz2 g.spinsz1 g.spinsz2 0 0 0 0) with
  | some e => .error e
  | none =>
    let norb := g.orbsz1.toNat
    let nspin := g.spinsz1.toNat
    (List.range norb).foldlM (fun L i => (List.range nspin).foldlM (fun L z1 => do
      let L := if NonzeroTest.nz level then storeTerm L (tLevel label level i z1) else L
      let L := forRange norb L fun L j =>
        if i ≠ j then storeTerm L (tNupNdown label label (addCoulombP_sameSpin Up J) i j z1 z1) else L
      (List.range z1).foldlM (fun L z2 => do
        let L := if NonzeroTest.nz U then storeTerm L (tNupNdown label label U i i z1 z2) else L
        (List.range norb).foldlM (fun L j =>
          if i ≠ j then do
            let L := if NonzeroTest.nz Up then storeTerm L (tNupNdown label label Up i j z1 z2) else L
            if NonzeroTest.nz J then do
              let t1 ← tSpinflip label (addCoulombP_spinflip J) i j z1 z2
              let t2 ← tPairHopping label (addCoulombP_pairhop J) i j z1 z2
              pure (storeTerm (storeTerm L t1) t2)
            else pure L
          else pure L) L) L) L) L

/-- the 5-argument overload: `U' = U − 2J` -/
def addCoulombP' (L : Lattice K) (label : String) (U J level : K) : Except Exc (Lattice K) :=
  addCoulombP L label U (addCoulombP_Up U J) J level

def addLevel (L : Lattice K) (label : String) (level : K) : Except Exc (Lattice K) :=
  let g := guardEnv L label label
  match firstGuard (addLevelGuards g.m1 g.m2 g.orbsz1 g.orbsz2 g.spinsz1 g.spinsz2 0 0 0 0) with
  | some e => .error e
  | none =>
    .ok <| forRange g.orbsz1.toNat L fun L i => forRange g.spinsz1.toNat L fun L z =>
      if NonzeroTest.nz level then storeTerm L (tLevel label level i z) else L

def addMagnetization (L : Lattice K) (label : String) (mH : K) : Except Exc (Lattice K) :=
  let g := guardEnv L label label
  match firstGuard (addMagnetizationGuards g.m1 g.m2 g.orbsz1 g.orbsz2 g.spinsz1 g.spinsz2 0 0 0 0) with
  | some e => .error e
  | none =>
    .ok <| forRange g.orbsz1.toNat L fun L i =>
      storeTerm (storeTerm L (tLevel label (addMagnetization_up mH) i spinUp))
        (tLevel label (addMagnetization_down mH) i spinDown)

/-- the loop of `addSzSz` (shared with `addSS`) -/
def szszLoop (L : Lattice K) (l1 l2 : String) (Jx : K) (norb : Nat) : Lattice K :=
  forRange norb L fun L i =>
    let L := storeTerm L (tNupNdown l1 l2 (addSzSz_updown Jx) i i spinUp spinDown)
    let L := storeTerm L (tNupNdown l1 l2 (addSzSz_downup Jx) i i spinDown spinUp)
    if l1 ≠ l2 then
      storeTerm (storeTerm L (tNupNdown l1 l2 (addSzSz_upup Jx) i i spinUp spinUp))
        (tNupNdown l1 l2 (addSzSz_downdown Jx) i i spinDown spinDown)
    else
      storeTerm (storeTerm L (tLevel l1 (addSzSz_levelUp Jx) i spinUp)) (tLevel l1 (addSzSz_levelDown Jx) i spinDown)

def addSzSz (L : Lattice K) (l1 l2 : String) (Jx : K) : Except Exc (Lattice K) :=
  let g := guardEnv L l1 l2
  match firstGuard (addSzSzGuards g.m1 g.m2 g.orbsz1 g.orbsz2 g.spinsz1 g.spinsz2 0 0 0 0) with
  | some e => .error e
  | none => .ok (szszLoop L l1 l2 Jx g.orbsz1.toNat)

def addSS (L : Lattice K) (l1 l2 : String) (Jx : K) : Except Exc (Lattice K) :=
  let g := guardEnv L l1 l2
  match firstGuard (addSSGuards g.m1 g.m2 g.orbsz1 g.orbsz2 g.spinsz1 g.spinsz2 0 0 0 0) with
  | some e => .error e
  | none =>
    match addSzSz L l1 l2 Jx with
    | .error e => .error e
    | .ok L1 =>
      .ok <| forRange g.orbsz1.toNat L1 fun L i =>
        storeTerm (storeTerm L (tSplusSminus l1 l2 (addSS_plusminus Jx) i)) (tSminusSplus l1 l2 (addSS_minusplus Jx) i)

/-- `conjv` is `conj` in the complex build and the identity in the real build. -/
def addHoppingFull (conjv : K → K) (L : Lattice K) (l1 l2 : String) (t : K) (o1 o2 s1 s2 : Nat) : Except Exc (Lattice K) :=
  let g := guardEnv L l1 l2
  match firstGuard (addHoppingFullGuards g.m1 g.m2 g.orbsz1 g.orbsz2 g.spinsz1 g.spinsz2 o1 o2 s1 s2) with
  | some e => .error e
  | none => do
    let L1 ← addTerm L (tHopping l1 l2 t o1 o2 s1 s2)
    addTerm L1 (tHopping l2 l1 (conjv t) o2 o1 s2 s1)

def addHoppingOrb (conjv : K → K) (L : Lattice K) (l1 l2 : String) (t : K) (o1 o2 : Nat) : Except Exc (Lattice K) :=
  let g := guardEnv L l1 l2
  match firstGuard (addHoppingOrbGuards g.m1 g.m2 g.orbsz1 g.orbsz2 g.spinsz1 g.spinsz2 o1 o2 0 0) with
  | some e => .error e
  | none => (List.range g.spinsz1.toNat).foldlM (fun L z => addHoppingFull conjv L l1 l2 t o1 o2 z z) L

def addHoppingAll (conjv : K → K) (L : Lattice K) (l1 l2 : String) (t : K) : Except Exc (Lattice K) :=
  let g := guardEnv L l1 l2
  match firstGuard (addHoppingAllGuards g.m1 g.m2 g.orbsz1 g.orbsz2 g.spinsz1 g.spinsz2 0 0 0 0) with
  | some e => .error e
  | none =>
    (List.range g.spinsz1.toNat).foldlM (fun L z =>
      (List.range g.orbsz1.toNat).foldlM (fun L i => addHoppingFull conjv L l1 l2 t i i z z) L) L

end
end Pomerol.Model.Lat
