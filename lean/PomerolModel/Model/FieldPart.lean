/-
  Executable model of the LOOP STRUCTURE of the eigenbasis field operators:

  * `FieldOperatorPart::compute`                           (src/pomerol/FieldOperatorPart.cpp)
  * the copy made by `FieldOperatorContainer::computeAll`  (src/pomerol/FieldOperatorContainer.cpp)

  `FieldOperatorPart::compute` for the part `<to| O |from>` (`to = HTo.getBlockNumber()` is the LEFT
  block, `from = HFrom.getBlockNumber()` the RIGHT block):
  ```
  MatrixType RightMat(fromStates.size(), fromStates.size());  RightMat.setZero();
  MatrixType LeftMat (toStates.size(),   fromStates.size());  LeftMat.setZero();
  for (CurrentState = fromStates.begin(); CurrentState < fromStates.end(); CurrentState++) {
      FockState K = *CurrentState;
      std::map<FockState, MelemType> result1 = O->actRight(K);
      if (result1.size()) {
          FockState L = result1.begin()->first;                // ONLY the first entry of the map
          int sign = int(std::real(result1.begin()->second));  // its amplitude, TRUNCATED to an int
          if (L != ERROR_FOCK_STATE && std::abs(sign) > epsilon) {
              InnerQuantumState l = S.getInnerState(L), k = S.getInnerState(K);
              for (n = 0; n < toStates.size(); n++)   LeftMat(n,k)  = std::conj(HTo.getMatrixElement(l,n));
              for (m = 0; m < fromStates.size(); m++) RightMat(k,m) = RealType(sign) * HFrom.getMatrixElement(k,m);
          }
      }
  }
  elementsRowMajor = (LeftMat * RightMat).sparseView(MatrixElementTolerance);
  elementsRowMajor.prune(MatrixElementTolerance);    // real build only
  elementsColMajor = elementsRowMajor;
  ```
  Points the model keeps:
  * `S.getInnerState(L)` is the position of `L` inside ITS OWN block (whatever block that is), not inside
    the block `to`; it THROWS `exWrongState` for a state that is not classified.  It is the parameter
    `getInner` (`none` = throws); `computeBlocks` instantiates it with `Symm.innerState`.  If `L` lies
    in a block different from `to`, the source silently reads row `l` of the WRONG eigenvector matrix
    -- or reads out of range when `l ≥ HTo.H.rows()` (error `outOfRange` here).
  * `HTo.getMatrixElement(l,n) = H(l,n)` of the `HamiltonianPart` AFTER diagonalisation: first index =
    Fock (inner) index, second index = eigenstate.  `H` has `dim` rows and columns; after
    `Hamiltonian::reduce` `dim` is SMALLER than the block size, and the loops `n < toStates.size()`,
    `m < fromStates.size()` then read past the end: error `outOfRange`.
  * the amplitude is truncated to an `int` (`truncInt`), the test `std::abs(sign) > epsilon` on an `int`
    is `sign ≠ 0`, and `L != ERROR_FOCK_STATE` always holds for a key of the map returned by `actRight`.
  * Eigen's `sparseView(reference)` keeps the entries that are not "much smaller than" the reference:
    the test `kept`; `prune` applies a test of the same kind to the stored entries.
  * `elementsColMajor = elementsRowMajor` re-sorts the stored entries by column (`toColMajor`).

  The scalar sort `K` (= `MelemType`) is abstract: ring operations, the tests of `CoefTest` used by
  `actRight`, and the four operations of `FieldScalar`.  Core Lean only.
-/
import PomerolModel.Model.Symm
import PomerolModel.Model.GFPart

namespace Pomerol.Model.FieldPart
open Pomerol.Model.GFPart (SpMat SpVec)

inductive Err where
  /-- `StatesClassification::getInnerState` throws `exWrongState` -/
  | wrongState
  /-- element access outside a dense Eigen matrix: undefined behaviour in the source -/
  | outOfRange
  deriving DecidableEq, Repr

/-- The operations on matrix elements used by `FieldOperatorPart::compute` and by the adjoint copy,
besides `+` and `*`. -/
class FieldScalar (K : Type) where
  /-- `std::conj` (the identity in the real build) -/
  conj : K → K
  /-- `int(std::real(x))` (real build: the implicit conversion `int sign = x`) -/
  truncInt : K → Int
  /-- `RealType(sign)`, promoted to `MelemType` by the product -/
  ofInt : Int → K
  /-- the entry survives `sparseView(MatrixElementTolerance)` / `prune(MatrixElementTolerance)` -/
  kept : K → Bool

/-- results can be compared (used to evaluate concrete runs with `decide`) -/
instance exceptDecEq {ε α : Type} [DecidableEq ε] [DecidableEq α] : DecidableEq (Except ε α) :=
  fun a b =>
    match a, b with
    | .ok x, .ok y =>
      if h : x = y then isTrue (by rw [h]) else isFalse (by intro h'; cases h'; exact h rfl)
    | .error x, .error y =>
      if h : x = y then isTrue (by rw [h]) else isFalse (by intro h'; cases h'; exact h rfl)
    | .ok _, .error _ => isFalse (by intro h; cases h)
    | .error _, .ok _ => isFalse (by intro h; cases h)

/-- `for (k = k0; k < k0 + n; ++k) acc = body k acc` (`n` iterations remain). -/
def loop {σ : Type} (body : Nat → σ → Except Err σ) : Nat → Nat → σ → Except Err σ
  | 0, _, acc => .ok acc
  | n + 1, k, acc =>
    match body k acc with
    | .ok acc' => loop body n (k + 1) acc'
    | .error e => .error e

/-- a dense matrix, entries addressed as `M row col`; the bounds are checked where it is accessed -/
abbrev Dense (K : Type) := Nat → Nat → K

/-- `M(r,c) = v` -/
def Dense.set {K : Type} (M : Dense K) (r c : Nat) (v : K) : Dense K :=
  fun i j => if i = r ∧ j = c then v else M i j

/-- what `FieldOperatorPart` sees of a `HamiltonianPart`: the dense matrix `H` (after `compute`: the
eigenvectors are its columns) and its number of rows (= columns) -/
structure HPart (K : Type) where
  dim : Nat
  U : Nat → Nat → K

/-- `HamiltonianPart::getMatrixElement(m, n) = H(m,n)` -/
def HPart.getMatrixElement {K : Type} (h : HPart K) (m n : Nat) : Except Err K :=
  if m < h.dim ∧ n < h.dim then .ok (h.U m n) else .error .outOfRange

/-- the two stored copies of a part: `rows × cols`, `elementsRowMajor` (one compressed vector of
`(column, value)` pairs per row), `elementsColMajor` (one vector of `(row, value)` pairs per column) -/
structure Stored (K : Type) where
  rows : Nat
  cols : Nat
  rowMajor : SpMat K
  colMajor : SpMat K
  deriving DecidableEq, Repr

section
variable {K : Type} [Add K] [Sub K] [Mul K] [Neg K] [Zero K] [One K] [CoefTest K] [FieldScalar K]

/-- `LeftMat(n,k) = std::conj(HTo.getMatrixElement(l,n))` -/
def leftBody (hTo : HPart K) (l k : Nat) (n : Nat) (Lm : Dense K) : Except Err (Dense K) :=
  match hTo.getMatrixElement l n with
  | .ok v => .ok (Lm.set n k (FieldScalar.conj v))
  | .error e => .error e

/-- `RightMat(k,m) = RealType(sign) * HFrom.getMatrixElement(k,m)` -/
def rightBody (hFrom : HPart K) (sign : Int) (k : Nat) (m : Nat) (Rm : Dense K) :
    Except Err (Dense K) :=
  match hFrom.getMatrixElement k m with
  | .ok v => .ok (Rm.set k m (FieldScalar.ofInt sign * v))
  | .error e => .error e

/-- the body of the loop over `fromStates` for the state `Kst`; `st = (LeftMat, RightMat)` -/
def visit (getInner : Nat → Option Nat) (toSize fromSize : Nat) (hTo hFrom : HPart K) (op : Poly K)
    (st : Dense K × Dense K) (Kst : Nat) : Except Err (Dense K × Dense K) :=
  -- result1 = O->actRight(K); if (result1.size())
  match actPoly op Kst with
  | [] => .ok st
  | (L, amp) :: _ =>
    let sign : Int := FieldScalar.truncInt amp
    -- std::abs(sign) > epsilon, on an int
    if sign = 0 then .ok st else
    -- l = S.getInnerState(L), k = S.getInnerState(K)
    match getInner L, getInner Kst with
    | some l, some k =>
      -- the writes LeftMat(n,k), RightMat(k,m) need k < fromStates.size()
      if k < fromSize then
        -- for (n = 0; n < toStates.size(); n++)
        match loop (leftBody hTo l k) toSize 0 st.1 with
        | .ok Lm =>
          -- for (m = 0; m < fromStates.size(); m++)
          match loop (rightBody hFrom sign k) fromSize 0 st.2 with
          | .ok Rm => .ok (Lm, Rm)
          | .error e => .error e
        | .error e => .error e
      else .error .outOfRange
    | _, _ => .error .wrongState

/-- `for (CurrentState = fromStates.begin(); CurrentState < fromStates.end(); CurrentState++)` -/
def fillStates (getInner : Nat → Option Nat) (toSize fromSize : Nat) (hTo hFrom : HPart K)
    (op : Poly K) : List Nat → Dense K × Dense K → Except Err (Dense K × Dense K)
  | [], st => .ok st
  | Kst :: rest, st =>
    match visit getInner toSize fromSize hTo hFrom op st Kst with
    | .ok st' => fillStates getInner toSize fromSize hTo hFrom op rest st'
    | .error e => .error e

/-- `LeftMat` and `RightMat` after the loop (both start as zero matrices) -/
def leftRight (getInner : Nat → Option Nat) (toStates fromStates : List Nat) (hTo hFrom : HPart K)
    (op : Poly K) : Except Err (Dense K × Dense K) :=
  fillStates getInner toStates.length fromStates.length hTo hFrom op fromStates
    (fun _ _ => 0, fun _ _ => 0)

/-- entry `(n,m)` of the dense product `A * B` with `inner` columns of `A` / rows of `B` -/
def mulEntry (inner : Nat) (A B : Dense K) (n m : Nat) : K :=
  (List.range inner).foldl (fun acc k => acc + A n k * B k m) 0

/-- `M.sparseView(tol)` evaluated into a row-major matrix -/
def sparseRows (rows cols : Nat) (M : Dense K) : SpMat K :=
  (List.range rows).map fun n =>
    (List.range cols).filterMap fun m =>
      if FieldScalar.kept (M n m) then some (m, M n m) else none

/-- `prune(tol)` -/
def prune (A : SpMat K) : SpMat K := A.map fun v => v.filter fun p => FieldScalar.kept p.2

/-- `elementsColMajor = elementsRowMajor`: column `m` lists, by increasing row `n`, the value row `n`
stores for column `m` -/
def toColMajor (cols : Nat) (A : SpMat K) : SpMat K :=
  (List.range cols).map fun m =>
    (List.range A.length).filterMap fun n =>
      match (A.getD n []).find? (fun p => p.1 == m) with
      | some p => some (n, p.2)
      | none => none

/-- the dense product `LeftMat * RightMat` of `FieldOperatorPart::compute` (before `sparseView`) -/
def computeDense (getInner : Nat → Option Nat) (toStates fromStates : List Nat) (hTo hFrom : HPart K)
    (op : Poly K) : Except Err (Dense K) :=
  match leftRight getInner toStates fromStates hTo hFrom op with
  | .ok (Lm, Rm) => .ok (mulEntry fromStates.length Lm Rm)
  | .error e => .error e

/-- `FieldOperatorPart::compute`.  `realBuild`: `POMEROL_COMPLEX_MATRIX_ELEMENTS` is NOT defined
(the extra `prune`). -/
def compute (realBuild : Bool) (getInner : Nat → Option Nat) (toStates fromStates : List Nat)
    (hTo hFrom : HPart K) (op : Poly K) : Except Err (Stored K) :=
  match computeDense getInner toStates fromStates hTo hFrom op with
  | .ok D =>
    let rm0 := sparseRows toStates.length fromStates.length D
    let rm := if realBuild then prune rm0 else rm0
    .ok { rows := toStates.length, cols := fromStates.length, rowMajor := rm,
          colMajor := toColMajor fromStates.length rm }
  | .error e => .error e

/-- `FieldOperatorPart::compute` inside the library: `getInner = S.getInnerState`
(`Symm.innerState`), `toStates = S.getFockStates(to)`, `fromStates = S.getFockStates(from)`,
`hpart b` = the `HamiltonianPart` of block `b`. -/
def computeBlocks (realBuild : Bool) (blkOf : List Nat) (blocks : List (List Nat))
    (hpart : Nat → HPart K) (to «from» : Nat) (op : Poly K) : Except Err (Stored K) :=
  compute realBuild (Symm.innerState blkOf blocks) (blocks.getD to []) (blocks.getD «from» [])
    (hpart to) (hpart «from») op

/-- The copy made by `FieldOperatorContainer::computeAll`:
```
c.part.elementsRowMajor = cdag.part.getColMajorValue().adjoint();
c.part.elementsColMajor = cdag.part.getRowMajorValue().adjoint();
```
The adjoint of a column-major matrix IS a row-major matrix with the same storage and conjugated values
(column `m` of `c†` becomes row `m` of `c`). -/
def adjointCopy (s : Stored K) : Stored K :=
  { rows := s.cols, cols := s.rows,
    rowMajor := s.colMajor.map fun v => v.map fun p => (p.1, FieldScalar.conj p.2),
    colMajor := s.rowMajor.map fun v => v.map fun p => (p.1, FieldScalar.conj p.2) }

/-- `coeff(r, c)` of the row-major copy: the stored value, `0` when nothing is stored -/
def Stored.coeffRow (s : Stored K) (r c : Nat) : K :=
  match (s.rowMajor.getD r []).find? (fun p => p.1 == c) with
  | some p => p.2
  | none => 0

/-- `coeff(r, c)` of the column-major copy -/
def Stored.coeffCol (s : Stored K) (r c : Nat) : K :=
  match (s.colMajor.getD c []).find? (fun p => p.1 == r) with
  | some p => p.2
  | none => 0

end

/-! ### the adjoint of a symbolic operator (for the statement about the container's copy) -/

/-- `(o₁ o₂ … o_k)† = o_k† … o₂† o₁†` -/
def adjMono (m : Mono) : Mono := (m.map Op.flip).reverse

/-- the adjoint polynomial: adjoint monomials, conjugated coefficients (as a plain list of terms; it
is only ever ACTED with, and `actRight` does not depend on the order of the terms) -/
def adjPoly {K : Type} [FieldScalar K] (p : Poly K) : Poly K :=
  p.map fun mc => (adjMono mc.1, FieldScalar.conj mc.2)

/-! ### exact integer scalars (used for concrete evaluations; `open scoped Pomerol.Model.FieldPart.IntScalars`) -/

namespace IntScalars
/-- exact tests on `Int`: negligible = zero -/
scoped instance intCoefTest : CoefTest Int :=
  ⟨fun x => decide (x = 0), fun x => decide (x ≠ 0), fun x => decide (x = 0)⟩
/-- real integer matrix elements: `conj = id`, no truncation, an entry is kept iff it is non-zero -/
scoped instance intFieldScalar : FieldScalar Int := ⟨id, id, id, fun x => decide (x ≠ 0)⟩
end IntScalars

end Pomerol.Model.FieldPart
