/-
  C-style counted loops `for (long i = lo; cond(i); ++i) body` as fuelled structural recursion,
  together with the invariant rule used by all models.  Core Lean only.
-/
namespace Pomerol.Model

/-- `for (i = start; cond i; ++i) s := body i s`, with explicit fuel.  Running out of fuel while
the condition still holds is the error `oof` (every use comes with a proof that it does not
happen). -/
def forLoop {σ ε : Type} (oof : ε) (cond : Int → Bool) (body : Int → σ → Except ε σ) :
    Nat → Int → σ → Except ε σ
  | 0, i, s => if cond i then .error oof else .ok s
  | fuel + 1, i, s =>
    if cond i then
      match body i s with
      | .ok s' => forLoop oof cond body fuel (i + 1) s'
      | .error e => .error e
    else .ok s

/-- Invariant rule: if the condition is `i < hi` on `[lo, ∞)`, the body preserves `Inv` and does
not fail on `[lo, hi)`, and the fuel covers `hi - lo`, then the loop terminates normally in a
state satisfying `Inv (max lo hi)`. -/
theorem forLoop_spec {σ ε : Type} (oof : ε) (cond : Int → Bool) (body : Int → σ → Except ε σ)
    (Inv : Int → σ → Prop) (hi : Int)
    (hbody : ∀ i s, i < hi → Inv i s → ∃ s', body i s = .ok s' ∧ Inv (i + 1) s') :
    ∀ (fuel : Nat) (lo : Int) (s : σ),
      (∀ i, lo ≤ i → (cond i = true ↔ i < hi)) →
      hi - lo ≤ fuel → Inv lo s →
      ∃ s', forLoop oof cond body fuel lo s = .ok s' ∧ Inv (if lo ≤ hi then hi else lo) s' := by
  intro fuel
  induction fuel with
  | zero =>
    intro lo s hc hf hinv
    have hn : ¬ lo < hi := by omega
    have : cond lo = false := by
      cases h : cond lo with
      | false => rfl
      | true => exact absurd ((hc lo (Int.le_refl _)).mp h) hn
    refine ⟨s, by simp [forLoop, this], ?_⟩
    by_cases hle : lo ≤ hi
    · have : lo = hi := by omega
      subst this; simpa using hinv
    · simpa [hle] using hinv
  | succ n ih =>
    intro lo s hc hf hinv
    by_cases hlt : lo < hi
    · have hct : cond lo = true := (hc lo (Int.le_refl _)).mpr hlt
      obtain ⟨s1, hb, hinv1⟩ := hbody lo s hlt hinv
      have hc' : ∀ i, lo + 1 ≤ i → (cond i = true ↔ i < hi) := fun i hi' => hc i (by omega)
      obtain ⟨s2, hrun, hinv2⟩ := ih (lo + 1) s1 hc' (by omega) hinv1
      refine ⟨s2, by simp [forLoop, hct, hb, hrun], ?_⟩
      have h1 : lo + 1 ≤ hi := by omega
      have h2 : lo ≤ hi := by omega
      simpa [h1, h2] using hinv2
    · have : cond lo = false := by
        cases h : cond lo with
        | false => rfl
        | true => exact absurd ((hc lo (Int.le_refl _)).mp h) hlt
      refine ⟨s, by simp [forLoop, this], ?_⟩
      by_cases hle : lo ≤ hi
      · have : lo = hi := by omega
        subst this; simpa using hinv
      · simpa [hle] using hinv

/-- The usual case `lo ≤ hi`: the loop ends in `Inv hi`. -/
theorem forLoop_spec' {σ ε : Type} (oof : ε) (cond : Int → Bool) (body : Int → σ → Except ε σ)
    (Inv : Int → σ → Prop) (hi : Int)
    (hbody : ∀ i s, i < hi → Inv i s → ∃ s', body i s = .ok s' ∧ Inv (i + 1) s')
    (fuel : Nat) (lo : Int) (s : σ)
    (hc : ∀ i, lo ≤ i → (cond i = true ↔ i < hi))
    (hf : hi - lo ≤ fuel) (hle : lo ≤ hi) (hinv : Inv lo s) :
    ∃ s', forLoop oof cond body fuel lo s = .ok s' ∧ Inv hi s' := by
  obtain ⟨s', h1, h2⟩ := forLoop_spec oof cond body Inv hi hbody fuel lo s hc hf hinv
  refine ⟨s', h1, ?_⟩
  simpa [hle] using h2

end Pomerol.Model
