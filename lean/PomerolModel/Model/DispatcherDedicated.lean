/-
  Model of the job dispatcher in its *dedicated master* use
  (src/mpi_dispatcher/mpi_dispatcher.cpp; the usage pattern of test/mpi_dispatcher_test_nomaster.cpp):

      rank 0:   MPIMaster master(comm, jobs, /*include_boss=*/false);
                for (; !master.is_finished();) { master.order(); master.check_workers(); }
      rank r>0: MPIWorker worker(comm, 0);
                for (; !worker.is_finished();) { worker.receive_order();
                    if (worker.is_working()) { run(worker.current_job()); worker.report_job_done(); } }

  The master does not work; its worker pool is the ranks `1 .. P-1`.  Workers are numbered here by
  their pool index `i = rank - 1` (`worker_pool[i] = i + 1`, a bijection), `N = P - 1 ≥ 1` of them.
  As in `Model/Dispatcher.lean` a step is `(rank, sees)`: the rank performs its next
  `request::test()` with that outcome and runs deterministically up to its following `test()`.

  The three conditions that steer the master -- the loop condition `is_finished()`, the condition
  of the Finish phase in `check_workers()` and the loop condition of `order()` -- are NOT written
  here: they are taken from `Generated/Disp.lean`, which the translator regenerates from the source
  on every run.

  Core Lean only.
-/
import PomerolModel.Model.Dispatcher
import PomerolModel.Generated.Disp

namespace Pomerol.Model.DispD
open Pomerol.Model.Disp (Msg WStatus Worker orderLoop)

structure MasterD where
  /-- `JobStack`, top first -/
  jobs : List Nat
  /-- `WorkerStack` (pool indices), top first -/
  idle : List Nat
  /-- `wait_statuses[i]` is an active request -/
  wait : List Bool
  /-- `workers_finish` -/
  fin : List Bool
  /-- `DispatchMap` as an association list (job, pool index), most recent assignment first -/
  dmap : List (Nat × Nat)
  /-- the master's next test is `wait_statuses[next].test()` -/
  next : Nat := 0
  /-- the master has left its loop -/
  exited : Bool := false
  deriving DecidableEq, Repr, Inhabited

structure SysD where
  /-- number of workers (`Nprocs`) -/
  N : Nat
  m : MasterD
  ws : List Worker
  /-- master → worker FIFO channels -/
  down : List (List Msg)
  /-- worker → master completion tokens in flight -/
  up : List Nat
  /-- ghost: executed (job, pool index), oldest first -/
  log : List (Nat × Nat)
  deriving DecidableEq, Repr, Inhabited

/-- number of `workers_finish` flags that are set (`std::accumulate` over the vector) -/
def nFinished (s : SysD) : Nat := s.m.fin.count true

/-- `MPIMaster::is_finished()` as the source has it (generated). -/
def isFinished (s : SysD) : Bool :=
  Pomerol.Gen.Disp.masterIsFinished (nFinished s) s.N s.m.idle.length s.m.jobs.isEmpty s.m.idle.isEmpty

/-- condition of the Finish phase of `check_workers()` as the source has it (generated). -/
def finishCond (s : SysD) : Bool :=
  Pomerol.Gen.Disp.finishCondition (nFinished s) s.N s.m.idle.length s.m.jobs.isEmpty s.m.idle.isEmpty

/-- The loop of `MPIMaster::order()` is modelled by `Disp.orderLoop` (continue while both stacks are
non-empty); this is what the source says: -/
theorem orderCondition_matches_orderLoop (a b c : Int) (jobsEmpty idleEmpty : Bool) :
    Pomerol.Gen.Disp.orderCondition a b c jobsEmpty idleEmpty = (!idleEmpty && !jobsEmpty) := rfl

/-- The Finish phase of `Model/Dispatcher.lean` (`Disp.finishPhase`) uses the condition the source has. -/
theorem finishCondition_matches_finishPhase (a b c : Int) (jobsEmpty idleEmpty : Bool) :
    Pomerol.Gen.Disp.finishCondition a b c jobsEmpty idleEmpty = (jobsEmpty && decide (c ≥ b)) := rfl

def init0 (N : Nat) (jobOrder : List Nat) : SysD :=
  { N := N,
    m := { jobs := jobOrder, idle := List.range N, wait := List.replicate N false,
           fin := List.replicate N false, dmap := [] },
    ws := List.replicate N {},
    down := List.replicate N [],
    up := List.replicate N 0,
    log := [] }

def order (s : SysD) : SysD :=
  let (jobs, idle, wait, dmap, down) := orderLoop s.m.jobs s.m.idle s.m.wait s.m.dmap s.down
  { s with m := { s.m with jobs := jobs, idle := idle, wait := wait, dmap := dmap }, down := down }

/-- The part of `check_workers` after the polling loop. -/
def finishPhase (s : SysD) : SysD :=
  if finishCond s then
    let down := (List.range s.N).foldl
      (fun d i => if s.m.fin.getD i false then d else d.set i ((d.getD i []) ++ [Msg.finish])) s.down
    { s with m := { s.m with fin := List.replicate s.N true }, down := down }
  else s

/-- Evaluation of the master's loop condition followed, when the loop goes on, by `order()`. -/
def loopHead (s : SysD) : SysD :=
  if isFinished s then { s with m := { s.m with exited := true, next := 0 } }
  else order { s with m := { s.m with next := 0 } }

/-- Initial state: the master evaluates its loop condition for the first time and (normally) hands
out the first batch of jobs before its first `test()`. -/
def init (N : Nat) (jobOrder : List Nat) : SysD := loopHead (init0 N jobOrder)

/-- `MPIWorker::receive_order`, the job and `report_job_done` of worker `i`; the loop condition is
re-evaluated right away, so a worker that has received `Finish` has left its loop. -/
def workerTest (s : SysD) (i : Nat) (sees : Bool) : Option SysD :=
  match s.ws[i]? with
  | none => none
  | some w =>
    if w.exited || w.st ≠ .pending then none else
    let res : Option (Worker × List (List Msg)) :=
      if sees then
        match s.down.getD i [] with
        | [] => none
        | Msg.work j :: rest => some ({ w with st := .work, cur := some j }, s.down.set i rest)
        | Msg.finish :: rest => some ({ w with st := .finish }, s.down.set i rest)
      else some (w, s.down)
    match res with
    | none => none
    | some (w1, down1) =>
      let (w2, up2, log2) :=
        if w1.st = .work then
          ({ w1 with st := WStatus.pending }, s.up.set i (s.up.getD i 0 + 1), s.log ++ [(w1.cur.getD 0, i)])
        else (w1, s.up, s.log)
      let w3 := if w2.st = .finish then { w2 with exited := true } else w2
      some { s with ws := s.ws.set i w3, down := down1, up := up2, log := log2 }

/-- One `wait_statuses[k].test()` of `check_workers` and, after the last one, the Finish phase, the
loop condition and the `order()` of the next iteration. -/
def masterTest (s : SysD) (sees : Bool) : Option SysD :=
  if s.m.exited then none else
  let k := s.m.next
  let s1 : Option SysD :=
    if sees then
      if s.m.wait.getD k false && decide (s.up.getD k 0 > 0) then
        some { s with m := { s.m with wait := s.m.wait.set k false, idle := k :: s.m.idle },
                      up := s.up.set k (s.up.getD k 0 - 1) }
      else none
    else some s
  match s1 with
  | none => none
  | some s1 =>
    if k + 1 < s.N then some { s1 with m := { s1.m with next := k + 1 } }
    else some (loopHead (finishPhase s1))

/-- A step `(rank, sees)`: rank 0 is the master, rank `r > 0` the worker with pool index `r - 1`. -/
def step (s : SysD) (r : Nat) (sees : Bool) : Option SysD :=
  if r = 0 then masterTest s sees else workerTest s (r - 1) sees

def run : SysD → List (Nat × Bool) → Option SysD
  | s, [] => some s
  | s, (r, b) :: rest => match step s r b with
    | none => none
    | some s' => run s' rest

def allExited (s : SysD) : Bool := s.m.exited && s.ws.all (·.exited)

end Pomerol.Model.DispD
