/-
  Executable model of the spectrum bookkeeping of `Hamiltonian` / `HamiltonianPart`:

  * `HamiltonianPart::getMinimumEigenvalue` (`Eigenvalues.minCoeff()`), `HamiltonianPart::reduce`
                                                              (src/pomerol/HamiltonianPart.cpp)
  * `Hamiltonian::computeGroundEnergy`, `Hamiltonian::getEigenValues`,
    `Hamiltonian::getEigenValue(QuantumState)`, `Hamiltonian::reduce`
                                                              (src/pomerol/Hamiltonian.cpp)

  A `HamiltonianPart` is represented by its vector `Eigenvalues` (a `List R`, in the order the
  eigensolver returns them); `parts : List (List R)` is `Hamiltonian::parts` in block order.

  Points the model keeps:
  * `minCoeff()` of an EMPTY Eigen vector is undefined behaviour (an assertion in debug builds): error
    `emptyVector`.  It happens for an empty block, and for `LEV.minCoeff()` when there is no block.
  * `computeGroundEnergy` allocates `LEV` with `S.NumberOfBlocks()` entries but loops over
    `parts.size()`: with fewer parts (e.g. `compute` without `prepare`: no parts at all) entries of `LEV`
    stay uninitialised (error `uninitialised`), with more parts it writes past the end (`outOfRange`).
  * `getEigenValues` allocates `S.getNumberOfStates()` entries and copies the eigenvalues of the parts
    one after the other; after `reduce` fewer values are copied and the tail is uninitialised.
  * `getEigenValue(state)`: `S.getInnerState(state)` and `S.getBlockNumber(state)` throw `exWrongState`
    for an unknown state; `Eigenvalues(inner)` past the end (after `reduce`) is undefined behaviour.

  The 1×1 special case of `HamiltonianPart::compute` (`Eigenvalues << H(0,0); H(0,0) = 1`) is covered by
  `C03.one_by_one_block`.  Core Lean only.
-/
import PomerolModel.Model.Symm

namespace Pomerol.Model.HamSpectrum

inductive Err where
  /-- `minCoeff()` of an empty vector -/
  | emptyVector
  /-- an entry of a freshly allocated Eigen vector is read before it was written -/
  | uninitialised
  /-- access past the end of a vector -/
  | outOfRange
  /-- `StatesClassification` throws `exWrongState` -/
  | wrongState
  deriving DecidableEq, Repr

section
variable {R : Type} [LT R] [DecidableLT R]

/-- Eigen's `minCoeff()`: start with the first coefficient, replace it by every later coefficient that
is `<` the current minimum -/
def minCoeff : List R → Except Err R
  | [] => .error .emptyVector
  | x :: xs => .ok (xs.foldl (fun m v => if v < m then v else m) x)

/-- `HamiltonianPart::getMinimumEigenvalue` -/
def getMinimumEigenvalue (eigenvalues : List R) : Except Err R := minCoeff eigenvalues

/-- the loop of `computeGroundEnergy`: `LEV(CurrentBlock) = parts[CurrentBlock]->getMinimumEigenvalue()`;
returns the entries of `LEV` written so far -/
def levLoop : List (List R) → List R → Except Err (List R)
  | [], lev => .ok lev
  | ev :: rest, lev =>
    match getMinimumEigenvalue ev with
    | .ok m => levLoop rest (lev ++ [m])
    | .error e => .error e

/-- `Hamiltonian::computeGroundEnergy`; `nblocks = S.NumberOfBlocks()` is the size of `LEV` -/
def computeGroundEnergy (nblocks : Nat) (parts : List (List R)) : Except Err R :=
  if parts.length > nblocks then .error .outOfRange else
  match levLoop parts [] with
  | .ok lev =>
    if parts.length < nblocks then .error .uninitialised else minCoeff lev
  | .error e => .error e

/-- the ground energy when `parts.size() == S.NumberOfBlocks()` (what `Hamiltonian::prepare`
establishes); `none` = the source has undefined behaviour -/
def groundEnergy (parts : List (List R)) : Option R :=
  (computeGroundEnergy parts.length parts).toOption

/-- what the copy loop of `getEigenValues` writes: the eigenvalues of the blocks one after the other -/
def allEigenValues (parts : List (List R)) : List R :=
  parts.foldl (fun out tmp => out ++ tmp) []

/-- `Hamiltonian::getEigenValues`; `nstates = S.getNumberOfStates()` is the size of `out` -/
def getEigenValues (nstates : Nat) (parts : List (List R)) : Except Err (List R) :=
  let out := allEigenValues parts
  if out.length > nstates then .error .outOfRange
  else if out.length < nstates then .error .uninitialised
  else .ok out

/-- `Hamiltonian::getEigenValue(QuantumState state)`:
`getPart(S.getBlockNumber(state)).getEigenValue(S.getInnerState(state))` -/
def eigenValueOfState (blkOf : List Nat) (blocks : List (List Nat)) (parts : List (List R))
    (state : Nat) : Except Err R :=
  -- InnerState = S.getInnerState(state)
  match Symm.innerState blkOf blocks state with
  | none => .error .wrongState
  | some inner =>
    -- S.getBlockNumber(state)
    match blkOf[state]? with
    | none => .error .wrongState
    | some b =>
      -- *parts[b]
      match parts[b]? with
      | none => .error .outOfRange
      | some ev =>
        -- Eigenvalues(InnerState)
        match ev[inner]? with
        | none => .error .outOfRange
        | some e => .ok e

end

section
variable {R : Type} [LE R] [DecidableLE R]

/-- `HamiltonianPart::reduce(ActualCutoff)`: `counter` = length of the leading run of eigenvalues
`<= ActualCutoff`; when it is non-zero the eigenvalues are cut to the first `counter` (and `true` is
returned), otherwise nothing changes -/
def reducePart (cutoff : R) (eigenvalues : List R) : List R × Bool :=
  let counter := (eigenvalues.takeWhile fun e => decide (e ≤ cutoff)).length
  if counter = 0 then (eigenvalues, false) else (eigenvalues.take counter, true)

end

/-- `Hamiltonian::reduce(Cutoff)`: every part is cut at `GroundEnergy + Cutoff` -/
def reduceAll {R : Type} [LE R] [DecidableLE R] [Add R] (groundEnergy cutoff : R)
    (parts : List (List R)) : List (List R) :=
  parts.map fun ev => (reducePart (groundEnergy + cutoff) ev).1

end Pomerol.Model.HamSpectrum
