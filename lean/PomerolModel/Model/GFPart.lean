/-
  Executable model of the LOOP STRUCTURE of the single-particle Green's function:

  * `GreensFunctionPart::compute` (src/pomerol/GreensFunctionPart.cpp): for every value `index1` of the
    outer index, an Eigen inner iterator `Cinner` over row `index1` of the row-major block of `C` and an
    inner iterator `CXinner` over column `index1` of the column-major block of `CX` are walked in
    parallel; where the two inner indices coincide a term is created from the two stored values,
    otherwise the iterator that is behind chases the other one.
  * `GreensFunction::prepare` (src/pomerol/GreensFunction.cpp): the left view of the block bimap of `C`
    (sorted by the LEFT block index) and the right view of the block bimap of `CX` (sorted by the RIGHT
    block index) are walked in parallel, comparing `Cleft` with `CXright`; a part is created when
    `Cleft == CXright && Cright == CXleft` (and one of the two blocks is retained).

  Sparse data: a compressed inner vector (one row of a row-major matrix / one column of a column-major
  matrix) is the list of its stored `(inner index, value)` pairs in storage order; a sparse matrix is the
  list of its inner vectors, one for every value of the outer index.

  As in `Model/Chase.lean` an iterator is a position in the inner vector, `it.index()` / `it.value()`
  on an exhausted iterator is an explicit error, and the flags saying whether the two advancing `for`
  loops test the iterator before reading its index are taken from `Generated/CoreFlags.lean`.
  The index logic literally uses `Chase.indexAt` and `Chase.advance`.  Core Lean only.
-/
import PomerolModel.Model.Chase
import PomerolModel.Model.TermList
import PomerolModel.Generated.GFFormulas

namespace Pomerol.Model.GFPart
open Pomerol.Model.Chase

/-- a compressed inner vector: stored `(inner index, value)` pairs in storage order -/
abbrev SpVec (V : Type) := List (Nat × V)

/-- a compressed sparse matrix: one inner vector for every value of the outer index -/
abbrev SpMat (V : Type) := List (SpVec V)

/-- what the loop body sees when the two inner indices coincide:
`(index1, index2, Cinner.value(), CXinner.value())` -/
abbrev Contribution (V : Type) := Nat × Nat × V × V

section Loop
variable {V : Type}

/-- the inner indices of an inner vector (Eigen's `innerIndexPtr` segment) -/
def indices (l : SpVec V) : List Nat := l.map Prod.fst

/-- `it.value()` -/
def valueAt (l : SpVec V) (pos : Nat) : Except Err V :=
  match l[pos]? with
  | some p => .ok p.2
  | none => .error .readPastEnd

/-- The `while(Cinner && CXinner)` loop for one value of the outer index.  `a` is row `index1` of the
row-major block of `C`, `b` is column `index1` of the column-major block of `CX`; `pa`, `pb` are the
two iterators, `acc` the contributions emitted so far.  `gCX`, `gC`: whether the `for` loop advancing
`CXinner` (resp. `Cinner`) tests the iterator before reading its index.  `keep` is the test guarding
`Terms.add_term` (in the source: `abs(Residue) > MatrixElementTolerance`). -/
def rowWalk (gCX gC : Bool) (keep : Nat → Nat → V → V → Bool) (index1 : Nat) (a b : SpVec V) :
    Nat → Nat → Nat → List (Contribution V) → Except Err (List (Contribution V))
  | 0, _, _, _ => .error .fuel
  | fuel + 1, pa, pb, acc =>
    -- while(Cinner && CXinner)
    if pa ≥ a.length ∨ pb ≥ b.length then .ok acc else
    -- C_index2 = Cinner.index(); CX_index2 = CXinner.index();
    match indexAt (indices a) pa, indexAt (indices b) pb with
    | .ok x, .ok y =>
      if x = y then
        -- Cinner.value(), CXinner.value(); test; add_term; ++Cinner; ++CXinner
        match valueAt a pa, valueAt b pb with
        | .ok c, .ok cx =>
          rowWalk gCX gC keep index1 a b fuel (pa + 1) (pb + 1)
            (if keep index1 x c cx then acc ++ [(index1, x, c, cx)] else acc)
        | .error e, _ => .error e
        | _, .error e => .error e
      else if y < x then
        -- for(;CXinner && CXinner.index()<C_index2; ++CXinner);
        match advance gCX (indices b) x (b.length + 1) pb with
        | .ok pb' => rowWalk gCX gC keep index1 a b fuel pa pb' acc
        | .error e => .error e
      else
        -- for(;Cinner && Cinner.index()<CX_index2; ++Cinner);
        match advance gC (indices a) y (a.length + 1) pa with
        | .ok pa' => rowWalk gCX gC keep index1 a b fuel pa' pb acc
        | .error e => .error e
    | .error e, _ => .error e
    | _, .error e => .error e

/-- `for(index1 = …; index1 < outerSize; ++index1)`: `n` iterations remain.  Constructing an inner
iterator for an outer index the matrix does not have is an error. -/
def outerLoop (gCX gC : Bool) (keep : Nat → Nat → V → V → Bool) (C CX : SpMat V) :
    Nat → Nat → List (Contribution V) → Except Err (List (Contribution V))
  | 0, _, acc => .ok acc
  | n + 1, index1, acc =>
    match C[index1]?, CX[index1]? with
    | some a, some b =>
      match rowWalk gCX gC keep index1 a b (a.length + b.length + 1) 0 0 acc with
      | .ok acc' => outerLoop gCX gC keep C CX n (index1 + 1) acc'
      | .error e => .error e
    | _, _ => .error .readPastEnd

/-- `GreensFunctionPart::compute`: `C` is the row-major block of the annihilation operator (outer index
= row), `CX` the column-major block of the creation operator (outer index = column);
`outerSize = Cmatrix.outerSize()`.  Returns the contributions for which a term is added, in the order
in which they are added. -/
def compute (gCX gC : Bool) (keep : Nat → Nat → V → V → Bool) (C CX : SpMat V) :
    Except Err (List (Contribution V)) :=
  outerLoop gCX gC keep C CX C.length 0 []

/-- the flags of the two advancing loops of `GreensFunctionPart::compute` as extracted from the source -/
def sourceGuardCX : Bool := (Pomerol.Gen.Core.chaseGuardFirst[0]?).getD false
def sourceGuardC : Bool := (Pomerol.Gen.Core.chaseGuardFirst[1]?).getD false

/-- `compute` with the flags the source has -/
def computeSource (keep : Nat → Nat → V → V → Bool) (C CX : SpMat V) :
    Except Err (List (Contribution V)) :=
  compute sourceGuardCX sourceGuardC keep C CX

end Loop

/-! ### the terms built from the contributions (extracted formulas) -/

section Terms
variable {R K : Type} [Add R] [Sub R] [Mul R] [Div R] [Neg R] [Zero R] [One R] [NatCast R]
  [LT R] [DecidableLT R] [HasExp R]
  [Add K] [Sub K] [Mul K] [Div K] [Neg K] [Zero K] [One K] [NatCast K] [HasExp K] [CplxOver R K]

/-- `Term(Residue, Pole)` for one contribution: `wOuter = DMpartOuter.getWeight`,
`wInner = DMpartInner.getWeight`, `eOuter = HpartOuter.getEigenValue`,
`eInner = HpartInner.getEigenValue` -/
def toTerm (wOuter wInner eOuter eInner : Nat → R) (p : Contribution K) : TermList.Term K R :=
  { res := Gen.GF.residue p.2.2.1 p.2.2.2 (wOuter p.1) (wInner p.2.1),
    pole := Gen.GF.pole (eInner p.2.1) (eOuter p.1) }

/-- `abs(Residue) > MatrixElementTolerance` -/
def keepResidue (wOuter wInner : Nat → R) (tol : R) : Nat → Nat → K → K → Bool :=
  fun index1 index2 c cx =>
    Gen.GF.residueKept (Gen.GF.residue c cx (wOuter index1) (wInner index2)) tol

/-- the sequence of terms handed to `Terms.add_term` by `GreensFunctionPart::compute` -/
def computeTerms (gCX gC : Bool) (wOuter wInner eOuter eInner : Nat → R) (tol : R)
    (C CX : SpMat K) : Except Err (List (TermList.Term K R)) :=
  match compute gCX gC (keepResidue wOuter wInner tol) C CX with
  | .ok l => .ok (l.map (toTerm wOuter wInner eOuter eInner))
  | .error e => .error e

end Terms

/-! ### `GreensFunction::prepare` -/

/-- The merge walk of `GreensFunction::prepare`.  Both bimap views are given as lists of
`(left block, right block)` pairs (`<left|Op|right>` is a non-trivial block): `c` is
`CNontrivialBlocks.left` (in the order of the LEFT index), `cx` is `CXNontrivialBlocks.right` (in the
order of the RIGHT index).  `retained = DM.isRetained`.  Returns the `(Cleft, Cright)` pairs for which
a `GreensFunctionPart` is created, in order of creation. -/
def prepareWalk (retained : Nat → Bool) :
    Nat → List (Nat × Nat) → List (Nat × Nat) → Except Err (List (Nat × Nat))
  | 0, _, _ => .error .fuel
  | _ + 1, [], _ => .ok []
  | _ + 1, _ :: _, [] => .ok []
  | fuel + 1, (cl, cr) :: c, (cxl, cxr) :: cx =>
    -- Cleft = cl, Cright = cr, CXleft = cxl, CXright = cxr
    let out : List (Nat × Nat) :=
      if cl = cxr ∧ cr = cxl then (if retained cl || retained cr then [(cl, cr)] else []) else []
    -- if(CleftInt <= CXrightInt) Citer++;  if(CleftInt >= CXrightInt) CXiter++;
    let c' := if cl ≤ cxr then c else (cl, cr) :: c
    let cx' := if cl ≥ cxr then cx else (cxl, cxr) :: cx
    match prepareWalk retained fuel c' cx' with
    | .ok rest => .ok (out ++ rest)
    | .error e => .error e

/-- `GreensFunction::prepare`: the list of block pairs `(Cleft, Cright)` of the parts created -/
def prepare (retained : Nat → Bool) (c cx : List (Nat × Nat)) : Except Err (List (Nat × Nat)) :=
  prepareWalk retained (c.length + cx.length + 1) c cx

/-! ### `GreensFunction::compute` -/

section Whole
variable {R K : Type} [Add R] [Sub R] [Mul R] [Div R] [Neg R] [Zero R] [One R] [NatCast R]
  [LT R] [DecidableLT R] [HasExp R]
  [Add K] [Sub K] [Mul K] [Div K] [Neg K] [Zero K] [One K] [NatCast K] [HasExp K] [CplxOver R K]

/-- `for(iter = parts.begin(); …) (*iter)->compute();` -- the term sequences of the parts, in order -/
def computeParts (partTerms : Nat → Nat → Except Err (List (TermList.Term K R))) :
    List (Nat × Nat) → Except Err (List (List (TermList.Term K R)))
  | [] => .ok []
  | (l, r) :: ps =>
    match partTerms l r with
    | .ok ts =>
      match computeParts partTerms ps with
      | .ok rest => .ok (ts :: rest)
      | .error e => .error e
    | .error e => .error e

/-- `GreensFunction::prepare` followed by `GreensFunction::compute`.  The part created for
`(Cleft, Cright)` gets `C.getPartFromLeftIndex(Cleft)` (`Cblk Cleft Cright`: row-major block
`<Cleft|c|Cright>`), `CX.getPartFromRightIndex(Cleft)` (`CXblk Cright Cleft`: column-major block
`<Cright|c†|Cleft>`), `HpartInner = H.getPart(Cright)`, `HpartOuter = H.getPart(Cleft)`, and likewise
for the density-matrix parts; `w b n` / `E b n` are the weight / energy of state `n` of block `b`. -/
def greensFunctionTerms (gCX gC : Bool) (retained : Nat → Bool) (c cx : List (Nat × Nat))
    (w E : Nat → Nat → R) (tol : R) (Cblk CXblk : Nat → Nat → SpMat K) :
    Except Err (List (List (TermList.Term K R))) :=
  match prepare retained c cx with
  | .ok parts =>
    computeParts (fun l r => computeTerms gCX gC (w l) (w r) (E l) (E r) tol (Cblk l r) (CXblk r l))
      parts
  | .error e => .error e

end Whole

end Pomerol.Model.GFPart
