/-
  Faithful executable model of pomerol's symbolic operator algebra
  (include/pomerol/Operator.h, src/pomerol/Operator.cpp, src/pomerol/OperatorPresets.cpp).

  * `Op`      = `boost::tuple<op_type, ParticleIndex>` (creation sorts before annihilation, then index)
  * `Mono`    = `std::vector<composite_index_t>`
  * `Poly K`  = `std::map<monomial_t, MelemType>` as an association list sorted by the map's order
                (size first, then lexicographic)
  * Fock states are `Nat` bit masks (= `boost::dynamic_bitset::to_ulong`).

  The coefficient type is abstract: the models use only `+ - * neg 0 1` and the three tolerance tests
  of the C++ code (`CoefTest`).  Core Lean only.
-/
namespace Pomerol.Model

/-- The tolerance tests applied to coefficients in Operator.h / Operator.cpp.
For an exact ring they are instantiated by `x = 0` / `x ≠ 0` (idealisation); for `Float` literally. -/
class CoefTest (K : Type) where
  /-- `std::abs(x) < 100*epsilon`  (erase_zero_monomial, operator*=(alpha), operator==) -/
  negl100 : K → Bool
  /-- `std::abs(x) > epsilon`  (actRight filter) -/
  aboveEps : K → Bool
  /-- `std::abs(x) < epsilon`  (`__is_zero`) -/
  belowEps : K → Bool

structure Op where
  /-- `false` = creation (enum value 0), `true` = annihilation (enum value 1) -/
  ann : Bool
  idx : Nat
  deriving DecidableEq, Repr, Inhabited

/-- `boost::tuple` lexicographic `<`. -/
def Op.lt (a b : Op) : Bool :=
  (!a.ann && b.ann) || (a.ann == b.ann && decide (a.idx < b.idx))

def Op.flip (a : Op) : Op := { a with ann := !a.ann }

abbrev Mono := List Op

/-- `std::lexicographical_compare` with `Op.lt`. -/
def lexLt : Mono → Mono → Bool
  | [], [] => false
  | [], _ :: _ => true
  | _ :: _, [] => false
  | a :: as, b :: bs => if a.lt b then true else if b.lt a then false else lexLt as bs

/-- `operator<(monomial_t, monomial_t)`: size first, then lexicographic. -/
def monoLt (m1 m2 : Mono) : Bool :=
  if m1.length ≠ m2.length then decide (m1.length < m2.length) else lexLt m1 m2

abbrev Poly (K : Type) := List (Mono × K)

section
variable {K : Type} [Add K] [Sub K] [Mul K] [Neg K] [Zero K] [One K] [CoefTest K]

/-- `map.insert(make_pair(m,c))`; if the key exists: `it->second += c; erase_zero_monomial`.
A *new* key is inserted without any zero test, exactly as in the C++ code. -/
def Poly.insertAdd (m : Mono) (c : K) : Poly K → Poly K
  | [] => [(m, c)]
  | (m', c') :: rest =>
    if m = m' then
      let s := c' + c
      if CoefTest.negl100 s then rest else (m', s) :: rest
    else if monoLt m m' then (m, c) :: (m', c') :: rest
    else (m', c') :: Poly.insertAdd m c rest

/-- Same with `-=` (`operator-=`): a new key is inserted with `-c`, an existing one gets `c' - c`. -/
def Poly.insertSub (m : Mono) (c : K) : Poly K → Poly K
  | [] => [(m, -c)]
  | (m', c') :: rest =>
    if m = m' then
      let s := c' - c
      if CoefTest.negl100 s then rest else (m', s) :: rest
    else if monoLt m m' then (m, -c) :: (m', c') :: rest
    else (m', c') :: Poly.insertSub m c rest

/-- Result of one bubble pass over the working monomial. -/
inductive Pass (K : Type) where
  /-- two equal neighbours met: `return` (the monomial is zero); carries the target as it is then -/
  | zero (tgt : Poly K)
  | done (m : Mono) (coeff : K) (swapped : Bool) (tgt : Poly K)
  | oof

/-- One `for (n = 1; n < m.size(); ++n)` sweep of `normalize_and_insert` as a zipper:
`pre` = the already final prefix (reversed), `prev` = `m[n-1]`, `rest` = `m[n..]`.
`rec` is the recursive call used for contractions. -/
def passGo (rec : Mono → K → Poly K → Option (Poly K))
    (pre : List Op) (prev : Op) : List Op → K → Bool → Poly K → Pass K
  | [], coeff, sw, tgt => .done ((prev :: pre).reverse) coeff sw tgt
  | cur :: rest, coeff, sw, tgt =>
    if prev = cur then .zero tgt
    else if cur.lt prev then
      -- prev > cur : swap; contraction first when they are C and C^+ with the same index
      let tgt' : Option (Poly K) :=
        if prev = cur.flip then rec (pre.reverse ++ rest) coeff tgt else some tgt
      match tgt' with
      | none => .oof
      | some t => passGo rec (cur :: pre) prev rest (-coeff) true t
    else passGo rec (prev :: pre) cur rest coeff sw tgt

/-- `Operator::normalize_and_insert(m, coeff, target)` with explicit fuel
(`none` = fuel exhausted; `normalizeFuel` is always enough). -/
def normalizeAux : Nat → Mono → K → Poly K → Option (Poly K)
  | 0, _, _, _ => none
  | fuel + 1, m, coeff, tgt =>
    match m with
    | [] => some (Poly.insertAdd [] coeff tgt)
    | [a] => some (Poly.insertAdd [a] coeff tgt)
    | a :: b :: rest =>
      match passGo (normalizeAux fuel) [] a (b :: rest) coeff false tgt with
      | .oof => none
      | .zero t => some t
      | .done m' c' sw t =>
        if sw then normalizeAux fuel m' c' t else some (Poly.insertAdd m' c' t)

def normalizeFuel (m : Mono) : Nat := (m.length + 1) * (m.length + 1) + 1

def normalizeInsert (m : Mono) (coeff : K) (tgt : Poly K) : Option (Poly K) :=
  normalizeAux (normalizeFuel m) m coeff tgt

/-- `Operator::operator*=(Operator)`: all pairwise concatenations, normalised into a fresh map. -/
def Poly.mul (p q : Poly K) : Option (Poly K) :=
  p.foldlM (fun acc (m, c) =>
    q.foldlM (fun acc2 (m2, c2) => normalizeInsert (m ++ m2) (c * c2) acc2) acc) []

/-- `operator+=(Operator)`. -/
def Poly.add (p q : Poly K) : Poly K := q.foldl (fun acc (m, c) => Poly.insertAdd m c acc) p

/-- `operator-=(Operator)`. -/
def Poly.sub (p q : Poly K) : Poly K := q.foldl (fun acc (m, c) => Poly.insertSub m c acc) p

/-- `operator*=(MelemType alpha)`: clears the operator when `|alpha| < 100 eps`. -/
def Poly.smul (alpha : K) (p : Poly K) : Poly K :=
  if CoefTest.negl100 alpha then [] else p.map fun (m, c) => (m, c * alpha)

/-- unary minus -/
def Poly.neg (p : Poly K) : Poly K := p.map fun (m, c) => (m, -c)

/-- `operator+=(MelemType alpha)`: adds `alpha` to the empty monomial. -/
def Poly.addConst (alpha : K) (p : Poly K) : Poly K := Poly.insertAdd [] alpha p

def Poly.commutator (p q : Poly K) : Option (Poly K) := do
  let pq ← Poly.mul p q
  let qp ← Poly.mul q p
  pure (Poly.sub pq qp)

def Poly.antiCommutator (p q : Poly K) : Option (Poly K) := do
  let pq ← Poly.mul p q
  let qp ← Poly.mul q p
  pure (Poly.add pq qp)

/-- `std::equal(l.begin(), l.end(), r.begin())` on monomials: compares the first `l.size()` entries
of `r`; reading past the end of `r` is undefined behaviour (`none`). -/
def monoPrefixEq : Mono → Mono → Option Bool
  | [], _ => some true
  | _ :: _, [] => none
  | a :: as, b :: bs => if a = b then monoPrefixEq as bs else some false

/-- `operator==(value_type, value_type)`: with `lengthTest = true` the repaired comparison
(sizes must agree), with `false` the three-argument `std::equal` as originally coded. -/
def termEq (lengthTest : Bool) (l r : Mono × K) : Option Bool :=
  if lengthTest && l.1.length ≠ r.1.length then some false else
  match monoPrefixEq l.1 r.1 with
  | none => none
  | some b => some (b && CoefTest.negl100 (r.2 - l.2))

/-- `operator==(Operator, Operator)`. -/
def Poly.eqCoded (lengthTest : Bool) (p q : Poly K) : Option Bool :=
  if p.length ≠ q.length then some false else
  let rec go : Poly K → Poly K → Option Bool
    | [], _ => some true
    | _ :: _, [] => some true   -- unreachable (equal lengths)
    | a :: as, b :: bs =>
      match termEq lengthTest a b with
      | none => none
      | some false => some false
      | some true => go as bs
  go p q

/-- `Operator::commutes`. -/
def Poly.commutes (lengthTest : Bool) (p q : Poly K) : Option Bool := do
  let pq ← Poly.mul p q
  let qp ← Poly.mul q p
  Poly.eqCoded lengthTest pq qp

/-! ### Presets -/

def opC (i : Nat) : Poly K := [([⟨true, i⟩], 1)]
def opCdag (i : Nat) : Poly K := [([⟨false, i⟩], 1)]
def opN (i : Nat) : Poly K := [([⟨false, i⟩, ⟨true, i⟩], 1)]
def opNOffdiag (i j : Nat) : Poly K := [([⟨false, i⟩, ⟨true, j⟩], 1)]

/-- `OperatorPresets::N(Nmodes)` as a polynomial: `for i: *this += n(i)`. -/
def opNTotal (nmodes : Nat) : Poly K :=
  (List.range nmodes).foldl (fun acc i => Poly.add acc (opN i)) []

/-- `OperatorPresets::Sz::generateTerms`: `for i: *this += n(up_i)*0.5; *this -= n(down_i)*0.5`
(`half` is the constant 0.5 of the coefficient type). -/
def opSz (half : K) (ups downs : List Nat) : Poly K :=
  (ups.zip downs).foldl (fun acc ud =>
    Poly.sub (Poly.add acc (Poly.smul half (opN ud.1))) (Poly.smul half (opN ud.2))) []

end

/-! ### Action on Fock states (bit masks) -/

/-- Parity of the occupied modes strictly below `i` -- the sign loop of `actRight`
(`prev_pos_` is always 0 there). `true` = odd = factor −1. -/
def lowParity (s : Nat) : Nat → Bool
  | 0 => false
  | i + 1 => (lowParity s i) != (s.testBit i)

def flipBit (s i : Nat) : Nat := s ^^^ (1 <<< i)

/-- One creation/annihilation operator acting on a Fock state: `none` = Pauli principle,
otherwise the new state and whether the sign is negative. -/
def actOp (o : Op) (s : Nat) : Option (Nat × Bool) :=
  if o.ann = s.testBit o.idx then some (flipBit s o.idx, lowParity s o.idx) else none

/-- `Operator::actRight(monomial, ket)`: operators are applied from the last to the first. -/
def actMono : Mono → Nat → Option (Nat × Bool)
  | [], s => some (s, false)
  | o :: rest, s =>
    match actMono rest s with
    | none => none
    | some (s', neg) =>
      match actOp o s' with
      | none => none
      | some (s'', neg') => some (s'', neg != neg')

section
variable {K : Type} [Add K] [Sub K] [Mul K] [Neg K] [Zero K] [One K] [CoefTest K]

/-- `result1[bra] += v` on a `std::map<FockState, MelemType>` (numeric order of bit masks;
`operator[]` value-initialises a missing entry to 0). -/
def stateMapAdd (s : Nat) (v : K) : List (Nat × K) → List (Nat × K)
  | [] => [(s, 0 + v)]
  | (s', v') :: rest =>
    if s = s' then (s', v' + v) :: rest
    else if s < s' then (s, 0 + v) :: (s', v') :: rest
    else (s', v') :: stateMapAdd s v rest

/-- `Operator::actRight(ket)`. -/
def actPoly (p : Poly K) (ket : Nat) : List (Nat × K) :=
  let r1 := p.foldl (fun acc (m, c) =>
    match actMono m ket with
    | none => acc
    | some (bra, neg) =>
      let melem : K := if neg then -1 else 1
      if CoefTest.aboveEps melem then stateMapAdd bra (melem * c) acc else acc) []
  r1.filter fun (_, v) => !CoefTest.belowEps v

/-- `Operator::getMatrixElement(bra, ket)`. -/
def matrixElement (p : Poly K) (bra ket : Nat) : K :=
  match (actPoly p ket).find? (fun x => x.1 == bra) with
  | some (_, v) => v
  | none => 0

end

/-- `ket.count()` for `N::getMatrixElement`. -/
def popCount (s : Nat) (nmodes : Nat) : Nat := ((List.range nmodes).filter (s.testBit ·)).length

/-- `Sz::getMatrixElement(ket)` = (ups − downs)/2 ; returned as twice the value (an integer). -/
def szTwice (ups downs : List Nat) (s : Nat) : Int :=
  ((ups.filter (s.testBit ·)).length : Int) - ((downs.filter (s.testBit ·)).length : Int)

end Pomerol.Model
