/-
  Models of `IndexClassification` (src/pomerol/IndexClassification.cpp) and of
  `IndexHamiltonian::prepare` (src/pomerol/IndexHamiltonian.cpp).  Core Lean only.
-/
import PomerolModel.Generated.CoreFlags
import PomerolModel.Model.Lattice
import PomerolModel.Model.Operator

namespace Pomerol.Model.Idx
open Pomerol.Model Pomerol.Model.Lat Pomerol.Gen.Core

structure IndexInfo where
  label : String
  orb : Nat
  spin : Nat
  deriving DecidableEq, Repr, Inhabited

inductive IdxErr where
  | nullSlot     -- an entry of IndicesToInfo was never filled and is dereferenced
  | overflow     -- more entries written than allocated
  | wrongIndex   -- exWrongIndex
  deriving DecidableEq, Repr, Inhabited

/-- `IndicesToInfo` after the enumeration loop: a vector of `IndexSize` slots, `none` = null pointer. -/
structure Table where
  size : Nat
  slots : List (Option IndexInfo)
  deriving Repr, Inhabited

def indexSize (sites : List Site) : Nat := (sites.map fun s => s.norb * s.nspin).sum

def maxSpin (sites : List Site) : Nat := sites.foldl (fun m s => if s.nspin > m then s.nspin else m) 0

/-- entries of one site for spin `z` (orbital loop) -/
def siteSpinEntries (s : Site) (z : Nat) : List IndexInfo := (List.range s.norb).map fun i => ⟨s.label, i, z⟩

/-- the site loop of the spin-major branch for a fixed `z`; `breaks` = the source says `break`
(leave the site loop) rather than `continue` when a site has no spin `z` -/
def spinMajorSites (breaks : Bool) (z : Nat) : List Site → List IndexInfo
  | [] => []
  | s :: rest =>
    if z ≥ s.nspin then (if breaks then [] else spinMajorSites breaks z rest)
    else siteSpinEntries s z ++ spinMajorSites breaks z rest

/-- the enumeration order of `IndexClassification::prepare(order_spins)`; `sites` in `std::map` key order -/
def enumerate (sites : List Site) (orderSpins : Bool) : List IndexInfo :=
  if orderSpins then
    (List.range (maxSpin sites)).flatMap fun z => spinMajorSites spinMajorBreaks z sites
  else
    sites.flatMap fun s => (List.range s.norb).flatMap fun i => (List.range s.nspin).map fun z => ⟨s.label, i, z⟩

/-- `prepare`: the vector is resized to `IndexSize`, filled in enumeration order, then every slot is
dereferenced to build the inverse map. -/
def prepare (sites : List Site) (orderSpins : Bool) : Except IdxErr (List IndexInfo) :=
  let n := indexSize sites
  let e := enumerate sites orderSpins
  if e.length > n then .error .overflow
  else if e.length < n then .error .nullSlot
  else .ok e

/-- `getIndex`: position in the table, `IndexSize` if absent (the inverse map is keyed by the label *hash*,
orbital and spin; hash injectivity on the labels in use is an assumption checked by the harness). -/
def getIndex (tbl : List IndexInfo) (info : IndexInfo) : Nat :=
  match tbl.findIdx? (· = info) with
  | some i => i
  | none => tbl.length

def getInfo (tbl : List IndexInfo) (i : Nat) : Except IdxErr IndexInfo :=
  match tbl[i]? with
  | some x => .ok x
  | none => .error .wrongIndex

section
variable {K : Type} [Add K] [Sub K] [Mul K] [Neg K] [Zero K] [One K] [CoefTest K]

/-- the operator product of one lattice term as `IndexHamiltonian::prepare` accumulates it:
`restart = true` is the code `if (tmp.isEmpty()) tmp = t1; else tmp *= t1;` -/
def termProduct (restart : Bool) : List (Bool × Nat) → Poly K → Bool → Option (Poly K)
  | [], acc, _ => some acc
  | (cre, i) :: rest, acc, first =>
    let t1 : Poly K := if cre then opCdag i else opC i
    if (if restart then acc.isEmpty else first) then termProduct restart rest t1 false
    else match Poly.mul acc t1 with
      | none => none
      | some p => termProduct restart rest p false

/-- `IndexHamiltonian::prepare()`: orders from the largest down to 1, terms in insertion order,
`*this += Value * tmp`. -/
def indexHamiltonian (L : Lattice K) (tbl : List IndexInfo) : Option (Poly K) :=
  let orders := (List.range L.maxOrder).reverse.map (· + 1)
  orders.foldlM (fun (H : Poly K) n =>
    (getTerms L n).foldlM (fun (H : Poly K) (t : Term K) =>
      let factors := (List.range t.order).map fun i =>
        (t.ops.getD i false, getIndex tbl ⟨t.labels.getD i "", t.orbs.getD i 0, t.spins.getD i 0⟩)
      match termProduct productRestartsOnEmpty factors [] true with
      | none => none
      | some tmp => some (Poly.add H (Poly.smul t.value tmp))) H) []

end
end Pomerol.Model.Idx
