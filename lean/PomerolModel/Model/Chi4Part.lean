/-
  Executable model of the world-line enumeration of `TwoParticleGFPart::compute`
  (src/pomerol/TwoParticleGFPart.cpp), i.e. of the loops that decide WHICH quadruples of eigenstates
  `<1|O1|2><2|O2|3><3|O3|4><4|CX4|1>` reach `addMultiterm`, and with which product of matrix elements.

  What the source does (line numbers of TwoParticleGFPart.cpp):
    100-103  O1 -> RowMajor, O2 -> ColMajor, O3 -> RowMajor, CX4 -> ColMajor
    106,109  index1Max = CX4matrix.outerSize()  (columns of CX4), index3Max = O2matrix.outerSize() (columns of O2)
    114-115  for index1 < index1Max, for index3 < index3Max               (outer indices fixed by the loops)
    116-125  index4bra_iter = column index1 of CX4, index4ket_iter = row index3 of O3;
             `while (bra && ket) if (chaseIndices(ket, bra)) { Index4List.push_back(bra.index()); ++bra; ++ket; }`
    127      the rest is skipped when Index4List is empty
    134-136  index2bra_iter = column index3 of O2, index2ket_iter = row index1 of O1;
             `while (bra && ket) if (chaseIndices(ket, bra)) { ... ++bra; ++ket; }`
    143-157  for every index4 of Index4List: `if (weight1+weight2+weight3+weight4 >= CoefficientTolerance)`
             MatrixElement = index2ket_iter.value() * index2bra_iter.value()
                             * O3matrix.coeff(index3,index4) * CX4matrix.coeff(index4,index1)
             (then multiplied by Permutation.sign and handed to addMultiterm)
  `chaseIndices(it1, it2)` (lines 6-20): equal indices -> true; otherwise the iterator with the smaller
  index is advanced while it is valid and its index is below the other one, and false is returned.
  NB: `MultiTermCoefficientTolerance` is a member of the class but is NOT used by `compute`; the only
  filter between the enumeration and `addMultiterm` is the weight test of line 148 (the tests inside
  `addMultiterm` act on the coefficients of the four terms of ONE world line, after the enumeration).

  Storage model: a compressed Eigen matrix is the list of its outer vectors (rows for RowMajor, columns
  for ColMajor); an outer vector is the list of (inner index, value) in storage order.  An
  `InnerIterator` is a position in that list; `index()`/`value()` on an exhausted iterator is the
  explicit error `readPastEnd` (as in `Model/Chase.lean`, whose `advance` is re-used here), opening an
  iterator on an outer index >= outerSize() is the explicit error `outerOutOfRange`.
  `coeff(outer, inner)` returns the stored value or 0.

  Core Lean only.
-/
import PomerolModel.Model.Chase

namespace Pomerol.Model.Chi4Part
open Pomerol.Model

inductive Err where
  | chase (e : Chase.Err)
  | outerOutOfRange
  deriving DecidableEq, Repr

/-- one outer vector (row of a RowMajor / column of a ColMajor matrix): (inner index, value) in storage order -/
abbrev SpVec (K : Type) := List (Nat × K)
/-- compressed sparse matrix: the list of its outer vectors; `outerSize() = length` -/
abbrev SpMat (K : Type) := List (SpVec K)

/-- the inner indices of an outer vector (Eigen's `innerIndexPtr` slice) -/
def storedIdx {K : Type} (v : SpVec K) : List Nat := v.map Prod.fst

/-- `InnerIterator(matrix, outer)` -/
def outerVec {K : Type} (m : SpMat K) (o : Nat) : Except Err (SpVec K) :=
  match m[o]? with
  | some v => .ok v
  | none => .error .outerOutOfRange

/-- `matrix.coeff(outer, inner)` restricted to the (already opened) outer vector: stored value or 0 -/
def coeffIn {K : Type} [Zero K] (v : SpVec K) (i : Nat) : K :=
  match v.lookup i with
  | some x => x
  | none => 0

/-- `while (it1 && it2) { if (chaseIndices(it1, it2)) { BODY(it1.index(), it1.value(), it2.value()); ++it2; ++it1; } }`
`a` is the outer vector under `it1` (first argument of `chaseIndices`, the RowMajor "ket" iterator),
`b` the one under `it2` (the ColMajor "bra" iterator).  The outputs of BODY are appended to `acc`.
`guardFirst`: the advancing `for` loops of `chaseIndices` test the iterator before reading `index()`. -/
def chaseWalk {K β : Type} (guardFirst : Bool) (a b : SpVec K) (body : Nat → K → K → List β) :
    Nat → Nat → Nat → List β → Except Chase.Err (List β)
  | 0, _, _, _ => .error .fuel
  | fuel + 1, pa, pb, acc =>
    if pa ≥ a.length ∨ pb ≥ b.length then .ok acc else
    match a[pa]?, b[pb]? with
    | some (x, va), some (y, vb) =>
      if x = y then chaseWalk guardFirst a b body fuel (pa + 1) (pb + 1) (acc ++ body x va vb)
      else if y < x then
        match Chase.advance guardFirst (storedIdx b) x (b.length + 1) pb with
        | .ok pb' => chaseWalk guardFirst a b body fuel pa pb' acc
        | .error e => .error e
      else
        match Chase.advance guardFirst (storedIdx a) y (a.length + 1) pa with
        | .ok pa' => chaseWalk guardFirst a b body fuel pa' pb acc
        | .error e => .error e
    | _, _ => .error .readPastEnd

/-- the walk from the beginning of both outer vectors, with enough fuel for any input -/
def chase {K β : Type} (guardFirst : Bool) (a b : SpVec K) (body : Nat → K → K → List β) :
    Except Chase.Err (List β) :=
  chaseWalk guardFirst a b body (a.length + b.length + 1) 0 0 []

/-- a visited world line: `(index1, index2, index3, index4, <1|O1|2><2|O2|3><3|O3|4><4|CX4|1>)` -/
abbrev WorldLine (K : Type) := Nat × Nat × Nat × Nat × K

/-- body of the double loop for fixed `index1`, `index3` (lines 116-163).
`o3row` = row index3 of O3, `cx4col` = column index1 of CX4 (iterators opened at lines 116-117);
row index1 of O1 and column index3 of O2 are opened only when Index4List is not empty (lines 134-135);
`keep i1 i2 i3 i4` is the test of line 148. -/
def cell {K : Type} [Zero K] [Mul K] (guardFirst : Bool) (keep : Nat → Nat → Nat → Nat → Bool)
    (O1 O2 : SpMat K) (o3row cx4col : SpVec K) (i1 i3 : Nat) : Except Err (List (WorldLine K)) :=
  match chase guardFirst o3row cx4col (fun i4 _ _ => [i4]) with
  | .error e => .error (.chase e)
  | .ok index4List =>
    if index4List.isEmpty then .ok [] else
    match outerVec O2 i3, outerVec O1 i1 with
    | .ok o2col, .ok o1row =>
      match chase guardFirst o1row o2col (fun i2 v1 v2 =>
        (index4List.filter (keep i1 i2 i3)).map fun i4 =>
          (i1, i2, i3, i4, v1 * v2 * coeffIn o3row i4 * coeffIn cx4col i4)) with
      | .ok r => .ok r
      | .error e => .error (.chase e)
    | _, _ => .error .outerOutOfRange

/-- `for (i = 0; i < n; ++i) BODY(i)`, concatenating the outputs; stops at the first error -/
def forRange {β : Type} (f : Nat → Except Err (List β)) : Nat → Except Err (List β)
  | 0 => .ok []
  | n + 1 =>
    match forRange f n with
    | .error e => .error e
    | .ok r =>
      match f n with
      | .error e => .error e
      | .ok s => .ok (r ++ s)

/-- the enumeration of `TwoParticleGFPart::compute`: the world lines handed to `addMultiterm`, in order.
`O1`, `O3` are the RowMajor copies (outer = row), `O2`, `CX4` the ColMajor copies (outer = column). -/
def compute {K : Type} [Zero K] [Mul K] (guardFirst : Bool) (keep : Nat → Nat → Nat → Nat → Bool)
    (O1 O2 O3 CX4 : SpMat K) : Except Err (List (WorldLine K)) :=
  forRange (fun i1 => forRange (fun i3 =>
    match outerVec CX4 i1, outerVec O3 i3 with
    | .ok cx4col, .ok o3row => cell guardFirst keep O1 O2 o3row cx4col i1 i3
    | _, _ => .error .outerOutOfRange) O2.length) CX4.length

/-- what the source does in the two advancing loops of `chaseIndices` (entries 4 and 5 of the extracted table) -/
def sourceGuardFirst : Bool :=
  Pomerol.Gen.Core.chaseGuardFirst.getD 4 false && Pomerol.Gen.Core.chaseGuardFirst.getD 5 false

/-- the enumeration as the source runs it, without the weight cut-off -/
def computeAsSource {K : Type} [Zero K] [Mul K] (keep : Nat → Nat → Nat → Nat → Bool)
    (O1 O2 O3 CX4 : SpMat K) : Except Err (List (WorldLine K)) :=
  compute sourceGuardFirst keep O1 O2 O3 CX4

end Pomerol.Model.Chi4Part
