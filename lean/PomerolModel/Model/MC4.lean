/-
  Model of `MatsubaraContainer4<SourceObject>` (include/pomerol/MatsubaraContainers.h).
  All index arithmetic, loop bounds and range tests come from `Generated/MC4Formulas.lean`,
  i.e. from the C++ source of the tree under verification.  Out-of-range accesses of the
  `std::vector`s and of the Eigen matrices are explicit errors.  Core Lean only.
-/
import PomerolModel.Generated.MC4Formulas
import PomerolModel.Model.Loop

namespace Pomerol.Model.MC4
open Pomerol.Gen.MC4 Pomerol.Model

inductive Err where
  | oobWrite | oobRead | uninit | negSize | fuel
  deriving DecidableEq, Repr, Inhabited

/-- A dense matrix after `resize(rows, cols)`: entries are uninitialised (`none`) until written. -/
structure Mat (α : Type) where
  rows : Int
  cols : Int
  get : Int → Int → Option α

def Mat.resize {α : Type} (r c : Int) : Except Err (Mat α) :=
  if r < 0 ∨ c < 0 then .error .negSize else .ok ⟨r, c, fun _ _ => none⟩

def Mat.write {α : Type} (m : Mat α) (i j : Int) (v : α) : Except Err (Mat α) :=
  if 0 ≤ i ∧ i < m.rows ∧ 0 ≤ j ∧ j < m.cols then
    .ok { m with get := fun a b => if a = i ∧ b = j then some v else m.get a b }
  else .error .oobWrite

def Mat.read {α : Type} (m : Mat α) (i j : Int) : Except Err α :=
  if 0 ≤ i ∧ i < m.rows ∧ 0 ≤ j ∧ j < m.cols then
    match m.get i j with
    | some v => .ok v
    | none => .error .uninit
  else .error .oobRead

/-- The container: `Values` and `FermionicIndexOffset` are vectors of the stated sizes. -/
structure Container (α : Type) where
  N : Int
  nValues : Int
  nOffsets : Int
  values : Int → Option (Mat α)
  offsets : Int → Option Int

abbrev Source (α : Type) := Int → Int → Int → α

/-- Body of the innermost loop: one `Values[V](nu,nup) = pSource->value(n1,n2,n3)`. -/
def storeOne {α : Type} (f : Source α) (B off nu : Int) (nup : Int) (m : Mat α) : Except Err (Mat α) :=
  let n1 := fillN1 nu off
  let n2 := fillN2 B n1
  let n3 := fillN3 nup off
  m.write nu nup (f n1 n2 n3)

def fillRow {α : Type} (f : Source α) (B off S : Int) (nu : Int) (m : Mat α) : Except Err (Mat α) :=
  forLoop .fuel (fun nup => nupLoopCond nup S) (storeOne f B off nu) S.toNat nupLoopStart m

/-- Body of the loop over `BosonicIndexV`. -/
def fillSlice {α : Type} (f : Source α) (N : Int) (V : Int) (c : Container α) : Except Err (Container α) :=
  let B := bosonicIndex V N
  let S := fermionicMatrixSize B N
  if ¬ (0 ≤ V ∧ V < c.nValues) then .error .oobWrite else
  match Mat.resize (sliceRows S) (sliceCols S) with
  | .error e => .error e
  | .ok m0 =>
    if ¬ (0 ≤ V ∧ V < c.nOffsets) then .error .oobWrite else
    let off := fermionicIndexOffset B N
    match forLoop .fuel (fun nu => nuLoopCond nu S) (fillRow f B off S) S.toNat nuLoopStart m0 with
    | .error e => .error e
    | .ok m =>
      .ok { c with values := fun v => if v = V then some m else c.values v,
                   offsets := fun v => if v = V then some off else c.offsets v }

/-- `MatsubaraContainer4::fill(pSource, NumberOfMatsubaras)`. -/
def fill {α : Type} (f : Source α) (N : Int) : Except Err (Container α) :=
  if fillEmptyCond N then
    .ok ⟨N, 0, 0, fun _ => none, fun _ => none⟩
  else if valuesSize N < 0 ∨ offsetsSize N < 0 then .error .negSize
  else
    let c0 : Container α := ⟨N, valuesSize N, offsetsSize N, fun _ => none, fun _ => none⟩
    forLoop .fuel (fun V => sliceLoopCond V N) (fillSlice f N) (valuesSize N).toNat sliceLoopStart c0

/-- `MatsubaraContainer4::operator()(n1,n2,n3)`. -/
def lookup {α : Type} (c : Container α) (f : Source α) (n1 n2 n3 : Int) : Except Err α :=
  let V := lookupV n1 n2 c.N
  if lookupVInRange V c.N then
    if ¬ (0 ≤ V ∧ V < c.nOffsets) then .error .oobRead else
    match c.offsets V with
    | none => .error .uninit
    | some off =>
      let nu := lookupNu n1 off
      let nup := lookupNup n3 off
      if ¬ (0 ≤ V ∧ V < c.nValues) then .error .oobRead else
      match c.values V with
      | none => .error .uninit
      | some m =>
        if lookupInRange nu nup m.rows m.cols then m.read nu nup
        else .ok (f n1 n2 n3)
  else .ok (f n1 n2 n3)

/-- Was the triple served from the storage?  (Observable through the tagging source.) -/
def isHit {α : Type} (c : Container α) (n1 n2 n3 : Int) : Bool :=
  let V := lookupV n1 n2 c.N
  lookupVInRange V c.N &&
    match c.offsets V, c.values V with
    | some off, some m => lookupInRange (lookupNu n1 off) (lookupNup n3 off) m.rows m.cols
    | _, _ => false

end Pomerol.Model.MC4
