/-
  Model of the rank/colour bookkeeping of `TwoParticleGFContainer::computeAll_split` and of the collective
  structure of the distributed steps (src/pomerol/TwoParticleGFContainer.cpp, Hamiltonian.cpp,
  TwoParticleGF.cpp, mpi_skel.hpp).  The arithmetic and the three control-flow facts (which process is the
  root of a colour, whether parts are marked computed after the broadcast, whether `mpi_skel::run` uses the
  world communicator for its inner barrier) come from `Generated/SplitFormulas.lean`.  Core Lean only.

  What is modelled: WHO computes WHAT, who sends, who holds the reduced frequency table, which parts are
  evaluable where, and the SEQUENCE OF COLLECTIVE CALLS every rank issues on every communicator (a mismatch
  of such sequences between members of one communicator is a hang).  Not modelled: the MPI/OpenMP runtime.
-/
import PomerolModel.Generated.SplitFormulas

namespace Pomerol.Model.Par
open Pomerol.Gen.Split

/-- the root (sender) of colour `c`: first or last process with that colour, as the source says -/
def colorRoot (size ncomp c : Nat) : Option Nat :=
  let ps := (List.range size).filter fun p => procColor size ncomp p = c
  if rootIsFirst then ps.head? else ps.getLast?

/-- does process `p` compute component `i`? (`calc`) -/
def computes (size ncomp p i : Nat) : Bool := elemColor size ncomp i = procColor size ncomp p

/-- the process that holds the reduced frequency table of a colour: rank 0 of the split communicator = the
first process of the colour (MPI_Comm_split orders by key = world rank) -/
def tableHolder (size ncomp c : Nat) : Option Nat :=
  ((List.range size).filter fun p => procColor size ncomp p = c).head?

/-- the sender broadcasts what it has: the component's frequency table arrives iff the sender is the holder -/
def tableDelivered (size ncomp i : Nat) : Bool :=
  colorRoot size ncomp (elemColor size ncomp i) = tableHolder size ncomp (elemColor size ncomp i) &&
  (colorRoot size ncomp (elemColor size ncomp i)).isSome

/-- part status after the distribution phase on process `p` for component `i` (terms kept) -/
def evaluableOn (size ncomp p i : Nat) : Bool := computes size ncomp p i || marksPartsComputed

/-- Collective calls, tagged by the communicator they are issued on. -/
inductive Coll where
  | worldBarrier
  | worldSplit
  | worldBcast (root comp : Nat)
  | colourBarrier (colour : Nat)          -- a barrier on the split communicator of that colour
  | colourDispatch (colour comp : Nat)    -- one mpi_skel::run (+ reduce/broadcast) for a component inside the colour
  deriving DecidableEq, Repr

/-- what `mpi_skel::run` contributes for a component on a rank of colour `col`: its inner barrier is either on
its own (colour) communicator or on MPI_COMM_WORLD -/
def skelCalls (col comp : Nat) : List Coll :=
  if skelBarrierOnOwnComm then [Coll.colourDispatch col comp]
  else [Coll.colourDispatch col comp, Coll.worldBarrier]

/-- the sequence of collective calls rank `p` issues during `computeAll_split` with `ncomp` components (one part each) -/
def collectiveSequence (size ncomp p : Nat) : List Coll :=
  [Coll.worldBarrier, Coll.worldSplit]
  ++ ((List.range ncomp).filter (computes size ncomp p)).flatMap (skelCalls (procColor size ncomp p))
  ++ [Coll.worldBarrier]
  ++ (List.range ncomp).map (fun i => Coll.worldBcast ((colorRoot size ncomp (elemColor size ncomp i)).getD 0) i)
  ++ [Coll.worldBarrier]

/-- restriction of a rank's sequence to the world communicator -/
def worldCalls (l : List Coll) : List Coll :=
  l.filter fun c => match c with
    | .worldBarrier | .worldSplit | .worldBcast _ _ => true
    | _ => false

/-- restriction to one colour communicator -/
def colourCalls (col : Nat) (l : List Coll) : List Coll :=
  l.filter fun c => match c with
    | .colourBarrier k | .colourDispatch k _ => k == col
    | _ => false

end Pomerol.Model.Par
