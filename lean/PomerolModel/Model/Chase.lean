/-
  Model of the index-chasing loops over Eigen sparse inner iterators
  (GreensFunctionPart::compute, SusceptibilityPart::compute, chaseIndices / TwoParticleGFPart::compute).

  An inner iterator is a position in the list of inner indices of one row/column; `it.index()` on an exhausted
  iterator (position = length) reads past the end of the index array: an explicit error here.
  `guardFirst` says whether the advancing `for` loops test the iterator BEFORE calling `index()`
  (extracted from the source per call site, `Generated/CoreFlags.lean`).  Core Lean only.
-/
import PomerolModel.Generated.CoreFlags

namespace Pomerol.Model.Chase

inductive Err where
  | readPastEnd
  | fuel
  deriving DecidableEq, Repr

/-- `it.index()` -/
def indexAt (l : List Nat) (pos : Nat) : Except Err Nat :=
  match l[pos]? with
  | some x => .ok x
  | none => .error .readPastEnd

/-- `for (; <cond>; ++it);` advancing `it` while its index is below `target`.
guardFirst: `it && it.index() < target`; otherwise the index is read first (`it.index() < target [&& it]`). -/
def advance (guardFirst : Bool) (l : List Nat) (target : Nat) : Nat → Nat → Except Err Nat
  | 0, _ => .error .fuel
  | fuel + 1, pos =>
    if guardFirst && decide (pos ≥ l.length) then .ok pos else
    match indexAt l pos with
    | .error e => .error e
    | .ok x => if x < target then advance guardFirst l target fuel (pos + 1) else .ok pos

/-- the `while (A && B)` merge walk; returns the inner indices at which both have an entry, in order -/
def mergeWalk (guardFirst : Bool) (a b : List Nat) : Nat → Nat → Nat → List Nat → Except Err (List Nat)
  | 0, _, _, _ => .error .fuel
  | fuel + 1, pa, pb, acc =>
    if pa ≥ a.length ∨ pb ≥ b.length then .ok acc else
    match indexAt a pa, indexAt b pb with
    | .ok x, .ok y =>
      if x = y then mergeWalk guardFirst a b fuel (pa + 1) (pb + 1) (acc ++ [x])
      else if y < x then
        match advance guardFirst b x (b.length + 1) pb with
        | .ok pb' => mergeWalk guardFirst a b fuel pa pb' acc
        | .error e => .error e
      else
        match advance guardFirst a y (a.length + 1) pa with
        | .ok pa' => mergeWalk guardFirst a b fuel pa' pb acc
        | .error e => .error e
    | .error e, _ => .error e
    | _, .error e => .error e

/-- the loop as run by the library on one row of C and one column of CX -/
def commonIndices (guardFirst : Bool) (a b : List Nat) : Except Err (List Nat) :=
  mergeWalk guardFirst a b (a.length + b.length + 1) 0 0 []

end Pomerol.Model.Chase
